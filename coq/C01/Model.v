(* C01 — executable model of the read-fonts core reader, hand-written from the source statement by
   statement: read-fonts/src/{font_data.rs, offset.rs, array.rs, read.rs (VarSize), lib.rs (FontRef,
   CollectionRef)}, generated/font.rs (TableDirectory, TTCHeader), generated/generated_postscript.rs
   (Index1/Index2 read) + tables/postscript/index.rs, tables/loca.rs, tables/post.rs (PString),
   tables/avar.rs (SegmentMaps), tables/gvar.rs (U16Or32).
   No proofs in this file.  usize = 2^64 arithmetic is explicit (checked_* = option, saturating_*,
   unchecked `+` under overflow-checks = [Panic]).  Every Rust panic site (unwrap of Err, unchecked
   arithmetic, bytemuck cast) is an explicit [Panic] outcome. *)
From Coq Require Import ZArith List Bool.
From FV Require Import Lib.RustInt.
Import ListNotations.
Open Scope Z_scope.

Definition USIZE_MAX : Z := 18446744073709551615.
Definition ISIZE_MAX : Z := 9223372036854775807.

(* ReadError (read.rs) + postscript::Error variants reachable from the modelled code *)
Inductive err :=
| OutOfBounds | InvalidArrayLen | NullOffset | InvalidSfnt (v : Z) | InvalidTtc (t : Z)
| InvalidCollectionIndex (i : Z) | MalformedData | InvalidIndexOffsetSize (s : Z) | ZeroOffsetInIndex | InvalidNumber.

Inductive res (A : Type) := Ok (a : A) | Err (e : err) | Panic.
Arguments Ok {A} a. Arguments Err {A} e. Arguments Panic {A}.

Definition rbind {A B} (r : res A) (f : A -> res B) : res B :=
  match r with Ok a => f a | Err e => Err e | Panic => Panic end.
Notation "'rdo' x <- r ;; k" := (rbind r (fun x => k)) (at level 200, x name, r at level 100, k at level 200).
(* Result::unwrap / Option::unwrap *)
Definition unwrap {A} (r : res A) : res A := match r with Ok a => Ok a | _ => Panic end.
Definition ok_or {A} (o : option A) (e : err) : res A := match o with Some a => Ok a | None => Err e end.

(* ---- usize arithmetic ---- *)
Definition checked_add (a b : Z) : option Z := if a + b <=? USIZE_MAX then Some (a + b) else None.
Definition checked_mul (a b : Z) : option Z := if a * b <=? USIZE_MAX then Some (a * b) else None.
Definition checked_sub (a b : Z) : option Z := if b <=? a then Some (a - b) else None.
Definition checked_rem (a b : Z) : option Z := if b =? 0 then None else Some (a mod b).
Definition checked_div (a b : Z) : option Z := if b =? 0 then None else Some (a / b).
Definition sat_add (a b : Z) : Z := Z.min (a + b) USIZE_MAX.
Definition sat_sub (a b : Z) : Z := Z.max (a - b) 0.
Definition sat_mul (a b : Z) : Z := Z.min (a * b) USIZE_MAX.
(* unchecked `a + b` / `a * b` on usize in the overflow-checks profile *)
Definition add_chk (a b : Z) : res Z := if a + b <=? USIZE_MAX then Ok (a + b) else Panic.
Definition mul_chk (a b : Z) : res Z := if a * b <=? USIZE_MAX then Ok (a * b) else Panic.

(* ---- byte slices ---- *)
Definition blen (d : list Z) : Z := Z.of_nat (length d).
Definition sub (d : list Z) (a b : Z) : list Z := firstn (Z.to_nat (b - a)) (skipn (Z.to_nat a) d).
(* <[u8]>::get(a..b) *)
Definition get_range (d : list Z) (a b : Z) : option (list Z) :=
  if (a <=? b) && (b <=? blen d) then Some (sub d a b) else None.
Definition get_from (d : list Z) (a : Z) : option (list Z) := get_range d a (blen d).   (* get(a..) *)
Definition get_to (d : list Z) (b : Z) : option (list Z) := get_range d 0 b.            (* get(..b) *)

(* core::slice::index::into_range for (Bound<usize>, Bound<usize>): kind 0 = Unbounded, 1 = Included, 2 = Excluded *)
Definition bound_start (k v : Z) : option Z :=
  if k =? 0 then Some 0 else if k =? 1 then Some v else checked_add v 1.
Definition bound_end (len k v : Z) : option Z :=
  if k =? 0 then Some len else if k =? 1 then checked_add v 1 else Some v.

(* FontData::slice(range: impl RangeBounds<usize>) *)
Definition fd_slice (d : list Z) (sk s ek e : Z) : option (list Z) :=
  match bound_start sk s, bound_end (blen d) ek e with
  | Some a, Some b => get_range d a b
  | _, _ => None
  end.
(* FontData::split_off(pos) *)
Definition fd_split_off (d : list Z) (p : Z) : option (list Z) := get_from d p.
(* FontData::take_up_to(pos): Some (head, tail) — self becomes tail *)
Definition fd_take_up_to (d : list Z) (p : Z) : option (list Z * list Z) :=
  if blen d <? p then None else Some (firstn (Z.to_nat p) d, skipn (Z.to_nat p) d).

(* Scalar::read(slice): None unless the slice has exactly RAW_BYTE_LEN bytes *)
Definition scalar_read (w : Z) (s : list Z) : option Z := if blen s =? w then Some (from_be s) else None.

(* FontData::read_at::<T>(offset), T::RAW_BYTE_LEN = w; read_be_at and read_ref_at have the same shape *)
Definition read_at (w : Z) (d : list Z) (off : Z) : res Z :=
  match checked_add off w with
  | None => Err OutOfBounds
  | Some e => match get_range d off e with
              | Some s => ok_or (scalar_read w s) OutOfBounds
              | None => Err OutOfBounds
              end
  end.
Definition read_ref_at (w : Z) (d : list Z) (off : Z) : res (list Z) :=
  match checked_add off w with
  | None => Err OutOfBounds
  | Some e => ok_or (get_range d off e) OutOfBounds
  end.

(* bytemuck::cast_slice::<u8, T>: panics unless the length is a multiple of size_of::<T>() (align 1) *)
Definition cast_slice (esz : Z) (s : list Z) : res (list Z) :=
  if esz =? 0 then Panic else if blen s mod esz =? 0 then Ok s else Panic.

(* FontData::read_array::<T>(range), size_of::<T>() = esz *)
Definition read_array (esz : Z) (d : list Z) (a b : Z) : res (list Z) :=
  match get_range d a b with
  | None => Err OutOfBounds
  | Some s =>
      if negb ((match checked_rem (blen s) esz with Some r => r | None => 1 end) =? 0)
      then Err InvalidArrayLen else cast_slice esz s
  end.

(* FontData::check_in_bounds(offset) *)
Definition check_in_bounds (d : list Z) (off : Z) : res unit :=
  match get_to d off with Some _ => Ok tt | None => Err OutOfBounds end.

(* ---- Cursor ---- *)
Record cursor := mkc { cpos : Z; cdata : list Z }.
Definition cursor0 (d : list Z) : cursor := mkc 0 d.                       (* FontData::cursor *)
Definition c_advance (w : Z) (c : cursor) : cursor := mkc (sat_add (cpos c) w) (cdata c).     (* advance::<T> *)
Definition c_advance_by (n : Z) (c : cursor) : cursor := mkc (sat_add (cpos c) n) (cdata c).  (* advance_by *)
(* read::<T> / read_be::<T> *)
Definition c_read (w : Z) (c : cursor) : cursor * res Z :=
  (c_advance w c, read_at w (cdata c) (cpos c)).
(* read_array::<T>(n_elem) *)
Definition c_read_array (n esz : Z) (c : cursor) : cursor * res (list Z) :=
  match checked_mul n esz with
  | None => (c, Err OutOfBounds)
  | Some len =>
      match checked_add (cpos c) len with
      | None => (c, Err OutOfBounds)
      | Some e => (c_advance_by len c, read_array esz (cdata c) (cpos c) e)
      end
  end.
(* read_with_args::<T>(args) with T::compute_size(args) = Ok len; the result is the slice handed to T::read_with_args *)
Definition c_read_with_args (len : Z) (c : cursor) : cursor * res (list Z) :=
  match checked_add (cpos c) len with
  | None => (c, Err OutOfBounds)
  | Some e => (c_advance_by len c, ok_or (get_range (cdata c) (cpos c) e) OutOfBounds)
  end.
(* read_computed_array::<T>(len, args) with T::compute_size(args) = Ok isz; result = the array's bytes *)
Definition c_read_computed_array (n isz : Z) (c : cursor) : cursor * res (list Z) :=
  match checked_mul n isz with
  | None => (c, Err OutOfBounds)
  | Some len => c_read_with_args len c
  end.
Definition c_position (c : cursor) : res Z := rdo _ <- check_in_bounds (cdata c) (cpos c) ;; Ok (cpos c).
Definition c_remaining_bytes (c : cursor) : Z := sat_sub (blen (cdata c)) (cpos c).
Definition c_remaining (c : cursor) : option (list Z) := fd_split_off (cdata c) (cpos c).
Definition c_is_empty (c : cursor) : bool := blen (cdata c) <=? cpos c.
Definition c_finish (c : cursor) : res unit := check_in_bounds (cdata c) (cpos c).

(* read_u32_var: `next` = read::<u8>; operands are evaluated left to right, `?` returns at the first failure
   (the cursor has advanced past every attempted byte) *)
Fixpoint read_n (n : nat) (acc : Z) (c : cursor) : cursor * res Z :=
  match n with
  | O => (c, Ok acc)
  | S k => let '(c1, r) := c_read 1 c in
           match r with
           | Ok b => read_n k (acc * 256 + b) c1
           | Err e => (c1, Err e)
           | Panic => (c1, Panic)
           end
  end.
Definition c_read_u32_var (c : cursor) : cursor * res Z :=
  let '(c1, r) := c_read 1 c in
  match r with
  | Ok b0 =>
      if b0 <? 128 then (c1, Ok b0)
      else if b0 <? 192 then read_n 1 (b0 - 128) c1
      else if b0 <? 224 then read_n 2 (b0 - 192) c1
      else if b0 <? 240 then read_n 3 (b0 - 224) c1
      else read_n 4 0 c1
  | Err e => (c1, Err e)
  | Panic => (c1, Panic)
  end.

(* arbitrary cursor operation sequences (for the monotonicity / totality theorems) *)
Inductive cop :=
| OpAdvance (w : Z) | OpAdvanceBy (n : Z) | OpRead (w : Z) | OpReadArray (n esz : Z)
| OpReadWithArgs (len : Z) | OpReadComputedArray (n isz : Z) | OpReadU32Var
| OpPosition | OpRemainingBytes | OpRemaining | OpIsEmpty.
Definition flat {A} (f : A -> list Z) (r : res A) : res (list Z) :=
  match r with Ok a => Ok (f a) | Err e => Err e | Panic => Panic end.
Definition cstep (op : cop) (c : cursor) : cursor * res (list Z) :=
  match op with
  | OpAdvance w => (c_advance w c, Ok [])
  | OpAdvanceBy n => (c_advance_by n c, Ok [])
  | OpRead w => let '(c1, r) := c_read w c in (c1, flat (fun v => [v]) r)
  | OpReadArray n esz => c_read_array n esz c
  | OpReadWithArgs len => c_read_with_args len c
  | OpReadComputedArray n isz => c_read_computed_array n isz c
  | OpReadU32Var => let '(c1, r) := c_read_u32_var c in (c1, flat (fun v => [v]) r)
  | OpPosition => (c, flat (fun v => [v]) (c_position c))
  | OpRemainingBytes => (c, Ok [c_remaining_bytes c])
  | OpRemaining => (c, ok_or (c_remaining c) OutOfBounds)
  | OpIsEmpty => (c, Ok [if c_is_empty c then 1 else 0])
  end.
Fixpoint crun (ops : list cop) (c : cursor) : cursor * list (res (list Z)) :=
  match ops with
  | [] => (c, [])
  | op :: r => let '(c1, o) := cstep op c in let '(c2, os) := crun r c1 in (c2, o :: os)
  end.

(* ---- offsets (offset.rs) ---- *)
(* Offset::non_null *)
Definition non_null (o : Z) : option Z := if o =? 0 then None else Some o.
(* ResolveOffset::resolve::<FontData> : T::read = identity *)
Definition resolve_offset (o : Z) (d : list Z) : res (list Z) :=
  rdo off <- ok_or (non_null o) NullOffset ;; ok_or (fd_split_off d off) OutOfBounds.
(* ResolveNullableOffset::resolve: None for a null offset *)
Definition resolve_nullable (o : Z) (d : list Z) : option (res (list Z)) :=
  match resolve_offset o d with
  | Ok t => Some (Ok t)
  | Err NullOffset => None
  | Err e => Some (Err e)
  | Panic => Some Panic
  end.

(* ---- fixed-size records ---- *)
Fixpoint chunks_fuel (fuel : nat) (n : nat) (l : list Z) : list (list Z) :=
  match fuel with
  | O => []
  | S k => match l with [] => [] | _ => firstn n l :: chunks_fuel k n (skipn n l) end
  end.
Definition chunks (esz : Z) (l : list Z) : list (list Z) :=
  if esz <=? 0 then [] else chunks_fuel (length l) (Z.to_nat esz) l.
Definition field (r : list Z) (a w : Z) : Z := from_be (sub r a (a + w)).

(* ---- TableDirectory (generated/font.rs) ---- *)
Record tdir := mktd { td_data : list Z; td_reclen : Z }.
(* <TableDirectory as FontRead>::read *)
Definition table_directory_read (d : list Z) : res tdir :=
  let c := cursor0 d in
  let c := c_advance 4 c in
  let '(c, r) := c_read 2 c in
  rdo num_tables <- r ;;
  let c := c_advance 2 c in
  let c := c_advance 2 c in
  let c := c_advance 2 c in
  rdo bl <- ok_or (checked_mul num_tables 16) OutOfBounds ;;
  let c := c_advance_by bl c in
  rdo _ <- c_finish c ;;
  Ok (mktd d bl).
(* getters: `self.data.read_at(range.start).unwrap()`; byte ranges use unchecked `start + len` *)
Definition td_sfnt_version (t : tdir) : res Z := unwrap (read_at 4 (td_data t) 0).
Definition td_num_tables (t : tdir) : res Z := unwrap (read_at 2 (td_data t) 4).
Definition td_table_records (t : tdir) : res (list (list Z)) :=
  rdo e <- add_chk 12 (td_reclen t) ;;
  rdo s <- unwrap (read_array 16 (td_data t) 12 e) ;;
  Ok (chunks 16 s).
Definition rec_tag (r : list Z) : Z := field r 0 4.
Definition rec_offset (r : list Z) : Z := field r 8 4.
Definition rec_length (r : list Z) : Z := field r 12 4.

(* ---- FontRef (lib.rs) ---- *)
Record fontref := mkfr { fr_data : list Z; fr_dir : tdir }.
Definition TT_SFNT_VERSION : Z := 65536.          (* 0x00010000 *)
Definition CFF_SFNT_VERSION : Z := 1330926671.    (* 'OTTO' *)
Definition TRUE_SFNT_VERSION : Z := 1953658213.   (* 'true' *)
(* FontRef::with_table_directory *)
Definition with_table_directory (d : list Z) (t : tdir) : res fontref :=
  rdo v <- td_sfnt_version t ;;
  if (v =? TT_SFNT_VERSION) || (v =? CFF_SFNT_VERSION) || (v =? TRUE_SFNT_VERSION)
  then Ok (mkfr d t) else Err (InvalidSfnt v).
(* FontRef::new *)
Definition fontref_new (d : list Z) : res fontref :=
  rdo t <- table_directory_read d ;; with_table_directory d t.

(* core::slice::binary_search_by (std 1.95: branch-free loop, no early exit on Equal).
   [cmpf i] = f(&self[i]).  Some i = Ok(i), None = Err(_). *)
Fixpoint bs_loop (fuel : nat) (cmpf : Z -> comparison) (base size : Z) : Z :=
  match fuel with
  | O => base
  | S k =>
      if size <=? 1 then base
      else let half := size / 2 in
           let mid := base + half in
           let base' := match cmpf mid with Gt => base | _ => mid end in
           bs_loop k cmpf base' (size - half)
  end.
Definition binary_search (n : Z) (cmpf : Z -> comparison) : option Z :=
  if n =? 0 then None
  else let base := bs_loop (Z.to_nat n) cmpf 0 n in
       match cmpf base with Eq => Some base | _ => None end.

Definition nthz {A} (l : list A) (i : Z) : option A :=
  if (i <? 0) || (Z.of_nat (length l) <=? i) then None else nth_error l (Z.to_nat i).   (* <[T]>::get(i) *)
Definition rec_cmp (recs : list (list Z)) (tag : Z) (i : Z) : comparison :=
  match nthz recs i with Some r => Z.compare (rec_tag r) tag | None => Gt end.

(* FontRef::table_data(tag): the byte range handed to data.slice, then the slice *)
Definition table_range (f : fontref) (tag : Z) : res (option (Z * Z)) :=
  rdo recs <- td_table_records (fr_dir f) ;;
  match binary_search (Z.of_nat (length recs)) (rec_cmp recs tag) with
  | None => Ok None
  | Some idx =>
      match nthz recs idx with
      | None => Ok None
      | Some r =>
          match non_null (rec_offset r) with
          | None => Ok None
          | Some start =>
              match checked_add start (rec_length r) with
              | None => Ok None
              | Some e => Ok (Some (start, e))
              end
          end
      end
  end.
Definition table_data (f : fontref) (tag : Z) : res (option (list Z)) :=
  rdo r <- table_range f tag ;;
  match r with
  | None => Ok None
  | Some (a, b) => Ok (get_range (fr_data f) a b)
  end.

(* ---- TTCHeader (generated/font.rs) and CollectionRef (lib.rs) ---- *)
Record ttch := mkttc { tc_data : list Z; tc_offlen : Z; tc_dsig : option (Z * Z * Z) }.
Definition compatible_2_0 (version : Z) : bool := (version / 65536 =? 2) && (0 <=? version mod 65536).
Definition ttc_header_read (d : list Z) : res ttch :=
  let c := cursor0 d in
  let c := c_advance 4 c in
  let '(c, r) := c_read 4 c in
  rdo version <- r ;;
  let '(c, r) := c_read 4 c in
  rdo num_fonts <- r ;;
  rdo bl <- ok_or (checked_mul num_fonts 4) OutOfBounds ;;
  let c := c_advance_by bl c in
  if compatible_2_0 version then
    rdo p1 <- c_position c ;;
    let c := c_advance 4 c in
    rdo p2 <- c_position c ;;
    let c := c_advance 4 c in
    rdo p3 <- c_position c ;;
    let c := c_advance 4 c in
    rdo _ <- c_finish c ;;
    Ok (mkttc d bl (Some (p1, p2, p3)))
  else
    rdo _ <- c_finish c ;;
    Ok (mkttc d bl None).
Definition tc_ttc_tag (t : ttch) : res Z := unwrap (read_at 4 (tc_data t) 0).
Definition tc_num_fonts (t : ttch) : res Z := unwrap (read_at 4 (tc_data t) 8).
Definition tc_offsets (t : ttch) : res (list (list Z)) :=
  rdo e <- add_chk 12 (tc_offlen t) ;;
  rdo s <- unwrap (read_array 4 (tc_data t) 12 e) ;;
  Ok (chunks 4 s).
Definition tc_dsig_fields (t : ttch) : res (list Z) :=
  match tc_dsig t with
  | None => Ok []
  | Some (p1, p2, p3) =>
      rdo a <- unwrap (read_at 4 (tc_data t) p1) ;;
      rdo b <- unwrap (read_at 4 (tc_data t) p2) ;;
      rdo c <- unwrap (read_at 4 (tc_data t) p3) ;;
      Ok [a; b; c]
  end.
Definition TTC_HEADER_TAG : Z := 1953784678.   (* 'ttcf' *)
(* CollectionRef::new *)
Definition collection_new (d : list Z) : res ttch :=
  rdo h <- ttc_header_read d ;;
  rdo tag <- tc_ttc_tag h ;;
  if tag =? TTC_HEADER_TAG then Ok h else Err (InvalidTtc tag).
(* CollectionRef::get(index) *)
Definition collection_get (h : ttch) (index : Z) : res fontref :=
  rdo offs <- tc_offsets h ;;
  rdo o <- ok_or (nthz offs index) (InvalidCollectionIndex index) ;;
  let offset := from_be o in
  rdo dd <- ok_or (fd_slice (tc_data h) 1 offset 0 0) OutOfBounds ;;
  rdo t <- table_directory_read dd ;;
  with_table_directory (tc_data h) t.

(* ---- Loca (tables/loca.rs) ---- *)
(* Loca::read(data, is_long): read_array(0..data.len()) of BigEndian<u32> / BigEndian<u16> *)
Definition loca_read (d : list Z) (is_long : bool) : res (list (list Z)) :=
  let esz := if is_long then 4 else 2 in
  rdo s <- read_array esz d 0 (blen d) ;; Ok (chunks esz s).
Definition loca_len (l : list (list Z)) : Z := sat_sub (Z.of_nat (length l)) 1.
(* Loca::get_raw(idx) *)
Definition loca_get_raw (is_long : bool) (l : list (list Z)) (idx : Z) : option Z :=
  match nthz l idx with
  | Some x => Some (if is_long then from_be x else from_be x * 2)
  | None => None
  end.

(* ---- postscript Index1 / Index2 (generated read + tables/postscript/index.rs) ---- *)
Record psindex := mkix { ix_data : list Z; ix_cw : Z; ix_offlen : Z; ix_datalen : Z }.
(* transforms::add_multiply(count, 1, off_size) *)
Definition add_multiply (a b c : Z) : Z := sat_mul (sat_add a b) c.
(* <Index1 as FontRead>::read (cw = 2) / <Index2 as FontRead>::read (cw = 4) *)
Definition index_read (cw : Z) (d : list Z) : res psindex :=
  let c := cursor0 d in
  let '(c, r) := c_read cw c in
  rdo count <- r ;;
  let '(c, r) := c_read 1 c in
  rdo off_size <- r ;;
  rdo obl <- ok_or (checked_mul (add_multiply count 1 off_size) 1) OutOfBounds ;;
  let c := c_advance_by obl c in
  let dbl := c_remaining_bytes c / 1 * 1 in
  let c := c_advance_by dbl c in
  rdo _ <- c_finish c ;;
  Ok (mkix d cw obl dbl).
Definition ix_count (x : psindex) : res Z := unwrap (read_at (ix_cw x) (ix_data x) 0).
Definition ix_off_size (x : psindex) : res Z := unwrap (read_at 1 (ix_data x) (ix_cw x)).
Definition ix_offsets (x : psindex) : res (list Z) :=
  rdo e <- add_chk (ix_cw x + 1) (ix_offlen x) ;;
  unwrap (read_array 1 (ix_data x) (ix_cw x + 1) e).
Definition ix_objdata (x : psindex) : res (list Z) :=
  rdo s <- add_chk (ix_cw x + 1) (ix_offlen x) ;;
  rdo e <- add_chk s (ix_datalen x) ;;
  unwrap (read_array 1 (ix_data x) s e).
(* read_offset(index, count, offset_size, offset_data) *)
Definition read_offset (index count offset_size : Z) (offset_data : list Z) : res Z :=
  if count <? index then Err OutOfBounds else
  rdo data_offset <- mul_chk index offset_size ;;
  rdo v <- (if (1 <=? offset_size) && (offset_size <=? 4) then read_at offset_size offset_data data_offset
            else Err (InvalidIndexOffsetSize offset_size)) ;;
  ok_or (checked_sub v 1) ZeroOffsetInIndex.
(* Index1::get_offset / Index2::get_offset *)
Definition index_get_offset (x : psindex) (index : Z) : res Z :=
  rdo count <- ix_count x ;;
  rdo osz <- ix_off_size x ;;
  rdo offs <- ix_offsets x ;;
  read_offset index count osz offs.
(* Index1::get / Index2::get : the (start, end) handed to <[u8]>::get, then the slice *)
Definition index_get_range (x : psindex) (index : Z) : res (Z * Z) :=
  rdo dat <- ix_objdata x ;;
  rdo a <- index_get_offset x index ;;
  rdo i1 <- add_chk index 1 ;;
  rdo b <- index_get_offset x i1 ;;
  match get_range dat a b with Some _ => Ok (a, b) | None => Err OutOfBounds end.
Definition index_get (x : psindex) (index : Z) : res (list Z) :=
  rdo dat <- ix_objdata x ;;
  rdo r <- index_get_range x index ;;
  ok_or (get_range dat (fst r) (snd r)) OutOfBounds.

(* ---- VarLenArray (array.rs) over a VarSize item ---- *)
(* VarSize::read_len_at default: Size::RAW_BYTE_LEN = sw *)
Definition read_len_at_default (sw : Z) (d : list Z) (p : Z) : option Z :=
  match read_at sw d p with Ok v => checked_add v sw | _ => None end.
(* SegmentMaps::read_len_at (avar.rs): count * 4 + 2 (unchecked, cannot overflow) *)
Definition read_len_at_segmaps (d : list Z) (p : Z) : option Z :=
  match read_at 2 d p with Ok v => Some (v * 4 + 2) | _ => None end.

(* VarLenArray::get(idx): position of item idx (None = `?` inside the loop), steps counted *)
Fixpoint varlen_pos (rl : list Z -> Z -> option Z) (d : list Z) (n : nat) (p : Z) : option Z :=
  match n with
  | O => Some p
  | S k => match rl d p with
           | None => None
           | Some l => match checked_add p l with None => None | Some p' => varlen_pos rl d k p' end
           end
  end.
Definition varlen_get (rl : list Z -> Z -> option Z) (d : list Z) (idx : Z) : option (list Z) :=
  match varlen_pos rl d (Z.to_nat idx) 0 with
  | None => None
  | Some p => fd_split_off d p
  end.
(* executable shortcut used by [eval_op]: when every successful length read needs a byte at or after [p]
   (so it fails once p >= len) and items are at least one byte long, the loop exits within len+1 iterations;
   C01/Proofs.v [varlen_get_fast_eq] proves it equal to [varlen_get] under that condition *)
Definition varlen_get_fast (rl : list Z -> Z -> option Z) (d : list Z) (idx : Z) : option (list Z) :=
  match varlen_pos rl d (Z.to_nat (Z.min idx (blen d + 1))) 0 with
  | None => None
  | Some p => fd_split_off d p
  end.
(* VarLenArray::iter(): the list of item slices handed to T::read; fuel = number of `next` calls allowed *)
Fixpoint varlen_iter (rl : list Z -> Z -> option Z) (fuel : nat) (d : list Z) : list (list Z) * bool :=
  match fuel with
  | O => ([], false)           (* out of fuel: not finished *)
  | S k =>
      if blen d =? 0 then ([], true)
      else match rl d 0 with
           | None => ([], true)
           | Some l =>
               match get_range d 0 l with
               | None => ([], true)
               | Some item =>
                   match fd_split_off d l with
                   | None => ([], true)
                   | Some rest => let '(xs, fin) := varlen_iter rl k rest in (item :: xs, fin)
                   end
               end
           end
  end.

(* PString::read (post.rs): Ok = the string bytes *)
Definition is_ascii (l : list Z) : bool := forallb (fun b => b <? 128) l.
Definition pstring_read (d : list Z) : res (list Z) :=
  rdo len <- read_at 1 d 0 ;;
  rdo e <- add_chk len 1 ;;
  rdo s <- ok_or (get_range d 1 e) OutOfBounds ;;
  if is_ascii s then Ok s else Err MalformedData.
(* SegmentMaps::read (avar.rs): Ok = [count; number of map bytes] *)
Definition segmaps_read (d : list Z) : res (list Z) :=
  let c := cursor0 d in
  let '(c, r) := c_read 2 c in
  rdo cnt <- r ;;
  let '(c, r) := c_read_array cnt 4 c in
  rdo s <- r ;;
  Ok [cnt; blen s].

(* ---- ComputedArray (array.rs) ---- *)
Record carray := mkca { ca_item_len : Z; ca_len : Z; ca_data : list Z }.
(* ComputedArray::new with T::compute_size(args) = Ok item_len *)
Definition computed_new (item_len : Z) (d : list Z) : carray :=
  mkca item_len (match checked_div (blen d) item_len with Some q => q | None => 0 end) d.
(* ComputedArray::get(idx): the data handed to T::read_with_args *)
Definition computed_get (a : carray) (idx : Z) : res (list Z) :=
  rdo start <- ok_or (checked_mul idx (ca_item_len a)) OutOfBounds ;;
  ok_or (fd_split_off (ca_data a) start) OutOfBounds.
(* ComputedArray::iter(): closure state i; one `next` call *)
Definition computed_next (a : carray) (i : Z) : option (Z * list Z) :=
  if i =? ca_len a then None else
  match checked_mul (ca_item_len a) i with
  | None => None
  | Some start =>
      match checked_add i 1 with
      | None => None
      | Some i' => match fd_split_off (ca_data a) start with None => None | Some s => Some (i', s) end
      end
  end.
Fixpoint computed_iter (fuel : nat) (a : carray) (i : Z) : list (list Z) * bool :=
  match fuel with
  | O => ([], false)
  | S k => match computed_next a i with
           | None => ([], true)
           | Some (i', s) => let '(xs, fin) := computed_iter k a i' in (s :: xs, fin)
           end
  end.
(* U16Or32::read_with_args (gvar.rs) *)
Definition u16or32_read (long : bool) (d : list Z) : res Z :=
  if long then read_at 4 d 0 else rdo v <- read_at 2 d 0 ;; Ok (v * 2).

(* ================= correspondence case format (harness/src/bin/c01.rs) =================
   case = (op, data, args, result).  result: 0 :: vs = Ok vs | [1; code; ...] = Err | [2] = None | [3] = panic *)
Definition err_code (e : err) : list Z :=
  match e with
  | OutOfBounds => [1; 1] | InvalidArrayLen => [1; 2] | NullOffset => [1; 3]
  | InvalidSfnt v => [1; 4; v] | InvalidTtc t => [1; 5; t] | InvalidCollectionIndex i => [1; 6; i]
  | MalformedData => [1; 9] | InvalidIndexOffsetSize s => [1; 7; s] | ZeroOffsetInIndex => [1; 8] | InvalidNumber => [1; 10]
  end.
Definition enc {A} (f : A -> list Z) (r : res A) : list Z :=
  match r with Ok a => 0 :: f a | Err e => err_code e | Panic => [3] end.
Definition enc_opt {A} (f : A -> list Z) (o : option A) : list Z :=
  match o with Some a => 0 :: f a | None => [2] end.
Definition one (v : Z) : list Z := [v].
Definition idl (l : list Z) : list Z := l.
Definition elems (esz : Z) (s : list Z) : list Z :=
  if esz =? 16 then flat_map (fun r => [field r 0 4; field r 4 4; field r 8 4; field r 12 4]) (chunks 16 s)
  else map from_be (chunks esz s).

(* observations on a font: every requested tag -> [-1] | [start; len] (or panic marker 3) *)
Definition obs_table (f : fontref) (tag : Z) : list Z :=
  match table_range f tag with
  | Panic => [-3]
  | Err _ => [-4]
  | Ok None => [-1]
  | Ok (Some (a, b)) => match get_range (fr_data f) a b with Some _ => [a; b - a] | None => [-1] end
  end.
Definition obs_font (f : fontref) (tags : list Z) : list Z :=
  enc one (td_sfnt_version (fr_dir f)) ++ enc one (td_num_tables (fr_dir f)) ++ flat_map (obs_table f) tags.

Definition obs_index (x : psindex) (idxs : list Z) : list Z :=
  enc one (ix_count x) ++ enc one (ix_off_size x) ++ enc (fun l => [blen l]) (ix_offsets x)
  ++ enc (fun l => [blen l]) (ix_objdata x)
  ++ flat_map (fun i => enc one (index_get_offset x i) ++ enc (fun r => [fst r; snd r - fst r]) (index_get_range x i)) idxs.

Definition enc_iter (f : list Z -> list Z) (r : list (list Z) * bool) : list Z :=
  (if snd r then 1 else 0) :: Z.of_nat (length (fst r)) :: flat_map f (fst r).

Definition eval_op (op : Z) (d : list Z) (args : list Z) : list Z :=
  match op, args with
  | 1, [w; off] => enc one (read_at w d off)
  | 3, [esz; a; b] => enc (elems esz) (read_array esz d a b)
  | 4, [sk; s; ek; e] => enc_opt idl (fd_slice d sk s ek e)
  | 5, [p] => enc_opt idl (fd_split_off d p)
  | 6, [p] => enc_opt (fun ht => blen (fst ht) :: fst ht ++ snd ht) (fd_take_up_to d p)
  | 7, [off] => enc (elems 16) (read_ref_at 16 d off)
  | 8, [o; _] => enc idl (resolve_offset o d)
  | 9, [o; _] => match resolve_nullable o d with None => [2] | Some r => enc idl r end
  | 10, tags => match fontref_new d with
                | Ok f => 0 :: obs_font f tags
                | Err e => err_code e
                | Panic => [3]
                end
  | 11, idxs => match collection_new d with
                | Ok h => 0 :: enc one (tc_num_fonts h) ++ enc idl (tc_dsig_fields h)
                            ++ flat_map (fun i => match collection_get h i with
                                                  | Ok f => 0 :: obs_font f []
                                                  | Err e => err_code e
                                                  | Panic => [3]
                                                  end) idxs
                | Err e => err_code e
                | Panic => [3]
                end
  | 12, idxs => match index_read 2 d with Ok x => 0 :: obs_index x idxs | Err e => err_code e | Panic => [3] end
  | 13, idxs => match index_read 4 d with Ok x => 0 :: obs_index x idxs | Err e => err_code e | Panic => [3] end
  | 14, long :: idxs =>
      let is_long := negb (long =? 0) in
      match loca_read d is_long with
      | Ok l => 0 :: loca_len l :: flat_map (fun i => enc_opt one (loca_get_raw is_long l i)) idxs
      | Err e => err_code e
      | Panic => [3]
      end
  | 15, idxs =>   (* VarLenArray<PString> *)
      flat_map (fun i => match varlen_get_fast (read_len_at_default 1) d i with
                         | None => [2] | Some s => enc idl (pstring_read s) end) idxs
      ++ enc_iter (fun s => enc (fun l => blen l :: l) (pstring_read s)) (varlen_iter (read_len_at_default 1) (S (length d)) d)
  | 16, idxs =>   (* VarLenArray<SegmentMaps> *)
      flat_map (fun i => match varlen_get_fast read_len_at_segmaps d i with
                         | None => [2] | Some s => enc idl (segmaps_read s) end) idxs
      ++ enc_iter (fun s => enc idl (segmaps_read s)) (varlen_iter read_len_at_segmaps (S (length d)) d)
  | 17, long :: idxs =>   (* ComputedArray<U16Or32> *)
      let is_long := negb (long =? 0) in
      let a := computed_new (if is_long then 4 else 2) d in
      ca_len a :: flat_map (fun i => enc one (rbind (computed_get a i) (u16or32_read is_long))) idxs
      ++ enc_iter (fun s => enc one (u16or32_read is_long s)) (computed_iter (S (length d)) a 0)
  | _, _ => [-999]
  end.

Definition zlist_eqb (a b : list Z) : bool :=
  (Nat.eqb (length a) (length b)) && forallb (fun p => Z.eqb (fst p) (snd p)) (combine a b).

Definition check_case (c : Z * list Z * list Z * list Z) : bool :=
  let '(op, d, args, result) := c in zlist_eqb (eval_op op d args) result.
