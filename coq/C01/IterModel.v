(* C01 part 3, round 4 — cursor-parser combinators and models of the cursor-based iterators that parse
   variable-length records:
     tables/varc.rs   VarcComponentIter::next, VarcComponent::parse (+ DeltaRunIter::end from variations.rs)
     tables/glyf.rs   ComponentIter::next, ComponentGlyphIdFlagsIter::next
     tables/name.rs   CharIter::next (bump_u16 / bump_u8)
   No proofs here. *)
From Coq Require Import ZArith List Bool.
From FV Require Import Lib.RustInt C01.Model C01.ModelH.
Import ListNotations.
Open Scope Z_scope.

(* ---------- a parser over a cursor: the state is the cursor, the result a [res] ---------- *)
Definition P (A : Type) : Type := cursor -> cursor * res A.
Definition pret {A} (a : A) : P A := fun c => (c, Ok a).
Definition plift {A} (r : res A) : P A := fun c => (c, r).
(* `?`: stop at the first error, keeping the cursor where the failing operation left it *)
Definition pbind {A B} (m : P A) (f : A -> P B) : P B :=
  fun c => let '(c1, r) := m c in
           match r with Ok a => f a c1 | Err e => (c1, Err e) | Panic => (c1, Panic) end.
Notation "'pdo' x <- m ;; k" := (pbind m (fun x => k)) (at level 200, x name, m at level 100, k at level 200).
Definition pread (w : Z) : P Z := c_read w.                 (* cursor.read::<T>() *)
Definition pvar : P Z := c_read_u32_var.                     (* cursor.read_u32_var() *)
Definition padvance (n : Z) : P unit := fun c => (c_advance_by n c, Ok tt).
(* flags.contains(F).then(|| op)  /  if flags.contains(F) { op? } *)
Definition pwhen (b : bool) (m : P Z) : P unit := if b then pdo _ <- m ;; pret tt else pret tt.
Fixpoint prepeat (n : nat) (m : P Z) : P unit :=
  match n with O => pret tt | S k => pdo _ <- m ;; prepeat k m end.

(* ---------- DeltaRunIter::end(): run `next` until the first None, return the cursor ---------- *)
(* DeltaRunIter::next with limit = Some(_), returning the state also when it yields None *)
Definition delta_step (s : diter) : option Z * diter :=
  if di_limit s =? 0 then (None, s) else
  let limit := di_limit s - 1 in
  let after_control : option (Z * Z * cursor) * cursor :=
    if di_rem s =? 0 then
      let '(c1, r) := c_read 1 (di_cur s) in
      match r with Ok ctl => (Some (Z.land ctl 63 + 1, delta_size ctl, c1), c1) | _ => (None, c1) end
    else (Some (di_rem s, di_size s, di_cur s), di_cur s) in
  match after_control with
  | (None, c1) => (None, mkdi limit 0 (di_size s) c1)
  | (Some (rem, sz, c), _) =>
      if sz =? 0 then (Some 0, mkdi limit (rem - 1) sz c)
      else let '(c1, r) := c_read sz c in
           match r with
           | Ok v => (Some (wrap_s (8 * sz) v), mkdi limit (rem - 1) sz c1)
           | _ => (None, mkdi limit (rem - 1) sz c1)
           end
  end.
Fixpoint delta_end_loop (fuel : nat) (s : diter) : cursor :=
  match fuel with
  | O => di_cur s
  | S k => match delta_step s with (None, s') => di_cur s' | (Some _, s') => delta_end_loop k s' end
  end.
(* PackedDeltas::new(data, count).iter().end(): each Some consumes one unit of `limit`, so count + 1 rounds suffice *)
Definition delta_end (data : list Z) (count : Z) : cursor :=
  delta_end_loop (S (Z.to_nat count)) (mkdi count 0 1 (cursor0 data)).

(* ---------- VARC ---------- *)
(* Varc::axis_indices(nth)?.count(): entry nth of the axis-indices INDEX as PackedDeltas::consume_all *)
Definition varc_axis_count (axes : list (list Z)) (nth : Z) : res Z :=
  match nthz axes nth with
  | None => Err OutOfBounds
  | Some raw => count_all_deltas raw
  end.
(* jump past `n` packed deltas: `cursor.remaining()` or OutOfBounds, then `*cursor = deltas.iter().end()` *)
Definition pskip_deltas (n : Z) : P unit :=
  fun c => match c_remaining c with
           | None => (c, Err OutOfBounds)
           | Some data => (delta_end data n, Ok tt)
           end.
Definition popcount_reserved (raw : Z) : nat :=
  length (filter (fun k => Z.testbit raw (Z.of_nat k)) (seq 15 17)).   (* (raw & 0xFFFF8000).count_ones() *)
(* VarcComponent::parse(table, cursor) *)
Definition varc_parse (axes : list (list Z)) : P unit :=
  pdo raw <- pvar ;;
  pdo _ <- (if bit raw 4096 then pread 3 else pread 2) ;;
  pdo _ <- pwhen (bit raw 128) pvar ;;
  pdo _ <- (if bit raw 2 then
              pdo idx <- pvar ;;
              pdo n <- plift (varc_axis_count axes idx) ;;
              if 0 <? n then pskip_deltas n else pret tt
            else pret tt) ;;
  pdo _ <- pwhen (bit raw 4) pvar ;;
  pdo _ <- pwhen (bit raw 8) pvar ;;
  pdo _ <- pwhen (bit raw 16) (pread 2) ;;
  pdo _ <- pwhen (bit raw 32) (pread 2) ;;
  pdo _ <- pwhen (bit raw 64) (pread 2) ;;
  pdo _ <- pwhen (bit raw 256) (pread 2) ;;
  pdo _ <- pwhen (bit raw 512) (pread 2) ;;
  pdo _ <- pwhen (bit raw 8192) (pread 2) ;;
  pdo _ <- pwhen (bit raw 16384) (pread 2) ;;
  pdo _ <- pwhen (bit raw 1024) (pread 2) ;;
  pdo _ <- pwhen (bit raw 2048) (pread 2) ;;
  prepeat (popcount_reserved raw) pvar.
(* VarcComponentIter::next: None when the cursor is empty, else Some(parse(..)) — also when parse fails *)
Definition varc_next (axes : list (list Z)) (c : cursor) : option (res unit * cursor) :=
  if c_is_empty c then None else let '(c1, r) := varc_parse axes c in Some (r, c1).

(* ---------- glyf composite components ---------- *)
Definition s16 (v : Z) : Z := wrap_s 16 v.
Definition s8 (v : Z) : Z := wrap_s 8 v.
(* one component: [flags; glyph; anchor kind (0 = Offset, 1 = Point); a; b; xx; yx; xy; yy] (F2Dot14 bits; default 1.0 = 16384) *)
Definition comp_parse : P (list Z) :=
  pdo flags <- pread 2 ;;
  pdo glyph <- pread 2 ;;
  let words := bit flags 1 in
  let xy := bit flags 2 in
  pdo a <- pread (if words then 2 else 1) ;;
  pdo b <- pread (if words then 2 else 1) ;;
  let conv v := if xy then (if words then s16 v else s8 v) else v in
  pdo t <- (if bit flags 8 then pdo xx <- pread 2 ;; pret [s16 xx; 0; 0; s16 xx]
            else if bit flags 64 then pdo xx <- pread 2 ;; pdo yy <- pread 2 ;; pret [s16 xx; 0; 0; s16 yy]
            else if bit flags 128 then pdo xx <- pread 2 ;; pdo yx <- pread 2 ;; pdo xy' <- pread 2 ;; pdo yy <- pread 2 ;;
                                       pret [s16 xx; s16 yx; s16 xy'; s16 yy]
            else pret [16384; 0; 0; 16384]) ;;
  pret ([Z.land flags 8175; glyph; (if xy then 0 else 1); conv a; conv b] ++ t).
(* ComponentIter state: (done, cursor).  Any failed read = `.ok()?` = None *)
Definition comp_next (s : bool * cursor) : option (list Z * (bool * cursor)) :=
  if fst s then None else
  match comp_parse (snd s) with
  | (c1, Ok item) => Some (item, (negb (bit (nth 0 item 0) 32), c1))
  | _ => None
  end.
(* ComponentGlyphIdFlagsIter::next: (glyph, flags), skipping arguments and transform with advance_by *)
Definition compid_parse : P (list Z) :=
  pdo flags <- pread 2 ;;
  pdo glyph <- pread 2 ;;
  pdo _ <- padvance (if bit flags 1 then 4 else 2) ;;
  pdo _ <- (if bit flags 8 then padvance 2 else if bit flags 64 then padvance 4 else if bit flags 128 then padvance 8 else pret tt) ;;
  pret [glyph; Z.land flags 8175].
Definition compid_next (s : bool * cursor) : option (list Z * (bool * cursor)) :=
  if fst s then None else
  match compid_parse (snd s) with
  | (c1, Ok item) => Some (item, (negb (bit (nth 1 item 0) 32), c1))
  | _ => None
  end.

(* ---------- name CharIter ---------- *)
(* encoding: 0 = Utf16Be, 1 = MacRoman, 2 = Unknown.  State = pos.  Item = the raw scalar value before char::from_u32
   (invalid scalars are shown as U+FFFD = 65533); MacRoman bytes >= 128 are shown as -1 (the table is not modelled) *)
Definition bump_u16 (d : list Z) (pos : Z) : option (Z * Z) :=
  match add_chk pos 2 with
  | Ok e => match get_range d pos e with Some s => Some (from_be s, pos + 2) | None => None end
  | _ => None
  end.
Definition char_of_scalar (v : Z) : Z :=
  if ((0 <=? v) && (v <? 55296)) || ((57344 <=? v) && (v <=? 1114111)) then v else 65533.
Definition chariter_next (enc : Z) (d : list Z) (pos : Z) : option (Z * Z) :=
  if blen d <=? pos then None else
  if enc =? 0 then
    match bump_u16 d pos with
    | None => None
    | Some (c1, p1) =>
        if (55296 <=? c1) && (c1 <? 56320) then
          match bump_u16 d p1 with
          | None => Some (65533, p1)
          | Some (c2, p2) => Some (char_of_scalar (Z.land c1 1023 * 1024 + Z.land c2 1023 + 65536), p2)
          end
        else Some (char_of_scalar c1, p1)
    end
  else if enc =? 1 then
    match nthz d pos with
    | None => None
    | Some b => Some ((if b <? 128 then b else -1), pos + 1)
    end
  else None.

(* ---------- running an iterator given by its step function ---------- *)
Fixpoint iter_run {St Item : Type} (step : St -> option (Item * St)) (fuel : nat) (s : St) : list Item * bool :=
  match fuel with
  | O => ([], false)
  | S k => match step s with
           | None => ([], true)
           | Some (i, s') => let '(l, fin) := iter_run step k s' in (i :: l, fin)
           end
  end.

(* ---------- correspondence ops 24.. ---------- *)
Fixpoint split_axes (fuel : nat) (k : Z) (l : list Z) : list (list Z) :=
  match fuel with
  | O => []
  | S f => if k <=? 0 then [] else
           match l with
           | n :: r => firstn (Z.to_nat n) r :: split_axes f (k - 1) (skipn (Z.to_nat n) r)
           | [] => []
           end
  end.
Definition enc_res_unit (r : res unit) : list Z := match r with Ok _ => [0] | Err e => err_code e | Panic => [3] end.
Definition eval_op_i (op : Z) (d : list Z) (args : list Z) : list Z :=
  match op, args with
  | 24, fuel :: k :: rest =>      (* VARC glyph record d; k axis-index entries packed as len :: bytes *)
      let axes := split_axes (length rest) k rest in
      let r := iter_run (varc_next axes) (Z.to_nat fuel) (cursor0 d) in
      (if snd r then 1 else 0) :: Z.of_nat (length (fst r)) :: flat_map enc_res_unit (fst r)
  | 25, [fuel] =>
      let r := iter_run comp_next (Z.to_nat fuel) (false, cursor0 d) in
      (if snd r then 1 else 0) :: Z.of_nat (length (fst r)) :: concat (fst r)
  | 26, [fuel] =>
      let r := iter_run compid_next (Z.to_nat fuel) (false, cursor0 d) in
      (if snd r then 1 else 0) :: Z.of_nat (length (fst r)) :: concat (fst r)
  | 27, [enc; fuel] =>
      let r := iter_run (chariter_next enc d) (Z.to_nat fuel) 0 in
      (if snd r then 1 else 0) :: Z.of_nat (length (fst r)) :: fst r
  | _, _ => [-999]
  end.

Definition check_case_all2 (c : Z * list Z * list Z * list Z) : bool :=
  let '(op, d, args, result) := c in
  zlist_eqb (if op <? 18 then eval_op op d args else if op <? 24 then eval_op_h op d args else eval_op_i op d args) result.
