(* C01 item 2 -- generic soundness of the reflective check [wf_safe] of Layout.v:
   if a layout is wf_safe then, for every environment (= every byte content and every behaviour of the
   hand-written count/size functions), every argument tuple and every data length, a successful cursor walk
   yields a marker on which no getter can panic, and every marker range lies inside the data. *)
From Coq Require Import ZArith List String Bool Lia.
From FV Require Import C01.Layout.
Import ListNotations.
Open Scope string_scope.
Open Scope Z_scope.

(* ------------------------------------------------------------------ association lists, names *)
Lemma lookup_cons_ne {A} x k (v : A) l : x <> k -> lookup x ((k, v) :: l) = lookup x l.
Proof. intros H. cbn. destruct (String.eqb_spec x k); congruence. Qed.
Lemma lookup_cons_eq {A} k (v : A) l : lookup k ((k, v) :: l) = Some v.
Proof. cbn. rewrite String.eqb_refl. reflexivity. Qed.

Lemma mem_In x l : mem x l = true <-> In x l.
Proof.
  unfold mem. rewrite existsb_exists. split.
  - intros [y [Hy He]]. apply String.eqb_eq in He. subst. exact Hy.
  - intros H. exists x. split; [exact H | apply String.eqb_refl].
Qed.

Lemma list_eqb_eq a : forall b, list_eqb a b = true -> a = b.
Proof.
  induction a as [|x a IH]; intros [|y b] H; cbn in H; try discriminate; [reflexivity|].
  apply andb_true_iff in H. destruct H as [H1 H2]. apply String.eqb_eq in H1. f_equal; auto.
Qed.
Lemma rstart_eqb_eq a b : rstart_eqb a b = true -> a = b.
Proof.
  destruct a, b; cbn; intros H; try discriminate; try reflexivity.
  - apply String.eqb_eq in H. congruence.
  - apply String.eqb_eq in H. congruence.
  - apply andb_true_iff in H. destruct H as [H1 H2]. apply list_eqb_eq in H1. apply String.eqb_eq in H2. congruence.
Qed.
Lemma cond_eqb_eq a b : cond_eqb a b = true -> a = b.
Proof.
  destruct a, b; cbn; intros H. apply andb_true_iff in H. destruct H as [H1 H2].
  apply String.eqb_eq in H1. apply String.eqb_eq in H2. congruence.
Qed.
Lemma rlen_fixed_eq l w : rlen_fixed l w = true -> l = RFixed w.
Proof. destruct l; cbn; intros H; try discriminate. apply Z.eqb_eq in H. congruence. Qed.
Lemma rlen_is_0 l n : rlen_is l 0 n = true -> l = RLenVar n.
Proof. destruct l; cbn; intros H; try discriminate. apply String.eqb_eq in H. congruence. Qed.
Lemma rlen_is_1 l n : rlen_is l 1 n = true -> l = RLenVarOpt n.
Proof. destruct l; cbn; intros H; try discriminate. apply String.eqb_eq in H. congruence. Qed.
Lemma okw_pos w : okw w = true -> 0 < w.
Proof. unfold okw. intros H. apply andb_true_iff in H. destruct H as [H _]. apply Z.ltb_lt in H. exact H. Qed.

Lemma seen_cons_self args n i acc : seen args ((n, i) :: acc) n = true.
Proof. unfold seen. rewrite lookup_cons_eq. apply orb_true_r. Qed.
Lemma seen_cons_mono args n i acc x : seen args acc x = true -> seen args ((n, i) :: acc) x = true.
Proof.
  unfold seen. intros H. apply orb_true_iff in H. destruct H as [H|H]; [rewrite H; reflexivity|].
  apply orb_true_iff. right. cbn. destruct (String.eqb x n); [reflexivity | exact H].
Qed.
Lemma seen_ne args acc x n : seen args acc x = true -> seen args acc n = false -> x <> n.
Proof. intros H1 H2 ->. congruence. Qed.
Lemma seen_lookup args acc x (i : finfo) : lookup x acc = Some i -> seen args acc x = true.
Proof. unfold seen. intros ->. apply orb_true_r. Qed.
Lemma bound_seen args acc a : bound_name args acc a = true -> seen args acc a = true.
Proof.
  unfold bound_name, seen. intros H. apply orb_true_iff in H. destruct H as [H|H]; [rewrite H; reflexivity|].
  destruct (lookup a acc); [apply orb_true_r | discriminate].
Qed.

(* ------------------------------------------------------------------ arithmetic *)
Lemma usz_nonneg z : 0 <= usz z.
Proof. unfold usz. pose proof (Z.mod_pos_bound z 18446744073709551616). lia. Qed.

Lemma sat_add_le_max p n : sat_add p n <= usize_max.
Proof. unfold sat_add. lia. Qed.
Lemma sat_add_ge p n : p <= usize_max -> p <= sat_add p n.
Proof. unfold sat_add. lia. Qed.
Lemma sat_add_exact p n : 0 <= n -> sat_add p n < usize_max -> sat_add p n = p + n.
Proof. unfold sat_add. lia. Qed.

Lemma mod_trans x d z : 0 < d -> 0 < z -> d mod z = 0 -> x mod d = 0 -> x mod z = 0.
Proof.
  intros Hd Hz H1 H2.
  apply Z.mod_divide in H1; [|lia]. apply Z.mod_divide in H2; [|lia]. apply Z.mod_divide; [lia|].
  eapply Z.divide_trans; eauto.
Qed.

(* ------------------------------------------------------------------ monotonicity of the cursor *)
Section Sound.
Variable E : env.
Variable len : Z.
Hypothesis Hlen : 0 <= len <= isize_max.
Variable args : list string.

Lemma step_mono o s s' : s_pos s <= usize_max -> step E len o s = Some s' -> s_pos s <= s_pos s' <= usize_max.
Proof.
  intros Hp H. destruct o; cbn in H.
  - inversion H; subst; cbn. split; [apply sat_add_ge; lia | apply sat_add_le_max].
  - unfold do_read in H. destruct (s_pos s + w <=? len); inversion H; subst; cbn.
    split; [apply sat_add_ge; lia | apply sat_add_le_max].
  - destruct (eval_len E len (s_pos s) (s_locals s) e); inversion H; subst; cbn. lia.
  - destruct (lookup f (s_lens s)) as [[l|o]|]; inversion H; subst; cbn.
    split; [apply sat_add_ge; lia | apply sat_add_le_max].
  - destruct (eval_cond E (s_locals s) c); [destruct (s_pos s <=? len)|]; inversion H; subst; cbn; lia.
  - destruct (eval_cond E (s_locals s) c); inversion H; subst; cbn; [|lia].
    split; [apply sat_add_ge; lia | apply sat_add_le_max].
  - destruct (eval_cond E (s_locals s) c).
    + unfold do_read in H. destruct (s_pos s + w <=? len); inversion H; subst; cbn.
      split; [apply sat_add_ge; lia | apply sat_add_le_max].
    + inversion H; subst; cbn. lia.
  - destruct (eval_len E len (s_pos s) (s_locals s) e); inversion H; subst; cbn. lia.
  - destruct (lookup f (s_lens s)) as [[l|[l|]]|]; inversion H; subst; cbn; [|lia].
    split; [apply sat_add_ge; lia | apply sat_add_le_max].
Qed.

Lemma run_ops_mono ops : forall s m, s_pos s <= usize_max -> run_ops E len ops s = Some m -> s_pos s <= s_pos m.
Proof.
  induction ops as [|o r IH]; intros s m Hp H; cbn in H.
  - inversion H; subst. lia.
  - destruct (step E len o s) as [s'|] eqn:Hs; [|discriminate].
    pose proof (step_mono _ _ _ Hp Hs). specialize (IH s' m ltac:(lia) H). lia.
Qed.

Lemma run_ops_mono' ops s m : run_ops E len ops s = Some m -> s_pos s <= usize_max -> s_pos s <= s_pos m.
Proof. intros H1 H2. eapply run_ops_mono; eauto. Qed.

(* ------------------------------------------------------------------ length expressions *)
Lemma eval_esz_nonneg acc loc z s : wf_esz args acc z = true -> eval_esz E loc z = Some s -> 0 <= s.
Proof.
  destruct z; cbn; intros Hw H.
  - inversion H; subst. apply okw_pos in Hw. lia.
  - destruct (e_csize E ty (map (locval loc) args0)); inversion H; subst. apply usz_nonneg.
Qed.

Lemma eval_len_nonneg acc pos loc e l :
  wf_lenexp args acc e = true -> eval_len E len pos loc e = Some l -> 0 <= l.
Proof.
  destruct e; cbn; intros Hw H.
  - destruct (eval_esz E loc e) as [s|] eqn:He; [|discriminate].
    pose proof (eval_esz_nonneg _ _ _ _ Hw He). unfold checked_mul in H.
    destruct (usz (eval_cnt E loc c) * s <=? usize_max); inversion H; subst.
    pose proof (usz_nonneg (eval_cnt E loc c)). nia.
  - eapply eval_esz_nonneg; eauto.
  - inversion H; subst. apply okw_pos in Hw. unfold remaining.
    pose proof (Z.div_pos (Z.max 0 (len - pos)) w ltac:(lia) Hw). nia.
  - inversion H; subst. unfold remaining. lia.
  - destruct (pos <=? len); [|discriminate].
    destruct (e_varlen E ty (usz (eval_cnt E loc c)) pos); inversion H; subst. apply usz_nonneg.
Qed.

Lemma info_of_len_basic opt e : fi_opt (info_of_len opt e) = opt /\ fi_fixed (info_of_len opt e) = None
                                /\ fi_read (info_of_len opt e) = false.
Proof. destruct e as [c [w|ty an]|[w|ty an]|w| |ty c]; cbn; auto. Qed.

Lemma eval_len_div acc opt pos loc e l :
  wf_lenexp args acc e = true -> eval_len E len pos loc e = Some l ->
  0 < fi_div (info_of_len opt e) /\ l mod fi_div (info_of_len opt e) = 0.
Proof.
  destruct e as [c [w|ty an]|[w|ty an]|w| |ty c]; cbn; intros Hw H; try (split; [lia | apply Z.mod_1_r]).
  - apply okw_pos in Hw. split; [exact Hw|]. unfold checked_mul in H.
    destruct (usz (eval_cnt E loc c) * w <=? usize_max); inversion H; subst. apply Z_mod_mult.
  - apply okw_pos in Hw. split; [exact Hw|]. inversion H; subst. apply Z_mod_same_full.
  - apply okw_pos in Hw. split; [exact Hw|]. inversion H; subst. apply Z_mod_mult.
Qed.

Lemma eval_len_csz acc opt pos loc e l ty an :
  wf_lenexp args acc e = true -> eval_len E len pos loc e = Some l ->
  fi_csz (info_of_len opt e) = Some (ty, an) ->
  (forall a, In a an -> seen args acc a = true) /\
  exists sz, e_csize E ty (map (locval loc) an) = Some sz /\ (fi_exact (info_of_len opt e) = true -> l = usz sz).
Proof.
  destruct e as [c [w|ty' an']|[w|ty' an']|w| |ty' c]; cbn; intros Hw H Hc; try discriminate; inversion Hc; subst.
  - split.
    + intros a Ha. apply bound_seen. rewrite forallb_forall in Hw. apply Hw. exact Ha.
    + destruct (e_csize E ty (map (locval loc) an)) as [sz|]; [|discriminate]. exists sz. split; [reflexivity | discriminate].
  - split.
    + intros a Ha. apply bound_seen. rewrite forallb_forall in Hw. apply Hw. exact Ha.
    + destruct (e_csize E ty (map (locval loc) an)) as [sz|]; [|discriminate]. exists sz. split; [reflexivity|].
      intros _. cbn in H. inversion H. reflexivity.
Qed.


(* ------------------------------------------------------------------ the invariant of the symbolic walk *)
Definition range_end (rv : list (string * rval)) (p : string) : option Z :=
  match lookup p rv with Some (RRange _ e) => Some e | _ => None end.
Definition pv_end (rv : list (string * rval)) (pv : rstart) : option Z :=
  match pv with
  | SZero => Some 0
  | SAfter p => range_end rv p
  | SChain o l => chain_end rv o l
  | SVar _ => None
  end.
Definition pv_names (pv : rstart) : list string :=
  match pv with SZero => [] | SAfter p => [p] | SChain o l => l :: o | SVar f => [f] end.

(* what is known about field n (info i) in state s, with the ranges rv evaluated so far *)
Definition FieldOK (s : st) (rv : list (string * rval)) (acc : list (string * finfo)) (n : string) (i : finfo) : Prop :=
  0 < fi_div i /\
  match lookup n rv with
  | None => False
  | Some RAbsent => fi_opt i = true
  | Some (RRange a b) =>
      0 <= a /\ a <= b /\ b <= s_pos s /\ (b - a) mod fi_div i = 0
      /\ (forall w, fi_fixed i = Some w -> b - a = w)
      /\ (forall w, fi_read i = true -> fi_opt i = false -> fi_fixed i = Some w ->
                    lookup n (s_locals s) = Some (e_oracle E a w))
      /\ (forall ty an, fi_csz i = Some (ty, an) ->
            (forall a, In a an -> seen args acc a = true) /\
            exists sz, e_csize E ty (map (locval (s_locals s)) an) = Some sz /\ (fi_exact i = true -> b - a = usz sz))
  end.

Record Inv (s : st) (rv : list (string * rval)) (pv : rstart) (acc : list (string * finfo)) : Prop := {
  inv_pos0 : 0 <= s_pos s;
  inv_posM : s_pos s <= usize_max;
  inv_pv : pv_end rv pv = Some (s_pos s);
  inv_pvn : forall x, In x (pv_names pv) -> seen args acc x = true;
  inv_f : forall n i, lookup n acc = Some i -> FieldOK s rv acc n i;
  inv_dom : forall n, lookup n acc = None -> lookup n rv = None }.

Definition frame_eq (s m : st) (x : string) : Prop :=
  lookup x (s_lens m) = lookup x (s_lens s) /\ lookup x (s_starts m) = lookup x (s_starts s)
  /\ lookup x (s_locals m) = lookup x (s_locals s).
Definition ext_only (n : string) (s s1 : st) : Prop := forall x, x <> n -> frame_eq s s1 x.

Lemma locals_map_ext acc n s s1 an :
  (forall a, In a an -> seen args acc a = true) -> seen args acc n = false ->
  (forall x, x <> n -> lookup x (s_locals s1) = lookup x (s_locals s)) ->
  map (locval (s_locals s1)) an = map (locval (s_locals s)) an.
Proof.
  intros Ha Hn Hx. apply map_ext_in. intros a Hin. unfold locval. rewrite Hx; [reflexivity|].
  eapply seen_ne; eauto.
Qed.

Lemma fieldok_ext s rv acc n0 i0 s1 n v i :
  FieldOK s rv acc n0 i0 -> seen args acc n0 = true -> seen args acc n = false ->
  s_pos s <= s_pos s1 -> (forall x, x <> n -> lookup x (s_locals s1) = lookup x (s_locals s)) ->
  FieldOK s1 ((n, v) :: rv) ((n, i) :: acc) n0 i0.
Proof.
  intros [Hd H] Hs0 Hn Hp Hx. assert (Hne : n0 <> n) by (eapply seen_ne; eauto).
  split; [exact Hd|]. rewrite lookup_cons_ne by exact Hne.
  destruct (lookup n0 rv) as [[|a b]|]; [exact H| |exact H].
  destruct H as (H1 & H2 & H3 & H4 & H5 & H6 & H7).
  repeat split; try assumption; try lia.
  - intros w Hr Ho Hf. rewrite Hx by exact Hne. eauto.
  - intros a0 Ha0. apply seen_cons_mono. destruct (H7 _ _ H) as [Hs _]. auto.
  - destruct (H7 _ _ H) as [Hs [sz [Hc He]]]. exists sz. split; [|exact He].
    rewrite (locals_map_ext acc n s s1 an); auto.
Qed.

Lemma chain_end_cons_fresh rv n v o l : ~ In n (l :: o) -> chain_end ((n, v) :: rv) o l = chain_end rv o l.
Proof.
  induction o as [|x o IH]; intros Hn; cbn [chain_end].
  - rewrite lookup_cons_ne; [reflexivity|]. intros ->. apply Hn. left. reflexivity.
  - rewrite lookup_cons_ne by (intros ->; apply Hn; right; left; reflexivity).
    rewrite IH; [reflexivity|]. intros [H|H]; apply Hn; [left; exact H | right; right; exact H].
Qed.

Lemma inv_extend s rv pv acc s1 n v i pv1 :
  Inv s rv pv acc -> seen args acc n = false ->
  s_pos s <= s_pos s1 -> s_pos s1 <= usize_max ->
  (forall x, x <> n -> lookup x (s_locals s1) = lookup x (s_locals s)) ->
  FieldOK s1 ((n, v) :: rv) ((n, i) :: acc) n i ->
  pv_end ((n, v) :: rv) pv1 = Some (s_pos s1) ->
  (forall x, In x (pv_names pv1) -> seen args ((n, i) :: acc) x = true) ->
  Inv s1 ((n, v) :: rv) pv1 ((n, i) :: acc).
Proof.
  intros HI Hn Hp HM Hx Hnew Hpv Hpvn. destruct HI as [I0 IM Ipv Ipvn If Idom].
  constructor; try assumption; try lia.
  - intros n0 i0 Hl. destruct (String.eqb_spec n0 n) as [->|Hne].
    + rewrite lookup_cons_eq in Hl. inversion Hl; subst. exact Hnew.
    + rewrite lookup_cons_ne in Hl by exact Hne. eapply fieldok_ext; eauto. eapply seen_lookup; eauto.
  - intros n0 Hl. destruct (String.eqb_spec n0 n) as [->|Hne].
    + rewrite lookup_cons_eq in Hl. discriminate.
    + rewrite lookup_cons_ne in Hl by exact Hne. rewrite lookup_cons_ne by exact Hne. auto.
Qed.

Lemma eval_start_pv m rv pv p : pv_end rv pv = Some p -> eval_start m rv pv = Some (Some p).
Proof.
  destruct pv; cbn; intros H; try discriminate.
  - congruence.
  - unfold range_end in H. destruct (lookup p0 rv) as [[|a b]|]; try discriminate. congruence.
  - rewrite H. reflexivity.
Qed.

Lemma close_case s rv pv acc n s1 v i pv1 r rules' tbl m :
  rr_name r = n -> seen args acc n = false ->
  Inv s rv pv acc ->
  ext_only n s s1 -> s_pos s <= s_pos s1 -> s_pos s1 <= usize_max ->
  FieldOK s1 ((n, v) :: rv) ((n, i) :: acc) n i ->
  pv_end ((n, v) :: rv) pv1 = Some (s_pos s1) ->
  (forall x, In x (pv_names pv1) -> seen args ((n, i) :: acc) x = true) ->
  (frame_eq s1 m n -> eval_rule m rv r = Some v) ->
  (Inv s1 ((n, v) :: rv) pv1 ((n, i) :: acc) ->
     (forall x, seen args ((n, i) :: acc) x = true -> frame_eq s1 m x) /\
     exists rv' pv', eval_rules m ((n, v) :: rv) rules' = Some rv' /\ Inv m rv' pv' tbl) ->
  (forall x, seen args acc x = true -> frame_eq s m x) /\
  exists rv' pv', eval_rules m rv (r :: rules') = Some rv' /\ Inv m rv' pv' tbl.
Proof.
  intros Hname Hn HI Hext Hp HM Hnew Hpv Hpvn Hrule HIH.
  assert (HI1 : Inv s1 ((n, v) :: rv) pv1 ((n, i) :: acc)).
  { eapply inv_extend; eauto. intros x Hx. destruct (Hext x Hx) as (_ & _ & H). exact H. }
  destruct (HIH HI1) as [Hfr [rv' [pv' [Hev HIm]]]].
  split.
  - intros x Hx. assert (Hne : x <> n) by (eapply seen_ne; eauto).
    destruct (Hfr x (seen_cons_mono _ _ _ _ _ Hx)) as (A & B & C).
    destruct (Hext x Hne) as (A' & B' & C'). unfold frame_eq. rewrite A, B, C. auto.
  - exists rv', pv'. split; [|exact HIm]. cbn [eval_rules].
    rewrite (Hrule (Hfr n (seen_cons_self _ _ _ _))). rewrite Hname. exact Hev.
Qed.

Lemma fixed_fieldok s rv acc n a w opt rd v0 :
  0 < w -> 0 <= a -> a + w <= s_pos s ->
  (rd = true -> opt = false -> lookup n (s_locals s) = Some (e_oracle E a w)) ->
  v0 = RRange a (a + w) ->
  FieldOK s ((n, v0) :: rv) acc n (info_fixed opt w rd).
Proof.
  intros Hw Ha Hb Hr ->. split; [exact Hw|]. rewrite lookup_cons_eq. cbn.
  replace (a + w - a) with w by lia.
  repeat split; try lia.
  - apply Z_mod_same_full.
  - intros w0 H. inversion H. reflexivity.
  - intros w0 H1 H2 H3. inversion H3; subst. auto.
  - discriminate.
  - discriminate.
Qed.

Lemma absent_fieldok s rv acc n i : 0 < fi_div i -> fi_opt i = true -> FieldOK s ((n, RAbsent) :: rv) acc n i.
Proof. intros Hd Ho. split; [exact Hd|]. rewrite lookup_cons_eq. exact Ho. Qed.

Lemma len_fieldok s rv acc n a l opt e pos0 loc :
  wf_lenexp args acc e = true -> eval_len E len pos0 loc e = Some l ->
  s_locals s = loc ->
  0 <= a -> a + l <= s_pos s ->
  FieldOK s ((n, RRange a (a + l)) :: rv) ((n, info_of_len opt e) :: acc) n (info_of_len opt e).
Proof.
  intros Hw He Hloc Ha Hb.
  destruct (eval_len_div acc opt _ _ _ _ Hw He) as [Hd Hm].
  pose proof (eval_len_nonneg _ _ _ _ _ Hw He) as Hl.
  destruct (info_of_len_basic opt e) as (Ho & Hf & Hr).
  split; [exact Hd|]. rewrite lookup_cons_eq. replace (a + l - a) with l by lia.
  repeat split; try lia; try assumption.
  - intros w H. congruence.
  - intros w H. congruence.
  - intros a0 Ha0. destruct (eval_len_csz acc opt _ _ _ _ _ _ Hw He H) as [Hs _]. apply seen_cons_mono. auto.
  - destruct (eval_len_csz acc opt _ _ _ _ _ _ Hw He H) as [_ [sz [Hc Hx]]]. exists sz. rewrite Hloc. auto.
Qed.

Lemma push_opt_end rv pv n v pv' p acc i :
  push_opt pv n = Some pv' -> pv_end rv pv = Some p ->
  (forall x, In x (pv_names pv) -> seen args acc x = true) -> seen args acc n = false ->
  pv_end ((n, v) :: rv) pv' = Some (match v with RRange _ e => e | RAbsent => p end) /\
  (forall x, In x (pv_names pv') -> seen args ((n, i) :: acc) x = true).
Proof.
  intros Hpush Hend Hnames Hn. destruct pv; cbn in Hpush; inversion Hpush; subst; cbn [pv_end pv_names].
  - split.
    + cbn [chain_end]. rewrite lookup_cons_eq. destruct v; [|reflexivity].
      rewrite lookup_cons_ne; [exact Hend|]. intros ->. rewrite (Hnames n) in Hn; [discriminate | left; reflexivity].
    + intros x [<-|[<-|[]]]; [apply seen_cons_mono; apply Hnames; left; reflexivity | apply seen_cons_self].
  - split.
    + cbn [chain_end]. rewrite lookup_cons_eq. destruct v; [|reflexivity].
      rewrite chain_end_cons_fresh; [exact Hend|]. intros Hin. rewrite (Hnames n) in Hn; [discriminate | exact Hin].
    + intros x [<-|[<-|Hin]]; [apply seen_cons_mono; apply Hnames; left; reflexivity | apply seen_cons_self |].
      apply seen_cons_mono. apply Hnames. right. exact Hin.
Qed.


Ltac split_andb H :=
  repeat match type of H with
  | (_ && _) = true => let H2 := fresh "Hc" in apply andb_true_iff in H; destruct H as [H H2]
  end.
Ltac norm_hyps :=
  repeat match goal with
  | H : String.eqb _ _ = true |- _ => apply String.eqb_eq in H
  | H : cond_eqb _ _ = true |- _ => apply cond_eqb_eq in H
  | H : rstart_eqb _ _ = true |- _ => apply rstart_eqb_eq in H
  | H : rlen_fixed _ _ = true |- _ => apply rlen_fixed_eq in H
  | H : rlen_is _ 0 _ = true |- _ => apply rlen_is_0 in H
  | H : rlen_is _ 1 _ = true |- _ => apply rlen_is_1 in H
  end;
  repeat match goal with
  | H : ?f = rr_name _ |- _ => is_var f; subst f
  | H : Cond ?a ?b = ?c0 |- _ => is_var c0; subst c0
  | H : ?c = ?c0 |- _ => is_var c; is_var c0; match type of c with cond => subst c0 end
  end;
  try match goal with H : rr_start _ = _ |- _ => rename H into Hst end;
  try match goal with H : rr_len _ = _ |- _ => rename H into Hln end;
  try match goal with H : okw ?w = true |- _ => pose proof (okw_pos _ H) as Hw end;
  try match goal with H : wf_lenexp _ _ _ = true |- _ => rename H into Hwfl end.
Ltac stcbn := cbn [set_pos bind_local bind_len bind_start s_pos s_locals s_lens s_starts].
Ltac stcbn_in H := cbn [set_pos bind_local bind_len bind_start s_pos s_locals s_lens s_starts] in H.

(* ------------------------------------------------------------------ soundness of the symbolic walk *)
Lemma match_sound : forall rules ops pv acc tbl,
  match_fields args rules ops pv acc = Some tbl ->
  forall s rv m, run_ops E len ops s = Some m -> s_pos m < usize_max -> Inv s rv pv acc ->
  (forall x, seen args acc x = true -> frame_eq s m x) /\
  exists rv' pv', eval_rules m rv rules = Some rv' /\ Inv m rv' pv' tbl.
Proof.
  induction rules as [|r rules' IH]; intros ops pv acc tbl Hm s rv m Hrun Hfin HI.
  - cbn in Hm. destruct ops; [|discriminate]. inversion Hm; subst. cbn in Hrun. inversion Hrun; subst.
    split. { intros x _. repeat split. } exists rv, pv. split; [reflexivity | exact HI].
  - cbn [match_fields] in Hm.
    destruct (seen args acc (rr_name r)) eqn:Hseen; [discriminate|].
    pose proof (inv_pos0 _ _ _ _ HI) as Hp0. pose proof (inv_posM _ _ _ _ HI) as HpM.
    destruct ops as [|o1 ops1]; [discriminate|].
    destruct o1.
    + (* cursor.advance::<T>() *)
      destruct (rstart_eqb (rr_start r) pv && rlen_fixed (rr_len r) w && okw w) eqn:Hc; [|discriminate].
      split_andb Hc. norm_hyps.
      cbn [run_ops step] in Hrun.
      pose proof (run_ops_mono' _ _ _ Hrun) as Hmono. stcbn_in Hmono. specialize (Hmono (sat_add_le_max _ _)).
      assert (Hex : sat_add (s_pos s) w = s_pos s + w) by (apply sat_add_exact; lia).
      eapply close_case with (s1 := set_pos s (sat_add (s_pos s) w)) (v := RRange (s_pos s) (s_pos s + w))
                             (i := info_fixed false w false) (pv1 := SAfter (rr_name r)).
      * reflexivity.
      * exact Hseen.
      * exact HI.
      * intros x _. unfold frame_eq. stcbn. auto.
      * stcbn. lia.
      * stcbn. apply sat_add_le_max.
      * apply fixed_fieldok with (a := s_pos s); stcbn; try lia; try reflexivity; try (intros; discriminate).
      * cbn [pv_end]. unfold range_end. rewrite lookup_cons_eq. stcbn. rewrite Hex. reflexivity.
      * intros x [<-|[]]. apply seen_cons_self.
      * intros _. unfold eval_rule. rewrite Hst, Hln. rewrite (eval_start_pv m rv pv _ (inv_pv _ _ _ _ HI)). reflexivity.
      * intros HI1. eapply IH; eauto.
    + (* let f: T = cursor.read()? *)
      destruct (String.eqb f (rr_name r) && rstart_eqb (rr_start r) pv && rlen_fixed (rr_len r) w && okw w) eqn:Hc; [|discriminate].
      split_andb Hc. norm_hyps.
      cbn [run_ops step] in Hrun. unfold do_read in Hrun.
      destruct (s_pos s + w <=? len) eqn:Hle; [|discriminate].
      pose proof (run_ops_mono' _ _ _ Hrun) as Hmono. stcbn_in Hmono. specialize (Hmono (sat_add_le_max _ _)).
      assert (Hex : sat_add (s_pos s) w = s_pos s + w) by (apply sat_add_exact; lia).
      eapply close_case with (s1 := set_pos (bind_local s (rr_name r) (e_oracle E (s_pos s) w)) (sat_add (s_pos s) w))
                             (v := RRange (s_pos s) (s_pos s + w))
                             (i := info_fixed false w true) (pv1 := SAfter (rr_name r)).
      * reflexivity.
      * exact Hseen.
      * exact HI.
      * intros x Hx. unfold frame_eq. stcbn. rewrite lookup_cons_ne by exact Hx. auto.
      * stcbn. lia.
      * stcbn. apply sat_add_le_max.
      * apply fixed_fieldok with (a := s_pos s); stcbn; try lia; try reflexivity.
        intros _ _. apply lookup_cons_eq.
      * cbn [pv_end]. unfold range_end. rewrite lookup_cons_eq. stcbn. rewrite Hex. reflexivity.
      * intros x [<-|[]]. apply seen_cons_self.
      * intros _. unfold eval_rule. rewrite Hst, Hln. rewrite (eval_start_pv m rv pv _ (inv_pv _ _ _ _ HI)). reflexivity.
      * intros HI1. eapply IH; eauto.
    + (* let f_byte_len = e; cursor.advance_by(f_byte_len) *)
      destruct ops1 as [|o2 ops2]; [discriminate|]. destruct o2; try discriminate.
      destruct (String.eqb f (rr_name r) && String.eqb f0 (rr_name r) && rstart_eqb (rr_start r) pv
                && rlen_is (rr_len r) 0 (rr_name r) && wf_lenexp args acc e) eqn:Hc; [|discriminate].
      split_andb Hc. norm_hyps.
      cbn [run_ops step] in Hrun.
      destruct (eval_len E len (s_pos s) (s_locals s) e) as [l|] eqn:Hel; [|discriminate].
      stcbn_in Hrun. rewrite lookup_cons_eq in Hrun. stcbn_in Hrun.
      pose proof (eval_len_nonneg _ _ _ _ _ Hwfl Hel) as Hl.
      pose proof (run_ops_mono' _ _ _ Hrun) as Hmono. stcbn_in Hmono. specialize (Hmono (sat_add_le_max _ _)).
      assert (Hex : sat_add (s_pos s) l = s_pos s + l) by (apply sat_add_exact; lia).
      eapply close_case with (s1 := set_pos (bind_len s (rr_name r) (LV l)) (sat_add (s_pos s) l))
                             (v := RRange (s_pos s) (s_pos s + l))
                             (i := info_of_len false e) (pv1 := SAfter (rr_name r)).
      * reflexivity.
      * exact Hseen.
      * exact HI.
      * intros x Hx. unfold frame_eq. stcbn. rewrite lookup_cons_ne by exact Hx. auto.
      * stcbn. lia.
      * stcbn. apply sat_add_le_max.
      * eapply len_fieldok with (pos0 := s_pos s) (loc := s_locals s); eauto; stcbn; lia.
      * cbn [pv_end]. unfold range_end. rewrite lookup_cons_eq. stcbn. rewrite Hex. reflexivity.
      * intros x [<-|[]]. apply seen_cons_self.
      * intros (A & _ & _). unfold eval_rule. rewrite Hst, Hln.
        rewrite (eval_start_pv m rv pv _ (inv_pv _ _ _ _ HI)). cbn [eval_rlen]. rewrite A. stcbn.
        rewrite lookup_cons_eq. reflexivity.
      * intros HI1. eapply IH; eauto.
    + discriminate.
    + (* gated fields: let f_byte_start = c.then(|| cursor.position()).transpose()?; ... *)
      destruct ops1 as [|o2 ops2]; [discriminate|]. destruct o2; try discriminate.
      * (* c.then(|| cursor.advance::<T>()) *)
        destruct (push_opt pv (rr_name r)) as [pv'|] eqn:Hpush; [|discriminate].
        destruct (String.eqb f (rr_name r) && cond_eqb c c0 && rstart_eqb (rr_start r) (SVar (rr_name r))
                  && rlen_fixed (rr_len r) w && okw w) eqn:Hc; [|discriminate].
        split_andb Hc. norm_hyps.
        cbn [run_ops step] in Hrun.
        destruct (eval_cond E (s_locals s) c) eqn:Hb.
        -- destruct (s_pos s <=? len) eqn:Hle; [|discriminate]. stcbn_in Hrun. rewrite Hb in Hrun.
           stcbn_in Hrun.
           pose proof (run_ops_mono' _ _ _ Hrun) as Hmono. stcbn_in Hmono. specialize (Hmono (sat_add_le_max _ _)).
           assert (Hex : sat_add (s_pos s) w = s_pos s + w) by (apply sat_add_exact; lia).
           destruct (push_opt_end rv pv (rr_name r) (RRange (s_pos s) (s_pos s + w)) pv' (s_pos s) acc
                       (info_fixed true w false) Hpush (inv_pv _ _ _ _ HI) (inv_pvn _ _ _ _ HI) Hseen) as [Hpe Hpn].
           eapply close_case with (s1 := set_pos (bind_start s (rr_name r) (Some (s_pos s))) (sat_add (s_pos s) w))
                                  (v := RRange (s_pos s) (s_pos s + w))
                                  (i := info_fixed true w false) (pv1 := pv').
           ++ reflexivity.
           ++ exact Hseen.
           ++ exact HI.
           ++ intros x Hx. unfold frame_eq. stcbn. rewrite lookup_cons_ne by exact Hx. auto.
           ++ stcbn. lia.
           ++ stcbn. apply sat_add_le_max.
           ++ apply fixed_fieldok with (a := s_pos s); stcbn; try lia; try reflexivity; try (intros; discriminate).
           ++ rewrite Hpe. stcbn. rewrite Hex. reflexivity.
           ++ exact Hpn.
           ++ intros (_ & B & _). unfold eval_rule. rewrite Hst, Hln. cbn [eval_start eval_rlen]. rewrite B. stcbn.
              rewrite lookup_cons_eq. reflexivity.
           ++ intros HI1. eapply IH; eauto.
        -- stcbn_in Hrun. rewrite Hb in Hrun.
           destruct (push_opt_end rv pv (rr_name r) RAbsent pv' (s_pos s) acc
                       (info_fixed true w false) Hpush (inv_pv _ _ _ _ HI) (inv_pvn _ _ _ _ HI) Hseen) as [Hpe Hpn].
           eapply close_case with (s1 := bind_start s (rr_name r) None) (v := RAbsent)
                                  (i := info_fixed true w false) (pv1 := pv').
           ++ reflexivity.
           ++ exact Hseen.
           ++ exact HI.
           ++ intros x Hx. unfold frame_eq. stcbn. rewrite lookup_cons_ne by exact Hx. auto.
           ++ stcbn. lia.
           ++ stcbn. lia.
           ++ apply absent_fieldok; [exact Hw | reflexivity].
           ++ rewrite Hpe. reflexivity.
           ++ exact Hpn.
           ++ intros (_ & B & _). unfold eval_rule. rewrite Hst, Hln. cbn [eval_start eval_rlen]. rewrite B. stcbn.
              rewrite lookup_cons_eq. reflexivity.
           ++ intros HI1. eapply IH; eauto.
      * (* let f = c.then(|| cursor.read::<T>()).transpose()?.unwrap_or_default() *)
        destruct (push_opt pv (rr_name r)) as [pv'|] eqn:Hpush; [|discriminate].
        destruct (String.eqb f (rr_name r) && String.eqb f0 (rr_name r) && cond_eqb c c0
                  && rstart_eqb (rr_start r) (SVar (rr_name r)) && rlen_fixed (rr_len r) w && okw w) eqn:Hc; [|discriminate].
        split_andb Hc. norm_hyps.
        cbn [run_ops step] in Hrun.
        destruct (eval_cond E (s_locals s) c) eqn:Hb.
        -- destruct (s_pos s <=? len) eqn:Hle; [|discriminate]. stcbn_in Hrun. rewrite Hb in Hrun.
           unfold do_read in Hrun. stcbn_in Hrun.
           destruct (s_pos s + w <=? len) eqn:Hle2; [|discriminate].
           pose proof (run_ops_mono' _ _ _ Hrun) as Hmono. stcbn_in Hmono. specialize (Hmono (sat_add_le_max _ _)).
           assert (Hex : sat_add (s_pos s) w = s_pos s + w) by (apply sat_add_exact; lia).
           destruct (push_opt_end rv pv (rr_name r) (RRange (s_pos s) (s_pos s + w)) pv' (s_pos s) acc
                       (info_fixed true w false) Hpush (inv_pv _ _ _ _ HI) (inv_pvn _ _ _ _ HI) Hseen) as [Hpe Hpn].
           eapply close_case with (s1 := set_pos (bind_local (bind_start s (rr_name r) (Some (s_pos s))) (rr_name r)
                                                     (e_oracle E (s_pos s) w)) (sat_add (s_pos s) w))
                                  (v := RRange (s_pos s) (s_pos s + w))
                                  (i := info_fixed true w false) (pv1 := pv').
           ++ reflexivity.
           ++ exact Hseen.
           ++ exact HI.
           ++ intros x Hx. unfold frame_eq. stcbn. rewrite !lookup_cons_ne by exact Hx. auto.
           ++ stcbn. lia.
           ++ stcbn. apply sat_add_le_max.
           ++ apply fixed_fieldok with (a := s_pos s); stcbn; try lia; try reflexivity; try (intros; discriminate).
           ++ rewrite Hpe. stcbn. rewrite Hex. reflexivity.
           ++ exact Hpn.
           ++ intros (_ & B & _). unfold eval_rule. rewrite Hst, Hln. cbn [eval_start eval_rlen]. rewrite B. stcbn.
              rewrite lookup_cons_eq. reflexivity.
           ++ intros HI1. eapply IH; eauto.
        -- stcbn_in Hrun. rewrite Hb in Hrun.
           destruct (push_opt_end rv pv (rr_name r) RAbsent pv' (s_pos s) acc
                       (info_fixed true w false) Hpush (inv_pv _ _ _ _ HI) (inv_pvn _ _ _ _ HI) Hseen) as [Hpe Hpn].
           eapply close_case with (s1 := bind_local (bind_start s (rr_name r) None) (rr_name r) 0) (v := RAbsent)
                                  (i := info_fixed true w false) (pv1 := pv').
           ++ reflexivity.
           ++ exact Hseen.
           ++ exact HI.
           ++ intros x Hx. unfold frame_eq. stcbn. rewrite !lookup_cons_ne by exact Hx. auto.
           ++ stcbn. lia.
           ++ stcbn. lia.
           ++ apply absent_fieldok; [exact Hw | reflexivity].
           ++ rewrite Hpe. reflexivity.
           ++ exact Hpn.
           ++ intros (_ & B & _). unfold eval_rule. rewrite Hst, Hln. cbn [eval_start eval_rlen]. rewrite B. stcbn.
              rewrite lookup_cons_eq. reflexivity.
           ++ intros HI1. eapply IH; eauto.
      * (* let f_byte_len = c.then_some(e); if let Some(value) = f_byte_len { cursor.advance_by(value) } *)
        destruct ops2 as [|o3 ops3]; [discriminate|]. destruct o3; try discriminate.
        destruct (push_opt pv (rr_name r)) as [pv'|] eqn:Hpush; [|discriminate].
        destruct (String.eqb f (rr_name r) && String.eqb f0 (rr_name r) && String.eqb f1 (rr_name r) && cond_eqb c c0
                  && rstart_eqb (rr_start r) (SVar (rr_name r)) && rlen_is (rr_len r) 1 (rr_name r)
                  && wf_lenexp args acc e) eqn:Hc; [|discriminate].
        split_andb Hc. norm_hyps.
        cbn [run_ops step] in Hrun.
        destruct (eval_cond E (s_locals s) c) eqn:Hb.
        -- destruct (s_pos s <=? len) eqn:Hle; [|discriminate]. stcbn_in Hrun.
           destruct (eval_len E len (s_pos s) (s_locals s) e) as [l|] eqn:Hel; [|discriminate].
           rewrite Hb in Hrun. stcbn_in Hrun. rewrite lookup_cons_eq in Hrun. stcbn_in Hrun.
           pose proof (eval_len_nonneg _ _ _ _ _ Hwfl Hel) as Hl.
           pose proof (run_ops_mono' _ _ _ Hrun) as Hmono. stcbn_in Hmono. specialize (Hmono (sat_add_le_max _ _)).
           assert (Hex : sat_add (s_pos s) l = s_pos s + l) by (apply sat_add_exact; lia).
           destruct (push_opt_end rv pv (rr_name r) (RRange (s_pos s) (s_pos s + l)) pv' (s_pos s) acc
                       (info_of_len true e) Hpush (inv_pv _ _ _ _ HI) (inv_pvn _ _ _ _ HI) Hseen) as [Hpe Hpn].
           eapply close_case with (s1 := set_pos (bind_len (bind_start s (rr_name r) (Some (s_pos s))) (rr_name r)
                                                     (LO (Some l))) (sat_add (s_pos s) l))
                                  (v := RRange (s_pos s) (s_pos s + l))
                                  (i := info_of_len true e) (pv1 := pv').
           ++ reflexivity.
           ++ exact Hseen.
           ++ exact HI.
           ++ intros x Hx. unfold frame_eq. stcbn. rewrite !lookup_cons_ne by exact Hx. auto.
           ++ stcbn. lia.
           ++ stcbn. apply sat_add_le_max.
           ++ eapply len_fieldok with (pos0 := s_pos s) (loc := s_locals s); eauto; stcbn; lia.
           ++ rewrite Hpe. stcbn. rewrite Hex. reflexivity.
           ++ exact Hpn.
           ++ intros (A & B & _). unfold eval_rule. rewrite Hst, Hln. cbn [eval_start eval_rlen]. rewrite A, B. stcbn.
              rewrite !lookup_cons_eq. reflexivity.
           ++ intros HI1. eapply IH; eauto.
        -- stcbn_in Hrun.
           destruct (eval_len E len (s_pos s) (s_locals s) e) as [l|] eqn:Hel; [|discriminate].
           rewrite Hb in Hrun. stcbn_in Hrun. rewrite lookup_cons_eq in Hrun.
           destruct (eval_len_div acc true _ _ _ _ Hwfl Hel) as [Hd _].
           destruct (info_of_len_basic true e) as (Ho & _ & _).
           destruct (push_opt_end rv pv (rr_name r) RAbsent pv' (s_pos s) acc
                       (info_of_len true e) Hpush (inv_pv _ _ _ _ HI) (inv_pvn _ _ _ _ HI) Hseen) as [Hpe Hpn].
           eapply close_case with (s1 := bind_len (bind_start s (rr_name r) None) (rr_name r) (LO None)) (v := RAbsent)
                                  (i := info_of_len true e) (pv1 := pv').
           ++ reflexivity.
           ++ exact Hseen.
           ++ exact HI.
           ++ intros x Hx. unfold frame_eq. stcbn. rewrite !lookup_cons_ne by exact Hx. auto.
           ++ stcbn. lia.
           ++ stcbn. lia.
           ++ apply absent_fieldok; assumption.
           ++ rewrite Hpe. reflexivity.
           ++ exact Hpn.
           ++ intros (A & B & _). unfold eval_rule. rewrite Hst, Hln. cbn [eval_start eval_rlen]. rewrite A, B. stcbn.
              rewrite !lookup_cons_eq. reflexivity.
           ++ intros HI1. eapply IH; eauto.
    + discriminate.
    + discriminate.
    + discriminate.
    + discriminate.
Qed.

End Sound.

(* ------------------------------------------------------------------ top level *)
Lemma init_inv E L argv : Inv E (r_args L) (init_st L argv) [] SZero [].
Proof.
  constructor.
  - cbn. lia.
  - cbn. unfold usize_max. lia.
  - reflexivity.
  - intros x H. destruct H.
  - intros n i H. discriminate H.
  - intros n H. reflexivity.
Qed.

Lemma wf_run L : wf_safe L = true ->
  forall argv E len m, 0 <= len <= isize_max -> run_read L argv E len = Some m ->
  exists tbl rv pv,
    forallb (wf_getter (r_args L) tbl) (r_getters L) = true /\
    ranges_of L m = Some rv /\ Inv E (r_args L) m rv pv tbl /\ s_pos m <= len.
Proof.
  intros Hwf argv E len m Hlen Hrun. unfold wf_safe in Hwf. apply andb_true_iff in Hwf. destruct Hwf as [_ Hwf].
  destruct (match_fields (r_args L) (r_rules L) (r_ops L) SZero []) as [tbl|] eqn:Hm; [|discriminate].
  unfold run_read in Hrun.
  destruct (run_ops E len (r_ops L) (init_st L argv)) as [s|] eqn:Hops; [|discriminate].
  destruct (s_pos s <=? len) eqn:Hle; [|discriminate]. inversion Hrun; subst s. apply Z.leb_le in Hle.
  assert (Hfin : s_pos m < usize_max) by (unfold isize_max, usize_max in *; lia).
  destruct (match_sound E len (r_args L) _ _ _ _ _ Hm _ [] _ Hops Hfin (init_inv E L argv)) as [_ [rv [pv [Hev HI]]]].
  exists tbl, rv, pv. split; [exact Hwf|]. split; [exact Hev|]. split; [exact HI | exact Hle].
Qed.

Lemma gargs_ok_vals E args m rv tbl :
  (forall n i, lookup n tbl = Some i -> FieldOK E args m rv tbl n i) ->
  forall ga an, gargs_ok args tbl ga an = true ->
  map (eval_garg E m rv) ga = map (locval (s_locals m)) an.
Proof.
  intros HF. induction ga as [|a ga IH]; intros [|n an] H; cbn in H; try discriminate; [reflexivity|].
  apply andb_true_iff in H. destruct H as [Ha Hr]. cbn [map]. f_equal; [|apply IH; exact Hr].
  destruct a as [f w|x]; cbn in Ha.
  - apply andb_true_iff in Ha. destruct Ha as [Ha Hi]. apply andb_true_iff in Ha. destruct Ha as [Hfn _].
    apply String.eqb_eq in Hfn. subst f.
    destruct (lookup n tbl) as [i|] eqn:Hl; [|discriminate].
    apply andb_true_iff in Hi. destruct Hi as [Hi Hfx]. apply andb_true_iff in Hi. destruct Hi as [Hrd Hop].
    destruct (fi_fixed i) as [w'|] eqn:Hfi; [|discriminate]. apply Z.eqb_eq in Hfx. subst w'.
    apply negb_true_iff in Hop.
    destruct (HF _ _ Hl) as [_ HK]. cbn [eval_garg].
    destruct (lookup n rv) as [[|a b]|]; [congruence| |contradiction].
    destruct HK as (_ & _ & _ & _ & _ & H6 & _). unfold locval. rewrite (H6 w Hrd Hop Hfi). reflexivity.
  - apply andb_true_iff in Ha. destruct Ha as [Hx _]. apply String.eqb_eq in Hx. subst x. reflexivity.
Qed.

Definition getter_ok (o : gout) : Prop := o = GValue \/ o = GAbsent.

Lemma getters_safe_proof : forall L, wf_safe L = true ->
  forall argv E len m, 0 <= len <= isize_max -> run_read L argv E len = Some m ->
  forall g, In g (r_getters L) -> getter_ok (eval_getter L E m len g).
Proof.
  intros L Hwf argv E len m Hlen Hrun g Hg.
  destruct (wf_run L Hwf argv E len m Hlen Hrun) as (tbl & rv & pv & Hgs & Hrv & HI & Hpos).
  rewrite forallb_forall in Hgs. specialize (Hgs g Hg). unfold wf_getter in Hgs.
  destruct (lookup (g_field g) tbl) as [i|] eqn:Hl; [|discriminate].
  apply andb_true_iff in Hgs. destruct Hgs as [Hopt Hacc]. apply Bool.eqb_prop in Hopt.
  pose proof (inv_f _ _ _ _ _ _ HI _ _ Hl) as [Hd HF].
  unfold eval_getter. rewrite Hrv.
  destruct (lookup (g_field g) rv) as [[|a b]|]; [|clear Hl|contradiction].
  - rewrite Hopt, HF. right. reflexivity.
  - destruct HF as (H1 & H2 & H3 & H4 & H5 & H6 & H7). left.
    destruct (g_acc g) as [w|z|direct ty ga|]; cbn [eval_access].
    + destruct (fi_fixed i) as [w'|] eqn:Hfi; [|discriminate]. apply Z.eqb_eq in Hacc. subst w'.
      specialize (H5 w eq_refl). replace (a + w <=? len) with true; [reflexivity|]. symmetry. apply Z.leb_le. lia.
    + apply andb_true_iff in Hacc. destruct Hacc as [Hz Hm]. apply Z.ltb_lt in Hz. apply Z.eqb_eq in Hm.
      pose proof (mod_trans (b - a) (fi_div i) z Hd Hz Hm H4) as Hmod.
      replace (a <=? b) with true by (symmetry; apply Z.leb_le; lia).
      replace (b <=? len) with true by (symmetry; apply Z.leb_le; lia).
      replace (z =? 0) with false by (symmetry; apply Z.eqb_neq; lia).
      rewrite Hmod. reflexivity.
    + destruct (fi_csz i) as [[ty' an]|] eqn:Hcs; [|discriminate].
      apply andb_true_iff in Hacc. destruct Hacc as [Hacc Hdir]. apply andb_true_iff in Hacc. destruct Hacc as [Hty Hga].
      apply String.eqb_eq in Hty. subst ty'.
      replace (a <=? b) with true by (symmetry; apply Z.leb_le; lia).
      replace (b <=? len) with true by (symmetry; apply Z.leb_le; lia). cbn [andb].
      rewrite (gargs_ok_vals E (r_args L) m rv tbl (inv_f _ _ _ _ _ _ HI) _ _ Hga).
      destruct (H7 _ _ eq_refl) as [_ [sz [Hc Hex]]]. rewrite Hc.
      destruct direct; [|reflexivity]. cbn in Hdir. rewrite <- (Hex Hdir). rewrite Z.leb_refl. reflexivity.
    + replace (a <=? len) with true; [reflexivity|]. symmetry. apply Z.leb_le. lia.
Qed.

(* every marker range (the non-saturating `start..start + width` of `*_byte_range`) lies inside the data:
   no usize overflow is possible in the generated range functions *)
Lemma ranges_no_overflow_proof : forall L, wf_safe L = true ->
  forall argv E len m, 0 <= len <= isize_max -> run_read L argv E len = Some m ->
  exists rv, ranges_of L m = Some rv /\
    forall n a b, lookup n rv = Some (RRange a b) -> 0 <= a /\ a <= b /\ b <= len /\ b < usize_max.
Proof.
  intros L Hwf argv E len m Hlen Hrun.
  destruct (wf_run L Hwf argv E len m Hlen Hrun) as (tbl & rv & pv & Hgs & Hrv & HI & Hpos).
  exists rv. split; [exact Hrv|]. intros n a b Hn.
  destruct (lookup n tbl) as [i|] eqn:Hl.
  - pose proof (inv_f _ _ _ _ _ _ HI _ _ Hl) as [_ HF]. rewrite Hn in HF.
    destruct HF as (H1 & H2 & H3 & _). unfold isize_max, usize_max in *. lia.
  - rewrite (inv_dom _ _ _ _ _ _ HI _ Hl) in Hn. discriminate.
Qed.

(* lifting the per-table boolean check to a list of layouts *)
Lemma all_layouts_safe_lift (Ls : list rlayout) : forallb wf_safe Ls = true ->
  forall L, In L Ls ->
  forall argv E len m, 0 <= len <= isize_max -> run_read L argv E len = Some m ->
  (forall g, In g (r_getters L) -> getter_ok (eval_getter L E m len g)) /\
  exists rv, ranges_of L m = Some rv /\
    forall n a b, lookup n rv = Some (RRange a b) -> 0 <= a /\ a <= b /\ b <= len /\ b < usize_max.
Proof.
  intros H L HL argv E len m Hlen Hrun. rewrite forallb_forall in H. specialize (H L HL).
  split; [eapply getters_safe_proof; eauto | eapply ranges_no_overflow_proof; eauto].
Qed.

Lemma getter_ok_not_panic o : getter_ok o -> o <> GPanic.
Proof. intros [->| ->]; discriminate. Qed.
