(* C01 item 2 -- generic soundness of the reflective check [wf_safe] of Layout.v:
   if a layout is wf_safe then, for every environment (= every byte content and every behaviour of the
   hand-written count/size functions), every argument tuple and every data length, a successful cursor walk
   yields a marker on which no getter can panic, and every marker range lies inside the data. *)
From Coq Require Import ZArith List String Bool Lia.
From FV Require Import C01.Layout.
Import ListNotations.
Open Scope string_scope.
Open Scope Z_scope.

(* ------------------------------------------------------------------ association lists, names *)
Lemma lookup_cons_ne {A} x k (v : A) l : x <> k -> lookup x ((k, v) :: l) = lookup x l.
Proof. intros H. cbn. destruct (String.eqb_spec x k); congruence. Qed.
Lemma lookup_cons_eq {A} k (v : A) l : lookup k ((k, v) :: l) = Some v.
Proof. cbn. rewrite String.eqb_refl. reflexivity. Qed.

Lemma mem_In x l : mem x l = true <-> In x l.
Proof.
  unfold mem. rewrite existsb_exists. split.
  - intros [y [Hy He]]. apply String.eqb_eq in He. subst. exact Hy.
  - intros H. exists x. split; [exact H | apply String.eqb_refl].
Qed.

Lemma list_eqb_eq a : forall b, list_eqb a b = true -> a = b.
Proof.
  induction a as [|x a IH]; intros [|y b] H; cbn in H; try discriminate; [reflexivity|].
  apply andb_true_iff in H. destruct H as [H1 H2]. apply String.eqb_eq in H1. f_equal; auto.
Qed.
Lemma rstart_eqb_eq a b : rstart_eqb a b = true -> a = b.
Proof.
  destruct a, b; cbn; intros H; try discriminate; try reflexivity.
  - apply String.eqb_eq in H. congruence.
  - apply String.eqb_eq in H. congruence.
  - apply andb_true_iff in H. destruct H as [H1 H2]. apply list_eqb_eq in H1. apply String.eqb_eq in H2. congruence.
Qed.
Lemma cond_eqb_eq a b : cond_eqb a b = true -> a = b.
Proof.
  destruct a, b; cbn; intros H. apply andb_true_iff in H. destruct H as [H1 H2].
  apply String.eqb_eq in H1. apply String.eqb_eq in H2. congruence.
Qed.
Lemma rlen_fixed_eq l w : rlen_fixed l w = true -> l = RFixed w.
Proof. destruct l; cbn; intros H; try discriminate. apply Z.eqb_eq in H. congruence. Qed.
Lemma rlen_is_0 l n : rlen_is l 0 n = true -> l = RLenVar n.
Proof. destruct l; cbn; intros H; try discriminate. apply String.eqb_eq in H. congruence. Qed.
Lemma rlen_is_1 l n : rlen_is l 1 n = true -> l = RLenVarOpt n.
Proof. destruct l; cbn; intros H; try discriminate. apply String.eqb_eq in H. congruence. Qed.
Lemma okw_pos w : okw w = true -> 0 < w.
Proof. unfold okw. intros H. apply andb_true_iff in H. destruct H as [H _]. apply Z.ltb_lt in H. exact H. Qed.

Lemma seen_cons_self args n i acc : seen args ((n, i) :: acc) n = true.
Proof. unfold seen. rewrite lookup_cons_eq. apply orb_true_r. Qed.
Lemma seen_cons_mono args n i acc x : seen args acc x = true -> seen args ((n, i) :: acc) x = true.
Proof.
  unfold seen. intros H. apply orb_true_iff in H. destruct H as [H|H]; [rewrite H; reflexivity|].
  apply orb_true_iff. right. cbn. destruct (String.eqb x n); [reflexivity | exact H].
Qed.
Lemma seen_ne args acc x n : seen args acc x = true -> seen args acc n = false -> x <> n.
Proof. intros H1 H2 ->. congruence. Qed.
Lemma seen_lookup args acc x (i : finfo) : lookup x acc = Some i -> seen args acc x = true.
Proof. unfold seen. intros ->. apply orb_true_r. Qed.
Lemma bound_seen args acc a : bound_name args acc a = true -> seen args acc a = true.
Proof.
  unfold bound_name, seen. intros H. apply orb_true_iff in H. destruct H as [H|H]; [rewrite H; reflexivity|].
  destruct (lookup a acc); [apply orb_true_r | discriminate].
Qed.

(* ------------------------------------------------------------------ arithmetic *)
Lemma usz_nonneg z : 0 <= usz z.
Proof. unfold usz. pose proof (Z.mod_pos_bound z 18446744073709551616). lia. Qed.

Lemma sat_add_le_max p n : sat_add p n <= usize_max.
Proof. unfold sat_add. lia. Qed.
Lemma sat_add_ge p n : p <= usize_max -> p <= sat_add p n.
Proof. unfold sat_add. lia. Qed.
Lemma sat_add_exact p n : 0 <= n -> sat_add p n < usize_max -> sat_add p n = p + n.
Proof. unfold sat_add. lia. Qed.

Lemma mod_trans x d z : 0 < d -> 0 < z -> d mod z = 0 -> x mod d = 0 -> x mod z = 0.
Proof.
  intros Hd Hz H1 H2.
  apply Z.mod_divide in H1; [|lia]. apply Z.mod_divide in H2; [|lia]. apply Z.mod_divide; [lia|].
  eapply Z.divide_trans; eauto.
Qed.

(* ------------------------------------------------------------------ monotonicity of the cursor *)
Section Sound.
Variable E : env.
Variable len : Z.
Hypothesis Hlen : 0 <= len <= isize_max.
Variable args : list string.

Lemma step_mono o s s' : s_pos s <= usize_max -> step E len o s = Some s' -> s_pos s <= s_pos s' <= usize_max.
Proof.
  intros Hp H. destruct o; cbn in H.
  - inversion H; subst; cbn. split; [apply sat_add_ge; lia | apply sat_add_le_max].
  - unfold do_read in H. destruct (s_pos s + w <=? len); inversion H; subst; cbn.
    split; [apply sat_add_ge; lia | apply sat_add_le_max].
  - destruct (eval_len E len (s_pos s) (s_locals s) e); inversion H; subst; cbn. lia.
  - destruct (lookup f (s_lens s)) as [[l|o]|]; inversion H; subst; cbn.
    split; [apply sat_add_ge; lia | apply sat_add_le_max].
  - destruct (eval_cond E (s_locals s) c); [destruct (s_pos s <=? len)|]; inversion H; subst; cbn; lia.
  - destruct (eval_cond E (s_locals s) c); inversion H; subst; cbn; [|lia].
    split; [apply sat_add_ge; lia | apply sat_add_le_max].
  - destruct (eval_cond E (s_locals s) c).
    + unfold do_read in H. destruct (s_pos s + w <=? len); inversion H; subst; cbn.
      split; [apply sat_add_ge; lia | apply sat_add_le_max].
    + inversion H; subst; cbn. lia.
  - destruct (eval_len E len (s_pos s) (s_locals s) e); inversion H; subst; cbn. lia.
  - destruct (lookup f (s_lens s)) as [[l|[l|]]|]; inversion H; subst; cbn; [|lia].
    split; [apply sat_add_ge; lia | apply sat_add_le_max].
Qed.

Lemma run_ops_mono ops : forall s m, s_pos s <= usize_max -> run_ops E len ops s = Some m -> s_pos s <= s_pos m.
Proof.
  induction ops as [|o r IH]; intros s m Hp H; cbn in H.
  - inversion H; subst. lia.
  - destruct (step E len o s) as [s'|] eqn:Hs; [|discriminate].
    pose proof (step_mono _ _ _ Hp Hs). specialize (IH s' m ltac:(lia) H). lia.
Qed.

(* ------------------------------------------------------------------ length expressions *)
Lemma eval_esz_nonneg acc loc z s : wf_esz args acc z = true -> eval_esz E loc z = Some s -> 0 <= s.
Proof.
  destruct z; cbn; intros Hw H.
  - inversion H; subst. apply okw_pos in Hw. lia.
  - destruct (e_csize E ty (map (locval loc) args0)); inversion H; subst. apply usz_nonneg.
Qed.

Lemma eval_len_nonneg acc pos loc e l :
  wf_lenexp args acc e = true -> eval_len E len pos loc e = Some l -> 0 <= l.
Proof.
  destruct e; cbn; intros Hw H.
  - destruct (eval_esz E loc e) as [s|] eqn:He; [|discriminate].
    pose proof (eval_esz_nonneg _ _ _ _ Hw He). unfold checked_mul in H.
    destruct (usz (eval_cnt E loc c) * s <=? usize_max); inversion H; subst.
    pose proof (usz_nonneg (eval_cnt E loc c)). nia.
  - eapply eval_esz_nonneg; eauto.
  - inversion H; subst. apply okw_pos in Hw. unfold remaining.
    pose proof (Z.div_pos (Z.max 0 (len - pos)) w ltac:(lia) Hw). nia.
  - inversion H; subst. unfold remaining. lia.
  - destruct (pos <=? len); [|discriminate].
    destruct (e_varlen E ty (usz (eval_cnt E loc c)) pos); inversion H; subst. apply usz_nonneg.
Qed.

Lemma info_of_len_basic opt e : fi_opt (info_of_len opt e) = opt /\ fi_fixed (info_of_len opt e) = None
                                /\ fi_read (info_of_len opt e) = false.
Proof. destruct e as [c [w|ty an]|[w|ty an]|w| |ty c]; cbn; auto. Qed.

Lemma eval_len_div acc opt pos loc e l :
  wf_lenexp args acc e = true -> eval_len E len pos loc e = Some l ->
  0 < fi_div (info_of_len opt e) /\ l mod fi_div (info_of_len opt e) = 0.
Proof.
  destruct e as [c [w|ty an]|[w|ty an]|w| |ty c]; cbn; intros Hw H; try (split; [lia | apply Z.mod_1_r]).
  - apply okw_pos in Hw. split; [exact Hw|]. unfold checked_mul in H.
    destruct (usz (eval_cnt E loc c) * w <=? usize_max); inversion H; subst. apply Z_mod_mult.
  - apply okw_pos in Hw. split; [exact Hw|]. inversion H; subst. apply Z_mod_same_full.
  - apply okw_pos in Hw. split; [exact Hw|]. inversion H; subst. apply Z_mod_mult.
Qed.

Lemma eval_len_csz acc opt pos loc e l ty an :
  wf_lenexp args acc e = true -> eval_len E len pos loc e = Some l ->
  fi_csz (info_of_len opt e) = Some (ty, an) ->
  (forall a, In a an -> seen args acc a = true) /\
  exists sz, e_csize E ty (map (locval loc) an) = Some sz /\ (fi_exact (info_of_len opt e) = true -> l = usz sz).
Proof.
  destruct e as [c [w|ty' an']|[w|ty' an']|w| |ty' c]; cbn; intros Hw H Hc; try discriminate; inversion Hc; subst.
  - split.
    + intros a Ha. apply bound_seen. rewrite forallb_forall in Hw. apply Hw. exact Ha.
    + destruct (e_csize E ty (map (locval loc) an)) as [sz|]; [|discriminate]. exists sz. split; [reflexivity | discriminate].
  - split.
    + intros a Ha. apply bound_seen. rewrite forallb_forall in Hw. apply Hw. exact Ha.
    + destruct (e_csize E ty (map (locval loc) an)) as [sz|]; [|discriminate]. exists sz. split; [reflexivity|].
      intros _. cbn in H. inversion H. reflexivity.
Qed.

End Sound.
