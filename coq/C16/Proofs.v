(* C16 — lemmas about the model in Model.v *)
From Coq Require Import ZArith List Bool Lia.
From FV Require Import C16.Model.
Import ListNotations.
Open Scope Z_scope.
Ltac Zify.zify_post_hook ::= Z.div_mod_to_equations.

(* ================================================================================================ *)
(* binary search (core::slice::binary_search_by) *)

Lemma bs_loop_range cmp : forall fuel base size, 1 <= size ->
  base <= bs_loop fuel cmp base size < base + size.
Proof.
  induction fuel; intros base size H; cbn [bs_loop]; [lia|].
  destruct (1 <? size) eqn:E; [apply Z.ltb_lt in E | lia].
  assert (H2 : 1 <= size / 2 <= size - 1) by lia.
  destruct (cmp (base + size / 2)).
  - specialize (IHfuel (base + size / 2) (size - size / 2)). lia.
  - specialize (IHfuel (base + size / 2) (size - size / 2)). lia.
  - specialize (IHfuel base (size - size / 2)). lia.
Qed.

Lemma bs_loop_found cmp i0 len :
  (forall i, 0 <= i < i0 -> cmp i = Lt) -> cmp i0 = Eq -> (forall i, i0 < i < len -> cmp i = Gt) ->
  forall fuel base size, 0 <= base -> base <= i0 < base + size -> base + size <= len ->
    size <= Z.of_nat fuel + 1 -> bs_loop fuel cmp base size = i0.
Proof.
  intros HL HE HG. induction fuel; intros base size Hb Hi Hlen Hf; cbn [bs_loop]; [lia|].
  destruct (1 <? size) eqn:E; [apply Z.ltb_lt in E | apply Z.ltb_ge in E; lia].
  assert (H2 : 1 <= size / 2 /\ 2 * (size / 2) <= size) by lia.
  destruct (Z_lt_le_dec i0 (base + size / 2)).
  - rewrite (HG (base + size / 2)) by lia. apply IHfuel; lia.
  - destruct (Z.eq_dec i0 (base + size / 2)) as [e|ne].
    + rewrite <- e, HE. apply IHfuel; lia.
    + rewrite (HL (base + size / 2)) by lia. apply IHfuel; lia.
Qed.

Lemma bsearch_found cmp len i0 : 0 <= i0 < len ->
  (forall i, 0 <= i < i0 -> cmp i = Lt) -> cmp i0 = Eq -> (forall i, i0 < i < len -> cmp i = Gt) ->
  bsearch_by cmp len = BOk i0.
Proof.
  intros Hr HL HE HG. unfold bsearch_by.
  destruct (len <=? 0) eqn:E; [apply Z.leb_le in E; lia|].
  rewrite (bs_loop_found cmp i0 len HL HE HG) by lia. now rewrite HE.
Qed.

Lemma bsearch_ok_sound cmp len i : bsearch_by cmp len = BOk i -> cmp i = Eq /\ 0 <= i < len.
Proof.
  unfold bsearch_by. destruct (len <=? 0) eqn:E; [discriminate|]. apply Z.leb_gt in E.
  pose proof (bs_loop_range cmp (Z.to_nat len) 0 len ltac:(lia)) as R.
  destruct (cmp (bs_loop (Z.to_nat len) cmp 0 len)) eqn:C; intros H; inversion H; subst. split; [exact C | lia].
Qed.

Lemma bs_loop_split cmp k len :
  (forall i, 0 <= i < k -> cmp i = Lt) -> (forall i, k <= i < len -> cmp i = Gt) ->
  forall fuel base size, 0 <= base -> 1 <= size -> (base = 0 \/ base < k) -> k <= base + size ->
    base + size <= len -> size <= Z.of_nat fuel + 1 ->
    (bs_loop fuel cmp base size = 0 \/ bs_loop fuel cmp base size < k) /\ k <= bs_loop fuel cmp base size + 1.
Proof.
  intros HL HG. induction fuel; intros base size Hb Hs Hk Hk2 Hlen Hf; cbn [bs_loop]; [lia|].
  destruct (1 <? size) eqn:E; [apply Z.ltb_lt in E | apply Z.ltb_ge in E; lia].
  assert (H2 : 1 <= size / 2 /\ 2 * (size / 2) <= size) by lia.
  destruct (Z_lt_le_dec (base + size / 2) k).
  - rewrite (HL (base + size / 2)) by lia. apply IHfuel; lia.
  - rewrite (HG (base + size / 2)) by lia. apply IHfuel; lia.
Qed.

Lemma bsearch_err cmp len k : 0 <= k <= len ->
  (forall i, 0 <= i < k -> cmp i = Lt) -> (forall i, k <= i < len -> cmp i = Gt) ->
  bsearch_by cmp len = BErr k.
Proof.
  intros Hr HL HG. unfold bsearch_by.
  destruct (len <=? 0) eqn:E; [apply Z.leb_le in E; f_equal; lia | apply Z.leb_gt in E].
  pose proof (bs_loop_range cmp (Z.to_nat len) 0 len ltac:(lia)) as R.
  pose proof (bs_loop_split cmp k len HL HG (Z.to_nat len) 0 len) as S.
  specialize (S ltac:(lia) ltac:(lia) ltac:(lia) ltac:(lia) ltac:(lia) ltac:(lia)).
  set (r := bs_loop (Z.to_nat len) cmp 0 len) in *.
  destruct (Z_lt_le_dec r k).
  - rewrite (HL r) by lia. f_equal. lia.
  - rewrite (HG r) by lia. f_equal. lia.
Qed.

(* ================================================================================================ *)
(* lists, strict sortedness, index_of *)

Lemma zlen_cons {A} (x : A) l : zlen (x :: l) = zlen l + 1.
Proof. unfold zlen. cbn [length]. lia. Qed.
Lemma zlen_nonneg {A} (l : list A) : 0 <= zlen l.
Proof. unfold zlen. lia. Qed.
Lemma znth_cons_succ {A} (x : A) l i d : 0 <= i -> znth (x :: l) (i + 1) d = znth l i d.
Proof. intros. unfold znth. replace (Z.to_nat (i + 1)) with (S (Z.to_nat i)) by lia. reflexivity. Qed.
Lemma znth_cons_0 {A} (x : A) l d : znth (x :: l) 0 d = x.
Proof. reflexivity. Qed.
Lemma znth_In {A} (l : list A) i d : 0 <= i < zlen l -> In (znth l i d) l.
Proof. intros. unfold znth, zlen in *. apply nth_In. lia. Qed.
Lemma In_znth {A} (l : list A) x d : In x l -> exists i, 0 <= i < zlen l /\ znth l i d = x.
Proof.
  intros H. destruct (In_nth l x d H) as [n [Hn Hx]]. exists (Z.of_nat n). unfold znth, zlen.
  rewrite Nat2Z.id. split; [lia | exact Hx].
Qed.
Lemma znth_error_some {A} (l : list A) i d : 0 <= i < zlen l -> znth_error l i = Some (znth l i d).
Proof.
  intros H. unfold znth_error, znth, zlen in *. destruct (i <? 0) eqn:E; [apply Z.ltb_lt in E; lia|].
  apply nth_error_nth'. lia.
Qed.
Lemma znth_error_none {A} (l : list A) i : i < 0 \/ zlen l <= i -> znth_error l i = None.
Proof.
  intros H. unfold znth_error, zlen in *. destruct (i <? 0) eqn:E; [reflexivity|]. apply Z.ltb_ge in E.
  apply nth_error_None. lia.
Qed.

Fixpoint ssorted (l : list Z) : Prop :=
  match l with [] => True | x :: r => Forall (Z.lt x) r /\ ssorted r end.

Lemma ssorted_nth_lt l : ssorted l -> forall i j, (i < j < length l)%nat -> nth i l 0 < nth j l 0.
Proof.
  induction l as [|x r IH]; intros S i j H; cbn in *; [lia|].
  destruct S as [F S]. destruct j; [lia|]. destruct i.
  - rewrite Forall_forall in F. apply F. apply nth_In. lia.
  - apply IH; [exact S | lia].
Qed.
Lemma ssorted_znth_lt l i j : ssorted l -> 0 <= i < j -> j < zlen l -> znth l i 0 < znth l j 0.
Proof. intros S H1 H2. unfold znth, zlen in *. apply ssorted_nth_lt; [exact S | lia]. Qed.

Lemma index_of_some g l i : index_of g l = Some i -> 0 <= i < zlen l /\ znth l i 0 = g.
Proof.
  revert i. induction l as [|x r IH]; intros i H; cbn [index_of] in H; [discriminate|].
  rewrite zlen_cons. pose proof (zlen_nonneg r).
  destruct (x =? g) eqn:E.
  - inversion H; subst. apply Z.eqb_eq in E. split; [lia | exact E].
  - destruct (index_of g r) as [z|]; cbn in H; inversion H; subst.
    destruct (IH z eq_refl) as [R N]. split; [lia|].
    unfold Z.succ. rewrite znth_cons_succ by lia. exact N.
Qed.
Lemma index_of_none g l : index_of g l = None -> ~ In g l.
Proof.
  induction l as [|x r IH]; intros H; cbn [index_of] in H; [intros []|].
  destruct (x =? g) eqn:E; [discriminate|]. apply Z.eqb_neq in E.
  destruct (index_of g r); [discriminate|]. intros [?|?]; [congruence | now apply IH].
Qed.
Lemma index_of_in g l : In g l -> exists i, index_of g l = Some i.
Proof.
  intros H. destruct (index_of g l) eqn:E; [eauto|]. apply index_of_none in E. contradiction.
Qed.

(* ---- sort_dedup ---- *)
Lemma insert_dedup_in x l y : In y (insert_dedup x l) <-> y = x \/ In y l.
Proof.
  induction l as [|z r IH]; cbn [insert_dedup].
  - cbn. intuition.
  - destruct (x <? z) eqn:E1; [cbn; intuition|]. destruct (x =? z) eqn:E2.
    + apply Z.eqb_eq in E2. subst. cbn. intuition.
    + cbn. rewrite IH. intuition.
Qed.
Lemma insert_dedup_sorted x l : ssorted l -> ssorted (insert_dedup x l).
Proof.
  induction l as [|z r IH]; intros S; cbn [insert_dedup].
  - cbn. auto.
  - destruct S as [F S]. destruct (x <? z) eqn:E1.
    + apply Z.ltb_lt in E1. cbn. repeat split; auto. constructor; [exact E1|].
      eapply Forall_impl; [|exact F]. intros; lia.
    + apply Z.ltb_ge in E1. destruct (x =? z) eqn:E2; [cbn; auto|]. apply Z.eqb_neq in E2.
      cbn. split; [|auto]. rewrite Forall_forall in *. intros y Hy. apply insert_dedup_in in Hy.
      destruct Hy; [lia | auto].
Qed.
Lemma sort_dedup_sorted l : ssorted (sort_dedup l).
Proof. induction l; cbn; [auto | now apply insert_dedup_sorted]. Qed.
Lemma sort_dedup_in l y : In y (sort_dedup l) <-> In y l.
Proof. induction l; cbn; [tauto|]. rewrite insert_dedup_in, IHl. intuition. Qed.

Lemma ssorted_bounded_length l lo hi : ssorted l -> Forall (fun g => lo <= g <= hi) l -> zlen l <= Z.max 0 (hi - lo + 1).
Proof.
  revert lo. induction l as [|x r IH]; intros lo S F; [unfold zlen; cbn; lia|].
  destruct S as [Fx S]. inversion F; subst. rewrite zlen_cons.
  assert (Fr : Forall (fun g => x + 1 <= g <= hi) r).
  { rewrite Forall_forall in *. intros y Hy. specialize (Fx y Hy). specialize (H2 y Hy). lia. }
  specialize (IH (x + 1) S Fr). lia.
Qed.

(* ================================================================================================ *)
(* CoverageFormat1 *)
Definition gres_of (o : option Z) : gres := match o with Some i => GSome i | None => GNone end.

Lemma cov1_get_spec l g : ssorted l -> cov1_get l g = gres_of (index_of g l).
Proof.
  intros S. unfold cov1_get. destruct (index_of g l) as [i0|] eqn:E; cbn [gres_of].
  - apply index_of_some in E as [R N].
    rewrite (bsearch_found _ _ i0); [reflexivity | exact R | | | ].
    + intros i Hi. apply Z.compare_lt_iff. rewrite <- N. apply ssorted_znth_lt; [exact S | lia | lia].
    + rewrite N. apply Z.compare_refl.
    + intros i Hi. apply Z.compare_gt_iff. rewrite <- N. apply ssorted_znth_lt; [exact S | lia | lia].
  - destruct (bsearch_by _ _) eqn:B; [|reflexivity].
    apply bsearch_ok_sound in B as [C R]. apply Z.compare_eq in C.
    apply index_of_none in E. exfalso. apply E. rewrite <- C. apply znth_In. exact R.
Qed.

(* ================================================================================================ *)
(* range lists (coverage format 2 and classdef format 2 share the record shape) *)

(* ranges are non-empty, increasing and disjoint; [lo] is a strict lower bound for the first start *)
Fixpoint rs_sorted (lo : Z) (rs : list rrec) : Prop :=
  match rs with [] => True | (s, e, _) :: r => lo < s /\ s <= e /\ rs_sorted e r end.
(* first range containing g, evaluated by [val] *)
Fixpoint rfind (val : rrec -> Z -> Z) (rs : list rrec) (g : Z) : option Z :=
  match rs with
  | [] => None
  | (s, e, x) :: r => if (s <=? g) && (g <=? e) then Some (val (s, e, x) g) else rfind val r g
  end.
Definition cov_val (r : rrec) (g : Z) : Z := let '(s, _, ci) := r in ci + (g - s).
Definition cls_val (r : rrec) (g : Z) : Z := let '(_, _, c) := r in c.

Lemma rs_sorted_weaken lo lo' rs : lo' <= lo -> rs_sorted lo rs -> rs_sorted lo' rs.
Proof. destruct rs as [|[[s e] x] r]; cbn; [auto|]. intros; intuition lia. Qed.

Lemma rfind_below val lo rs g : rs_sorted lo rs -> g <= lo -> rfind val rs g = None.
Proof.
  revert lo. induction rs as [|[[s e] x] r IH]; intros lo S H; cbn [rfind]; [reflexivity|].
  destruct S as [A [B C]]. replace (s <=? g) with false by (symmetry; apply Z.leb_gt; lia). cbn.
  apply (IH e C). lia.
Qed.

(* nth-based view of a sorted range list *)
Lemma rs_sorted_nth lo rs : rs_sorted lo rs -> forall i, 0 <= i < zlen rs ->
  let '(s, e, _) := znth rs i (0, 0, 0) in lo < s /\ s <= e.
Proof.
  revert lo. induction rs as [|[[s e] x] r IH]; intros lo S i Hi; [unfold zlen in Hi; cbn in Hi; lia|].
  destruct S as [A [B C]]. rewrite zlen_cons in Hi. destruct (Z.eq_dec i 0) as [->|ne].
  - cbn. lia.
  - replace i with ((i - 1) + 1) by lia. rewrite znth_cons_succ by lia.
    specialize (IH e C (i - 1) ltac:(lia)). destruct (znth r (i - 1) (0, 0, 0)) as [[s' e'] x']. lia.
Qed.
Lemma rs_sorted_nth_lt lo rs : rs_sorted lo rs -> forall i j, 0 <= i < j -> j < zlen rs ->
  snd (fst (znth rs i (0, 0, 0))) < fst (fst (znth rs j (0, 0, 0))).
Proof.
  revert lo. induction rs as [|[[s e] x] r IH]; intros lo S i j Hi Hj; [unfold zlen in Hj; cbn in Hj; lia|].
  destruct S as [A [B C]]. rewrite zlen_cons in Hj.
  replace j with ((j - 1) + 1) by lia. rewrite znth_cons_succ by lia.
  destruct (Z.eq_dec i 0) as [->|ne].
  - cbn [znth Z.to_nat nth fst snd].
    pose proof (rs_sorted_nth e r C (j - 1) ltac:(lia)) as N.
    destruct (znth r (j - 1) (0, 0, 0)) as [[s' e'] x']. cbn. lia.
  - replace i with ((i - 1) + 1) by lia. rewrite znth_cons_succ by lia. apply (IH e C); lia.
Qed.

Lemma rfind_nth val lo rs g i : rs_sorted lo rs -> 0 <= i < zlen rs ->
  (let '(s, e, _) := znth rs i (0, 0, 0) in s <= g <= e) ->
  rfind val rs g = Some (val (znth rs i (0, 0, 0)) g).
Proof.
  revert lo i. induction rs as [|[[s e] x] r IH]; intros lo i S Hi Hc; [unfold zlen in Hi; cbn in Hi; lia|].
  destruct S as [A [B C]]. rewrite zlen_cons in Hi. cbn [rfind].
  destruct (Z.eq_dec i 0) as [->|ne].
  - cbn in Hc. replace (s <=? g) with true by (symmetry; apply Z.leb_le; lia).
    replace (g <=? e) with true by (symmetry; apply Z.leb_le; lia). reflexivity.
  - revert Hc. replace i with ((i - 1) + 1) by lia. rewrite znth_cons_succ by lia. intros Hc.
    pose proof (rs_sorted_nth e r C (i - 1) ltac:(lia)) as N.
    destruct (znth r (i - 1) (0, 0, 0)) as [[s' e'] x'] eqn:Z.
    replace (g <=? e) with false by (symmetry; apply Z.leb_gt; lia). rewrite andb_false_r.
    rewrite <- Z. apply (IH e (i - 1) C); [lia|]. rewrite Z. exact Hc.
Qed.
Lemma rfind_none_nth val rs g : rfind val rs g = None -> forall i, 0 <= i < zlen rs ->
  let '(s, e, _) := znth rs i (0, 0, 0) in ~ (s <= g <= e).
Proof.
  induction rs as [|[[s e] x] r IH]; intros H i Hi; [unfold zlen in Hi; cbn in Hi; lia|].
  cbn [rfind] in H. rewrite zlen_cons in Hi.
  destruct ((s <=? g) && (g <=? e)) eqn:E; [discriminate|].
  destruct (Z.eq_dec i 0) as [->|ne].
  - cbn. intros [P Q]. apply Z.leb_le in P, Q. rewrite P, Q in E. discriminate.
  - replace i with ((i - 1) + 1) by lia. rewrite znth_cons_succ by lia. apply IH; [exact H | lia].
Qed.
Lemma rfind_some_nth val rs g v : rfind val rs g = Some v -> exists i, 0 <= i < zlen rs /\
  (let '(s, e, _) := znth rs i (0, 0, 0) in s <= g <= e) /\ v = val (znth rs i (0, 0, 0)) g.
Proof.
  revert v. induction rs as [|[[s e] x] r IH]; intros v H; cbn [rfind] in H; [discriminate|].
  rewrite zlen_cons. pose proof (zlen_nonneg r).
  destruct ((s <=? g) && (g <=? e)) eqn:E.
  - inversion H; subst. exists 0. apply andb_true_iff in E as [P Q]. apply Z.leb_le in P, Q. cbn. repeat split; lia.
  - destruct (IH v H) as [i [Hi [Hc Hv]]]. exists (i + 1). rewrite znth_cons_succ by lia. repeat split; auto; lia.
Qed.

(* CoverageFormat2::get on a sorted range list = the linear specification *)
Lemma cov2_get_rfind strict lo rs g : rs_sorted lo rs ->
  cov2_get strict rs g =
  match rfind cov_val rs g with
  | Some k => if 65535 <? k then GNone else GSome k
  | None => GNone
  end.
Proof.
  intros S. unfold cov2_get. destruct (rfind cov_val rs g) as [k|] eqn:E.
  - apply rfind_some_nth in E as [i0 [R [C V]]].
    rewrite (bsearch_found _ _ i0); [ | exact R | | | ].
    + destruct (znth rs i0 (0, 0, 0)) as [[s e] ci]. cbn in V. subst k. reflexivity.
    + intros i Hi. pose proof (rs_sorted_nth_lt lo rs S i i0 ltac:(lia) ltac:(lia)) as L.
      destruct (znth rs i0 (0, 0, 0)) as [[s0 e0] c0]. destruct (znth rs i (0, 0, 0)) as [[s e] c].
      cbn in *. replace (e <? g) with true by (symmetry; apply Z.ltb_lt; lia). reflexivity.
    + destruct (znth rs i0 (0, 0, 0)) as [[s0 e0] c0]. cbn.
      replace (e0 <? g) with false by (symmetry; apply Z.ltb_ge; lia).
      replace (g <? s0) with false by (symmetry; apply Z.ltb_ge; lia). reflexivity.
    + intros i Hi. pose proof (rs_sorted_nth_lt lo rs S i0 i ltac:(lia) ltac:(lia)) as L.
      pose proof (rs_sorted_nth lo rs S i ltac:(lia)) as N.
      destruct (znth rs i0 (0, 0, 0)) as [[s0 e0] c0]. destruct (znth rs i (0, 0, 0)) as [[s e] c].
      cbn in *. replace (e <? g) with false by (symmetry; apply Z.ltb_ge; lia).
      replace (g <? s) with true by (symmetry; apply Z.ltb_lt; lia). reflexivity.
  - destruct (bsearch_by _ _) eqn:B; [|reflexivity].
    apply bsearch_ok_sound in B as [C R].
    pose proof (rfind_none_nth _ _ _ E i R) as N.
    destruct (znth rs i (0, 0, 0)) as [[s e] c]. cbn in C. exfalso. apply N.
    destruct (e <? g) eqn:P; [discriminate|]. destruct (g <? s) eqn:Q; [discriminate|].
    apply Z.ltb_ge in P, Q. lia.
Qed.

(* RangeRecord::iter_for_glyphs: the linear reading of the produced ranges is the index in the glyph list *)
Lemma are_sequential_spec a b : are_sequential a b = true <-> b = a + 1.
Proof. unfold are_sequential, sat_sub. rewrite Z.eqb_eq. lia. Qed.

Lemma ranges_go_rfind l : forall a b len g, a <= b ->
  rfind cov_val (ranges_go a b len l) g =
  if (a <=? g) && (g <=? b) then Some (len + (g - a))
  else option_map (fun i => len + (b - a + 1) + i) (index_of g l).
Proof.
  induction l as [|x r IH]; intros a b len g H; cbn [ranges_go].
  - cbn. destruct ((a <=? g) && (g <=? b)); reflexivity.
  - destruct (are_sequential b x) eqn:E.
    + apply are_sequential_spec in E. subst x. rewrite IH by lia. cbn [index_of].
      destruct (Z.eq_dec g (b + 1)) as [->|ne].
      * rewrite Z.eqb_refl. replace (a <=? b + 1) with true by (symmetry; apply Z.leb_le; lia).
        rewrite Z.leb_refl. replace (b + 1 <=? b) with false by (symmetry; apply Z.leb_gt; lia).
        rewrite andb_false_r. cbn. f_equal. lia.
      * replace (b + 1 =? g) with false by (symmetry; apply Z.eqb_neq; lia).
        destruct (a <=? g) eqn:P; cbn [andb].
        -- destruct (g <=? b) eqn:Q.
           ++ apply Z.leb_le in Q. replace (g <=? b + 1) with true by (symmetry; apply Z.leb_le; lia). reflexivity.
           ++ apply Z.leb_gt in Q. replace (g <=? b + 1) with false by (symmetry; apply Z.leb_gt; lia).
              destruct (index_of g r); cbn; [f_equal; lia | reflexivity].
        -- destruct (index_of g r); cbn; [f_equal; lia | reflexivity].
    + cbn [rfind]. destruct ((a <=? g) && (g <=? b)) eqn:P; [reflexivity|].
      rewrite IH by lia. cbn [index_of]. unfold sat_sub.
      destruct (Z.eq_dec x g) as [->|ne].
      * rewrite Z.eqb_refl, Z.leb_refl. cbn. f_equal. lia.
      * replace (x =? g) with false by (symmetry; apply Z.eqb_neq; lia).
        replace ((x <=? g) && (g <=? x)) with false by (symmetry; apply andb_false_iff; rewrite !Z.leb_gt; lia).
        destruct (index_of g r); cbn; [f_equal; lia | reflexivity].
Qed.

Lemma ranges_for_glyphs_rfind l g : rfind cov_val (ranges_for_glyphs l) g = index_of g l.
Proof.
  destruct l as [|x r]; [reflexivity|]. cbn [ranges_for_glyphs]. rewrite ranges_go_rfind by lia.
  cbn [index_of]. destruct (Z.eq_dec x g) as [->|ne].
  - rewrite Z.eqb_refl, Z.leb_refl. cbn. f_equal. lia.
  - replace (x =? g) with false by (symmetry; apply Z.eqb_neq; lia).
    replace ((x <=? g) && (g <=? x)) with false by (symmetry; apply andb_false_iff; rewrite !Z.leb_gt; lia).
    destruct (index_of g r); cbn; [f_equal; lia | reflexivity].
Qed.

Lemma ranges_go_sorted l : forall lo a b len, lo < a -> a <= b -> Forall (Z.lt b) l -> ssorted l ->
  rs_sorted lo (ranges_go a b len l).
Proof.
  induction l as [|x r IH]; intros lo a b len H1 H2 F S; cbn [ranges_go].
  - cbn. lia.
  - inversion F; subst. destruct S as [Fx S]. destruct (are_sequential b x) eqn:E.
    + apply IH; auto; lia.
    + cbn. repeat split; try lia. apply IH; auto; lia.
Qed.
Lemma ranges_for_glyphs_sorted l lo : ssorted l -> Forall (Z.lt lo) l -> rs_sorted lo (ranges_for_glyphs l).
Proof.
  destruct l as [|x r]; [cbn; auto|]. intros [F S] L. inversion L; subst.
  cbn [ranges_for_glyphs]. apply ranges_go_sorted; auto; lia.
Qed.

(* ================================================================================================ *)
(* coverage_get_spec *)
Definition u16 (g : Z) : Prop := 0 <= g <= 65535.

Lemma index_of_sorted_u16_bound l g i : ssorted l -> Forall u16 l -> index_of g l = Some i -> 0 <= i <= 65535.
Proof.
  intros S F E. apply index_of_some in E as [R _].
  pose proof (ssorted_bounded_length l 0 65535 S F). lia.
Qed.

Lemma sort_dedup_u16 G : Forall u16 G -> Forall u16 (sort_dedup G).
Proof. intros F. rewrite Forall_forall in *. intros x Hx. apply F. now apply sort_dedup_in. Qed.

Lemma cov_get_build_fmt G g fmt2 strict : Forall u16 G ->
  cov_get strict (cov_build_fmt fmt2 G) g = gres_of (index_of g (sort_dedup G)).
Proof.
  intros F. pose proof (sort_dedup_sorted G) as S. pose proof (sort_dedup_u16 G F) as U.
  unfold cov_build_fmt. destruct fmt2; cbn [cov_get].
  - rewrite (cov2_get_rfind strict (-1)).
    + rewrite ranges_for_glyphs_rfind. destruct (index_of g (sort_dedup G)) as [i|] eqn:E; [|reflexivity].
      pose proof (index_of_sorted_u16_bound _ _ _ S U E) as B.
      replace (65535 <? i) with false by (symmetry; apply Z.ltb_ge; lia). reflexivity.
    + apply ranges_for_glyphs_sorted; [exact S|]. eapply Forall_impl; [|exact U]. unfold u16. intros; lia.
  - apply cov1_get_spec. exact S.
Qed.

Lemma cov_get_build G g strict : Forall u16 G ->
  cov_get strict (cov_build G) g = gres_of (index_of g (sort_dedup G)).
Proof. intros F. unfold cov_build. now apply cov_get_build_fmt. Qed.

Lemma cov_format_choice_irrelevant G g fmt2 strict : Forall u16 G ->
  cov_get strict (cov_build G) g = cov_get strict (cov_build_fmt fmt2 G) g.
Proof. intros F. rewrite cov_get_build, cov_get_build_fmt; auto. Qed.

Lemma cov_membership G g strict : Forall u16 G ->
  (cov_get strict (cov_build G) g = GNone <-> ~ In g G) /\
  (forall i, cov_get strict (cov_build G) g = GSome i -> In g G).
Proof.
  intros F. rewrite cov_get_build by exact F. split; [split|].
  - destruct (index_of g (sort_dedup G)) eqn:E; cbn; [discriminate|]. intros _ H.
    apply index_of_none in E. apply E. now apply sort_dedup_in.
  - intros H. destruct (index_of g (sort_dedup G)) eqn:E; cbn; [|reflexivity].
    apply index_of_some in E as [R N]. exfalso. apply H. apply sort_dedup_in. rewrite <- N. now apply znth_In.
  - intros i H. destruct (index_of g (sort_dedup G)) eqn:E; cbn in H; [|discriminate].
    apply index_of_some in E as [R N]. apply sort_dedup_in. rewrite <- N. now apply znth_In.
Qed.

(* ================================================================================================ *)
(* class definitions *)
Definition ksorted (m : list (Z * Z)) : Prop := ssorted (map fst m).

Lemma assoc_map_insert g k v m : assoc g (map_insert k v m) = if k =? g then Some v else assoc g m.
Proof.
  induction m as [|[k' v'] r IH]; cbn [map_insert assoc]; [reflexivity|].
  destruct (k <? k') eqn:E1; [reflexivity|]. apply Z.ltb_ge in E1.
  destruct (k =? k') eqn:E2.
  - apply Z.eqb_eq in E2. subst k'. cbn [assoc]. destruct (k =? g); reflexivity.
  - apply Z.eqb_neq in E2. cbn [assoc]. rewrite IH. destruct (k' =? g) eqn:E3; [|reflexivity].
    apply Z.eqb_eq in E3. subst. replace (k =? g) with false by (symmetry; apply Z.eqb_neq; lia). reflexivity.
Qed.
Lemma map_insert_keys k v m x : In x (map fst (map_insert k v m)) <-> x = k \/ In x (map fst m).
Proof.
  induction m as [|[k' v'] r IH]; cbn [map_insert]; [cbn; intuition|].
  destruct (k <? k') eqn:E1; [cbn; intuition|]. destruct (k =? k') eqn:E2.
  - apply Z.eqb_eq in E2. subst. cbn. intuition.
  - cbn [map fst In]. rewrite IH. cbn. intuition.
Qed.
Lemma map_insert_ksorted k v m : ksorted m -> ksorted (map_insert k v m).
Proof.
  unfold ksorted. induction m as [|[k' v'] r IH]; intros S; cbn [map_insert]; [cbn; auto|].
  cbn in S. destruct S as [F S]. destruct (k <? k') eqn:E1.
  - apply Z.ltb_lt in E1. cbn. repeat split; auto. constructor; [exact E1|].
    eapply Forall_impl; [|exact F]. intros; lia.
  - apply Z.ltb_ge in E1. destruct (k =? k') eqn:E2.
    + apply Z.eqb_eq in E2. subst. cbn. auto.
    + apply Z.eqb_neq in E2. cbn. split; [|auto]. rewrite Forall_forall in *. intros y Hy.
      apply map_insert_keys in Hy. destruct Hy; [lia | auto].
Qed.

Lemma assoc_app g a b : assoc g (a ++ b) = match assoc g a with Some v => Some v | None => assoc g b end.
Proof. induction a as [|[k v] r IH]; cbn; [reflexivity|]. destruct (k =? g); auto. Qed.

Lemma fold_insert_assoc g l : forall m,
  assoc g (fold_left (fun m p => map_insert (fst p) (snd p) m) l m) =
  match assoc g (rev l) with Some v => Some v | None => assoc g m end.
Proof.
  induction l as [|[k v] r IH]; intros m; cbn [fold_left rev]; [reflexivity|].
  rewrite IH, assoc_app. cbn [fst snd]. destruct (assoc g (rev r)); [reflexivity|].
  rewrite assoc_map_insert. cbn [assoc]. destruct (k =? g); reflexivity.
Qed.
Lemma fold_insert_ksorted l : forall m, ksorted m -> ksorted (fold_left (fun m p => map_insert (fst p) (snd p) m) l m).
Proof. induction l; intros m S; cbn; [exact S|]. apply IHl. now apply map_insert_ksorted. Qed.

Definition nz (p : Z * Z) : bool := negb (snd p =? 0).
(* the class assignment as given: the last non-zero assignment of the glyph, 0 when there is none *)
Definition cd_spec (input : list (Z * Z)) (g : Z) : Z :=
  match assoc g (rev (filter nz input)) with Some c => c | None => 0 end.
Definition assoc0 (m : list (Z * Z)) (g : Z) : Z := match assoc g m with Some c => c | None => 0 end.

Lemma cd_items_assoc input g : assoc0 (cd_items input) g = cd_spec input g.
Proof.
  unfold assoc0, cd_items, cd_spec. change (fun p : Z * Z => negb (snd p =? 0)) with nz.
  rewrite fold_insert_assoc. cbn [assoc]. destruct (assoc g (rev (filter nz input))); reflexivity.
Qed.
Lemma cd_items_ksorted input : ksorted (cd_items input).
Proof. unfold cd_items. apply fold_insert_ksorted. cbn. auto. Qed.

Lemma assoc_in g m c : assoc g m = Some c -> In (g, c) m.
Proof.
  induction m as [|[k v] r IH]; cbn; [discriminate|]. destruct (k =? g) eqn:E.
  - apply Z.eqb_eq in E. intros H; inversion H; subst. auto.
  - auto.
Qed.
Lemma assoc_none_keys g m : assoc g m = None -> ~ In g (map fst m).
Proof.
  induction m as [|[k v] r IH]; cbn; [tauto|]. destruct (k =? g) eqn:E; [discriminate|].
  apply Z.eqb_neq in E. intros H [?|?]; [lia | now apply IH].
Qed.
Lemma ssorted_last_max l d : ssorted l -> forall x, In x l -> x <= last l d.
Proof.
  induction l as [|y r IH]; intros S x H; [destruct H|]. destruct S as [F S].
  destruct r as [|z r']; [destruct H as [->|[]]; cbn; lia|].
  change (last (y :: z :: r') d) with (last (z :: r') d).
  destruct H as [->|H]; [|now apply IH].
  rewrite Forall_forall in F. specialize (F z (or_introl eq_refl)).
  specialize (IH S z (or_introl eq_refl)). lia.
Qed.
Lemma last_map_fst (m : list (Z * Z)) : fst (last m (0, 0)) = last (map fst m) 0.
Proof. induction m as [|p [|q r] IH]; cbn in *; auto. Qed.

(* ---- format 1 ---- *)
Lemma nth_error_map_seq {B} (f : nat -> B) n : forall a i,
  nth_error (map f (seq a n)) i = if (i <? n)%nat then Some (f (a + i)%nat) else None.
Proof.
  induction n as [|n IH]; intros a i; cbn [seq map].
  - destruct i; reflexivity.
  - destruct i; cbn [nth_error].
    + rewrite Nat.add_0_r. reflexivity.
    + rewrite IH. replace (S a + i)%nat with (a + S i)%nat by lia.
      change (S i <? S n)%nat with (i <? n)%nat. reflexivity.
Qed.
Lemma znth_error_map_zrange (f : Z -> Z) s e g : s <= g ->
  znth_error (map f (zrange s e)) (g - s) = if g <=? e then Some (f g) else None.
Proof.
  intros H. unfold znth_error, zrange. replace (g - s <? 0) with false by (symmetry; apply Z.ltb_ge; lia).
  rewrite map_map, nth_error_map_seq.
  destruct (g <=? e) eqn:E.
  - apply Z.leb_le in E. replace (Z.to_nat (g - s) <? Z.to_nat (e - s + 1))%nat with true
      by (symmetry; apply Nat.ltb_lt; lia). f_equal. f_equal. lia.
  - apply Z.leb_gt in E. replace (Z.to_nat (g - s) <? Z.to_nat (e - s + 1))%nat with false
      by (symmetry; apply Nat.ltb_ge; lia). reflexivity.
Qed.

Lemma cd1_build_get items g : ksorted items ->
  cd_get (cd_build_items_fmt true items) g = assoc0 items g.
Proof.
  intros S. unfold cd_build_items_fmt, cd_get, cd1_get, assoc0.
  destruct items as [|[k v] r].
  - cbn [assoc List.last fst]. destruct (g <? 0) eqn:E; [reflexivity|]. apply Z.ltb_ge in E.
    rewrite znth_error_map_zrange by lia. destruct (g <=? 0); reflexivity.
  - set (items := (k, v) :: r) in *. set (lst := fst (last items (0, 0))).
    assert (B : forall c, assoc g items = Some c -> k <= g <= lst).
    { intros c H. apply assoc_in in H. assert (I : In g (map fst items)) by (apply (in_map fst) in H; exact H).
      split.
      - unfold ksorted in S. cbn in S. destruct S as [F _]. cbn in I. destruct I as [->|I]; [lia|].
        rewrite Forall_forall in F. specialize (F g I). lia.
      - unfold lst. rewrite last_map_fst. apply ssorted_last_max; auto. }
    destruct (g <? k) eqn:E.
    + apply Z.ltb_lt in E. destruct (assoc g items) eqn:A; [|reflexivity]. specialize (B z eq_refl). lia.
    + apply Z.ltb_ge in E. rewrite znth_error_map_zrange by lia.
      destruct (g <=? lst) eqn:E2; [reflexivity|]. apply Z.leb_gt in E2.
      destruct (assoc g items) eqn:A; [|reflexivity]. specialize (B z eq_refl). lia.
Qed.

(* ---- format 2 ---- *)
Lemma class_ranges_go_rfind l : forall s e c g, s <= e ->
  rfind cls_val (class_ranges_go s e c l) g = if (s <=? g) && (g <=? e) then Some c else assoc g l.
Proof.
  induction l as [|[x cls] r IH]; intros s e c g H; cbn [class_ranges_go].
  - cbn. destruct ((s <=? g) && (g <=? e)); reflexivity.
  - destruct (are_sequential e x && (c =? cls)) eqn:E.
    + apply andb_true_iff in E as [E1 E2]. apply are_sequential_spec in E1. apply Z.eqb_eq in E2. subst x cls.
      rewrite IH by lia. cbn [assoc].
      destruct (Z.eq_dec g (e + 1)) as [->|ne].
      * rewrite Z.eqb_refl. replace (s <=? e + 1) with true by (symmetry; apply Z.leb_le; lia).
        rewrite Z.leb_refl. replace (e + 1 <=? e) with false by (symmetry; apply Z.leb_gt; lia).
        rewrite andb_false_r. reflexivity.
      * replace (e + 1 =? g) with false by (symmetry; apply Z.eqb_neq; lia).
        destruct (s <=? g) eqn:P; cbn [andb]; [|reflexivity].
        destruct (g <=? e) eqn:Q.
        -- apply Z.leb_le in Q. replace (g <=? e + 1) with true by (symmetry; apply Z.leb_le; lia). reflexivity.
        -- apply Z.leb_gt in Q. replace (g <=? e + 1) with false by (symmetry; apply Z.leb_gt; lia). reflexivity.
    + cbn [rfind]. destruct ((s <=? g) && (g <=? e)) eqn:P; [reflexivity|].
      rewrite IH by lia. cbn [assoc].
      destruct (Z.eq_dec x g) as [->|ne].
      * rewrite Z.eqb_refl, Z.leb_refl. reflexivity.
      * replace (x =? g) with false by (symmetry; apply Z.eqb_neq; lia).
        replace ((x <=? g) && (g <=? x)) with false by (symmetry; apply andb_false_iff; rewrite !Z.leb_gt; lia).
        reflexivity.
Qed.
Lemma class_ranges_rfind items g : rfind cls_val (class_ranges items) g = assoc g items.
Proof.
  destruct items as [|[x c] r]; [reflexivity|]. cbn [class_ranges]. rewrite class_ranges_go_rfind by lia.
  cbn [assoc]. destruct (Z.eq_dec x g) as [->|ne].
  - rewrite Z.eqb_refl, Z.leb_refl. reflexivity.
  - replace (x =? g) with false by (symmetry; apply Z.eqb_neq; lia).
    replace ((x <=? g) && (g <=? x)) with false by (symmetry; apply andb_false_iff; rewrite !Z.leb_gt; lia).
    reflexivity.
Qed.
Lemma class_ranges_go_sorted l : forall lo s e c, lo < s -> s <= e -> Forall (Z.lt e) (map fst l) -> ksorted l ->
  rs_sorted lo (class_ranges_go s e c l).
Proof.
  unfold ksorted. induction l as [|[x cls] r IH]; intros lo s e c H1 H2 F S; cbn [class_ranges_go].
  - cbn. lia.
  - cbn in F, S. inversion F; subst. destruct S as [Fx S].
    destruct (are_sequential e x && (c =? cls)).
    + apply IH; auto; lia.
    + cbn. repeat split; try lia. apply IH; auto; lia.
Qed.
Lemma class_ranges_sorted items : ksorted items -> exists lo, rs_sorted lo (class_ranges items).
Proof.
  destruct items as [|[x c] r]; [exists 0; cbn; auto|]. intros S. unfold ksorted in S. cbn in S. destruct S as [F S].
  exists (x - 1). cbn [class_ranges]. apply class_ranges_go_sorted; auto; lia.
Qed.

Lemma cd2_get_rfind lo rs g : rs_sorted lo rs ->
  cd2_get rs g = match rfind cls_val rs g with Some c => c | None => 0 end.
Proof.
  intros S. unfold cd2_get. destruct (rfind cls_val rs g) as [c|] eqn:E.
  - apply rfind_some_nth in E as [i0 [R [C V]]].
    assert (CL : forall i, 0 <= i < i0 -> (fst (fst (znth rs i (0, 0, 0))) ?= g) = Lt).
    { intros i Hi. pose proof (rs_sorted_nth_lt lo rs S i i0 ltac:(lia) ltac:(lia)) as L.
      pose proof (rs_sorted_nth lo rs S i ltac:(lia)) as N.
      destruct (znth rs i0 (0, 0, 0)) as [[s0 e0] c0]. destruct (znth rs i (0, 0, 0)) as [[s e] c'].
      cbn in *. apply Z.compare_lt_iff. lia. }
    assert (CG : forall i, i0 < i < zlen rs -> (fst (fst (znth rs i (0, 0, 0))) ?= g) = Gt).
    { intros i Hi. pose proof (rs_sorted_nth_lt lo rs S i0 i ltac:(lia) ltac:(lia)) as L.
      destruct (znth rs i0 (0, 0, 0)) as [[s0 e0] c0]. destruct (znth rs i (0, 0, 0)) as [[s e] c'].
      cbn in *. apply Z.compare_gt_iff. lia. }
    assert (IX : match bsearch_by (fun i => fst (fst (znth rs i (0, 0, 0))) ?= g) (zlen rs) with
                 | BOk ix => ix | BErr ix => sat_sub ix 1 end = i0).
    { destruct (Z.eq_dec (fst (fst (znth rs i0 (0, 0, 0)))) g) as [e|ne].
      - rewrite (bsearch_found _ _ i0); auto. rewrite e. apply Z.compare_refl.
      - rewrite (bsearch_err _ _ (i0 + 1)); [unfold sat_sub; lia | lia | | ].
        + intros i Hi. destruct (Z.eq_dec i i0) as [->|n2]; [|apply CL; lia].
          destruct (znth rs i0 (0, 0, 0)) as [[s0 e0] c0]. cbn in *. apply Z.compare_lt_iff. lia.
        + intros i Hi. apply CG. lia. }
    rewrite IX. rewrite (znth_error_some rs i0 (0, 0, 0) R).
    destruct (znth rs i0 (0, 0, 0)) as [[s0 e0] c0]. cbn in V. subst c.
    replace (s0 <=? g) with true by (symmetry; apply Z.leb_le; lia).
    replace (g <=? e0) with true by (symmetry; apply Z.leb_le; lia). reflexivity.
  - set (ix := match bsearch_by _ _ with BOk ix => ix | BErr ix => sat_sub ix 1 end).
    destruct (Z_lt_le_dec ix 0) as [N|N]; [rewrite znth_error_none by lia; reflexivity|].
    destruct (Z_lt_le_dec ix (zlen rs)) as [M|M]; [|rewrite znth_error_none by lia; reflexivity].
    rewrite (znth_error_some rs ix (0, 0, 0)) by lia.
    pose proof (rfind_none_nth _ _ _ E ix ltac:(lia)) as NN.
    destruct (znth rs ix (0, 0, 0)) as [[s e] c].
    destruct ((s <=? g) && (g <=? e)) eqn:P; [|reflexivity].
    apply andb_true_iff in P as [P Q]. apply Z.leb_le in P, Q. exfalso. apply NN. lia.
Qed.

Lemma cd2_build_get items g : ksorted items ->
  cd_get (cd_build_items_fmt false items) g = assoc0 items g.
Proof.
  intros S. cbn [cd_build_items_fmt cd_get]. destruct (class_ranges_sorted items S) as [lo L].
  rewrite (cd2_get_rfind lo _ _ L), class_ranges_rfind. reflexivity.
Qed.

Lemma cd_get_build_fmt input g fmt1 : cd_get (cd_build_fmt fmt1 input) g = cd_spec input g.
Proof.
  unfold cd_build_fmt. rewrite <- cd_items_assoc. pose proof (cd_items_ksorted input).
  destruct fmt1; [now apply cd1_build_get | now apply cd2_build_get].
Qed.
Lemma cd_get_build input g : cd_get (cd_build input) g = cd_spec input g.
Proof. unfold cd_build. apply (cd_get_build_fmt input g (prefer_format_1 (cd_items input))). Qed.
Lemma cd_format_choice_irrelevant input g fmt1 : cd_get (cd_build input) g = cd_get (cd_build_fmt fmt1 input) g.
Proof. now rewrite cd_get_build, cd_get_build_fmt. Qed.

(* when every glyph is given once, the specification is literally the assignment given *)
Lemma assoc_nodup g c m : NoDup (map fst m) -> In (g, c) m -> assoc g m = Some c.
Proof.
  induction m as [|[k v] r IH]; intros N H; [destruct H|]. cbn in N. inversion N; subst. cbn.
  destruct H as [H|H].
  - inversion H; subst. now rewrite Z.eqb_refl.
  - destruct (k =? g) eqn:E; [|auto]. apply Z.eqb_eq in E. subst. exfalso. apply H2.
    apply (in_map fst) in H. exact H.
Qed.
Lemma nodup_keys_filter_rev m : NoDup (map fst m) -> NoDup (map fst (rev (filter nz m))).
Proof.
  intros N. rewrite map_rev. apply NoDup_rev. induction m as [|[k v] r IH]; cbn; [constructor|].
  cbn in N. inversion N; subst. destruct (nz (k, v)); cbn; [|auto]. constructor; [|auto].
  intros H. apply H1. apply in_map_iff in H as [[k' v'] [E I]]. cbn in E. subst k'.
  apply filter_In in I as [I _]. apply (in_map fst) in I. exact I.
Qed.
Lemma cd_spec_nodup input g c : NoDup (map fst input) -> In (g, c) input -> cd_spec input g = c.
Proof.
  intros N H. unfold cd_spec. destruct (Z.eq_dec c 0) as [->|ne].
  - destruct (assoc g (rev (filter nz input))) eqn:A; [|reflexivity]. exfalso.
    apply assoc_in in A. apply in_rev in A. apply filter_In in A as [I Z].
    assert (E : assoc g input = Some 0) by (now apply assoc_nodup).
    rewrite (assoc_nodup g z input N I) in E. inversion E; subst. unfold nz in Z. cbn in Z. discriminate.
  - rewrite (assoc_nodup g c); auto; [now apply nodup_keys_filter_rev|].
    apply -> in_rev. apply filter_In. split; [exact H|]. unfold nz. cbn.
    apply negb_true_iff. apply Z.eqb_neq. exact ne.
Qed.
Lemma cd_spec_unassigned input g : ~ In g (map fst input) -> cd_spec input g = 0.
Proof.
  intros H. unfold cd_spec. destruct (assoc g (rev (filter nz input))) eqn:A; [|reflexivity]. exfalso. apply H.
  apply assoc_in in A. apply in_rev in A. apply filter_In in A as [I _]. apply (in_map fst) in I. exact I.
Qed.

(* ================================================================================================ *)
(* well-formed coverage tables and their meaning *)
Definition rr_ok (r : rrec) : Prop := let '(s, e, ci) := r in 0 <= ci /\ ci + (e - s) <= 65535.
Definition cov_wf (c : cov) : Prop :=
  match c with
  | Cov1 l => ssorted l
  | Cov2 rs => rs_sorted (-1) rs /\ Forall rr_ok rs
  end.
Definition cov_sem (c : cov) (g : Z) : option Z :=
  match c with Cov1 l => index_of g l | Cov2 rs => rfind cov_val rs g end.

Lemma rfind_ok_bound rs g k : Forall rr_ok rs -> rfind cov_val rs g = Some k -> 0 <= k <= 65535.
Proof.
  intros F H. apply rfind_some_nth in H as [i [R [C V]]].
  rewrite Forall_forall in F. specialize (F _ (znth_In rs i (0, 0, 0) R)).
  destruct (znth rs i (0, 0, 0)) as [[s e] ci]. cbn in *. lia.
Qed.

Lemma cov_idx_sem c g : cov_wf c -> cov_idx c g = cov_sem c g.
Proof.
  unfold cov_idx. destruct c as [l|rs]; cbn [cov_wf cov_get cov_sem].
  - intros S. rewrite cov1_get_spec by exact S. destruct (index_of g l); reflexivity.
  - intros [S F]. rewrite (cov2_get_rfind false (-1)) by exact S.
    destruct (rfind cov_val rs g) as [k|] eqn:E; [|reflexivity].
    pose proof (rfind_ok_bound _ _ _ F E). replace (65535 <? k) with false by (symmetry; apply Z.ltb_ge; lia). reflexivity.
Qed.

Lemma cov_build_wf G : Forall u16 G -> forall f, cov_wf (cov_build_fmt f G).
Proof.
  intros F f. pose proof (sort_dedup_sorted G) as S. pose proof (sort_dedup_u16 G F) as U.
  destruct f; cbn [cov_build_fmt cov_wf]; [|exact S]. split.
  - apply ranges_for_glyphs_sorted; [exact S|]. eapply Forall_impl; [|exact U]. unfold u16. intros; lia.
  - assert (SR : rs_sorted (-1) (ranges_for_glyphs (sort_dedup G))).
    { apply ranges_for_glyphs_sorted; [exact S|]. eapply Forall_impl; [|exact U]. unfold u16. intros; lia. }
    rewrite Forall_forall. intros [[s e] ci] H.
    destruct (@In_znth rrec _ _ (0, 0, 0) H) as [i [R Z]].
    pose proof (rs_sorted_nth (-1) _ SR i R) as N.
    rewrite Z in N. cbn.
    assert (A : rfind cov_val (ranges_for_glyphs (sort_dedup G)) s = Some (ci + (s - s))).
    { rewrite (rfind_nth cov_val (-1) _ s i SR R); [rewrite Z; reflexivity | rewrite Z; lia]. }
    assert (B : rfind cov_val (ranges_for_glyphs (sort_dedup G)) e = Some (ci + (e - s))).
    { rewrite (rfind_nth cov_val (-1) _ e i SR R); [rewrite Z; reflexivity | rewrite Z; lia]. }
    rewrite ranges_for_glyphs_rfind in A, B.
    pose proof (index_of_sorted_u16_bound _ _ _ S U A). pose proof (index_of_sorted_u16_bound _ _ _ S U B). lia.
Qed.

(* ---- sublists ---- *)
Lemma nth_error_firstn_lt {A} (l : list A) : forall n i, (i < n)%nat -> nth_error (firstn n l) i = nth_error l i.
Proof.
  induction l as [|x r IH]; intros n i H; [destruct n; destruct i; reflexivity|].
  destruct n; [lia|]. destruct i; cbn; [reflexivity|]. apply IH. lia.
Qed.
Lemma nth_error_firstn_ge {A} (l : list A) : forall n i, (n <= i)%nat -> nth_error (firstn n l) i = None.
Proof. intros n i H. apply nth_error_None. rewrite firstn_length. lia. Qed.
Lemma nth_error_skipn' {A} (l : list A) : forall n i, nth_error (skipn n l) i = nth_error l (n + i).
Proof.
  induction l as [|x r IH]; intros n i; [destruct n; destruct i; reflexivity|].
  destruct n; cbn; [reflexivity|]. apply IH.
Qed.
Lemma znth_error_sublist {A} (l : list A) a b k : 0 <= a -> a <= k ->
  znth_error (sublist a b l) (k - a) = if k <? b then znth_error l k else None.
Proof.
  intros Ha Hk. unfold znth_error, sublist.
  replace (k - a <? 0) with false by (symmetry; apply Z.ltb_ge; lia).
  replace (k <? 0) with false by (symmetry; apply Z.ltb_ge; lia).
  destruct (k <? b) eqn:E.
  - apply Z.ltb_lt in E. rewrite nth_error_firstn_lt by lia. rewrite nth_error_skipn'. f_equal. lia.
  - apply Z.ltb_ge in E. apply nth_error_firstn_ge. lia.
Qed.

Lemma ssorted_in_tail x l : ssorted l -> forall n, Forall (Z.lt x) l -> Forall (Z.lt x) (skipn n l).
Proof.
  intros _ n F. rewrite Forall_forall in *. intros y Hy. apply F.
  rewrite <- (firstn_skipn n l). apply in_or_app. now right.
Qed.
Lemma ssorted_skipn l : forall n, ssorted l -> ssorted (skipn n l).
Proof. induction l as [|x r IH]; intros n S; destruct n; cbn; auto. destruct S. now apply IH. Qed.
Lemma ssorted_firstn l : forall n, ssorted l -> ssorted (firstn n l).
Proof.
  induction l as [|x r IH]; intros n S; destruct n; cbn; auto. destruct S as [F S]. split; [|now apply IH].
  rewrite Forall_forall in *. intros y Hy. apply F. rewrite <- (firstn_skipn n r). apply in_or_app. now left.
Qed.
Lemma ssorted_sublist a b l : ssorted l -> ssorted (sublist a b l).
Proof. intros. unfold sublist. now apply ssorted_firstn, ssorted_skipn. Qed.

Lemma index_of_iff l g i : ssorted l -> (index_of g l = Some i <-> 0 <= i < zlen l /\ znth l i 0 = g).
Proof.
  intros S. split; [apply index_of_some|]. intros [R N].
  assert (I : In g l) by (rewrite <- N; now apply znth_In).
  destruct (index_of_in _ _ I) as [j E]. destruct (index_of_some _ _ _ E) as [Rj Nj].
  destruct (Z.lt_trichotomy i j) as [L|[->|L]]; [|exact E|].
  - pose proof (ssorted_znth_lt l i j S ltac:(lia) ltac:(lia)). lia.
  - pose proof (ssorted_znth_lt l j i S ltac:(lia) ltac:(lia)). lia.
Qed.
Lemma zlen_sublist {A} (l : list A) a b : 0 <= a <= b -> b <= zlen l -> zlen (sublist a b l) = b - a.
Proof. intros. unfold zlen, sublist in *. rewrite firstn_length, skipn_length. lia. Qed.
Lemma znth_sublist {A} (l : list A) a b i d : 0 <= a -> 0 <= i < b - a -> b <= zlen l ->
  znth (sublist a b l) i d = znth l (a + i) d.
Proof.
  intros Ha Hi Hb.
  assert (E : znth_error (sublist a b l) (a + i - a) = Some (znth l (a + i) d)).
  { rewrite znth_error_sublist by lia. replace (a + i <? b) with true by (symmetry; apply Z.ltb_lt; lia).
    apply znth_error_some. lia. }
  replace (a + i - a) with i in E by lia.
  rewrite (znth_error_some _ i d) in E by (rewrite zlen_sublist; lia). now inversion E.
Qed.

Definition window (a b : Z) (o : option Z) : option Z :=
  match o with Some k => if (a <=? k) && (k <? b) then Some (k - a) else None | None => None end.

Lemma index_of_sublist l g a b : ssorted l -> 0 <= a <= b -> b <= zlen l ->
  index_of g (sublist a b l) = window a b (index_of g l).
Proof.
  intros S Ha Hb. pose proof (ssorted_sublist a b l S) as S'. unfold window.
  destruct (index_of g (sublist a b l)) as [i|] eqn:E.
  - apply (index_of_iff _ _ _ S') in E as [R N]. rewrite zlen_sublist in R by lia.
    rewrite znth_sublist in N by lia.
    assert (E2 : index_of g l = Some (a + i)) by (apply index_of_iff; [exact S | split; [lia | exact N]]).
    rewrite E2. replace (a <=? a + i) with true by (symmetry; apply Z.leb_le; lia).
    replace (a + i <? b) with true by (symmetry; apply Z.ltb_lt; lia). cbn. f_equal. lia.
  - destruct (index_of g l) as [k|] eqn:E2; [|reflexivity].
    destruct ((a <=? k) && (k <? b)) eqn:W; [|reflexivity]. exfalso.
    apply andb_true_iff in W as [W1 W2]. apply Z.leb_le in W1. apply Z.ltb_lt in W2.
    apply (index_of_iff _ _ _ S) in E2 as [R N].
    assert (E3 : index_of g (sublist a b l) = Some (k - a)).
    { apply index_of_iff; [exact S'|]. rewrite zlen_sublist by lia. split; [lia|].
      rewrite znth_sublist by lia. replace (a + (k - a)) with k by lia. exact N. }
    congruence.
Qed.

(* ---- split_range_record ---- *)
Lemma split_rr_spec s e ci a b' : s <= e -> a <= b' ->
  match split_range_record (s, e, ci) a b' with
  | Some (s', e', ci') =>
      s <= s' /\ s' <= e' /\ e' <= e /\
      (forall g, s' <= g <= e' <-> s <= g <= e /\ a <= ci + (g - s) <= b') /\
      (forall g, ci' + (g - s') = ci + (g - s) - a)
  | None => forall g, s <= g <= e -> ~ (a <= ci + (g - s) <= b')
  end.
Proof.
  intros H Hab. unfold split_range_record, sat_sub. cbv zeta.
  destruct ((b' <? ci) || (ci + (e - s) <? a)) eqn:E.
  - apply orb_true_iff in E. rewrite !Z.ltb_lt in E. intros g Hg. lia.
  - apply orb_false_iff in E. rewrite !Z.ltb_ge in E. destruct E as [E1 E2].
    split; [lia|]. split; [lia|]. split; [lia|]. split; intros g; lia.
Qed.

Lemma filter_map_split_sorted a b' rs : a <= b' -> forall lo, rs_sorted lo rs ->
  rs_sorted lo (filter_map (fun r => split_range_record r a b') rs).
Proof.
  intros Hab. induction rs as [|[[s e] ci] r IH]; intros lo S; cbn [filter_map]; [exact S|].
  destruct S as [A [B C]]. pose proof (split_rr_spec s e ci a b' B Hab) as P.
  destruct (split_range_record (s, e, ci) a b') as [[[s' e'] ci']|].
  - cbn. destruct P as [P1 [P2 [P3 _]]]. repeat split; try lia.
    apply (rs_sorted_weaken e); [lia | now apply IH].
  - apply (rs_sorted_weaken e); [lia | now apply IH].
Qed.

Lemma filter_map_split_rfind a b' rs g : a <= b' -> forall lo, rs_sorted lo rs ->
  rfind cov_val (filter_map (fun r => split_range_record r a b') rs) g = window a (b' + 1) (rfind cov_val rs g).
Proof.
  intros Hab. induction rs as [|[[s e] ci] r IH]; intros lo S; cbn [filter_map rfind]; [reflexivity|].
  destruct S as [A [B C]]. pose proof (split_rr_spec s e ci a b' B Hab) as P.
  pose proof (filter_map_split_sorted a b' r Hab e C) as ST.
  destruct ((s <=? g) && (g <=? e)) eqn:IN.
  - apply andb_true_iff in IN as [I1 I2]. apply Z.leb_le in I1, I2. cbn [window cov_val].
    destruct (split_range_record (s, e, ci) a b') as [[[s' e'] ci']|].
    + destruct P as [P1 [P2 [P3 [P4 P5]]]]. cbn [rfind].
      destruct ((s' <=? g) && (g <=? e')) eqn:IN2.
      * apply andb_true_iff in IN2 as [J1 J2]. apply Z.leb_le in J1, J2.
        destruct (P4 g) as [Q _]. specialize (Q ltac:(lia)).
        replace (a <=? ci + (g - s)) with true by (symmetry; apply Z.leb_le; lia).
        replace (ci + (g - s) <? b' + 1) with true by (symmetry; apply Z.ltb_lt; lia).
        cbn [andb cov_val]. f_equal. apply P5.
      * rewrite (rfind_below _ e _ g ST) by lia.
        destruct ((a <=? ci + (g - s)) && (ci + (g - s) <? b' + 1)) eqn:W; [|reflexivity]. exfalso.
        apply andb_true_iff in W as [W1 W2]. apply Z.leb_le in W1. apply Z.ltb_lt in W2.
        destruct (P4 g) as [_ Q]. specialize (Q ltac:(lia)).
        apply andb_false_iff in IN2. rewrite !Z.leb_gt in IN2. lia.
    + rewrite (rfind_below _ e _ g ST) by lia.
      destruct ((a <=? ci + (g - s)) && (ci + (g - s) <? b' + 1)) eqn:W; [|reflexivity]. exfalso.
      apply andb_true_iff in W as [W1 W2]. apply Z.leb_le in W1. apply Z.ltb_lt in W2.
      apply (P g); lia.
  - destruct (split_range_record (s, e, ci) a b') as [[[s' e'] ci']|]; [|now apply (IH e)].
    destruct P as [P1 [P2 [P3 _]]]. cbn [rfind].
    replace ((s' <=? g) && (g <=? e')) with false; [now apply (IH e)|].
    symmetry. apply andb_false_iff in IN. rewrite !Z.leb_gt in IN. apply andb_false_iff. rewrite !Z.leb_gt. lia.
Qed.

Lemma filter_map_split_ok a b' rs lo : 0 <= a -> a <= b' -> rs_sorted lo rs -> Forall rr_ok rs ->
  Forall rr_ok (filter_map (fun r => split_range_record r a b') rs).
Proof.
  intros Ha Hab. revert lo. induction rs as [|[[s e] ci] r IH]; intros lo S F; cbn [filter_map]; [constructor|].
  destruct S as [A [B C]]. inversion F; subst. pose proof (split_rr_spec s e ci a b' B Hab) as P.
  destruct (split_range_record (s, e, ci) a b') as [[[s' e'] ci']|]; [|now apply (IH e)].
  constructor; [|now apply (IH e)]. destruct P as [P1 [P2 [P3 [P4 P5]]]]. cbn in H1 |- *.
  pose proof (P5 s'). pose proof (P5 e'). destruct (P4 s') as [Q _]. specialize (Q ltac:(lia)). lia.
Qed.

(* splitting.rs split_coverage: meaning of the result *)
Lemma split_coverage_spec c a b c' : cov_wf c -> 0 <= a -> a < b ->
  split_coverage c a b = Some c' ->
  cov_wf c' /\ forall g, cov_sem c' g = window a b (cov_sem c g).
Proof.
  intros W Ha Hab. unfold split_coverage. destruct (b <? a) eqn:E; [discriminate|]. apply Z.ltb_ge in E.
  destruct c as [l|rs].
  - destruct (zlen l <? b) eqn:E2; [discriminate|]. apply Z.ltb_ge in E2. intros H; inversion H; subst.
    cbn [cov_wf cov_sem] in *. split; [now apply ssorted_sublist|]. intros g. apply index_of_sublist; auto; lia.
  - destruct (b =? 0) eqn:E2; [discriminate|].
    destruct (existsb _ rs); [discriminate|]. intros H; inversion H; subst. destruct W as [S F].
    cbn [cov_wf cov_sem]. split; [split|].
    + apply filter_map_split_sorted; [lia | exact S].
    + apply (filter_map_split_ok a (b - 1) rs (-1)); auto; lia.
    + intros g. rewrite (filter_map_split_rfind a (b - 1) rs g ltac:(lia) (-1) S). f_equal. lia.
Qed.
(* with a non-empty window the u16 subtraction in split_range_record cannot underflow *)
Lemma split_no_underflow a b' rs lo : a <= b' -> rs_sorted lo rs ->
  existsb (fun r => split_rr_underflows r a b') rs = false.
Proof.
  intros Hab. revert lo. induction rs as [|[[s e] ci] r IH]; intros lo S; cbn [existsb]; [reflexivity|].
  destruct S as [A [B C]]. rewrite (IH e C), orb_false_r. unfold split_rr_underflows.
  destruct ((b' <? ci) || (ci + (e - s) <? a)) eqn:E; [reflexivity|]. cbn [negb andb].
  apply orb_false_iff in E. rewrite !Z.ltb_ge in E. apply Z.ltb_ge. lia.
Qed.

(* ================================================================================================ *)
(* split_pair_pos_format_1 preserves the lookup *)
Fixpoint chain (prev : Z) (sps : list Z) (last : Z) : Prop :=
  match sps with [] => prev = last | nx :: r => prev < nx /\ chain nx r last end.
Lemma chain_le sps : forall prev last, chain prev sps last -> prev <= last.
Proof. induction sps as [|nx r IH]; intros prev last H; cbn in H; [lia|]. destruct H as [A B]. specialize (IH _ _ B). lia. Qed.

Section PP1.
Context {V : Type}.
Definition pp1_sem (t : pp1 V) (lo hi : Z) (g1 g2 : Z) : option V :=
  match cov_sem (pp1_cov t) g1 with
  | Some k => if (lo <=? k) && (k <? hi) then
                match znth_error (pp1_sets t) k with Some ps => pairset_find ps g2 | None => None end
              else None
  | None => None
  end.

Lemma pp1_lookup_sem (t : pp1 V) g1 g2 : cov_wf (pp1_cov t) ->
  pp1_lookup t g1 g2 =
  match cov_sem (pp1_cov t) g1 with
  | Some k => match znth_error (pp1_sets t) k with Some ps => pairset_find ps g2 | None => None end
  | None => None
  end.
Proof. intros W. unfold pp1_lookup. now rewrite cov_idx_sem. Qed.

Lemma cov_sem_nonneg c g k : cov_wf c -> cov_sem c g = Some k -> 0 <= k.
Proof.
  destruct c as [l|rs]; cbn; intros W H.
  - apply index_of_some in H. lia.
  - destruct W as [_ F]. pose proof (rfind_ok_bound _ _ _ F H). lia.
Qed.

Lemma split_off_ppf1_sem (t p : pp1 V) a b g1 g2 : cov_wf (pp1_cov t) -> 0 <= a -> a < b ->
  split_off_ppf1 t a b = Some p -> pp1_lookup p g1 g2 = pp1_sem t a b g1 g2.
Proof.
  intros W Ha Hab. unfold split_off_ppf1. destruct (split_coverage (pp1_cov t) a b) as [c'|] eqn:E; [|discriminate].
  intros H; inversion H; subst. destruct (split_coverage_spec _ _ _ _ W Ha Hab E) as [W' SEM].
  rewrite pp1_lookup_sem by exact W'. cbn [pp1_cov pp1_sets]. rewrite SEM. unfold pp1_sem, window.
  destruct (cov_sem (pp1_cov t) g1) as [k|]; [|reflexivity].
  destruct ((a <=? k) && (k <? b)) eqn:Wn; [|reflexivity].
  apply andb_true_iff in Wn as [W1 W2]. apply Z.leb_le in W1. pose proof W2 as W2'. apply Z.ltb_lt in W2'.
  rewrite znth_error_sublist by lia. now rewrite W2.
Qed.

Lemma split_pp1_loop (t : pp1 V) g1 g2 last : cov_wf (pp1_cov t) ->
  forall sps prev ps, 0 <= prev -> chain prev sps last ->
  split_loop (split_off_ppf1 t) prev sps = Some ps ->
  first_some (fun p => pp1_lookup p g1 g2) ps = pp1_sem t prev last g1 g2.
Proof.
  intros W. induction sps as [|nx r IH]; intros prev ps Hp C H; cbn [split_loop] in H.
  - inversion H; subst. cbn in C. subst. cbn. unfold pp1_sem.
    destruct (cov_sem (pp1_cov t) g1) as [k|]; [|reflexivity].
    replace ((last <=? k) && (k <? last)) with false; [reflexivity|].
    symmetry. apply andb_false_iff. rewrite Z.leb_gt, Z.ltb_ge. lia.
  - destruct C as [C1 C2]. destruct (split_off_ppf1 t prev nx) as [p|] eqn:E; [|discriminate].
    destruct (split_loop (split_off_ppf1 t) nx r) as [ps'|] eqn:E2; [|discriminate]. inversion H; subst.
    cbn [first_some]. rewrite (split_off_ppf1_sem t p prev nx g1 g2 W Hp C1 E).
    rewrite (IH nx ps' ltac:(lia) C2 E2). pose proof (chain_le _ _ _ C2) as L.
    unfold pp1_sem. destruct (cov_sem (pp1_cov t) g1) as [k|]; [|reflexivity].
    destruct (Z_lt_le_dec k prev); [|destruct (Z_lt_le_dec k nx)].
    + replace (prev <=? k) with false by (symmetry; apply Z.leb_gt; lia).
      replace (nx <=? k) with false by (symmetry; apply Z.leb_gt; lia). reflexivity.
    + replace (prev <=? k) with true by (symmetry; apply Z.leb_le; lia).
      replace (k <? nx) with true by (symmetry; apply Z.ltb_lt; lia).
      replace (nx <=? k) with false by (symmetry; apply Z.leb_gt; lia).
      replace (k <? last) with true by (symmetry; apply Z.ltb_lt; lia). cbn [andb].
      destruct (znth_error (pp1_sets t) k) as [s|]; [|reflexivity]. destruct (pairset_find s g2); reflexivity.
    + replace (k <? nx) with false by (symmetry; apply Z.ltb_ge; lia). rewrite andb_false_r.
      replace (prev <=? k) with true by (symmetry; apply Z.leb_le; lia).
      replace (nx <=? k) with true by (symmetry; apply Z.leb_le; lia). reflexivity.
Qed.

Lemma split_pp1_preserves_lemma (t : pp1 V) sps ps g1 g2 : cov_wf (pp1_cov t) ->
  chain 0 sps (zlen (pp1_sets t)) -> split_pp1 sps t = Some ps ->
  first_some (fun p => pp1_lookup p g1 g2) ps = pp1_lookup t g1 g2.
Proof.
  intros W C H. unfold split_pp1 in H. rewrite (split_pp1_loop t g1 g2 _ W sps 0 ps ltac:(lia) C H).
  rewrite pp1_lookup_sem by exact W. unfold pp1_sem.
  destruct (cov_sem (pp1_cov t) g1) as [k|] eqn:E; [|reflexivity].
  pose proof (cov_sem_nonneg _ _ _ W E). replace (0 <=? k) with true by (symmetry; apply Z.leb_le; lia). cbn [andb].
  destruct (k <? zlen (pp1_sets t)) eqn:L; [reflexivity|]. apply Z.ltb_ge in L.
  rewrite znth_error_none by lia. reflexivity.
Qed.
End PP1.
