(* C16 — lemmas (placeholder, filled below) *)
From Coq Require Import ZArith List Bool Lia.
From FV Require Import C16.Model.
Import ListNotations.
Open Scope Z_scope.
