(* C16 — lemmas, part 4: ClassPairPosBuilder (class rules appended to the last class subtable) *)
From Coq Require Import ZArith List Bool Lia.
From FV Require Import C16.Model C16.Proofs.
Import ListNotations.
Open Scope Z_scope.

Lemma first_some_app_left {T R} (f : T -> option R) a b r : first_some f a = Some r -> first_some f (a ++ b) = Some r.
Proof. induction a as [|x a IH]; cbn; [discriminate|]. destruct (f x); auto. Qed.
Lemma first_some_app_none {T R} (f : T -> option R) a b : first_some f a = None -> first_some f (a ++ b) = first_some f b.
Proof. induction a as [|x a IH]; cbn; [reflexivity|]. destruct (f x); [discriminate | auto]. Qed.

Lemma zlist_eqb_eq a : forall b, zlist_eqb a b = true -> a = b.
Proof.
  induction a as [|x a IH]; intros [|y b] H; cbn in H; try discriminate; [reflexivity|].
  apply andb_true_iff in H as [E H]. apply Z.eqb_eq in E. subst. f_equal. now apply IH.
Qed.
Lemma zmem_In g l : zmem g l = true <-> In g l.
Proof.
  unfold zmem. rewrite existsb_exists. split.
  - intros [x [I E]]. apply Z.eqb_eq in E. now subst.
  - intros I. exists g. split; [exact I | apply Z.eqb_refl].
Qed.
Lemma set_eqb_mem a b x : set_eqb a b = true -> zmem x a = zmem x b.
Proof.
  intros H. apply zlist_eqb_eq in H. apply eq_true_iff_eq. rewrite !zmem_In.
  rewrite <- (sort_dedup_in a), <- (sort_dedup_in b), H. tauto.
Qed.

Section ClassPairs.
Context {V : Type}.
Notation group := (cgroup V).

(* ClassPairPosBuilder::insert touches only the LAST subtable (or appends a fresh one) *)
Lemma cpp_insert_last (pre : list group) last c1 c2 v :
  cpp_insert (pre ++ [last]) c1 c2 v =
  pre ++ (if cg_can_add last c1 c2 then [cg_add last c1 c2 v] else [last; cg_add cg_empty c1 c2 v]).
Proof.
  induction pre as [|p pre IH]; [reflexivity|].
  rewrite <- app_comm_cons.
  assert (NE : exists q rest, pre ++ [last] = q :: rest) by (destruct pre; cbn; eauto).
  destruct NE as [q [rest E]]. rewrite E.
  change (cpp_insert (p :: q :: rest) c1 c2 v) with (p :: cpp_insert (q :: rest) c1 c2 v).
  rewrite <- E, IH. reflexivity.
Qed.

Lemma cpp_insert_preserves_earlier_lemma (pre : list group) last c1 c2 v x y r :
  first_some (fun g => cg_lookup g x y) pre = Some r ->
  cpp_lookup (cpp_insert (pre ++ [last]) c1 c2 v) x y = Some r.
Proof. intros H. unfold cpp_lookup. rewrite cpp_insert_last. now apply first_some_app_left. Qed.

Lemma cpp_build_snoc (rules : list (list Z * list Z * V)) c1 c2 v :
  cpp_build (rules ++ [(c1, c2, v)]) = cpp_insert (cpp_build rules) c1 c2 v.
Proof. unfold cpp_build. rewrite fold_left_app. reflexivity. Qed.

(* every item of every subtable comes from an inserted rule with the same class sets *)
Definition all_items (gs : list group) := concat (map (@cg_items V) gs).
Definition from_rule (c1 c2 : list Z) (v : V) (it : (list Z * list Z) * V) : Prop :=
  snd it = v /\ set_eqb c1 (fst (fst it)) = true /\ set_eqb c2 (snd (fst it)) = true.

Lemma set_eqb_refl a : set_eqb a a = true.
Proof. unfold set_eqb. induction (sort_dedup a) as [|x l IH]; cbn; [reflexivity|]. now rewrite Z.eqb_refl. Qed.

Lemma items_insert_in c1 c2 v m it : In it (items_insert (c1, c2) v m) -> In it m \/ from_rule c1 c2 v it \/
  (exists v0, In (fst it, v0) m /\ from_rule c1 c2 v it).
Proof.
  induction m as [|[k' v'] r IH]; cbn [items_insert].
  - intros [<-|[]]. right. left. unfold from_rule. cbn. now rewrite !set_eqb_refl.
  - cbn [fst snd]. destruct (set_eqb c1 (fst k') && set_eqb c2 (snd k')) eqn:E.
    + intros [<-|H]; [|left; now right]. apply andb_true_iff in E as [E1 E2]. right. left. unfold from_rule. cbn. auto.
    + intros [<-|H]; [left; now left|]. destruct (IH H) as [?|[?|[v0 [? ?]]]]; [left; now right | right; now left |].
      right. right. exists v0. split; [now right | assumption].
Qed.
Lemma items_insert_in' c1 c2 v m it : In it (items_insert (c1, c2) v m) -> In it m \/ from_rule c1 c2 v it.
Proof. intros H. destruct (items_insert_in _ _ _ _ _ H) as [?|[?|[? [? ?]]]]; auto. Qed.

Lemma all_items_cons (g : group) gs : all_items (g :: gs) = cg_items g ++ all_items gs.
Proof. reflexivity. Qed.
Lemma cg_items_add (g : group) c1 c2 v : cg_items (cg_add g c1 c2 v) = items_insert (c1, c2) v (cg_items g).
Proof. reflexivity. Qed.

Lemma cpp_insert_items (gs : list group) c1 c2 v it :
  In it (all_items (cpp_insert gs c1 c2 v)) -> In it (all_items gs) \/ from_rule c1 c2 v it.
Proof.
  induction gs as [|g rest IH]; cbn [cpp_insert].
  - rewrite all_items_cons, cg_items_add, in_app_iff. intros [H|[]].
    apply items_insert_in' in H. destruct H as [[]|H]; auto.
  - destruct rest as [|q rest'].
    + destruct (cg_can_add g c1 c2); rewrite !all_items_cons, ?cg_items_add, !in_app_iff.
      * intros [H|[]]. apply items_insert_in' in H. tauto.
      * intros [H|[H|[]]]; [tauto|]. apply items_insert_in' in H. destruct H as [[]|H]; auto.
    + rewrite !all_items_cons, !in_app_iff. rewrite all_items_cons, in_app_iff in IH.
      intros [H|H]; [tauto|]. destruct (IH H) as [[?|?]|?]; tauto.
Qed.

Lemma cpp_build_items (rules : list (list Z * list Z * V)) it :
  In it (all_items (cpp_build rules)) -> exists c1 c2 v, In (c1, c2, v) rules /\ from_rule c1 c2 v it.
Proof.
  induction rules as [|[[c1 c2] v] rules IH] using rev_ind; [intros []|].
  rewrite cpp_build_snoc. intros H. apply cpp_insert_items in H as [H|H].
  - destruct (IH H) as [a [b [w [I F]]]]. exists a, b, w. split; [apply in_or_app; now left | exact F].
  - exists c1, c2, v. split; [apply in_or_app; right; now left | exact H].
Qed.

(* a value comes out of the class subtables only for a pair that some inserted rule covers, and it is that rule's value *)
Lemma cpp_lookup_sound_lemma (rules : list (list Z * list Z * V)) x y v :
  cpp_lookup (cpp_build rules) x y = Some (Some v) ->
  exists c1 c2, In (c1, c2, v) rules /\ In x c1 /\ In y c2.
Proof.
  unfold cpp_lookup. intros H.
  assert (G : exists g, In g (cpp_build rules) /\ cg_lookup g x y = Some (Some v)).
  { induction (cpp_build rules) as [|g gs IH]; cbn in H; [discriminate|].
    destruct (cg_lookup g x y) eqn:E; [inversion H; subst; exists g; split; [now left | exact E]|].
    destruct (IH H) as [g' [I L]]. exists g'. split; [now right | exact L]. }
  destruct G as [g [I L]]. unfold cg_lookup in L. destruct (zmem x (concat (cg_c1 g))); [|discriminate].
  destruct (find _ (cg_items g)) as [it|] eqn:F; [|discriminate]. inversion L; subst.
  apply find_some in F as [Iit Hit]. apply andb_true_iff in Hit as [H1 H2].
  assert (A : In it (all_items (cpp_build rules))).
  { unfold all_items. apply in_concat. exists (cg_items g). split; [now apply in_map | exact Iit]. }
  destruct (cpp_build_items rules it A) as [c1 [c2 [w [Ir [Ev [S1 S2]]]]]]. subst w.
  exists c1, c2. split; [exact Ir|]. split; apply zmem_In.
  - now rewrite (set_eqb_mem _ _ x S1).
  - now rewrite (set_eqb_mem _ _ y S2).
Qed.
End ClassPairs.
