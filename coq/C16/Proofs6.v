(* C16 — lemmas, part 6: the public ClassDefBuilder::checked_add *)
From Coq Require Import ZArith List Bool Lia.
From FV Require Import C16.Model C16.Proofs C16.Proofs4.
Import ListNotations.
Open Scope Z_scope.

(* a rejected add leaves the builder unchanged *)
Lemma checked_add_reject_noop_lemma classes cls :
  cdb_can_add classes cls = false -> cdb_checked_add_ret classes cls = (false, classes).
Proof. intros H. unfold cdb_checked_add_ret, cdb_checked_add. now rewrite H. Qed.

Lemma checked_add_accept_lemma classes cls :
  cdb_can_add classes cls = true ->
  cdb_checked_add_ret classes cls = (true, if existsb (set_eqb cls) classes then classes else classes ++ [cls]).
Proof. intros H. unfold cdb_checked_add_ret, cdb_checked_add. now rewrite H. Qed.

(* ... so a rejected class is invisible to every later call *)
Lemma checked_add_rejected_invisible_lemma classes c1 c2 :
  cdb_can_add classes c1 = false -> cdb_checked_add_ret (cdb_checked_add classes c1) c2 = cdb_checked_add_ret classes c2.
Proof. intros H. unfold cdb_checked_add at 1. now rewrite H. Qed.

(* accepted classes stay pairwise disjoint (or identical list entries) *)
Definition pairwise_disjoint (classes : list (list Z)) : Prop :=
  forall i j a b, nth_error classes i = Some a -> nth_error classes j = Some b -> i <> j -> forall g, In g a -> ~ In g b.

Lemma checked_add_keeps_disjoint_lemma classes cls :
  pairwise_disjoint classes -> pairwise_disjoint (cdb_checked_add classes cls).
Proof.
  intros P. unfold cdb_checked_add. destruct (cdb_can_add classes cls) eqn:C; [|exact P].
  destruct (existsb (set_eqb cls) classes) eqn:E; [exact P|].
  unfold cdb_can_add in C. rewrite E in C. cbn in C. rewrite forallb_forall in C.
  assert (D : forall a g, In a classes -> In g a -> ~ In g cls).
  { intros a g Ia Ig Ic. specialize (C g Ic). apply negb_true_iff in C.
    assert (Z : zmem g (concat classes) = true) by (apply zmem_In, in_concat; eauto). congruence. }
  intros i j a b Hi Hj Hne g Ga Gb.
  destruct (Nat.lt_ge_cases i (length classes)) as [Li|Li]; destruct (Nat.lt_ge_cases j (length classes)) as [Lj|Lj].
  - rewrite nth_error_app1 in Hi, Hj by assumption. exact (P i j a b Hi Hj Hne g Ga Gb).
  - rewrite nth_error_app1 in Hi by assumption. rewrite nth_error_app2 in Hj by assumption.
    destruct (j - length classes)%nat as [|k]; cbn in Hj; [|destruct k; discriminate]. inversion Hj; subst b.
    apply (D a g); [eapply nth_error_In; eauto | exact Ga | exact Gb].
  - rewrite nth_error_app2 in Hi by assumption. rewrite nth_error_app1 in Hj by assumption.
    destruct (i - length classes)%nat as [|k]; cbn in Hi; [|destruct k; discriminate]. inversion Hi; subst a.
    apply (D b g); [eapply nth_error_In; eauto | exact Gb | exact Ga].
  - rewrite nth_error_app2 in Hi, Hj by assumption.
    destruct (i - length classes)%nat as [|k] eqn:Ei; cbn in Hi; [|destruct k; discriminate].
    destruct (j - length classes)%nat as [|k] eqn:Ej; cbn in Hj; [|destruct k; discriminate]. lia.
Qed.
