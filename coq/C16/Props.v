(* C16 — property theorems.  Only statements, [exact lemma] and Print Assumptions. *)
From Coq Require Import ZArith List.
From FV Require Import C16.Model C16.Proofs C16.Proofs2 C16.Proofs3 C16.Proofs4 C16.Proofs5 C16.Proofs6.
Import ListNotations.
Open Scope Z_scope.

(* Coverage tables built from a glyph list answer membership and coverage index exactly as the
   (sorted, de-duplicated) set, in either binary format, in both arithmetic profiles
   (strict = overflow checks: no panic), through the real binary-search readers. *)
Theorem coverage_get_spec : forall (G : list Z) (g : Z) (fmt2 strict : bool), Forall u16 G ->
  cov_get strict (cov_build_fmt fmt2 G) g = gres_of (index_of g (sort_dedup G)).
Proof. exact cov_get_build_fmt. Qed.
Theorem coverage_get_spec_chosen_format : forall (G : list Z) (g : Z) (strict : bool), Forall u16 G ->
  cov_get strict (cov_build G) g = gres_of (index_of g (sort_dedup G)).
Proof. exact cov_get_build. Qed.
Theorem coverage_format_choice_irrelevant : forall (G : list Z) (g : Z) (fmt2 strict : bool), Forall u16 G ->
  cov_get strict (cov_build G) g = cov_get strict (cov_build_fmt fmt2 G) g.
Proof. exact cov_format_choice_irrelevant. Qed.
Theorem coverage_membership : forall (G : list Z) (g : Z) (strict : bool), Forall u16 G ->
  (cov_get strict (cov_build G) g = GNone <-> ~ In g G) /\
  (forall i, cov_get strict (cov_build G) g = GSome i -> In g G).
Proof. exact cov_membership. Qed.
Theorem sort_dedup_is_the_set : forall (G : list Z) (y : Z), In y (sort_dedup G) <-> In y G.
Proof. exact sort_dedup_in. Qed.

(* Class definitions built from (glyph, class) assignments answer the class given (0 for unassigned), in either
   format.  [cd_spec] = the last non-zero assignment of the glyph (BTreeMap semantics); when every glyph is
   assigned once it is literally the assignment given. *)
Theorem classdef_get_spec : forall (input : list (Z * Z)) (g : Z) (fmt1 : bool),
  cd_get (cd_build_fmt fmt1 input) g = cd_spec input g.
Proof. exact cd_get_build_fmt. Qed.
Theorem classdef_get_spec_chosen_format : forall (input : list (Z * Z)) (g : Z),
  cd_get (cd_build input) g = cd_spec input g.
Proof. exact cd_get_build. Qed.
Theorem classdef_format_choice_irrelevant : forall (input : list (Z * Z)) (g : Z) (fmt1 : bool),
  cd_get (cd_build input) g = cd_get (cd_build_fmt fmt1 input) g.
Proof. exact cd_format_choice_irrelevant. Qed.
Theorem classdef_spec_is_assignment : forall (input : list (Z * Z)) (g c : Z),
  NoDup (map fst input) -> In (g, c) input -> cd_spec input g = c.
Proof. exact cd_spec_nodup. Qed.
Theorem classdef_spec_unassigned_is_zero : forall (input : list (Z * Z)) (g : Z),
  ~ In g (map fst input) -> cd_spec input g = 0.
Proof. exact cd_spec_unassigned. Qed.

(* splitting.rs split_coverage on a well-formed coverage table (either format): the piece [a, b) answers
   k - a exactly for the glyphs whose old coverage index k lies in [a, b), nothing otherwise, and stays well-formed *)
Theorem split_coverage_preserves : forall (c : cov) (a b : Z) (c' : cov), cov_wf c -> 0 <= a -> a < b ->
  split_coverage c a b = Some c' ->
  cov_wf c' /\ forall g, cov_sem c' g = window a b (cov_sem c g).
Proof. exact split_coverage_spec. Qed.
Theorem coverage_reader_is_cov_sem : forall (c : cov) (g : Z), cov_wf c -> cov_idx c g = cov_sem c g.
Proof. exact cov_idx_sem. Qed.
Theorem built_coverage_is_wf : forall (G : list Z), Forall u16 G -> forall f, cov_wf (cov_build_fmt f G).
Proof. exact cov_build_wf. Qed.

(* split_pair_pos_format_1 at ANY strictly increasing split points ending at the pair-set count: the
   first-match lookup over the pieces equals the lookup in the original subtable, for every glyph pair *)
Theorem split_pp1_preserves : forall (V : Type) (t : pp1 V) (sps : list Z) (ps : list (pp1 V)) (g1 g2 : Z),
  cov_wf (pp1_cov t) -> chain 0 sps (zlen (pp1_sets t)) -> split_pp1 sps t = Some ps ->
  first_some (fun p => pp1_lookup p g1 g2) ps = pp1_lookup t g1 g2.
Proof. exact @split_pp1_preserves_lemma. Qed.

(* split_pair_pos_format_2 at ANY strictly increasing class1 split points ending at class1_count: coverage and
   classdef1 are filtered and re-based per piece (through the real builders), class2 and the rows are shared;
   the first-match lookup over the pieces equals the original, for every glyph pair *)
Theorem split_pp2_preserves : forall (V : Type) (t : pp2 V) (sps : list Z) (ps : list (pp2 V)) (g1 g2 : Z),
  cov_wf (pp2_cov t) -> Forall u16 (cov_iter (pp2_cov t)) ->
  chain 0 sps (zlen (pp2_matrix t)) -> split_pp2 sps t = Some ps ->
  first_some (fun p => pp2_lookup p g1 g2) ps = pp2_lookup t g1 g2.
Proof. exact @split_pp2_preserves_lemma. Qed.

(* split_mark_to_base at ANY strictly increasing mark-class split points ending at mark_class_count: mark
   coverage / mark array filtered, classes re-based, base-anchor columns sliced; same anchors for every
   mark/base pair, nothing for pairs without a rule *)
Theorem split_m2b_preserves : forall (A : Type) (t : m2b A) (sps : list Z) (ps : list (m2b A)) (m b : Z),
  m2b_cov_ok t -> Forall (fun row => zlen row = m2b_nclass t) (m2b_bases t) ->
  chain 0 sps (m2b_nclass t) -> split_m2b sps t = Some ps ->
  first_some (fun p => m2b_lookup p m b) ps = m2b_lookup t m b.
Proof. exact @split_m2b_preserves_lemma. Qed.

(* promotion to an extension lookup: same answer for every pair through the indirection; flags, mark
   filtering set and subtable count kept; type 9; every subtable records the old lookup type *)
Theorem promote_preserves : forall (V A : Type) (l : lookup V A),
  (forall x y, lookup_apply (promote l) x y = lookup_apply l x y) /\
  lk_flags (promote l) = lk_flags l /\ lk_mfs (promote l) = lk_mfs l /\
  length (lk_subs (promote l)) = length (lk_subs l) /\
  lk_type (promote l) = 9 /\
  Forall (fun s => exists inner, s = SExt (lk_type l) inner /\ In inner (lk_subs l)) (lk_subs (promote l)).
Proof. exact @promote_preserves_lemma. Qed.

(* CoverageTable::iter of a builder-made table is exactly the sorted set, and the table satisfies the
   assumptions of split_m2b_preserves / split_pp2_preserves (well-formed, iterates in increasing order,
   coverage index = position), in either format *)
Theorem built_coverage_iterates_the_set : forall (G : list Z) (f : bool), cov_iter (cov_build_fmt f G) = sort_dedup G.
Proof. exact cov_iter_build_fmt. Qed.
Theorem built_coverage_meets_split_assumptions : forall (G : list Z) (f : bool), Forall u16 G ->
  let c := cov_build_fmt f G in
  cov_wf c /\ ssorted (cov_iter c) /\ Forall u16 (cov_iter c) /\ (forall g, cov_sem c g = index_of g (cov_iter c)).
Proof. exact built_cov_iter_ok. Qed.

(* ClassPairPosBuilder::insert (sequence of insert_classes calls): a rule only ever changes the LAST class subtable or
   appends a fresh one; every answer already decided by an earlier subtable is preserved by every later insertion;
   and a value coming out of the class subtables is the value of an inserted rule that covers the pair
   (nothing for pairs without a rule). *)
Theorem class_rule_insert_touches_only_last_subtable : forall (V : Type) (pre : list (cgroup V)) last c1 c2 v,
  cpp_insert (pre ++ [last]) c1 c2 v =
  pre ++ (if cg_can_add last c1 c2 then [cg_add last c1 c2 v] else [last; cg_add cg_empty c1 c2 v]).
Proof. exact @cpp_insert_last. Qed.
Theorem class_rule_insert_preserves_earlier_answers : forall (V : Type) (pre : list (cgroup V)) last c1 c2 v x y r,
  first_some (fun g => cg_lookup g x y) pre = Some r ->
  cpp_lookup (cpp_insert (pre ++ [last]) c1 c2 v) x y = Some r.
Proof. exact @cpp_insert_preserves_earlier_lemma. Qed.
Theorem class_subtable_values_come_from_covering_rules : forall (V : Type) (rules : list (list Z * list Z * V)) x y v,
  cpp_lookup (cpp_build rules) x y = Some (Some v) ->
  exists c1 c2, In (c1, c2, v) rules /\ In x c1 /\ In y c2.
Proof. exact @cpp_lookup_sound_lemma. Qed.

(* split_subtables at the lookup level, for ANY number of split subtables in one lookup: the subtable count written
   in the header equals the number of subtable offsets written (= the sum of the pieces), and if every split preserves
   its subtable's answer (split_pp1/pp2/m2b_preserves) the lookup's first match is preserved *)
Theorem split_lookup_count : forall (T : Type) (f : T -> option (list T)) (sts : list T),
  split_count f sts = zlen (split_all f sts).
Proof. exact @split_lookup_count_lemma. Qed.
Theorem split_all_preserves : forall (T R : Type) (f : T -> option (list T)) (g : T -> option R) (sts : list T),
  (forall s ps, In s sts -> f s = Some ps -> first_some g ps = g s) ->
  first_some g (split_all f sts) = first_some g sts.
Proof. exact @split_all_preserves_lemma. Qed.

(* MarkToLigBuilder::insert_ligature (component counts as the API requires): the call succeeds and afterwards
   (component i, class c) holds the anchor the call gives for component i when c is the call's class; every other
   entry, including components for which the call gives None, is unchanged *)
Theorem lig_insert_get : forall (A : Type) (cl : list (list (Z * A))) (cls : Z) (comps : list (option A)),
  cl = [] \/ length comps = length cl ->
  exists cl', lig_insert cl cls comps = Some cl' /\
    forall i c, lig_get cl' i c =
      match nth_error comps i with
      | Some (Some a) => if c =? cls then Some a else lig_get cl i c
      | _ => lig_get cl i c
      end.
Proof. exact @lig_insert_get_lemma. Qed.

(* the public ClassDefBuilder::checked_add: a rejected add leaves the builder unchanged (so it is invisible to every
   later call), an accepted add appends the class unless it is already there, and accepted classes stay pairwise disjoint *)
Theorem checked_add_reject_noop : forall classes cls,
  cdb_can_add classes cls = false -> cdb_checked_add_ret classes cls = (false, classes).
Proof. exact checked_add_reject_noop_lemma. Qed.
Theorem checked_add_accept : forall classes cls,
  cdb_can_add classes cls = true ->
  cdb_checked_add_ret classes cls = (true, if existsb (set_eqb cls) classes then classes else classes ++ [cls]).
Proof. exact checked_add_accept_lemma. Qed.
Theorem checked_add_rejected_invisible : forall classes c1 c2,
  cdb_can_add classes c1 = false -> cdb_checked_add_ret (cdb_checked_add classes c1) c2 = cdb_checked_add_ret classes c2.
Proof. exact checked_add_rejected_invisible_lemma. Qed.
Theorem checked_add_keeps_disjoint : forall classes cls,
  pairwise_disjoint classes -> pairwise_disjoint (cdb_checked_add classes cls).
Proof. exact checked_add_keeps_disjoint_lemma. Qed.

Print Assumptions coverage_get_spec.
Print Assumptions coverage_get_spec_chosen_format.
Print Assumptions coverage_format_choice_irrelevant.
Print Assumptions coverage_membership.
Print Assumptions sort_dedup_is_the_set.
Print Assumptions classdef_get_spec.
Print Assumptions classdef_get_spec_chosen_format.
Print Assumptions classdef_format_choice_irrelevant.
Print Assumptions classdef_spec_is_assignment.
Print Assumptions classdef_spec_unassigned_is_zero.
Print Assumptions split_coverage_preserves.
Print Assumptions coverage_reader_is_cov_sem.
Print Assumptions built_coverage_is_wf.
Print Assumptions split_pp1_preserves.
Print Assumptions split_pp2_preserves.
Print Assumptions split_m2b_preserves.
Print Assumptions promote_preserves.
Print Assumptions built_coverage_iterates_the_set.
Print Assumptions built_coverage_meets_split_assumptions.
Print Assumptions class_rule_insert_touches_only_last_subtable.
Print Assumptions class_rule_insert_preserves_earlier_answers.
Print Assumptions class_subtable_values_come_from_covering_rules.
Print Assumptions split_lookup_count.
Print Assumptions split_all_preserves.
Print Assumptions lig_insert_get.
Print Assumptions checked_add_reject_noop.
Print Assumptions checked_add_accept.
Print Assumptions checked_add_rejected_invisible.
Print Assumptions checked_add_keeps_disjoint.
