(* C16 — property theorems.  Only statements, [exact lemma] and Print Assumptions. *)
From Coq Require Import ZArith List.
From FV Require Import C16.Model C16.Proofs.
Import ListNotations.
Open Scope Z_scope.

(* Coverage tables built from a glyph list answer membership and coverage index exactly as the
   (sorted, de-duplicated) set, in either binary format, in both arithmetic profiles
   (strict = overflow checks: no panic), through the real binary-search readers. *)
Theorem coverage_get_spec : forall (G : list Z) (g : Z) (fmt2 strict : bool), Forall u16 G ->
  cov_get strict (cov_build_fmt fmt2 G) g = gres_of (index_of g (sort_dedup G)).
Proof. exact cov_get_build_fmt. Qed.
Theorem coverage_get_spec_chosen_format : forall (G : list Z) (g : Z) (strict : bool), Forall u16 G ->
  cov_get strict (cov_build G) g = gres_of (index_of g (sort_dedup G)).
Proof. exact cov_get_build. Qed.
Theorem coverage_format_choice_irrelevant : forall (G : list Z) (g : Z) (fmt2 strict : bool), Forall u16 G ->
  cov_get strict (cov_build G) g = cov_get strict (cov_build_fmt fmt2 G) g.
Proof. exact cov_format_choice_irrelevant. Qed.
Theorem coverage_membership : forall (G : list Z) (g : Z) (strict : bool), Forall u16 G ->
  (cov_get strict (cov_build G) g = GNone <-> ~ In g G) /\
  (forall i, cov_get strict (cov_build G) g = GSome i -> In g G).
Proof. exact cov_membership. Qed.
Theorem sort_dedup_is_the_set : forall (G : list Z) (y : Z), In y (sort_dedup G) <-> In y G.
Proof. exact sort_dedup_in. Qed.

(* Class definitions built from (glyph, class) assignments answer the class given (0 for unassigned), in either
   format.  [cd_spec] = the last non-zero assignment of the glyph (BTreeMap semantics); when every glyph is
   assigned once it is literally the assignment given. *)
Theorem classdef_get_spec : forall (input : list (Z * Z)) (g : Z) (fmt1 : bool),
  cd_get (cd_build_fmt fmt1 input) g = cd_spec input g.
Proof. exact cd_get_build_fmt. Qed.
Theorem classdef_get_spec_chosen_format : forall (input : list (Z * Z)) (g : Z),
  cd_get (cd_build input) g = cd_spec input g.
Proof. exact cd_get_build. Qed.
Theorem classdef_format_choice_irrelevant : forall (input : list (Z * Z)) (g : Z) (fmt1 : bool),
  cd_get (cd_build input) g = cd_get (cd_build_fmt fmt1 input) g.
Proof. exact cd_format_choice_irrelevant. Qed.
Theorem classdef_spec_is_assignment : forall (input : list (Z * Z)) (g c : Z),
  NoDup (map fst input) -> In (g, c) input -> cd_spec input g = c.
Proof. exact cd_spec_nodup. Qed.
Theorem classdef_spec_unassigned_is_zero : forall (input : list (Z * Z)) (g : Z),
  ~ In g (map fst input) -> cd_spec input g = 0.
Proof. exact cd_spec_unassigned. Qed.

(* splitting.rs split_coverage on a well-formed coverage table (either format): the piece [a, b) answers
   k - a exactly for the glyphs whose old coverage index k lies in [a, b), nothing otherwise, and stays well-formed *)
Theorem split_coverage_preserves : forall (c : cov) (a b : Z) (c' : cov), cov_wf c -> 0 <= a -> a < b ->
  split_coverage c a b = Some c' ->
  cov_wf c' /\ forall g, cov_sem c' g = window a b (cov_sem c g).
Proof. exact split_coverage_spec. Qed.
Theorem coverage_reader_is_cov_sem : forall (c : cov) (g : Z), cov_wf c -> cov_idx c g = cov_sem c g.
Proof. exact cov_idx_sem. Qed.
Theorem built_coverage_is_wf : forall (G : list Z), Forall u16 G -> forall f, cov_wf (cov_build_fmt f G).
Proof. exact cov_build_wf. Qed.

(* split_pair_pos_format_1 at ANY strictly increasing split points ending at the pair-set count: the
   first-match lookup over the pieces equals the lookup in the original subtable, for every glyph pair *)
Theorem split_pp1_preserves : forall (V : Type) (t : pp1 V) (sps : list Z) (ps : list (pp1 V)) (g1 g2 : Z),
  cov_wf (pp1_cov t) -> chain 0 sps (zlen (pp1_sets t)) -> split_pp1 sps t = Some ps ->
  first_some (fun p => pp1_lookup p g1 g2) ps = pp1_lookup t g1 g2.
Proof. exact @split_pp1_preserves_lemma. Qed.

Print Assumptions coverage_get_spec.
Print Assumptions coverage_get_spec_chosen_format.
Print Assumptions coverage_format_choice_irrelevant.
Print Assumptions coverage_membership.
Print Assumptions sort_dedup_is_the_set.
Print Assumptions classdef_get_spec.
Print Assumptions classdef_get_spec_chosen_format.
Print Assumptions classdef_format_choice_irrelevant.
Print Assumptions classdef_spec_is_assignment.
Print Assumptions classdef_spec_unassigned_is_zero.
Print Assumptions split_coverage_preserves.
Print Assumptions coverage_reader_is_cov_sem.
Print Assumptions built_coverage_is_wf.
Print Assumptions split_pp1_preserves.
