(* C16 — non-vacuity examples for the hypotheses of Props.v, and recorded witnesses *)
From Coq Require Import ZArith List Bool Lia.
From FV Require Import C16.Model C16.Proofs C16.Proofs2 C16.Proofs4 C16.Proofs5.
Import ListNotations.
Open Scope Z_scope.

Ltac wf := cbn; repeat (split || constructor); try lia.

(* the input of finding "cov2-get-u16-add-overflow" (fixed in /repo 7d54c01): glyphs 1..10 and 65535 *)
Definition G_hi : list Z := [1; 2; 3; 4; 5; 6; 7; 8; 9; 10; 65535].
Example G_hi_u16 : Forall u16 G_hi.
Proof. unfold G_hi, u16. repeat constructor; lia. Qed.
Example cov_hi_format2 : cov_build G_hi = Cov2 [(1, 10, 0); (65535, 65535, 10)].
Proof. reflexivity. Qed.
Example cov_hi_get_strict : cov_get true (cov_build G_hi) 65535 = GSome 10 /\ cov_get true (cov_build G_hi) 11 = GNone.
Proof. split; reflexivity. Qed.
(* the expression before the fix, (start_coverage_index + gid) - start_glyph_id in u16, overflow-checks profile *)
Definition cov2_get_old (rs : list rrec) (g : Z) : gres :=
  match bsearch_by (fun i => range_cmp g (znth rs i (0, 0, 0))) (zlen rs) with
  | BOk i => let '(s, _, ci) := znth rs i (0, 0, 0) in if 65535 <? ci + g then GPanic else GSome (ci + g - s)
  | BErr _ => GNone
  end.
Example coverage_get_spec_old_expression_refuted :
  exists G g, Forall u16 G /\ match cov_build G with Cov2 rs => cov2_get_old rs g | Cov1 _ => GNone end
                               <> gres_of (index_of g (sort_dedup G)).
Proof. exists G_hi, 65535. split; [exact G_hi_u16 | vm_compute; discriminate]. Qed.

(* class definitions: both formats, duplicates, zero entries *)
Example cd_f1 : cd_build [(3, 4); (4, 6); (5, 1); (9, 5); (10, 2); (11, 3)] = Cd1 3 [4; 6; 1; 0; 0; 0; 5; 2; 3].
Proof. reflexivity. Qed.
Example cd_f2 : cd_build [(1, 1); (2, 1); (3, 1); (7, 0); (9, 2)] = Cd2 [(1, 3, 1); (9, 9, 2)].
Proof. reflexivity. Qed.
Example cd_nodup_nonvacuous : NoDup (map fst [(1, 1); (2, 1); (3, 1); (7, 0); (9, 2)]) /\
  cd_get (cd_build [(1, 1); (2, 1); (3, 1); (7, 0); (9, 2)]) 9 = 2.
Proof. split; [cbn; repeat constructor; cbn; intuition lia | reflexivity]. Qed.
(* a zero entry after a non-zero one is dropped before insertion: the glyph keeps the earlier class *)
Example cd_zero_after_nonzero : cd_get (cd_build [(7, 2); (7, 0)]) 7 = 2 /\ cd_spec [(7, 2); (7, 0)] 7 = 2.
Proof. split; reflexivity. Qed.

(* split_coverage / split_pp1: a format-2 coverage split inside a range *)
Definition t1 : pp1 Z :=
  {| pp1_cov := Cov2 [(10, 14, 0); (20, 21, 5)];
     pp1_sets := [[(1, 100)]; [(1, 101)]; [(2, 102)]; [(1, 103); (2, 104)]; [(1, 105)]; [(9, 106)]; [(9, 107)]] |}.
Example t1_wf : cov_wf (pp1_cov t1).
Proof. unfold t1. wf. Qed.
Example t1_chain : chain 0 [3; 6; 7] (zlen (pp1_sets t1)).
Proof. cbn. lia. Qed.
Example t1_split : option_map (map (fun p : pp1 Z => pp1_cov p)) (split_pp1 [3; 6; 7] t1)
  = Some [Cov2 [(10, 12, 0)]; Cov2 [(13, 14, 0); (20, 20, 2)]; Cov2 [(21, 21, 0)]].
Proof. reflexivity. Qed.
Example t1_lookup : match split_pp1 [3; 6; 7] t1 with
                    | Some ps => first_some (fun p => pp1_lookup p 13 2) ps = Some 104 /\ pp1_lookup t1 13 2 = Some 104
                    | None => False end.
Proof. vm_compute. split; reflexivity. Qed.
(* panics modelled in split_coverage: `end - 1` with end = 0, and the u16 subtraction on an empty window *)
Example split_cov_panics : split_coverage (Cov2 [(1, 10, 0)]) 0 0 = None /\ split_coverage (Cov2 [(1, 10, 0)]) 5 5 = None
  /\ split_coverage (Cov1 [1; 2]) 0 3 = None.
Proof. repeat split; reflexivity. Qed.

(* split_pp2: classes re-based *)
Definition t2 : pp2 Z :=
  {| pp2_cov := Cov1 [5; 6; 7; 8; 9]; pp2_cd1 := cd_build [(6, 1); (7, 2); (8, 2); (9, 3)]; pp2_cd2 := cd_build [(1, 1)];
     pp2_matrix := [[10; 11]; [20; 21]; [30; 31]; [40; 41]] |}.
Example t2_hyps : cov_wf (pp2_cov t2) /\ Forall u16 (cov_iter (pp2_cov t2)) /\ chain 0 [2; 4] (zlen (pp2_matrix t2)).
Proof. unfold t2, u16. wf. Qed.
Example t2_split : match split_pp2 [2; 4] t2 with
                   | Some [p; q] => pp2_cov q = Cov1 [7; 8; 9] /\ pp2_cd1 q = Cd1 9 [1] /\
                                    pp2_lookup q 9 1 = Some 41 /\ pp2_lookup p 9 1 = None /\ pp2_lookup t2 9 1 = Some 41
                   | _ => False end.
Proof. vm_compute. repeat split; reflexivity. Qed.

(* split_m2b: marks of interleaved classes, class re-basing and column slicing *)
Definition t3 : m2b Z :=
  {| m2b_mcov := Cov1 [50; 51; 52; 53]; m2b_bcov := Cov1 [70; 71]; m2b_nclass := 3;
     m2b_marks := [(0, 500); (2, 510); (1, 520); (2, 530)];
     m2b_bases := [[Some 1; None; Some 3]; [Some 4; Some 5; Some 6]] |}.
Example t3_hyps : m2b_cov_ok t3 /\ Forall (fun row => zlen row = m2b_nclass t3) (m2b_bases t3) /\ chain 0 [1; 3] (m2b_nclass t3).
Proof. unfold t3, m2b_cov_ok, u16. wf. Qed.
Example t3_split : match split_m2b [1; 3] t3 with
                   | Some [p; q] => m2b_mcov q = Cov1 [51; 52; 53] /\ m2b_marks q = [(1, 510); (0, 520); (1, 530)] /\
                                    m2b_lookup q 53 70 = Some (530, 3) /\ m2b_lookup q 52 70 = None /\
                                    m2b_lookup t3 53 70 = Some (530, 3) /\ m2b_lookup p 50 71 = Some (500, 4)
                   | _ => False end.
Proof. vm_compute. repeat split; reflexivity. Qed.

(* promotion *)
Example promote_example :
  let l : lookup Z Z := {| lk_type := 2; lk_flags := 16; lk_mfs := Some 3; lk_subs := [SPP1 t1] |} in
  lk_type (promote l) = 9 /\ lk_mfs (promote l) = Some 3 /\ lookup_apply (promote l) 13 2 = Some (inl 104).
Proof. vm_compute. repeat split; reflexivity. Qed.

(* class rules in insertion order: [A][B]=10; [A C][B]=20; [C][B]=30 (A=1, C=3, B=7): three subtables, (C,B) = 20
   (the input of seeded mutant C16/m5, which files rule 3 into subtable 1 and answers 30) *)
Example class_sequence_example :
  let gs := cpp_build [([1], [7], 10); ([1; 3], [7], 20); ([3], [7], 30)] in
  length gs = 3%nat /\ cpp_lookup gs 3 7 = Some (Some 20) /\ cpp_lookup gs 1 7 = Some (Some 10) /\ cpp_lookup gs 3 8 = Some None
  /\ cpp_lookup gs 5 7 = None.
Proof. vm_compute. repeat split; reflexivity. Qed.

(* two of three subtables split (2 and 3 pieces): 3 + (2-1) + (3-1) = 6 offsets *)
Example split_count_example :
  let f (p : Z) := if 1 <? p then Some (repeat 0 (Z.to_nat p)) else None in
  split_count f [2; 1; 3] = 6 /\ zlen (split_all f [2; 1; 3]) = 6.
Proof. vm_compute. split; reflexivity. Qed.
(* insert_ligature(c0, [None, Some 7]) then (c1, [Some 8, None]): the anchor after a None stays on ITS component *)
Example lig_insert_example :
  match lig_insert [] 0 [None; Some 7] with
  | Some cl => match lig_insert cl 1 [Some 8; None] with
               | Some cl' => lig_get cl' 1 0 = Some 7 /\ lig_get cl' 0 0 = None /\ lig_get cl' 0 1 = Some 8 /\ lig_get cl' 1 1 = None
               | None => False end
  | None => False end.
Proof. vm_compute. repeat split; reflexivity. Qed.
Example lig_insert_panics : lig_insert [[]] 0 [None; Some 7] = None.
Proof. reflexivity. Qed.

(* accepted {1,2}; {2,3} rejected for overlap; {3,4} shares only the non-conflicting glyph of the rejected class: accepted
   (the input of seeded mutant C16/m12, which leaves 3 in all_glyphs and rejects the third call) *)
Example checked_add_sequence_example :
  let s1 := cdb_checked_add [] [1; 2] in
  let '(r2, s2) := cdb_checked_add_ret s1 [2; 3] in
  let '(r3, s3) := cdb_checked_add_ret s2 [3; 4] in
  r2 = false /\ r3 = true /\ s3 = [[1; 2]; [3; 4]] /\ cdb_class_of false s3 3 = 2 /\ cdb_class_of false s3 2 = 1 /\ cdb_class_of false s3 9 = 0.
Proof. vm_compute. repeat split; reflexivity. Qed.
