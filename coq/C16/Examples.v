From Coq Require Import ZArith List.
From FV Require Import C16.Model C16.Proofs.
