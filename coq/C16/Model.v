(* C16 — executable model of the OpenType-layout builders, readers and overflow-splitting edits.
   Hand-written from the Rust source, statement by statement.  No proofs in this file.

   Rust sources mirrored (each definition names its function):
     write-fonts/src/tables/layout/builders.rs   CoverageTableBuilder, ClassDefBuilderImpl, iter_class_ranges,
                                                  should_choose_coverage_format_2
     write-fonts/src/tables/layout.rs            RangeRecord::iter_for_glyphs, are_sequential
     read-fonts/src/tables/layout.rs             CoverageFormat1/2::get, ClassDefFormat1/2::get, CoverageTable::iter
     core::slice::binary_search_by               (rustc 1.95 branch-free loop)
     write-fonts/src/graph/splitting.rs          split_coverage, split_range_record
     write-fonts/src/graph/splitting/pairpos.rs  split_pair_pos_format_1 / split_off_ppf1, split_off_ppf2
     write-fonts/src/graph/splitting/mark2base.rs split_off_mark_pos, split_off_mark_array, split_off_base_array
     write-fonts/src/graph.rs                    actually_promote_subtables
   Glyph ids, classes and coverage indices are Z (u16 range in the real code). *)
From Coq Require Import ZArith List Bool.
Import ListNotations.
Open Scope Z_scope.

Definition zlen {A} (l : list A) : Z := Z.of_nat (length l).
Definition znth {A} (l : list A) (i : Z) (d : A) : A := nth (Z.to_nat i) l d.
Definition znth_error {A} (l : list A) (i : Z) : option A :=
  if i <? 0 then None else nth_error l (Z.to_nat i).
(* l[a..b) *)
Definition sublist {A} (a b : Z) (l : list A) : list A := firstn (Z.to_nat (b - a)) (skipn (Z.to_nat a) l).
Definition wrap16 (z : Z) : Z := z mod 65536.
(* u16::saturating_sub *)
Definition sat_sub (a b : Z) : Z := Z.max 0 (a - b).

(* ------------------------------------------------------------------------------------------ *)
(* core::slice::binary_search_by (branch-free version, rustc >= 1.82):
     let mut size = len; if size == 0 { return Err(0) }  let mut base = 0;
     while size > 1 { let half = size/2; let mid = base+half;
                      base = if f(mid) == Greater { base } else { mid }; size -= half; }
     let cmp = f(base); if cmp == Equal { Ok(base) } else { Err(base + (cmp == Less) as usize) }
   [cmp i] is the closure applied to element i. *)
Inductive bsres := BOk (i : Z) | BErr (i : Z).
Fixpoint bs_loop (fuel : nat) (cmp : Z -> comparison) (base size : Z) : Z :=
  match fuel with
  | O => base
  | S f => if 1 <? size then
             let half := size / 2 in
             let mid := base + half in
             bs_loop f cmp (match cmp mid with Gt => base | _ => mid end) (size - half)
           else base
  end.
Definition bsearch_by (cmp : Z -> comparison) (len : Z) : bsres :=
  if len <=? 0 then BErr 0 else
  let base := bs_loop (Z.to_nat len) cmp 0 len in
  match cmp base with Eq => BOk base | Lt => BErr (base + 1) | Gt => BErr base end.

(* ------------------------------------------------------------------------------------------ *)
(* Coverage tables *)
Definition rrec := (Z * Z * Z)%type.            (* start_glyph_id, end_glyph_id, start_coverage_index *)
Inductive cov := Cov1 (glyphs : list Z) | Cov2 (ranges : list rrec).

(* glyphs.sort_unstable(); glyphs.dedup()  (CoverageTableBuilder::from_glyphs) *)
Fixpoint insert_dedup (x : Z) (l : list Z) : list Z :=
  match l with
  | [] => [x]
  | y :: r => if x <? y then x :: l else if x =? y then l else y :: insert_dedup x r
  end.
Definition sort_dedup (l : list Z) : list Z := fold_right insert_dedup [] l.

(* layout.rs are_sequential: gid2.saturating_sub(gid1) == 1 *)
Definition are_sequential (g1 g2 : Z) : bool := sat_sub g2 g1 =? 1.

(* RangeRecord::iter_for_glyphs: state (a, b) = cur_range, len = coverage index of a.
   `len += 1 + b.saturating_sub(a)` is u16 arithmetic; on the sorted, de-duplicated u16 input the
   builder passes it is < 65536 (it counts glyphs emitted so far), so no overflow outcome is modelled. *)
Fixpoint ranges_go (a b len : Z) (l : list Z) : list rrec :=
  match l with
  | [] => [(a, b, len)]
  | g :: r => if are_sequential b g then ranges_go a g len r
              else (a, b, len) :: ranges_go g g (len + 1 + sat_sub b a) r
  end.
Definition ranges_for_glyphs (l : list Z) : list rrec :=
  match l with [] => [] | g :: r => ranges_go g g 0 r end.

(* should_choose_coverage_format_2 *)
Definition should_choose_coverage_format_2 (glyphs : list Z) : bool :=
  4 + zlen (ranges_for_glyphs glyphs) * 6 <? 4 + zlen glyphs * 2.

(* CoverageTableBuilder::build with the format forced (for "in either binary format") *)
Definition cov_build_fmt (fmt2 : bool) (input : list Z) : cov :=
  let glyphs := sort_dedup input in
  if fmt2 then Cov2 (ranges_for_glyphs glyphs) else Cov1 glyphs.
(* CoverageTableBuilder::from_glyphs(..).build() *)
Definition cov_build (input : list Z) : cov :=
  cov_build_fmt (should_choose_coverage_format_2 (sort_dedup input)) input.

(* reader outcome: panic (overflow-checks profile only) / not covered / coverage index *)
Inductive gres := GPanic | GNone | GSome (i : Z).

(* CoverageFormat1::get: glyph_array().binary_search(&gid).ok() *)
Definition cov1_get (arr : list Z) (g : Z) : gres :=
  match bsearch_by (fun i => znth arr i 0 ?= g) (zlen arr) with
  | BOk i => GSome i
  | BErr _ => GNone
  end.

(* closure of CoverageFormat2::get *)
Definition range_cmp (g : Z) (r : rrec) : comparison :=
  let '(s, e, _) := r in if e <? g then Lt else if g <? s then Gt else Eq.
(* CoverageFormat2::get: rec.start_coverage_index().checked_add(gid - rec.start_glyph_id())   — u16 arithmetic
   (the subtraction cannot underflow: the search returned Equal, so start <= gid); an index above u16::MAX
   is "not covered" in both profiles (since /repo 9432562; before that the addition panicked under overflow
   checks / wrapped, and before 7d54c01 it was (ci + gid) - start: finding "cov2-get-u16-add-overflow").
   [strict] is kept for the statements; the outcome no longer depends on it. *)
Definition cov2_get (strict : bool) (rs : list rrec) (g : Z) : gres :=
  match bsearch_by (fun i => range_cmp g (znth rs i (0, 0, 0))) (zlen rs) with
  | BOk i => let '(s, _, ci) := znth rs i (0, 0, 0) in
             if 65535 <? ci + (g - s) then GNone else GSome (ci + (g - s))
  | BErr _ => GNone
  end.
Definition cov_get (strict : bool) (c : cov) (g : Z) : gres :=
  match c with Cov1 arr => cov1_get arr g | Cov2 rs => cov2_get strict rs g end.
(* the semantic reader used by the abstract GPOS lookups: release profile, as an option *)
Definition cov_idx (c : cov) (g : Z) : option Z :=
  match cov_get false c g with GSome i => Some i | _ => None end.

(* start..=end as a list *)
Definition zrange (s e : Z) : list Z := map (fun k => s + Z.of_nat k) (seq 0 (Z.to_nat (e - s + 1))).
(* CoverageTable::iter *)
Definition cov_iter (c : cov) : list Z :=
  match c with
  | Cov1 arr => arr
  | Cov2 rs => flat_map (fun r : rrec => let '(s, e, _) := r in zrange s e) rs
  end.

(* specification side: position of g in a list *)
Fixpoint index_of (g : Z) (l : list Z) : option Z :=
  match l with
  | [] => None
  | x :: r => if x =? g then Some 0 else option_map Z.succ (index_of g r)
  end.

(* ------------------------------------------------------------------------------------------ *)
(* Class definitions *)
Inductive classdef := Cd1 (start : Z) (classes : list Z) | Cd2 (ranges : list rrec).   (* (start,end,class) *)

(* BTreeMap<GlyphId16,u16>::insert *)
Fixpoint map_insert (k v : Z) (m : list (Z * Z)) : list (Z * Z) :=
  match m with
  | [] => [(k, v)]
  | (k', v') :: r => if k <? k' then (k, v) :: m else if k =? k' then (k, v) :: r
                     else (k', v') :: map_insert k v r
  end.
(* ClassDefBuilderImpl::from_iter: iter.filter(|(_, cls)| *cls != 0).collect::<BTreeMap>() *)
Definition cd_items (input : list (Z * Z)) : list (Z * Z) :=
  fold_left (fun m p => map_insert (fst p) (snd p) m) (filter (fun p => negb (snd p =? 0)) input) [].

(* iter_class_ranges: state prev = (start, end, class) *)
Fixpoint class_ranges_go (s e c : Z) (l : list (Z * Z)) : list rrec :=
  match l with
  | [] => [(s, e, c)]
  | (g, cls) :: r => if are_sequential e g && (c =? cls) then class_ranges_go s g c r
                     else (s, e, c) :: class_ranges_go g g cls r
  end.
Definition class_ranges (items : list (Z * Z)) : list rrec :=
  match items with [] => [] | (g, cls) :: r => class_ranges_go g g cls r end.

(* BTreeMap::get *)
Fixpoint assoc (g : Z) (m : list (Z * Z)) : option Z :=
  match m with [] => None | (k, v) :: r => if k =? g then Some v else assoc g r end.

(* ClassDefBuilderImpl::prefer_format_1 *)
Definition prefer_format_1 (items : list (Z * Z)) : bool :=
  match items with
  | [] => false
  | (first, _) :: _ =>
      let last := fst (List.last items (0, 0)) in
      let len1 := 6 + (last - first + 1) * 2 in
      let len2 := 4 + zlen (class_ranges items) * 6 in
      len1 <? len2
  end.

Definition cd_build_items_fmt (fmt1 : bool) (items : list (Z * Z)) : classdef :=
  if fmt1 then
    let first := match items with [] => 0 | (g, _) :: _ => g end in
    let last := fst (List.last items (0, 0)) in
    Cd1 first (map (fun g => match assoc g items with Some c => c | None => 0 end) (zrange first last))
  else Cd2 (class_ranges items).
Definition cd_build_fmt (fmt1 : bool) (input : list (Z * Z)) : classdef :=
  cd_build_items_fmt fmt1 (cd_items input).
(* ClassDefBuilderImpl::from_iter(..).build() *)
Definition cd_build (input : list (Z * Z)) : classdef :=
  let items := cd_items input in cd_build_items_fmt (prefer_format_1 items) items.

(* read-fonts ClassDefFormat1::get *)
Definition cd1_get (start : Z) (arr : list Z) (g : Z) : Z :=
  if g <? start then 0 else
  match znth_error arr (g - start) with Some c => c | None => 0 end.
(* read-fonts ClassDefFormat2::get *)
Definition cd2_get (rs : list rrec) (g : Z) : Z :=
  let ix := match bsearch_by (fun i => fst (fst (znth rs i (0, 0, 0))) ?= g) (zlen rs) with
            | BOk ix => ix
            | BErr ix => sat_sub ix 1
            end in
  match znth_error rs ix with
  | Some (s, e, c) => if (s <=? g) && (g <=? e) then c else 0
  | None => 0
  end.
Definition cd_get (c : classdef) (g : Z) : Z :=
  match c with Cd1 s arr => cd1_get s arr g | Cd2 rs => cd2_get rs g end.

(* ------------------------------------------------------------------------------------------ *)
(* splitting.rs split_range_record(record, start, end) — [en] is INCLUSIVE here *)
Definition split_range_record (r : rrec) (st en : Z) : option rrec :=
  let '(s, e, ci) := r in
  let len := e - s in
  let cr_start := ci in
  let cr_end := ci + len in
  if (en <? cr_start) || (cr_end <? st) then None else
  let new_cov_start := sat_sub cr_start st in
  let start_glyph_delta := sat_sub st cr_start in
  let start_glyph := s + start_glyph_delta in
  let range_len := Z.min cr_end en - Z.max cr_start st in
  let end_glyph := start_glyph + range_len in
  Some (start_glyph, end_glyph, new_cov_start).

Fixpoint filter_map {A B} (f : A -> option B) (l : list A) : list B :=
  match l with [] => [] | x :: r => match f x with Some y => y :: filter_map f r | None => filter_map f r end end.

(* `cov_range.end.min(end) - cov_range.start.max(start)` is u16 arithmetic: it underflows (panic in the
   overflow-checks profile) when the record passes the intersection test but the window is empty *)
Definition split_rr_underflows (r : rrec) (st en : Z) : bool :=
  let '(s, e, ci) := r in
  negb ((en <? ci) || (ci + (e - s) <? st)) && (Z.min (ci + (e - s)) en <? Z.max ci st).

(* splitting.rs split_coverage(coverage, start, end) — [en] EXCLUSIVE.  None = panic:
   assert!(start <= end); format 1 slices glyph_array[start..end] (out-of-range panics);
   format 2 computes `end - 1` in u16 (underflow when end = 0, overflow-checks profile) and
   split_range_record can underflow on an empty window (start = end). *)
Definition split_coverage (c : cov) (st en : Z) : option cov :=
  if en <? st then None else
  match c with
  | Cov1 arr => if zlen arr <? en then None else Some (Cov1 (sublist st en arr))
  | Cov2 rs => if en =? 0 then None
               else if existsb (fun r => split_rr_underflows r st (en - 1)) rs then None
               else Some (Cov2 (filter_map (fun r => split_range_record r st (en - 1)) rs))
  end.

(* ------------------------------------------------------------------------------------------ *)
(* Abstract GPOS.  V = a pair of value records (opaque), A = an anchor table (opaque). *)
Section Gpos.
Context {V A : Type}.

(* first-match semantics of a lookup: subtables are tried in order *)
Fixpoint first_some {T R} (f : T -> option R) (l : list T) : option R :=
  match l with [] => None | x :: r => match f x with Some v => Some v | None => first_some f r end end.

(* --- PairPosFormat1 --- *)
Record pp1 := { pp1_cov : cov; pp1_sets : list (list (Z * V)) }.
Fixpoint pairset_find (ps : list (Z * V)) (g2 : Z) : option V :=
  match ps with [] => None | (g, v) :: r => if g =? g2 then Some v else pairset_find r g2 end.
Definition pp1_lookup (t : pp1) (g1 g2 : Z) : option V :=
  match cov_idx (pp1_cov t) g1 with
  | Some i => match znth_error (pp1_sets t) i with Some ps => pairset_find ps g2 | None => None end
  | None => None
  end.
(* split_off_ppf1(start, end): None = panic in split_coverage *)
Definition split_off_ppf1 (t : pp1) (st en : Z) : option pp1 :=
  match split_coverage (pp1_cov t) st en with
  | Some c => Some {| pp1_cov := c; pp1_sets := sublist st en (pp1_sets t) |}
  | None => None
  end.
(* the loop `for next_split in split_points { split_off(prev_split, next_split); prev_split = next_split }` *)
Fixpoint split_loop {T} (f : Z -> Z -> option T) (prev : Z) (sps : list Z) : option (list T) :=
  match sps with
  | [] => Some []
  | nx :: r => match f prev nx, split_loop f nx r with
               | Some x, Some xs => Some (x :: xs)
               | _, _ => None
               end
  end.
(* split_pair_pos_format_1 with the split points given (the last one is the pair-set count) *)
Definition split_pp1 (sps : list Z) (t : pp1) : option (list pp1) := split_loop (split_off_ppf1 t) 0 sps.

(* --- PairPosFormat2 --- *)
Record pp2 := { pp2_cov : cov; pp2_cd1 : classdef; pp2_cd2 : classdef; pp2_matrix : list (list V) }.
Definition pp2_lookup (t : pp2) (g1 g2 : Z) : option V :=
  match cov_idx (pp2_cov t) g1 with
  | Some _ => match znth_error (pp2_matrix t) (cd_get (pp2_cd1 t) g1) with
              | Some row => znth_error row (cd_get (pp2_cd2 t) g2)
              | None => None
              end
  | None => None
  end.
(* split_off_ppf2: class_map = coverage.iter().filter_map(|gid| (start..end).contains(class_def_1.get(gid))
                                   .then_some((gid, class - start))) *)
Definition ppf2_class_map (t : pp2) (st en : Z) : list (Z * Z) :=
  filter_map (fun g => let c := cd_get (pp2_cd1 t) g in
                       if (st <=? c) && (c <? en) then Some (g, sat_sub c st) else None)
             (cov_iter (pp2_cov t)).
Definition split_off_ppf2 (t : pp2) (st en : Z) : option pp2 :=
  let cm := ppf2_class_map t st en in
  Some {| pp2_cov := cov_build (map fst cm);
          pp2_cd1 := cd_build cm;
          pp2_cd2 := pp2_cd2 t;
          pp2_matrix := sublist st en (pp2_matrix t) |}.
Definition split_pp2 (sps : list Z) (t : pp2) : option (list pp2) := split_loop (split_off_ppf2 t) 0 sps.

(* --- MarkBasePosFormat1 --- *)
Record m2b := { m2b_mcov : cov; m2b_bcov : cov; m2b_nclass : Z;
                m2b_marks : list (Z * A);                 (* MarkArray: (mark_class, anchor) *)
                m2b_bases : list (list (option A)) }.     (* BaseArray: one row of m2b_nclass anchors per base *)
Definition m2b_lookup (t : m2b) (m b : Z) : option (A * A) :=
  match cov_idx (m2b_mcov t) m, cov_idx (m2b_bcov t) b with
  | Some mi, Some bi =>
      match znth_error (m2b_marks t) mi, znth_error (m2b_bases t) bi with
      | Some (cls, ma), Some row => match znth_error row cls with Some (Some ba) => Some (ma, ba) | _ => None end
      | _, _ => None
      end
  | _, _ => None
  end.
(* get_class_info + split_off_mark_pos: coverage ids of the marks whose class is in start..end
   (marks with class >= mark_class_count are skipped by get_class_info) *)
Definition m2b_keep (t : m2b) (st en : Z) (cls : Z) : bool :=
  (st <=? cls) && (cls <? en) && (cls <? m2b_nclass t).
(* (glyph, record) for each mark record, in mark-array order; the glyph comes from
   mark_coverage.iter().enumerate() *)
Definition m2b_mark_pairs (t : m2b) : list (Z * (Z * A)) := combine (cov_iter (m2b_mcov t)) (m2b_marks t).
Definition split_off_mark_pos (t : m2b) (st en : Z) : option m2b :=
  let kept := filter (fun p : Z * (Z * A) => m2b_keep t st en (fst (snd p))) (m2b_mark_pairs t) in
  Some {| m2b_mcov := cov_build (map fst kept);
          m2b_bcov := m2b_bcov t;
          m2b_nclass := en - st;
          (* split_off_mark_array: new_class = mark_class - first_class *)
          m2b_marks := map (fun p : Z * (Z * A) => (fst (snd p) - st, snd (snd p))) kept;
          (* split_off_base_array: per base record keep the columns start..end *)
          m2b_bases := map (sublist st en) (m2b_bases t) |}.
Definition split_m2b (sps : list Z) (t : m2b) : option (list m2b) := split_loop (split_off_mark_pos t) 0 sps.

(* --- lookups and extension promotion --- *)
Inductive subtable := SPP1 (t : pp1) | SPP2 (t : pp2) | SM2B (t : m2b) | SExt (ty : Z) (inner : subtable).
Record lookup := { lk_type : Z; lk_flags : Z; lk_mfs : option Z; lk_subs : list subtable }.

(* what a subtable yields for the glyph pair (x, y): a pair adjustment or a pair of anchors *)
Fixpoint sub_apply (s : subtable) (x y : Z) : option (V + A * A) :=
  match s with
  | SPP1 t => option_map inl (pp1_lookup t x y)
  | SPP2 t => option_map inl (pp2_lookup t x y)
  | SM2B t => option_map inr (m2b_lookup t x y)
  | SExt _ inner => sub_apply inner x y
  end.
Definition lookup_apply (l : lookup) (x y : Z) : option (V + A * A) :=
  first_some (fun s => sub_apply s x y) (lk_subs l).

(* actually_promote_subtables: every subtable offset now points at an 8-byte ExtensionPosFormat1
   {format 1, extension_lookup_type = old lookup type, Offset32 to the old subtable}; the lookup type is
   overwritten with 9; lookup_flag, subtable count and mark_filtering_set bytes are untouched *)
Definition promote (l : lookup) : lookup :=
  {| lk_type := 9; lk_flags := lk_flags l; lk_mfs := lk_mfs l;
     lk_subs := map (SExt (lk_type l)) (lk_subs l) |}.
End Gpos.
Arguments pp1 : clear implicits.
Arguments pp2 : clear implicits.
Arguments m2b : clear implicits.
Arguments subtable : clear implicits.
Arguments lookup : clear implicits.

(* ------------------------------------------------------------------------------------------ *)
(* Correspondence cases (written by harness/src/bin/c16.rs).
   Tables are flattened: coverage = (format, data) with data = glyph array | s,e,ci triples;
   classdef = (format, data) with data = start :: class array | s,e,class triples.
   Reader answers: -2 = panic, -1 = not covered, otherwise the coverage index. *)
Definition flat := (Z * list Z)%type.
Fixpoint triples (l : list Z) : list rrec :=
  match l with a :: b :: c :: r => (a, b, c) :: triples r | _ => [] end.
Definition untriples (l : list rrec) : list Z := flat_map (fun r : rrec => let '(a, b, c) := r in [a; b; c]) l.
Definition cov_of_flat (f : flat) : cov := if fst f =? 1 then Cov1 (snd f) else Cov2 (triples (snd f)).
Definition flat_of_cov (c : cov) : flat :=
  match c with Cov1 arr => (1, arr) | Cov2 rs => (2, untriples rs) end.
Definition cd_of_flat (f : flat) : classdef :=
  if fst f =? 1 then match snd f with s :: arr => Cd1 s arr | [] => Cd1 0 [] end else Cd2 (triples (snd f)).
Definition flat_of_cd (c : classdef) : flat :=
  match c with Cd1 s arr => (1, s :: arr) | Cd2 rs => (2, untriples rs) end.

Fixpoint zlist_eqb (a b : list Z) : bool :=
  match a, b with
  | [], [] => true
  | x :: r, y :: s => (x =? y) && zlist_eqb r s
  | _, _ => false
  end.
Definition flat_eqb (a b : flat) : bool := (fst a =? fst b) && zlist_eqb (snd a) (snd b).
(* ------------------------------------------------------------------------------------------ *)
(* gpos/builders.rs ClassPairPosBuilder: class rules are appended to the LAST class subtable, a new subtable is
   opened when either class conflicts with the last subtable's class definitions (implicit subtable break).
   Sets are glyph lists compared as sets. *)
Definition set_eqb (a b : list Z) : bool := zlist_eqb (sort_dedup a) (sort_dedup b).
Definition zmem (g : Z) (l : list Z) : bool := existsb (Z.eqb g) l.
(* ClassDefBuilder::can_add: classes.contains(cls) || cls.iter().all(|gid| !all_glyphs.contains(gid)) *)
Definition cdb_can_add (classes : list (list Z)) (cls : list Z) : bool :=
  existsb (set_eqb cls) classes || forallb (fun g => negb (zmem g (concat classes))) cls.
(* ClassDefBuilder::checked_add *)
Definition cdb_checked_add (classes : list (list Z)) (cls : list Z) : list (list Z) :=
  if cdb_can_add classes cls then (if existsb (set_eqb cls) classes then classes else classes ++ [cls]) else classes.

(* ClassDefBuilder::checked_add as the public API sees it: the return value and the new state *)
Definition cdb_checked_add_ret (classes : list (list Z)) (cls : list Z) : bool * list (list Z) :=
  (cdb_can_add classes cls, cdb_checked_add classes cls).
(* ClassDefBuilder::build_with_mapping: classes.sort_unstable_by_key(|cls| (Reverse(cls.len()), first glyph)); ids are the
   positions (+1 unless use_class_0).  Accepted classes are pairwise disjoint, so the keys are distinct. *)
Definition cls_size (c : list Z) : Z := zlen (sort_dedup c).
Definition cls_first (c : list Z) : Z := match sort_dedup c with [] => 0 | g :: _ => g end.
Definition cls_key_lt (a b : list Z) : bool :=
  (cls_size b <? cls_size a) || ((cls_size a =? cls_size b) && (cls_first a <? cls_first b)).
Fixpoint cls_insert (c : list Z) (l : list (list Z)) : list (list Z) :=
  match l with [] => [c] | x :: r => if cls_key_lt c x then c :: l else x :: cls_insert c r end.
Definition cdb_order (classes : list (list Z)) : list (list Z) := fold_right cls_insert [] classes.
Fixpoint cdb_class_in (ordered : list (list Z)) (id : Z) (g : Z) : Z :=
  match ordered with [] => 0 | c :: r => if zmem g c then id else cdb_class_in r (id + 1) g end.
(* the class the built ClassDef answers for g (0 = unassigned; with use_class_0 the largest class is 0 too) *)
Definition cdb_class_of (use0 : bool) (classes : list (list Z)) (g : Z) : Z :=
  cdb_class_in (cdb_order classes) (if use0 then 0 else 1) g.

Section ClassPairs.
Context {V : Type}.
(* ClassPairPosSubtable: classdef_1, classdef_2, items (BTreeMap keyed by the two sets: insert overwrites) *)
Record cgroup := { cg_c1 : list (list Z); cg_c2 : list (list Z); cg_items : list ((list Z * list Z) * V) }.
Definition cg_empty : cgroup := {| cg_c1 := []; cg_c2 := []; cg_items := [] |}.
(* ClassPairPosSubtable::can_add *)
Definition cg_can_add (g : cgroup) (c1 c2 : list Z) : bool := cdb_can_add (cg_c1 g) c1 && cdb_can_add (cg_c2 g) c2.
Fixpoint items_insert (k : list Z * list Z) (v : V) (m : list ((list Z * list Z) * V)) : list ((list Z * list Z) * V) :=
  match m with
  | [] => [(k, v)]
  | (k', v') :: r => if set_eqb (fst k) (fst k') && set_eqb (snd k) (snd k') then (k', v) :: r else (k', v') :: items_insert k v r
  end.
(* ClassPairPosSubtable::add *)
Definition cg_add (g : cgroup) (c1 c2 : list Z) (v : V) : cgroup :=
  {| cg_c1 := cdb_checked_add (cg_c1 g) c1; cg_c2 := cdb_checked_add (cg_c2 g) c2; cg_items := items_insert (c1, c2) v (cg_items g) |}.
(* ClassPairPosBuilder::insert: `if self.0.last().map(|last| last.can_add(..)) != Some(true) { push(default) }; last_mut().add(..)` *)
Fixpoint cpp_insert (gs : list cgroup) (c1 c2 : list Z) (v : V) : list cgroup :=
  match gs with
  | [] => [cg_add cg_empty c1 c2 v]
  | g :: rest =>
      match rest with
      | [] => if cg_can_add g c1 c2 then [cg_add g c1 c2 v] else [g; cg_add cg_empty c1 c2 v]
      | _ :: _ => g :: cpp_insert rest c1 c2 v
      end
  end.
Definition cpp_build (rules : list (list Z * list Z * V)) : list cgroup :=
  fold_left (fun gs r => cpp_insert gs (fst (fst r)) (snd (fst r)) (snd r)) rules [].

(* meaning of one class subtable at the rule level: it decides every pair whose first glyph it covers;
   Some None = covered, no rule for the class pair (the empty record) *)
Definition cg_lookup (g : cgroup) (x y : Z) : option (option V) :=
  if zmem x (concat (cg_c1 g)) then
    Some (match find (fun it : (list Z * list Z) * V => zmem x (fst (fst it)) && zmem y (snd (fst it))) (cg_items g) with
          | Some it => Some (snd it) | None => None end)
  else None.
Definition cpp_lookup (gs : list cgroup) (x y : Z) : option (option V) := first_some (fun g => cg_lookup g x y) gs.
End ClassPairs.
Arguments cgroup : clear implicits.

(* ------------------------------------------------------------------------------------------ *)
(* splitting.rs split_subtables at the lookup level: every subtable for which split_fn returned Some(pieces) is
   replaced IN PLACE by its pieces; the count written in the lookup header is
   `data.offsets.len() + new_subtables.values().map(|ids| ids.len() - 1).sum()` *)
Definition split_all {T} (f : T -> option (list T)) (sts : list T) : list T :=
  flat_map (fun s => match f s with Some ps => ps | None => [s] end) sts.
Definition split_count {T} (f : T -> option (list T)) (sts : list T) : Z :=
  zlen sts + fold_right Z.add 0 (map (fun s => match f s with Some ps => zlen ps - 1 | None => 0 end) sts).

(* ------------------------------------------------------------------------------------------ *)
(* gpos/builders.rs MarkToLigBuilder::insert_ligature on ONE ligature's component list
   (Vec<BTreeMap<class, anchor>>; here class ids instead of class names).  None = panic (index out of bounds when a
   call gives an anchor for a component beyond the length fixed by the first call). *)
Section Lig.
Context {A : Type}.
Fixpoint comp_set (m : list (Z * A)) (cls : Z) (a : A) : list (Z * A) :=
  match m with [] => [(cls, a)] | (k, v) :: r => if k =? cls then (k, a) :: r else (k, v) :: comp_set r cls a end.
Fixpoint comp_get (m : list (Z * A)) (cls : Z) : option A :=
  match m with [] => None | (k, v) :: r => if k =? cls then Some v else comp_get r cls end.
(* `for (i, anchor) in components.into_iter().enumerate() { if let Some(anchor) = anchor { component_list[i].insert(class, anchor) } }` *)
Fixpoint lig_apply (cl : list (list (Z * A))) (comps : list (option A)) (cls : Z) : option (list (list (Z * A))) :=
  match comps with
  | [] => Some cl
  | oa :: cs =>
      match cl with
      | [] => match oa with Some _ => None | None => lig_apply [] cs cls end
      | c :: r => option_map (cons (match oa with Some a => comp_set c cls a | None => c end)) (lig_apply r cs cls)
      end
  end.
(* `if component_list.is_empty() { component_list.resize(components.len(), Default::default()) }` *)
Definition lig_resize (cl : list (list (Z * A))) (n : nat) : list (list (Z * A)) :=
  match cl with [] => repeat [] n | _ => cl end.
Definition lig_insert (cl : list (list (Z * A))) (cls : Z) (comps : list (option A)) : option (list (list (Z * A))) :=
  lig_apply (lig_resize cl (length comps)) comps cls.
(* the anchor the compiled LigatureAttach holds for (component i, class cls) *)
Definition lig_get (cl : list (list (Z * A))) (i : nat) (cls : Z) : option A :=
  match nth_error cl i with Some c => comp_get c cls | None => None end.
End Lig.

Fixpoint list_eqb {T U} (eqb : T -> U -> bool) (a : list T) (b : list U) : bool :=
  match a, b with
  | [], [] => true
  | x :: r, y :: s => eqb x y && list_eqb eqb r s
  | _, _ => false
  end.
Definition gres_code (r : gres) : Z := match r with GPanic => -2 | GNone => -1 | GSome i => i end.

Inductive case :=
  (* glyph list through CoverageTableBuilder + dump_table, parsed back; probes answered by read-fonts *)
| CCovBuild (input : list Z) (built : flat) (probes : list (Z * Z))
  (* arbitrary (possibly malformed) coverage table through read-fonts get, overflow-checks profile *)
| CCovRaw (table : flat) (probes : list (Z * Z))
| CCdBuild (input : list (Z * Z)) (built : flat) (probes : list (Z * Z))
| CCdRaw (table : flat) (probes : list (Z * Z))
  (* a PairPosFormat1 subtable that the compiler split: original coverage, per-pair-set fingerprints,
     split points (from the compiled piece sizes), compiled pieces (coverage, fingerprints) *)
| CSplitPP1 (cv : flat) (fps : list Z) (sps : list Z) (pieces : list (flat * list Z))
  (* PairPosFormat2: coverage, classdef1, row fingerprints; pieces (coverage, classdef1, row fingerprints) *)
| CSplitPP2 (cv cd1 : flat) (rows : list Z) (sps : list Z) (pieces : list (flat * flat * list Z))
  (* MarkBasePos: mark coverage, (class, anchor id) per mark, class count, sampled base rows (anchor id, -1 = null);
     pieces (mark coverage, class count, marks, rows) *)
| CSplitM2B (mcv : flat) (marks : list (Z * Z)) (ncls : Z) (rows : list (list Z)) (sps : list Z)
            (pieces : list (flat * Z * list (Z * Z) * list (list Z)))
  (* lookup header before / after compilation: (type, flags, mark filtering set or -1, subtable count),
     promoted?, and the extension_lookup_type of every compiled subtable (empty when not promoted) *)
| CPromote (before after : Z * Z * Z * Z) (promoted : bool) (ext_types : list Z)
  (* a sequence of PairPosBuilder::insert_classes calls (class1, class2) and, per class subtable the real builder
     produced (in order), its coverage glyphs and its class1 / class2 counts *)
| CClassSeq (rules : list (list Z * list Z)) (subs : list (list Z * Z * Z))
  (* per input subtable of a lookup the number of compiled pieces (1 = not split), and the subtable count of the compiled lookup *)
| CSplitCount (pieces : list Z) (declared : Z)
  (* the insert_ligature calls for one ligature glyph (class, per component the anchor id or -1), the class count, and
     the compiled LigatureAttach rows (component x class, anchor id or -1) *)
| CLigSeq (calls : list (Z * list Z)) (ncls : Z) (rows : list (list Z))
  (* a sequence of ClassDefBuilder::checked_add calls with the value each returned, then build(): class of each probe glyph *)
| CCdbSeq (use0 : bool) (calls : list (list Z * bool)) (probes : list (Z * Z)).

Definition probes_ok (f : Z -> Z) (probes : list (Z * Z)) : bool :=
  forallb (fun p => f (fst p) =? snd p) probes.
Definition zz_eqb (a b : Z * Z) : bool := (fst a =? fst b) && (snd a =? snd b).
Definition row_dec (r : list Z) : list (option Z) := map (fun a => if a <? 0 then None else Some a) r.
Definition row_enc (r : list (option Z)) : list Z := map (fun a => match a with Some v => v | None => -1 end) r.

Definition dummy_cov : cov := Cov1 [].
Definition dummy_cd : classdef := Cd2 [].

Definition check_case (c : case) : bool :=
  match c with
  | CCovBuild input built probes =>
      let m := cov_build input in
      flat_eqb (flat_of_cov m) built && probes_ok (fun g => gres_code (cov_get true m g)) probes
      (* "format choice irrelevant": the other format answers the same *)
      && probes_ok (fun g => gres_code (cov_get true (cov_build_fmt (negb (fst built =? 2)) input) g)) probes
  | CCovRaw table probes => probes_ok (fun g => gres_code (cov_get true (cov_of_flat table) g)) probes
  | CCdBuild input built probes =>
      let m := cd_build input in
      flat_eqb (flat_of_cd m) built && probes_ok (cd_get m) probes
      && probes_ok (cd_get (cd_build_fmt (negb (fst built =? 1)) input)) probes
  | CCdRaw table probes => probes_ok (cd_get (cd_of_flat table)) probes
  | CSplitPP1 cv fps sps pieces =>
      let t := {| pp1_cov := cov_of_flat cv; pp1_sets := map (fun f => [(f, f)]) fps |} in
      match split_pp1 sps t with
      | Some ps => list_eqb (fun (m : pp1 Z) (o : flat * list Z) =>
                               flat_eqb (flat_of_cov (pp1_cov m)) (fst o)
                               && zlist_eqb (map (fun s => match s with (f, _) :: _ => f | [] => -1 end) (pp1_sets m)) (snd o))
                            ps pieces
      | None => false
      end
  | CSplitPP2 cv cd1 rows sps pieces =>
      let t := {| pp2_cov := cov_of_flat cv; pp2_cd1 := cd_of_flat cd1; pp2_cd2 := dummy_cd;
                  pp2_matrix := map (fun f => [f]) rows |} in
      match split_pp2 sps t with
      | Some ps => list_eqb (fun (m : pp2 Z) (o : flat * flat * list Z) =>
                               flat_eqb (flat_of_cov (pp2_cov m)) (fst (fst o))
                               && flat_eqb (flat_of_cd (pp2_cd1 m)) (snd (fst o))
                               && zlist_eqb (map (fun r => match r with f :: _ => f | [] => -1 end) (pp2_matrix m)) (snd o))
                            ps pieces
      | None => false
      end
  | CSplitM2B mcv marks ncls rows sps pieces =>
      let t := {| m2b_mcov := cov_of_flat mcv; m2b_bcov := dummy_cov; m2b_nclass := ncls;
                  m2b_marks := marks; m2b_bases := map row_dec rows |} in
      match split_m2b sps t with
      | Some ps => list_eqb (fun (m : m2b Z) (o : flat * Z * list (Z * Z) * list (list Z)) =>
                               let '(ocv, on, om, orows) := o in
                               flat_eqb (flat_of_cov (m2b_mcov m)) ocv
                               && (m2b_nclass m =? on)
                               && list_eqb zz_eqb (m2b_marks m) om
                               && list_eqb zlist_eqb (map row_enc (m2b_bases m)) orows)
                            ps pieces
      | None => false
      end
  | CClassSeq rules subs =>
      let gs := cpp_build (map (fun r : list Z * list Z => (r, 0)) rules) in
      list_eqb (fun (g : cgroup Z) (o : list Z * Z * Z) =>
                  zlist_eqb (sort_dedup (concat (cg_c1 g))) (fst (fst o))
                  && (zlen (cg_c1 g) =? snd (fst o))
                  (* classdef2 keeps class 0 for "everything else" *)
                  && (zlen (cg_c2 g) + 1 =? snd o))
               gs subs
  | CSplitCount pieces declared =>
      let f (p : Z) := if 1 <? p then Some (repeat 0 (Z.to_nat p)) else None in
      (split_count f pieces =? declared) && (zlen (split_all f pieces) =? declared)
  | CLigSeq calls ncls rows =>
      match fold_left (fun (acc : option (list (list (Z * Z)))) (c : Z * list Z) =>
                         match acc with Some cl => lig_insert cl (fst c) (row_dec (snd c)) | None => None end)
                      calls (Some []) with
      | Some cl => list_eqb zlist_eqb
                     (map (fun c => map (fun k => match comp_get c (Z.of_nat k) with Some a => a | None => -1 end) (seq 0 (Z.to_nat ncls))) cl)
                     rows
      | None => false
      end
  | CCdbSeq use0 calls probes =>
      let '(ok, classes) :=
        fold_left (fun (acc : bool * list (list Z)) (c : list Z * bool) =>
                     let '(r, st) := cdb_checked_add_ret (snd acc) (fst c) in
                     (fst acc && Bool.eqb r (snd c), st))
                  calls (true, []) in
      ok && probes_ok (cdb_class_of use0 classes) probes
  | CPromote before after promoted ext_types =>
      let '(ty, fl, mfs, n) := before in
      let l := {| lk_type := ty; lk_flags := fl; lk_mfs := (if mfs <? 0 then None else Some mfs);
                  lk_subs := repeat (@SExt Z Z 0 (SPP1 {| pp1_cov := dummy_cov; pp1_sets := [] |})) 0 |} in
      let l' := if promoted then promote l else l in
      let '(ty', fl', mfs', n') := after in
      (lk_type l' =? ty') && (lk_flags l' =? fl')
      && (match lk_mfs l' with Some v => v | None => -1 end =? mfs')
      (* splitting may add subtables, never removes; promotion keeps the count and records the old type *)
      && (n <=? n')
      && (if promoted then (zlen ext_types =? n') && forallb (fun e => e =? ty) ext_types
          else match ext_types with [] => true | _ => false end)
  end.
