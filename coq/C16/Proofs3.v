(* C16 — lemmas, part 3: iteration order of builder-made coverage tables *)
From Coq Require Import ZArith List Bool Lia.
From FV Require Import C16.Model C16.Proofs C16.Proofs2.
Import ListNotations.
Open Scope Z_scope.

Lemma zrange_single x : zrange x x = [x].
Proof. unfold zrange. replace (x - x + 1) with 1 by lia. change (Z.to_nat 1) with 1%nat. cbn [seq map Z.of_nat]. now rewrite Z.add_0_r. Qed.
Lemma zrange_snoc a b : a <= b + 1 -> zrange a (b + 1) = zrange a b ++ [b + 1].
Proof.
  intros H. unfold zrange. replace (Z.to_nat (b + 1 - a + 1)) with (S (Z.to_nat (b - a + 1))) by lia.
  rewrite seq_S, map_app. cbn [map Nat.add]. do 2 f_equal. lia.
Qed.

Definition rng (r : rrec) : list Z := let '(s, e, _) := r in zrange s e.

Lemma ranges_go_iter l : forall a b len, a <= b -> flat_map rng (ranges_go a b len l) = zrange a b ++ l.
Proof.
  induction l as [|x r IH]; intros a b len H; cbn [ranges_go].
  - cbn. reflexivity.
  - destruct (are_sequential b x) eqn:E.
    + apply are_sequential_spec in E. subst x. rewrite IH by lia. rewrite zrange_snoc by lia.
      rewrite <- app_assoc. reflexivity.
    + cbn [flat_map rng]. rewrite IH by lia. rewrite zrange_single. reflexivity.
Qed.
Lemma ranges_for_glyphs_iter l : flat_map rng (ranges_for_glyphs l) = l.
Proof. destruct l as [|x r]; [reflexivity|]. cbn [ranges_for_glyphs]. rewrite ranges_go_iter by lia. now rewrite zrange_single. Qed.

(* CoverageTable::iter of a builder-made table lists exactly the sorted set, in either format *)
Lemma cov_iter_build_fmt G f : cov_iter (cov_build_fmt f G) = sort_dedup G.
Proof. unfold cov_build_fmt. destruct f; cbn [cov_iter]; [apply ranges_for_glyphs_iter | reflexivity]. Qed.

(* and its coverage indices are the positions in that iteration: the assumption of split_m2b_preserves *)
Lemma built_cov_iter_ok G f : Forall u16 G ->
  let c := cov_build_fmt f G in
  cov_wf c /\ ssorted (cov_iter c) /\ Forall u16 (cov_iter c) /\ (forall g, cov_sem c g = index_of g (cov_iter c)).
Proof.
  intros U c. unfold c. rewrite cov_iter_build_fmt. repeat split.
  - now apply cov_build_wf.
  - apply sort_dedup_sorted.
  - now apply sort_dedup_u16.
  - intros g. unfold cov_build_fmt. destruct f; cbn [cov_sem]; [apply ranges_for_glyphs_rfind | reflexivity].
Qed.
