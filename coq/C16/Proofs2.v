(* C16 — lemmas, part 2: extension promotion, PairPosFormat2 and MarkBasePos splitting *)
From Coq Require Import ZArith List Bool Lia.
From FV Require Import C16.Model C16.Proofs.
Import ListNotations.
Open Scope Z_scope.
Ltac Zify.zify_post_hook ::= Z.div_mod_to_equations.

(* ================================================================================================ *)
(* promotion to extension *)
Lemma first_some_map {T U R} (f : U -> option R) (h : T -> U) l :
  first_some f (map h l) = first_some (fun x => f (h x)) l.
Proof. induction l as [|x r IH]; cbn; [reflexivity|]. destruct (f (h x)); auto. Qed.

Lemma promote_preserves_lemma {V A} (l : lookup V A) :
  (forall x y, lookup_apply (promote l) x y = lookup_apply l x y) /\
  lk_flags (promote l) = lk_flags l /\ lk_mfs (promote l) = lk_mfs l /\
  length (lk_subs (promote l)) = length (lk_subs l) /\
  lk_type (promote l) = 9 /\
  Forall (fun s => exists inner, s = SExt (lk_type l) inner /\ In inner (lk_subs l)) (lk_subs (promote l)).
Proof.
  repeat split; try reflexivity.
  - intros x y. unfold lookup_apply, promote. cbn [lk_subs]. now rewrite first_some_map.
  - cbn. apply map_length.
  - cbn. rewrite Forall_forall. intros s H. apply in_map_iff in H as [inner [E I]]. eauto.
Qed.

(* ================================================================================================ *)
(* coverage iteration *)
Lemma In_zrange g s e : In g (zrange s e) <-> s <= g <= e.
Proof.
  unfold zrange. rewrite in_map_iff. split.
  - intros [k [E I]]. apply in_seq in I. lia.
  - intros H. exists (Z.to_nat (g - s)). split; [lia|]. apply in_seq. lia.
Qed.
Lemma In_ranges_rfind val rs g :
  In g (flat_map (fun r : rrec => let '(s, e, _) := r in zrange s e) rs) <-> rfind val rs g <> None.
Proof.
  induction rs as [|[[s e] x] r IH]; cbn [flat_map rfind]; [cbn; tauto|].
  rewrite in_app_iff, In_zrange, IH.
  destruct ((s <=? g) && (g <=? e)) eqn:E.
  - apply andb_true_iff in E as [P Q]. apply Z.leb_le in P, Q. split; [discriminate | intros _; left; lia].
  - apply andb_false_iff in E. rewrite !Z.leb_gt in E. split; [intros [?|?]; [lia | assumption] | tauto].
Qed.
Lemma cov_iter_sem c g : In g (cov_iter c) <-> cov_sem c g <> None.
Proof.
  destruct c as [l|rs]; cbn [cov_iter cov_sem].
  - split.
    + intros H. destruct (index_of_in _ _ H) as [i E]. rewrite E. discriminate.
    + intros H. destruct (index_of g l) eqn:E; [|congruence]. apply index_of_some in E as [R N].
      rewrite <- N. now apply znth_In.
  - apply In_ranges_rfind.
Qed.

Lemma In_filter_map {A B} (f : A -> option B) l y : In y (filter_map f l) <-> exists x, In x l /\ f x = Some y.
Proof.
  induction l as [|a r IH]; cbn [filter_map]; [cbn; split; [tauto | intros [? [[] _]]]|].
  destruct (f a) eqn:E; cbn [In]; rewrite IH; split.
  - intros [->|[x [I F]]]; [exists a; auto | exists x; auto].
  - intros [x [[->|I] F]]; [left; congruence | right; eauto].
  - intros [x [I F]]; exists x; auto.
  - intros [x [[->|I] F]]; [congruence | eauto].
Qed.

(* a class definition built from pairs whose class is a function of the glyph *)
Lemma assoc_some_of_in g v m : In (g, v) m -> assoc g m <> None.
Proof. intros H A. apply assoc_none_keys in A. apply A. apply (in_map fst) in H. exact H. Qed.
Lemma cd_spec_functional (f : Z -> Z) m g : (forall k v, In (k, v) m -> v = f k) -> In g (map fst m) ->
  cd_spec m g = f g.
Proof.
  intros F I. unfold cd_spec. destruct (assoc g (rev (filter nz m))) as [c|] eqn:A.
  - apply assoc_in in A. apply in_rev in A. apply filter_In in A as [A _]. now apply F.
  - apply in_map_iff in I as [[k v] [E I]]. cbn in E. subst k. rewrite <- (F g v I).
    destruct (Z.eq_dec v 0) as [->|ne]; [reflexivity|]. exfalso. revert A. apply (assoc_some_of_in g v).
    apply -> in_rev. apply filter_In. split; [exact I|]. unfold nz. cbn. apply negb_true_iff. now apply Z.eqb_neq.
Qed.

(* ================================================================================================ *)
(* split_pair_pos_format_2 *)
Section PP2.
Context {V : Type}.

Definition pp2_sem (t : pp2 V) (lo hi : Z) (g1 g2 : Z) : option V :=
  if in_dec Z.eq_dec g1 (cov_iter (pp2_cov t)) then
    let c1 := cd_get (pp2_cd1 t) g1 in
    if (lo <=? c1) && (c1 <? hi) then
      match znth_error (pp2_matrix t) c1 with Some row => znth_error row (cd_get (pp2_cd2 t) g2) | None => None end
    else None
  else None.

Lemma pp2_lookup_sem (t : pp2 V) g1 g2 : cov_wf (pp2_cov t) ->
  pp2_lookup t g1 g2 =
  if in_dec Z.eq_dec g1 (cov_iter (pp2_cov t)) then
    match znth_error (pp2_matrix t) (cd_get (pp2_cd1 t) g1) with
    | Some row => znth_error row (cd_get (pp2_cd2 t) g2) | None => None end
  else None.
Proof.
  intros W. unfold pp2_lookup. rewrite cov_idx_sem by exact W.
  destruct (in_dec Z.eq_dec g1 (cov_iter (pp2_cov t))) as [I|I]; rewrite cov_iter_sem in I.
  - destruct (cov_sem (pp2_cov t) g1); [reflexivity | congruence].
  - destruct (cov_sem (pp2_cov t) g1); [exfalso; apply I; discriminate | reflexivity].
Qed.

Lemma class_map_in (t : pp2 V) a b g v : In (g, v) (ppf2_class_map t a b) <->
  In g (cov_iter (pp2_cov t)) /\ a <= cd_get (pp2_cd1 t) g < b /\ v = cd_get (pp2_cd1 t) g - a.
Proof.
  unfold ppf2_class_map. rewrite In_filter_map. split.
  - intros [x [I F]]. destruct ((a <=? cd_get (pp2_cd1 t) x) && (cd_get (pp2_cd1 t) x <? b)) eqn:E; [|discriminate].
    inversion F; subst. apply andb_true_iff in E as [P Q]. apply Z.leb_le in P. apply Z.ltb_lt in Q.
    unfold sat_sub. repeat split; auto; lia.
  - intros [I [[P Q] ->]]. exists g. split; [exact I|].
    replace (a <=? cd_get (pp2_cd1 t) g) with true by (symmetry; apply Z.leb_le; lia).
    replace (cd_get (pp2_cd1 t) g <? b) with true by (symmetry; apply Z.ltb_lt; lia).
    cbn. unfold sat_sub. do 2 f_equal. lia.
Qed.

Lemma split_off_ppf2_sem (t p : pp2 V) a b g1 g2 : Forall u16 (cov_iter (pp2_cov t)) -> 0 <= a ->
  split_off_ppf2 t a b = Some p -> pp2_lookup p g1 g2 = pp2_sem t a b g1 g2.
Proof.
  intros U Ha H. unfold split_off_ppf2 in H. inversion H; subst; clear H.
  set (cm := ppf2_class_map t a b).
  assert (Ucm : Forall u16 (map fst cm)).
  { rewrite Forall_forall in *. intros x Hx. apply in_map_iff in Hx as [[k v] [E I]]. cbn in E. subst k.
    apply class_map_in in I as [I _]. now apply U. }
  unfold pp2_lookup. cbn [pp2_cov pp2_cd1 pp2_cd2 pp2_matrix]. unfold cov_idx.
  rewrite (cov_get_build (map fst cm) g1 false Ucm). unfold pp2_sem.
  destruct (index_of g1 (sort_dedup (map fst cm))) as [i|] eqn:E; cbn [gres_of].
  - assert (I : In g1 (map fst cm)).
    { apply sort_dedup_in. apply index_of_some in E as [R N]. rewrite <- N. now apply znth_In. }
    pose proof I as I2. apply in_map_iff in I2 as [[k v] [E2 I2]]. cbn in E2. subst k.
    apply class_map_in in I2 as [IC [[P Q] _]].
    destruct (in_dec Z.eq_dec g1 (cov_iter (pp2_cov t))); [|contradiction].
    cbv zeta. replace (a <=? cd_get (pp2_cd1 t) g1) with true by (symmetry; apply Z.leb_le; lia).
    replace (cd_get (pp2_cd1 t) g1 <? b) with true by (symmetry; apply Z.ltb_lt; lia). cbn [andb].
    rewrite cd_get_build.
    rewrite (cd_spec_functional (fun g => cd_get (pp2_cd1 t) g - a) cm g1); [| | exact I].
    + rewrite znth_error_sublist by lia.
      replace (cd_get (pp2_cd1 t) g1 <? b) with true by (symmetry; apply Z.ltb_lt; lia). reflexivity.
    + intros k v0 Hk. apply class_map_in in Hk. tauto.
  - apply index_of_none in E. rewrite sort_dedup_in in E.
    destruct (in_dec Z.eq_dec g1 (cov_iter (pp2_cov t))) as [IC|IC]; [|reflexivity]. cbv zeta.
    destruct ((a <=? cd_get (pp2_cd1 t) g1) && (cd_get (pp2_cd1 t) g1 <? b)) eqn:W; [|reflexivity]. exfalso.
    apply andb_true_iff in W as [P Q]. apply Z.leb_le in P. apply Z.ltb_lt in Q. apply E.
    apply in_map_iff. exists (g1, cd_get (pp2_cd1 t) g1 - a). split; [reflexivity|].
    apply class_map_in. repeat split; auto.
Qed.

Lemma split_pp2_loop (t : pp2 V) g1 g2 last : Forall u16 (cov_iter (pp2_cov t)) ->
  forall sps prev ps, 0 <= prev -> chain prev sps last ->
  split_loop (split_off_ppf2 t) prev sps = Some ps ->
  first_some (fun p => pp2_lookup p g1 g2) ps = pp2_sem t prev last g1 g2.
Proof.
  intros U. induction sps as [|nx r IH]; intros prev ps Hp C H; cbn [split_loop] in H.
  - inversion H; subst. cbn in C. subst. cbn. unfold pp2_sem.
    destruct (in_dec Z.eq_dec g1 (cov_iter (pp2_cov t))); [|reflexivity]. cbv zeta.
    replace ((last <=? cd_get (pp2_cd1 t) g1) && (cd_get (pp2_cd1 t) g1 <? last)) with false; [reflexivity|].
    symmetry. apply andb_false_iff. rewrite Z.leb_gt, Z.ltb_ge. lia.
  - destruct C as [C1 C2]. destruct (split_off_ppf2 t prev nx) as [p|] eqn:E; [|discriminate].
    destruct (split_loop (split_off_ppf2 t) nx r) as [ps'|] eqn:E2; [|discriminate]. inversion H; subst.
    cbn [first_some]. rewrite (split_off_ppf2_sem t p prev nx g1 g2 U Hp E).
    rewrite (IH nx ps' ltac:(lia) C2 E2). pose proof (chain_le _ _ _ C2) as L.
    unfold pp2_sem. destruct (in_dec Z.eq_dec g1 (cov_iter (pp2_cov t))); [|reflexivity]. cbv zeta.
    set (k := cd_get (pp2_cd1 t) g1).
    destruct (Z_lt_le_dec k prev); [|destruct (Z_lt_le_dec k nx)].
    + replace (prev <=? k) with false by (symmetry; apply Z.leb_gt; lia).
      replace (nx <=? k) with false by (symmetry; apply Z.leb_gt; lia). reflexivity.
    + replace (prev <=? k) with true by (symmetry; apply Z.leb_le; lia).
      replace (k <? nx) with true by (symmetry; apply Z.ltb_lt; lia).
      replace (nx <=? k) with false by (symmetry; apply Z.leb_gt; lia).
      replace (k <? last) with true by (symmetry; apply Z.ltb_lt; lia). cbn [andb].
      destruct (znth_error (pp2_matrix t) k) as [row|]; [|reflexivity].
      destruct (znth_error row (cd_get (pp2_cd2 t) g2)); reflexivity.
    + replace (k <? nx) with false by (symmetry; apply Z.ltb_ge; lia). rewrite andb_false_r.
      replace (prev <=? k) with true by (symmetry; apply Z.leb_le; lia).
      replace (nx <=? k) with true by (symmetry; apply Z.leb_le; lia). reflexivity.
Qed.

Lemma split_pp2_preserves_lemma (t : pp2 V) sps ps g1 g2 :
  cov_wf (pp2_cov t) -> Forall u16 (cov_iter (pp2_cov t)) ->
  chain 0 sps (zlen (pp2_matrix t)) -> split_pp2 sps t = Some ps ->
  first_some (fun p => pp2_lookup p g1 g2) ps = pp2_lookup t g1 g2.
Proof.
  intros W U C H. unfold split_pp2 in H. rewrite (split_pp2_loop t g1 g2 _ U sps 0 ps ltac:(lia) C H).
  rewrite pp2_lookup_sem by exact W. unfold pp2_sem.
  destruct (in_dec Z.eq_dec g1 (cov_iter (pp2_cov t))); [|reflexivity]. cbv zeta.
  set (k := cd_get (pp2_cd1 t) g1).
  destruct ((0 <=? k) && (k <? zlen (pp2_matrix t))) eqn:E; [reflexivity|].
  apply andb_false_iff in E. rewrite Z.leb_gt, Z.ltb_ge in E. rewrite znth_error_none by lia. reflexivity.
Qed.
End PP2.

(* ================================================================================================ *)
(* split_mark_to_base *)
Fixpoint pfind {R} (m : Z) (ps : list (Z * R)) : option (Z * R) :=
  match ps with [] => None | (k, r) :: rest => if k =? m then Some (k, r) else pfind m rest end.

Lemma znth_error_nil {T} i : znth_error (@nil T) i = None.
Proof. unfold znth_error. destruct (i <? 0); [reflexivity|]. now destruct (Z.to_nat i). Qed.
Lemma znth_error_cons_0 {T} (x : T) l : znth_error (x :: l) 0 = Some x.
Proof. reflexivity. Qed.
Lemma znth_error_cons_succ {T} (x : T) l j : 0 <= j -> znth_error (x :: l) (Z.succ j) = znth_error l j.
Proof.
  intros H. unfold znth_error. replace (Z.succ j <? 0) with false by (symmetry; apply Z.ltb_ge; lia).
  replace (j <? 0) with false by (symmetry; apply Z.ltb_ge; lia).
  replace (Z.to_nat (Z.succ j)) with (S (Z.to_nat j)) by lia. reflexivity.
Qed.
Lemma znth_error_map {T U} (f : T -> U) l i : znth_error (map f l) i = option_map f (znth_error l i).
Proof.
  unfold znth_error. destruct (i <? 0); [reflexivity|]. revert l. induction (Z.to_nat i); intros [|x r]; cbn; auto.
Qed.
Lemma index_of_nonneg g l i : index_of g l = Some i -> 0 <= i.
Proof. intros H. apply index_of_some in H. lia. Qed.

Lemma index_map_pfind {R U} (F : Z * R -> U) m ps :
  match index_of m (map fst ps) with Some j => znth_error (map F ps) j | None => None end
  = option_map F (pfind m ps).
Proof.
  induction ps as [|[k r] rest IH]; cbn [map fst index_of pfind]; [reflexivity|].
  destruct (k =? m); [reflexivity|].
  destruct (index_of m (map fst rest)) as [j|] eqn:E; cbn [option_map].
  - rewrite znth_error_cons_succ by (eapply index_of_nonneg; eauto). exact IH.
  - exact IH.
Qed.
Lemma index_combine_pfind {R} m L (M : list R) :
  match index_of m L with Some i => znth_error M i | None => None end
  = option_map snd (pfind m (combine L M)).
Proof.
  revert M. induction L as [|x L' IH]; intros M; cbn [index_of combine pfind]; [reflexivity|].
  destruct M as [|y M'].
  - cbn. destruct (x =? m); [apply znth_error_nil|]. destruct (index_of m L'); cbn; [apply znth_error_nil | reflexivity].
  - cbn [combine pfind]. destruct (x =? m); [reflexivity|].
    specialize (IH M'). destruct (index_of m L') as [j|] eqn:E; cbn [option_map].
    + rewrite znth_error_cons_succ by (eapply index_of_nonneg; eauto). try rewrite E in IH. exact IH.
    + try rewrite E in IH. exact IH.
Qed.
Lemma pfind_notin {R} m (ps : list (Z * R)) : ~ In m (map fst ps) -> pfind m ps = None.
Proof.
  induction ps as [|[k r] rest IH]; cbn; [reflexivity|]. intros H. destruct (k =? m) eqn:E.
  - apply Z.eqb_eq in E. exfalso. apply H. auto.
  - apply IH. tauto.
Qed.
Lemma filter_keys_in {R} (P : Z * R -> bool) ps x : In x (map fst (filter P ps)) -> In x (map fst ps).
Proof. intros H. apply in_map_iff in H as [p [E I]]. apply filter_In in I as [I _]. subst. now apply in_map. Qed.
Lemma pfind_filter {R} (P : Z * R -> bool) m ps : ssorted (map fst ps) ->
  pfind m (filter P ps) = match pfind m ps with Some p => if P p then Some p else None | None => None end.
Proof.
  induction ps as [|[k r] rest IH]; intros S; cbn [filter pfind]; [reflexivity|].
  cbn in S. destruct S as [F S]. destruct (k =? m) eqn:E.
  - apply Z.eqb_eq in E. subst k. destruct (P (m, r)); cbn [pfind]; [now rewrite Z.eqb_refl|].
    apply pfind_notin. intros H. apply filter_keys_in in H. rewrite Forall_forall in F. specialize (F m H). lia.
  - destruct (P (k, r)); cbn [pfind]; [rewrite E|]; now apply IH.
Qed.
Lemma ssorted_filter_keys {R} (P : Z * R -> bool) ps : ssorted (map fst ps) -> ssorted (map fst (filter P ps)).
Proof.
  induction ps as [|[k r] rest IH]; intros S; cbn [filter]; [exact S|]. cbn in S. destruct S as [F S].
  destruct (P (k, r)); [|now apply IH]. cbn. split; [|now apply IH].
  rewrite Forall_forall in *. intros y Hy. apply F. now apply filter_keys_in in Hy.
Qed.
Lemma combine_keys {R} (L : list Z) (M : list R) : map fst (combine L M) = firstn (length M) L.
Proof. revert M. induction L as [|x L' IH]; intros [|y M']; cbn; auto. now rewrite IH. Qed.
Lemma sort_dedup_sorted_id l : ssorted l -> sort_dedup l = l.
Proof.
  induction l as [|x r IH]; intros S; [reflexivity|]. destruct S as [F S]. cbn [sort_dedup fold_right].
  change (fold_right insert_dedup [] r) with (sort_dedup r). rewrite (IH S).
  destruct r as [|y r']; [reflexivity|]. cbn [insert_dedup]. inversion F; subst.
  replace (x <? y) with true by (symmetry; apply Z.ltb_lt; lia). reflexivity.
Qed.

Section M2B.
Context {A : Type}.

(* the mark coverage lists its glyphs in increasing order and its indices are the positions in that list
   (what CoverageTable::iter().enumerate() in split_off_mark_pos relies on) *)
Definition m2b_cov_ok (t : m2b A) : Prop :=
  cov_wf (m2b_mcov t) /\ ssorted (cov_iter (m2b_mcov t)) /\ Forall u16 (cov_iter (m2b_mcov t)) /\
  (forall g, cov_sem (m2b_mcov t) g = index_of g (cov_iter (m2b_mcov t))).

Definition m2b_row (t : m2b A) (bi cls : Z) (ma : A) : option (A * A) :=
  match znth_error (m2b_bases t) bi with
  | Some row => match znth_error row cls with Some (Some ba) => Some (ma, ba) | _ => None end
  | None => None
  end.
Definition m2b_sem (t : m2b A) (lo hi m bg : Z) : option (A * A) :=
  match pfind m (m2b_mark_pairs t), cov_idx (m2b_bcov t) bg with
  | Some (_, (cls, ma)), Some bi => if (lo <=? cls) && (cls <? hi) then m2b_row t bi cls ma else None
  | _, _ => None
  end.

Lemma m2b_lookup_sem (t : m2b A) m bg : m2b_cov_ok t ->
  m2b_lookup t m bg =
  match pfind m (m2b_mark_pairs t), cov_idx (m2b_bcov t) bg with
  | Some (_, (cls, ma)), Some bi => m2b_row t bi cls ma
  | _, _ => None
  end.
Proof.
  intros [W [S [U C]]]. unfold m2b_lookup, m2b_row. rewrite cov_idx_sem by exact W. rewrite C.
  pose proof (index_combine_pfind m (cov_iter (m2b_mcov t)) (m2b_marks t)) as HB.
  fold (m2b_mark_pairs t) in HB.
  destruct (index_of m (cov_iter (m2b_mcov t))) as [mi|].
  - destruct (pfind m (m2b_mark_pairs t)) as [[k [cls ma]]|]; cbn in HB; rewrite HB;
      destruct (cov_idx (m2b_bcov t) bg); try reflexivity.
  - destruct (pfind m (m2b_mark_pairs t)) as [[k [cls ma]]|]; cbn in HB; [discriminate|].
    destruct (cov_idx (m2b_bcov t) bg); reflexivity.
Qed.

Lemma mark_pairs_sorted (t : m2b A) : ssorted (cov_iter (m2b_mcov t)) -> ssorted (map fst (m2b_mark_pairs t)).
Proof. intros S. unfold m2b_mark_pairs. rewrite combine_keys. now apply ssorted_firstn. Qed.

Lemma split_off_mark_pos_sem (t p : m2b A) a b m bg : m2b_cov_ok t -> 0 <= a -> b <= m2b_nclass t ->
  split_off_mark_pos t a b = Some p -> m2b_lookup p m bg = m2b_sem t a b m bg.
Proof.
  intros [W [S [U C]]] Ha Hb H. unfold split_off_mark_pos in H. inversion H; subst; clear H.
  set (keep := fun p : Z * (Z * A) => m2b_keep t a b (fst (snd p))).
  set (kept := filter keep (m2b_mark_pairs t)).
  set (h := fun p : Z * (Z * A) => (fst (snd p) - a, snd (snd p))).
  pose proof (mark_pairs_sorted t S) as SP.
  assert (SK : ssorted (map fst kept)) by (now apply ssorted_filter_keys).
  assert (UK : Forall u16 (map fst kept)).
  { rewrite Forall_forall in *. intros x Hx. apply filter_keys_in in Hx. apply U.
    unfold m2b_mark_pairs in Hx. rewrite combine_keys in Hx.
    rewrite <- (firstn_skipn (length (m2b_marks t)) (cov_iter (m2b_mcov t))). apply in_or_app. now left. }
  unfold m2b_lookup, m2b_sem. cbn [m2b_mcov m2b_bcov m2b_marks m2b_bases]. unfold cov_idx at 1.
  rewrite (cov_get_build (map fst kept) m false UK). rewrite (sort_dedup_sorted_id _ SK).
  pose proof (index_map_pfind h m kept) as HA. unfold kept at 3 in HA. rewrite (pfind_filter keep m _ SP) in HA.
  destruct (index_of m (map fst kept)) as [j|]; cbn [gres_of].
  - destruct (pfind m (m2b_mark_pairs t)) as [[k [cls ma]]|].
    + unfold keep at 1 in HA. cbn [fst snd] in HA. unfold m2b_keep in HA.
      destruct (cov_idx (m2b_bcov t) bg) as [bi|]; [|reflexivity].
      rewrite HA. destruct ((a <=? cls) && (cls <? b)) eqn:E.
      * apply andb_true_iff in E as [P Q]. apply Z.leb_le in P. pose proof Q as Q'. apply Z.ltb_lt in Q'.
        replace (cls <? m2b_nclass t) with true by (symmetry; apply Z.ltb_lt; lia).
        cbn [andb option_map]. unfold h. cbn [fst snd]. unfold m2b_row. rewrite znth_error_map.
        destruct (znth_error (m2b_bases t) bi) as [row|]; cbn [option_map]; [|reflexivity].
        rewrite znth_error_sublist by lia. now rewrite Q.
      * cbn [andb option_map]. reflexivity.
    + cbn in HA. rewrite HA. destruct (cov_idx (m2b_bcov t) bg); reflexivity.
  - destruct (pfind m (m2b_mark_pairs t)) as [[k [cls ma]]|]; [|reflexivity].
    unfold keep at 1 in HA. cbn [fst snd] in HA. unfold m2b_keep in HA.
    destruct (cov_idx (m2b_bcov t) bg) as [bi|]; [|reflexivity].
    destruct ((a <=? cls) && (cls <? b)) eqn:E; [|reflexivity].
    apply andb_true_iff in E as [P Q]. apply Z.ltb_lt in Q.
    replace (cls <? m2b_nclass t) with true in HA by (symmetry; apply Z.ltb_lt; lia). cbn in HA. discriminate.
Qed.

Lemma split_m2b_loop (t : m2b A) m bg : m2b_cov_ok t ->
  forall sps prev ps, 0 <= prev -> chain prev sps (m2b_nclass t) ->
  split_loop (split_off_mark_pos t) prev sps = Some ps ->
  first_some (fun p => m2b_lookup p m bg) ps = m2b_sem t prev (m2b_nclass t) m bg.
Proof.
  intros OK. induction sps as [|nx r IH]; intros prev ps Hp C H; cbn [split_loop] in H.
  - inversion H; subst. cbn in C. cbn. unfold m2b_sem.
    destruct (pfind m (m2b_mark_pairs t)) as [[k [cls ma]]|]; [|reflexivity].
    destruct (cov_idx (m2b_bcov t) bg); [|reflexivity].
    replace ((prev <=? cls) && (cls <? m2b_nclass t)) with false; [reflexivity|].
    symmetry. apply andb_false_iff. rewrite Z.leb_gt, Z.ltb_ge. lia.
  - destruct C as [C1 C2]. pose proof (chain_le _ _ _ C2) as L.
    destruct (split_off_mark_pos t prev nx) as [p|] eqn:E; [|discriminate].
    destruct (split_loop (split_off_mark_pos t) nx r) as [ps'|] eqn:E2; [|discriminate]. inversion H; subst.
    cbn [first_some]. rewrite (split_off_mark_pos_sem t p prev nx m bg OK Hp L E).
    rewrite (IH nx ps' ltac:(lia) C2 E2).
    unfold m2b_sem. destruct (pfind m (m2b_mark_pairs t)) as [[k [cls ma]]|]; [|reflexivity].
    destruct (cov_idx (m2b_bcov t) bg) as [bi|]; [|reflexivity].
    destruct (Z_lt_le_dec cls prev); [|destruct (Z_lt_le_dec cls nx)].
    + replace (prev <=? cls) with false by (symmetry; apply Z.leb_gt; lia).
      replace (nx <=? cls) with false by (symmetry; apply Z.leb_gt; lia). reflexivity.
    + replace (prev <=? cls) with true by (symmetry; apply Z.leb_le; lia).
      replace (cls <? nx) with true by (symmetry; apply Z.ltb_lt; lia).
      replace (nx <=? cls) with false by (symmetry; apply Z.leb_gt; lia).
      replace (cls <? m2b_nclass t) with true by (symmetry; apply Z.ltb_lt; lia). cbn [andb].
      destruct (m2b_row t bi cls ma); reflexivity.
    + replace (cls <? nx) with false by (symmetry; apply Z.ltb_ge; lia). rewrite andb_false_r.
      replace (prev <=? cls) with true by (symmetry; apply Z.leb_le; lia).
      replace (nx <=? cls) with true by (symmetry; apply Z.leb_le; lia). reflexivity.
Qed.

(* every BaseRecord has exactly mark_class_count anchors (BaseArray is parsed with that count) *)
Lemma split_m2b_preserves_lemma (t : m2b A) sps ps m bg : m2b_cov_ok t ->
  Forall (fun row => zlen row = m2b_nclass t) (m2b_bases t) ->
  chain 0 sps (m2b_nclass t) -> split_m2b sps t = Some ps ->
  first_some (fun p => m2b_lookup p m bg) ps = m2b_lookup t m bg.
Proof.
  intros OK R C H. unfold split_m2b in H. rewrite (split_m2b_loop t m bg OK sps 0 ps ltac:(lia) C H).
  rewrite m2b_lookup_sem by exact OK. unfold m2b_sem.
  destruct (pfind m (m2b_mark_pairs t)) as [[k [cls ma]]|]; [|reflexivity].
  destruct (cov_idx (m2b_bcov t) bg) as [bi|]; [|reflexivity].
  destruct ((0 <=? cls) && (cls <? m2b_nclass t)) eqn:E; [reflexivity|].
  apply andb_false_iff in E. rewrite Z.leb_gt, Z.ltb_ge in E. unfold m2b_row.
  destruct (znth_error (m2b_bases t) bi) as [row|] eqn:ZE; [|reflexivity].
  assert (RL : zlen row = m2b_nclass t).
  { rewrite Forall_forall in R. apply R. unfold znth_error in ZE. destruct (bi <? 0); [discriminate|].
    eapply nth_error_In; eauto. }
  rewrite znth_error_none by lia. reflexivity.
Qed.

(* coverage tables made by the builder satisfy the iteration-order assumption (format 1 directly) *)
Lemma cov1_iter_ok l : ssorted l -> forall g, cov_sem (Cov1 l) g = index_of g (cov_iter (Cov1 l)).
Proof. reflexivity. Qed.
End M2B.
