(* C16 — lemmas, part 5: lookup-level splitting (subtable count, first match) and MarkToLigBuilder::insert_ligature *)
From Coq Require Import ZArith List Bool Lia.
From FV Require Import C16.Model C16.Proofs C16.Proofs4.
Import ListNotations.
Open Scope Z_scope.

Lemma zlen_app {T} (a b : list T) : zlen (a ++ b) = zlen a + zlen b.
Proof. unfold zlen. rewrite app_length. lia. Qed.

(* the count split_subtables writes into the lookup header = the number of subtable offsets it writes *)
Lemma split_lookup_count_lemma {T} (f : T -> option (list T)) sts : split_count f sts = zlen (split_all f sts).
Proof.
  unfold split_count, split_all. induction sts as [|x r IH]; [reflexivity|].
  cbn [map fold_right flat_map]. rewrite zlen_app, zlen_cons. destruct (f x) as [ps|].
  - lia.
  - change (zlen [x]) with 1. lia.
Qed.

Lemma first_some_app {T R} (g : T -> option R) a b :
  first_some g (a ++ b) = match first_some g a with Some v => Some v | None => first_some g b end.
Proof. induction a as [|x a IH]; cbn; [reflexivity|]. destruct (g x); auto. Qed.

(* if every split preserves its subtable's answer, the lookup's first match is preserved, whichever and however
   many of its subtables are split *)
Lemma split_all_preserves_lemma {T R} (f : T -> option (list T)) (g : T -> option R) sts :
  (forall s ps, In s sts -> f s = Some ps -> first_some g ps = g s) ->
  first_some g (split_all f sts) = first_some g sts.
Proof.
  unfold split_all. induction sts as [|x r IH]; intros H; [reflexivity|].
  cbn [flat_map first_some]. rewrite first_some_app. rewrite IH by (intros; eapply H; [now right | eassumption]).
  destruct (f x) as [ps|] eqn:E.
  - rewrite (H x ps (or_introl eq_refl) E). reflexivity.
  - cbn. destruct (g x); reflexivity.
Qed.

Section Lig.
Context {A : Type}.
Lemma comp_get_set (m : list (Z * A)) cls a c : comp_get (comp_set m cls a) c = if c =? cls then Some a else comp_get m c.
Proof.
  induction m as [|[k v] r IH]; cbn [comp_set comp_get].
  - rewrite (Z.eqb_sym cls c). reflexivity.
  - destruct (k =? cls) eqn:E; cbn [comp_get].
    + apply Z.eqb_eq in E. subst k. rewrite (Z.eqb_sym cls c). destruct (c =? cls); reflexivity.
    + rewrite IH. destruct (c =? cls) eqn:E2; [|reflexivity]. apply Z.eqb_eq in E2. subst c. now rewrite E.
Qed.

Lemma lig_apply_get (comps : list (option A)) cls : forall (cl cl' : list (list (Z * A))),
  length comps = length cl -> lig_apply cl comps cls = Some cl' ->
  forall i c, lig_get cl' i c =
    match nth_error comps i with
    | Some (Some a) => if c =? cls then Some a else lig_get cl i c
    | _ => lig_get cl i c
    end.
Proof.
  induction comps as [|oa cs IH]; intros cl cl' L H i c.
  - cbn in H. inversion H; subst. destruct i; reflexivity.
  - destruct cl as [|x r]; [discriminate|]. cbn [lig_apply] in H.
    destruct (lig_apply r cs cls) as [r'|] eqn:E; [|discriminate]. cbn in H. inversion H; subst; clear H.
    cbn in L. destruct i as [|i].
    + cbn [nth_error lig_get]. destruct oa; [apply comp_get_set | reflexivity].
    + cbn [nth_error]. unfold lig_get. cbn [nth_error]. apply (IH r r' ltac:(lia) E i c).
Qed.
Lemma lig_apply_total (comps : list (option A)) cls : forall (cl : list (list (Z * A))),
  length comps = length cl -> lig_apply cl comps cls <> None.
Proof.
  induction comps as [|oa cs IH]; intros cl L; [discriminate|].
  destruct cl as [|x r]; [discriminate|]. cbn [lig_apply]. cbn in L.
  specialize (IH r ltac:(lia)). destruct (lig_apply r cs cls); [discriminate | contradiction].
Qed.

(* MarkToLigBuilder::insert_ligature: after the call, (component i, class c) holds the anchor given for component i
   when c is the call's class and the call gives one there; every other entry is unchanged (a None never clears) *)
Lemma lig_insert_get_lemma (cl : list (list (Z * A))) cls comps :
  cl = [] \/ length comps = length cl ->
  exists cl', lig_insert cl cls comps = Some cl' /\
    forall i c, lig_get cl' i c =
      match nth_error comps i with
      | Some (Some a) => if c =? cls then Some a else lig_get cl i c
      | _ => lig_get cl i c
      end.
Proof.
  intros H. unfold lig_insert.
  assert (L : length comps = length (lig_resize cl (length comps))).
  { destruct H as [->|H]; [cbn; now rewrite repeat_length | destruct cl; [cbn; now rewrite repeat_length | exact H]]. }
  destruct (lig_apply (lig_resize cl (length comps)) comps cls) as [cl'|] eqn:E; [|exfalso; revert E; now apply lig_apply_total].
  exists cl'. split; [reflexivity|]. intros i c. rewrite (lig_apply_get comps cls _ cl' L E i c).
  assert (G : forall j, lig_get (lig_resize cl (length comps)) j c = lig_get cl j c).
  { intros j. destruct cl as [|x r]; [|reflexivity]. cbn [lig_resize]. unfold lig_get.
    destruct (nth_error (repeat [] (length comps)) j) as [m|] eqn:N; [|now destruct j].
    apply nth_error_In, repeat_spec in N. subst m. now destruct j. }
  rewrite G. reflexivity.
Qed.
End Lig.
