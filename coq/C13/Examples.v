(* C13 — non-vacuity examples for the hypotheses of Props.v, and [_refuted] witnesses for the
   stronger statements that are false of the faithful model (each replayed on the real code by the
   harness: families "cycle" / "error_after_push"). *)
From Coq Require Import NArith List Lia.
From FV Require Import C13.Model C13.Proofs.
Import ListNotations.
Open Scope N_scope.

(* glyph 1 -> PaintColrGlyph(2); glyph 2 -> PaintColrLayers[0..1); layer 0 = that same PaintColrLayers *)
Definition G1 := mkG [GColrGlyph 2; GLayers 0 1%nat] (Some [1]) (Some [(1,0);(2,1)]) [] None None.

Example g1_cycle_detected : run_case G1 0 1 = (3, [Cached 2]).     (* PaintCycleDetected *)
Proof. vm_compute. reflexivity. Qed.

Lemma g1_deep_layers : forall n, deep (inst_of G1) n (RLayers 0 1).
Proof.
  induction n as [|n IH]; [constructor|].
  apply (deepS _ n _ (RLayers 0 1)); [|exact IH].
  apply (e_layer (inst_of G1) 0 1%nat 0 1 1); [lia | lia | reflexivity | reflexivity].
Qed.
Lemma g1_closed_layers : forall n, closed (inst_of G1) n (RLayers 0 1).
Proof.
  induction n as [|n IH]; [exact Logic.I|]. cbn [closed]. intros i L U.
  assert (i = 0) by lia. subst. exists 1, 1, (RLayers 0 1). repeat split. exact IH.
Qed.

Lemma g1_closed_root : forall n, closed (inst_of G1) n (RColrGlyph 2).
Proof.
  destruct n as [|n]; [exact Logic.I|]. cbn [closed].
  exists 1, 1, (RLayers 0 1). split; [reflexivity|]. split; [reflexivity|]. apply g1_closed_layers.
Qed.

(* the hypotheses of c13_cycle_is_error / c13_cycle_error_kind are satisfiable *)
Example g1_cycle_hyps :
  base_glyph (inst_of G1) 1 = BSome 0 0 /\ resolve (inst_of G1) 0 = Some (RColrGlyph 2) /\
  deep (inst_of G1) 64 (RColrGlyph 2) /\ closed (inst_of G1) 64 (RColrGlyph 2).
Proof.
  split; [reflexivity|]. split; [reflexivity|]. split.
  - apply (deepS _ 63 _ (RLayers 0 1)); [|apply g1_deep_layers].
    apply (e_colr (inst_of G1) 2 1 1); reflexivity.
  - apply g1_closed_root.
Qed.

(* "a reachable cycle => never Ok" is FALSE when the client draws the sub-glyph from its cache:
   the cyclic sub-graph is then never traversed (hence the hypothesis of c13_cycle_is_error) *)
Example cycle_never_ok_refuted :
  exists g mode gid s ref id q,
    base_glyph (inst_of g) gid = BSome ref id /\ resolve (inst_of g) ref = Some q /\
    (forall n, deep (inst_of g) n q) /\
    paint (inst_of g) (oracle_of mode) gid = Painted ROk s.
Proof.
  exists G1, 1, 1. eexists. exists 0, 0, (RColrGlyph 2).
  split; [reflexivity|]. split; [reflexivity|]. split.
  - intros [|n]; [constructor|]. apply (deepS _ n _ (RLayers 0 1)); [|apply g1_deep_layers].
    apply (e_colr (inst_of G1) 2 1 1); reflexivity.
  - vm_compute. reflexivity.
Qed.

(* "on ANY result the emitted stream is a prefix of a well nested word" is FALSE: after an error
   below an unpopped push_transform the enclosing PaintComposite still pops its layers.
   glyph 1 -> Composite(src = Transform(Transform(<invalid paint>)), mode 5, backdrop = Solid) *)
Definition G2 := mkG [GBad; GTransform 0; GTransform 1; GFill (Some 0); GComposite 2 5 3]
                     (Some []) (Some [(1,4)]) [] None None.
Example error_stream_prefix_refuted :
  exists g mode gid r s,
    paint (inst_of g) (oracle_of mode) gid = Painted (RErr r) s /\ run (s_out s) [] = None /\
    s_out s = [PushLayer 3; Fill 0; PushLayer 5; PushT; PopLayer 5; PopLayer 3].
Proof. exists G2, 0, 1, EParse. eexists. split; [vm_compute; reflexivity|]. split; reflexivity. Qed.

(* a successful, non-trivial painting: the conclusion of c13_balanced_on_ok is about a real stream *)
Definition G3 := mkG [GFill (Some 1); GTransform 0; GGlyph 7 1; GFill (Some 0); GComposite 2 5 3;
                      GColrGlyph 2; GLayers 0 2%nat] (Some [4;5]) (Some [(1,6);(2,4)]) [(2,2)] None None.
Example g3_ok_stream :
  run_case G3 0 1 = (0, [PushLayer 3; Fill 0; PushLayer 5; FillGlyph 7 true 1; PopLayer 5; PopLayer 3;
                         Cached 2; PushClipBox; PushLayer 3; Fill 0; PushLayer 5; FillGlyph 7 true 1;
                         PopLayer 5; PopLayer 3; PopClip]).
Proof. vm_compute. reflexivity. Qed.

(* visit_bound is of the right order: k nested PaintGlyph cost 3 * 2^(k-1) - 1 visits (finding F-6:
   bounded as the property demands, exponential in the nesting depth) *)
Fixpoint glyph_chain (k : nat) (acc : list gnode) (n : N) : list gnode :=
  match k with O => acc | S k' => glyph_chain k' (acc ++ [GGlyph (100 + n) (n - 1)]) (n + 1) end.
Definition G4 (k : nat) := mkG (glyph_chain k [GFill (Some 0)] 1) (Some []) (Some [(1, N.of_nat k)]) [] None None.
Definition visits (g : graph) (gid : N) : option nat :=
  match paint (inst_of g) (oracle_of 0) gid with Painted _ s => Some (s_vis s) | NoGlyph => None end.
Example visit_bound_tight_family :
  visits (G4 1) 1 = Some 2%nat /\ visits (G4 2) 1 = Some 5%nat /\ visits (G4 3) 1 = Some 11%nat /\
  visits (G4 8) 1 = Some 383%nat /\ visits (G4 12) 1 = Some 6143%nat.
Proof. vm_compute. repeat split. Qed.
