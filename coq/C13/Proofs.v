(* C13 — lemmas about the traversal model (coq/C13/Model.v). *)
From Coq Require Import NArith List Bool Arith Lia.
From FV Require Import C13.Model.
Import ListNotations.

(* ------------------------------------------------------------------ nesting words *)

Definition neutral (w : list cb) : Prop := forall stk, run w stk = Some stk.
Definition is_fg (c : cb) : Prop := match c with FillGlyph _ _ _ => True | _ => False end.
Definition fgonly (w : list cb) : Prop := Forall is_fg w.

Lemma run_app a b stk :
  run (a ++ b) stk = match run a stk with Some s' => run b s' | None => None end.
Proof.
  revert stk. induction a as [|c a IH]; intros stk; cbn; [reflexivity|].
  destruct (step_cb c stk); [apply IH | reflexivity].
Qed.

Lemma step_cb_mono c s0 t s : step_cb c s0 = Some t -> step_cb c (s0 ++ s) = Some (t ++ s).
Proof.
  destruct c; cbn; intros H; try (inversion H; subst; reflexivity).
  - destruct s0 as [|[| |m] r]; try discriminate. inversion H; subst. reflexivity.
  - destruct s0 as [|[| |m] r]; try discriminate. inversion H; subst. reflexivity.
  - destruct s0 as [|[| |m'] r]; try discriminate. cbn. destruct (N.eqb m m'); [|discriminate].
    inversion H; subst. reflexivity.
Qed.

Lemma run_mono w : forall s0 t s, run w s0 = Some t -> run w (s0 ++ s) = Some (t ++ s).
Proof.
  induction w as [|c w IH]; intros s0 t s H; cbn in *.
  - inversion H; subst. reflexivity.
  - destruct (step_cb c s0) as [s1|] eqn:E; [|discriminate].
    rewrite (step_cb_mono _ _ _ s E). apply IH. exact H.
Qed.

Lemma well_nested_neutral w : well_nested w <-> neutral w.
Proof.
  split.
  - intros H stk. apply (run_mono w [] [] stk) in H. exact H.
  - intros H. apply H.
Qed.

Lemma neutral_nil : neutral [].
Proof. intros s. reflexivity. Qed.

Lemma neutral_app a b : neutral a -> neutral b -> neutral (a ++ b).
Proof. intros Ha Hb s. rewrite run_app, Ha. apply Hb. Qed.

Lemma fgonly_neutral w : fgonly w -> neutral w.
Proof.
  induction 1 as [|c w Hc _ IH]; [apply neutral_nil|].
  intros s. destruct c; try contradiction. cbn. apply IH.
Qed.

Lemma fgonly_app a b : fgonly a -> fgonly b -> fgonly (a ++ b).
Proof. apply Forall_app_2 || (intros; apply Forall_app; split; assumption). Qed.

Definition matching (push pop : cb) : Prop :=
  match push, pop with
  | PushT, PopT => True
  | PushClipGlyph _, PopClip => True
  | PushClipBox, PopClip => True
  | PushLayer m, PopLayer m' => m = m'
  | _, _ => False
  end.

Lemma neutral_wrap push pop w : matching push pop -> neutral w -> neutral ([push] ++ w ++ [pop]).
Proof.
  intros M H s.
  destruct push, pop; try contradiction; cbn [app run step_cb]; rewrite run_app, H; cbn; try reflexivity.
  cbn in M. subst. rewrite N.eqb_refl. reflexivity.
Qed.

Lemma neutral_single c : match c with Fill _ | FillGlyph _ _ _ | Cached _ => True | _ => False end -> neutral [c].
Proof. intros H s. destruct c; try contradiction; reflexivity. Qed.

(* closing the open scopes of a prefix gives a well nested word *)
Lemma run_closers stk : run (map closer stk) stk = Some [].
Proof.
  induction stk as [|x stk IH]; [reflexivity|].
  destruct x; cbn; try exact IH. rewrite N.eqb_refl. exact IH.
Qed.

Lemma prefix_completes w stk : nested_prefix w stk -> well_nested (w ++ map closer stk).
Proof. unfold nested_prefix, well_nested. intros H. rewrite run_app, H. apply run_closers. Qed.

(* the trait's default fill_glyph keeps a stream well nested *)
Lemma expand_cb_run c stk : run (expand_cb c) stk = step_cb c stk.
Proof.
  destruct c; cbn; try (destruct (step_cb _ _); reflexivity); try reflexivity.
  - destruct stk as [|[]]; reflexivity.
  - destruct stk as [|[]]; reflexivity.
  - destruct xf; reflexivity.
  - destruct stk as [|[| |m']]; try reflexivity. destruct (N.eqb m m'); reflexivity.
Qed.

Lemma expand_run w : forall stk, run (expand w) stk = run w stk.
Proof.
  induction w as [|c w IH]; intros stk; [reflexivity|].
  unfold expand in *. cbn [flat_map]. rewrite run_app, expand_cb_run. cbn [run].
  destruct (step_cb c stk); [apply IH | reflexivity].
Qed.

(* ------------------------------------------------------------------ painters *)

(* [ext s s']: the frame stack keeps its height, the client's stream is extended, and when a
   collector is on top the client only receives fill_glyph calls *)
Definition ext (s s' : st) : Prop :=
  length (s_fr s') = length (s_fr s) /\
  exists w, s_out s' = s_out s ++ w /\ (s_fr s <> [] -> fgonly w).

Lemma ext_refl s : ext s s.
Proof. split; [reflexivity|]. exists []. rewrite app_nil_r. split; [reflexivity|]. intros _. constructor. Qed.

Lemma ext_trans a b c : ext a b -> ext b c -> ext a c.
Proof.
  intros [L1 [w1 [O1 F1]]] [L2 [w2 [O2 F2]]]. split; [congruence|].
  exists (w1 ++ w2). split; [rewrite O2, O1, app_assoc; reflexivity|].
  intros H. apply fgonly_app; [apply F1, H|].
  apply F2. intros E. apply H. destruct (s_fr a); [reflexivity|]. rewrite E in L1. discriminate.
Qed.

Lemma ext_same a b s' : s_fr a = s_fr b -> s_out a = s_out b -> ext a s' -> ext b s'.
Proof. unfold ext. intros -> ->. exact (fun x => x). Qed.

Lemma ext_same_r a b s : s_fr a = s_fr b -> s_out a = s_out b -> ext s a -> ext s b.
Proof. unfold ext. intros -> ->. exact (fun x => x). Qed.

Lemma emit_real c s : s_fr s = [] -> emit c s = mkS [] (s_out s ++ [c]) (s_dec s) (s_vis s).
Proof. unfold emit. intros ->. reflexivity. Qed.

Lemma coll_cb_ext c f r out :
  exists fr' w, coll_cb c f r out = (fr', out ++ w) /\ length fr' = S (length r) /\ fgonly w.
Proof.
  assert (N0 : forall fr' : list frame, length fr' = S (length r) ->
            exists fr'' w, (fr', out) = (fr'', out ++ w) /\ length fr'' = S (length r) /\ fgonly w).
  { intros fr' L. exists fr', []. rewrite app_nil_r. repeat split; [exact L | constructor]. }
  destruct c; cbn; try (apply N0; reflexivity).
  - destruct (f_ok f); apply N0; reflexivity.
  - destruct (f_ok f); [|apply N0; reflexivity].
    destruct r as [|p r']; cbn.
    + exists [f], [FillGlyph (f_gid f) (f_xf f) k]. repeat split. constructor; [exact I | constructor].
    + apply N0. reflexivity.
Qed.

Lemma ext_emit c s : ext s (emit c s).
Proof.
  unfold emit. destruct (s_fr s) as [|f r] eqn:E.
  - split; cbn; [rewrite E; reflexivity|]. exists [c]. split; [reflexivity|]. rewrite E. intros H; contradiction.
  - destruct (coll_cb_ext c f r (s_out s)) as [fr' [w [H [L F]]]]. rewrite H. split; cbn.
    + rewrite E. exact L.
    + exists w. split; [reflexivity|]. intros _. exact F.
Qed.

Lemma ext_tick s : ext s (tick s).
Proof. apply (ext_same_r s); try reflexivity. apply ext_refl. Qed.

Lemma ext_if (b : bool) c s : ext s (if b then emit c s else s).
Proof. destruct b; [apply ext_emit | apply ext_refl]. Qed.

Lemma ext_with_guard s id body :
  (forall s0, s_fr s0 = s_fr s -> s_out s0 = s_out s -> ext s0 (snd (body s0))) ->
  ext s (snd (with_guard s id body)).
Proof.
  intros H. unfold with_guard. destruct (dec_enter (s_dec s) id) as [d'|e|]; cbn; try apply ext_refl.
  specialize (H (set_dec s d') eq_refl eq_refl).
  destruct (body (set_dec s d')) as [r s'] eqn:E. cbn in H.
  destruct (dec_drop (s_dec s')); cbn.
  - apply (ext_same_r s'); try reflexivity. apply (ext_same (set_dec s d')); try reflexivity. exact H.
  - apply (ext_same (set_dec s d')); try reflexivity. exact H.
Qed.

Lemma ext_layers_loop step :
  (forall i s, ext s (snd (step i s))) -> forall n i s, ext s (snd (layers_loop step n i s)).
Proof.
  intros H. induction n as [|n IH]; intros i s; cbn; [apply ext_refl|].
  specialize (H i s). destruct (step i s) as [r s'] eqn:E. cbn in H.
  destruct r; [|exact H]. eapply ext_trans; [exact H | apply IH].
Qed.

Lemma ext_ask_cached oracle s g : ext s (snd (ask_cached oracle s g)).
Proof. unfold ask_cached. destruct (s_fr s) eqn:E; cbn; [|apply ext_refl]. apply ext_emit. Qed.

Lemma ext_push_pop s g s2 :
  ext (push_frame s g) s2 ->
  exists fr s3, pop_frame s2 = Some (fr, s3) /\ ext s s3 /\
    exists w, s_out s3 = s_out s ++ w /\ fgonly w.
Proof.
  intros [L [w [O F]]]. cbn in L, O. unfold pop_frame.
  destruct (s_fr s2) as [|fr r] eqn:E; [discriminate|].
  exists fr, (mkS r (s_out s2) (s_dec s2) (s_vis s2)). split; [reflexivity|].
  assert (Fw : fgonly w) by (apply F; cbn; discriminate).
  split; [|exists w; split; [exact O | exact Fw]].
  split; cbn; [cbn in L; congruence|]. exists w. split; [exact O|]. intros _. exact Fw.
Qed.

(* [bal s s']: the client's stream was extended by a well nested (stack-neutral) word *)
Definition bal (s s' : st) : Prop := exists w, s_out s' = s_out s ++ w /\ neutral w.

Lemma bal_refl s : bal s s.
Proof. exists []. rewrite app_nil_r. split; [reflexivity | apply neutral_nil]. Qed.

Lemma bal_trans a b c : bal a b -> bal b c -> bal a c.
Proof.
  intros [w1 [O1 N1]] [w2 [O2 N2]]. exists (w1 ++ w2).
  split; [rewrite O2, O1, app_assoc; reflexivity | apply neutral_app; assumption].
Qed.

Lemma bal_same a b s' : s_out a = s_out b -> bal a s' -> bal b s'.
Proof. unfold bal. intros ->. exact (fun x => x). Qed.
Lemma bal_same_r a b s : s_out a = s_out b -> bal s a -> bal s b.
Proof. unfold bal. intros ->. exact (fun x => x). Qed.

Lemma ext_real s s' : ext s s' -> s_fr s = [] -> s_fr s' = [].
Proof. intros [L _] E. rewrite E in L. destruct (s_fr s'); [reflexivity | discriminate]. Qed.

Lemma emit_real_fr c s : s_fr s = [] -> s_fr (emit c s) = [].
Proof. intros E. rewrite emit_real by exact E. reflexivity. Qed.

Lemma bal_emit_neutral c s :
  s_fr s = [] -> match c with Fill _ | FillGlyph _ _ _ | Cached _ => True | _ => False end -> bal s (emit c s).
Proof. intros E H. rewrite emit_real by exact E. exists [c]. split; [reflexivity | apply neutral_single, H]. Qed.

Lemma bal_wrap push pop s s2 :
  s_fr s = [] -> s_fr s2 = [] -> matching push pop -> bal (emit push s) s2 -> bal s (emit pop s2).
Proof.
  intros E E2 M [w [O Nw]]. rewrite emit_real in O by exact E. rewrite emit_real by exact E2. cbn in *.
  exists ([push] ++ w ++ [pop]). split; [rewrite O; repeat rewrite <- app_assoc; reflexivity|].
  apply neutral_wrap; assumption.
Qed.

Lemma bal_wrap_if (b : bool) push pop s s2 :
  s_fr s = [] -> s_fr s2 = [] -> matching push pop ->
  bal (if b then emit push s else s) s2 -> bal s (if b then emit pop s2 else s2).
Proof. destruct b; [apply bal_wrap | intros _ _ _ H; exact H]. Qed.

Lemma bal_with_guard s id body :
  (forall s0, s_fr s0 = s_fr s -> s_out s0 = s_out s -> fst (body s0) = ROk -> bal s0 (snd (body s0))) ->
  fst (with_guard s id body) = ROk -> bal s (snd (with_guard s id body)).
Proof.
  intros H. unfold with_guard. destruct (dec_enter (s_dec s) id) as [d'|e|]; cbn; try discriminate.
  specialize (H (set_dec s d') eq_refl eq_refl).
  destruct (body (set_dec s d')) as [r s'] eqn:E. cbn in H.
  destruct (dec_drop (s_dec s')); cbn; [|discriminate].
  intros ->. apply (bal_same_r s'); [reflexivity|]. apply (bal_same (set_dec s d')); [reflexivity|].
  apply H. reflexivity.
Qed.

Lemma bal_layers_loop step :
  (forall i s, s_fr s = [] -> s_fr (snd (step i s)) = [] /\ (fst (step i s) = ROk -> bal s (snd (step i s)))) ->
  forall n i s, s_fr s = [] -> fst (layers_loop step n i s) = ROk -> bal s (snd (layers_loop step n i s)).
Proof.
  intros H. induction n as [|n IH]; intros i s E; cbn; [intros _; apply bal_refl|].
  destruct (H i s E) as [F B]. destruct (step i s) as [r s'] eqn:Es. cbn in F, B.
  destruct r; [|cbn; discriminate]. intros R. eapply bal_trans; [apply B; reflexivity | apply IH; assumption].
Qed.

Section Trav.
  Variable I : inst.
  Variable oracle : list cb -> N -> answer.
  Notation trav := (traverse I oracle).

  Ltac destr_trav IH r s' H :=
    match goal with
    | |- context [traverse I oracle ?f ?q ?s] =>
        let E := fresh "E" in
        pose proof (IH q s) as H; destruct (traverse I oracle f q s) as [r s'] eqn:E; cbn [fst snd] in H
    end.

  Lemma traverse_ext : forall fuel p s, ext s (snd (trav fuel p s)).
  Proof.
    induction fuel as [|f IH]; intros p s.
    - cbn. apply ext_tick.
    - cbn [traverse]. eapply ext_trans; [apply ext_tick|]. generalize (tick s). clear s. intros s.
      destruct p as [start num|emit0|gid child|gid|child|src mode backdrop].
      + apply ext_layers_loop. intros i s0. destruct (layer I i) as [[ref id]|]; [|apply ext_refl].
        apply ext_with_guard. intros s1 _ _. destruct (resolve I ref) as [q|]; [apply IH | apply ext_refl].
      + destruct emit0; cbn; [apply ext_emit | apply ext_refl].
      + destruct (resolve I child) as [q|] eqn:R; [|apply ext_refl].
        destr_trav IH r1 s2 H1. destruct (ext_push_pop _ _ _ H1) as [fr [s3 [P [X _]]]]. rewrite P.
        destruct (f_ok fr); [exact X|]. cbn [snd].
        eapply ext_trans; [exact X|]. eapply ext_trans; [apply ext_emit|].
        destr_trav IH r2 s5 H2. cbn [snd]. eapply ext_trans; [exact H2 | apply ext_emit].
      + destruct (base_glyph I gid) as [| |ref id]; try apply ext_refl.
        apply ext_with_guard. intros s1 _ _.
        pose proof (ext_ask_cached oracle s1 gid) as A. destruct (ask_cached oracle s1 gid) as [a s2]. cbn [snd] in A.
        destruct a; try exact A. eapply ext_trans; [exact A|].
        eapply ext_trans; [apply (ext_if (clip_box I gid) PushClipBox)|].
        destruct (resolve I ref) as [q|]; [|apply ext_refl]. destr_trav IH r1 s3 H1. cbn [snd].
        eapply ext_trans; [exact H1 | apply ext_if].
      + eapply ext_trans; [apply ext_emit|]. destruct (resolve I child) as [q|]; [|apply ext_refl].
        destr_trav IH r1 s3 H1. cbn [snd]. eapply ext_trans; [exact H1 | apply ext_emit].
      + eapply ext_trans; [apply ext_emit|]. destruct (resolve I backdrop) as [qb|]; [|apply ext_refl].
        destr_trav IH r1 s3 H1. destruct r1; [|exact H1]. eapply ext_trans; [exact H1|].
        eapply ext_trans; [apply ext_emit|]. destruct (resolve I src) as [qs|]; [|apply ext_refl].
        destr_trav IH r2 s4 H2. cbn [snd]. eapply ext_trans; [exact H2|].
        eapply ext_trans; apply ext_emit.
  Qed.

  Ltac destr_trav2 IH IHb r s' X B :=
    match goal with
    | |- context [traverse I oracle ?f ?q ?s] =>
        let E := fresh "E" in
        pose proof (IH q s) as X; pose proof (IHb q s) as B;
        destruct (traverse I oracle f q s) as [r s'] eqn:E; cbn [fst snd] in X, B
    end.

  (* the heart of the property: with the client's painter on top, success means the client
     received a well nested word *)
  Lemma traverse_bal : forall fuel p s,
    s_fr s = [] -> fst (trav fuel p s) = ROk -> bal s (snd (trav fuel p s)).
  Proof.
    induction fuel as [|f IHb]; intros p s E.
    - cbn. discriminate.
    - pose proof (traverse_ext f) as IH.
      cbn [traverse]. intros R0. apply (bal_same (tick s)); [reflexivity|]. revert R0.
      assert (E' : s_fr (tick s) = []) by exact E. clear E. revert E'. generalize (tick s). clear s. intros s E.
      destruct p as [start num|emit0|gid child|gid|child|src mode backdrop].
      + apply bal_layers_loop; [|exact E]. intros i s0 E0.
        split.
        { eapply ext_real; [|exact E0]. destruct (layer I i) as [[ref id]|]; [|apply ext_refl].
          apply ext_with_guard. intros s1 _ _. destruct (resolve I ref) as [q|]; [apply IH | apply ext_refl]. }
        destruct (layer I i) as [[ref id]|]; [|cbn; discriminate].
        apply bal_with_guard. intros s1 F1 _. destruct (resolve I ref) as [q|]; [|cbn; discriminate].
        apply IHb. congruence.
      + destruct emit0; cbn; intros _; [apply bal_emit_neutral; [exact E | exact Logic.I] | apply bal_refl].
      + destruct (resolve I child) as [q|] eqn:R; [|cbn; discriminate].
        destr_trav2 IH IHb r1 s2 X1 B1. destruct (ext_push_pop _ _ _ X1) as [fr [s3 [P [X [w [O Fw]]]]]]. rewrite P.
        assert (E3 : s_fr s3 = []) by (eapply ext_real; eassumption).
        assert (B3 : bal s s3) by (exists w; split; [exact O | apply fgonly_neutral, Fw]).
        destruct (f_ok fr); [intros _; exact B3|].
        destr_trav2 IH IHb r2 s5 X2 B2. cbn [fst snd]. intros ->.
        eapply bal_trans; [exact B3|].
        assert (E4 : s_fr (emit (PushClipGlyph gid) s3) = []) by (apply emit_real_fr, E3).
        apply (bal_wrap (PushClipGlyph gid) PopClip); [exact E3 | eapply ext_real; eassumption | exact Logic.I|].
        apply B2; [exact E4 | reflexivity].
      + destruct (base_glyph I gid) as [| |ref id]; try (cbn; discriminate).
        apply bal_with_guard. intros s1 F1 _. assert (E1 : s_fr s1 = []) by congruence.
        unfold ask_cached. rewrite E1.
        assert (Bc : bal s1 (emit (Cached gid) s1)) by (apply bal_emit_neutral; [exact E1 | exact Logic.I]).
        assert (Ec : s_fr (emit (Cached gid) s1) = []) by (apply emit_real_fr, E1).
        generalize dependent (emit (Cached gid) s1). intros s2 Bc Ec.
        destruct (oracle (s_out s1) gid); [intros _; exact Bc | | cbn; discriminate].
        cbv zeta. intros R0. apply (bal_trans _ _ _ Bc). revert R0.
        destruct (resolve I ref) as [q|]; [|cbn; discriminate].
        assert (Eb : s_fr (if clip_box I gid then emit PushClipBox s2 else s2) = [])
          by (destruct (clip_box I gid); [apply emit_real_fr, Ec | exact Ec]).
        destr_trav2 IH IHb r1 s3 X1 B1. cbn [fst snd]. intros ->.
        apply (bal_wrap_if (clip_box I gid) PushClipBox PopClip); [exact Ec | eapply ext_real; eassumption | exact Logic.I|].
        apply B1; [exact Eb | reflexivity].
      + assert (E1 : s_fr (emit PushT s) = []) by (apply emit_real_fr, E).
        destruct (resolve I child) as [q|]; [|cbn; discriminate].
        destr_trav2 IH IHb r1 s3 X1 B1. cbn [fst snd]. intros ->.
        apply (bal_wrap PushT PopT); [exact E | eapply ext_real; eassumption | exact Logic.I|].
        apply B1; [exact E1 | reflexivity].
      + assert (E1 : s_fr (emit (PushLayer 3) s) = []) by (apply emit_real_fr, E).
        destruct (resolve I backdrop) as [qb|]; [|cbn; discriminate].
        destr_trav2 IH IHb r1 s3 X1 B1. destruct r1; [|cbn; discriminate].
        assert (E3 : s_fr s3 = []) by (eapply ext_real; eassumption).
        assert (E4 : s_fr (emit (PushLayer mode) s3) = []) by (apply emit_real_fr, E3).
        destruct (resolve I src) as [qs|]; [|cbn; discriminate].
        destr_trav2 IH IHb r2 s5 X2 B2. cbn [fst snd]. intros ->.
        assert (E5 : s_fr s5 = []) by (eapply ext_real; eassumption).
        apply (bal_wrap (PushLayer 3) (PopLayer 3)); [exact E | apply emit_real_fr, E5 | reflexivity|].
        eapply bal_trans; [apply B1; [exact E1 | reflexivity]|].
        apply (bal_wrap (PushLayer mode) (PopLayer mode)); [exact E3 | exact E5 | reflexivity|].
        apply B2; [exact E4 | reflexivity].
  Qed.
End Trav.
