(* C13 — lemmas about the traversal model (coq/C13/Model.v). *)
From Coq Require Import ZArith NArith List Bool Arith Lia.
From FV Require Import C13.Model.
Import ListNotations.

(* ------------------------------------------------------------------ nesting words *)

Definition neutral (w : list cb) : Prop := forall stk, run w stk = Some stk.
Definition is_fg (c : cb) : Prop := match c with FillGlyph _ _ _ => True | _ => False end.
Definition fgonly (w : list cb) : Prop := Forall is_fg w.

Lemma run_app a b stk :
  run (a ++ b) stk = match run a stk with Some s' => run b s' | None => None end.
Proof.
  revert stk. induction a as [|c a IH]; intros stk; cbn; [reflexivity|].
  destruct (step_cb c stk); [apply IH | reflexivity].
Qed.

Lemma step_cb_mono c s0 t s : step_cb c s0 = Some t -> step_cb c (s0 ++ s) = Some (t ++ s).
Proof.
  destruct c; cbn; intros H; try (inversion H; subst; reflexivity).
  - destruct s0 as [|[| |m] r]; try discriminate. inversion H; subst. reflexivity.
  - destruct s0 as [|[| |m] r]; try discriminate. inversion H; subst. reflexivity.
  - destruct s0 as [|[| |m'] r]; try discriminate. cbn. destruct (N.eqb m m'); [|discriminate].
    inversion H; subst. reflexivity.
Qed.

Lemma run_mono w : forall s0 t s, run w s0 = Some t -> run w (s0 ++ s) = Some (t ++ s).
Proof.
  induction w as [|c w IH]; intros s0 t s H; cbn in *.
  - inversion H; subst. reflexivity.
  - destruct (step_cb c s0) as [s1|] eqn:E; [|discriminate].
    rewrite (step_cb_mono _ _ _ s E). apply IH. exact H.
Qed.

Lemma well_nested_neutral w : well_nested w <-> neutral w.
Proof.
  split.
  - intros H stk. apply (run_mono w [] [] stk) in H. exact H.
  - intros H. apply H.
Qed.

Lemma neutral_nil : neutral [].
Proof. intros s. reflexivity. Qed.

Lemma neutral_app a b : neutral a -> neutral b -> neutral (a ++ b).
Proof. intros Ha Hb s. rewrite run_app, Ha. apply Hb. Qed.

Lemma fgonly_neutral w : fgonly w -> neutral w.
Proof.
  induction 1 as [|c w Hc _ IH]; [apply neutral_nil|].
  intros s. destruct c; try contradiction. cbn. apply IH.
Qed.

Lemma fgonly_app a b : fgonly a -> fgonly b -> fgonly (a ++ b).
Proof. apply Forall_app_2 || (intros; apply Forall_app; split; assumption). Qed.

Definition matching (push pop : cb) : Prop :=
  match push, pop with
  | PushT, PopT => True
  | PushClipGlyph _, PopClip => True
  | PushClipBox, PopClip => True
  | PushLayer m, PopLayer m' => m = m'
  | _, _ => False
  end.

Lemma neutral_wrap push pop w : matching push pop -> neutral w -> neutral ([push] ++ w ++ [pop]).
Proof.
  intros M H s.
  destruct push, pop; try contradiction; cbn [app run step_cb]; rewrite run_app, H; cbn; try reflexivity.
  cbn in M. subst. rewrite N.eqb_refl. reflexivity.
Qed.

Lemma neutral_single c : match c with Fill _ | FillGlyph _ _ _ | Cached _ => True | _ => False end -> neutral [c].
Proof. intros H s. destruct c; try contradiction; reflexivity. Qed.

(* closing the open scopes of a prefix gives a well nested word *)
Lemma run_closers stk : run (map closer stk) stk = Some [].
Proof.
  induction stk as [|x stk IH]; [reflexivity|].
  destruct x; cbn; try exact IH. rewrite N.eqb_refl. exact IH.
Qed.

Lemma prefix_completes w stk : nested_prefix w stk -> well_nested (w ++ map closer stk).
Proof. unfold nested_prefix, well_nested. intros H. rewrite run_app, H. apply run_closers. Qed.

(* the trait's default fill_glyph keeps a stream well nested *)
Lemma expand_cb_run c stk : run (expand_cb c) stk = step_cb c stk.
Proof.
  destruct c; cbn; try (destruct (step_cb _ _); reflexivity); try reflexivity.
  - destruct stk as [|[]]; reflexivity.
  - destruct stk as [|[]]; reflexivity.
  - destruct xf; reflexivity.
  - destruct stk as [|[| |m']]; try reflexivity. destruct (N.eqb m m'); reflexivity.
Qed.

Lemma expand_run w : forall stk, run (expand w) stk = run w stk.
Proof.
  induction w as [|c w IH]; intros stk; [reflexivity|].
  unfold expand in *. cbn [flat_map]. rewrite run_app, expand_cb_run. cbn [run].
  destruct (step_cb c stk); [apply IH | reflexivity].
Qed.

(* ------------------------------------------------------------------ painters *)

(* [ext s s']: the frame stack keeps its height, the client's stream is extended, and when a
   collector is on top the client only receives fill_glyph calls *)
Definition ext (s s' : st) : Prop :=
  length (s_fr s') = length (s_fr s) /\
  exists w, s_out s' = s_out s ++ w /\ (s_fr s <> [] -> fgonly w).

Lemma ext_refl s : ext s s.
Proof. split; [reflexivity|]. exists []. rewrite app_nil_r. split; [reflexivity|]. intros _. constructor. Qed.

Lemma ext_trans a b c : ext a b -> ext b c -> ext a c.
Proof.
  intros [L1 [w1 [O1 F1]]] [L2 [w2 [O2 F2]]]. split; [congruence|].
  exists (w1 ++ w2). split; [rewrite O2, O1, app_assoc; reflexivity|].
  intros H. apply fgonly_app; [apply F1, H|].
  apply F2. intros E. apply H. destruct (s_fr a); [reflexivity|]. rewrite E in L1. discriminate.
Qed.

Lemma ext_same a b s' : s_fr a = s_fr b -> s_out a = s_out b -> ext a s' -> ext b s'.
Proof. unfold ext. intros -> ->. exact (fun x => x). Qed.

Lemma ext_same_r a b s : s_fr a = s_fr b -> s_out a = s_out b -> ext s a -> ext s b.
Proof. unfold ext. intros -> ->. exact (fun x => x). Qed.

Lemma emit_real c s : s_fr s = [] -> emit c s = mkS [] (s_out s ++ [c]) (s_dec s) (s_vis s).
Proof. unfold emit. intros ->. reflexivity. Qed.

Lemma coll_cb_ext c f r out :
  exists fr' w, coll_cb c f r out = (fr', out ++ w) /\ length fr' = S (length r) /\ fgonly w.
Proof.
  assert (N0 : forall fr' : list frame, length fr' = S (length r) ->
            exists fr'' w, (fr', out) = (fr'', out ++ w) /\ length fr'' = S (length r) /\ fgonly w).
  { intros fr' L. exists fr', []. rewrite app_nil_r. repeat split; [exact L | constructor]. }
  destruct c; cbn; try (apply N0; reflexivity).
  - destruct (f_ok f); apply N0; reflexivity.
  - destruct (f_ok f); [|apply N0; reflexivity].
    destruct r as [|p r']; cbn.
    + exists [f], [FillGlyph (f_gid f) (f_xf f) k]. repeat split. constructor; [exact I | constructor].
    + apply N0. reflexivity.
Qed.

Lemma ext_emit c s : ext s (emit c s).
Proof.
  unfold emit. destruct (s_fr s) as [|f r] eqn:E.
  - split; cbn; [rewrite E; reflexivity|]. exists [c]. split; [reflexivity|]. rewrite E. intros H; contradiction.
  - destruct (coll_cb_ext c f r (s_out s)) as [fr' [w [H [L F]]]]. rewrite H. split; cbn.
    + rewrite E. exact L.
    + exists w. split; [reflexivity|]. intros _. exact F.
Qed.

Lemma ext_tick s : ext s (tick s).
Proof. apply (ext_same_r s); try reflexivity. apply ext_refl. Qed.

Lemma ext_if (b : bool) c s : ext s (if b then emit c s else s).
Proof. destruct b; [apply ext_emit | apply ext_refl]. Qed.

Lemma ext_with_guard s id body :
  (forall s0, s_fr s0 = s_fr s -> s_out s0 = s_out s -> ext s0 (snd (body s0))) ->
  ext s (snd (with_guard s id body)).
Proof.
  intros H. unfold with_guard. destruct (dec_enter (s_dec s) id) as [d'|e|]; cbn; try apply ext_refl.
  specialize (H (set_dec s d') eq_refl eq_refl).
  destruct (body (set_dec s d')) as [r s'] eqn:E. cbn in H.
  destruct (dec_drop (s_dec s')); cbn.
  - apply (ext_same_r s'); try reflexivity. apply (ext_same (set_dec s d')); try reflexivity. exact H.
  - apply (ext_same (set_dec s d')); try reflexivity. exact H.
Qed.

Lemma ext_layers_loop step :
  (forall i s, ext s (snd (step i s))) -> forall n i s, ext s (snd (layers_loop step n i s)).
Proof.
  intros H. induction n as [|n IH]; intros i s; cbn; [apply ext_refl|].
  specialize (H i s). destruct (step i s) as [r s'] eqn:E. cbn in H.
  destruct r; [|exact H]. eapply ext_trans; [exact H | apply IH].
Qed.

Lemma ext_ask_cached oracle s g : ext s (snd (ask_cached oracle s g)).
Proof. unfold ask_cached. destruct (s_fr s) eqn:E; cbn; [|apply ext_refl]. apply ext_emit. Qed.

Lemma ext_push_pop s g s2 :
  ext (push_frame s g) s2 ->
  exists fr s3, pop_frame s2 = Some (fr, s3) /\ ext s s3 /\
    exists w, s_out s3 = s_out s ++ w /\ fgonly w.
Proof.
  intros [L [w [O F]]]. cbn in L, O. unfold pop_frame.
  destruct (s_fr s2) as [|fr r] eqn:E; [discriminate|].
  exists fr, (mkS r (s_out s2) (s_dec s2) (s_vis s2)). split; [reflexivity|].
  assert (Fw : fgonly w) by (apply F; cbn; discriminate).
  split; [|exists w; split; [exact O | exact Fw]].
  split; cbn; [cbn in L; congruence|]. exists w. split; [exact O|]. intros _. exact Fw.
Qed.

(* [bal s s']: the client's stream was extended by a well nested (stack-neutral) word *)
Definition bal (s s' : st) : Prop := exists w, s_out s' = s_out s ++ w /\ neutral w.

Lemma bal_refl s : bal s s.
Proof. exists []. rewrite app_nil_r. split; [reflexivity | apply neutral_nil]. Qed.

Lemma bal_trans a b c : bal a b -> bal b c -> bal a c.
Proof.
  intros [w1 [O1 N1]] [w2 [O2 N2]]. exists (w1 ++ w2).
  split; [rewrite O2, O1, app_assoc; reflexivity | apply neutral_app; assumption].
Qed.

Lemma bal_same a b s' : s_out a = s_out b -> bal a s' -> bal b s'.
Proof. unfold bal. intros ->. exact (fun x => x). Qed.
Lemma bal_same_r a b s : s_out a = s_out b -> bal s a -> bal s b.
Proof. unfold bal. intros ->. exact (fun x => x). Qed.

Lemma ext_real s s' : ext s s' -> s_fr s = [] -> s_fr s' = [].
Proof. intros [L _] E. rewrite E in L. destruct (s_fr s'); [reflexivity | discriminate]. Qed.

Lemma emit_real_fr c s : s_fr s = [] -> s_fr (emit c s) = [].
Proof. intros E. rewrite emit_real by exact E. reflexivity. Qed.

Lemma bal_emit_neutral c s :
  s_fr s = [] -> match c with Fill _ | FillGlyph _ _ _ | Cached _ => True | _ => False end -> bal s (emit c s).
Proof. intros E H. rewrite emit_real by exact E. exists [c]. split; [reflexivity | apply neutral_single, H]. Qed.

Lemma bal_wrap push pop s s2 :
  s_fr s = [] -> s_fr s2 = [] -> matching push pop -> bal (emit push s) s2 -> bal s (emit pop s2).
Proof.
  intros E E2 M [w [O Nw]]. rewrite emit_real in O by exact E. rewrite emit_real by exact E2. cbn in *.
  exists ([push] ++ w ++ [pop]). split; [rewrite O; repeat rewrite <- app_assoc; reflexivity|].
  apply neutral_wrap; assumption.
Qed.

Lemma bal_wrap_if (b : bool) push pop s s2 :
  s_fr s = [] -> s_fr s2 = [] -> matching push pop ->
  bal (if b then emit push s else s) s2 -> bal s (if b then emit pop s2 else s2).
Proof. destruct b; [apply bal_wrap | intros _ _ _ H; exact H]. Qed.

Lemma bal_with_guard s id body :
  (forall s0, s_fr s0 = s_fr s -> s_out s0 = s_out s -> fst (body s0) = ROk -> bal s0 (snd (body s0))) ->
  fst (with_guard s id body) = ROk -> bal s (snd (with_guard s id body)).
Proof.
  intros H. unfold with_guard. destruct (dec_enter (s_dec s) id) as [d'|e|]; cbn; try discriminate.
  specialize (H (set_dec s d') eq_refl eq_refl).
  destruct (body (set_dec s d')) as [r s'] eqn:E. cbn in H.
  destruct (dec_drop (s_dec s')); cbn; [|discriminate].
  intros ->. apply (bal_same_r s'); [reflexivity|]. apply (bal_same (set_dec s d')); [reflexivity|].
  apply H. reflexivity.
Qed.

Lemma bal_layers_loop step :
  (forall i s, s_fr s = [] -> s_fr (snd (step i s)) = [] /\ (fst (step i s) = ROk -> bal s (snd (step i s)))) ->
  forall n i s, s_fr s = [] -> fst (layers_loop step n i s) = ROk -> bal s (snd (layers_loop step n i s)).
Proof.
  intros H. induction n as [|n IH]; intros i s E; cbn; [intros _; apply bal_refl|].
  destruct (H i s E) as [F B]. destruct (step i s) as [r s'] eqn:Es. cbn in F, B.
  destruct r; [|cbn; discriminate]. intros R. eapply bal_trans; [apply B; reflexivity | apply IH; assumption].
Qed.

(* ------------------------------------------------------------------ decycler *)
Ltac Zify.zify_post_hook ::= Z.div_mod_to_equations.

Definition wf_dec (d : dec) : Prop := length (fst d) = DMAX /\ snd d <= DMAX.

Lemma set_nth_some l : forall i v, i < length l -> exists l', set_nth l i v = Some l' /\ length l' = length l.
Proof.
  induction l as [|x l IH]; intros i v H; cbn in *; [lia|].
  destruct i as [|i]; [exists (v :: l); split; reflexivity|].
  destruct (IH i v ltac:(lia)) as [l' [E L]]. rewrite E. exists (x :: l'). cbn. split; [reflexivity | lia].
Qed.

Lemma dec_enter_spec d id : wf_dec d ->
  match dec_enter d id with
  | DPanic => False
  | DErr e => e = ECycle \/ e = EDepth
  | DOk d' => wf_dec d' /\ snd d' = S (snd d) /\ snd d < DMAX
  end.
Proof.
  destruct d as [ids depth]. unfold wf_dec, dec_enter, DMAX. cbn [fst snd]. intros [L D].
  destruct (depth <? 64) eqn:Lt; [|right; reflexivity]. apply Nat.ltb_lt in Lt.
  assert (Hset : match set_nth ids depth id with
                 | Some ids' => length ids' = 64 /\ S depth <= 64 /\ S depth = S depth /\ depth < 64
                 | None => False end).
  { destruct (set_nth_some ids depth id ltac:(lia)) as [l' [E L']]. rewrite E. lia. }
  destruct (depth =? 0) eqn:Z.
  - destruct (set_nth ids depth id); [|exact Hset]. cbn. destruct Hset as (?&?&?&?). repeat split; assumption.
  - destruct (nth_error ids (Nat.div2 depth)) as [x|] eqn:Nx.
    + destruct (N.eqb x id); cbn; [left; reflexivity|].
      destruct (set_nth ids depth id); [|exact Hset]. cbn. destruct Hset as (?&?&?&?). repeat split; assumption.
    + apply nth_error_None in Nx. pose proof (Nat.div2_decr depth 63 ltac:(lia)). lia.
Qed.

(* a repeated id at the tortoise position is reported as a cycle, never entered *)
Lemma dec_enter_detects ids depth id :
  0 < depth -> depth < DMAX -> nth_error ids (Nat.div2 depth) = Some id ->
  dec_enter (ids, depth) id = DErr ECycle.
Proof.
  intros P L H. unfold dec_enter. apply Nat.ltb_lt in L. rewrite L.
  destruct (depth =? 0) eqn:Z; [apply Nat.eqb_eq in Z; lia|]. rewrite H, N.eqb_refl. reflexivity.
Qed.

Definition dpres (s s' : st) : Prop := wf_dec (s_dec s') /\ snd (s_dec s') = snd (s_dec s).
Definition nopanic (r : res) : Prop := r <> RErr EPanic.

Lemma dpres_refl s : wf_dec (s_dec s) -> dpres s s.
Proof. intros H. split; [exact H | reflexivity]. Qed.
Lemma dpres_trans a b c : dpres a b -> dpres b c -> dpres a c.
Proof. intros [W1 D1] [W2 D2]. split; [exact W2 | congruence]. Qed.
Lemma dpres_same a b s' : s_dec a = s_dec b -> dpres a s' -> dpres b s'.
Proof. unfold dpres. intros ->. exact (fun x => x). Qed.
Lemma dpres_same_r a b s : s_dec a = s_dec b -> dpres s a -> dpres s b.
Proof. unfold dpres. intros ->. exact (fun x => x). Qed.

Lemma dec_emit c s : s_dec (emit c s) = s_dec s.
Proof. unfold emit. destruct (s_fr s); [reflexivity|]. destruct (coll_cb c f l (s_out s)). reflexivity. Qed.
Lemma vis_emit c s : s_vis (emit c s) = s_vis s.
Proof. unfold emit. destruct (s_fr s); [reflexivity|]. destruct (coll_cb c f l (s_out s)). reflexivity. Qed.

Lemma dpres_emit c s : wf_dec (s_dec s) -> dpres s (emit c s).
Proof. intros H. apply (dpres_same_r s); [symmetry; apply dec_emit | apply dpres_refl, H]. Qed.
Lemma dpres_if (b : bool) c s : wf_dec (s_dec s) -> dpres s (if b then emit c s else s).
Proof. destruct b; [apply dpres_emit | apply dpres_refl]. Qed.

Lemma safe_with_guard s id body :
  wf_dec (s_dec s) ->
  (forall s0, wf_dec (s_dec s0) -> dpres s0 (snd (body s0)) /\ nopanic (fst (body s0))) ->
  dpres s (snd (with_guard s id body)) /\ nopanic (fst (with_guard s id body)).
Proof.
  intros W H. unfold with_guard. pose proof (dec_enter_spec (s_dec s) id W) as S.
  destruct (dec_enter (s_dec s) id) as [d'|e|]; cbn; [| |contradiction].
  - destruct S as [W' [D' _]]. destruct (H (set_dec s d') W') as [[W2 D2] NP].
    destruct (body (set_dec s d')) as [r s'] eqn:E. cbn in *.
    destruct (s_dec s') as [ids depth] eqn:Ed. cbn in D2. rewrite D' in D2. subst depth. cbn.
    split; [|exact NP]. split; cbn; [|reflexivity].
    destruct W2 as [L B]. cbn in *. split; cbn; [exact L | lia].
  - split; [apply dpres_refl, W|]. destruct S as [-> | ->]; discriminate.
Qed.

Lemma safe_layers_loop step :
  (forall i s, wf_dec (s_dec s) -> dpres s (snd (step i s)) /\ nopanic (fst (step i s))) ->
  forall n i s, wf_dec (s_dec s) ->
    dpres s (snd (layers_loop step n i s)) /\ nopanic (fst (layers_loop step n i s)).
Proof.
  intros H. induction n as [|n IH]; intros i s W; cbn; [split; [apply dpres_refl, W | discriminate]|].
  destruct (H i s W) as [D NP]. destruct (step i s) as [r s'] eqn:E. cbn in D, NP.
  destruct r; [|split; assumption].
  destruct (IH (N.succ i) s' (proj1 D)) as [D2 NP2]. split; [eapply dpres_trans; eassumption | exact NP2].
Qed.

(* ------------------------------------------------------------------ visit counting *)
Lemma vbound_pos B f : 1 <= vbound B f.
Proof. destruct f; cbn; lia. Qed.

Lemma vis_layers_loop step V :
  (forall i s, s_vis (snd (step i s)) <= s_vis s + V) ->
  forall n i s, s_vis (snd (layers_loop step n i s)) <= s_vis s + n * V.
Proof.
  intros H. induction n as [|n IH]; intros i s; cbn; [lia|].
  specialize (H i s). destruct (step i s) as [r s'] eqn:E. cbn in H.
  destruct r; cbn; [|lia]. specialize (IH (N.succ i) s'). lia.
Qed.

Lemma vis_with_guard s id body V :
  (forall s0, s_vis s0 = s_vis s -> s_vis (snd (body s0)) <= s_vis s0 + V) ->
  s_vis (snd (with_guard s id body)) <= s_vis s + V.
Proof.
  intros H. unfold with_guard. destruct (dec_enter (s_dec s) id) as [d'|e|]; cbn; try lia.
  specialize (H (set_dec s d') eq_refl). destruct (body (set_dec s d')) as [r s'] eqn:E. cbn in H.
  destruct (dec_drop (s_dec s')); cbn; exact H.
Qed.

(* ------------------------------------------------------------------ success reaches every child *)
Lemma loop_ok_all step : forall n st s, fst (layers_loop step n st s) = ROk ->
  forall i, (st <= i)%N -> (i < st + N.of_nat n)%N -> exists s', fst (step i s') = ROk.
Proof.
  induction n as [|n IH]; intros st s H i L U; [lia|].
  cbn [layers_loop] in H. destruct (step st s) as [r s'] eqn:E. destruct r; [|cbn in H; discriminate].
  destruct (N.eq_dec i st) as [->|Ne].
  - exists s. rewrite E. reflexivity.
  - apply (IH (N.succ st) s' H i); lia.
Qed.

Lemma with_guard_ok s id body : fst (with_guard s id body) = ROk -> exists s0, fst (body s0) = ROk.
Proof.
  unfold with_guard. destruct (dec_enter (s_dec s) id) as [d'|e|]; cbn; try discriminate.
  destruct (body (set_dec s d')) as [r s'] eqn:E. destruct (dec_drop (s_dec s')); cbn; [|discriminate].
  intros ->. exists (set_dec s d'). rewrite E. reflexivity.
Qed.

Definition okclass (r : res) : Prop := r = ROk \/ r = RErr ECycle \/ r = RErr EDepth \/ r = RErr EPanic.

Lemma dec_enter_errs d id e : dec_enter d id = DErr e -> e = ECycle \/ e = EDepth.
Proof.
  destruct d as [ids depth]. unfold dec_enter. destruct (depth <? DMAX); [|intros H; inversion H; auto].
  destruct (depth =? 0).
  - destruct (set_nth ids depth id); discriminate.
  - destruct (nth_error ids (Nat.div2 depth)) as [x|]; [|discriminate].
    destruct (negb (N.eqb x id)); [destruct (set_nth ids depth id); discriminate|]. intros H; inversion H; auto.
Qed.

Lemma okclass_with_guard s id body :
  (forall s0, okclass (fst (body s0))) -> okclass (fst (with_guard s id body)).
Proof.
  intros H. unfold with_guard. destruct (dec_enter (s_dec s) id) as [d'|e|] eqn:E; cbn.
  - specialize (H (set_dec s d')). destruct (body (set_dec s d')) as [r s']. cbn in H.
    destruct (dec_drop (s_dec s')); cbn; [exact H|]. unfold okclass. auto.
  - apply dec_enter_errs in E. unfold okclass. destruct E as [-> | ->]; auto.
  - unfold okclass. auto.
Qed.

Lemma okclass_layers_loop step : forall n st s,
  (forall i s', (st <= i)%N -> (i < st + N.of_nat n)%N -> okclass (fst (step i s'))) ->
  okclass (fst (layers_loop step n st s)).
Proof.
  induction n as [|n IH]; intros st s H; cbn [layers_loop]; [left; reflexivity|].
  pose proof (H st s ltac:(lia) ltac:(lia)) as H0. destruct (step st s) as [r s'] eqn:E. cbn in H0.
  destruct r; [|exact H0]. apply IH. intros i s0 L U. apply H; lia.
Qed.

Section Trav.
  Variable I : inst.
  Variable oracle : list cb -> N -> answer.
  Notation trav := (traverse I oracle).

  Ltac destr_trav IH r s' H :=
    match goal with
    | |- context [traverse I oracle ?f ?q ?s] =>
        let E := fresh "E" in
        pose proof (IH q s) as H; destruct (traverse I oracle f q s) as [r s'] eqn:E; cbn [fst snd] in H
    end.

  Lemma traverse_ext : forall fuel p s, ext s (snd (trav fuel p s)).
  Proof.
    induction fuel as [|f IH]; intros p s.
    - cbn. apply ext_tick.
    - cbn [traverse]. eapply ext_trans; [apply ext_tick|]. generalize (tick s). clear s. intros s.
      destruct p as [start num|emit0|gid child|gid|child|src mode backdrop].
      + apply ext_layers_loop. intros i s0. destruct (layer I i) as [[ref id]|]; [|apply ext_refl].
        apply ext_with_guard. intros s1 _ _. destruct (resolve I ref) as [q|]; [apply IH | apply ext_refl].
      + destruct emit0; cbn; [apply ext_emit | apply ext_refl].
      + destruct (resolve I child) as [q|] eqn:R; [|apply ext_refl].
        destr_trav IH r1 s2 H1. destruct (ext_push_pop _ _ _ H1) as [fr [s3 [P [X _]]]]. rewrite P.
        destruct (f_ok fr); [exact X|]. cbn [snd].
        eapply ext_trans; [exact X|]. eapply ext_trans; [apply ext_emit|].
        destr_trav IH r2 s5 H2. cbn [snd]. eapply ext_trans; [exact H2 | apply ext_emit].
      + destruct (base_glyph I gid) as [| |ref id]; try apply ext_refl.
        apply ext_with_guard. intros s1 _ _.
        pose proof (ext_ask_cached oracle s1 gid) as A. destruct (ask_cached oracle s1 gid) as [a s2]. cbn [snd] in A.
        destruct a; try exact A. eapply ext_trans; [exact A|].
        eapply ext_trans; [apply (ext_if (clip_box I gid) PushClipBox)|].
        destruct (resolve I ref) as [q|]; [|apply ext_refl]. destr_trav IH r1 s3 H1. cbn [snd].
        eapply ext_trans; [exact H1 | apply ext_if].
      + eapply ext_trans; [apply ext_emit|]. destruct (resolve I child) as [q|]; [|apply ext_refl].
        destr_trav IH r1 s3 H1. cbn [snd]. eapply ext_trans; [exact H1 | apply ext_emit].
      + eapply ext_trans; [apply ext_emit|]. destruct (resolve I backdrop) as [qb|]; [|apply ext_refl].
        destr_trav IH r1 s3 H1. destruct r1; [|exact H1]. eapply ext_trans; [exact H1|].
        eapply ext_trans; [apply ext_emit|]. destruct (resolve I src) as [qs|]; [|apply ext_refl].
        destr_trav IH r2 s4 H2. cbn [snd]. eapply ext_trans; [exact H2|].
        eapply ext_trans; apply ext_emit.
  Qed.

  Ltac destr_trav2 IH IHb r s' X B :=
    match goal with
    | |- context [traverse I oracle ?f ?q ?s] =>
        let E := fresh "E" in
        pose proof (IH q s) as X; pose proof (IHb q s) as B;
        destruct (traverse I oracle f q s) as [r s'] eqn:E; cbn [fst snd] in X, B
    end.

  (* the heart of the property: with the client's painter on top, success means the client
     received a well nested word *)
  Lemma traverse_bal : forall fuel p s,
    s_fr s = [] -> fst (trav fuel p s) = ROk -> bal s (snd (trav fuel p s)).
  Proof.
    induction fuel as [|f IHb]; intros p s E.
    - cbn. discriminate.
    - pose proof (traverse_ext f) as IH.
      cbn [traverse]. intros R0. apply (bal_same (tick s)); [reflexivity|]. revert R0.
      assert (E' : s_fr (tick s) = []) by exact E. clear E. revert E'. generalize (tick s). clear s. intros s E.
      destruct p as [start num|emit0|gid child|gid|child|src mode backdrop].
      + apply bal_layers_loop; [|exact E]. intros i s0 E0.
        split.
        { eapply ext_real; [|exact E0]. destruct (layer I i) as [[ref id]|]; [|apply ext_refl].
          apply ext_with_guard. intros s1 _ _. destruct (resolve I ref) as [q|]; [apply IH | apply ext_refl]. }
        destruct (layer I i) as [[ref id]|]; [|cbn; discriminate].
        apply bal_with_guard. intros s1 F1 _. destruct (resolve I ref) as [q|]; [|cbn; discriminate].
        apply IHb. congruence.
      + destruct emit0; cbn; intros _; [apply bal_emit_neutral; [exact E | exact Logic.I] | apply bal_refl].
      + destruct (resolve I child) as [q|] eqn:R; [|cbn; discriminate].
        destr_trav2 IH IHb r1 s2 X1 B1. destruct (ext_push_pop _ _ _ X1) as [fr [s3 [P [X [w [O Fw]]]]]]. rewrite P.
        assert (E3 : s_fr s3 = []) by (eapply ext_real; eassumption).
        assert (B3 : bal s s3) by (exists w; split; [exact O | apply fgonly_neutral, Fw]).
        destruct (f_ok fr); [intros _; exact B3|].
        destr_trav2 IH IHb r2 s5 X2 B2. cbn [fst snd]. intros ->.
        eapply bal_trans; [exact B3|].
        assert (E4 : s_fr (emit (PushClipGlyph gid) s3) = []) by (apply emit_real_fr, E3).
        apply (bal_wrap (PushClipGlyph gid) PopClip); [exact E3 | eapply ext_real; eassumption | exact Logic.I|].
        apply B2; [exact E4 | reflexivity].
      + destruct (base_glyph I gid) as [| |ref id]; try (cbn; discriminate).
        apply bal_with_guard. intros s1 F1 _. assert (E1 : s_fr s1 = []) by congruence.
        unfold ask_cached. rewrite E1.
        assert (Bc : bal s1 (emit (Cached gid) s1)) by (apply bal_emit_neutral; [exact E1 | exact Logic.I]).
        assert (Ec : s_fr (emit (Cached gid) s1) = []) by (apply emit_real_fr, E1).
        generalize dependent (emit (Cached gid) s1). intros s2 Bc Ec.
        destruct (oracle (s_out s1) gid); [intros _; exact Bc | | cbn; discriminate].
        cbv zeta. intros R0. apply (bal_trans _ _ _ Bc). revert R0.
        destruct (resolve I ref) as [q|]; [|cbn; discriminate].
        assert (Eb : s_fr (if clip_box I gid then emit PushClipBox s2 else s2) = [])
          by (destruct (clip_box I gid); [apply emit_real_fr, Ec | exact Ec]).
        destr_trav2 IH IHb r1 s3 X1 B1. cbn [fst snd]. intros ->.
        apply (bal_wrap_if (clip_box I gid) PushClipBox PopClip); [exact Ec | eapply ext_real; eassumption | exact Logic.I|].
        apply B1; [exact Eb | reflexivity].
      + assert (E1 : s_fr (emit PushT s) = []) by (apply emit_real_fr, E).
        destruct (resolve I child) as [q|]; [|cbn; discriminate].
        destr_trav2 IH IHb r1 s3 X1 B1. cbn [fst snd]. intros ->.
        apply (bal_wrap PushT PopT); [exact E | eapply ext_real; eassumption | exact Logic.I|].
        apply B1; [exact E1 | reflexivity].
      + assert (E1 : s_fr (emit (PushLayer 3) s) = []) by (apply emit_real_fr, E).
        destruct (resolve I backdrop) as [qb|]; [|cbn; discriminate].
        destr_trav2 IH IHb r1 s3 X1 B1. destruct r1; [|cbn; discriminate].
        assert (E3 : s_fr s3 = []) by (eapply ext_real; eassumption).
        assert (E4 : s_fr (emit (PushLayer mode) s3) = []) by (apply emit_real_fr, E3).
        destruct (resolve I src) as [qs|]; [|cbn; discriminate].
        destr_trav2 IH IHb r2 s5 X2 B2. cbn [fst snd]. intros ->.
        assert (E5 : s_fr s5 = []) by (eapply ext_real; eassumption).
        apply (bal_wrap (PushLayer 3) (PopLayer 3)); [exact E | apply emit_real_fr, E5 | reflexivity|].
        eapply bal_trans; [apply B1; [exact E1 | reflexivity]|].
        apply (bal_wrap (PushLayer mode) (PopLayer mode)); [exact E3 | exact E5 | reflexivity|].
        apply B2; [exact E4 | reflexivity].
  Qed.

  (* ---- decycler safety: no out-of-range array access, no depth underflow, depth restored on every
     path (also on errors), depth <= 64; the collector frame is always there to be popped ---- *)
  Lemma traverse_safe :
    (forall h g, oracle h g <> AErr EPanic) ->
    forall fuel p s, wf_dec (s_dec s) ->
      dpres s (snd (trav fuel p s)) /\ nopanic (fst (trav fuel p s)).
  Proof.
    intros HO. induction fuel as [|f IH]; intros p s W.
    - cbn. split; [apply (dpres_same_r s); [reflexivity | apply dpres_refl, W] | discriminate].
    - pose proof (traverse_ext f) as IHx. cbn [traverse].
      assert (Hgen : forall X : res * st, dpres (tick s) (snd X) /\ nopanic (fst X) -> dpres s (snd X) /\ nopanic (fst X)).
      { intros X [D NP]. split; [|exact NP]. apply (dpres_same (tick s)); [reflexivity | exact D]. }
      apply Hgen. clear Hgen. assert (W' : wf_dec (s_dec (tick s))) by exact W. clear W. revert W'.
      generalize (tick s). clear s. intros s W.
      destruct p as [start num|emit0|gid child|gid|child|src mode backdrop].
      + apply safe_layers_loop; [|exact W]. intros i s0 W0.
        destruct (layer I i) as [[ref id]|]; [|split; [apply dpres_refl, W0 | discriminate]].
        apply safe_with_guard; [exact W0|]. intros s1 W1.
        destruct (resolve I ref) as [q|]; [apply IH, W1 | split; [apply dpres_refl, W1 | discriminate]].
      + destruct emit0; cbn; (split; [|discriminate]); [apply dpres_emit, W | apply dpres_refl, W].
      + destruct (resolve I child) as [q|] eqn:R; [|split; [apply dpres_refl, W | discriminate]].
        pose proof (IHx q (push_frame s gid)) as X1. destruct (IH q (push_frame s gid) W) as [D1 NP1].
        destruct (trav f q (push_frame s gid)) as [r1 s2] eqn:E1. cbn [fst snd] in *.
        destruct (ext_push_pop _ _ _ X1) as [fr [s3 [P _]]]. rewrite P.
        assert (Ed : s_dec s3 = s_dec s2).
        { unfold pop_frame in P. destruct (s_fr s2); [discriminate|]. inversion P. reflexivity. }
        assert (D3 : dpres s s3) by (apply (dpres_same_r s2); [symmetry; exact Ed | exact D1]).
        destruct (f_ok fr); [split; assumption|].
        assert (W4 : wf_dec (s_dec (emit (PushClipGlyph gid) s3))) by (rewrite dec_emit; exact (proj1 D3)).
        destruct (IH q (emit (PushClipGlyph gid) s3) W4) as [D5 NP5].
        destruct (trav f q (emit (PushClipGlyph gid) s3)) as [r2 s5] eqn:E2. cbn [fst snd] in *.
        split; [|exact NP5]. eapply dpres_trans; [exact D3|]. eapply dpres_trans; [apply dpres_emit, (proj1 D3)|].
        eapply dpres_trans; [exact D5 | apply dpres_emit, (proj1 D5)].
      + destruct (base_glyph I gid) as [| |ref id]; try (split; [apply dpres_refl, W | discriminate]).
        apply safe_with_guard; [exact W|]. intros s1 W1.
        assert (A : s_dec (snd (ask_cached oracle s1 gid)) = s_dec s1 /\ fst (ask_cached oracle s1 gid) <> AErr EPanic).
        { unfold ask_cached. destruct (s_fr s1); cbn; [split; [apply dec_emit | apply HO] | split; [reflexivity | discriminate]]. }
        destruct (ask_cached oracle s1 gid) as [a s2]. cbn [fst snd] in A. destruct A as [Ad Aa].
        assert (D2 : dpres s1 s2) by (apply (dpres_same_r s1); [symmetry; exact Ad | apply dpres_refl, W1]).
        destruct a as [| |e]; [split; [exact D2 | discriminate] | | split; [exact D2 | intros C; inversion C; subst; apply Aa; reflexivity]].
        assert (Db : dpres s2 (if clip_box I gid then emit PushClipBox s2 else s2)) by (apply dpres_if, (proj1 D2)).
        destruct (resolve I ref) as [q|]; [|split; [eapply dpres_trans; eassumption | discriminate]].
        destruct (IH q _ (proj1 Db)) as [D3 NP3].
        destruct (trav f q (if clip_box I gid then emit PushClipBox s2 else s2)) as [r1 s3] eqn:E1. cbn [fst snd] in *.
        split; [|exact NP3]. eapply dpres_trans; [exact D2|]. eapply dpres_trans; [exact Db|].
        eapply dpres_trans; [exact D3 | apply dpres_if, (proj1 D3)].
      + assert (D1 : dpres s (emit PushT s)) by (apply dpres_emit, W).
        destruct (resolve I child) as [q|]; [|split; [exact D1 | discriminate]].
        destruct (IH q _ (proj1 D1)) as [D3 NP3]. destruct (trav f q (emit PushT s)) as [r1 s3] eqn:E1. cbn [fst snd] in *.
        split; [|exact NP3]. eapply dpres_trans; [exact D1|]. eapply dpres_trans; [exact D3 | apply dpres_emit, (proj1 D3)].
      + assert (D1 : dpres s (emit (PushLayer 3) s)) by (apply dpres_emit, W).
        destruct (resolve I backdrop) as [qb|]; [|split; [exact D1 | discriminate]].
        destruct (IH qb _ (proj1 D1)) as [D3 NP3]. destruct (trav f qb (emit (PushLayer 3) s)) as [r1 s3] eqn:E1. cbn [fst snd] in *.
        assert (D13 : dpres s s3) by (eapply dpres_trans; eassumption).
        destruct r1; [|split; assumption].
        assert (D4 : dpres s3 (emit (PushLayer mode) s3)) by (apply dpres_emit, (proj1 D3)).
        destruct (resolve I src) as [qs|]; [|split; [eapply dpres_trans; eassumption | discriminate]].
        destruct (IH qs _ (proj1 D4)) as [D5 NP5]. destruct (trav f qs (emit (PushLayer mode) s3)) as [r2 s5] eqn:E2. cbn [fst snd] in *.
        split; [|exact NP5]. eapply dpres_trans; [exact D13|]. eapply dpres_trans; [exact D4|]. eapply dpres_trans; [exact D5|].
        eapply dpres_trans; [apply dpres_emit, (proj1 D5) | apply dpres_emit]. rewrite dec_emit. exact (proj1 D5).
  Qed.

  (* ---- explicit bound on the number of visited nodes ---- *)
  Lemma traverse_vis B :
    2 <= B -> (forall r st n, resolve I r = Some (RLayers st n) -> n <= B) ->
    forall fuel p s, layers_le B p -> s_vis (snd (trav fuel p s)) <= s_vis s + vbound B fuel.
  Proof.
    intros HB HL. induction fuel as [|f IH]; intros p s Lp.
    - cbn. lia.
    - assert (IH' : forall r q s, resolve I r = Some q -> s_vis (snd (trav f q s)) <= s_vis s + vbound B f).
      { intros r q s0 R. apply IH. destruct q; cbn; try exact Logic.I. eapply HL, R. }
      cbn [traverse vbound]. assert (Hgen : forall X : st, s_vis X <= s_vis (tick s) + B * vbound B f -> s_vis X <= s_vis s + (1 + B * vbound B f)).
      { cbn. lia. }
      apply Hgen. clear Hgen. generalize (tick s). clear s. intros s.
      pose proof (vbound_pos B f) as Vp. set (V := vbound B f) in *.
      assert (M1 : V <= B * V) by nia. assert (M2 : 2 * V <= B * V) by nia.
      destruct p as [start num|emit0|gid child|gid|child|src mode backdrop].
      + cbn in Lp. assert (Mn : num * V <= B * V) by (apply Nat.mul_le_mono_r; exact Lp).
        eapply Nat.le_trans; [apply (vis_layers_loop _ V)|lia].
        intros i s0. destruct (layer I i) as [[ref id]|]; [|cbn; lia].
        apply vis_with_guard. intros s1 _. destruct (resolve I ref) as [q|] eqn:R; [eapply IH', R | cbn; lia].
      + destruct emit0; cbn; [rewrite vis_emit|]; lia.
      + destruct (resolve I child) as [q|] eqn:R; [|cbn; lia].
        pose proof (IH' _ q (push_frame s gid) R) as V1. change (s_vis (push_frame s gid)) with (s_vis s) in V1.
        destruct (trav f q (push_frame s gid)) as [r1 s2] eqn:E1. cbn [fst snd] in *.
        unfold pop_frame. destruct (s_fr s2) as [|fr rest]; [cbn; lia|].
        destruct (f_ok fr); [cbn; lia|].
        set (s3 := mkS rest (s_out s2) (s_dec s2) (s_vis s2)).
        pose proof (IH' _ q (emit (PushClipGlyph gid) s3) R) as V2. rewrite vis_emit in V2.
        destruct (trav f q (emit (PushClipGlyph gid) s3)) as [r2 s5] eqn:E2. cbn [fst snd] in *.
        rewrite vis_emit. subst s3. cbn in V2. lia.
      + destruct (base_glyph I gid) as [| |ref id]; try (cbn; lia).
        eapply Nat.le_trans; [apply (vis_with_guard _ _ _ V)|lia]. intros s1 _.
        assert (A : s_vis (snd (ask_cached oracle s1 gid)) = s_vis s1).
        { unfold ask_cached. destruct (s_fr s1); cbn; [apply vis_emit | reflexivity]. }
        destruct (ask_cached oracle s1 gid) as [a s2]. cbn [fst snd] in A.
        destruct a; try (cbn; lia).
        assert (Vb : s_vis (if clip_box I gid then emit PushClipBox s2 else s2) = s_vis s2)
          by (destruct (clip_box I gid); [apply vis_emit | reflexivity]).
        destruct (resolve I ref) as [q|] eqn:R; [|cbn; lia].
        pose proof (IH' _ q (if clip_box I gid then emit PushClipBox s2 else s2) R) as V1.
        destruct (trav f q (if clip_box I gid then emit PushClipBox s2 else s2)) as [r1 s3] eqn:E1. cbn [fst snd] in *.
        destruct (clip_box I gid); [rewrite vis_emit|]; lia.
      + destruct (resolve I child) as [q|] eqn:R; [|cbn; rewrite vis_emit; lia].
        pose proof (IH' _ q (emit PushT s) R) as V1. rewrite vis_emit in V1.
        destruct (trav f q (emit PushT s)) as [r1 s3] eqn:E1. cbn [fst snd] in *. rewrite vis_emit. lia.
      + destruct (resolve I backdrop) as [qb|] eqn:Rb; [|cbn; rewrite vis_emit; lia].
        pose proof (IH' _ qb (emit (PushLayer 3) s) Rb) as V1. rewrite vis_emit in V1.
        destruct (trav f qb (emit (PushLayer 3) s)) as [r1 s3] eqn:E1. cbn [fst snd] in *.
        destruct r1; [|cbn; lia].
        destruct (resolve I src) as [qs|] eqn:Rs; [|cbn; rewrite vis_emit; lia].
        pose proof (IH' _ qs (emit (PushLayer mode) s3) Rs) as V2. rewrite vis_emit in V2.
        destruct (trav f qs (emit (PushLayer mode) s3)) as [r2 s5] eqn:E2. cbn [fst snd] in *.
        rewrite !vis_emit. lia.
  Qed.

  (* ---- a successful traversal has walked every path below the paint to its end, within the depth
     budget (client not drawing from its cache): no path of [fuel] edges exists ---- *)
  Lemma traverse_ok_shallow :
    (forall h g, oracle h g <> AOk) ->
    forall fuel p s, fst (trav fuel p s) = ROk -> ~ deep I fuel p.
  Proof.
    intros HO. induction fuel as [|f IH]; intros p s H Dp; [cbn in H; discriminate|].
    inversion Dp as [|n p0 q Eg Dq]; subst. cbn [traverse] in H. revert H. generalize (tick s). clear s. intros s H.
    inversion Eg; subst.
    - destruct (loop_ok_all _ _ _ _ H i ltac:(assumption) ltac:(assumption)) as [s' Hs].
      rewrite H2 in Hs. apply with_guard_ok in Hs. destruct Hs as [s0 Hs]. rewrite H3 in Hs.
      exact (IH q s0 Hs Dq).
    - rewrite H0 in H. destruct (trav f q (push_frame s g)) as [r1 s2] eqn:E1.
      destruct (pop_frame s2) as [[fr s3]|]; [|cbn in H; discriminate].
      destruct (f_ok fr).
      + cbn in H. subst. apply (IH q (push_frame s g)); [rewrite E1; reflexivity | exact Dq].
      + destruct (trav f q (emit (PushClipGlyph g) s3)) as [r2 s5] eqn:E2. cbn in H. subst.
        apply (IH q (emit (PushClipGlyph g) s3)); [rewrite E2; reflexivity | exact Dq].
    - rewrite H0 in H. apply with_guard_ok in H. destruct H as [s0 Hs].
      assert (A : fst (ask_cached oracle s0 g) <> AOk).
      { unfold ask_cached. destruct (s_fr s0); cbn; [apply HO | discriminate]. }
      destruct (ask_cached oracle s0 g) as [a s2]. cbn [fst] in A.
      destruct a; [contradiction | | cbn in Hs; discriminate].
      rewrite H1 in Hs. destruct (trav f q (if clip_box I g then emit PushClipBox s2 else s2)) as [r1 s3] eqn:E1.
      cbn in Hs. subst. eapply (IH q); [rewrite E1; reflexivity | exact Dq].
    - rewrite H0 in H. destruct (trav f q (emit PushT s)) as [r1 s3] eqn:E1. cbn in H. subst.
      eapply (IH q); [rewrite E1; reflexivity | exact Dq].
    - destruct (resolve I b) as [qb|]; [|cbn in H; discriminate].
      destruct (trav f qb (emit (PushLayer 3) s)) as [r1 s3] eqn:E1. destruct r1; [|cbn in H; discriminate].
      rewrite H0 in H. destruct (trav f q (emit (PushLayer m) s3)) as [r2 s5] eqn:E2. cbn in H. subst.
      eapply (IH q); [rewrite E2; reflexivity | exact Dq].
    - rewrite H0 in H. destruct (trav f q (emit (PushLayer 3) s)) as [r1 s3] eqn:E1.
      destruct r1; [|cbn in H; discriminate].
      eapply (IH q); [rewrite E1; reflexivity | exact Dq].
  Qed.

  (* ---- when every reference resolves and the client reports no error, the only errors are the
     cycle / depth reports (or a model panic, excluded by traverse_safe) ---- *)
  Lemma traverse_closed_okclass :
    (forall h g e, oracle h g <> AErr e) ->
    forall fuel p s, closed I fuel p -> okclass (fst (trav fuel p s)).
  Proof.
    intros HO. induction fuel as [|f IH]; intros p s C; [cbn; right; right; left; reflexivity|].
    cbn [traverse]. generalize (tick s). clear s. intros s.
    destruct p as [start num|emit0|gid child|gid|child|src mode backdrop]; cbn [closed] in C.
    - apply okclass_layers_loop. intros i s' L U. destruct (C i L U) as [ref [id [q [El [Er Cq]]]]].
      rewrite El. apply okclass_with_guard. intros s0. rewrite Er. apply IH, Cq.
    - destruct emit0; left; reflexivity.
    - destruct C as [q [Er Cq]]. rewrite Er.
      pose proof (IH q (push_frame s gid) Cq) as O1. destruct (trav f q (push_frame s gid)) as [r1 s2].
      destruct (pop_frame s2) as [[fr s3]|]; [|right; right; right; reflexivity].
      destruct (f_ok fr); [exact O1|].
      pose proof (IH q (emit (PushClipGlyph gid) s3) Cq) as O2.
      destruct (trav f q (emit (PushClipGlyph gid) s3)) as [r2 s5]. exact O2.
    - destruct C as [ref [id [q [Eb [Er Cq]]]]]. rewrite Eb. apply okclass_with_guard. intros s0.
      assert (A : forall e, fst (ask_cached oracle s0 gid) <> AErr e).
      { intros e. unfold ask_cached. destruct (s_fr s0); cbn; [apply HO | discriminate]. }
      destruct (ask_cached oracle s0 gid) as [a s2]. cbn [fst] in A.
      destruct a as [| |e]; [left; reflexivity | | exfalso; exact (A e eq_refl)].
      rewrite Er. pose proof (IH q (if clip_box I gid then emit PushClipBox s2 else s2) Cq) as O1.
      destruct (trav f q (if clip_box I gid then emit PushClipBox s2 else s2)) as [r1 s3]. exact O1.
    - destruct C as [q [Er Cq]]. rewrite Er. pose proof (IH q (emit PushT s) Cq) as O1.
      destruct (trav f q (emit PushT s)) as [r1 s3]. exact O1.
    - destruct C as [[qs [Es Cs]] [qb [Eb Cb]]]. rewrite Eb.
      pose proof (IH qb (emit (PushLayer 3) s) Cb) as O1. destruct (trav f qb (emit (PushLayer 3) s)) as [r1 s3].
      destruct r1; [|exact O1]. rewrite Es.
      pose proof (IH qs (emit (PushLayer mode) s3) Cs) as O2. destruct (trav f qs (emit (PushLayer mode) s3)) as [r2 s5].
      exact O2.
  Qed.
End Trav.

(* ------------------------------------------------------------------ ColorGlyph::paint *)
Section Paint.
  Variable I : inst.
  Variable oracle : list cb -> N -> answer.

  Lemma init_real : s_fr init_st = [].
  Proof. reflexivity. Qed.
  Lemma wf_dec0 : wf_dec dec0.
  Proof. split; cbn; [reflexivity | unfold DMAX; lia]. Qed.

  Definition root_body (ref : N) : st -> res * st :=
    fun s => match resolve I ref with None => (RErr EParse, s) | Some q => traverse I oracle 64 q s end.

  Lemma paint_v1 gid ref id : base_glyph I gid = BSome ref id ->
    paint I oracle gid =
      let s0 := if clip_box I gid then emit PushClipBox init_st else init_st in
      match with_guard s0 id (root_body ref) with
      | (ROk, s) => Painted ROk (if clip_box I gid then emit PopClip s else s)
      | (RErr e, s) => Painted (RErr e) s
      end.
  Proof.
    intros E. unfold paint. rewrite E. cbv zeta. fold (root_body ref).
    destruct (with_guard _ id (root_body ref)) as [r s]. destruct r; reflexivity.
  Qed.

  Lemma v0_loop_bal : forall n i s, s_fr s = [] ->
    s_fr (snd (v0_loop I n i s)) = [] /\ bal s (snd (v0_loop I n i s)) /\ s_vis (snd (v0_loop I n i s)) = s_vis s.
  Proof.
    induction n as [|n IH]; intros i s E; cbn; [split; [exact E | split; [apply bal_refl | reflexivity]]|].
    destruct (v0_layer I i) as [[g pal]|]; [|cbn; split; [exact E | split; [apply bal_refl | reflexivity]]].
    destruct (IH (N.succ i) (emit (FillGlyph g false 0) s) (emit_real_fr _ _ E)) as [F [B V]].
    split; [exact F|]. split; [|rewrite V; apply vis_emit].
    eapply bal_trans; [|exact B]. apply bal_emit_neutral; [exact E | exact Logic.I].
  Qed.

  (* balanced_on_ok *)
  Lemma paint_balanced gid s : paint I oracle gid = Painted ROk s -> well_nested (s_out s).
  Proof.
    assert (Fin : forall s', bal init_st s' -> well_nested (s_out s')).
    { intros s' [w [O Nw]]. cbn in O. rewrite O. apply well_nested_neutral, Nw. }
    destruct (base_glyph I gid) as [| |ref id] eqn:Eb.
    3: {
      rewrite (paint_v1 _ _ _ Eb). cbv zeta.
      set (s0 := if clip_box I gid then emit PushClipBox init_st else init_st).
      assert (E0 : s_fr s0 = []) by (subst s0; destruct (clip_box I gid); [apply emit_real_fr|]; reflexivity).
      assert (X : ext s0 (snd (with_guard s0 id (root_body ref)))).
      { apply ext_with_guard. intros s1 _ _. unfold root_body. destruct (resolve I ref); [apply traverse_ext | apply ext_refl]. }
      assert (B : fst (with_guard s0 id (root_body ref)) = ROk -> bal s0 (snd (with_guard s0 id (root_body ref)))).
      { apply bal_with_guard. intros s1 F1 _. unfold root_body. destruct (resolve I ref); [|cbn; discriminate].
        apply traverse_bal. congruence. }
      destruct (with_guard s0 id (root_body ref)) as [r s1]. cbn [fst snd] in *.
      destruct r; intros H; inversion H; subst. apply Fin.
      apply (bal_wrap_if (clip_box I gid) PushClipBox PopClip);
        [reflexivity | eapply ext_real; eassumption | exact Logic.I | apply B; reflexivity]. }
    all: unfold paint; rewrite Eb; destruct (v0_base I gid) as [[start num]|]; [|discriminate];
      destruct (v0_loop_bal num start init_st eq_refl) as [_ [B _]];
      destruct (v0_loop I num start init_st) as [r s']; intros H; inversion H; subst; apply Fin, B.
  Qed.

  Lemma paint_balanced_default_fill_glyph gid s :
    paint I oracle gid = Painted ROk s -> well_nested (expand (s_out s)).
  Proof. intros H. unfold well_nested. rewrite expand_run. exact (paint_balanced gid s H). Qed.

  (* decycler_safe *)
  Lemma paint_safe gid r s :
    (forall h g, oracle h g <> AErr EPanic) ->
    paint I oracle gid = Painted r s ->
    r <> RErr EPanic /\ length (fst (s_dec s)) = DMAX /\ snd (s_dec s) = 0.
  Proof.
    intros HO. destruct (base_glyph I gid) as [| |ref id] eqn:Eb.
    3: {
      rewrite (paint_v1 _ _ _ Eb). cbv zeta.
      set (s0 := if clip_box I gid then emit PushClipBox init_st else init_st).
      assert (W0 : wf_dec (s_dec s0) /\ snd (s_dec s0) = 0).
      { subst s0. destruct (clip_box I gid); [rewrite dec_emit|]; split; (apply wf_dec0 || reflexivity). }
      destruct (safe_with_guard s0 id (root_body ref) (proj1 W0)) as [[W D] NP].
      { intros s1 W1. unfold root_body. destruct (resolve I ref); [apply (traverse_safe I oracle HO), W1|].
        split; [apply dpres_refl, W1 | discriminate]. }
      destruct (with_guard s0 id (root_body ref)) as [r1 s1]. cbn [fst snd] in *.
      destruct r1; intros H; inversion H; subst.
      - split; [discriminate|]. destruct (clip_box I gid); [rewrite dec_emit|]; (split; [apply W | rewrite D; apply W0]).
      - split; [exact NP|]. split; [apply W | rewrite D; apply W0]. }
    all: unfold paint; rewrite Eb; destruct (v0_base I gid) as [[start num]|]; [|discriminate];
      intros H;
      assert (X : forall n i s0, s_dec (snd (v0_loop I n i s0)) = s_dec s0 /\ nopanic (fst (v0_loop I n i s0)))
        by (induction n as [|n IHn]; intros i s0; cbn; [split; [reflexivity | discriminate]|];
            destruct (v0_layer I i) as [[g pal]|]; [|split; [reflexivity | discriminate]];
            destruct (IHn (N.succ i) (emit (FillGlyph g false 0) s0)) as [Dd Np]; split; [rewrite Dd; apply dec_emit | exact Np]);
      destruct (X num start init_st) as [Dd Np]; destruct (v0_loop I num start init_st) as [r' s'];
      inversion H; subst; cbn [fst snd] in *; split; [exact Np | rewrite Dd; split; reflexivity].
  Qed.

  (* visit_bound *)
  Local Opaque vbound.
  Lemma paint_visits B gid r s :
    2 <= B -> (forall ref st n, resolve I ref = Some (RLayers st n) -> n <= B) ->
    paint I oracle gid = Painted r s -> s_vis s <= vbound B 64.
  Proof.
    intros HB HL. destruct (base_glyph I gid) as [| |ref id] eqn:Eb.
    3: {
      rewrite (paint_v1 _ _ _ Eb). cbv zeta.
      set (s0 := if clip_box I gid then emit PushClipBox init_st else init_st).
      assert (V0 : s_vis s0 = 0) by (subst s0; destruct (clip_box I gid); [rewrite vis_emit|]; reflexivity).
      assert (V : s_vis (snd (with_guard s0 id (root_body ref))) <= s_vis s0 + vbound B 64).
      { apply vis_with_guard. intros s1 _. unfold root_body. destruct (resolve I ref) as [q|] eqn:R; [|cbn; lia].
        apply (traverse_vis I oracle B HB HL). destruct q; cbn; try exact Logic.I. eapply HL, R. }
      destruct (with_guard s0 id (root_body ref)) as [r1 s1]. cbn [fst snd] in *.
      destruct r1; intros H; inversion H; subst; [destruct (clip_box I gid); [rewrite vis_emit|]|]; lia. }
    all: unfold paint; rewrite Eb; destruct (v0_base I gid) as [[start num]|]; [|discriminate];
      destruct (v0_loop_bal num start init_st eq_refl) as [_ [_ V]];
      destruct (v0_loop I num start init_st) as [r' s']; intros H; inversion H; subst; cbn [snd] in V; rewrite V; cbn;
      pose proof (vbound_pos B 64); lia.
  Qed.
  Local Transparent vbound.

  (* cycle_is_error *)
  Lemma paint_deep_not_ok gid ref id q r s :
    (forall h g, oracle h g <> AOk) ->
    base_glyph I gid = BSome ref id -> resolve I ref = Some q -> deep I 64 q ->
    paint I oracle gid = Painted r s -> r <> ROk.
  Proof.
    intros HO Eb Er Dq. rewrite (paint_v1 _ _ _ Eb). cbv zeta.
    set (s0 := if clip_box I gid then emit PushClipBox init_st else init_st).
    pose proof (with_guard_ok s0 id (root_body ref)) as G.
    destruct (with_guard s0 id (root_body ref)) as [r1 s1]. cbn [fst] in G.
    destruct r1; intros H; inversion H; subst; [|discriminate].
    destruct (G eq_refl) as [s2 Hs]. unfold root_body in Hs. rewrite Er in Hs.
    exfalso. exact (traverse_ok_shallow I oracle HO 64 q s2 Hs Dq).
  Qed.

  Lemma paint_cycle_error_kind gid ref id q r s :
    (forall h g, oracle h g = AUnimpl) ->
    base_glyph I gid = BSome ref id -> resolve I ref = Some q -> deep I 64 q -> closed I 64 q ->
    paint I oracle gid = Painted r s -> r = RErr ECycle \/ r = RErr EDepth.
  Proof.
    intros HO Eb Er Dq Cq Hp.
    assert (H1 : r <> ROk).
    { eapply paint_deep_not_ok; try eassumption. intros h g. rewrite HO. discriminate. }
    assert (H2 : r <> RErr EPanic).
    { eapply paint_safe; [|exact Hp]. intros h g. rewrite HO. discriminate. }
    revert Hp. rewrite (paint_v1 _ _ _ Eb). cbv zeta.
    set (s0 := if clip_box I gid then emit PushClipBox init_st else init_st).
    assert (O : okclass (fst (with_guard s0 id (root_body ref)))).
    { apply okclass_with_guard. intros s1. unfold root_body. rewrite Er.
      apply traverse_closed_okclass; [|exact Cq]. intros h g e. rewrite HO. discriminate. }
    destruct (with_guard s0 id (root_body ref)) as [r1 s1]. cbn [fst] in O.
    destruct r1; intros H; inversion H; subst; [contradiction|].
    destruct O as [O|[O|[O|O]]]; [discriminate | left; exact O | right; exact O | contradiction].
  Qed.
End Paint.

(* ------------------------------------------------------------------ statements in Props.v form *)
Lemma traverse_total I oracle fuel p s : exists r s', traverse I oracle fuel p s = (r, s').
Proof. destruct (traverse I oracle fuel p s) as [r s']. exists r, s'. reflexivity. Qed.

Lemma paint_total I oracle gid : paint I oracle gid = NoGlyph \/ exists r s, paint I oracle gid = Painted r s.
Proof. destruct (paint I oracle gid) as [|r s]; [left; reflexivity | right; exists r, s; reflexivity]. Qed.

Lemma traverse_balanced_wn I oracle fuel p s :
  s_fr s = [] -> fst (traverse I oracle fuel p s) = ROk ->
  s_fr (snd (traverse I oracle fuel p s)) = [] /\
  exists w, s_out (snd (traverse I oracle fuel p s)) = s_out s ++ w /\ well_nested w.
Proof.
  intros E H. split; [eapply ext_real; [apply traverse_ext | exact E]|].
  destruct (traverse_bal I oracle fuel p s E H) as [w [O Nw]]. exists w. split; [exact O | apply well_nested_neutral, Nw].
Qed.

Lemma collector_forwards I oracle fuel p s :
  s_fr s <> [] ->
  length (s_fr (snd (traverse I oracle fuel p s))) = length (s_fr s) /\
  exists w, s_out (snd (traverse I oracle fuel p s)) = s_out s ++ w /\
            Forall (fun c => exists g x k, c = FillGlyph g x k) w /\ well_nested w.
Proof.
  intros E. destruct (traverse_ext I oracle fuel p s) as [L [w [O F]]]. split; [exact L|].
  exists w. split; [exact O|]. specialize (F E). split.
  - eapply Forall_impl; [|exact F]. intros c Hc. destruct c; try contradiction. eauto.
  - apply well_nested_neutral, fgonly_neutral, F.
Qed.

Lemma decycler_enter_safe ids depth id :
  length ids = 64 -> depth <= 64 ->
  match dec_enter (ids, depth) id with
  | DPanic => False
  | DErr e => e = ECycle \/ e = EDepth
  | DOk (ids', depth') => length ids' = 64 /\ depth' = S depth /\ depth' <= 64
  end.
Proof.
  intros L D. pose proof (dec_enter_spec (ids, depth) id (conj L D)) as H.
  destruct (dec_enter (ids, depth) id) as [[ids' depth']|e|]; [|exact H|exact H].
  destruct H as [[L' D'] [S' Lt]]. cbn in *. unfold DMAX in *. repeat split; assumption.
Qed.

Lemma traverse_decycler_safe I oracle fuel p s :
  (forall h g, oracle h g <> AErr EPanic) ->
  length (fst (s_dec s)) = 64 -> snd (s_dec s) <= 64 ->
  fst (traverse I oracle fuel p s) <> RErr EPanic /\
  length (fst (s_dec (snd (traverse I oracle fuel p s)))) = 64 /\
  snd (s_dec (snd (traverse I oracle fuel p s))) = snd (s_dec s).
Proof.
  intros HO L D. destruct (traverse_safe I oracle HO fuel p s (conj L D)) as [[[L' _] D'] NP].
  split; [exact NP | split; [exact L' | exact D']].
Qed.

Lemma visit_bound_255 I oracle gid r s :
  (forall ref st n, resolve I ref = Some (RLayers st n) -> n <= 255) ->
  paint I oracle gid = Painted r s -> s_vis s <= vbound 255 64.
Proof. intros H. apply paint_visits; [lia | exact H]. Qed.
