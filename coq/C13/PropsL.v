(* C13 — property theorems about the glyph-id lookups (binary search on possibly UNSORTED BaseGlyphList /
   baseGlyphRecords / ClipList).  Only statements, [exact lemma], and Print Assumptions. *)
From Coq Require Import ZArith NArith List Sorted.
From FV Require Import C13.Model C13.Lookup.
Import ListNotations.

(* the lookup never panics (the index expression &records[ix] is in range) on ANY list, sorted or not, for any
   comparison; termination: structural, and the fuel (= slice length) is never what ends the loop *)
Theorem c13_lookup_total : forall A (cmp : A -> comparison) (l : list A), bs_find cmp l <> LPanic.
Proof. exact @lookup_total. Qed.
Theorem c13_lookup_fuel_sufficient : forall fuel cmpf k base size, (size <= Z.of_nat fuel + 1)%Z ->
  bs_loop (fuel + k) cmpf base size = bs_loop fuel cmpf base size.
Proof. exact bs_loop_fuel_enough. Qed.

(* whatever it returns is a record of the list whose glyph id is the glyph / whose range contains the glyph *)
Theorem c13_lookup_sound : forall A (l : list (N * A)) gid r, bs_assoc l gid = LFound r -> In r l /\ fst r = gid.
Proof. exact @lookup_sound_key. Qed.
Theorem c13_lookup_sound_clip : forall l gid r, bs_clip l gid = LFound r -> In r l /\ (fst r <= gid <= snd r)%N.
Proof. exact lookup_sound_clip. Qed.

(* on a strictly sorted list a record is found iff one exists *)
Theorem c13_lookup_complete_sorted : forall A (l : list (N * A)) gid,
  StronglySorted (fun a b => (fst a < fst b)%N) l ->
  ((exists r, In r l /\ fst r = gid) <-> (exists r, bs_assoc l gid = LFound r)).
Proof. exact @lookup_complete_sorted_key. Qed.
Theorem c13_lookup_complete_sorted_clip : forall l gid,
  StronglySorted (fun a b => (fst a <= snd a /\ snd a < fst b /\ fst b <= snd b)%N) l ->
  ((exists r, In r l /\ (fst r <= gid <= snd r)%N) <-> (exists r, bs_clip l gid = LFound r)).
Proof. exact lookup_complete_sorted_clip. Qed.
(* and there it is the association-list lookup used by Model.inst_of *)
Theorem c13_lookup_sorted_is_assoc : forall A (l : list (N * A)) gid,
  StronglySorted (fun a b => (fst a < fst b)%N) l ->
  match bs_assoc l gid with LFound (_, v) => Some v | _ => None end = assoc l gid.
Proof. exact @bs_assoc_sorted. Qed.

(* totality / balance / no panic of painting do not depend on sortedness *)
Theorem c13_unsorted_paint_total : forall g oracle gid,
  paint (inst_of_bs g) oracle gid = NoGlyph \/ exists r s, paint (inst_of_bs g) oracle gid = Painted r s.
Proof. exact unsorted_paint_total. Qed.
Theorem c13_unsorted_balanced_on_ok : forall g oracle gid s,
  paint (inst_of_bs g) oracle gid = Painted ROk s -> well_nested (s_out s) /\ well_nested (expand (s_out s)).
Proof. exact unsorted_balanced_on_ok. Qed.
Theorem c13_unsorted_never_panics : forall g oracle gid r s,
  (forall h x, oracle h x <> AErr EPanic) ->
  paint (inst_of_bs g) oracle gid = Painted r s ->
  r <> RErr EPanic /\ length (fst (s_dec s)) = DMAX /\ snd (s_dec s) = 0%nat.
Proof. exact unsorted_never_panics. Qed.

Print Assumptions c13_lookup_total.
Print Assumptions c13_lookup_fuel_sufficient.
Print Assumptions c13_lookup_sound.
Print Assumptions c13_lookup_sound_clip.
Print Assumptions c13_lookup_complete_sorted.
Print Assumptions c13_lookup_complete_sorted_clip.
Print Assumptions c13_lookup_sorted_is_assoc.
Print Assumptions c13_unsorted_paint_total.
Print Assumptions c13_unsorted_balanced_on_ok.
Print Assumptions c13_unsorted_never_panics.
