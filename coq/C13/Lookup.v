(* C13 — the glyph-id lookups of read-fonts/src/tables/colr.rs (v0_base_glyph, v1_base_glyph, v1_clip_box) as the
   code runs them: core::slice::binary_search_by (std 1.95: branch-free loop, no early exit on Equal, the result
   is the LAST probed element that is not Greater) on lists that need NOT be sorted, may contain duplicate glyph
   ids and overlapping / inverted clip ranges.  bs_loop / binary_search and their lemmas are copied from
   coq/C01/Model.v + Tables.v (not imported: C13 stays self-contained). *)
From Coq Require Import ZArith NArith List Bool Lia Sorted.
From FV Require Import C13.Model.
Import ListNotations.
Open Scope Z_scope.

Fixpoint bs_loop (fuel : nat) (cmpf : Z -> comparison) (base size : Z) : Z :=
  match fuel with
  | O => base
  | S k =>
      if size <=? 1 then base
      else let half := size / 2 in
           let mid := base + half in
           let base' := match cmpf mid with Gt => base | _ => mid end in
           bs_loop k cmpf base' (size - half)
  end.
Definition binary_search (n : Z) (cmpf : Z -> comparison) : option Z :=
  if n =? 0 then None
  else let base := bs_loop (Z.to_nat n) cmpf 0 n in
       match cmpf base with Eq => Some base | _ => None end.

Definition nthz {A} (l : list A) (i : Z) : option A :=
  if (i <? 0) || (Z.of_nat (length l) <=? i) then None else nth_error l (Z.to_nat i).   (* <[T]>::get(i) *)

(* match records.binary_search_by(f) { Ok(ix) => &records[ix], _ => return Ok(None) }: the index expression
   would panic on an out-of-range ix *)
Inductive lres (A : Type) := LFound (a : A) | LNone | LPanic.
Arguments LFound {A} a. Arguments LNone {A}. Arguments LPanic {A}.

Definition cmp_at {A} (cmp : A -> comparison) (l : list A) (i : Z) : comparison :=
  match nthz l i with Some r => cmp r | None => Gt end.
Definition bs_find {A} (cmp : A -> comparison) (l : list A) : lres A :=
  match binary_search (Z.of_nat (length l)) (cmp_at cmp l) with
  | None => LNone
  | Some i => match nthz l i with Some r => LFound r | None => LPanic end
  end.

(* |rec| rec.glyph_id().cmp(&glyph_id) *)
Definition key_cmp {A} (gid : N) (r : N * A) : comparison := N.compare (fst r) gid.
(* v1_clip_box's closure *)
Definition clip_cmp (gid : N) (r : N * N) : comparison :=
  if N.ltb gid (fst r) then Gt else if N.ltb (snd r) gid then Lt else Eq.

Definition bs_assoc {A} (l : list (N * A)) (gid : N) : lres (N * A) := bs_find (key_cmp gid) l.
Definition bs_clip (l : list (N * N)) (gid : N) : lres (N * N) := bs_find (clip_cmp gid) l.

(* inst_of with the lookups of the real code (a panic of the index expression is a distinct outcome that the
   comparison with the code would flag: class 9 / no such behaviour; by lookup_total it never happens) *)
Definition inst_of_bs (g : graph) : inst :=
  let i := inst_of g in
  mkI (resolve i) (layer i)
      (fun gid => match g_base g with
                  | None => BErr
                  | Some l => match bs_assoc l gid with
                              | LFound (_, ref) => if is_bad (g_nodes g) ref then BErr else BSome ref ref
                              | _ => BNone
                              end
                  end)
      (fun gid => match bs_clip (g_clips g) gid with LFound _ => true | _ => false end)
      (fun gid => match g_v0base g with
                  | None => None
                  | Some l => match bs_assoc l gid with LFound (_, v) => Some v | _ => None end
                  end)
      (v0_layer i).

Definition run_case_bs (g : graph) (mode gid : N) : N * list cb :=
  match paint (inst_of_bs g) (oracle_of mode) gid with
  | NoGlyph => (5%N, [])
  | Painted r s => (class_of r, s_out s)
  end.
Definition check_sub_bs (g : graph) (c : N * N * (N * list cb)) : bool :=
  let '(mode, gid, (cls, cbs)) := c in
  if N.leb 10 mode then
    let '(mcls, mcbs) := run_case_bs g (mode - 10) gid in
    N.eqb cls mcls && cbs_eqb cbs (map strip_pop (expand mcbs))
  else
    let '(mcls, mcbs) := run_case_bs g mode gid in
    N.eqb cls mcls && cbs_eqb cbs mcbs.

Fixpoint keys_sorted {A} (l : list (N * A)) : bool :=
  match l with
  | a :: ((b :: _) as r) => N.ltb (fst a) (fst b) && keys_sorted r
  | _ => true
  end.
Fixpoint clips_sorted (l : list (N * N)) : bool :=
  match l with
  | a :: r => N.leb (fst a) (snd a) && match r with b :: _ => N.ltb (snd a) (fst b) | [] => true end && clips_sorted r
  | [] => true
  end.
Definition graph_sorted (g : graph) : bool :=
  match g_base g with Some l => keys_sorted l | None => true end &&
  clips_sorted (g_clips g) &&
  match g_v0base g with Some l => keys_sorted l | None => true end.

(* what the shards evaluate: the binary-search model on EVERY graph, and additionally the association-list model
   of Model.v whenever the lists are strictly sorted / disjoint *)
Definition check_case2 (c : graph * list (N * N * (N * list cb))) : bool :=
  forallb (check_sub_bs (fst c)) (snd c) && (if graph_sorted (fst c) then check_case c else true).

(* ------------------------------------------------------------------ lemmas *)

Lemma bs_loop_range fuel cmpf : forall base size, 0 <= base -> 1 <= size ->
  base <= bs_loop fuel cmpf base size < base + size.
Proof.
  induction fuel; intros base size Hb Hs; cbn [bs_loop]; [lia|].
  destruct (size <=? 1) eqn:E; [lia|]. apply Z.leb_gt in E.
  assert (Hh : 1 <= size / 2 /\ size / 2 <= size - size / 2 /\ 1 <= size - size / 2).
  { pose proof (Z.div_mod size 2 ltac:(lia)). pose proof (Z.mod_pos_bound size 2 ltac:(lia)). lia. }
  destruct (cmpf (base + size / 2)).
  - specialize (IHfuel (base + size / 2) (size - size / 2) ltac:(lia) ltac:(lia)). lia.
  - specialize (IHfuel (base + size / 2) (size - size / 2) ltac:(lia) ltac:(lia)). lia.
  - specialize (IHfuel base (size - size / 2) ltac:(lia) ltac:(lia)). lia.
Qed.

Lemma binary_search_sound n cmpf i : 0 <= n -> binary_search n cmpf = Some i -> 0 <= i < n /\ cmpf i = Eq.
Proof.
  intros Hn. unfold binary_search. destruct (n =? 0) eqn:E; [discriminate|]. apply Z.eqb_neq in E.
  pose proof (bs_loop_range (Z.to_nat n) cmpf 0 n ltac:(lia) ltac:(lia)) as R.
  destruct (cmpf (bs_loop (Z.to_nat n) cmpf 0 n)) eqn:C; try discriminate.
  intros H; inversion H; subst i. split; [lia|exact C].
Qed.

(* the fuel (= slice length) is never what stops the loop: more fuel gives the same answer, i.e. the `while
   size > 1` loop of the code has finished *)
Lemma bs_loop_fuel_enough fuel cmpf : forall k base size, size <= Z.of_nat fuel + 1 ->
  bs_loop (fuel + k) cmpf base size = bs_loop fuel cmpf base size.
Proof.
  induction fuel; intros k base size Hs.
  - cbn [Nat.add]. destruct k; cbn [bs_loop]; [reflexivity|].
    replace (size <=? 1) with true by (symmetry; apply Z.leb_le; cbn in Hs; lia). reflexivity.
  - cbn [Nat.add bs_loop]. destruct (size <=? 1) eqn:E; [reflexivity|]. apply Z.leb_gt in E.
    apply IHfuel.
    pose proof (Z.div_mod size 2 ltac:(lia)). pose proof (Z.mod_pos_bound size 2 ltac:(lia)). lia.
Qed.

Lemma bs_loop_inv fuel cmpf : forall base size, 0 <= base -> 1 <= size -> size <= Z.of_nat fuel + 1 ->
  (forall L, base <= L < base + size -> (forall j, L < j < base + size -> cmpf j = Gt) -> cmpf L <> Gt ->
     (forall j, base <= j <= L -> cmpf j <> Gt) -> bs_loop fuel cmpf base size = L).
Proof.
  induction fuel; intros base size Hb Hs Hf L HL Hgt HLn Hle; cbn [bs_loop].
  - cbn in Hf. lia.
  - destruct (size <=? 1) eqn:E; [apply Z.leb_le in E; lia|]. apply Z.leb_gt in E.
    assert (Hh : 1 <= size / 2 /\ size / 2 <= size - size / 2 /\ 1 <= size - size / 2).
    { pose proof (Z.div_mod size 2 ltac:(lia)). pose proof (Z.mod_pos_bound size 2 ltac:(lia)). lia. }
    destruct (Z_lt_le_dec L (base + size / 2)) as [Lt|Ge].
    + rewrite (Hgt (base + size / 2)) by lia.
      apply IHfuel; try lia.
      * intros j Hj. apply Hgt. lia.
      * exact HLn.
      * intros j Hj. apply Hle. lia.
    + assert (Hm : cmpf (base + size / 2) <> Gt) by (apply Hle; lia).
      assert (Hstep : bs_loop fuel cmpf (base + size / 2) (size - size / 2) = L).
      { apply IHfuel; try lia.
        - intros j Hj. apply Hgt. lia.
        - exact HLn.
        - intros j Hj. apply Hle. lia. }
      destruct (cmpf (base + size / 2)); try congruence.
Qed.

Definition partitioned (n : Z) (cmpf : Z -> comparison) : Prop :=
  forall i j, 0 <= i <= j -> j < n -> cmpf i = Gt -> cmpf j = Gt.
Lemma binary_search_complete n cmpf : 0 < n -> partitioned n cmpf ->
  (exists k, 0 <= k < n /\ cmpf k = Eq) ->
  (forall i j, 0 <= i <= j -> j < n -> cmpf j = Lt -> cmpf i = Lt) ->
  exists i, binary_search n cmpf = Some i /\ cmpf i = Eq.
Proof.
  intros Hn Hp (k & Hk & Ek) Hlt.
  assert (HL : exists L, k <= L < n /\ cmpf L <> Gt /\ forall j, L < j < n -> cmpf j = Gt).
  { assert (G : forall m : nat, exists L, k <= L < n /\ cmpf L <> Gt /\ forall j, L < j < Z.min n (k + 1 + Z.of_nat m) -> cmpf j = Gt).
    { induction m as [|m IHm].
      - exists k. repeat split; try lia. congruence.
      - destruct IHm as (L & L1 & L2 & L3).
        destruct (Z_lt_le_dec (k + 1 + Z.of_nat m) n) as [In|Out].
        + destruct (cmpf (k + 1 + Z.of_nat m)) eqn:C.
          * exists (k + 1 + Z.of_nat m). repeat split; try lia. congruence.
          * exists (k + 1 + Z.of_nat m). repeat split; try lia. congruence.
          * exists L. repeat split; try lia; auto. intros j Hj.
            destruct (Z.eq_dec j (k + 1 + Z.of_nat m)) as [->|Ne]; [exact C|]. apply L3. lia.
        + exists L. repeat split; try lia; auto. intros j Hj. apply L3. lia. }
    destruct (G (Z.to_nat n)) as (L & L1 & L2 & L3). exists L. repeat split; try lia; auto.
    intros j Hj. apply L3. lia. }
  destruct HL as (L & L1 & L2 & L3).
  assert (Hbelow : forall j, 0 <= j <= L -> cmpf j <> Gt).
  { intros j Hj C. apply L2. apply (Hp j L); try lia. exact C. }
  assert (EL : cmpf L = Eq).
  { destruct (cmpf L) eqn:C; auto; [|congruence].
    rewrite (Hlt k L) in Ek by (try lia; exact C). discriminate. }
  exists L. unfold binary_search. replace (n =? 0) with false by (symmetry; apply Z.eqb_neq; lia).
  assert (BL : bs_loop (Z.to_nat n) cmpf 0 n = L).
  { apply (bs_loop_inv (Z.to_nat n) cmpf 0 n); try lia.
    - intros j Hj. apply L3. lia.
    - exact L2.
    - intros j Hj. apply Hbelow. lia. }
  rewrite BL, EL. split; reflexivity.
Qed.

Lemma nthz_some {A} (l : list A) i x : nthz l i = Some x -> 0 <= i < Z.of_nat (length l) /\ nth_error l (Z.to_nat i) = Some x.
Proof.
  unfold nthz. destruct (i <? 0) eqn:E1; cbn; [discriminate|].
  destruct (Z.of_nat (length l) <=? i) eqn:E2; [discriminate|]. intros H. split; [lia|exact H].
Qed.
Lemma nthz_in_range {A} (l : list A) i : 0 <= i < Z.of_nat (length l) -> exists x, nthz l i = Some x.
Proof.
  intros H. unfold nthz. replace (i <? 0) with false by (symmetry; apply Z.ltb_ge; lia).
  replace (Z.of_nat (length l) <=? i) with false by (symmetry; apply Z.leb_gt; lia). cbn.
  destruct (nth_error l (Z.to_nat i)) eqn:N; [eauto|]. apply nth_error_None in N. lia.
Qed.

(* ---- totality: the index expression never panics, on ANY list (sorted or not) and comparison *)
Lemma lookup_total {A} (cmp : A -> comparison) (l : list A) : bs_find cmp l <> LPanic.
Proof.
  unfold bs_find. destruct (binary_search _ _) as [i|] eqn:B; [|discriminate].
  apply binary_search_sound in B; [|lia]. destruct B as [Bi _].
  destruct (nthz_in_range l i Bi) as [x ->]. discriminate.
Qed.

(* ---- soundness on ANY list: a hit is an element of the list that compares Equal *)
Lemma lookup_sound {A} (cmp : A -> comparison) (l : list A) r : bs_find cmp l = LFound r -> In r l /\ cmp r = Eq.
Proof.
  unfold bs_find. destruct (binary_search _ _) as [i|] eqn:B; [|discriminate].
  apply binary_search_sound in B; [|lia]. destruct B as [Bi Bc].
  unfold cmp_at in Bc. destruct (nthz l i) as [x|] eqn:Nx; [|discriminate].
  intros H; inversion H; subst x. split; [|exact Bc].
  apply nthz_some in Nx. destruct Nx as [_ Nx]. eapply nth_error_In; eauto.
Qed.

Lemma key_cmp_eq {A} gid (r : N * A) : key_cmp gid r = Eq <-> fst r = gid.
Proof. unfold key_cmp. apply N.compare_eq_iff. Qed.
Lemma clip_cmp_eq gid r : clip_cmp gid r = Eq <-> (fst r <= gid /\ gid <= snd r)%N.
Proof.
  unfold clip_cmp. destruct (N.ltb gid (fst r)) eqn:E1.
  - apply N.ltb_lt in E1. split; [discriminate|lia].
  - apply N.ltb_ge in E1. destruct (N.ltb (snd r) gid) eqn:E2.
    + apply N.ltb_lt in E2. split; [discriminate|lia].
    + apply N.ltb_ge in E2. split; [lia|reflexivity].
Qed.

Lemma lookup_sound_key {A} (l : list (N * A)) gid r : bs_assoc l gid = LFound r -> In r l /\ fst r = gid.
Proof. intros H. apply lookup_sound in H. destruct H as [H1 H2]. split; [exact H1|]. apply key_cmp_eq. exact H2. Qed.
Lemma lookup_sound_clip (l : list (N * N)) gid r : bs_clip l gid = LFound r -> In r l /\ (fst r <= gid <= snd r)%N.
Proof. intros H. apply lookup_sound in H. destruct H as [H1 H2]. split; [exact H1|]. apply clip_cmp_eq. exact H2. Qed.

(* ---- completeness on sorted lists *)
Lemma sorted_nth {A} (R : A -> A -> Prop) (l : list A) : StronglySorted R l ->
  forall i j a b, (i < j)%nat -> nth_error l i = Some a -> nth_error l j = Some b -> R a b.
Proof.
  induction 1 as [|x l S IH F]; intros i j a b Hij Ha Hb.
  - destruct i; discriminate.
  - destruct j; [lia|]. cbn in Hb. destruct i.
    + cbn in Ha. inversion Ha; subst a. rewrite Forall_forall in F. apply F. eapply nth_error_In; eauto.
    + cbn in Ha. eapply IH; [|eauto|eauto]. lia.
Qed.

(* a comparison that is monotone along R (elements after a Greater one are Greater, elements before a Less one
   are Less) finds a matching element of an R-sorted list whenever there is one *)
Lemma lookup_complete_mono {A} (R : A -> A -> Prop) (cmp : A -> comparison) (l : list A) :
  StronglySorted R l ->
  (forall a b, R a b -> cmp a = Gt -> cmp b = Gt) ->
  (forall a b, R a b -> cmp b = Lt -> cmp a = Lt) ->
  (exists r, In r l /\ cmp r = Eq) ->
  exists r, bs_find cmp l = LFound r /\ cmp r = Eq.
Proof.
  intros S Hgt Hlt (r & Hin & Hr).
  set (n := Z.of_nat (length l)).
  assert (Hn : 0 < n). { destruct l; [destruct Hin|]. subst n. cbn [length]. lia. }
  assert (Hget : forall i j, 0 <= i <= j -> j < n -> exists a b, nthz l i = Some a /\ nthz l j = Some b /\ (i = j \/ R a b)).
  { intros i j Hij Hj. destruct (nthz_in_range l i ltac:(lia)) as [a Ea]. destruct (nthz_in_range l j ltac:(lia)) as [b Eb].
    exists a, b. repeat split; auto. destruct (Z.eq_dec i j) as [|Ne]; [left; auto|right].
    apply nthz_some in Ea. apply nthz_some in Eb. eapply (sorted_nth R l S (Z.to_nat i) (Z.to_nat j)); [lia|apply Ea|apply Eb]. }
  destruct (binary_search_complete n (cmp_at cmp l) Hn) as (i & B & E).
  - intros i j Hij Hj C. destruct (Hget i j Hij Hj) as (a & b & Ea & Eb & [->|Rab]); [exact C|].
    unfold cmp_at in *. rewrite Ea in C. rewrite Eb. eapply Hgt; eauto.
  - apply In_nth_error in Hin. destruct Hin as [k Hk]. exists (Z.of_nat k).
    assert (Hl : (k < length l)%nat) by (apply nth_error_Some; congruence).
    split; [lia|]. unfold cmp_at, nthz.
    replace (Z.of_nat k <? 0) with false by (symmetry; apply Z.ltb_ge; lia).
    replace (Z.of_nat (length l) <=? Z.of_nat k) with false by (symmetry; apply Z.leb_gt; lia).
    cbn [orb]. rewrite Nat2Z.id, Hk. exact Hr.
  - intros i j Hij Hj C. destruct (Hget i j Hij Hj) as (a & b & Ea & Eb & [->|Rab]); [exact C|].
    unfold cmp_at in *. rewrite Eb in C. rewrite Ea. eapply Hlt; eauto.
  - unfold bs_find. fold n. rewrite B. unfold cmp_at in E. destruct (nthz l i) as [x|]; [|discriminate].
    exists x. split; auto.
Qed.

(* BaseGlyphList / baseGlyphRecords strictly sorted by glyph id *)
Lemma lookup_complete_sorted_key {A} (l : list (N * A)) gid :
  StronglySorted (fun a b => (fst a < fst b)%N) l ->
  ((exists r, In r l /\ fst r = gid) <-> (exists r, bs_assoc l gid = LFound r)).
Proof.
  intros S. split.
  - intros (r & Hin & Hr).
    destruct (lookup_complete_mono _ (key_cmp gid) l S) as (x & Hx & _).
    + intros a b Rab. unfold key_cmp. rewrite !N.compare_gt_iff. lia.
    + intros a b Rab. unfold key_cmp. rewrite !N.compare_lt_iff. lia.
    + exists r. split; auto. apply key_cmp_eq. exact Hr.
    + exists x. exact Hx.
  - intros (r & Hr). exists r. apply lookup_sound_key. exact Hr.
Qed.

(* ClipList sorted with well-formed, pairwise disjoint ranges *)
Lemma lookup_complete_sorted_clip (l : list (N * N)) gid :
  StronglySorted (fun a b => (fst a <= snd a /\ snd a < fst b /\ fst b <= snd b)%N) l ->
  ((exists r, In r l /\ (fst r <= gid <= snd r)%N) <-> (exists r, bs_clip l gid = LFound r)).
Proof.
  intros S. split.
  - intros (r & Hin & Hr).
    destruct (lookup_complete_mono _ (clip_cmp gid) l S) as (x & Hx & _).
    + intros a b Rab. unfold clip_cmp.
      destruct (N.ltb gid (fst a)) eqn:E1.
      * apply N.ltb_lt in E1. intros _. replace (N.ltb gid (fst b)) with true by (symmetry; apply N.ltb_lt; lia). reflexivity.
      * destruct (N.ltb (snd a) gid); discriminate.
    + intros a b Rab. unfold clip_cmp.
      destruct (N.ltb gid (fst b)) eqn:E1; [discriminate|]. apply N.ltb_ge in E1.
      destruct (N.ltb (snd b) gid) eqn:E2; [|discriminate]. apply N.ltb_lt in E2. intros _.
      replace (N.ltb gid (fst a)) with false by (symmetry; apply N.ltb_ge; lia).
      replace (N.ltb (snd a) gid) with true by (symmetry; apply N.ltb_lt; lia). reflexivity.
    + exists r. split; auto. apply clip_cmp_eq. exact Hr.
    + exists x. exact Hx.
  - intros (r & Hr). exists r. apply lookup_sound_clip. exact Hr.
Qed.

(* ---- on strictly sorted lists the binary search is the association-list lookup of Model.inst_of *)
Lemma assoc_in {A} (l : list (N * A)) k v : assoc l k = Some v -> In (k, v) l.
Proof.
  induction l as [|[k' v'] l IH]; cbn [assoc]; [discriminate|].
  destruct (N.eqb k k') eqn:E.
  - apply N.eqb_eq in E. subst. intros H; inversion H; subst. left; reflexivity.
  - intros H. right. auto.
Qed.
Lemma assoc_none {A} (l : list (N * A)) k : assoc l k = None -> forall r, In r l -> fst r <> k.
Proof.
  induction l as [|[k' v'] l IH]; cbn [assoc]; intros H r Hin; [destruct Hin|].
  destruct (N.eqb k k') eqn:E; [discriminate|]. apply N.eqb_neq in E.
  destruct Hin as [<-|Hin]; [cbn; congruence|auto].
Qed.
Lemma sorted_key_unique {A} (l : list (N * A)) : StronglySorted (fun a b => (fst a < fst b)%N) l ->
  forall a b, In a l -> In b l -> fst a = fst b -> a = b.
Proof.
  induction 1 as [|x l S IH F]; intros a b Ha Hb E; [destruct Ha|].
  rewrite Forall_forall in F.
  destruct Ha as [<-|Ha], Hb as [<-|Hb]; auto.
  - specialize (F _ Hb). cbv beta in F. lia.
  - specialize (F _ Ha). cbv beta in F. lia.
Qed.
Lemma bs_assoc_sorted {A} (l : list (N * A)) gid :
  StronglySorted (fun a b => (fst a < fst b)%N) l ->
  match bs_assoc l gid with LFound (_, v) => Some v | _ => None end = assoc l gid.
Proof.
  intros S. destruct (assoc l gid) as [v|] eqn:E.
  - apply assoc_in in E.
    destruct (proj1 (lookup_complete_sorted_key l gid S)) as [r Hr]; [exists (gid, v); auto|].
    rewrite Hr. destruct (lookup_sound_key l gid r Hr) as [Hin Hk].
    assert (r = (gid, v)) by (apply (sorted_key_unique l S); auto). subst r. reflexivity.
  - destruct (bs_assoc l gid) as [[k v]| |] eqn:B; try reflexivity.
    destruct (lookup_sound_key l gid _ B) as [Hin Hk]. exfalso. eapply assoc_none; eauto.
Qed.

(* ---- the painting theorems of Proofs.v are stated for an ARBITRARY instance (arbitrary lookup functions), so
   they do not depend on sortedness; instantiated with the binary-search lookups on any graph *)
From FV Require Import C13.Proofs.
Lemma unsorted_paint_total g oracle gid :
  paint (inst_of_bs g) oracle gid = NoGlyph \/ exists r s, paint (inst_of_bs g) oracle gid = Painted r s.
Proof. apply paint_total. Qed.
Lemma unsorted_balanced_on_ok g oracle gid s :
  paint (inst_of_bs g) oracle gid = Painted ROk s -> well_nested (s_out s) /\ well_nested (expand (s_out s)).
Proof. intros H. split; [eapply paint_balanced|eapply paint_balanced_default_fill_glyph]; exact H. Qed.
Lemma unsorted_never_panics g oracle gid r s :
  (forall h x, oracle h x <> AErr EPanic) ->
  paint (inst_of_bs g) oracle gid = Painted r s ->
  r <> RErr EPanic /\ length (fst (s_dec s)) = DMAX /\ snd (s_dec s) = 0%nat.
Proof. apply paint_safe. Qed.
