(* C13 — property theorems.  Only statements, [exact lemma], and Print Assumptions.
   Quantifiers: every [inst] (arbitrary functions: any COLR v0/v1 table, any paint graph incl.
   cyclic / dangling ones, variable paints at any location — floats are abstracted away), every
   glyph id, every client ([oracle] : everything the client has seen so far -> glyph id -> answer of
   paint_cached_color_glyph, i.e. any deterministic client incl. stateful ones). *)
From Coq Require Import NArith List.
From FV Require Import C13.Model C13.Proofs.
Import ListNotations.

(* traversal and painting are total functions: the model's only fuel is the real depth counter
   (64 - recurse_depth), so termination needs no assumption *)
Theorem c13_traverse_total : forall I oracle fuel p s, exists r s', traverse I oracle fuel p s = (r, s').
Proof. exact traverse_total. Qed.
Theorem c13_paint_total : forall I oracle gid,
  paint I oracle gid = NoGlyph \/ exists r s, paint I oracle gid = Painted r s.
Proof. exact paint_total. Qed.

(* THE property: whenever painting reports success the callback stream is well nested — every
   pushed transform, clip and layer is popped exactly once, last in first out, a layer with the mode
   it was pushed with, and nothing is popped that was not pushed *)
Theorem c13_balanced_on_ok : forall I oracle gid s,
  paint I oracle gid = Painted ROk s -> well_nested (s_out s).
Proof. exact paint_balanced. Qed.
(* the same for a client that does not override fill_glyph (the trait's default expands it) *)
Theorem c13_balanced_on_ok_default_fill_glyph : forall I oracle gid s,
  paint I oracle gid = Painted ROk s -> well_nested (expand (s_out s)).
Proof. exact paint_balanced_default_fill_glyph. Qed.
(* the invariant behind it, for any sub-traversal at any depth handed the client's own painter *)
Theorem c13_traverse_balanced : forall I oracle fuel p s,
  s_fr s = [] -> fst (traverse I oracle fuel p s) = ROk ->
  s_fr (snd (traverse I oracle fuel p s)) = [] /\
  exists w, s_out (snd (traverse I oracle fuel p s)) = s_out s ++ w /\ well_nested w.
Proof. exact traverse_balanced_wn. Qed.
(* what a CollectFillGlyphPainter forwards to the client is fill_glyph calls only (on every outcome) *)
Theorem c13_collector_forwards_balanced : forall I oracle fuel p s,
  s_fr s <> [] ->
  length (s_fr (snd (traverse I oracle fuel p s))) = length (s_fr s) /\
  exists w, s_out (snd (traverse I oracle fuel p s)) = s_out s ++ w /\
            Forall (fun c => exists g x k, c = FillGlyph g x k) w /\ well_nested w.
Proof. exact collector_forwards. Qed.
(* a stream with open scopes [stk] becomes well nested by closing them innermost first *)
Theorem c13_prefix_completes : forall w stk, nested_prefix w stk -> well_nested (w ++ map closer stk).
Proof. exact prefix_completes. Qed.

(* decycler: enter never indexes out of range, reports only cycle / depth errors, keeps depth <= 64 *)
Theorem c13_decycler_enter_safe : forall ids depth id,
  length ids = 64 -> depth <= 64 ->
  match dec_enter (ids, depth) id with
  | DPanic => False
  | DErr e => e = ECycle \/ e = EDepth
  | DOk (ids', depth') => length ids' = 64 /\ depth' = S depth /\ depth' <= 64
  end.
Proof. exact decycler_enter_safe. Qed.
(* an id equal to the one stored at index depth/2 is reported as a cycle *)
Theorem c13_decycler_detects : forall ids depth id,
  0 < depth -> depth < DMAX -> nth_error ids (Nat.div2 depth) = Some id ->
  dec_enter (ids, depth) id = DErr ECycle.
Proof. exact dec_enter_detects. Qed.
(* traversal never panics (array index, depth underflow on guard drop, missing collector frame) and
   restores the decycler depth on every path, errors included *)
Theorem c13_decycler_safe : forall I oracle fuel p s,
  (forall h g, oracle h g <> AErr EPanic) ->
  length (fst (s_dec s)) = 64 -> snd (s_dec s) <= 64 ->
  fst (traverse I oracle fuel p s) <> RErr EPanic /\
  length (fst (s_dec (snd (traverse I oracle fuel p s)))) = 64 /\
  snd (s_dec (snd (traverse I oracle fuel p s))) = snd (s_dec s).
Proof. exact traverse_decycler_safe. Qed.
Theorem c13_paint_never_panics : forall I oracle gid r s,
  (forall h g, oracle h g <> AErr EPanic) ->
  paint I oracle gid = Painted r s ->
  r <> RErr EPanic /\ length (fst (s_dec s)) = DMAX /\ snd (s_dec s) = 0.
Proof. exact paint_safe. Qed.

(* bounded number of visited paint nodes: V(0) = 1, V(f+1) = 1 + B * V(f), B >= 2 the largest
   ColrLayers range (B = 255 for every real table) *)
Theorem c13_visit_bound : forall I oracle B gid r s,
  2 <= B -> (forall ref st n, resolve I ref = Some (RLayers st n) -> n <= B) ->
  paint I oracle gid = Painted r s -> s_vis s <= vbound B 64.
Proof. exact paint_visits. Qed.
Theorem c13_visit_bound_255 : forall I oracle gid r s,
  (forall ref st n, resolve I ref = Some (RLayers st n) -> n <= 255) ->
  paint I oracle gid = Painted r s -> s_vis s <= vbound 255 64.
Proof. exact visit_bound_255. Qed.

(* cyclic or too deep paint graphs are errors: if a path of 64 edges starts at the glyph's root paint
   (any reachable cycle gives paths of every length) and the client never draws from its cache,
   painting does not report success ... *)
Theorem c13_cycle_is_error : forall I oracle gid ref id q r s,
  (forall h g, oracle h g <> AOk) ->
  base_glyph I gid = BSome ref id -> resolve I ref = Some q -> deep I 64 q ->
  paint I oracle gid = Painted r s -> r <> ROk.
Proof. exact paint_deep_not_ok. Qed.
(* ... and when moreover every reference within 64 edges resolves, the error is PaintCycleDetected
   or DepthLimitExceeded *)
Theorem c13_cycle_error_kind : forall I oracle gid ref id q r s,
  (forall h g, oracle h g = AUnimpl) ->
  base_glyph I gid = BSome ref id -> resolve I ref = Some q -> deep I 64 q -> closed I 64 q ->
  paint I oracle gid = Painted r s -> r = RErr ECycle \/ r = RErr EDepth.
Proof. exact paint_cycle_error_kind. Qed.

Print Assumptions c13_traverse_total.
Print Assumptions c13_paint_total.
Print Assumptions c13_balanced_on_ok.
Print Assumptions c13_balanced_on_ok_default_fill_glyph.
Print Assumptions c13_traverse_balanced.
Print Assumptions c13_collector_forwards_balanced.
Print Assumptions c13_prefix_completes.
Print Assumptions c13_decycler_enter_safe.
Print Assumptions c13_decycler_detects.
Print Assumptions c13_decycler_safe.
Print Assumptions c13_paint_never_panics.
Print Assumptions c13_visit_bound.
Print Assumptions c13_visit_bound_255.
Print Assumptions c13_cycle_is_error.
Print Assumptions c13_cycle_error_kind.
