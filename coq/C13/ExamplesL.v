(* C13 — non-vacuity examples for PropsL.v *)
From Coq Require Import ZArith NArith List Sorted.
From FV Require Import C13.Model C13.Lookup.
Import ListNotations.
Open Scope N_scope.

(* unsorted list with a duplicate: which record is found depends on the probe sequence, not on list order *)
Definition L1 : list (N * N) := [(5,10);(2,11);(5,12);(5,13);(7,14);(1,15)].
Example l1_finds_third_5 : bs_assoc L1 5 = LFound (5,13).         (* assoc would give 10 *)
Proof. vm_compute. reflexivity. Qed.
Example l1_misses_present_7 : bs_assoc L1 7 = LNone.                (* present, not found: completeness needs sortedness *)
Proof. vm_compute. reflexivity. Qed.
Example l1_misses_present_1 : bs_assoc L1 1 = LNone.
Proof. vm_compute. reflexivity. Qed.
Example l1_finds_2 : bs_assoc L1 2 = LFound (2,11).
Proof. vm_compute. reflexivity. Qed.
Example empty_none : bs_assoc ([] : list (N * N)) 3 = LNone.
Proof. vm_compute. reflexivity. Qed.

(* overlapping, nested, inverted (start > end) clip ranges *)
Definition CL1 : list (N * N) := [(0,9);(3,4);(6,2);(4,5)].
Example cl1_5 : bs_clip CL1 5 = LNone.          (* 5 is inside (0,9) and (4,5) but the probes end on the inverted (6,2) *)
Proof. vm_compute. reflexivity. Qed.
Example cl1_4 : bs_clip CL1 4 = LFound (3,4).
Proof. vm_compute. reflexivity. Qed.
Example cl1_1 : bs_clip CL1 1 = LFound (0,9).
Proof. vm_compute. reflexivity. Qed.
Example cl1_inverted_never_found : forall g, In g [0;1;2;3;4;5;6;7;8;9;10] -> bs_clip [(6,2)] g = LNone.
Proof. intros g H. repeat (destruct H as [<-|H]; [vm_compute; reflexivity|]). destruct H. Qed.

(* sorted: hypotheses of the completeness theorems are satisfiable, and the lookup agrees with assoc *)
Definition L2 : list (N * N) := [(1,13);(2,11);(5,12);(7,14)].
Example l2_sorted : StronglySorted (fun a b => fst a < fst b) L2.
Proof. repeat constructor; cbn; reflexivity. Qed.
Example l2_all : map (fun g => bs_assoc L2 g) [0;1;2;5;7;8] = [LNone; LFound (1,13); LFound (2,11); LFound (5,12); LFound (7,14); LNone].
Proof. vm_compute. reflexivity. Qed.
Definition CL2 : list (N * N) := [(1,1);(2,4);(6,9)].
Example cl2_sorted : StronglySorted (fun a b => fst a <= snd a /\ snd a < fst b /\ fst b <= snd b) CL2.
Proof. repeat constructor; cbn; discriminate || reflexivity. Qed.
Example cl2_all : map (fun g => bs_clip CL2 g) [0;1;3;5;9;10] = [LNone; LFound (1,1); LFound (2,4); LNone; LFound (6,9); LNone].
Proof. vm_compute. reflexivity. Qed.

(* a graph whose BaseGlyphList is unsorted with duplicates: glyph 5 paints the FOURTH record (a transform over a
   fill) without a clip box although (0,9) and (4,5) contain 5; glyph 1 is not a colour glyph for the code although
   a record exists; the sorted-list model of Model.inst_of disagrees on both *)
Definition GU := mkG [GFill (Some 0); GTransform 0; GFill (Some 1)] (Some []) (Some [(5,0);(2,2);(5,2);(5,1);(7,2);(1,2)]) [(0,9);(3,4);(6,2);(4,5)] None None.
Example gu_5 : run_case_bs GU 0 5 = (0, [PushT; Fill 0; PopT]).
Proof. vm_compute. reflexivity. Qed.
Example gu_5_assoc_model_differs : run_case GU 0 5 = (0, [PushClipBox; Fill 0; PopClip]).
Proof. vm_compute. reflexivity. Qed.
Example gu_2 : run_case_bs GU 0 2 = (0, [PushClipBox; Fill 1; PopClip]).
Proof. vm_compute. reflexivity. Qed.
Example gu_1_not_a_colour_glyph : run_case_bs GU 0 1 = (5, []).
Proof. vm_compute. reflexivity. Qed.
Example gu_not_sorted : graph_sorted GU = false.
Proof. vm_compute. reflexivity. Qed.
