(* C13 — executable model of COLR colour-glyph painting
   (skrifa/src/color/{mod.rs,traversal.rs,instance.rs}, skrifa/src/decycler.rs,
   read-fonts/src/tables/colr.rs), hand-written from the source, clause by clause.
   No proofs in this file.

   What the traversal consumes from a COLR table is abstracted to an [inst]: ARBITRARY functions
   (paint reference |-> resolved paint or ReadError; layer index |-> (paint, paint id) or ReadError;
   glyph id |-> base glyph paint / absent / ReadError; glyph id |-> has a clip box).  A hostile
   font is any such functions; the theorems quantify over all of them.  For the correspondence
   shards a concrete [graph] (lists) is turned into an [inst] by [inst_of].

   Floats are abstracted away: a callback is its kind plus glyph ids / composite modes / brush kind.
   Whether a gradient emits a [fill] at all (empty colour line, zero stop range with non-pad
   extend, ...) is float-dependent in the Rust code; the model takes it as data of the node
   ([RFill None] = nothing drawn). *)
From Coq Require Import NArith List Bool Arith.
Import ListNotations.

(* ---- ColorPainter callbacks as seen by the client (structural part only) ---- *)
Inductive cb :=
| PushT | PopT                       (* push_transform / pop_transform *)
| PushClipGlyph (g : N) | PushClipBox | PopClip
| Fill (k : N)                       (* fill; k = brush kind 0 solid 1 linear 2 radial 3 sweep *)
| FillGlyph (g : N) (xf : bool) (k : N)   (* fill_glyph(g, brush_transform.is_some(), brush kind) *)
| PushLayer (m : N) | PopLayer (m : N)    (* push_layer(mode) / pop_layer_with_mode(mode) *)
| Cached (g : N).                    (* paint_cached_color_glyph(g) was asked *)

(* PaintError classes; [EPanic] = a Rust panic (index out of bounds / usize underflow) *)
Inductive err := EParse | ENotFound | ECycle | EDepth | EPanic.
Inductive res := ROk | RErr (e : err).

(* answer of the client's paint_cached_color_glyph *)
Inductive answer := AOk | AUnimpl | AErr (e : err).

(* instance.rs: ResolvedPaint, children as paint references *)
Inductive rpaint :=
| RLayers (start : N) (num : nat)          (* ColrLayers { range: start..start+num } *)
| RFill (emit : option N)                  (* Solid / *Gradient: Some k = one fill(kind k), None = nothing *)
| RGlyph (gid : N) (child : N)
| RColrGlyph (gid : N)
| RTransform (child : N)                   (* Transform | Translate | Scale | Rotate | Skew *)
| RComposite (src : N) (mode : N) (backdrop : N).

Inductive bres := BErr | BNone | BSome (ref id : N).

Record inst := mkI {
  resolve : N -> option rpaint;            (* resolve_paint: None = Err(ReadError) *)
  layer : N -> option (N * N);             (* Colr::v1_layer: (paint, paint id); None = Err *)
  base_glyph : N -> bres;                  (* Colr::v1_base_glyph *)
  clip_box : N -> bool;                    (* get_clipbox_font_units(..).is_some() *)
  v0_base : N -> option (N * nat);         (* Colr::v0_base_glyph(..).ok().flatten(): (start, num) *)
  v0_layer : N -> option (N * N)           (* Colr::v0_layer: (glyph, palette index); None = Err *)
}.

(* ---- decycler.rs: Decycler<usize, 64> ---- *)
Definition DMAX : nat := 64.
Definition dec := (list N * nat)%type.       (* node_ids, depth *)
Inductive enter_res := DOk (d : dec) | DErr (e : err) | DPanic.

Fixpoint set_nth (l : list N) (i : nat) (v : N) : option (list N) :=
  match l, i with
  | [], _ => None
  | _ :: r, O => Some (v :: r)
  | x :: r, S i' => match set_nth r i' v with Some r' => Some (x :: r') | None => None end
  end.

(* Decycler::enter *)
Definition dec_enter (d : dec) (id : N) : enter_res :=
  let '(ids, depth) := d in
  if depth <? DMAX then
    let fresh :=                       (* self.depth == 0 || self.node_ids[self.depth / 2] != node_id *)
      if depth =? 0 then Some true
      else match nth_error ids (Nat.div2 depth) with
           | Some x => Some (negb (N.eqb x id))
           | None => None
           end in
    match fresh with
    | None => DPanic
    | Some true =>
        match set_nth ids depth id with        (* self.node_ids[self.depth] = node_id *)
        | Some ids' => DOk (ids', S depth)     (* self.depth += 1 *)
        | None => DPanic
        end
    | Some false => DErr ECycle
    end
  else DErr EDepth.

(* DecyclerGuard::drop: self.decycler.depth -= 1 *)
Definition dec_drop (d : dec) : option dec :=
  let '(ids, depth) := d in
  match depth with O => None | S k => Some (ids, k) end.

Definition dec0 : dec := (repeat 0%N DMAX, O).     (* Decycler::new *)

(* ---- painters: the client's (recording) painter under a stack of CollectFillGlyphPainter ---- *)
Record frame := mkF { f_gid : N; f_xf : bool; f_ok : bool }.   (* glyph_id, brush_transform.is_some(), optimization_success *)

Record st := mkS {
  s_fr : list frame;          (* innermost collector first; [] = the client's painter itself *)
  s_out : list cb;            (* what the client has received so far *)
  s_dec : dec;
  s_vis : nat                 (* number of traverse_with_callbacks invocations *)
}.

Definition set_dec (s : st) (d : dec) : st := mkS (s_fr s) (s_out s) d (s_vis s).
Definition tick (s : st) : st := mkS (s_fr s) (s_out s) (s_dec s) (S (s_vis s)).

Definition fail_frame (f : frame) : frame := mkF (f_gid f) (f_xf f) false.

(* parent_painter.fill_glyph(..): the client records it; a parent collector runs the trait's default
   fill_glyph = push_clip_glyph (success := false), push_transform/fill (ignored once false), pop_clip *)
Definition parent_fill_glyph (r : list frame) (out : list cb) (g : N) (xf : bool) (k : N) : list frame * list cb :=
  match r with
  | [] => ([], out ++ [FillGlyph g xf k])
  | p :: r' => (fail_frame p :: r', out)
  end.

(* impl ColorPainter for CollectFillGlyphPainter *)
Definition coll_cb (c : cb) (f : frame) (r : list frame) (out : list cb) : list frame * list cb :=
  match c with
  | PushT => if f_ok f then (mkF (f_gid f) true true :: r, out) else (f :: r, out)
  | PopT => (f :: r, out)
  | Fill k =>
      if f_ok f then let '(r', out') := parent_fill_glyph r out (f_gid f) (f_xf f) k in (f :: r', out')
      else (f :: r, out)
  | Cached _ => (f :: r, out)            (* default paint_cached_color_glyph: nothing recorded *)
  | _ => (fail_frame f :: r, out)        (* clips, layers, (default) fill_glyph: optimization_success = false *)
  end.

Definition emit (c : cb) (s : st) : st :=
  match s_fr s with
  | [] => mkS [] (s_out s ++ [c]) (s_dec s) (s_vis s)
  | f :: r => let '(fr', out') := coll_cb c f r (s_out s) in mkS fr' out' (s_dec s) (s_vis s)
  end.

(* painter.paint_cached_color_glyph(gid): the client is asked (and may look at everything it has
   seen so far); a collector answers Unimplemented without asking *)
Definition ask_cached (oracle : list cb -> N -> answer) (s : st) (g : N) : answer * st :=
  match s_fr s with
  | [] => (oracle (s_out s) g, emit (Cached g) s)
  | _ => (AUnimpl, s)
  end.

Definition push_frame (s : st) (g : N) : st := mkS (mkF g false true :: s_fr s) (s_out s) (s_dec s) (s_vis s).
Definition pop_frame (s : st) : option (frame * st) :=
  match s_fr s with
  | [] => None
  | f :: r => Some (f, mkS r (s_out s) (s_dec s) (s_vis s))
  end.

(* let mut cycle_guard = decycler.enter(id)?; body; drop(cycle_guard) — the guard is dropped on every
   path out of the scope, including `?` returns *)
Definition with_guard (s : st) (id : N) (body : st -> res * st) : res * st :=
  match dec_enter (s_dec s) id with
  | DPanic => (RErr EPanic, s)
  | DErr e => (RErr e, s)
  | DOk d' =>
      let '(r, s') := body (set_dec s d') in
      match dec_drop (s_dec s') with
      | None => (RErr EPanic, s')
      | Some d'' => (r, set_dec s' d'')
      end
  end.

(* for layer_index in range.clone() { step(layer_index)?; } Ok(()) *)
Fixpoint layers_loop (step : N -> st -> res * st) (n : nat) (i : N) (s : st) : res * st :=
  match n with
  | O => (ROk, s)
  | S n' =>
      let '(r, s') := step i s in
      match r with
      | ROk => layers_loop step n' (N.succ i) s'
      | RErr _ => (r, s')
      end
  end.

(* what ColorGlyphCollection::get(gid) found, then the result of ColorGlyph::paint *)
Inductive outcome := NoGlyph | Painted (r : res) (s : st).

Section Traverse.
  Variable I : inst.
  Variable oracle : list cb -> N -> answer.

  (* traversal.rs: traverse_with_callbacks; fuel = MAX_TRAVERSAL_DEPTH - recurse_depth *)
  Fixpoint traverse (fuel : nat) (p : rpaint) (s : st) : res * st :=
    let s := tick s in
    match fuel with
    | O => (RErr EDepth, s)                 (* if recurse_depth >= MAX_TRAVERSAL_DEPTH *)
    | S f =>
      match p with
      | RLayers start num =>
          layers_loop (fun i s =>
            match layer I i with                         (* instance.v1_layer(layer_index)? *)
            | None => (RErr EParse, s)
            | Some (ref, id) =>
                with_guard s id (fun s =>                (* decycler.enter(paint_id)? *)
                  match resolve I ref with               (* resolve_paint(instance, &layer_paint)? *)
                  | None => (RErr EParse, s)
                  | Some q => traverse f q s
                  end)
            end) num start s
      | RFill None => (ROk, s)
      | RFill (Some k) => (ROk, emit (Fill k) s)
      | RGlyph gid child =>
          match resolve I child with                     (* &resolve_paint(instance, paint)? *)
          | None => (RErr EParse, s)
          | Some q =>
              let s1 := push_frame s gid in              (* CollectFillGlyphPainter::new(painter, glyph_id) *)
              let '(r1, s2) := traverse f q s1 in
              match pop_frame s2 with
              | None => (RErr EPanic, s2)                (* cannot happen: see Proofs.traverse_shape *)
              | Some (fr, s3) =>
                  if f_ok fr then (r1, s3)
                  else                                   (* !optimizer.optimization_success *)
                    let s4 := emit (PushClipGlyph gid) s3 in
                    match resolve I child with
                    | None => (RErr EParse, s4)
                    | Some q2 =>
                        let '(r2, s5) := traverse f q2 s4 in
                        (r2, emit PopClip s5)
                    end
              end
          end
      | RColrGlyph gid =>
          match base_glyph I gid with                    (* instance.v1_base_glyph(glyph_id)? *)
          | BErr => (RErr EParse, s)
          | BNone => (RErr ENotFound, s)
          | BSome ref id =>
              with_guard s id (fun s =>                  (* decycler.enter(base_glyph_paint_id)? *)
                let '(a, s) := ask_cached oracle s gid in   (* painter.paint_cached_color_glyph(glyph_id)? *)
                match a with
                | AErr e => (RErr e, s)
                | AOk => (ROk, s)
                | AUnimpl =>
                    let cbx := clip_box I gid in
                    let s := if cbx then emit PushClipBox s else s in
                    match resolve I ref with             (* &resolve_paint(instance, &base_glyph)? *)
                    | None => (RErr EParse, s)
                    | Some q =>
                        let '(r, s) := traverse f q s in
                        (r, if cbx then emit PopClip s else s)
                    end
                end)
          end
      | RTransform child =>
          let s := emit PushT s in                       (* painter.push_transform(paint.try_into()?) — infallible for these kinds *)
          match resolve I child with
          | None => (RErr EParse, s)
          | Some q =>
              let '(r, s) := traverse f q s in
              (r, emit PopT s)
          end
      | RComposite src mode backdrop =>
          let s := emit (PushLayer 3) s in               (* CompositeMode::SrcOver = 3 *)
          match resolve I backdrop with
          | None => (RErr EParse, s)
          | Some qb =>
              let '(r, s) := traverse f qb s in
              match r with
              | RErr _ => (r, s)                         (* result?; *)
              | ROk =>
                  let s := emit (PushLayer mode) s in
                  match resolve I src with
                  | None => (RErr EParse, s)
                  | Some qs =>
                      let '(r, s) := traverse f qs s in
                      (r, emit (PopLayer 3) (emit (PopLayer mode) s))
                  end
              end
          end
      end
    end.

  Definition init_st : st := mkS [] [] dec0 O.

  (* traversal.rs: traverse_v0_range *)
  Fixpoint v0_loop (n : nat) (i : N) (s : st) : res * st :=
    match n with
    | O => (ROk, s)
    | S n' =>
        match v0_layer I i with
        | None => (RErr EParse, s)
        | Some (g, _) => v0_loop n' (N.succ i) (emit (FillGlyph g false 0) s)
        end
    end.

  (* what ColorGlyphCollection::get(gid) found, then ColorGlyph::paint *)
  Definition paint (gid : N) : outcome :=
    match base_glyph I gid with
    | BSome ref id =>                                    (* ColorGlyphRoot::V1Paint *)
        let cbx := clip_box I gid in
        let s := if cbx then emit PushClipBox init_st else init_st in
        let '(r, s) := with_guard s id (fun s =>
          match resolve I ref with
          | None => (RErr EParse, s)
          | Some q => traverse 64 q s
          end) in
        match r with
        | ROk => Painted ROk (if cbx then emit PopClip s else s)
        | RErr _ => Painted r s
        end
    | _ =>
        match v0_base I gid with
        | Some (start, num) => let '(r, s) := v0_loop num start init_st in Painted r s
        | None => NoGlyph
        end
    end.
End Traverse.

(* ---- well-nestedness of a callback stream ---- *)
Inductive sym := ST | SC | SL (m : N).

Definition step_cb (c : cb) (stk : list sym) : option (list sym) :=
  match c with
  | PushT => Some (ST :: stk)
  | PopT => match stk with ST :: r => Some r | _ => None end
  | PushClipGlyph _ | PushClipBox => Some (SC :: stk)
  | PopClip => match stk with SC :: r => Some r | _ => None end
  | PushLayer m => Some (SL m :: stk)
  | PopLayer m => match stk with SL m' :: r => if N.eqb m m' then Some r else None | _ => None end
  | Fill _ | FillGlyph _ _ _ | Cached _ => Some stk
  end.

Fixpoint run (w : list cb) (stk : list sym) : option (list sym) :=
  match w with
  | [] => Some stk
  | c :: w' => match step_cb c stk with Some stk' => run w' stk' | None => None end
  end.

(* every push is popped exactly once, last in first out, nothing popped that was not pushed,
   and a layer is popped with the mode it was pushed with *)
Definition well_nested (w : list cb) : Prop := run w [] = Some [].
(* no pop without a matching open push so far (the open pushes are [stk], innermost first) *)
Definition nested_prefix (w : list cb) (stk : list sym) : Prop := run w [] = Some stk.

(* the callbacks that close the open scopes [stk] *)
Definition closer (x : sym) : cb := match x with ST => PopT | SC => PopClip | SL m => PopLayer m end.

(* the trait's default fill_glyph, for clients that do not override it *)
Definition expand_cb (c : cb) : list cb :=
  match c with
  | FillGlyph g true k => [PushClipGlyph g; PushT; Fill k; PopT; PopClip]
  | FillGlyph g false k => [PushClipGlyph g; Fill k; PopClip]
  | _ => [c]
  end.
Definition expand (w : list cb) : list cb := flat_map expand_cb w.

(* explicit bound on the number of visited nodes: V 0 = 1, V (f+1) = 1 + B * V f *)
Fixpoint vbound (B : nat) (fuel : nat) : nat :=
  match fuel with O => 1 | S f => 1 + B * vbound B f end.

(* ---- the paint graph as a relation (specification side, used by the cycle theorems) ---- *)
Inductive edge (I : inst) : rpaint -> rpaint -> Prop :=
| e_layer st num i ref id q :
    (st <= i)%N -> (i < st + N.of_nat num)%N -> layer I i = Some (ref, id) -> resolve I ref = Some q ->
    edge I (RLayers st num) q
| e_glyph g c q : resolve I c = Some q -> edge I (RGlyph g c) q
| e_colr g ref id q : base_glyph I g = BSome ref id -> resolve I ref = Some q -> edge I (RColrGlyph g) q
| e_xf c q : resolve I c = Some q -> edge I (RTransform c) q
| e_src a m b q : resolve I a = Some q -> edge I (RComposite a m b) q
| e_back a m b q : resolve I b = Some q -> edge I (RComposite a m b) q.

(* [deep I n p]: a path of n edges starts at p (a reachable cycle gives [forall n, deep I n p]) *)
Inductive deep (I : inst) : nat -> rpaint -> Prop :=
| deep0 p : deep I 0 p
| deepS n p q : edge I p q -> deep I n q -> deep I (S n) p.

(* [closed I n p]: every reference made within n edges of p resolves (no ReadError, no missing glyph) *)
Fixpoint closed (I : inst) (n : nat) (p : rpaint) : Prop :=
  match n with
  | O => True
  | S n' =>
      match p with
      | RLayers st num => forall i, (st <= i)%N -> (i < st + N.of_nat num)%N ->
          exists ref id q, layer I i = Some (ref, id) /\ resolve I ref = Some q /\ closed I n' q
      | RFill _ => True
      | RGlyph _ c | RTransform c => exists q, resolve I c = Some q /\ closed I n' q
      | RColrGlyph g => exists ref id q, base_glyph I g = BSome ref id /\ resolve I ref = Some q /\ closed I n' q
      | RComposite a _ b => (exists q, resolve I a = Some q /\ closed I n' q) /\ (exists q, resolve I b = Some q /\ closed I n' q)
      end
  end.

(* every ColrLayers range has at most B layers (B = 255 for every real table: num_layers is a u8) *)
Definition layers_le (B : nat) (p : rpaint) : Prop := match p with RLayers _ n => n <= B | _ => True end.

(* ---- concrete graphs for the correspondence shards ---- *)
Inductive gnode :=
| GBad                                   (* a paint table whose format byte is invalid *)
| GLayers (start : N) (num : nat)
| GFill (emit : option N)
| GGlyph (gid : N) (child : N)
| GColrGlyph (gid : N)
| GTransform (child : N)
| GComposite (src : N) (mode : N) (backdrop : N).

Record graph := mkG {
  g_nodes : list gnode;                  (* paint reference = index *)
  g_layers : option (list N);            (* LayerList.paint_offsets; None = no LayerList *)
  g_base : option (list (N * N));        (* BaseGlyphList (glyph id, paint), sorted by glyph id *)
  g_clips : list (N * N);                (* ClipList glyph ranges, sorted, disjoint *)
  g_v0base : option (list (N * (N * nat)));   (* baseGlyphRecords (glyph id, (first layer, num layers)) *)
  g_v0layers : option (list (N * N))     (* layerRecords (glyph id, palette index) *)
}.

Definition lookup {A} (l : list A) (i : N) : option A :=
  if N.ltb i (N.of_nat (length l)) then nth_error l (N.to_nat i) else None.

Fixpoint assoc {A} (l : list (N * A)) (k : N) : option A :=
  match l with
  | [] => None
  | (k', v) :: r => if N.eqb k k' then Some v else assoc r k
  end.

Definition is_bad (nodes : list gnode) (ref : N) : bool :=
  match lookup nodes ref with Some GBad | None => true | Some _ => false end.

(* resolve_paint fails when the paint itself or the Paint::read of a direct child fails *)
Definition g_resolve (nodes : list gnode) (ref : N) : option rpaint :=
  match lookup nodes ref with
  | None | Some GBad => None
  | Some (GLayers s n) => Some (RLayers s n)
  | Some (GFill e) => Some (RFill e)
  | Some (GGlyph g c) => if is_bad nodes c then None else Some (RGlyph g c)
  | Some (GColrGlyph g) => Some (RColrGlyph g)
  | Some (GTransform c) => if is_bad nodes c then None else Some (RTransform c)
  | Some (GComposite a m b) => if is_bad nodes a || is_bad nodes b then None else Some (RComposite a m b)
  end.

Definition inst_of (g : graph) : inst :=
  mkI (g_resolve (g_nodes g))
      (fun i => match g_layers g with
                | None => None
                | Some l => match lookup l i with
                            | None => None
                            | Some ref => if is_bad (g_nodes g) ref then None else Some (ref, ref)
                            end
                end)
      (fun gid => match g_base g with
                  | None => BErr
                  | Some l => match assoc l gid with
                              | None => BNone
                              | Some ref => if is_bad (g_nodes g) ref then BErr else BSome ref ref
                              end
                  end)
      (fun gid => existsb (fun r => N.leb (fst r) gid && N.leb gid (snd r)) (g_clips g))
      (fun gid => match g_v0base g with None => None | Some l => assoc l gid end)
      (fun i => match g_v0layers g with None => None | Some l => lookup l i end).

(* the client answers used by the harness *)
Definition count_cached (w : list cb) : nat :=
  length (filter (fun c => match c with Cached _ => true | _ => false end) w).
Definition oracle_of (mode : N) : list cb -> N -> answer :=
  fun hist g =>
    match mode with
    | 0%N => AUnimpl
    | 1%N => AOk
    | 2%N => if N.even g then AOk else AUnimpl
    | _ => if 2 <=? count_cached hist then AErr ENotFound else AUnimpl
    end.

Definition class_of (r : res) : N :=
  match r with
  | ROk => 0 | RErr EParse => 1 | RErr ENotFound => 2 | RErr ECycle => 3 | RErr EDepth => 4 | RErr EPanic => 9
  end%N.

Definition cb_eqb (a b : cb) : bool :=
  match a, b with
  | PushT, PushT | PopT, PopT | PushClipBox, PushClipBox | PopClip, PopClip => true
  | PushClipGlyph g, PushClipGlyph g' => N.eqb g g'
  | Fill k, Fill k' => N.eqb k k'
  | FillGlyph g x k, FillGlyph g' x' k' => N.eqb g g' && Bool.eqb x x' && N.eqb k k'
  | PushLayer m, PushLayer m' | PopLayer m, PopLayer m' => N.eqb m m'
  | Cached g, Cached g' => N.eqb g g'
  | _, _ => false
  end.

Fixpoint cbs_eqb (a b : list cb) : bool :=
  match a, b with
  | [], [] => true
  | x :: a', y :: b' => cb_eqb x y && cbs_eqb a' b'
  | _, _ => false
  end.

(* observation = (client mode, glyph id, (result class observed (5 = no colour glyph), callbacks observed)) *)
Definition run_case (g : graph) (mode gid : N) : N * list cb :=
  match paint (inst_of g) (oracle_of mode) gid with
  | NoGlyph => (5%N, [])
  | Painted r s => (class_of r, s_out s)
  end.

(* a client that implements only the required methods: fill_glyph is the trait's default (expanded), and
   pop_layer_with_mode's default forwards to pop_layer, which carries no mode (recorded as 255) *)
Definition strip_pop (c : cb) : cb := match c with PopLayer _ => PopLayer 255 | _ => c end.

(* client mode >= 10: the same client answers (mode - 10) given by a painter relying on the default fill_glyph.
   ([oracle_of] looks only at the number of Cached events seen so far, which the expansion preserves.) *)
Definition check_sub (g : graph) (c : N * N * (N * list cb)) : bool :=
  let '(mode, gid, (cls, cbs)) := c in
  if N.leb 10 mode then
    let '(mcls, mcbs) := run_case g (mode - 10) gid in
    N.eqb cls mcls && cbs_eqb cbs (map strip_pop (expand mcbs))
  else
    let '(mcls, mcbs) := run_case g mode gid in
    N.eqb cls mcls && cbs_eqb cbs mcbs.

(* one graph, several (client mode, glyph id, (class, callbacks)) observations *)
Definition check_case (c : graph * list (N * N * (N * list cb))) : bool :=
  forallb (check_sub (fst c)) (snd c).
