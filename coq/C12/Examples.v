(* C12 — non-vacuity examples and refutation witnesses *)
From Coq Require Import ZArith List Bool String.
From FV Require Import Lib.RustInt C12.Carve C12.Gen C12.Path C12.Model C12.Proofs.
Import ListNotations.
Open Scope list_scope.
Open Scope Z_scope.

(* a hinted variable glyph: 30 points, 3 contours, twilight 20, cvt 40, storage 16, stack 288 *)
Definition ex_counts : counts :=
  {| c_points := 34; c_contours := 3; c_max_simple_points := 34; c_max_other_points := 34;
     c_max_component_delta_stack := 0; c_max_stack := 288; c_cvt_count := 40; c_storage_count := 16;
     c_max_twilight_points := 20; c_has_hinting := true; c_has_variations := true |}.

Example ex_counts_nonneg : counts_nonneg ex_counts.
Proof. unfold counts_nonneg; cbn; repeat split; discriminate. Qed.

(* the hypotheses of c12_carve_fits are met at an odd base address with exactly the advertised size,
   and the carve succeeds with 14 slices *)
Example ex_carve_fits_odd_address :
  let n := required_buffer_size ex_counts true in
  n = 3120 /\ 0 <= 4097 /\ 4097 + n + 8 <= 2 ^ 64 /\
  match carve 4097 n (inst ex_counts true ft_allocs) with Done l => List.length l = 14%nat | _ => False end.
Proof. vm_compute. repeat split; discriminate. Qed.

(* 3 bytes of padding are really needed at that address: slack - 1 bytes less fail *)
Example ex_carve_needs_slack :
  carve 4097 (required_buffer_size ex_counts true - 2) (inst ex_counts true ft_allocs) = Short /\
  exists l, carve 4096 (required_buffer_size ex_counts true - 4) (inst ex_counts true ft_allocs) = Done l.
Proof. split; [vm_compute; reflexivity|]. eexists. vm_compute. reflexivity. Qed.

(* the HarfBuzz sequence is NOT well ordered (u8 flags are followed by 4-aligned deltas): the
   monotone-alignment premise is false there, which is why c12_hb_carve_fits has its own proof *)
Example hb_sequence_not_well_ordered : static_ok slack hb_allocs = false.
Proof. vm_compute. reflexivity. Qed.

(* ... and with max_other_points = 0 the HarfBuzz carve of the advertised size can fail in the model
   (counts that no real glyph produces: a simple glyph always contributes to max_other_points) *)
Example hb_carve_fits_needs_other_points_refuted :
  exists c a, counts_nonneg c /\ c_max_other_points c = 0 /\
    carve a (required_buffer_size c false) (inst c false hb_allocs) = Short.
Proof.
  exists {| c_points := 5; c_contours := 2; c_max_simple_points := 5; c_max_other_points := 0;
            c_max_component_delta_stack := 0; c_max_stack := 0; c_cvt_count := 0; c_storage_count := 0;
            c_max_twilight_points := 0; c_has_hinting := false; c_has_variations := true |}, 4097.
  split; [unfold counts_nonneg; cbn; repeat split; discriminate|]. split; vm_compute; reflexivity.
Qed.

(* a table whose field is only resized and not reset is history dependent (the check is not vacuous) *)
Example resize_only_is_history_dependent :
  let tbl := [("f"%string, AResizeOnly "n"%string)] in
  let cfg := {| sz := fun _ => 1%nat; fill := fun _ => [] |} in
  forallb (history_free_entry []) tbl = false /\
  post_reset tbl [] cfg [("f"%string, [7])] <> post_reset tbl [] cfg [("f"%string, [9])].
Proof. split; [reflexivity|]. cbv. discriminate. Qed.

(* `instructions` is exactly that case in the extracted table, saved by reset(Program::Font) *)
Example instructions_rely_on_font_reset :
  assoc "instructions"%string setup_table = Some (AResizeOnly "max_instruction_defs"%string) /\
  mem "instructions"%string gen_reset_fields = true /\
  forallb (history_free_entry []) setup_table = false.
Proof. vm_compute. repeat split; reflexivity. Qed.

(* location *)
Example ex_effective_coords :
  effective_coords [0; 0; 0] = [] /\ effective_coords [0; 8192] = [0; 8192] /\ effective_coords [] = [].
Proof. vm_compute. repeat split; reflexivity. Qed.

(* a contour starting off-curve, both styles; an error case (lone cubic off-curve) *)
Example ex_to_path_ft :
  option_map (map enc_cmd) (to_path_model 0 [(0, 0, 0); (64, 0, 1); (64, 64, 0)] [2]) =
  Some [(0, [32; 32]); (2, [0; 0; 64; 0]); (2, [64; 64; 32; 32]); (4, [])].
Proof. vm_compute. reflexivity. Qed.
Example ex_to_path_hb :
  option_map (map enc_cmd) (to_path_model 1 [(0, 0, 0); (64, 0, 1); (64, 64, 0)] [2]) =
  Some [(0, [64; 0]); (2, [64; 64; 32; 32]); (2, [0; 0; 64; 0]); (4, [])].
Proof. vm_compute. reflexivity. Qed.
Example ex_to_path_error : to_path_model 0 [(0, 0, 1); (5, 5, 128); (9, 9, 1)] [2] = None.
Proof. vm_compute. reflexivity. Qed.

(* a metrics cache carried over from another location makes a draw return the OLD location's metrics: the
   soundness hypothesis of c12_auto_draws_function_of_location is necessary (this is what a reconfigure that
   reuses the autohinter instance would cause) *)
Example stale_auto_cache_refuted :
  let compute := fun (coords : list Z) (st : Z) => fold_right Z.add st coords in
  let stale := fst (auto_draw_all compute [100] [] [7]) in
  snd (auto_draw_all compute [200] stale [7]) <> map (compute [200]) [7] /\
  snd (auto_draw_all compute [200] [] [7; 7; 3]) = map (compute [200]) [7; 7; 3].
Proof. split; [vm_compute; discriminate|vm_compute; reflexivity]. Qed.
