(* C12 — property theorems.  Only statements, [exact lemma] and Print Assumptions.
   ft_allocs, hb_allocs, required_buffer_size, slack, setup_table, reset_maps, ... are the definitions
   the translator regenerates from /repo on every run (coq/C12/Gen.v). *)
From Coq Require Import ZArith List Bool String Permutation.
From FV Require Import Lib.RustInt C12.Carve C12.Gen C12.Path C12.Model C12.Proofs.
Import ListNotations.
Open Scope list_scope.
Open Scope Z_scope.

(* --- caller memory: carving the advertised size never fails, at EVERY base address --- *)
Theorem c12_carve_fits : forall c hinted a n,
  counts_nonneg c -> 0 <= a -> a + n + 8 <= 2 ^ 64 -> required_buffer_size c hinted <= n ->
  exists l, carve a n (inst c hinted ft_allocs) = Done l.
Proof. exact ft_carve_fits. Qed.

(* HarfBuzz-style memory: alignments are not monotone there; the size still suffices as soon as the
   outline has any `other` points, because the size formula pays for a buffer this path never carves *)
Theorem c12_hb_carve_fits : forall c a n,
  counts_nonneg c -> 1 <= c_max_other_points c -> 0 <= a -> a + n + 8 <= 2 ^ 64 ->
  required_buffer_size c false <= n ->
  exists l, carve a n (inst c false hb_allocs) = Done l.
Proof. exact hb_carve_fits. Qed.

(* the two extracted artefacts agree: the size formula is the sum of the allocation sequence + slack *)
Theorem c12_required_is_sum_plus_slack : forall c hinted,
  required_buffer_size c hinted =
    let t := total (inst c hinted ft_allocs) in if t =? 0 then 0 else t + slack.
Proof. exact required_eq_total. Qed.

(* premises of carve_fits, evaluated on the extracted sequence: alignments in {1,2,4,8}, each dividing
   its predecessor, element sizes positive multiples of their alignment, no alignment above the slack *)
Theorem c12_extracted_sequence_well_ordered : static_ok slack ft_allocs = true.
Proof. exact ft_static_ok. Qed.

(* too small a buffer is reported (None => InsufficientMemory), never a panic *)
Theorem c12_carve_short_none : forall c hinted a n,
  counts_nonneg c -> 0 <= a -> 0 <= n -> a + n + 8 <= 2 ^ 64 -> required_buffer_size c hinted < 2 ^ 64 ->
  n < total (inst c hinted ft_allocs) -> carve a n (inst c hinted ft_allocs) = Short.
Proof. exact ft_carve_short. Qed.
Theorem c12_carve_short_none_advertised : forall c hinted a n,
  counts_nonneg c -> 0 <= a -> 0 <= n -> a + n + 8 <= 2 ^ 64 -> required_buffer_size c hinted < 2 ^ 64 ->
  n + slack < required_buffer_size c hinted -> carve a n (inst c hinted ft_allocs) = Short.
Proof. exact ft_carve_short_required. Qed.
Theorem c12_carve_never_panics : forall c hinted a n,
  counts_nonneg c -> 0 <= a -> 0 <= n -> a + n + 8 <= 2 ^ 64 -> required_buffer_size c hinted < 2 ^ 64 ->
  carve a n (inst c hinted ft_allocs) <> Panic.
Proof. exact ft_carve_never_panics. Qed.

(* the slices lie inside the buffer, in order, pairwise disjoint, aligned for their type and of exactly
   count * size bytes *)
Theorem c12_carve_disjoint_inrange : forall c hinted a n l,
  0 <= n -> carve a n (inst c hinted ft_allocs) = Done l ->
  ranges_ok 0 n l /\ slices_match a (inst c hinted ft_allocs) l.
Proof. exact ft_carve_disjoint_inrange. Qed.

Theorem c12_carve_lengths_independent_of_address : forall c hinted a n l a' n' l',
  0 <= n -> 0 <= n' ->
  carve a n (inst c hinted ft_allocs) = Done l -> carve a' n' (inst c hinted ft_allocs) = Done l' ->
  map snd l = map snd l'.
Proof. exact ft_carve_lengths_independent. Qed.

(* --- history: a reconfigured HintInstance does not depend on what it was configured for before --- *)
(* generic: any setup table whose every field is cleared / rebuilt / assigned, or resized and then wiped
   by the first program's reset *)
Theorem c12_post_reset_history_free : forall tbl rf,
  forallb (history_free_entry rf) tbl = true ->
  forall cfg s s', post_reset tbl rf cfg s = post_reset tbl rf cfg s'.
Proof. exact post_reset_history_free. Qed.

(* the discipline extracted from instance.rs / dispatch.rs / definition.rs passes that check *)
Theorem c12_extracted_discipline_ok : gen_discipline_ok = true.
Proof. exact gen_discipline_holds. Qed.

Theorem c12_reconfigure_history_free : forall (run : hcfg -> hstate -> option hstate) cfg s1 s2,
  reconfigure run setup_table gen_reset_fields cfg s1 = reconfigure run setup_table gen_reset_fields cfg s2.
Proof. exact reconfigure_history_free. Qed.

(* HintingInstance::reconfigure (fonts of any format, any engine): result and new state do not depend
   on the previous state *)
Theorem c12_hinting_instance_reconfigure_history_free : forall run inner_cfg cff auto s s' cfg,
  outer_reconfigure run inner_cfg cff auto setup_table gen_reset_fields hinting_instance_table
                    cff_subfonts_cleared gen_auto_reuse s cfg =
  outer_reconfigure run inner_cfg cff auto setup_table gen_reset_fields hinting_instance_table
                    cff_subfonts_cleared gen_auto_reuse s' cfg.
Proof. exact outer_history_free. Qed.

(* autohinter: the extracted Engine::Auto arm / Instance::new do not carry the replaced instance over ... *)
Theorem c12_extracted_autohint_discipline_ok : gen_auto_reuse = false.
Proof. exact gen_auto_discipline_holds. Qed.
(* ... so its lazily filled per-(font, location) metrics cache is empty after every reconfigure ... *)
Theorem c12_auto_cache_fresh_after_reconfigure : forall run inner_cfg cff auto s cfg,
  oc_engine cfg = EAuto -> oc_fmt cfg <> FNone ->
  exists i, o_kind (snd (outer_reconfigure run inner_cfg cff auto setup_table gen_reset_fields
                           hinting_instance_table cff_subfonts_cleared gen_auto_reuse s cfg)) = KAuto i [].
Proof. exact outer_auto_cache_fresh. Qed.
(* ... and draws through a cache that holds only this location's metrics (in particular an empty one) return
   this location's metrics, in any order, and keep it so *)
Theorem c12_auto_draws_function_of_location : forall compute coords sts c,
  cache_sound compute coords c ->
  snd (auto_draw_all compute coords c sts) = map (compute coords) sts /\
  cache_sound compute coords (fst (auto_draw_all compute coords c sts)).
Proof. exact auto_draws_function_of_location. Qed.

(* --- draws do not write the instance; order of draws is irrelevant --- *)
Theorem c12_hint_does_not_write_instance : forall gp s g, fst (hint gp s g) = s.
Proof. exact hint_state_unchanged. Qed.

Theorem c12_draw_order_independent : forall gp s gs gs',
  Permutation gs gs' ->
  fst (draw_all gp s gs) = s /\ fst (draw_all gp s gs') = s /\
  Permutation (snd (draw_all gp s gs)) (snd (draw_all gp s gs')) /\
  (forall g o, In (g, o) (snd (draw_all gp s gs)) -> o = snd (hint gp s g)).
Proof. exact draw_order_independent. Qed.

(* --- location --- *)
Theorem c12_zero_location_equiv : forall l, Forall (fun c => c = 0) l ->
  effective_coords l = effective_coords [] /\ effective_coords l = [].
Proof. exact zero_location_equiv. Qed.
Theorem c12_nonzero_location_kept : forall l, ~ Forall (fun c => c = 0) l -> effective_coords l = l.
Proof. exact nonzero_location_kept. Qed.

(* --- a successful to_path emits (MoveTo (LineTo|QuadTo|CurveTo)* Close)*, both path styles --- *)
Theorem c12_to_path_wellformed : forall style pts ends cmds,
  to_path style pts ends = Some cmds -> wf_stream cmds = true.
Proof. exact to_path_wellformed. Qed.

Print Assumptions c12_carve_fits.
Print Assumptions c12_hb_carve_fits.
Print Assumptions c12_required_is_sum_plus_slack.
Print Assumptions c12_extracted_sequence_well_ordered.
Print Assumptions c12_carve_short_none.
Print Assumptions c12_carve_short_none_advertised.
Print Assumptions c12_carve_never_panics.
Print Assumptions c12_carve_disjoint_inrange.
Print Assumptions c12_carve_lengths_independent_of_address.
Print Assumptions c12_post_reset_history_free.
Print Assumptions c12_extracted_discipline_ok.
Print Assumptions c12_reconfigure_history_free.
Print Assumptions c12_hinting_instance_reconfigure_history_free.
Print Assumptions c12_extracted_autohint_discipline_ok.
Print Assumptions c12_auto_cache_fresh_after_reconfigure.
Print Assumptions c12_auto_draws_function_of_location.
Print Assumptions c12_hint_does_not_write_instance.
Print Assumptions c12_draw_order_independent.
Print Assumptions c12_zero_location_equiv.
Print Assumptions c12_nonzero_location_kept.
Print Assumptions c12_to_path_wellformed.
