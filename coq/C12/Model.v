(* C12 — executable model (no proofs):
   * HintInstance::{setup, reconfigure, hint} (skrifa/src/outline/glyf/hint/instance.rs) and
     Engine::reset (hint/engine/dispatch.rs) DRIVEN BY the tables the translator extracts into Gen.v;
   * HintingInstance::reconfigure (skrifa/src/outline/hint.rs);
   * LocationRef::{is_default, effective_coords} (skrifa/src/instance.rs);
   * the correspondence case format written by harness/src/bin/c12.rs.
   The bytecode interpreter, the CFF subfont constructor and the autohinter are NOT modelled: they are
   Section variables that receive exactly the state the Rust code hands them. *)
From Coq Require Import ZArith List Bool String.
From FV Require Import Lib.RustInt C12.Carve C12.Gen C12.Path.
Import ListNotations.
Open Scope Z_scope.

(* ---------- HintInstance as a table of fields ---------- *)
(* every field is a vector of integers (scalars: one element; Definition / Point / graphics state:
   any injective integer coding — the model never looks inside) *)
Definition hstate := list (string * list Z).

Fixpoint lookup (f : string) (s : hstate) : list Z :=
  match s with
  | [] => []                                   (* HintInstance::default(): empty vectors *)
  | (g, v) :: r => if String.eqb f g then v else lookup f r
  end.

Fixpoint assoc {A} (k : string) (l : list (string * A)) : option A :=
  match l with
  | [] => None
  | (g, v) :: r => if String.eqb k g then Some v else assoc k r
  end.

Definition mem (f : string) (l : list string) : bool := existsb (String.eqb f) l.

(* what reconfigure's arguments (outlines, scale, ppem, target, coords) determine *)
Record hcfg := { sz : string -> nat;            (* outlines.max_function_defs, max_storage, ... *)
                 fill : string -> list Z }.     (* value a field gets when it is rebuilt from the arguments *)

(* Vec::resize(n, d) *)
Definition resize (n : nat) (d : Z) (l : list Z) : list Z := firstn n l ++ repeat d (n - List.length l).

Definition apply_action (cfg : hcfg) (f : string) (a : action) (old : list Z) : list Z :=
  match a with
  | AClearResize n => resize (sz cfg n) 0 []    (* self.f.clear(); self.f.resize(n, default) *)
  | AResizeOnly n => resize (sz cfg n) 0 old    (* self.f.resize(n, default) *)
  | AClearFill => fill cfg f
  | AAssign => fill cfg f
  | ATake => []
  | AUntouched => old
  | AUnknown => old
  end.

(* HintInstance::setup, field by field as extracted *)
Definition setup (tbl : list (string * action)) (cfg : hcfg) (s : hstate) : hstate :=
  map (fun fa => (fst fa, apply_action cfg (fst fa) (snd fa) (lookup (fst fa) s))) tbl.

(* instance fields that Engine::reset(p) fills with defaults, through the maps handed over by
   reconfigure (only DefinitionMap::Mut is reset; only if DefinitionMap::reset still fills) *)
Definition reset_fields (defmaps : list (string * (string * bool))) (fills : bool)
           (resets : list (string * list string)) (p : string) : list string :=
  match assoc p resets with
  | None => []
  | Some maps =>
      flat_map (fun m => match assoc m defmaps with
                         | Some (f, true) => if fills then [f] else []
                         | _ => []
                         end) maps
  end.

(* fields reset before the first instruction of any program runs in reconfigure *)
Definition first_reset_fields defmaps fills resets (programs : list string) : list string :=
  match programs with
  | p :: _ => reset_fields defmaps fills resets p
  | [] => []
  end.

(* DefinitionMap::reset: defs.fill(Default::default()) *)
Definition reset_program (fields : list string) (s : hstate) : hstate :=
  map (fun fv => if mem (fst fv) fields then (fst fv, map (fun _ => 0) (snd fv)) else fv) s.

(* the state the first program sees *)
Definition post_reset (tbl : list (string * action)) (rf : list string) (cfg : hcfg) (s : hstate) : hstate :=
  reset_program rf (setup tbl cfg s).

(* a setup action leaves nothing of the previous configuration behind *)
Definition history_free_entry (rf : list string) (fa : string * action) : bool :=
  match snd fa with
  | AClearResize _ | AClearFill | AAssign | ATake => true
  | AResizeOnly _ => mem (fst fa) rf           (* the stale prefix is wiped by reset(Font) *)
  | AUntouched | AUnknown => false
  end.

Fixpoint strs_eqb (a b : list string) : bool :=
  match a, b with
  | [], [] => true
  | x :: a', y :: b' => String.eqb x y && strs_eqb a' b'
  | _, _ => false
  end.
(* the table has exactly one row per struct field, in declaration order *)
Definition table_complete (fields : list string) (tbl : list (string * action)) : bool :=
  strs_eqb fields (map fst tbl).

(* the extracted discipline, assembled *)
Definition gen_reset_fields : list string :=
  first_reset_fields reconfigure_defmaps definition_map_reset_fills_default reset_maps reconfigure_programs.

Definition gen_discipline_ok : bool :=
  table_complete hint_instance_fields setup_table &&
  forallb (history_free_entry gen_reset_fields) setup_table &&
  reconfigure_graphics_from_args &&
  hint_takes_shared_self &&
  (Nat.eqb (List.length hint_writes) 0) &&
  (Nat.eqb (List.length hint_instance_interior_mutability) 0).

Section Interp.
  (* fpgm + prep + `self.graphics = *engine.retained_graphics_state()`: a function of the arguments and
     of the instance state handed to the engine; None = HintError *)
  Variable run : hcfg -> hstate -> option hstate.

  (* HintInstance::reconfigure *)
  Definition reconfigure (tbl : list (string * action)) (rf : list string) (cfg : hcfg) (s : hstate)
    : option hstate := run cfg (post_reset tbl rf cfg s).

  (* HintInstance::hint(&self, ..): the instance is only read; cvt/storage/twilight are copied into
     the caller's memory (CowSlice::new / copy_from_slice), definitions are DefinitionMap::Ref *)
  Variable glyph_program : hstate -> Z -> list Z.      (* instance state, glyph -> hinted outline *)
  Definition hint (s : hstate) (g : Z) : hstate * list Z := (s, glyph_program s g).

  (* drawing a sequence of glyphs through one instance: results in order *)
  Fixpoint draw_all (s : hstate) (gs : list Z) : hstate * list (Z * list Z) :=
    match gs with
    | [] => (s, [])
    | g :: r => let '(s1, o) := hint s g in
                let '(s2, os) := draw_all s1 r in (s2, (g, o) :: os)
    end.
End Interp.

(* ---------- LocationRef ---------- *)
(* pub fn is_default(&self) -> bool { self.0.is_empty() || self.0.iter().all(|c| *c == ZERO) } *)
Definition is_default (l : list Z) : bool := (Nat.eqb (List.length l) 0) || forallb (fun c => c =? 0) l.
(* pub(crate) fn effective_coords(&self) -> &[NormalizedCoord] { if self.is_default() { &[] } else { self.0 } } *)
Definition effective_coords (l : list Z) : list Z := if is_default l then [] else l.

(* ---------- HintingInstance (outline/hint.rs) ---------- *)
(* KAuto: the autohint::Instance (styles, target, ... as one number) and its lazily filled per-style metrics cache
   (UnscaledStyleMetricsSet::Lazy: style index -> metrics), shared by clones and filled by draws *)
Inductive kind := KNone | KGlyf (h : hstate) | KCff (subfonts : list Z) | KAuto (inst : Z) (cache : list (Z * Z)).
Record outer := { o_size : Z; o_coords : list Z; o_target : Z; o_kind : kind }.
Inductive engine := EInterp | EAuto.
Inductive fmt := FGlyf | FCff | FNone.
Record ocfg := { oc_size : Z; oc_loc : list Z; oc_target : Z; oc_engine : engine; oc_fmt : fmt }.

(* table-driven treatment of the plain fields (size, coords, target) and of `kind` *)
Definition pick (otbl : list (string * action)) (f : string) (new old : Z) : Z :=
  match assoc f otbl with Some AAssign | Some AClearFill => new | _ => old end.
Definition pickl (otbl : list (string * action)) (f : string) (new old : list Z) : list Z :=
  match assoc f otbl with Some AAssign | Some AClearFill => new | _ => old end.
Definition taken (otbl : list (string * action)) : bool :=
  match assoc "kind" otbl with Some ATake => true | _ => false end.

Section Outer.
  Variable run : hcfg -> hstate -> option hstate.
  (* arguments of the inner reconfigure as computed from (outlines, size, effective coords, target) *)
  Variable inner_cfg : ocfg -> list Z -> hcfg.
  Variable cff_subfonts : ocfg -> list Z -> option (list Z).   (* cff.subfont(i, ppem, coords)? for all i *)
  Variable auto_new : ocfg -> list Z -> Z.                     (* autohint::Instance::new *)
  Variable tbl : list (string * action).                       (* Gen.setup_table *)
  Variable rf : list string.
  Variable otbl : list (string * action).                      (* Gen.hinting_instance_table *)
  Variable cleared : bool.                                     (* `subfonts.clear()` present *)
  Variable reuse_auto : bool.                                  (* the Auto arm carries the replaced instance over *)

  (* pub fn reconfigure(&mut self, outlines, size, location, options) -> Result<(), DrawError>
     returns (ok?, new self) *)
  Definition outer_reconfigure (s : outer) (cfg : ocfg) : bool * outer :=
    let coords := effective_coords (oc_loc cfg) in            (* self.coords.clear(); extend_from_slice(..) *)
    let current := o_kind s in                                (* mem::replace(&mut self.kind, None) *)
    let none := if taken otbl then KNone else current in
    let mk k := {| o_size := pick otbl "size" (oc_size cfg) (o_size s);
                   o_coords := pickl otbl "coords" coords (o_coords s);
                   o_target := pick otbl "target" (oc_target cfg) (o_target s);
                   o_kind := k |} in
    match oc_engine cfg, oc_fmt cfg with
    | EInterp, FGlyf =>
        let hi := match current with KGlyf i => i | _ => [] end in
        match reconfigure run tbl rf (inner_cfg cfg coords) hi with
        | Some i' => (true, mk (KGlyf i'))
        | None => (false, mk none)                            (* `?` after self.kind was taken *)
        end
    | EInterp, FCff =>
        let sub := match current with KCff v => v | _ => [] end in
        let sub := if cleared then [] else sub in
        match cff_subfonts cfg coords with
        | Some l => (true, mk (KCff (sub ++ l)))
        | None => (false, mk none)
        end
    | EInterp, FNone => (true, mk none)
    | EAuto, FNone => (true, mk none)                         (* outlines.font() is None *)
    | EAuto, _ =>
        let cache := if reuse_auto then match current with KAuto _ c => c | _ => [] end else [] in
        (true, mk (KAuto (auto_new cfg coords) cache))     (* Instance::new: UnscaledStyleMetricsSet::lazy(..) *)
    end.
End Outer.

(* the extracted facts about the Auto arm, assembled: true = some path lets the previous instance (and with it
   the per-(font, location) metrics cache) reach the new one *)
Definition gen_auto_reuse : bool :=
  auto_arm_reuses_previous || autohint_new_takes_previous || negb autohint_lazy_fields_built_fresh.

(* ---------- the autohinter's lazily filled metrics cache ----------
   UnscaledStyleMetricsSet::get(font, coords, .., glyph): return the cached metrics of the glyph's style or
   compute them from (font, coords) and store them.  [compute] abstracts compute_unscaled_style_metrics. *)
Fixpoint cache_get (st : Z) (c : list (Z * Z)) : option Z :=
  match c with
  | [] => None
  | (k, m) :: r => if k =? st then Some m else cache_get st r
  end.

Section AutoCache.
  Variable compute : list Z -> Z -> Z.                 (* coords (the font is fixed), style -> metrics *)
  Definition auto_get (coords : list Z) (c : list (Z * Z)) (st : Z) : list (Z * Z) * Z :=
    match cache_get st c with
    | Some m => (c, m)
    | None => let m := compute coords st in ((st, m) :: c, m)
    end.
  (* a sequence of draws (styles of the drawn glyphs) through one instance *)
  Fixpoint auto_draw_all (coords : list Z) (c : list (Z * Z)) (sts : list Z) : list (Z * Z) * list Z :=
    match sts with
    | [] => (c, [])
    | st :: r => let '(c1, m) := auto_get coords c st in
                 let '(c2, ms) := auto_draw_all coords c1 r in (c2, m :: ms)
    end.
  Definition cache_sound (coords : list Z) (c : list (Z * Z)) : Prop :=
    forall st m, cache_get st c = Some m -> m = compute coords st.
End AutoCache.

(* ---------- correspondence cases (harness/src/bin/c12.rs) ---------- *)
Inductive case :=
  (* which: 0 = FreeTypeOutlineMemory (PathStyle::FreeType), 1 = HarfBuzzOutlineMemory;
     counts of the glyph, hinting == Embedded, real buffer address, buffer length,
     ok = draw succeeded / false = DrawError::InsufficientMemory *)
  | KCarve (which : Z) (c : counts) (hinted : bool) (a n : Z) (ok : bool)
  (* OutlineGlyph::draw_memory_size(hinting) *)
  | KSize (c : counts) (hinted : bool) (size : Z)
  (* core::mem::{size_of, align_of} of every type the harness can name *)
  | KTypes (l : list (string * (Z * Z)))
  (* location given to HintingInstance::new -> instance.location().coords() *)
  | KCoords (l eff : list Z)
  (* to_path on an unscaled simple glyph: style (0 FreeType, 1 HarfBuzz), points (x, y, flag kind),
     contour end points, pen commands the real draw emitted (coordinates in 26.6 for FreeType style) *)
  | KPath (style : Z) (pts : list (Z * Z * Z)) (ends : list Z) (cmds : list (Z * list Z)).

Definition zlist_eqb (a b : list Z) : bool :=
  (Nat.eqb (List.length a) (List.length b)) && forallb (fun p => Z.eqb (fst p) (snd p)) (combine a b).

Definition cmd_eqb (a b : Z * list Z) : bool := (fst a =? fst b) && zlist_eqb (snd a) (snd b).
Definition cmds_eqb (a b : list (Z * list Z)) : bool :=
  (Nat.eqb (List.length a) (List.length b)) && forallb (fun p => cmd_eqb (fst p) (snd p)) (combine a b).

Definition check_case (k : case) : bool :=
  match k with
  | KCarve which c hinted a n ok =>
      let allocs := if which =? 0 then ft_allocs else hb_allocs in
      match carve a n (inst c hinted allocs) with
      | Done _ => ok
      | Short => negb ok
      | Panic => false
      end
  | KSize c hinted size => required_buffer_size c hinted =? size
  | KTypes l =>
      forallb (fun row => match assoc (fst row) l with
                          | Some (s, al) => (s =? fst (snd row)) && (al =? snd (snd row))
                          | None => false
                          end) type_table
  | KCoords l eff => zlist_eqb (effective_coords l) eff
  | KPath style pts ends cmds =>
      match to_path_model style pts ends with
      | Some out => cmds_eqb (map enc_cmd out) cmds
      | None => false
      end
  end.
