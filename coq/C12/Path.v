(* C12 — executable model of skrifa/src/outline/path.rs :: to_path, contour_to_path,
   PendingState::{emit, finish} on integer (26.6) coordinates.  No proofs in this file.
   The pen is the list of commands it received.  [None] = Err(ToPathError) (commands already sent to
   the pen before the error are dropped: the property speaks about successful draws). *)
From Coq Require Import ZArith List Bool.
From FV Require Import Lib.RustInt.
Import ListNotations.
Open Scope Z_scope.

(* ContourPoint<C>; pf = PointFlags bits & (ON_CURVE | OFF_CURVE_CUBIC) = bits & 0x81 *)
Record cpt := { px : Z; py : Z; pf : Z }.
Definition is_on (p : cpt) : bool := negb (Z.land (pf p) 1 =? 0).          (* is_on_curve *)
Definition is_quad (p : cpt) : bool := Z.land (pf p) 129 =? 0.             (* is_off_curve_quad *)
Definition is_cubic (p : cpt) : bool := negb (Z.land (pf p) 128 =? 0).     (* is_off_curve_cubic *)

(* read-fonts glyf.rs: fn midpoint_i32(a, b) { a.wrapping_add(b) / 2 }  (PointCoord for F26Dot6 / i32).
   The f32 instance (HarfBuzz style) is `a + 0.5 * (b - a)`, which is the same number whenever a + b is
   even and small — the only inputs the correspondence uses (font units scaled by 64). *)
Definition mid32 (a b : Z) : Z := Z.quot (wrap_s 32 (a + b)) 2.
(* fn midpoint(&self, other) -> Self { x, y midpoints; flags: other.flags } *)
Definition midpoint (a b : cpt) : cpt :=
  {| px := mid32 (px a) (px b); py := mid32 (py a) (py b); pf := pf b |}.

Inductive cmd :=
  | CM (x y : Z) | CL (x y : Z) | CQ (cx cy x y : Z) | CC (ax ay bx by_ x y : Z) | CZ.

Inductive pending := PEmpty | PQuad (q : cpt) | PCubic (c : cpt) | PTwo (c0 c1 : cpt).

(* PendingState::emit *)
Definition emit (st : pending) (p : cpt) : option (pending * list cmd) :=
  match st with
  | PEmpty =>
      if is_quad p then Some (PQuad p, [])
      else if is_cubic p then Some (PCubic p, [])
      else Some (PEmpty, [CL (px p) (py p)])
  | PQuad q =>
      if is_quad p then
        let m := midpoint q p in Some (PQuad p, [CQ (px q) (py q) (px m) (py m)])
      else if is_cubic p then None                          (* ExpectedQuadOrOnCurve *)
      else Some (PEmpty, [CQ (px q) (py q) (px p) (py p)])
  | PCubic c =>
      if is_cubic p then Some (PTwo c p, []) else None      (* ExpectedCubic *)
  | PTwo c0 c1 =>
      if is_quad p then None                                (* ExpectedCubic *)
      else if is_cubic p then
        let m := midpoint c1 p in
        Some (PCubic p, [CC (px c0) (py c0) (px c1) (py c1) (px m) (py m)])
      else Some (PEmpty, [CC (px c0) (py c0) (px c1) (py c1) (px p) (py p)])
  end.

Fixpoint emit_all (st : pending) (l : list cpt) : option (pending * list cmd) :=
  match l with
  | [] => Some (st, [])
  | p :: r =>
      match emit st p with
      | None => None
      | Some (st1, c1) =>
          match emit_all st1 r with
          | None => None
          | Some (st2, c2) => Some (st2, c1 ++ c2)
          end
      end
  end.

(* PendingState::finish *)
Definition finish (st : pending) (start : cpt) : option (list cmd) :=
  match st with
  | PEmpty => Some [CZ]
  | _ =>
      match emit st {| px := px start; py := py start; pf := 1 |} with
      | None => None
      | Some (_, c) => Some (c ++ [CZ])
      end
  end.

(* contour_to_path(points, last_point, style, pen); style 0 = PathStyle::FreeType, else HarfBuzz.
   Result: (start point, points emitted in order after the move); None' = Ok without any command. *)
Inductive plan := PlanErr | PlanNothing | PlanGo (start : cpt) (body : list cpt).

Definition contour_plan (style : Z) (points : list cpt) (last : cpt) : plan :=
  match points with
  | [] => PlanNothing                                        (* empty contour *)
  | first :: rest =>
      if is_cubic first then PlanErr                         (* ExpectedQuadOrOnCurve(0) *)
      else if is_quad first then
        if style =? 0 then
          if is_on last then PlanGo last (removelast points) (* omit_last *)
          else PlanGo (midpoint last first) points
        else
          match rest with
          | [] => PlanNothing                                (* single point contour *)
          | next :: rest2 =>
              if is_on next then PlanGo next (rest2 ++ [first; next])
              else PlanGo (midpoint first next) (rest ++ [first])
          end
      else PlanGo first rest
  end.

Definition contour_to_path (style : Z) (points : list cpt) (last : cpt) : option (list cmd) :=
  match contour_plan style points last with
  | PlanErr => None
  | PlanNothing => Some []
  | PlanGo start body =>
      match emit_all PEmpty body with
      | None => None
      | Some (st, c) =>
          match finish st start with
          | None => None
          | Some f => Some (CM (px start) (py start) :: c ++ f)
          end
      end
  end.

Definition dflt_pt : cpt := {| px := 0; py := 0; pf := 1 |}.

(* to_path(points, flags, contours, path_style, pen); prev = contours[contour_ix - 1] *)
Fixpoint to_path_go (style : Z) (pts : list cpt) (prev : option Z) (ends : list Z) : option (list cmd) :=
  match ends with
  | [] => Some []
  | e :: r =>
      let start := match prev with Some p => p + 1 | None => 0 end in
      if (e <? start) || (Z.of_nat (length pts) <=? e) then None       (* ContourOrder *)
      else
        let slice := firstn (Z.to_nat (e - start + 1)) (skipn (Z.to_nat start) pts) in
        match contour_to_path style slice (last slice dflt_pt) with
        | None => None
        | Some c =>
            match to_path_go style pts (Some e) r with
            | None => None
            | Some c' => Some (c ++ c')
            end
        end
  end.

Definition to_path (style : Z) (pts : list cpt) (ends : list Z) : option (list cmd) :=
  to_path_go style pts None ends.

Definition to_path_model (style : Z) (pts : list (Z * Z * Z)) (ends : list Z) : option (list cmd) :=
  to_path style (map (fun p => {| px := fst (fst p); py := snd (fst p); pf := snd p |}) pts) ends.

Definition enc_cmd (c : cmd) : Z * list Z :=
  match c with
  | CM x y => (0, [x; y])
  | CL x y => (1, [x; y])
  | CQ a b x y => (2, [a; b; x; y])
  | CC a b c d x y => (3, [a; b; c; d; x; y])
  | CZ => (4, [])
  end.

(* well-formed pen stream: (MoveTo (LineTo|QuadTo|CurveTo)* Close)* *)
Fixpoint wf_go (inside : bool) (l : list cmd) : bool :=
  match l with
  | [] => negb inside
  | CM _ _ :: r => negb inside && wf_go true r
  | CZ :: r => inside && wf_go false r
  | _ :: r => inside && wf_go true r
  end.
Definition wf_stream (l : list cmd) : bool := wf_go false l.
