(* C12 — memory carving: executable model of
     skrifa/src/outline/glyf/memory.rs :: alloc_slice, align_up
   over an abstract base ADDRESS [a] and buffer length [n], plus the vocabulary in which the
   translator (translators/c12_extract.py) writes coq/C12/Gen.v.  No proofs in this file.

   Outcomes: [Done x] = Some(x); [Short] = None (surfaced as DrawError::InsufficientMemory);
   [Panic] = arithmetic overflow in the overflow-checks profile (usize = 64 bit). *)
From Coq Require Import ZArith List Bool String.
From FV Require Import Lib.RustInt.
Import ListNotations.
Open Scope Z_scope.

(* ---- vocabulary of the extracted tables ---- *)
(* branch under which an alloc_slice call is executed *)
Inductive cond := CAlways | CHinted | CHasVariations.
(* which field of glyf::Outline is the element count *)
Inductive cnt := Points | Contours | MaxSimplePoints | MaxOtherPoints | MaxComponentDeltaStack
               | MaxStack | CvtCount | StorageCount | MaxTwilightPoints.

(* glyf::Outline: the counts that drive the memory requirement *)
Record counts := {
  c_points : Z; c_contours : Z; c_max_simple_points : Z; c_max_other_points : Z;
  c_max_component_delta_stack : Z; c_max_stack : Z; c_cvt_count : Z; c_storage_count : Z;
  c_max_twilight_points : Z; c_has_hinting : bool; c_has_variations : bool }.

Definition count_of (c : counts) (k : cnt) : Z :=
  match k with
  | Points => c_points c | Contours => c_contours c | MaxSimplePoints => c_max_simple_points c
  | MaxOtherPoints => c_max_other_points c | MaxComponentDeltaStack => c_max_component_delta_stack c
  | MaxStack => c_max_stack c | CvtCount => c_cvt_count c | StorageCount => c_storage_count c
  | MaxTwilightPoints => c_max_twilight_points c
  end.

(* [hinted_req] = (hinting == Hinting::Embedded) *)
Definition cond_holds (c : counts) (hinted_req : bool) (k : cond) : bool :=
  match k with
  | CAlways => true
  | CHinted => c_has_hinting c && hinted_req
  | CHasVariations => c_has_variations c
  end.

(* one alloc_slice::<T>(buf, outline.<count>) call: struct field it fills, T, size_of T, align_of T *)
Record alloc_entry := {
  ae_field : string; ae_ty : string; ae_size : Z; ae_align : Z; ae_cond : cond; ae_count : cnt }.

(* the dynamic sequence (size, align, len) executed for a given outline *)
Definition inst (c : counts) (hinted_req : bool) (l : list alloc_entry) : list (Z * Z * Z) :=
  map (fun e => (ae_size e, ae_align e, count_of c (ae_count e)))
      (filter (fun e => cond_holds c hinted_req (ae_cond e)) l).

Definition counts_nonneg (c : counts) : Prop :=
  0 <= c_points c /\ 0 <= c_contours c /\ 0 <= c_max_simple_points c /\ 0 <= c_max_other_points c /\
  0 <= c_max_component_delta_stack c /\ 0 <= c_max_stack c /\ 0 <= c_cvt_count c /\
  0 <= c_storage_count c /\ 0 <= c_max_twilight_points c.

(* ---- alloc_slice ---- *)
Inductive res (A : Type) := Done (x : A) | Short | Panic.
Arguments Done {A} x.
Arguments Short {A}.
Arguments Panic {A}.

(* fn align_up(len: usize, alignment: usize) -> usize
     { len + (len.wrapping_neg() & (alignment - 1)) }       (None = `+` overflows) *)
Definition align_up (len alignment : Z) : option Z :=
  chk_u 64 (len + Z.land (wrap_u 64 (- len)) (alignment - 1)).

(* fn alloc_slice<T>(buf: &mut [u8], len: usize) -> Option<(&mut [T], &mut [u8])>
   buf = [a, a+n).  Result: (address of the slice, its byte length, address and length of the rest). *)
Definition alloc_slice (a n size align len : Z) : res (Z * Z * Z * Z) :=
  if len =? 0 then Done (a, 0, a, n)                       (* if len == 0 { return Some((Default::default(), buf)) } *)
  else
    match align_up a align with                            (* let aligned_ptr = align_up(base_ptr, align_of::<T>()) *)
    | None => Panic
    | Some ap =>
        let off := ap - a in                               (* aligned_ptr - base_ptr *)
        if n <? off then Short                             (* buf.get_mut(aligned_offset..)? *)
        else
          let n1 := n - off in
          match chk_u 64 (len * size) with                 (* len * size_of::<T>() *)
          | None => Panic
          | Some bytes =>
              if n1 <? bytes then Short                    (* if len_in_bytes > buf.len() { return None } *)
              else if negb ((ap mod align =? 0) && (bytes mod size =? 0)) then Short
                                                           (* bytemuck::try_cast_slice_mut(slice_buf).ok()? *)
              else Done (ap, bytes, ap + bytes, n1 - bytes)  (* split_at_mut(len_in_bytes) *)
          end
    end.

(* {FreeType,HarfBuzz}OutlineMemory::new: the `?`-chained alloc_slice calls.
   Result: per call (offset of the slice from the ORIGINAL buffer start a0, byte length). *)
Fixpoint carve_from (a0 a n : Z) (seq : list (Z * Z * Z)) : res (list (Z * Z)) :=
  match seq with
  | [] => Done []
  | (size, align, len) :: r =>
      match alloc_slice a n size align len with
      | Done (p, bytes, a', n') =>
          match carve_from a0 a' n' r with
          | Done l => Done ((p - a0, bytes) :: l)
          | Short => Short
          | Panic => Panic
          end
      | Short => Short
      | Panic => Panic
      end
  end.

Definition carve (a n : Z) (seq : list (Z * Z * Z)) : res (list (Z * Z)) := carve_from a a n seq.

(* sum of len * size over the sequence *)
Fixpoint total (seq : list (Z * Z * Z)) : Z :=
  match seq with
  | [] => 0
  | (size, _, len) :: r => len * size + total r
  end.

(* ---- static well-formedness of an extracted sequence (evaluated by vm_compute on Gen.v) ----
   every alignment is one of 1,2,4,8; it divides the previous alignment (so alignments are
   non-increasing); every element size is a positive multiple of its alignment; and no alignment
   exceeds the slack term of required_buffer_size. *)
Definition pow2_le8 (al : Z) : bool := (al =? 1) || (al =? 2) || (al =? 4) || (al =? 8).

Fixpoint chain_okb (m : Z) (l : list (Z * Z)) : bool :=   (* (size, align) *)
  match l with
  | [] => true
  | (s, al) :: r => pow2_le8 al && (m mod al =? 0) && (0 <? s) && (s mod al =? 0) && chain_okb al r
  end.

Definition static_ok (slack : Z) (l : list alloc_entry) : bool :=
  chain_okb 8 (map (fun e => (ae_size e, ae_align e)) l) &&
  forallb (fun e => ae_align e <=? slack) l.

(* ---- vocabulary for the extracted reset discipline (HintInstance) ---- *)
Inductive action :=
  | AClearResize (n : string)     (* self.f.clear(); self.f.resize(n, default) *)
  | AResizeOnly (n : string)      (* self.f.resize(n, default) — old prefix survives *)
  | AClearFill                    (* self.f.clear(); then filled from the arguments only *)
  | AAssign                       (* self.f = <expression of the arguments only> *)
  | ATake                         (* core::mem::replace(&mut self.f, <constant>) *)
  | AUntouched                    (* never mentioned *)
  | AUnknown.                     (* anything else: treated as history-dependent *)
