(* C12 — lemmas.  Carving (alloc_slice / carve), the extracted reset discipline, location
   normalisation, path well-formedness. *)
From Coq Require Import ZArith Znumtheory List Bool String Lia Permutation.
From FV Require Import Lib.RustInt C12.Carve C12.Gen C12.Path C12.Model.
Import ListNotations.
Open Scope list_scope.
Open Scope Z_scope.
Ltac Zify.zify_post_hook ::= Z.div_mod_to_equations.

Local Notation U64 := 18446744073709551616.

(* ------------------------------------------------------------------ align_up *)

Lemma chk_u_some bits z v : chk_u bits z = Some v -> v = z /\ 0 <= z < 2 ^ bits.
Proof.
  unfold chk_u, in_u. destruct ((0 <=? z) && (z <? 2 ^ bits)) eqn:E; [|discriminate].
  intros H. inversion H; subst. apply andb_true_iff in E. destruct E as [E1 E2].
  apply Z.leb_le in E1. apply Z.ltb_lt in E2. lia.
Qed.

Lemma chk_u_in bits z : 0 <= z < 2 ^ bits -> chk_u bits z = Some z.
Proof.
  intros H. unfold chk_u, in_u.
  replace (0 <=? z) with true by (symmetry; apply Z.leb_le; lia).
  replace (z <? 2 ^ bits) with true by (symmetry; apply Z.ltb_lt; lia). reflexivity.
Qed.

Lemma pow2_le8_cases al : pow2_le8 al = true -> al = 1 \/ al = 2 \/ al = 4 \/ al = 8.
Proof.
  unfold pow2_le8. intros H.
  repeat (apply orb_true_iff in H; destruct H as [H|H]); apply Z.eqb_eq in H; lia.
Qed.

Lemma land_mask a al : pow2_le8 al = true -> Z.land (wrap_u 64 a) (al - 1) = a mod al.
Proof.
  intros H. apply pow2_le8_cases in H. unfold wrap_u.
  assert (E : forall k, 0 <= k <= 64 -> Z.land (a mod 2 ^ 64) (Z.ones k) = a mod 2 ^ k).
  { intros k Hk. rewrite Z.land_ones by lia.
    symmetry. apply Zmod_div_mod; try (apply Z.pow_pos_nonneg; lia).
    exists (2 ^ (64 - k)). rewrite <- Z.pow_add_r by lia. f_equal. lia. }
  destruct H as [-> | [-> | [-> | ->]]].
  - change (1 - 1) with (Z.ones 0). rewrite E by lia. reflexivity.
  - change (2 - 1) with (Z.ones 1). rewrite E by lia. reflexivity.
  - change (4 - 1) with (Z.ones 2). rewrite E by lia. reflexivity.
  - change (8 - 1) with (Z.ones 3). rewrite E by lia. reflexivity.
Qed.

Definition pad (a al : Z) : Z := (- a) mod al.

Lemma pad_range a al : pow2_le8 al = true -> 0 <= pad a al < al.
Proof. intros H. apply pow2_le8_cases in H. unfold pad. apply Z.mod_pos_bound. lia. Qed.

Lemma pad_aligned a al : pow2_le8 al = true -> (a + pad a al) mod al = 0.
Proof.
  intros H. apply pow2_le8_cases in H. unfold pad.
  destruct H as [-> | [-> | [-> | ->]]]; lia.
Qed.

Lemma pad_zero a al : pow2_le8 al = true -> (al | a) -> pad a al = 0.
Proof.
  intros H D. apply pow2_le8_cases in H. unfold pad.
  apply Z.mod_divide; [lia|]. apply Z.divide_opp_r. exact D.
Qed.

Lemma align_up_spec a al : pow2_le8 al = true -> 0 <= a -> a + 8 <= U64 ->
  align_up a al = Some (a + pad a al).
Proof.
  intros H Ha Hb. unfold align_up. rewrite land_mask by exact H.
  fold (pad a al). pose proof (pad_range a al H). apply pow2_le8_cases in H.
  apply chk_u_in. change (2 ^ 64) with U64. lia.
Qed.

(* ------------------------------------------------------------------ one alloc_slice step *)

Definition entry_wf (e : Z * Z * Z) : Prop :=
  let '(s, al, len) := e in pow2_le8 al = true /\ 0 < s /\ (al | s) /\ 0 <= len.

Lemma alloc_slice_zero a n s al : alloc_slice a n s al 0 = Done (a, 0, a, n).
Proof. reflexivity. Qed.

Lemma alloc_slice_spec a n s al len :
  entry_wf (s, al, len) -> len <> 0 -> 0 <= a -> 0 <= n -> a + n + 8 <= U64 -> len * s < U64 ->
  alloc_slice a n s al len =
    if n <? pad a al + len * s then Short
    else Done (a + pad a al, len * s, a + pad a al + len * s, n - pad a al - len * s).
Proof.
  intros (Hp & Hs & Hd & Hl) Hn0 Ha Hn Hb Hbytes. unfold alloc_slice.
  replace (len =? 0) with false by (symmetry; apply Z.eqb_neq; exact Hn0).
  rewrite align_up_spec by (auto; lia).
  pose proof (pad_range a al Hp) as Hr. pose proof (pad_aligned a al Hp) as Hal.
  replace (a + pad a al - a) with (pad a al) by lia.
  assert (Hlen : 0 < len) by lia.
  assert (Hpos : 0 <= len * s) by nia.
  rewrite chk_u_in by (change (2 ^ 64) with U64; lia).
  destruct (n <? pad a al) eqn:E1.
  - apply Z.ltb_lt in E1. replace (n <? pad a al + len * s) with true by (symmetry; apply Z.ltb_lt; lia).
    reflexivity.
  - apply Z.ltb_ge in E1.
    destruct (n - pad a al <? len * s) eqn:E2.
    + apply Z.ltb_lt in E2. replace (n <? pad a al + len * s) with true by (symmetry; apply Z.ltb_lt; lia).
      reflexivity.
    + apply Z.ltb_ge in E2.
      replace (n <? pad a al + len * s) with false by (symmetry; apply Z.ltb_ge; lia).
      rewrite Hal. rewrite Z.mod_mul by lia. cbn [Z.eqb andb negb].
      f_equal.
Qed.

(* ------------------------------------------------------------------ exact characterisation *)

Fixpoint end_addr (a : Z) (seq : list (Z * Z * Z)) : Z :=
  match seq with
  | [] => a
  | (s, al, len) :: r => if len =? 0 then end_addr a r else end_addr (a + pad a al + len * s) r
  end.

Lemma total_nonneg seq : Forall entry_wf seq -> 0 <= total seq.
Proof.
  induction seq as [|[[s al] len] r IH]; intros H; cbn [total]; [lia|].
  inversion H as [|? ? Hw Hr]; subst; pose proof Hw as (Hp & Hs & Hd & Hl). specialize (IH Hr). nia.
Qed.

Lemma end_addr_ge seq : forall a, Forall entry_wf seq -> a + total seq <= end_addr a seq.
Proof.
  induction seq as [|[[s al] len] r IH]; intros a H; cbn [end_addr total]; [lia|].
  inversion H as [|? ? Hw Hr]; subst; pose proof Hw as (Hp & Hs & Hd & Hl).
  destruct (Z.eqb_spec len 0) as [->|Hne].
  - specialize (IH a Hr). lia.
  - pose proof (pad_range a al Hp). specialize (IH (a + pad a al + len * s) Hr). lia.
Qed.

Lemma carve_from_exact seq : forall a0 a n,
  Forall entry_wf seq -> 0 <= a -> 0 <= n -> a + n + 8 <= U64 -> total seq < U64 ->
  (n < end_addr a seq - a -> carve_from a0 a n seq = Short) /\
  (end_addr a seq - a <= n -> exists l, carve_from a0 a n seq = Done l).
Proof.
  induction seq as [|[[s al] len] r IH]; intros a0 a n H Ha Hn Hb Ht.
  - cbn. split; [lia|]. intros _. eexists; reflexivity.
  - inversion H as [|? ? Hw Hr]; subst. pose proof Hw as (Hp & Hs & Hd & Hl).
    pose proof (total_nonneg r Hr) as Htr.
    cbn [carve_from end_addr total] in *.
    destruct (Z.eqb_spec len 0) as [->|Hne].
    + rewrite alloc_slice_zero.
      destruct (IH a0 a n Hr Ha Hn Hb ltac:(lia)) as [I1 I2]. split; intros Hc.
      * rewrite (I1 Hc). reflexivity.
      * destruct (I2 Hc) as [l ->]. eexists; reflexivity.
    + assert (0 < len * s) by nia.
      rewrite alloc_slice_spec by (auto; lia).
      pose proof (pad_range a al Hp) as Hpr.
      pose proof (end_addr_ge r (a + pad a al + len * s) Hr) as Hge.
      destruct (n <? pad a al + len * s) eqn:E.
      * apply Z.ltb_lt in E. split; [reflexivity|]. intros Hc. lia.
      * apply Z.ltb_ge in E.
        destruct (IH a0 (a + pad a al + len * s) (n - pad a al - len * s) Hr
                     ltac:(lia) ltac:(lia) ltac:(lia) ltac:(lia)) as [I1 I2].
        split; intros Hc.
        -- rewrite I1 by lia. reflexivity.
        -- destruct I2 as [l ->]; [lia|]. eexists; reflexivity.
Qed.

(* ------------------------------------------------------------------ alignment chains *)

(* every alignment divides the previous one (m = what the current address is known to be a multiple of) *)
Fixpoint chain (m : Z) (seq : list (Z * Z * Z)) : Prop :=
  match seq with
  | [] => True
  | (s, al, len) :: r => entry_wf (s, al, len) /\ (al | m) /\ chain al r
  end.

Lemma chain_weaken seq : forall m m', chain m seq -> (m | m') -> chain m' seq.
Proof.
  destruct seq as [|[[s al] len] r]; intros m m' H D; cbn [chain] in *; [exact I|].
  destruct H as (Hw & Hd & Hc). split; [exact Hw|]. split; [|exact Hc].
  exact (Z.divide_trans _ _ _ Hd D).
Qed.

Lemma chain_wf seq : forall m, chain m seq -> Forall entry_wf seq.
Proof.
  induction seq as [|[[s al] len] r IH]; intros m H; [constructor|].
  cbn [chain] in H. destruct H as (Hw & Hd & Hc). constructor; [exact Hw|]. eapply IH; eauto.
Qed.

Lemma end_addr_aligned seq : forall m a, chain m seq -> (m | a) -> end_addr a seq = a + total seq.
Proof.
  induction seq as [|[[s al] len] r IH]; intros m a H D; cbn [end_addr total]; [lia|].
  cbn [chain] in H. destruct H as (Hw & Hd & Hc). pose proof Hw as (Hp & Hs & Hds & Hl).
  assert (Hda : (al | a)) by exact (Z.divide_trans _ _ _ Hd D).
  destruct (Z.eqb_spec len 0) as [->|Hne].
  - rewrite (IH al a Hc Hda). lia.
  - rewrite (pad_zero a al Hp Hda).
    rewrite (IH al (a + 0 + len * s) Hc).
    + lia.
    + apply Z.divide_add_r; [apply Z.divide_add_r; [exact Hda|apply Z.divide_0_r]|].
      apply Z.divide_mul_r. exact Hds.
Qed.

(* from an arbitrary address: at most one padding, smaller than the largest alignment *)
Lemma end_addr_bound seq : forall m M a, chain m seq ->
  Forall (fun e => snd (fst e) <= M) seq -> 1 <= M ->
  end_addr a seq <= a + total seq + (if total seq =? 0 then 0 else M - 1).
Proof.
  induction seq as [|[[s al] len] r IH]; intros m M a H HM H1; cbn [end_addr total].
  - cbn. lia.
  - cbn [chain] in H. destruct H as (Hw & Hd & Hc). pose proof Hw as (Hp & Hs & Hds & Hl).
    inversion HM as [|? ? HMa HMr]; subst. cbn in HMa.
    pose proof (total_nonneg r (chain_wf r al Hc)) as Htr.
    destruct (Z.eqb_spec len 0) as [->|Hne].
    + specialize (IH al M a Hc HMr H1). replace (0 * s + total r) with (total r) by lia. exact IH.
    + assert (0 < len * s) by nia.
      replace (len * s + total r =? 0) with false by (symmetry; apply Z.eqb_neq; lia).
      pose proof (pad_range a al Hp) as Hpr. pose proof (pad_aligned a al Hp) as Hal.
      rewrite (end_addr_aligned r al (a + pad a al + len * s) Hc).
      * lia.
      * apply Z.divide_add_r.
        -- apply Z.mod_divide; [apply pow2_le8_cases in Hp; lia|exact Hal].
        -- apply Z.divide_mul_r. exact Hds.
Qed.

Lemma end_addr_app l1 : forall a l2, end_addr a (l1 ++ l2) = end_addr (end_addr a l1) l2.
Proof.
  induction l1 as [|[[s al] len] r IH]; intros a l2; cbn [app end_addr]; [reflexivity|].
  destruct (len =? 0); apply IH.
Qed.

Lemma total_app l1 l2 : total (l1 ++ l2) = total l1 + total l2.
Proof. induction l1 as [|[[s al] len] r IH]; cbn [app total]; lia. Qed.

(* ------------------------------------------------------------------ static check -> chain *)

Lemma count_nonneg c k : counts_nonneg c -> 0 <= count_of c k.
Proof. unfold counts_nonneg. intros H. destruct k; cbn; tauto. Qed.

Lemma chain_inst c h : counts_nonneg c -> forall l m,
  chain_okb m (map (fun e => (ae_size e, ae_align e)) l) = true -> chain m (inst c h l).
Proof.
  intros Hc. induction l as [|e r IH]; intros m H; [exact I|].
  cbn [map chain_okb] in H.
  repeat (apply andb_true_iff in H; destruct H as [H ?]).
  rename H into Hp.
  match goal with H : (m mod _ =? 0) = true |- _ => apply Z.eqb_eq in H; rename H into Hm end.
  match goal with H : (0 <? _) = true |- _ => apply Z.ltb_lt in H; rename H into Hs end.
  match goal with H : (_ mod _ =? 0) = true |- _ => apply Z.eqb_eq in H; rename H into Hds end.
  match goal with H : chain_okb _ _ = true |- _ => rename H into Hr end.
  assert (Hal : ae_align e <> 0) by (apply pow2_le8_cases in Hp; lia).
  assert (Hdm : (ae_align e | m)) by (apply Z.mod_divide; assumption).
  unfold inst. cbn [filter]. destruct (cond_holds c h (ae_cond e)).
  - cbn [map chain]. split; [|split; [exact Hdm|apply IH; exact Hr]].
    unfold entry_wf. split; [exact Hp|]. split; [exact Hs|].
    split; [apply Z.mod_divide; assumption|apply count_nonneg; exact Hc].
  - eapply chain_weaken; [apply IH; exact Hr|exact Hdm].
Qed.

Lemma aligns_inst c h M l : forallb (fun e => ae_align e <=? M) l = true ->
  Forall (fun e => snd (fst e) <= M) (inst c h l).
Proof.
  intros H. unfold inst. apply Forall_forall. intros x Hx.
  apply in_map_iff in Hx. destruct Hx as (e & <- & He). apply filter_In in He. destruct He as [He _].
  rewrite forallb_forall in H. specialize (H e He). apply Z.leb_le in H. exact H.
Qed.

(* ------------------------------------------------------------------ generic theorems about carve *)

Theorem carve_fits_chain seq m M a n :
  chain m seq -> Forall (fun e => snd (fst e) <= M) seq -> 1 <= M ->
  0 <= a -> a + n + 8 <= U64 ->
  total seq + (if total seq =? 0 then 0 else M - 1) <= n ->
  exists l, carve a n seq = Done l.
Proof.
  intros Hc HM H1 Ha Hb Hn. pose proof (chain_wf seq m Hc) as Hw.
  pose proof (total_nonneg seq Hw) as Ht.
  assert (Hn0 : 0 <= n) by (destruct (total seq =? 0); lia).
  destruct (carve_from_exact seq a a n Hw Ha Hn0 Hb ltac:(destruct (total seq =? 0); lia)) as [_ I].
  apply I. pose proof (end_addr_bound seq m M a Hc HM H1). lia.
Qed.

Theorem carve_short seq a n :
  Forall entry_wf seq -> 0 <= a -> 0 <= n -> a + n + 8 <= U64 -> total seq < U64 ->
  n < total seq -> carve a n seq = Short.
Proof.
  intros Hw Ha Hn Hb Ht Hlt.
  destruct (carve_from_exact seq a a n Hw Ha Hn Hb Ht) as [I _].
  apply I. pose proof (end_addr_ge seq a Hw). lia.
Qed.

(* slices are in range, in order, pairwise disjoint, aligned, and of the requested byte length *)
Fixpoint ranges_ok (lo hi : Z) (l : list (Z * Z)) : Prop :=
  match l with
  | [] => lo <= hi
  | (o, b) :: r => lo <= o /\ 0 <= b /\ ranges_ok (o + b) hi r
  end.

Fixpoint slices_match (a0 : Z) (seq : list (Z * Z * Z)) (l : list (Z * Z)) : Prop :=
  match seq, l with
  | [], [] => True
  | (s, al, len) :: r, (o, b) :: r' =>
      b = len * s /\ (len <> 0 -> (a0 + o) mod al = 0) /\ slices_match a0 r r'
  | _, _ => False
  end.

Lemma carve_from_ranges seq : forall a0 a n l,
  Forall (fun e => 1 <= snd (fst e)) seq -> a0 <= a -> 0 <= n ->
  carve_from a0 a n seq = Done l ->
  ranges_ok (a - a0) (a - a0 + n) l /\ slices_match a0 seq l.
Proof.
  induction seq as [|[[s al] len] r IH]; intros a0 a n l Hal Ha Hn H.
  - cbn in H. inversion H; subst. cbn. split; [lia|exact I].
  - inversion Hal as [|? ? Ha1 Har]; subst. cbn in Ha1.
    cbn [carve_from] in H. unfold alloc_slice in H.
    destruct (Z.eqb_spec len 0) as [->|Hne].
    + destruct (carve_from a0 a n r) as [l'| |] eqn:E; try discriminate.
      inversion H; subst. destruct (IH a0 a n l' Har Ha Hn E) as [R S].
      cbn. repeat split; try lia; try tauto. replace (a - a0 + 0) with (a - a0) by lia. exact R.
    + destruct (align_up a al) as [ap|] eqn:EA; [|discriminate].
      unfold align_up in EA. apply chk_u_some in EA. destruct EA as [-> _].
      set (p := Z.land (wrap_u 64 (- a)) (al - 1)) in *.
      assert (Hp0 : 0 <= p) by (apply Z.land_nonneg; right; lia).
      replace (a + p - a) with p in H by lia.
      destruct (n <? p) eqn:E1; [discriminate|]. apply Z.ltb_ge in E1.
      destruct (chk_u 64 (len * s)) as [bytes|] eqn:EB; [|discriminate].
      apply chk_u_some in EB. destruct EB as [-> [Hb0 _]].
      destruct (n - p <? len * s) eqn:E2; [discriminate|]. apply Z.ltb_ge in E2.
      destruct (((a + p) mod al =? 0) && (len * s mod s =? 0)) eqn:E3; cbn [negb] in H; [|discriminate].
      apply andb_true_iff in E3. destruct E3 as [E3 _]. apply Z.eqb_eq in E3.
      destruct (carve_from a0 (a + p + len * s) (n - p - len * s) r) as [l'| |] eqn:E; try discriminate.
      inversion H; subst.
      destruct (IH a0 (a + p + len * s) (n - p - len * s) l' Har ltac:(lia) ltac:(lia) E) as [R S].
      cbn. repeat split; try lia.
      * replace (a + p - a0 + len * s) with (a + p + len * s - a0) by lia.
        replace (a - a0 + n) with (a + p + len * s - a0 + (n - p - len * s)) by lia. exact R.
      * intros _. replace (a0 + (a + p - a0)) with (a + p) by lia. exact E3.
      * exact S.
Qed.

Lemma slices_match_lengths a0 seq : forall l, slices_match a0 seq l ->
  map snd l = map (fun e => snd e * fst (fst e)) seq.
Proof.
  induction seq as [|[[s al] len] r IH]; intros [|[o b] r'] H; cbn [slices_match] in H; try contradiction.
  - reflexivity.
  - destruct H as (-> & _ & H). cbn [map fst snd]. f_equal. apply IH. exact H.
Qed.

(* ------------------------------------------------------------------ the extracted sequences *)

Lemma ft_static_ok : static_ok slack ft_allocs = true.
Proof. vm_compute. reflexivity. Qed.

(* Outline::required_buffer_size = sum of the FreeTypeOutlineMemory::new allocations + slack *)
Lemma required_eq_total c h :
  required_buffer_size c h =
    let t := total (inst c h ft_allocs) in if t =? 0 then 0 else t + slack.
Proof.
  destruct c as [p ct msp mop mcds ms cvt sto tw hh hv].
  unfold required_buffer_size, inst, ft_allocs, slack.
  destruct hh, hv, h; cbn [c_points c_contours c_max_simple_points c_max_other_points
    c_max_component_delta_stack c_max_stack c_cvt_count c_storage_count c_max_twilight_points
    c_has_hinting c_has_variations cond_holds ae_cond ae_size ae_align ae_count count_of
    filter map total andb negb];
  repeat match goal with |- context [?x =? 0] => destruct (Z.eqb_spec x 0) end; cbn [negb]; lia.
Qed.

Lemma ft_aligns_ge1 c h : Forall (fun e => 1 <= snd (fst e)) (inst c h ft_allocs).
Proof.
  unfold inst. apply Forall_forall. intros x Hx.
  apply in_map_iff in Hx. destruct Hx as (e & <- & He). apply filter_In in He. destruct He as [He _].
  cbn. unfold ft_allocs in He. cbn in He.
  repeat (destruct He as [<-|He]; [cbn; lia|]). destruct He.
Qed.

Lemma hb_aligns_ge1 c h : Forall (fun e => 1 <= snd (fst e)) (inst c h hb_allocs).
Proof.
  unfold inst. apply Forall_forall. intros x Hx.
  apply in_map_iff in Hx. destruct Hx as (e & <- & He). apply filter_In in He. destruct He as [He _].
  cbn. unfold hb_allocs in He. cbn in He.
  repeat (destruct He as [<-|He]; [cbn; lia|]). destruct He.
Qed.

Lemma ft_chain c h : counts_nonneg c -> chain 8 (inst c h ft_allocs).
Proof.
  intros Hc. apply chain_inst; [exact Hc|].
  pose proof ft_static_ok as H. unfold static_ok in H. apply andb_true_iff in H. tauto.
Qed.

Theorem ft_carve_fits c h a n :
  counts_nonneg c -> 0 <= a -> a + n + 8 <= U64 -> required_buffer_size c h <= n ->
  exists l, carve a n (inst c h ft_allocs) = Done l.
Proof.
  intros Hc Ha Hb Hn. rewrite required_eq_total in Hn. cbv zeta in Hn.
  eapply carve_fits_chain with (m := 8) (M := slack); auto.
  - apply ft_chain; exact Hc.
  - apply aligns_inst. pose proof ft_static_ok as H. unfold static_ok in H.
    apply andb_true_iff in H. tauto.
  - unfold slack. lia.
  - unfold slack in *. destruct (Z.eqb_spec (total (inst c h ft_allocs)) 0); lia.
Qed.

Lemma total_lt_required c h : required_buffer_size c h < U64 -> total (inst c h ft_allocs) < U64.
Proof.
  rewrite required_eq_total. cbv zeta. unfold slack.
  destruct (Z.eqb_spec (total (inst c h ft_allocs)) 0); lia.
Qed.

(* the advertised size is representable (it was computed in usize): then too short a buffer is
   reported as None, never a panic *)
Theorem ft_carve_short c h a n :
  counts_nonneg c -> 0 <= a -> 0 <= n -> a + n + 8 <= U64 -> required_buffer_size c h < U64 ->
  n < total (inst c h ft_allocs) -> carve a n (inst c h ft_allocs) = Short.
Proof.
  intros Hc Ha Hn Hb Hr Hlt. apply carve_short; auto.
  - eapply chain_wf. apply ft_chain; exact Hc.
  - apply total_lt_required; exact Hr.
Qed.

(* n < required - slack  ==>  InsufficientMemory, in terms of the advertised size itself *)
Theorem ft_carve_short_required c h a n :
  counts_nonneg c -> 0 <= a -> 0 <= n -> a + n + 8 <= U64 -> required_buffer_size c h < U64 ->
  n + slack < required_buffer_size c h -> carve a n (inst c h ft_allocs) = Short.
Proof.
  intros Hc Ha Hn Hb Hr Hlt. apply ft_carve_short; auto.
  rewrite required_eq_total in Hlt. cbv zeta in Hlt. unfold slack in Hlt.
  destruct (Z.eqb_spec (total (inst c h ft_allocs)) 0); lia.
Qed.

Theorem ft_carve_never_panics c h a n :
  counts_nonneg c -> 0 <= a -> 0 <= n -> a + n + 8 <= U64 -> required_buffer_size c h < U64 ->
  carve a n (inst c h ft_allocs) <> Panic.
Proof.
  intros Hc Ha Hn Hb Hr.
  pose proof (chain_wf _ _ (ft_chain c h Hc)) as Hw.
  pose proof (total_lt_required c h Hr) as Ht.
  destruct (carve_from_exact _ a a n Hw Ha Hn Hb Ht) as [I1 I2].
  destruct (Z.lt_ge_cases n (end_addr a (inst c h ft_allocs) - a)) as [H1|H2].
  - unfold carve. rewrite I1 by exact H1. discriminate.
  - unfold carve. destruct (I2 H2) as [l ->]. discriminate.
Qed.

Theorem ft_carve_disjoint_inrange c h a n l :
  0 <= n -> carve a n (inst c h ft_allocs) = Done l ->
  ranges_ok 0 n l /\ slices_match a (inst c h ft_allocs) l.
Proof.
  intros Hn H. unfold carve in H.
  destruct (carve_from_ranges _ a a n l (ft_aligns_ge1 c h) ltac:(lia) Hn H) as [R S].
  replace (a - a) with 0 in R by lia. split; [exact R|exact S].
Qed.

Theorem ft_carve_lengths_independent c h a n l a' n' l' :
  0 <= n -> 0 <= n' ->
  carve a n (inst c h ft_allocs) = Done l -> carve a' n' (inst c h ft_allocs) = Done l' ->
  map snd l = map snd l'.
Proof.
  intros Hn Hn' H H'.
  destruct (ft_carve_disjoint_inrange c h a n l Hn H) as [_ S].
  destruct (ft_carve_disjoint_inrange c h a' n' l' Hn' H') as [_ S'].
  rewrite (slices_match_lengths _ _ _ S), (slices_match_lengths _ _ _ S'). reflexivity.
Qed.

(* HarfBuzzOutlineMemory::new: the alignments are NOT non-increasing (u16, u8, then 4-aligned deltas);
   the buffer still suffices because required_buffer_size also counts the `unscaled` buffer
   (8 * max_other_points) that this constructor never allocates. *)
Lemma hb_split : hb_allocs = (firstn 3 hb_allocs ++ skipn 3 hb_allocs)%list.
Proof. reflexivity. Qed.

Lemma inst_app c h l1 l2 : inst c h (l1 ++ l2)%list = (inst c h l1 ++ inst c h l2)%list.
Proof. unfold inst. rewrite filter_app, map_app. reflexivity. Qed.

Lemma hb_static_halves :
  static_ok slack (firstn 3 hb_allocs) = true /\ static_ok slack (skipn 3 hb_allocs) = true.
Proof. split; vm_compute; reflexivity. Qed.

Lemma hb_required_slack c :
  total (inst c false hb_allocs) + 8 * c_max_other_points c + (if total (inst c false ft_allocs) =? 0 then 0 else slack)
  = required_buffer_size c false.
Proof.
  rewrite required_eq_total. cbv zeta.
  destruct c as [p ct msp mop mcds ms cvt sto tw hh hv].
  unfold inst, ft_allocs, hb_allocs, slack.
  destruct hh, hv; cbn [c_points c_contours c_max_simple_points c_max_other_points
    c_max_component_delta_stack c_max_stack c_cvt_count c_storage_count c_max_twilight_points
    c_has_hinting c_has_variations cond_holds ae_cond ae_size ae_align ae_count count_of
    filter map total andb negb];
  repeat match goal with |- context [?x =? 0] => destruct (Z.eqb_spec x 0) end; lia.
Qed.

Theorem hb_carve_fits c a n :
  counts_nonneg c -> 1 <= c_max_other_points c -> 0 <= a -> a + n + 8 <= U64 ->
  required_buffer_size c false <= n ->
  exists l, carve a n (inst c false hb_allocs) = Done l.
Proof.
  intros Hc Hmop Ha Hb Hn.
  destruct hb_static_halves as [S1 S2]. unfold static_ok in S1, S2.
  apply andb_true_iff in S1. destruct S1 as [C1 A1]. apply andb_true_iff in S2. destruct S2 as [C2 A2].
  pose proof (chain_inst c false Hc _ 8 C1) as Ch1. pose proof (chain_inst c false Hc _ 8 C2) as Ch2.
  pose proof (aligns_inst c false slack _ A1) as Al1. pose proof (aligns_inst c false slack _ A2) as Al2.
  set (s1 := inst c false (firstn 3 hb_allocs)) in *. set (s2 := inst c false (skipn 3 hb_allocs)) in *.
  assert (Hseq : inst c false hb_allocs = s1 ++ s2) by (rewrite hb_split at 1; apply inst_app).
  pose proof (hb_required_slack c) as Hreq. rewrite Hseq in *. rewrite total_app in Hreq.
  pose proof (chain_wf _ _ Ch1) as W1. pose proof (chain_wf _ _ Ch2) as W2.
  assert (Hw : Forall entry_wf (s1 ++ s2)) by (apply Forall_app; split; assumption).
  pose proof (total_nonneg _ W1) as T1. pose proof (total_nonneg _ W2) as T2.
  assert (Hsl : 0 <= (if total (inst c false ft_allocs) =? 0 then 0 else slack))
    by (destruct (total (inst c false ft_allocs) =? 0); unfold slack; lia).
  assert (Hn0 : 0 <= n) by lia.
  destruct (carve_from_exact (s1 ++ s2) a a n Hw Ha Hn0 Hb ltac:(rewrite total_app; lia)) as [_ I].
  apply I. rewrite end_addr_app.
  pose proof (end_addr_bound s1 8 slack a Ch1 Al1 ltac:(unfold slack; lia)) as B1.
  pose proof (end_addr_bound s2 8 slack (end_addr a s1) Ch2 Al2 ltac:(unfold slack; lia)) as B2.
  unfold slack in *.
  destruct (total s1 =? 0), (total s2 =? 0); lia.
Qed.

(* ------------------------------------------------------------------ reset discipline *)

Lemma map_const_repeat (l : list Z) : map (fun _ => 0) l = repeat 0 (List.length l).
Proof. induction l; cbn; congruence. Qed.

Lemma resize_length n d l : List.length (resize n d l) = n.
Proof. unfold resize. rewrite app_length, firstn_length, repeat_length. lia. Qed.

Lemma map_const_resize n l : map (fun _ => 0) (resize n 0 l) = repeat 0 n.
Proof. rewrite map_const_repeat, resize_length. reflexivity. Qed.

Lemma post_reset_history_free tbl rf :
  forallb (history_free_entry rf) tbl = true ->
  forall cfg s s', post_reset tbl rf cfg s = post_reset tbl rf cfg s'.
Proof.
  intros H cfg s s'. unfold post_reset, setup, reset_program. rewrite !map_map.
  apply map_ext_in. intros [f a] Hin. rewrite forallb_forall in H. specialize (H _ Hin).
  unfold history_free_entry in H. cbn [fst snd] in *.
  destruct a; cbn [apply_action] in *; try reflexivity; try discriminate.
  rewrite H. rewrite !map_const_resize. reflexivity.
Qed.

Lemma gen_discipline_holds : gen_discipline_ok = true.
Proof. vm_compute. reflexivity. Qed.

Lemma gen_table_history_free : forallb (history_free_entry gen_reset_fields) setup_table = true.
Proof.
  pose proof gen_discipline_holds as H. unfold gen_discipline_ok in H.
  repeat (apply andb_true_iff in H; destruct H as [H ?]). assumption.
Qed.

Theorem reconfigure_history_free (run : hcfg -> hstate -> option hstate) cfg s1 s2 :
  reconfigure run setup_table gen_reset_fields cfg s1 = reconfigure run setup_table gen_reset_fields cfg s2.
Proof.
  unfold reconfigure. rewrite (post_reset_history_free _ _ gen_table_history_free cfg s1 s2). reflexivity.
Qed.

(* the converse direction for tables: a field that is only resized and not reset leaks *)
Lemma resize_only_leaks :
  let tbl := [("f"%string, AResizeOnly "n"%string)] in
  let cfg := {| sz := fun _ => 1%nat; fill := fun _ => [] |} in
  post_reset tbl [] cfg [("f"%string, [7])] <> post_reset tbl [] cfg [("f"%string, [9])].
Proof. cbv. discriminate. Qed.

Lemma hint_state_unchanged gp s g : fst (hint gp s g) = s.
Proof. reflexivity. Qed.

Lemma draw_all_spec gp s gs :
  draw_all gp s gs = (s, map (fun g => (g, gp s g)) gs).
Proof.
  induction gs as [|g r IH]; cbn [draw_all map]; [reflexivity|].
  unfold hint. rewrite IH. reflexivity.
Qed.

Theorem draw_order_independent gp s gs gs' :
  Permutation gs gs' ->
  fst (draw_all gp s gs) = s /\ fst (draw_all gp s gs') = s /\
  Permutation (snd (draw_all gp s gs)) (snd (draw_all gp s gs')) /\
  (forall g o, In (g, o) (snd (draw_all gp s gs)) -> o = snd (hint gp s g)).
Proof.
  intros P. rewrite !draw_all_spec. cbn [fst snd]. repeat split.
  - apply Permutation_map. exact P.
  - intros g o Hin. apply in_map_iff in Hin. destruct Hin as (g' & E & _). inversion E; subst. reflexivity.
Qed.

(* HintingInstance::reconfigure *)
Lemma gen_outer_holds :
  cff_subfonts_cleared = true /\ coords_from_effective_coords = true /\
  table_complete hinting_instance_fields hinting_instance_table = true /\
  forallb (history_free_entry []) hinting_instance_table = true.
Proof. repeat split; vm_compute; reflexivity. Qed.

(* the Auto arm does not let the replaced autohinter instance reach the new one *)
Lemma gen_auto_discipline_holds : gen_auto_reuse = false.
Proof. vm_compute. reflexivity. Qed.

Theorem outer_history_free run inner_cfg cff auto s s' cfg :
  outer_reconfigure run inner_cfg cff auto setup_table gen_reset_fields hinting_instance_table
                    cff_subfonts_cleared gen_auto_reuse s cfg =
  outer_reconfigure run inner_cfg cff auto setup_table gen_reset_fields hinting_instance_table
                    cff_subfonts_cleared gen_auto_reuse s' cfg.
Proof.
  destruct gen_outer_holds as (Hc & _ & _ & Ht).
  unfold outer_reconfigure. rewrite Hc. rewrite gen_auto_discipline_holds.
  assert (E1 : forall new, pick hinting_instance_table "size" new (o_size s) = pick hinting_instance_table "size" new (o_size s'))
    by (intros; vm_compute; reflexivity).
  assert (E2 : forall new, pickl hinting_instance_table "coords" new (o_coords s) = pickl hinting_instance_table "coords" new (o_coords s'))
    by (intros; vm_compute; reflexivity).
  assert (E3 : forall new, pick hinting_instance_table "target" new (o_target s) = pick hinting_instance_table "target" new (o_target s'))
    by (intros; vm_compute; reflexivity).
  assert (E4 : taken hinting_instance_table = true) by (vm_compute; reflexivity).
  rewrite E4. cbn [andb].
  destruct (oc_engine cfg), (oc_fmt cfg); rewrite ?E1, ?E2, ?E3; try reflexivity.
  rewrite (reconfigure_history_free run _
             (match o_kind s with KGlyf i => i | _ => [] end)
             (match o_kind s' with KGlyf i => i | _ => [] end)).
  reflexivity.
Qed.

(* after a reconfigure to the autohinter the metrics cache is empty, whatever the instance was before *)
Theorem outer_auto_cache_fresh run inner_cfg cff auto s cfg :
  oc_engine cfg = EAuto -> oc_fmt cfg <> FNone ->
  exists i, o_kind (snd (outer_reconfigure run inner_cfg cff auto setup_table gen_reset_fields
                           hinting_instance_table cff_subfonts_cleared gen_auto_reuse s cfg)) = KAuto i [].
Proof.
  intros He Hf. unfold outer_reconfigure. rewrite He, gen_auto_discipline_holds.
  destruct (oc_fmt cfg); try contradiction; cbn [snd o_kind]; eexists; reflexivity.
Qed.

(* draws through a cache that only holds metrics of the instance's own location return exactly the metrics of
   that location and keep the cache sound: results are a function of (location, style), in any order *)
Lemma cache_sound_nil compute coords : cache_sound compute coords [].
Proof. intros st m H. discriminate. Qed.

Lemma auto_get_sound compute coords c st :
  cache_sound compute coords c ->
  snd (auto_get compute coords c st) = compute coords st /\
  cache_sound compute coords (fst (auto_get compute coords c st)).
Proof.
  intros H. unfold auto_get. destruct (cache_get st c) as [m|] eqn:E; cbn [fst snd].
  - split; [apply H; exact E|exact H].
  - split; [reflexivity|]. intros st' m' H'. cbn [cache_get] in H'.
    destruct (Z.eqb_spec st st') as [->|Hne]; [inversion H'; reflexivity|apply H; exact H'].
Qed.

Theorem auto_draws_function_of_location compute coords sts : forall c,
  cache_sound compute coords c ->
  snd (auto_draw_all compute coords c sts) = map (compute coords) sts /\
  cache_sound compute coords (fst (auto_draw_all compute coords c sts)).
Proof.
  induction sts as [|st r IH]; intros c H; cbn [auto_draw_all map].
  - split; [reflexivity|exact H].
  - destruct (auto_get_sound compute coords c st H) as [E1 S1].
    destruct (auto_get compute coords c st) as [c1 m] eqn:G. cbn [fst snd] in *.
    destruct (IH c1 S1) as [E2 S2].
    destruct (auto_draw_all compute coords c1 r) as [c2 ms]. cbn [fst snd] in *.
    subst. split; [reflexivity|exact S2].
Qed.

(* ------------------------------------------------------------------ location *)

Lemma is_default_zeros l : Forall (fun c => c = 0) l -> is_default l = true.
Proof.
  intros H. unfold is_default. apply orb_true_iff. right.
  apply forallb_forall. intros x Hx. rewrite Forall_forall in H. rewrite (H x Hx). reflexivity.
Qed.

Theorem zero_location_equiv l : Forall (fun c => c = 0) l ->
  effective_coords l = effective_coords [] /\ effective_coords l = [].
Proof.
  intros H. unfold effective_coords. rewrite (is_default_zeros l H). cbn. split; reflexivity.
Qed.

Theorem nonzero_location_kept l : ~ Forall (fun c => c = 0) l -> effective_coords l = l.
Proof.
  intros H. unfold effective_coords, is_default.
  destruct l as [|x r]; [exfalso; apply H; constructor|].
  cbn [List.length Nat.eqb orb].
  destruct (forallb (fun c => c =? 0) (x :: r)) eqn:E; [|reflexivity].
  exfalso. apply H. apply Forall_forall. intros y Hy.
  rewrite forallb_forall in E. specialize (E y Hy). apply Z.eqb_eq in E. exact E.
Qed.

Theorem effective_coords_idempotent l : effective_coords (effective_coords l) = effective_coords l.
Proof.
  unfold effective_coords. destruct (is_default l) eqn:E; [reflexivity|]. rewrite E. reflexivity.
Qed.

(* ------------------------------------------------------------------ path well-formedness *)

Definition is_seg (c : cmd) : bool :=
  match c with CL _ _ | CQ _ _ _ _ | CC _ _ _ _ _ _ => true | _ => false end.

Lemma emit_segs st p st' c : emit st p = Some (st', c) -> forallb is_seg c = true.
Proof.
  unfold emit. destruct st; destruct (is_quad p); destruct (is_cubic p);
  intros H; inversion H; subst; reflexivity.
Qed.

Lemma emit_all_segs l : forall st st' c, emit_all st l = Some (st', c) -> forallb is_seg c = true.
Proof.
  induction l as [|p r IH]; intros st st' c H; cbn [emit_all] in H.
  - inversion H; subst. reflexivity.
  - destruct (emit st p) as [[st1 c1]|] eqn:E; [|discriminate].
    destruct (emit_all st1 r) as [[st2 c2]|] eqn:E2; [|discriminate].
    inversion H; subst. rewrite forallb_app. rewrite (emit_segs _ _ _ _ E), (IH _ _ _ E2). reflexivity.
Qed.

Lemma finish_shape st start f : finish st start = Some f ->
  exists segs, f = segs ++ [CZ] /\ forallb is_seg segs = true.
Proof.
  unfold finish. intros H.
  destruct st.
  - inversion H; subst. exists []. split; reflexivity.
  - destruct (emit _ _) as [[st' cs]|] eqn:E; [|discriminate]. inversion H; subst.
    exists cs. split; [reflexivity|]. eapply emit_segs; eauto.
  - destruct (emit _ _) as [[st' cs]|] eqn:E; [|discriminate]. inversion H; subst.
    exists cs. split; [reflexivity|]. eapply emit_segs; eauto.
  - destruct (emit _ _) as [[st' cs]|] eqn:E; [|discriminate]. inversion H; subst.
    exists cs. split; [reflexivity|]. eapply emit_segs; eauto.
Qed.

Lemma wf_go_segs segs : forall rest, forallb is_seg segs = true ->
  wf_go true (segs ++ rest) = wf_go true rest.
Proof.
  induction segs as [|c r IH]; intros rest H; [reflexivity|].
  cbn [forallb] in H. apply andb_true_iff in H. destruct H as [Hc Hr].
  destruct c; cbn in Hc; try discriminate; cbn [app wf_go andb]; apply IH; exact Hr.
Qed.

Lemma contour_wf style pts last c : contour_to_path style pts last = Some c ->
  forall rest, wf_go false (c ++ rest) = wf_go false rest.
Proof.
  unfold contour_to_path. intros H rest.
  destruct (contour_plan style pts last) as [| |start body]; [discriminate| |].
  - inversion H; subst. reflexivity.
  - destruct (emit_all PEmpty body) as [[st cb]|] eqn:E; [|discriminate].
    destruct (finish st start) as [f|] eqn:F; [|discriminate].
    inversion H; subst.
    destruct (finish_shape _ _ _ F) as (segs & -> & Hs).
    pose proof (emit_all_segs _ _ _ _ E) as Hb.
    cbn [app wf_go negb andb].
    rewrite <- !app_assoc. rewrite wf_go_segs by exact Hb. rewrite wf_go_segs by exact Hs.
    reflexivity.
Qed.

Lemma to_path_go_wf style pts ends : forall prev cmds,
  to_path_go style pts prev ends = Some cmds -> wf_go false cmds = true.
Proof.
  induction ends as [|e r IH]; intros prev cmds H; cbn [to_path_go] in H.
  - inversion H; subst. reflexivity.
  - destruct ((e <? _) || _); [discriminate|].
    destruct (contour_to_path _ _ _) as [c|] eqn:C; [|discriminate].
    destruct (to_path_go style pts (Some e) r) as [c'|] eqn:R; [|discriminate].
    inversion H; subst. rewrite (contour_wf _ _ _ _ C). eapply IH; eauto.
Qed.

Theorem to_path_wellformed style pts ends cmds :
  to_path style pts ends = Some cmds -> wf_stream cmds = true.
Proof. unfold to_path, wf_stream. apply to_path_go_wf. Qed.
