(* C17 — IndexMapSubsetPlan::new (model: coq/C17/Model.v plan_new / collect_used): the per-subtable maxima the
   plan records dominate every inner index the later remap looks up, and are members of the shared inner sets.
   Discharges the hypotheses of IndexMap.indexmap_entry_roundtrip from plan_new. *)
From Coq Require Import ZArith List Bool Lia Sorted.
From FV Require Import C17.Model C17.Proofs C17.IndexMap.
Import ListNotations.
Open Scope Z_scope.

(* ---- zinsert / set_nth ---- *)
Lemma zinsert_In x l y : In y (zinsert x l) <-> y = x \/ In y l.
Proof.
  induction l as [|a r IH]; cbn [zinsert].
  - cbn [In]. intuition congruence.
  - destruct (x <? a) eqn:E1.
    + cbn [In]. intuition congruence.
    + destruct (x =? a) eqn:E2.
      * apply Z.eqb_eq in E2. subst. cbn [In]. intuition congruence.
      * cbn [In]. rewrite IH. intuition congruence.
Qed.

Lemma set_nth_length {A} (l : list A) k f : length (set_nth l k f) = length l.
Proof. revert k. induction l as [|a r IH]; intros [|k]; cbn [set_nth length]; auto. Qed.

Lemma zlen_set_nth {A} (l : list A) k f : zlen (set_nth l k f) = zlen l.
Proof. unfold zlen. now rewrite set_nth_length. Qed.

Lemma nth_error_set_nth_eq {A} (l : list A) k f x :
  nth_error l k = Some x -> nth_error (set_nth l k f) k = Some (f x).
Proof.
  revert k. induction l as [|a r IH]; intros [|k]; cbn [set_nth nth_error]; try discriminate.
  - intros E. injection E as ->. reflexivity.
  - apply IH.
Qed.

Lemma nth_error_set_nth_eq_inv {A} (l : list A) k f y :
  nth_error (set_nth l k f) k = Some y -> exists x, nth_error l k = Some x /\ y = f x.
Proof.
  revert k. induction l as [|a r IH]; intros [|k]; cbn [set_nth nth_error]; try discriminate.
  - intros E. injection E as <-. eauto.
  - apply IH.
Qed.

Lemma nth_error_set_nth_neq {A} (l : list A) k f j : j <> k ->
  nth_error (set_nth l k f) j = nth_error l j.
Proof.
  revert k j. induction l as [|a r IH]; intros [|k] [|j] H; cbn [set_nth nth_error]; try reflexivity;
    try congruence.
  apply IH. congruence.
Qed.

Lemma znth_set_nth_eq {A} (l : list A) o f x :
  znth l o = Some x -> znth (set_nth l (Z.to_nat o) f) o = Some (f x).
Proof. unfold znth. destruct (o <? 0); [discriminate|]. apply nth_error_set_nth_eq. Qed.

Lemma znth_set_nth_eq_inv {A} (l : list A) o f y :
  znth (set_nth l (Z.to_nat o) f) o = Some y -> exists x, znth l o = Some x /\ y = f x.
Proof. unfold znth. destruct (o <? 0); [discriminate|]. apply nth_error_set_nth_eq_inv. Qed.

Lemma znth_set_nth_neq {A} (l : list A) o f j : 0 <= o -> j <> o ->
  znth (set_nth l (Z.to_nat o) f) j = znth l j.
Proof.
  intros Ho Hne. unfold znth. destruct (j <? 0) eqn:E; [reflexivity|]. apply Z.ltb_ge in E.
  apply nth_error_set_nth_neq. lia.
Qed.

Lemma znth_some {A} (l : list A) o : 0 <= o < zlen l -> exists x, znth l o = Some x.
Proof.
  unfold znth, zlen. intros H. destruct (o <? 0) eqn:E; [apply Z.ltb_lt in E; lia|].
  destruct (nth_error l (Z.to_nat o)) eqn:E2; [eauto|]. apply nth_error_None in E2. lia.
Qed.

(* ---- the loop invariant of collect_used ---- *)
(* every recorded maximum is either the initial 0 or a member of the subtable's inner set *)
Definition st_pre (maxs : list Z) (sets : list (list Z)) : Prop :=
  forall o mx s, znth maxs o = Some mx -> znth sets o = Some s -> mx = 0 \/ In mx s.

(* the state only grows *)
Definition st_mono (outers maxs : list Z) (sets : list (list Z)) (outers' maxs' : list Z)
           (sets' : list (list Z)) : Prop :=
  (forall x, In x outers -> In x outers')
  /\ forall o mx s, znth maxs o = Some mx -> znth sets o = Some s ->
       exists mx' s', znth maxs' o = Some mx' /\ znth sets' o = Some s' /\ mx <= mx'
                      /\ (forall x, In x s -> In x s') /\ (In mx s -> In mx' s').

Lemma st_mono_refl outers maxs sets : st_mono outers maxs sets outers maxs sets.
Proof.
  split; [auto|]. intros o mx s Hm Hs. exists mx, s. repeat split; auto. lia.
Qed.

Lemma st_mono_trans o1 m1 s1 o2 m2 s2 o3 m3 s3 :
  st_mono o1 m1 s1 o2 m2 s2 -> st_mono o2 m2 s2 o3 m3 s3 -> st_mono o1 m1 s1 o3 m3 s3.
Proof.
  intros [Ha Hb] [Hc Hd]. split; [auto|].
  intros o mx s Hm Hs. destruct (Hb o mx s Hm Hs) as (mx2 & s2' & Hm2 & Hs2 & Hle & Hsub & Hin).
  destruct (Hd o mx2 s2' Hm2 Hs2) as (mx3 & s3' & Hm3 & Hs3 & Hle3 & Hsub3 & Hin3).
  exists mx3, s3'. repeat split; auto. lia.
Qed.

Lemma step_mono outers maxs sets o i : 0 <= o ->
  st_mono outers maxs sets (zinsert o outers) (set_nth maxs (Z.to_nat o) (fun x => Z.max x i))
          (set_nth sets (Z.to_nat o) (zinsert i)).
Proof.
  intros Ho. split.
  - intros x Hx. apply zinsert_In. auto.
  - intros o' mx s Hm Hs. destruct (Z.eq_dec o' o) as [->|Hne].
    + exists (Z.max mx i), (zinsert i s).
      split; [exact (znth_set_nth_eq maxs o (fun x => Z.max x i) mx Hm)|].
      split; [exact (znth_set_nth_eq sets o (zinsert i) s Hs)|].
      split; [lia|]. split.
      * intros x Hx. apply zinsert_In. auto.
      * intros Hin. apply zinsert_In. destruct (Z.max_spec mx i) as [[_ ->]|[_ ->]]; auto.
    + exists mx, s. rewrite !znth_set_nth_neq by assumption. repeat split; auto. lia.
Qed.

Lemma step_pre maxs sets o i : 0 <= o -> 0 <= i -> st_pre maxs sets ->
  st_pre (set_nth maxs (Z.to_nat o) (fun x => Z.max x i)) (set_nth sets (Z.to_nat o) (zinsert i)).
Proof.
  intros Ho Hi Hpre o' mx' s' Hm Hs. destruct (Z.eq_dec o' o) as [->|Hne].
  - apply znth_set_nth_eq_inv in Hm. destruct Hm as (mx & Hm & ->).
    apply znth_set_nth_eq_inv in Hs. destruct Hs as (s & Hs & ->).
    right. apply zinsert_In. destruct (Hpre o mx s Hm Hs) as [->|Hin].
    + left. lia.
    + destruct (Z.max_spec mx i) as [[_ ->]|[_ ->]]; auto.
  - rewrite znth_set_nth_neq in Hm by assumption. rewrite znth_set_nth_neq in Hs by assumption.
    eapply Hpre; eauto.
Qed.

Lemma collect_used_spec m nvd mc : forall n2o outers maxs sets outers' maxs' sets',
  (forall g old, In (g, old) n2o -> 0 <= fst (im_val m old) < nvd /\ 0 <= snd (im_val m old)) ->
  StronglySorted Z.lt (map fst n2o) ->
  zlen maxs = nvd -> zlen sets = nvd -> st_pre maxs sets ->
  collect_used m nvd n2o mc (outers, maxs, sets) = (outers', maxs', sets') ->
  zlen maxs' = nvd /\ zlen sets' = nvd /\ st_mono outers maxs sets outers' maxs' sets'
  /\ forall g old, In (g, old) n2o -> g < mc ->
       In (fst (im_val m old)) outers'
       /\ exists mx s, znth maxs' (fst (im_val m old)) = Some mx /\ znth sets' (fst (im_val m old)) = Some s
                       /\ 0 <= snd (im_val m old) <= mx /\ In (snd (im_val m old)) s /\ In mx s.
Proof.
  induction n2o as [|[g old] r IH]; intros outers maxs sets outers' maxs' sets' Hwf Hs Hlm Hls Hpre Hc.
  - cbn [collect_used] in Hc. injection Hc as <- <- <-.
    split; [exact Hlm|]. split; [exact Hls|]. split; [apply st_mono_refl|]. intros ? ? [].
  - cbn [collect_used] in Hc. cbn [map fst] in Hs. apply StronglySorted_inv in Hs. destruct Hs as [Hs' Hf].
    rewrite Forall_forall in Hf.
    destruct (mc <=? g) eqn:Eg.
    + injection Hc as <- <- <-. apply Z.leb_le in Eg.
      split; [exact Hlm|]. split; [exact Hls|]. split; [apply st_mono_refl|].
      intros g' old' Hin Hlt. exfalso. destruct Hin as [E|Hin].
      * injection E as <- <-. lia.
      * specialize (Hf g' (in_map fst _ _ Hin)). cbn [fst] in Hf. lia.
    + apply Z.leb_gt in Eg.
      pose proof (Hwf g old (or_introl eq_refl)) as Hw.
      destruct (im_val m old) as [o i] eqn:Ev. cbn [fst snd] in Hw. destruct Hw as [Ho Hi].
      destruct (nvd <=? o) eqn:Eo; [apply Z.leb_le in Eo; lia|].
      assert (Hwf' : forall g0 old0, In (g0, old0) r ->
                0 <= fst (im_val m old0) < nvd /\ 0 <= snd (im_val m old0))
        by (intros g0 old0 H0; apply (Hwf g0 old0); right; exact H0).
      specialize (IH _ _ _ _ _ _ Hwf' Hs'
                     (eq_trans (zlen_set_nth _ _ _) Hlm) (eq_trans (zlen_set_nth _ _ _) Hls)
                     (step_pre maxs sets o i (proj1 Ho) Hi Hpre) Hc).
      destruct IH as (Hlm' & Hls' & Hmono & Hent).
      pose proof (step_mono outers maxs sets o i (proj1 Ho)) as Hstep.
      split; [exact Hlm'|]. split; [exact Hls'|].
      split; [eapply st_mono_trans; eauto|].
      intros g' old' Hin Hlt. destruct Hin as [E|Hin]; [|exact (Hent g' old' Hin Hlt)].
      injection E as <- <-. rewrite Ev. cbn [fst snd].
      destruct (znth_some maxs o ltac:(lia)) as [mx0 Hm0].
      destruct (znth_some sets o ltac:(lia)) as [s0 Hs0].
      destruct Hstep as [Hso Hst]. destruct (Hst o mx0 s0 Hm0 Hs0) as (mx1 & s1 & Hm1 & Hs1 & Hle1 & Hsub1 & _).
      pose proof (znth_set_nth_eq maxs o (fun x => Z.max x i) mx0 Hm0) as Hm1'. cbn beta in Hm1'.
      pose proof (znth_set_nth_eq sets o (zinsert i) s0 Hs0) as Hs1'.
      rewrite Hm1' in Hm1. injection Hm1 as <-. rewrite Hs1' in Hs1. injection Hs1 as <-.
      assert (Hin1 : In (Z.max mx0 i) (zinsert i s0)).
      { apply zinsert_In. destruct (Hpre o mx0 s0 Hm0 Hs0) as [->|Hin0].
        - left. lia.
        - destruct (Z.max_spec mx0 i) as [[_ ->]|[_ ->]]; auto. }
      destruct Hmono as [Hmo Hmt].
      destruct (Hmt o _ _ Hm1' Hs1') as (mx2 & s2 & Hm2 & Hs2 & Hle2 & Hsub2 & Hin2).
      split.
      * apply Hmo, zinsert_In. auto.
      * exists mx2, s2. split; [exact Hm2|]. split; [exact Hs2|]. split; [lia|]. split.
        -- apply Hsub2, zinsert_In. auto.
        -- apply Hin2, Hin1.
Qed.

(* the maxima of IndexMapSubsetPlan::new cover every entry the remap will look up *)
Lemma indexmap_max_covers_l : forall b tbl bypass nvd n2o outers sets p outers' sets',
  let m := Some (b, tbl) in
  zlen sets = nvd ->
  StronglySorted Z.lt (map fst n2o) ->
  (forall g old, In (g, old) n2o -> 0 <= fst (im_val m old) < nvd /\ 0 <= snd (im_val m old)) ->
  plan_new m bypass nvd n2o outers sets = Some (p, outers', sets') ->
  zlen (ip_max_inners p) = nvd /\ zlen sets' = nvd
  /\ forall g old, In (g, old) n2o -> g < ip_map_count p ->
       let o := fst (im_val m old) in let i := snd (im_val m old) in
       In o outers'
       /\ exists mx s, znth (ip_max_inners p) o = Some mx /\ znth sets' o = Some s
                       /\ 0 <= i <= mx /\ In i s /\ In mx s.
Proof.
  intros b tbl bypass nvd n2o outers sets p outers' sets' m Hls Hs Hwf Hp.
  assert (Hnvd : 0 <= nvd) by (subst nvd; unfold zlen; lia).
  assert (Hl0 : zlen (map (fun _ : Z => 0) (zrange nvd)) = nvd) by (apply zlen_map_zrange; exact Hnvd).
  unfold plan_new in Hp. subst m. cbv beta iota zeta in Hp.
  destruct (rev n2o) as [|[g0 old0] r0] eqn:Er.
  - injection Hp as <- <- <-. cbn [ip_max_inners ip_map_count].
    split; [exact Hl0|]. split; [exact Hls|].
    intros g old Hin _. exfalso.
    assert (E : n2o = []) by (rewrite <- (rev_involutive n2o), Er; reflexivity).
    rewrite E in Hin. destruct Hin.
  - set (mc := trailing_run (Some (b, tbl)) r0 g0 (im_val (Some (b, tbl)) old0) + 1) in *.
    destruct (collect_used (Some (b, tbl)) nvd n2o mc
                (outers, map (fun _ : Z => 0) (zrange nvd), sets)) as [[ou mxs] ss] eqn:Ec.
    injection Hp as <- <- <-. cbn [ip_max_inners ip_map_count].
    assert (Hpre : st_pre (map (fun _ : Z => 0) (zrange nvd)) sets).
    { intros o mx s Hm _. left. rewrite znth_map_zrange in Hm.
      destruct ((0 <=? o) && (o <? nvd)); congruence. }
    destruct (collect_used_spec _ _ _ _ _ _ _ _ _ _ Hwf Hs Hl0 Hls Hpre Ec) as (H1 & H2 & _ & H4).
    split; [exact H1|]. split; [exact H2|].
    intros g old Hin Hlt. cbv zeta. exact (H4 g old Hin Hlt).
Qed.

(* ---- corollary: the entry survives the packing with the inner bit count the plan computes ---- *)
Lemma znth_combine_In {A B} (a : list A) (b : list B) k x y :
  znth a k = Some x -> znth b k = Some y -> In (x, y) (combine a b).
Proof.
  unfold znth. destruct (k <? 0); [discriminate|]. generalize (Z.to_nat k) as n. clear k.
  revert b. induction a as [|a0 a IH]; intros b [|n]; cbn [nth_error]; try discriminate.
  - destruct b as [|b0 b]; cbn [nth_error]; [discriminate|]. intros E1 E2.
    injection E1 as ->. injection E2 as ->. left. reflexivity.
  - destruct b as [|b0 b]; cbn [nth_error]; [discriminate|]. intros E1 E2.
    right. eapply IH; eauto.
Qed.

Lemma indexmap_plan_entry_roundtrip_l : forall b tbl bypass nvd n2o outers sets p outers' sets',
  let m := Some (b, tbl) in
  zlen sets = nvd ->
  StronglySorted Z.lt (map fst n2o) ->
  (forall g old, In (g, old) n2o -> 0 <= fst (im_val m old) < nvd /\ 0 <= snd (im_val m old)) ->
  plan_new m bypass nvd n2o outers sets = Some (p, outers', sets') ->
  forall g old, In (g, old) n2o -> g < ip_map_count p ->
  let o := fst (im_val m old) in let i := snd (im_val m old) in
  forall inner_maps s i' o',
  znth sets' o = Some s -> znth inner_maps o = Some s -> zlen inner_maps = nvd ->
  StronglySorted Z.lt s -> (forall x, In x s -> 0 <= x) ->
  index_of i s 0 = Some i' -> 0 <= o' ->
  let ibc := inner_bit_count p inner_maps in
  im_unpack ibc (im_pack ibc o' i') = (o', i').
Proof.
  intros b tbl bypass nvd n2o outers sets p outers' sets' m Hls Hs Hwf Hp g old Hin Hlt o i
         inner_maps s i' o' Hso Him Hlen Hss Hnn Hidx Ho'.
  destruct (indexmap_max_covers_l b tbl bypass nvd n2o outers sets p outers' sets' Hls Hs Hwf Hp)
    as (_ & _ & Hcov).
  destruct (Hcov g old Hin Hlt) as (_ & mx & s2 & Hmx & Hs2 & Hi & _ & Hmxin).
  fold m in Hmx, Hs2, Hi, Hmxin. fold o in Hmx, Hs2. fold i in Hi.
  rewrite Hso in Hs2. injection Hs2 as <-.
  eapply indexmap_entry_roundtrip with (mx := mx) (imap := s) (i := i); eauto.
  eapply znth_combine_In; eauto.
Qed.

