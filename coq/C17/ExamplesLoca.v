(* C17: concrete instances of the loca-offset theorems (non-vacuity) *)
From Coq Require Import ZArith List Bool Lia Sorted.
From FV Require Import C17.Model C17.Proofs C17.Loca.
Import ListNotations.
Open Scope Z_scope.

(* short format, a RETAIN_GIDS gap at new id 3, odd lengths 23 and 7, an empty glyph 0 *)
Definition loca_ex_ents : list (Z * Z) := [(0, 0); (1, 23); (2, 20); (4, 7)].

Lemma loca_ex_wf : loca_wf 5 loca_ex_ents.
Proof.
  split; [cbn [map fst loca_ex_ents]; repeat constructor; lia|].
  intros g l [H | [H | [H | [H | []]]]]; inversion H; subst; lia.
Qed.

Example loca_exact_ex :
  loca_wf 5 loca_ex_ents
  /\ loca_subset 5 loca_ex_ents = LTable 0 [0; 0; 12; 22; 22; 26]
  /\ map (loca_end loca_ex_ents) [0; 1; 2; 3; 4] = [0; 24; 44; 44; 52]
  /\ (forall i, 0 <= i < 5 ->
        loca_read 0 [0; 0; 12; 22; 22; 26] (i + 1) = Some (loca_end loca_ex_ents i))
  /\ glyf_starts true loca_ex_ents 0 = [(0, (0, 0)); (1, (0, 23)); (2, (24, 20)); (4, (44, 7))]
  /\ loca_end loca_ex_ents 3 = loca_end loca_ex_ents 2.
Proof.
  assert (C : loca_subset 5 loca_ex_ents = LTable 0 [0; 0; 12; 22; 22; 26]) by (vm_compute; reflexivity).
  split; [exact loca_ex_wf|]. split; [exact C|]. split; [vm_compute; reflexivity|].
  split; [|split; [vm_compute; reflexivity|]].
  - destruct (loca_offsets_exact_l 5 loca_ex_ents ltac:(lia) loca_ex_wf) as [_ Hshort].
    destruct Hshort as [offs [E [_ [_ Hr]]]]; [vm_compute; intros H; discriminate H|].
    rewrite C in E. injection E as <-. exact Hr.
  - apply (loca_gap_empty_l 5 loca_ex_ents 3 loca_ex_wf); [lia|].
    cbn [map fst loca_ex_ents]. intros [H | [H | [H | [H | []]]]]; lia.
Qed.

(* long format: total 131072 >= 0x1FFFF, even lengths *)
Definition loca_ex_long : list (Z * Z) := [(0, 131070); (1, 2)].

Lemma loca_ex_long_wf : loca_wf 2 loca_ex_long.
Proof.
  split; [cbn [map fst loca_ex_long]; repeat constructor; lia|].
  intros g l [H | [H | []]]; inversion H; subst; lia.
Qed.

Example loca_long_ex :
  loca_wf 2 loca_ex_long
  /\ loca_format loca_ex_long = 1
  /\ loca_subset 2 loca_ex_long = LTable 1 [0; 131070; 131072]
  /\ (forall i, 0 <= i < 2 ->
        loca_read 1 [0; 131070; 131072] (i + 1) = Some (loca_end loca_ex_long i)).
Proof.
  assert (C : loca_subset 2 loca_ex_long = LTable 1 [0; 131070; 131072]) by (vm_compute; reflexivity).
  split; [exact loca_ex_long_wf|]. split; [vm_compute; reflexivity|]. split; [exact C|].
  destruct (loca_offsets_exact_l 2 loca_ex_long ltac:(lia) loca_ex_long_wf) as [Hlong _].
  destruct Hlong as [offs [E [_ [_ Hr]]]];
    [vm_compute; reflexivity|vm_compute; intros H; discriminate H|].
  rewrite C in E. injection E as <-. exact Hr.
Qed.

(* the u16 running-offset overflow panics: two glyphs of 40000 bytes, total 80000 in (65535, 131070] *)
Example loca_short_overflow_ex : loca_subset 2 [(0, 40000); (1, 40000)] = LPanic.
Proof.
  apply loca_short_overflow_panics_l.
  - split; [cbn [map fst]; repeat constructor; lia|].
    intros g l [H | [H | []]]; inversion H; subst; lia.
  - intros g l [H | [H | []]]; inversion H; subst; vm_compute; intros E; discriminate E.
  - vm_compute. split; [reflexivity|intros E; discriminate E].
Qed.

