(* C17 — property theorems.  Only statements, [exact lemma] and Print Assumptions. *)
From Coq Require Import ZArith List Sorted.
From FV Require Import C17.Model C17.Proofs C17.Closure C17.Idempotent C17.IndexMap C17.Gvar.
From FV Require Import C17.PreservesAll C17.IdempotentRetain C17.IndexMapMax C17.Loca C17.LocaPlan.
Import ListNotations.
Open Scope Z_scope.

(* the retained glyph set contains .notdef, every valid requested id, the glyph of every requested
   character and the glyph of every character whose glyph was requested; and nothing outside the font *)
Theorem c17_closure_contains_requested : forall F gids unis, NoDup (map fst (f_cmap F)) ->
  let kept := kept_glyphs F gids unis in
  (0 < f_n F -> In 0 kept)
  /\ (forall g, In g gids -> 0 <= g < f_n F -> In g kept)
  /\ (forall c g, In c unis -> In (c, g) (f_cmap F) -> 0 <= g < f_n F -> In g kept)
  /\ (forall c g, In g gids -> In (c, g) (f_cmap F) -> 0 <= g < f_n F -> In g kept)
  /\ (forall g, In g kept -> 0 <= g < f_n F).
Proof. exact closure_contains_requested_l. Qed.

(* every component of every kept composite is kept - under the explicit hypotheses the code needs:
   component ids inside the font, nesting bounded by a ranking function <= 65 that strictly decreases along
   component edges (so no cycles), and the operation budget |glyphset_gsub| * 64 >= number of glyphs.
   WITHOUT them the statement is false of the faithful model: c17_closure_truncation_refuted. *)
Theorem c17_closure_component_closed : forall F (rank : Z -> Z),
  (forall g, 0 <= rank g <= 65) ->
  (forall g cs h c, glyph_at F g = GC cs h -> In c cs -> rank c < rank g) ->
  (forall g cs h c, glyph_at F g = GC cs h -> In c cs -> 0 <= c < f_n F) ->
  forall gids unis,
  f_n F <= zlen (view (f_n F) (gsub_set F gids unis)) * 64 ->
  forall g cs h c, In g (kept_glyphs F gids unis) -> glyph_at F g = GC cs h -> In c cs ->
                   In c (kept_glyphs F gids unis).
Proof. exact closure_component_closed_l. Qed.

(* without any hypothesis: a composite that the closure expands (first visit, nesting depth <= 64,
   budget left) gets all of its direct components *)
Theorem c17_closure_component_closed_partial : forall fuel F gid set op d cs h,
  memz gid set = false -> d <= 64 -> 1 <= op -> glyph_at F gid = GC cs h ->
  forall c, In c cs -> In c (fst (clos (S (S fuel)) F gid (set, op) d)).
Proof. exact clos_direct. Qed.

(* F-7: beyond nesting depth 64 the closure silently stops descending: a kept composite references a
   dropped glyph and is written as an empty glyph *)
Theorem c17_closure_truncation_refuted :
  exists F gids unis g c h,
    In g (kept_glyphs F gids unis) /\ glyph_at F g = GC [c] h /\ 0 <= c < f_n F
    /\ ~ In c (kept_glyphs F gids unis)
    /\ exists gl g', glyf_subset F false false (kept_glyphs F gids unis) = Some gl
                     /\ glyph_map false (kept_glyphs F gids unis) g = Some g' /\ znth gl g' = Some GE.
Proof. exact closure_truncation_refuted_l. Qed.

(* renumbering by rank: a monotone bijection between the kept set and [0, num_output) *)
Theorem c17_gid_map_bijective_monotone : forall F gids unis,
  let kept := kept_glyphs F gids unis in
  (forall g, In g kept -> exists i, glyph_map false kept g = Some i /\ 0 <= i < zlen kept
                                     /\ old_of_new false kept i = Some g)
  /\ (forall i, 0 <= i < zlen kept -> exists g, In g kept /\ old_of_new false kept i = Some g
                                                /\ glyph_map false kept g = Some i)
  /\ (forall g h i j, glyph_map false kept g = Some i -> glyph_map false kept h = Some j -> g < h -> i < j)
  /\ (forall g i, glyph_map false kept g = Some i -> In g kept /\ 0 <= g < f_n F)
  /\ num_output false kept = zlen kept.
Proof. exact gid_map_bijective_monotone_l. Qed.

(* RETAIN_GIDS: identity on the kept set, undefined elsewhere, num_output = max + 1 *)
Theorem c17_retain_gids_identity : forall F gids unis g,
  let kept := kept_glyphs F gids unis in
  (In g kept -> glyph_map true kept g = Some g /\ old_of_new true kept g = Some g)
  /\ (forall g', glyph_map true kept g = Some g' -> g' = g /\ In g kept)
  /\ (forall m r, rev kept = m :: r -> num_output true kept = m + 1).
Proof. exact retain_gids_identity_l. Qed.

(* hmtx: every kept glyph has the same advance and side bearing under its new id, INCLUDING the
   numberOfHMetrics trimming loop and the zero-filled gaps of RETAIN_GIDS; the table has the announced shape *)
Theorem c17_hmtx_preserved : forall F gids unis retain long' lsbs' g g',
  let kept := kept_glyphs F gids unis in
  num_output retain kept <= 65535 ->
  hmtx_subset F retain kept = HTable long' lsbs' ->
  glyph_map retain kept g = Some g' ->
  hm_advance long' g' = hm_advance (f_long F) g
  /\ hm_lsb long' lsbs' g' = hm_lsb (f_long F) (f_lsbs F) g
  /\ zlen long' = new_num_h_metrics F retain kept
  /\ zlen long' + zlen lsbs' = num_output retain kept.
Proof. exact hmtx_preserved_kept. Qed.

(* cmap: (c, g') is in the subset's character list exactly when c was mapped to some g in the original,
   c or g was requested, and g' is the renumbered g *)
Theorem c17_cmap_exact : forall F gids unis retain kept cm, NoDup (map fst (f_cmap F)) ->
  cmap_subset retain kept (unicode_list F gids unis) = Some cm ->
  forall c g', In (c, g') cm <->
    exists g, In (c, g) (f_cmap F) /\ (In c unis \/ In g gids) /\ glyph_map retain kept g = Some g'.
Proof. exact cmap_exact_l. Qed.

(* glyf: the record of a kept glyph under its new id is the original record with component ids renamed *)
Theorem c17_glyph_record_preserved : forall F gids unis retain notdef gl g g',
  let kept := kept_glyphs F gids unis in
  glyf_subset F retain notdef kept = Some gl ->
  glyph_map retain kept g = Some g' ->
  (g <> 0 \/ notdef = true) ->
  znth gl g' = Some (subset_glyph retain kept (glyph_at F g))
  /\ zlen gl = num_output retain kept.
Proof. exact glyph_record_preserved_kept. Qed.
Theorem c17_composite_components_renamed : forall retain kept cs h cs',
  all_some (map (glyph_map retain kept) cs) = Some cs' ->
  subset_glyph retain kept (GC cs h) = GC cs' h
  /\ length cs' = length cs
  /\ forall k c, nth_error cs k = Some c -> exists c', nth_error cs' k = Some c' /\ glyph_map retain kept c = Some c'.
Proof. exact subset_glyph_composite. Qed.

(* subsetting to everything: nothing is dropped and the renumbering is the identity (both modes);
   with c17_hmtx_preserved / c17_glyph_record_preserved / c17_cmap_exact every observation is unchanged *)
Theorem c17_subset_all_identity : forall F gids unis retain, NoDup (map fst (f_cmap F)) ->
  (forall g, 0 <= g < f_n F -> In g gids) ->
  kept_glyphs F gids unis = zrange (f_n F)
  /\ (forall g, 0 <= g < f_n F -> glyph_map retain (kept_glyphs F gids unis) g = Some g)
  /\ (0 < f_n F -> num_output retain (kept_glyphs F gids unis) = f_n F).
Proof. exact subset_all_identity_l. Qed.

(* no junk: the retained set is inside every component-closed set that contains the closure roots
   (.notdef, requested ids, glyphs of retained characters, UVS glyphs, COLR reach); the roots are retained.
   With c17_closure_component_closed: kept = the least component-closed set containing the roots. *)
Theorem c17_closure_minimal : forall F gids unis (S : Z -> Prop),
  (forall g cs h c, S g -> glyph_at F g = GC cs h -> In c cs -> S c) ->
  (forall r, In r (closure_roots F gids unis) -> S r) ->
  forall x, In x (kept_glyphs F gids unis) -> S x.
Proof. exact closure_minimal_l. Qed.
Theorem c17_closure_roots_kept : forall F gids unis r,
  In r (closure_roots F gids unis) -> In r (kept_glyphs F gids unis).
Proof. exact closure_roots_kept. Qed.

(* subsetting the subset again with the same request (same characters, requested ids renumbered): every
   glyph is kept and the renumbering is the identity - rank renumbering, fonts without COLR/UVS closure,
   provided neither run truncated its component closure (c17_closure_component_closed) and the emptied
   .notdef is not a composite.  With c17_hmtx_preserved / c17_glyph_record_preserved / c17_cmap_exact
   applied to the second run, every modelled observation of the subset is unchanged. *)
Theorem c17_subset_idempotent : forall F gids unis notdef gl long' lsbs' cm,
  let K := kept_glyphs F gids unis in
  let F' := subset_afont K gl long' lsbs' cm in
  let K' := kept_glyphs F' (renumber_request K gids) unis in
  f_colr F = None -> f_uvs F = [] ->
  NoDup (map fst (f_cmap F)) -> NoDup (map fst cm) -> 0 < f_n F ->
  glyf_subset F false notdef K = Some gl ->
  cmap_subset false K (unicode_list F gids unis) = Some cm ->
  (notdef = true \/ forall cs h, glyph_at F 0 <> GC cs h) ->
  (forall g cs h c, In g K -> glyph_at F g = GC cs h -> In c cs -> In c K) ->
  (forall i cs h c, In i K' -> glyph_at F' i = GC cs h -> In c cs -> In c K') ->
  K' = zrange (f_n F') /\ forall i, 0 <= i < f_n F' -> glyph_map false K' i = Some i.
Proof. exact subset_idempotent_l. Qed.

(* HVAR / VVAR DeltaSetIndexMap repacking (klippa hvar.rs IndexMapSubsetPlan::remap + variations.rs
   DeltaSetIndexMap::subset): an entry survives pack -> unpack whenever its inner index fits the inner bit count *)
Theorem c17_indexmap_pack_roundtrip : forall ibc o i, 0 <= ibc -> 0 <= o -> 0 <= i < 2 ^ ibc ->
  im_unpack ibc (im_pack ibc o i) = (o, i).
Proof. exact indexmap_pack_roundtrip_l. Qed.
(* ... the truncation to the entry width does not touch it when the outer index fits the remaining bits *)
Theorem c17_indexmap_pack_fits_width : forall ibc w o i, 0 <= ibc -> 0 <= o -> 0 <= i < 2 ^ ibc ->
  ibc <= 8 * w -> o < 2 ^ (8 * w - ibc) ->
  Z.land (im_pack ibc o i) (2 ^ (8 * w) - 1) = im_pack ibc o i.
Proof. exact pack_fits_width. Qed.
(* ... the inner bit count the plan computes (maximum over ALL ItemVariationData subtables, at least 1) covers
   the new index of the largest old inner index of every subtable *)
Theorem c17_indexmap_inner_bits_cover : forall p inner_maps,
  1 <= inner_bit_count p inner_maps
  /\ forall mx imap k, In (mx, imap) (combine (ip_max_inners p) inner_maps) -> mx <> 0 ->
       index_of mx imap 0 = Some k -> k < 2 ^ inner_bit_count p inner_maps.
Proof. exact inner_bit_count_covers. Qed.
(* ... hence for ALL entries: an entry whose old inner index is at most the recorded maximum of its subtable
   (new inner index = rank in the ascending retained set) is read back unchanged *)
Theorem c17_indexmap_entry_roundtrip : forall p inner_maps mx imap i i' o',
  In (mx, imap) (combine (ip_max_inners p) inner_maps) ->
  StronglySorted Z.lt imap -> (forall x, In x imap -> 0 <= x) -> In mx imap ->
  0 <= i <= mx -> index_of i imap 0 = Some i' -> 0 <= o' ->
  let ibc := inner_bit_count p inner_maps in
  im_unpack ibc (im_pack ibc o' i') = (o', i').
Proof. exact indexmap_entry_roundtrip. Qed.

(* gvar offsets (klippa gvar.rs): what is stored is read back exactly - long format for every 32-bit offset,
   short format for every even offset <= 0x1FFFE *)
Theorem c17_gvar_offsets_roundtrip : forall long off,
  (long = true -> 0 <= off < 4294967296) ->
  (long = false -> 0 <= off <= 131070 /\ Z.even off = true) ->
  gv_read long (gv_stored long off) = off.
Proof. exact gvar_offsets_roundtrip_l. Qed.
(* the format decision is sufficient (after fixes 88e7b85 + 8b3457d, no side condition on the renumbering or on the
   data lengths): short chosen => every offset even, <= 0x1FFFE, read back exactly; and the padded offsets cover
   the data *)
Theorem c17_gvar_format_choice_sufficient : forall lens retain notdef kept,
  (forall g, 0 <= gv_len lens g) ->
  gv_long lens retain notdef kept = false ->
  forall i, let off := gv_end_offset false lens retain notdef kept i in
            0 <= off <= 131070 /\ Z.even off = true
            /\ gv_read false (gv_stored false off) = off.
Proof. exact gvar_format_choice_sufficient_l. Qed.
Theorem c17_gvar_short_covers_data : forall lens retain notdef kept i, (forall g, 0 <= gv_len lens g) ->
  gv_end_offset true lens retain notdef kept i <= gv_end_offset false lens retain notdef kept i.
Proof. exact gvar_short_covers_data_l. Qed.
(* the rule before the fixes (size summed over the NEW ids, no padding) was refuted by two witnesses *)
Theorem c17_gvar_old_rule_refuted :
  (exists lens kept i, old_size_estimate lens false false kept <= 131070
      /\ 131070 < gv_end_offset true lens false false kept i
      /\ gv_read false (gv_stored false (gv_end_offset true lens false false kept i)) <> gv_end_offset true lens false false kept i)
  /\ (exists lens kept i, old_size_estimate lens true true kept <= 131070
      /\ gv_read false (gv_stored false (gv_end_offset true lens true true kept i)) <> gv_end_offset true lens true true kept i).
Proof. exact gvar_old_rule_refuted_l. Qed.

(* ---- round 7 ---- *)
(* ONE combined end-to-end statement on the abstract font model: for every font, every request and both
   RETAIN_GIDS settings, whenever the subset's hmtx / glyf / cmap are produced: the tables have the announced
   shape; every kept glyph g has a new id g' (inverse old_of_new) under which advance and side bearing are the
   source's - stated also on each side of the long-metrics / short-tail boundary -, its glyph record is the
   source's with component ids renamed position by position; every kept code point is answered with the
   renumbered glyph of the source and with nothing else; nothing else is mapped. *)
Theorem c17_subset_preserves_all : forall F gids unis retain notdef long' lsbs' gl cm,
  let kept := kept_glyphs F gids unis in
  NoDup (map fst (f_cmap F)) ->
  num_output retain kept <= 65535 ->
  hmtx_subset F retain kept = HTable long' lsbs' ->
  glyf_subset F retain notdef kept = Some gl ->
  cmap_subset retain kept (unicode_list F gids unis) = Some cm ->
  (zlen long' = new_num_h_metrics F retain kept
   /\ zlen long' + zlen lsbs' = num_output retain kept
   /\ zlen gl = num_output retain kept)
  /\
  (forall g, In g kept ->
     exists g', glyph_map retain kept g = Some g' /\ 0 <= g' < num_output retain kept
       /\ old_of_new retain kept g' = Some g
       /\ hm_advance long' g' = hm_advance (f_long F) g
       /\ hm_lsb long' lsbs' g' = hm_lsb (f_long F) (f_lsbs F) g
       /\ (g' < zlen long' -> exists m, znth long' g' = Some m
             /\ hm_advance (f_long F) g = Some (fst m) /\ hm_lsb (f_long F) (f_lsbs F) g = Some (snd m))
       /\ (zlen long' <= g' ->
             znth lsbs' (g' - zlen long') = hm_lsb (f_long F) (f_lsbs F) g
             /\ hm_advance (f_long F) g = match rev long' with m :: _ => Some (fst m) | [] => None end)
       /\ ((g <> 0 \/ notdef = true) -> znth gl g' = Some (subset_glyph retain kept (glyph_at F g)))
       /\ (forall cs h, (g <> 0 \/ notdef = true) -> glyph_at F g = GC cs h -> (forall c, In c cs -> In c kept) ->
             exists cs', znth gl g' = Some (GC cs' h) /\ length cs' = length cs
               /\ forall k c, nth_error cs k = Some c ->
                    exists c', nth_error cs' k = Some c' /\ glyph_map retain kept c = Some c'))
  /\
  (forall c g, In (c, g) (f_cmap F) -> (In c unis \/ In g gids) ->
     exists g', glyph_map retain kept g = Some g' /\ In (c, g') cm /\ forall x, In (c, x) cm -> x = g')
  /\
  (forall c x, In (c, x) cm ->
     exists g, In (c, g) (f_cmap F) /\ (In c unis \/ In g gids) /\ glyph_map retain kept g = Some x).
Proof. exact subset_preserves_all_l. Qed.

(* idempotence under RETAIN_GIDS: the subset re-read as an abstract font (gaps are empty glyphs) and subsetted
   again with the SAME request keeps exactly the same ids, the renumbering is the identity on them and the
   output has the same number of glyphs.  Same scope as c17_subset_idempotent (no COLR/UVS closure, neither
   run truncated its closure, emptied .notdef not a composite). *)
Theorem c17_subset_idempotent_retain_gids : forall F gids unis notdef gl long' lsbs' cm,
  let K := kept_glyphs F gids unis in
  let F' := subset_afont_retain K gl long' lsbs' cm in
  let K' := kept_glyphs F' gids unis in
  f_colr F = None -> f_uvs F = [] ->
  NoDup (map fst (f_cmap F)) -> NoDup (map fst cm) -> 0 < f_n F ->
  glyf_subset F true notdef K = Some gl ->
  cmap_subset true K (unicode_list F gids unis) = Some cm ->
  (notdef = true \/ forall cs h, glyph_at F 0 <> GC cs h) ->
  (forall g cs h c, In g K -> glyph_at F g = GC cs h -> In c cs -> In c K) ->
  (forall i cs h c, In i K' -> glyph_at F' i = GC cs h -> In c cs -> In c K') ->
  K' = K
  /\ (forall g, In g K -> glyph_map true K' g = Some g)
  /\ num_output true K' = num_output true K.
Proof. exact subset_idempotent_retain_l. Qed.

(* IndexMapSubsetPlan::new records, for every entry it will later remap (new gid below mapCount), its outer
   index, its inner index in that subtable's inner set, and a per-subtable maximum that dominates the inner
   index and is itself a member of the set - for an explicit index map whose outer indexes name existing
   ItemVariationData subtables and strictly ascending new gids.  This closes the hypotheses
   `In mx imap`, `0 <= i <= mx` of c17_indexmap_entry_roundtrip. *)
Theorem c17_indexmap_max_covers : forall b tbl bypass nvd n2o outers sets p outers' sets',
  let m := Some (b, tbl) in
  zlen sets = nvd ->
  StronglySorted Z.lt (map fst n2o) ->
  (forall g old, In (g, old) n2o -> 0 <= fst (im_val m old) < nvd /\ 0 <= snd (im_val m old)) ->
  plan_new m bypass nvd n2o outers sets = Some (p, outers', sets') ->
  zlen (ip_max_inners p) = nvd /\ zlen sets' = nvd
  /\ forall g old, In (g, old) n2o -> g < ip_map_count p ->
       let o := fst (im_val m old) in let i := snd (im_val m old) in
       In o outers'
       /\ exists mx s, znth (ip_max_inners p) o = Some mx /\ znth sets' o = Some s
                       /\ 0 <= i <= mx /\ In i s /\ In mx s.
Proof. exact indexmap_max_covers_l. Qed.
(* ... hence every entry the plan remaps is read back unchanged, with no hypothesis on the recorded maxima *)
Theorem c17_indexmap_plan_entry_roundtrip : forall b tbl bypass nvd n2o outers sets p outers' sets',
  let m := Some (b, tbl) in
  zlen sets = nvd ->
  StronglySorted Z.lt (map fst n2o) ->
  (forall g old, In (g, old) n2o -> 0 <= fst (im_val m old) < nvd /\ 0 <= snd (im_val m old)) ->
  plan_new m bypass nvd n2o outers sets = Some (p, outers', sets') ->
  forall g old, In (g, old) n2o -> g < ip_map_count p ->
  let o := fst (im_val m old) in let i := snd (im_val m old) in
  forall inner_maps s i' o',
  znth sets' o = Some s -> znth inner_maps o = Some s -> zlen inner_maps = nvd ->
  StronglySorted Z.lt s -> (forall x, In x s -> 0 <= x) ->
  index_of i s 0 = Some i' -> 0 <= o' ->
  let ibc := inner_bit_count p inner_maps in
  im_unpack ibc (im_pack ibc o' i') = (o', i').
Proof. exact indexmap_plan_entry_roundtrip_l. Qed.

(* loca (klippa glyf_loca.rs: format decision, write_glyf_loca, padded_size): for strictly ascending new ids
   inside [0, nout) and non-negative glyph lengths: the short format is chosen iff the padded total is below
   0x1FFFF; the offsets read back are the prefix sums of the padded glyph lengths (long format; short format
   while the u16 running offset fits); in the short format the range read back for a glyph is exactly where
   its bytes and pad byte were embedded; in the long format only when every length is even (the pad byte is
   not written: c17_loca_long_unpadded_refuted); gaps get empty ranges. *)
Theorem c17_loca_offsets_exact : forall nout ents, 0 <= nout -> loca_wf nout ents ->
  ((loca_format ents = 0 <-> loca_total ents <= 131070) /\ (loca_format ents = 1 <-> 131070 < loca_total ents))
  /\
  (loca_format ents = 1 -> loca_total ents <= 4294967295 ->
     exists offs, loca_subset nout ents = LTable 1 offs /\ zlen offs = nout + 1
       /\ loca_read 1 offs 0 = Some 0
       /\ forall i, 0 <= i < nout -> loca_read 1 offs (i + 1) = Some (loca_end ents i))
  /\
  (loca_total ents <= 65535 ->
     exists offs, loca_subset nout ents = LTable 0 offs /\ zlen offs = nout + 1
       /\ loca_read 0 offs 0 = Some 0
       /\ forall i, 0 <= i < nout -> loca_read 0 offs (i + 1) = Some (loca_end ents i))
  /\
  (forall gid pos len, In (gid, (pos, len)) (glyf_starts true ents 0) ->
     pos = loca_end ents (gid - 1) /\ loca_end ents gid = pos + loca_pad len /\ len <= loca_pad len <= len + 1)
  /\
  ((forall g l, In (g, l) ents -> l mod 2 = 0) ->
   forall gid pos len, In (gid, (pos, len)) (glyf_starts false ents 0) ->
     pos = loca_end ents (gid - 1) /\ loca_end ents gid = pos + loca_pad len /\ len <= loca_pad len <= len + 1)
  /\
  (forall i, 0 <= i -> ~ In i (map fst ents) -> loca_end ents i = loca_end ents (i - 1)).
Proof. exact loca_offsets_exact_all_l. Qed.
(* ... and the entries the model derives from the plan (what the shards compare with klippa's loca bytes) are
   well-formed, so the statement holds for the model's prediction for every font, request and flags *)
Theorem c17_loca_model_exact : forall F glens gids unis flags,
  (forall p, In p glens -> 0 <= fst p /\ 0 <= snd p) ->
  let kept := kept_glyphs F gids unis in
  let nout := num_output (flag_retain flags) kept in
  let ents := loca_entries F glens (flag_retain flags) (flag_notdef flags) (flag_nohint flags) kept in
  loca_wf nout ents /\ 0 <= nout
  /\ (loca_format ents = 1 -> loca_total ents <= 4294967295 ->
        exists offs, loca_model F glens gids unis flags = LTable 1 offs /\ zlen offs = nout + 1
          /\ loca_read 1 offs 0 = Some 0
          /\ forall i, 0 <= i < nout -> loca_read 1 offs (i + 1) = Some (loca_end ents i))
  /\ (loca_total ents <= 65535 ->
        exists offs, loca_model F glens gids unis flags = LTable 0 offs /\ zlen offs = nout + 1
          /\ loca_read 0 offs 0 = Some 0
          /\ forall i, 0 <= i < nout -> loca_read 0 offs (i + 1) = Some (loca_end ents i)).
Proof. exact loca_model_exact_l. Qed.
(* known finding C17:glyf-short-loca-u16-offset-overflow, characterised: with every glyph below 64 KiB, the short
   format is chosen up to 0x1FFFE bytes but the u16 running offset overflows (panic) as soon as the total
   exceeds 0xFFFF *)
Theorem c17_loca_short_overflow_panics : forall nout ents, loca_wf nout ents ->
  (forall g l, In (g, l) ents -> loca_pad l <= 65535) ->
  65535 < loca_total ents <= 131070 -> loca_subset nout ents = LPanic.
Proof. exact loca_short_overflow_panics_l. Qed.
(* known finding C17:glyf-long-loca-unpadded-glyph-data: without the evenness hypothesis the long-format range
   statement is false of the faithful model *)
Theorem c17_loca_long_unpadded_refuted : exists nout ents offs gid pos len,
  loca_wf nout ents /\ loca_subset nout ents = LTable 1 offs /\
  In (gid, (pos, len)) (glyf_starts false ents 0) /\ loca_read 1 offs gid <> Some pos.
Proof. exact loca_long_unpadded_refuted_l. Qed.
(* same finding class as the u16 overflow: a single glyph of >= 64 KiB wraps in `padded_len as u16` WITHOUT a panic
   and is given a wrong (here empty) range *)
Theorem c17_loca_short_wrap_refuted : exists nout ents offs,
  loca_wf nout ents /\ loca_subset nout ents = LTable 0 offs /\
  loca_read 0 offs 1 <> Some (loca_end ents 0).
Proof. exact loca_short_wrap_refuted_l. Qed.

Print Assumptions c17_closure_contains_requested.
Print Assumptions c17_closure_component_closed.
Print Assumptions c17_closure_component_closed_partial.
Print Assumptions c17_closure_truncation_refuted.
Print Assumptions c17_gid_map_bijective_monotone.
Print Assumptions c17_retain_gids_identity.
Print Assumptions c17_hmtx_preserved.
Print Assumptions c17_cmap_exact.
Print Assumptions c17_glyph_record_preserved.
Print Assumptions c17_composite_components_renamed.
Print Assumptions c17_subset_all_identity.
Print Assumptions c17_closure_minimal.
Print Assumptions c17_closure_roots_kept.
Print Assumptions c17_subset_idempotent.
Print Assumptions c17_indexmap_pack_roundtrip.
Print Assumptions c17_indexmap_pack_fits_width.
Print Assumptions c17_indexmap_inner_bits_cover.
Print Assumptions c17_indexmap_entry_roundtrip.
Print Assumptions c17_gvar_offsets_roundtrip.
Print Assumptions c17_gvar_format_choice_sufficient.
Print Assumptions c17_gvar_short_covers_data.
Print Assumptions c17_gvar_old_rule_refuted.
Print Assumptions c17_subset_preserves_all.
Print Assumptions c17_subset_idempotent_retain_gids.
Print Assumptions c17_indexmap_max_covers.
Print Assumptions c17_indexmap_plan_entry_roundtrip.
Print Assumptions c17_loca_offsets_exact.
Print Assumptions c17_loca_model_exact.
Print Assumptions c17_loca_short_overflow_panics.
Print Assumptions c17_loca_long_unpadded_refuted.
Print Assumptions c17_loca_short_wrap_refuted.
