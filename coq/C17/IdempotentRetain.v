(* C17 — subsetting a subset again with the same request under RETAIN_GIDS keeps exactly the same glyph ids
   (model level, identity renumbering with gaps, fonts without COLR / UVS closure), provided neither run
   truncated its component closure.  Mirror of Idempotent.v (rank renumbering). *)
From Coq Require Import ZArith List Bool Lia Sorted.
From FV Require Import C17.Model C17.Proofs C17.Idempotent.
Import ListNotations.
Open Scope Z_scope.

(* the RETAIN_GIDS subset as an abstract font again: max kept + 1 glyph slots, gaps are empty glyphs *)
Definition subset_afont_retain (kept : list Z) (gl : list glyph) (long : list (Z * Z)) (lsbs : list Z)
           (cm : list (Z * Z)) : afont :=
  mkFont (num_output true kept) gl true long lsbs cm true [] [] None.

(* two strictly ascending lists with the same members are equal *)
Lemma sorted_ext : forall l1 l2, StronglySorted Z.lt l1 -> StronglySorted Z.lt l2 ->
  (forall x, In x l1 <-> In x l2) -> l1 = l2.
Proof.
  induction l1 as [|a t IH]; intros l2 H1 H2 H.
  - destruct l2 as [|b u]; [reflexivity|]. exfalso. apply (proj2 (H b)). left. reflexivity.
  - destruct l2 as [|b u]; [exfalso; apply (proj1 (H a)); left; reflexivity|].
    inversion H1 as [|? ? Ht Hfa]; subst. inversion H2 as [|? ? Hu Hfb]; subst.
    rewrite Forall_forall in Hfa, Hfb.
    assert (Eab : a = b).
    { pose proof (proj1 (H a) (or_introl eq_refl)) as Ha.
      pose proof (proj2 (H b) (or_introl eq_refl)) as Hb.
      destruct Ha as [Ha|Ha]; [congruence|]. destruct Hb as [Hb|Hb]; [congruence|].
      apply Hfa in Hb. apply Hfb in Ha. lia. }
    subst b. f_equal. apply IH; [exact Ht|exact Hu|].
    intros x. split; intros Hx.
    + pose proof (Hfa x Hx) as Hlt. destruct (proj1 (H x) (or_intror Hx)) as [E|Hx']; [lia|exact Hx'].
    + pose proof (Hfb x Hx) as Hlt. destruct (proj2 (H x) (or_intror Hx)) as [E|Hx']; [lia|exact Hx'].
Qed.

Lemma glyph_map_true_Some kept g g' : glyph_map true kept g = Some g' -> g' = g /\ In g kept.
Proof.
  unfold glyph_map. destruct (memz g kept) eqn:E; [|discriminate]. intros [= <-].
  split; [reflexivity|apply memz_In, E].
Qed.

Lemma glyph_map_true_In kept g : In g kept -> glyph_map true kept g = Some g.
Proof. intros H. unfold glyph_map. apply memz_In in H. rewrite H. reflexivity. Qed.

(* every slot of the new glyph list, including the emptied .notdef and the gaps *)
Lemma glyf_subset_znth F retain notdef kept gl i :
  glyf_subset F retain notdef kept = Some gl -> 0 <= i < num_output retain kept ->
  znth gl i = Some (match old_of_new retain kept i with
                    | None => GE
                    | Some old => if (old =? 0) && (i =? 0) && negb notdef then GE
                                  else subset_glyph retain kept (glyph_at F old)
                    end).
Proof.
  intros Hg Hb. unfold glyf_subset in Hg. destruct (existsb _ kept); [discriminate|]. injection Hg as <-.
  rewrite znth_map_zrange.
  replace ((0 <=? i) && (i <? num_output retain kept)) with true
    by (symmetry; apply andb_true_iff; split; [apply Z.leb_le|apply Z.ltb_lt]; lia).
  reflexivity.
Qed.

Section IdemRetain.
Variable F : afont.
Variables gids unis : list Z.
Variable notdef : bool.
Variables (gl : list glyph) (long' : list (Z * Z)) (lsbs' : list Z) (cm : list (Z * Z)).

Let K := kept_glyphs F gids unis.
Let F' := subset_afont_retain K gl long' lsbs' cm.
Let K' := kept_glyphs F' gids unis.

Hypothesis no_colr : f_colr F = None.
Hypothesis no_uvs : f_uvs F = [].
Hypothesis cmap_fun : NoDup (map fst (f_cmap F)).
Hypothesis cmap_fun' : NoDup (map fst cm).
Hypothesis nonempty : 0 < f_n F.
Hypothesis Hgl : glyf_subset F true notdef K = Some gl.
Hypothesis Hcm : cmap_subset true K (unicode_list F gids unis) = Some cm.
Hypothesis notdef_ok : notdef = true \/ forall cs h, glyph_at F 0 <> GC cs h.
Hypothesis closed1 : forall g cs h c, In g K -> glyph_at F g = GC cs h -> In c cs -> In c K.
Hypothesis closed2 : forall i cs h c, In i K' -> glyph_at F' i = GC cs h -> In c cs -> In c K'.

Let Ks : StronglySorted Z.lt K := kept_sorted F gids unis.
Let Kp : forall x, In x K -> 0 <= x := kept_nonneg F gids unis.

Lemma r_zero_in_K : In 0 K.
Proof.
  pose proof (closure_contains_requested_l F gids unis cmap_fun) as H. cbv zeta in H.
  destruct H as [H0 _]. apply H0, nonempty.
Qed.

Lemma r_K_in_font x : In x K -> 0 <= x < f_n F.
Proof.
  pose proof (closure_contains_requested_l F gids unis cmap_fun) as H. cbv zeta in H.
  destruct H as [_ [_ [_ [_ H4]]]]. apply H4.
Qed.

Lemma r_K_last : exists m r, rev K = m :: r.
Proof.
  destruct (rev K) as [|m r] eqn:E; [|eauto]. exfalso.
  apply (f_equal (@rev Z)) in E. rewrite rev_involutive in E.
  pose proof r_zero_in_K as H. rewrite E in H. destruct H.
Qed.

Lemma r_fn' : f_n F' = num_output true K.
Proof. reflexivity. Qed.

Lemma r_K_bound x : In x K -> 0 <= x < f_n F'.
Proof.
  intros Hx. destruct r_K_last as [m [r E]]. rewrite r_fn'. unfold num_output. rewrite E.
  pose proof (sorted_last_max K Ks m r E x Hx). pose proof (Kp x Hx). lia.
Qed.

Lemma r_fn'_le : f_n F' <= f_n F.
Proof.
  destruct r_K_last as [m [r E]]. rewrite r_fn'. unfold num_output. rewrite E.
  assert (Hm : In m K) by (apply in_rev; rewrite E; left; reflexivity).
  pose proof (r_K_in_font m Hm). lia.
Qed.

(* the record the second run reads at a kept id *)
Lemma r_rec_at i : In i K ->
  glyph_at F' i = if (i =? 0) && negb notdef then GE else subset_glyph true K (glyph_at F i).
Proof.
  intros Hi. pose proof (r_K_bound i Hi) as Hb. rewrite r_fn' in Hb.
  unfold glyph_at at 1. change (f_glyphs F') with gl.
  rewrite (glyf_subset_znth F true notdef K gl i Hgl Hb).
  unfold old_of_new. apply memz_In in Hi. rewrite Hi.
  destruct (i =? 0); destruct (negb notdef); reflexivity.
Qed.

Lemma r_ccr' : (0 < f_n F' -> In 0 K')
  /\ (forall g, In g gids -> 0 <= g < f_n F' -> In g K')
  /\ (forall c g, In c unis -> In (c, g) cm -> 0 <= g < f_n F' -> In g K').
Proof.
  pose proof (closure_contains_requested_l F' gids unis cmap_fun') as H. cbv zeta in H.
  destruct H as [H0 [H1 [H2 _]]]. repeat split; assumption.
Qed.

(* ---- K is included in K' ---- *)
Definition SR (g : Z) : Prop := In g K /\ In g K'.

Lemma SR_closed : forall g cs h c, SR g -> glyph_at F g = GC cs h -> In c cs -> SR c.
Proof.
  intros g cs h c [HgK HgK'] Hg Hc.
  assert (HcK : In c K) by exact (closed1 g cs h c HgK Hg Hc).
  split; [exact HcK|].
  assert (Hne : (g =? 0) && negb notdef = false).
  { destruct notdef_ok as [->|Hn]; [apply andb_false_r|].
    replace (g =? 0) with false; [reflexivity|]. symmetry. apply Z.eqb_neq. intros ->. eapply Hn, Hg. }
  pose proof (r_rec_at g HgK) as Hrec. rewrite Hne, Hg in Hrec.
  destruct (all_some_total (glyph_map true K) cs) as [cs' Hcs'].
  { intros x Hx. apply map_total. exact (closed1 g cs h x HgK Hg Hx). }
  destruct (subset_glyph_composite true K cs h cs' Hcs') as [Hsg _].
  rewrite Hsg in Hrec.
  apply (closed2 g cs' h c HgK' Hrec).
  apply (all_some_map_In _ _ _ Hcs'). exists c. split; [exact Hc|]. apply glyph_map_true_In, HcK.
Qed.

Lemma SR_roots : forall r, In r (closure_roots F gids unis) -> SR r.
Proof.
  intros r Hr. pose proof (closure_roots_kept F gids unis r Hr) as HrK. split; [exact HrK|].
  pose proof (r_K_bound r HrK) as Hb.
  unfold closure_roots in Hr. apply In_view in Hr. destruct Hr as [_ Hr].
  unfold colred_set in Hr. rewrite no_colr in Hr. unfold gsub_set in Hr.
  destruct Hr as [<-|Hr].
  - apply (proj1 r_ccr'). lia.
  - apply in_app_or in Hr. destruct Hr as [Hr|Hr].
    + apply gsub0_In in Hr. destruct Hr as [Hr|Hr].
      * apply (proj1 (proj2 r_ccr')); assumption.
      * apply in_map_iff in Hr. destruct Hr as [[c r'] [E Hp]]. cbn in E. subst r'.
        pose proof (proj1 (unicode_list_spec F gids unis cmap_fun c r) Hp) as [Hin Hreq].
        destruct Hreq as [Hcu|Hrg]; [|apply (proj1 (proj2 r_ccr')); assumption].
        assert (Hcm' : In (c, r) cm).
        { apply (all_some_map_In _ _ _ Hcm). exists (c, r). split; [exact Hp|]. cbn [fst snd].
          rewrite (glyph_map_true_In K r HrK). reflexivity. }
        apply (proj2 (proj2 r_ccr')) with (c := c); assumption.
    + unfold uvs_closure in Hr. rewrite no_uvs in Hr. destruct Hr.
Qed.

Lemma r_K_sub_K' : forall x, In x K -> In x K'.
Proof.
  intros x Hx. exact (proj2 (closure_minimal_l F gids unis SR SR_closed SR_roots x Hx)).
Qed.

(* ---- K' is included in K ---- *)
Lemma K_closed' : forall i cs h c, In i K -> glyph_at F' i = GC cs h -> In c cs -> In c K.
Proof.
  intros i cs h c Hi Hg Hc. rewrite (r_rec_at i Hi) in Hg.
  destruct ((i =? 0) && negb notdef); [discriminate|].
  destruct (glyph_at F i) as [|h0| |cs0 h0|]; cbn in Hg; try discriminate.
  destruct (all_some (map (glyph_map true K) cs0)) as [cs'|] eqn:E; [|discriminate].
  injection Hg as -> ->.
  apply (all_some_map_In _ _ _ E) in Hc. destruct Hc as [x [_ Hm]].
  apply glyph_map_true_Some in Hm. destruct Hm as [-> Hx]. exact Hx.
Qed.

Lemma K_roots' : forall r, In r (closure_roots F' gids unis) -> In r K.
Proof.
  intros r Hr. unfold closure_roots in Hr. apply In_view in Hr. destruct Hr as [Hb Hr].
  pose proof r_fn'_le as Hle.
  unfold colred_set in Hr. change (f_colr F') with (@None (list (list Z))) in Hr.
  unfold gsub_set in Hr.
  destruct Hr as [<-|Hr]; [exact r_zero_in_K|].
  apply in_app_or in Hr. destruct Hr as [Hr|Hr].
  - apply gsub0_In in Hr. destruct Hr as [Hr|Hr].
    + pose proof (closure_contains_requested_l F gids unis cmap_fun) as H. cbv zeta in H.
      destruct H as [_ [H1 _]]. apply H1; [exact Hr|lia].
    + apply in_map_iff in Hr. destruct Hr as [[c r'] [E Hp]]. cbn in E. subst r'.
      pose proof (proj1 (unicode_list_spec F' gids unis cmap_fun' c r) Hp) as [Hin _].
      change (f_cmap F') with cm in Hin.
      apply (cmap_exact_l F gids unis true K cm cmap_fun Hcm c r) in Hin.
      destruct Hin as [g [_ [_ Hm]]]. apply glyph_map_true_Some in Hm. destruct Hm as [-> Hg]. exact Hg.
  - unfold uvs_closure in Hr. change (f_uvs F') with (@nil (Z * Z * Z)) in Hr. destruct Hr.
Qed.

Lemma r_K'_sub_K : forall x, In x K' -> In x K.
Proof.
  intros x Hx. exact (closure_minimal_l F' gids unis (fun x => In x K) K_closed' K_roots' x Hx).
Qed.

Lemma subset_idempotent_retain_sec :
  K' = K
  /\ (forall g, In g K -> glyph_map true K' g = Some g)
  /\ num_output true K' = num_output true K.
Proof.
  assert (HK : K' = K).
  { apply sorted_ext; [apply kept_sorted|exact Ks|].
    intros x. split; [apply r_K'_sub_K|apply r_K_sub_K']. }
  split; [exact HK|]. rewrite HK. split; [|reflexivity].
  intros g Hg. apply glyph_map_true_In, Hg.
Qed.
End IdemRetain.

Lemma subset_idempotent_retain_l : forall F gids unis notdef gl long' lsbs' cm,
  let K := kept_glyphs F gids unis in
  let F' := subset_afont_retain K gl long' lsbs' cm in
  let K' := kept_glyphs F' gids unis in            (* the SAME request: ids are unchanged under RETAIN_GIDS *)
  f_colr F = None -> f_uvs F = [] ->
  NoDup (map fst (f_cmap F)) -> NoDup (map fst cm) -> 0 < f_n F ->
  glyf_subset F true notdef K = Some gl ->
  cmap_subset true K (unicode_list F gids unis) = Some cm ->
  (notdef = true \/ forall cs h, glyph_at F 0 <> GC cs h) ->
  (forall g cs h c, In g K -> glyph_at F g = GC cs h -> In c cs -> In c K) ->       (* first run not truncated *)
  (forall i cs h c, In i K' -> glyph_at F' i = GC cs h -> In c cs -> In c K') ->    (* second run not truncated *)
  K' = K
  /\ (forall g, In g K -> glyph_map true K' g = Some g)
  /\ num_output true K' = num_output true K.
Proof.
  intros F gids unis notdef gl long' lsbs' cm K F' K' H1 H2 H3 H4 H5 H6 H7 H8 H9 H10.
  exact (subset_idempotent_retain_sec F gids unis notdef gl long' lsbs' cm H1 H2 H3 H4 H5 H6 H7 H8 H9 H10).
Qed.

