(* C17: loca offsets written by klippa's write_glyf_loca are exactly the running padded sums
   (long format; short format while the u16 running offset fits), the short-format u16 overflow panics,
   and refutation witnesses for the two known loca-writer defects. *)
From Coq Require Import ZArith List Bool Lia Sorted.
From FV Require Import C17.Model C17.Proofs.
Import ListNotations.
Open Scope Z_scope.

(* specification: total padded data of the new ids <= i  (= what loca[i+1] must say) *)
Definition loca_end (ents : list (Z * Z)) (i : Z) : Z :=
  fold_left (fun a p => if fst p <=? i then a + loca_pad (snd p) else a) ents 0.
Definition loca_wf (nout : Z) (ents : list (Z * Z)) : Prop :=
  StronglySorted Z.lt (map fst ents) /\ forall g l, In (g, l) ents -> 0 <= g < nout /\ 0 <= l.

Local Ltac zlia := Z.div_mod_to_equations; lia.

(* ---- padding arithmetic ---- *)
Lemma loca_pad_bounds l : l <= loca_pad l <= l + 1.
Proof. unfold loca_pad. zlia. Qed.

Lemma loca_pad_nonneg l : 0 <= l -> 0 <= loca_pad l.
Proof. pose proof (loca_pad_bounds l). lia. Qed.

Lemma loca_pad_even l : loca_pad l mod 2 = 0.
Proof. unfold loca_pad. zlia. Qed.

Lemma loca_pad_even_id l : l mod 2 = 0 -> loca_pad l = l.
Proof. unfold loca_pad. intros ->. lia. Qed.

(* ---- 1. format choice ---- *)
Lemma loca_format_choice_l : forall ents,
  (loca_format ents = 0 <-> loca_total ents <= 131070) /\
  (loca_format ents = 1 <-> 131070 < loca_total ents).
Proof.
  intros ents. unfold loca_format.
  destruct (Z.ltb_spec (loca_total ents) 131071); repeat split; intros; try lia; try discriminate.
Qed.

(* ---- fold_left sums ---- *)
Lemma loca_total_acc l a :
  fold_left (fun a p => a + loca_pad (snd p)) l a = a + loca_total l.
Proof.
  unfold loca_total. revert a. induction l as [|p r IH]; intros a; cbn [fold_left]; [lia|].
  rewrite (IH (a + _)), (IH (0 + _)). lia.
Qed.

Lemma loca_total_cons p r : loca_total (p :: r) = loca_pad (snd p) + loca_total r.
Proof. unfold loca_total at 1. cbn [fold_left]. rewrite loca_total_acc. lia. Qed.

Lemma loca_end_acc i l a :
  fold_left (fun a p => if fst p <=? i then a + loca_pad (snd p) else a) l a = a + loca_end l i.
Proof.
  unfold loca_end. revert a. induction l as [|p r IH]; intros a; cbn [fold_left]; [lia|].
  destruct (fst p <=? i); [rewrite (IH (a + _)), (IH (0 + _)); lia|reflexivity || apply IH].
Qed.

Lemma loca_end_cons g l r i :
  loca_end ((g, l) :: r) i = (if g <=? i then loca_pad l else 0) + loca_end r i.
Proof.
  unfold loca_end at 1. cbn [fold_left fst snd]. rewrite loca_end_acc. destruct (g <=? i); lia.
Qed.

Lemma loca_end_nil i : loca_end [] i = 0.
Proof. reflexivity. Qed.

Lemma loca_end_zero r i : Forall (fun g => i < g) (map fst r) -> loca_end r i = 0.
Proof.
  induction r as [|[g l] r IH]; intros H; [reflexivity|].
  cbn [map fst] in H. inversion H; subst. rewrite loca_end_cons, IH by assumption.
  destruct (Z.leb_spec g i); lia.
Qed.

Lemma loca_end_even ents i : loca_end ents i mod 2 = 0.
Proof.
  induction ents as [|[g l] r IH]; [reflexivity|].
  rewrite loca_end_cons. pose proof (loca_pad_even l).
  destruct (g <=? i); zlia.
Qed.

Lemma snd_nonneg (ents : list (Z * Z)) (P : Z -> Prop) :
  (forall g l, In (g, l) ents -> P g /\ 0 <= l) -> forall l, In l (map snd ents) -> 0 <= l.
Proof.
  intros H l Hl. apply in_map_iff in Hl. destruct Hl as [[g l'] [E Hin]]. cbn [snd] in E. subst.
  apply (H g l Hin).
Qed.

Lemma loca_total_nonneg ents : (forall l, In l (map snd ents) -> 0 <= l) -> 0 <= loca_total ents.
Proof.
  induction ents as [|p r IH]; intros H; [unfold loca_total; cbn [fold_left]; lia|].
  rewrite loca_total_cons.
  assert (0 <= snd p) by (apply H; left; reflexivity).
  pose proof (loca_pad_nonneg (snd p)).
  assert (0 <= loca_total r) by (apply IH; intros; apply H; right; assumption). lia.
Qed.

Lemma loca_pad_le_total ents l :
  (forall l, In l (map snd ents) -> 0 <= l) -> In l (map snd ents) -> loca_pad l <= loca_total ents.
Proof.
  induction ents as [|p r IH]; intros H Hin; [destruct Hin|].
  rewrite loca_total_cons.
  assert (Hr : forall l, In l (map snd r) -> 0 <= l) by (intros; apply H; right; assumption).
  pose proof (loca_total_nonneg r Hr).
  assert (0 <= snd p) by (apply H; left; reflexivity).
  pose proof (loca_pad_nonneg (snd p)).
  destruct Hin as [<- | Hin]; [lia|]. specialize (IH Hr Hin). lia.
Qed.

(* ---- znth helpers ---- *)
Lemma znth_repeat {A} (v : A) n k : 0 <= k < Z.of_nat n -> znth (repeat v n) k = Some v.
Proof.
  intros H. unfold znth. destruct (Z.ltb_spec k 0); [lia|].
  apply nth_error_repeat. lia.
Qed.

Lemma znth_fill {A} (v x : A) t (n : nat) k : 0 <= k ->
  znth (repeat v n ++ x :: t) k =
    if k <? Z.of_nat n then Some v
    else if k =? Z.of_nat n then Some x else znth t (k - Z.of_nat n - 1).
Proof.
  intros H. unfold znth. destruct (Z.ltb_spec k 0); [lia|].
  destruct (Z.ltb_spec k (Z.of_nat n)).
  - rewrite nth_error_app1 by (rewrite repeat_length; lia). apply nth_error_repeat. lia.
  - rewrite nth_error_app2 by (rewrite repeat_length; lia). rewrite repeat_length.
    destruct (Z.eqb_spec k (Z.of_nat n)).
    + replace (Z.to_nat k - n)%nat with 0%nat by lia. reflexivity.
    + destruct (Z.ltb_spec (k - Z.of_nat n - 1) 0); [lia|].
      replace (Z.to_nat k - n)%nat with (S (Z.to_nat (k - Z.of_nat n - 1))) by lia. reflexivity.
Qed.

Lemma znth_cons_succ {A} (x : A) t i : 0 <= i -> znth (x :: t) (i + 1) = znth t i.
Proof.
  intros H. unfold znth. destruct (Z.ltb_spec (i + 1) 0); [lia|]. destruct (Z.ltb_spec i 0); [lia|].
  replace (Z.to_nat (i + 1)) with (S (Z.to_nat i)) by lia. reflexivity.
Qed.

(* ---- 2. the loop computes the running padded sums ---- *)
Lemma loca_loop_exact_l short nout ents : forall last offset,
  StronglySorted Z.lt (map fst ents) ->
  (forall g l, In (g, l) ents -> last <= g < nout /\ 0 <= l) ->
  0 <= last <= nout -> 0 <= offset ->
  (forall l, In l (map snd ents) -> loca_wrap short (loca_pad l) = loca_pad l) ->
  offset + loca_total ents <= loca_limit short ->
  exists t, loca_loop short nout ents last offset = Some t /\ zlen t = nout - last /\
    forall i, last <= i < nout ->
      znth t (i - last) = Some (loca_value short (offset + loca_end ents i)).
Proof.
  induction ents as [|[g l] r IH]; intros last offset Hs Hb Hl Ho Hw Ht.
  - cbn [loca_loop]. eexists; split; [reflexivity|]. split.
    + unfold zlen. rewrite repeat_length. lia.
    + intros i Hi. rewrite loca_end_nil, Z.add_0_r. apply znth_repeat. lia.
  - cbn [map fst] in Hs. apply StronglySorted_inv in Hs. destruct Hs as [Hs Hall].
    destruct (Hb g l (or_introl eq_refl)) as [Hg Hl0].
    rewrite loca_total_cons in Ht. cbn [snd] in Ht.
    assert (Hr0 : forall l', In l' (map snd r) -> 0 <= l').
    { apply (snd_nonneg r (fun g => last <= g < nout)). intros g' l' Hin. apply Hb. right. exact Hin. }
    pose proof (loca_total_nonneg r Hr0) as Htr. pose proof (loca_pad_nonneg l Hl0) as Hpl.
    cbn [loca_loop]. rewrite (Hw l) by (cbn [map snd]; left; reflexivity).
    rewrite Z.max_r by lia. replace (last + (g - last) + 1) with (g + 1) by lia.
    destruct (Z.ltb_spec (loca_limit short) (offset + loca_pad l)); [lia|].
    destruct (IH (g + 1) (offset + loca_pad l)) as [t [E [Hlen Hz]]]; try lia.
    { exact Hs. }
    { intros g' l' Hin. split; [|apply (Hb g' l'); right; exact Hin].
      assert (g < g').
      { rewrite Forall_forall in Hall. apply Hall. apply in_map_iff. exists (g', l'). split; [reflexivity|exact Hin]. }
      pose proof (Hb g' l' (or_intror Hin)). lia. }
    { intros l' Hin. apply Hw. cbn [map snd]. right. exact Hin. }
    rewrite E. eexists; split; [reflexivity|]. split.
    + unfold zlen in *. rewrite app_length, repeat_length. cbn [length]. lia.
    + intros i Hi. rewrite loca_end_cons. rewrite znth_fill by lia. rewrite Z2Nat.id by lia.
      destruct (Z.ltb_spec (i - last) (g - last)).
      * rewrite loca_end_zero.
        -- destruct (Z.leb_spec g i); [lia|]. do 2 f_equal. lia.
        -- eapply Forall_impl; [|exact Hall]. cbn beta. intros; lia.
      * destruct (Z.eqb_spec (i - last) (g - last)).
        -- rewrite loca_end_zero.
           ++ destruct (Z.leb_spec g i); [|lia]. do 2 f_equal. lia.
           ++ eapply Forall_impl; [|exact Hall]. cbn beta. intros; lia.
        -- replace (i - last - (g - last) - 1) with (i - (g + 1)) by lia.
           rewrite Hz by lia. destruct (Z.leb_spec g i); [|lia]. do 2 f_equal. lia.
Qed.

(* ---- 3. loca offsets are exact ---- *)
Lemma loca_offsets_exact_l : forall nout ents, 0 <= nout -> loca_wf nout ents ->
  (* long format *)
  (loca_format ents = 1 -> loca_total ents <= 4294967295 ->
     exists offs, loca_subset nout ents = LTable 1 offs /\ zlen offs = nout + 1
       /\ loca_read 1 offs 0 = Some 0
       /\ forall i, 0 <= i < nout -> loca_read 1 offs (i + 1) = Some (loca_end ents i))
  /\ (* short format, running offset fits u16 *)
  (loca_total ents <= 65535 ->
     exists offs, loca_subset nout ents = LTable 0 offs /\ zlen offs = nout + 1
       /\ loca_read 0 offs 0 = Some 0
       /\ forall i, 0 <= i < nout -> loca_read 0 offs (i + 1) = Some (loca_end ents i)).
Proof.
  intros nout ents Hnout [Hs Hb].
  assert (Hn0 : forall l, In l (map snd ents) -> 0 <= l) by (apply (snd_nonneg ents _ Hb)).
  split.
  - intros Hf Ht.
    destruct (loca_loop_exact_l false nout ents 0 0) as [t [E [Hlen Hz]]];
      [exact Hs|exact Hb|lia|lia| |unfold loca_limit; lia|].
    { intros l Hin. unfold loca_wrap. apply Z.mod_small.
      pose proof (loca_pad_le_total ents l Hn0 Hin). pose proof (loca_pad_nonneg l (Hn0 l Hin)). lia. }
    unfold loca_subset. destruct (Z.ltb_spec 4294967295 (loca_total ents)); [lia|].
    rewrite Hf. cbn [Z.eqb]. rewrite E. eexists; split; [reflexivity|]. split; [|split].
    + unfold zlen in *. cbn [length]. lia.
    + reflexivity.
    + intros i Hi. unfold loca_read. rewrite znth_cons_succ by lia.
      specialize (Hz i Hi). rewrite Z.sub_0_r in Hz. rewrite Hz. reflexivity.
  - intros Ht.
    destruct (loca_loop_exact_l true nout ents 0 0) as [t [E [Hlen Hz]]];
      [exact Hs|exact Hb|lia|lia| |unfold loca_limit; lia|].
    { intros l Hin. unfold loca_wrap. apply Z.mod_small.
      pose proof (loca_pad_le_total ents l Hn0 Hin). pose proof (loca_pad_nonneg l (Hn0 l Hin)). lia. }
    assert (Hf : loca_format ents = 0) by (apply loca_format_choice_l; lia).
    unfold loca_subset. destruct (Z.ltb_spec 4294967295 (loca_total ents)); [lia|].
    rewrite Hf. cbn [Z.eqb]. rewrite E. eexists; split; [reflexivity|]. split; [|split].
    + unfold zlen in *. cbn [length]. lia.
    + reflexivity.
    + intros i Hi. unfold loca_read. rewrite znth_cons_succ by lia.
      specialize (Hz i Hi). rewrite Z.sub_0_r in Hz. rewrite Hz. cbn [Z.eqb Z.add loca_value].
      f_equal. pose proof (loca_end_even ents i). zlia.
Qed.

(* ---- 5. short format chosen but the u16 running offset overflows: panic
        (finding C17:glyf-short-loca-u16-offset-overflow) ---- *)
Lemma loca_loop_short_overflow_l nout ents : forall last offset,
  (forall l, In l (map snd ents) -> 0 <= l /\ loca_pad l <= 65535) ->
  0 <= offset <= 65535 -> 65535 < offset + loca_total ents ->
  loca_loop true nout ents last offset = None.
Proof.
  induction ents as [|[g l] r IH]; intros last offset Hb Ho Ht.
  - unfold loca_total in Ht. cbn [fold_left] in Ht. lia.
  - rewrite loca_total_cons in Ht. cbn [snd] in Ht.
    destruct (Hb l) as [Hl0 Hl1]; [cbn [map snd]; left; reflexivity|].
    pose proof (loca_pad_nonneg l Hl0).
    cbn [loca_loop]. unfold loca_wrap, loca_limit. rewrite Z.mod_small by lia.
    destruct (Z.ltb_spec 65535 (offset + loca_pad l)); [reflexivity|].
    rewrite IH; [reflexivity| |lia|lia].
    intros l' Hin. apply Hb. cbn [map snd]. right. exact Hin.
Qed.

Lemma loca_short_overflow_panics_l : forall nout ents, loca_wf nout ents ->
  (forall g l, In (g, l) ents -> loca_pad l <= 65535) ->
  65535 < loca_total ents <= 131070 -> loca_subset nout ents = LPanic.
Proof.
  intros nout ents [Hs Hb] Hp Ht.
  assert (Hf : loca_format ents = 0) by (apply loca_format_choice_l; lia).
  unfold loca_subset. destruct (Z.ltb_spec 4294967295 (loca_total ents)); [reflexivity|].
  rewrite Hf. cbn [Z.eqb]. rewrite loca_loop_short_overflow_l; [reflexivity| |lia|lia].
  intros l Hin. apply in_map_iff in Hin. destruct Hin as [[g l'] [E Hin]]. cbn [snd] in E. subst.
  split; [apply (Hb g l Hin)|apply (Hp g l Hin)].
Qed.

(* ---- 4. the ranges read back are where the glyph bytes were embedded ---- *)
Lemma glyf_starts_in short ents : forall p gid pos len,
  In (gid, (pos, len)) (glyf_starts short ents p) -> In (gid, len) ents.
Proof.
  induction ents as [|[g l] r IH]; intros p gid pos len H; cbn [glyf_starts] in H; [destruct H|].
  destruct H as [H | H]; [inversion H; subst; left; reflexivity|right; eapply IH; exact H].
Qed.

Lemma glyf_starts_exact short ents : forall p gid pos len,
  StronglySorted Z.lt (map fst ents) ->
  (forall g l, In (g, l) ents -> glyf_data_len short l = loca_pad l) ->
  In (gid, (pos, len)) (glyf_starts short ents p) ->
  pos = p + loca_end ents (gid - 1) /\ p + loca_end ents gid = pos + loca_pad len.
Proof.
  induction ents as [|[g l] r IH]; intros p gid pos len Hs Hd H; cbn [glyf_starts] in H; [destruct H|].
  cbn [map fst] in Hs. apply StronglySorted_inv in Hs. destruct Hs as [Hs Hall].
  rewrite !loca_end_cons. destruct H as [H | H].
  - inversion H; subst.
    rewrite !loca_end_zero.
    + destruct (Z.leb_spec gid (gid - 1)); [lia|]. destruct (Z.leb_spec gid gid); lia.
    + exact Hall.
    + eapply Forall_impl; [|exact Hall]. cbn beta. intros; lia.
  - assert (g < gid).
    { rewrite Forall_forall in Hall. apply Hall. apply in_map_iff. exists (gid, len).
      split; [reflexivity|]. eapply glyf_starts_in; exact H. }
    rewrite (Hd g l) in H by (left; reflexivity).
    destruct (IH _ _ _ _ Hs (fun g' l' Hin => Hd g' l' (or_intror Hin)) H) as [E1 E2].
    destruct (Z.leb_spec g (gid - 1)); [|lia]. destruct (Z.leb_spec g gid); lia.
Qed.

Lemma loca_ranges_exact_l : forall nout ents, loca_wf nout ents ->
  forall gid pos len, In (gid, (pos, len)) (glyf_starts true ents 0) ->
    pos = loca_end ents (gid - 1) /\ loca_end ents gid = pos + loca_pad len
    /\ len <= loca_pad len <= len + 1.
Proof.
  intros nout ents [Hs Hb] gid pos len H.
  destruct (glyf_starts_exact true ents 0 gid pos len Hs) as [E1 E2]; [reflexivity|exact H|].
  pose proof (loca_pad_bounds len). repeat split; lia.
Qed.

Lemma loca_ranges_exact_long_even_l : forall nout ents, loca_wf nout ents ->
  (forall g l, In (g, l) ents -> l mod 2 = 0) ->
  forall gid pos len, In (gid, (pos, len)) (glyf_starts false ents 0) ->
    pos = loca_end ents (gid - 1) /\ loca_end ents gid = pos + loca_pad len
    /\ len <= loca_pad len <= len + 1.
Proof.
  intros nout ents [Hs Hb] He gid pos len H.
  destruct (glyf_starts_exact false ents 0 gid pos len Hs) as [E1 E2]; [|exact H|].
  { intros g l Hin. cbn [glyf_data_len]. symmetry. apply loca_pad_even_id. exact (He g l Hin). }
  pose proof (loca_pad_bounds len). repeat split; lia.
Qed.

Lemma loca_gap_empty_l : forall nout ents i, loca_wf nout ents -> 0 <= i ->
  ~ In i (map fst ents) -> loca_end ents i = loca_end ents (i - 1).
Proof.
  intros nout ents i _ _. induction ents as [|[g l] r IH]; intros Hn; [reflexivity|].
  rewrite !loca_end_cons. cbn [map fst] in Hn.
  rewrite IH by (intros Hin; apply Hn; right; exact Hin).
  assert (g <> i) by (intros ->; apply Hn; left; reflexivity).
  destruct (Z.leb_spec g i); destruct (Z.leb_spec g (i - 1)); lia.
Qed.

(* ---- 6. refutation witnesses for the two known defects ---- *)
(* finding C17:glyf-long-loca-unpadded-glyph-data: glyph 1's bytes start at 3, loca says 4 *)
Lemma loca_long_unpadded_refuted_l : exists nout ents offs gid pos len,
  loca_wf nout ents /\ loca_subset nout ents = LTable 1 offs /\
  In (gid, (pos, len)) (glyf_starts false ents 0) /\ loca_read 1 offs gid <> Some pos.
Proof.
  exists 2, [(0, 3); (1, 131070)], [0; 4; 131074], 1, 3, 131070.
  split; [|split; [|split]].
  - split; [cbn [map fst]; repeat constructor|].
    intros g l [H | [H | []]]; inversion H; subst; lia.
  - vm_compute. reflexivity.
  - cbn [glyf_starts glyf_data_len]. right. left. reflexivity.
  - vm_compute. intros H; discriminate H.
Qed.

(* `padded_len as u16` wraps to 0 WITHOUT a panic: the glyph is given an empty range *)
Lemma loca_short_wrap_refuted_l : exists nout ents offs,
  loca_wf nout ents /\ loca_subset nout ents = LTable 0 offs /\
  loca_read 0 offs 1 <> Some (loca_end ents 0).
Proof.
  exists 1, [(0, 65536)], [0; 0].
  split; [|split].
  - split; [cbn [map fst]; repeat constructor|].
    intros g l [H | []]; inversion H; subst; lia.
  - vm_compute. reflexivity.
  - vm_compute. intros H; discriminate H.
Qed.
