(* C17 — lemmas about the subsetting plan model (coq/C17/Model.v) *)
From Coq Require Import ZArith List Bool Lia Sorted.
From FV Require Import C17.Model.
Import ListNotations.
Open Scope Z_scope.

(* ------------------------------------------------------------------ basics *)
Lemma memz_In x l : memz x l = true <-> In x l.
Proof.
  unfold memz. rewrite existsb_exists. split.
  - intros [y [Hy E]]. apply Z.eqb_eq in E. subst. exact Hy.
  - intros H. exists x. split; [exact H | apply Z.eqb_refl].
Qed.

Lemma In_zrange x n : In x (zrange n) <-> 0 <= x < n.
Proof.
  unfold zrange. rewrite in_map_iff. split.
  - intros [k [E Hk]]. apply in_seq in Hk. lia.
  - intros H. exists (Z.to_nat x). split; [lia | apply in_seq; lia].
Qed.

Lemma zrange_length n : length (zrange n) = Z.to_nat n.
Proof. unfold zrange. now rewrite map_length, seq_length. Qed.

Lemma seq_map_sorted a k : StronglySorted Z.lt (map Z.of_nat (seq a k)).
Proof.
  revert a. induction k as [|k IH]; intros a; cbn; constructor.
  - apply IH.
  - apply Forall_forall. intros y Hy. apply in_map_iff in Hy. destruct Hy as [j [E Hj]].
    apply in_seq in Hj. lia.
Qed.

Lemma zrange_sorted n : StronglySorted Z.lt (zrange n).
Proof. apply seq_map_sorted. Qed.

Lemma filter_sorted (f : Z -> bool) l : StronglySorted Z.lt l -> StronglySorted Z.lt (filter f l).
Proof.
  induction 1 as [|x l Hs IH Hf]; cbn; [constructor|].
  destruct (f x); [constructor|]; auto.
  apply Forall_forall. intros y Hy. apply filter_In in Hy. rewrite Forall_forall in Hf. apply Hf, Hy.
Qed.

Lemma view_sorted n s : StronglySorted Z.lt (view n s).
Proof. apply filter_sorted, zrange_sorted. Qed.

Lemma In_view g n s : In g (view n s) <-> 0 <= g < n /\ In g s.
Proof. unfold view. rewrite filter_In, In_zrange, memz_In. tauto. Qed.

Lemma znth_map_zrange {A} (f : Z -> A) n i :
  znth (map f (zrange n)) i = if (0 <=? i) && (i <? n) then Some (f i) else None.
Proof.
  unfold znth. destruct (i <? 0) eqn:E.
  - apply Z.ltb_lt in E. replace (0 <=? i) with false by (symmetry; apply Z.leb_gt; lia). reflexivity.
  - apply Z.ltb_ge in E. replace (0 <=? i) with true by (symmetry; apply Z.leb_le; lia). cbn.
    unfold zrange. rewrite map_map.
    destruct (i <? n) eqn:E2.
    + apply Z.ltb_lt in E2.
      rewrite nth_error_map. rewrite (nth_error_nth' _ 0%nat) by (rewrite seq_length; lia).
      rewrite seq_nth by lia. cbn. f_equal. f_equal. lia.
    + apply Z.ltb_ge in E2. apply nth_error_None. rewrite map_length, seq_length. lia.
Qed.

Lemma zlen_map_zrange {A} (f : Z -> A) n : 0 <= n -> zlen (map f (zrange n)) = n.
Proof. intros. unfold zlen. rewrite map_length, zrange_length. lia. Qed.

Lemma rev_head_map_zrange {A} (f : Z -> A) n : 1 <= n ->
  exists r, rev (map f (zrange n)) = f (n - 1) :: r.
Proof.
  intros H. unfold zrange. replace (Z.to_nat n) with (S (Z.to_nat (n - 1))) by lia.
  rewrite seq_S, map_app, map_app, rev_app_distr. cbn.
  eexists. f_equal. f_equal. lia.
Qed.

(* ------------------------------------------------------------------ index_of on strictly sorted lists *)
Lemma index_of_bounds g l i j : index_of g l i = Some j ->
  i <= j < i + zlen l /\ nth_error l (Z.to_nat (j - i)) = Some g.
Proof.
  revert i. induction l as [|x r IH]; intros i; cbn [index_of]; [discriminate|].
  destruct (x =? g) eqn:E.
  - intros [= <-]. apply Z.eqb_eq in E. subst. unfold zlen. cbn [length]. rewrite Z.sub_diag. cbn. split; [lia|reflexivity].
  - intros H. apply IH in H. destruct H as [Hb Hn]. unfold zlen in *. cbn [length]. split; [lia|].
    replace (Z.to_nat (j - i)) with (S (Z.to_nat (j - (i + 1)))) by lia. exact Hn.
Qed.

Lemma index_of_In g l i : In g l -> exists j, index_of g l i = Some j.
Proof.
  revert i. induction l as [|x r IH]; intros i; cbn; [tauto|].
  intros [->|H]; [rewrite Z.eqb_refl; eauto|].
  destruct (x =? g); eauto.
Qed.

Lemma index_of_Some_In g l i j : index_of g l i = Some j -> In g l.
Proof. intros H. apply index_of_bounds in H. destruct H as [_ H]. eapply nth_error_In, H. Qed.

Lemma index_of_nth l : StronglySorted Z.lt l -> forall k i g,
  nth_error l k = Some g -> index_of g l i = Some (i + Z.of_nat k).
Proof.
  induction 1 as [|x r Hs IH Hf]; intros k i g; [destruct k; discriminate|].
  destruct k; cbn [nth_error index_of].
  - intros [= ->]. rewrite Z.eqb_refl. f_equal. lia.
  - intros H. assert (x < g) by (rewrite Forall_forall in Hf; apply Hf; eapply nth_error_In, H).
    replace (x =? g) with false by (symmetry; apply Z.eqb_neq; lia).
    rewrite (IH k (i + 1) g H). f_equal. lia.
Qed.

Lemma sorted_nth_lt l : StronglySorted Z.lt l -> forall a b x y,
  nth_error l a = Some x -> nth_error l b = Some y -> x < y -> (a < b)%nat.
Proof.
  induction 1 as [|z r Hs IH Hf]; intros a b x y; [destruct a; discriminate|].
  rewrite Forall_forall in Hf.
  destruct a, b; cbn [nth_error]; intros Ha Hb Hlt.
  - injection Ha as ->. injection Hb as ->. lia.
  - lia.
  - injection Hb as ->. apply nth_error_In, Hf in Ha. lia.
  - apply -> Nat.succ_lt_mono. eapply IH; eauto.
Qed.

Lemma sorted_last_max l : StronglySorted Z.lt l -> forall m r, rev l = m :: r -> forall x, In x l -> x <= m.
Proof.
  induction 1 as [|z t Hs IH Hf]; intros m r E x Hx; [destruct Hx|].
  cbn in E. rewrite Forall_forall in Hf.
  destruct (rev t) as [|m' r'] eqn:Er.
  - cbn in E. injection E as <- <-. assert (t = []) by (apply (f_equal (@rev Z)) in Er; rewrite rev_involutive in Er; exact Er).
    subst t. destruct Hx as [->|[]]. lia.
  - cbn in E. injection E as <- <-. destruct Hx as [->|Hx].
    + assert (In m' t) by (apply in_rev; rewrite Er; left; reflexivity). apply Hf in H. lia.
    + eapply IH; eauto.
Qed.

(* ------------------------------------------------------------------ old <-> new gid map *)
(* glyph_map and old_of_new are mutually inverse on a strictly sorted kept set (both modes) *)
Lemma map_inverse retain kept : StronglySorted Z.lt kept -> (forall x, In x kept -> 0 <= x) ->
  forall g g', glyph_map retain kept g = Some g' ->
    In g kept /\ old_of_new retain kept g' = Some g /\ 0 <= g' < num_output retain kept.
Proof.
  intros Hs Hpos g g'. unfold glyph_map, old_of_new, num_output. destruct retain.
  - destruct (memz g kept) eqn:E; [|discriminate]. intros [= <-]. rewrite E.
    apply memz_In in E. split; [exact E|]. split; [reflexivity|].
    destruct (rev kept) as [|m r] eqn:Er.
    + apply (f_equal (@rev Z)) in Er. rewrite rev_involutive in Er. subst. destruct E.
    + pose proof (sorted_last_max kept Hs m r Er g E). specialize (Hpos g E). lia.
  - intros H. pose proof (index_of_bounds _ _ _ _ H) as [Hb Hn]. split; [eapply index_of_Some_In, H|].
    split; [|lia]. unfold znth. replace (g' <? 0) with false by (symmetry; apply Z.ltb_ge; lia).
    rewrite Z.sub_0_r in Hn. exact Hn.
Qed.

Lemma map_total retain kept g : In g kept -> exists g', glyph_map retain kept g = Some g'.
Proof.
  intros H. unfold glyph_map. destruct retain.
  - apply memz_In in H. rewrite H. eauto.
  - apply index_of_In, H.
Qed.

Lemma map_surjective kept : StronglySorted Z.lt kept ->
  forall i, 0 <= i < zlen kept -> exists g, In g kept /\ old_of_new false kept i = Some g /\ glyph_map false kept g = Some i.
Proof.
  intros Hs i Hi. unfold old_of_new, glyph_map, znth.
  replace (i <? 0) with false by (symmetry; apply Z.ltb_ge; lia).
  destruct (nth_error kept (Z.to_nat i)) as [g|] eqn:E.
  - exists g. split; [eapply nth_error_In, E|]. split; [reflexivity|].
    rewrite (index_of_nth kept Hs _ 0 g E). f_equal. lia.
  - apply nth_error_None in E. unfold zlen in Hi. lia.
Qed.

Lemma map_monotone kept : StronglySorted Z.lt kept -> forall g h i j,
  glyph_map false kept g = Some i -> glyph_map false kept h = Some j -> g < h -> i < j.
Proof.
  intros Hs g h i j Hg Hh Hlt. cbn in Hg, Hh.
  apply index_of_bounds in Hg. apply index_of_bounds in Hh.
  destruct Hg as [Bg Ng], Hh as [Bh Nh]. rewrite Z.sub_0_r in Ng, Nh.
  pose proof (sorted_nth_lt kept Hs _ _ _ _ Ng Nh Hlt). lia.
Qed.

Lemma gid_map_bijective_monotone_l F gids unis :
  let kept := kept_glyphs F gids unis in
  (forall g, In g kept -> exists i, glyph_map false kept g = Some i /\ 0 <= i < zlen kept
                                     /\ old_of_new false kept i = Some g)
  /\ (forall i, 0 <= i < zlen kept -> exists g, In g kept /\ old_of_new false kept i = Some g
                                                /\ glyph_map false kept g = Some i)
  /\ (forall g h i j, glyph_map false kept g = Some i -> glyph_map false kept h = Some j -> g < h -> i < j)
  /\ (forall g i, glyph_map false kept g = Some i -> In g kept /\ 0 <= g < f_n F)
  /\ num_output false kept = zlen kept.
Proof.
  intros kept.
  assert (Hs : StronglySorted Z.lt kept) by apply view_sorted.
  assert (Hp : forall x, In x kept -> 0 <= x < f_n F) by (intros x Hx; apply In_view in Hx; tauto).
  repeat split.
  - intros g Hg. destruct (map_total false kept g Hg) as [i Hi]. exists i.
    destruct (map_inverse false kept Hs (fun x H => proj1 (Hp x H)) g i Hi) as [_ [Ho Hb]]. cbn in Hb. tauto.
  - apply map_surjective, Hs.
  - apply map_monotone, Hs.
  - eapply index_of_Some_In, H.
  - apply Hp. eapply index_of_Some_In, H.
  - apply Hp. eapply index_of_Some_In, H.
Qed.

Lemma retain_gids_identity_l F gids unis g :
  let kept := kept_glyphs F gids unis in
  (In g kept -> glyph_map true kept g = Some g /\ old_of_new true kept g = Some g)
  /\ (forall g', glyph_map true kept g = Some g' -> g' = g /\ In g kept)
  /\ (forall m r, rev kept = m :: r -> num_output true kept = m + 1).
Proof.
  intros kept. unfold glyph_map, old_of_new, num_output. repeat split.
  - apply memz_In in H. now rewrite H.
  - apply memz_In in H. now rewrite H.
  - destruct (memz g kept); congruence.
  - destruct (memz g kept) eqn:E; [apply memz_In, E|discriminate].
  - intros m r ->. reflexivity.
Qed.

(* ------------------------------------------------------------------ hmtx *)
Lemma trim_SS advn last m : trim advn last (S (S m)) =
  if advn (Z.of_nat m) =? last then trim advn last (S m) else S (S m).
Proof. reflexivity. Qed.

Lemma trim_spec advn last : forall num, (1 <= num)%nat -> advn (Z.of_nat num - 1) = last ->
  (1 <= trim advn last num <= num)%nat
  /\ forall i, Z.of_nat (trim advn last num) - 1 <= i <= Z.of_nat num - 1 -> advn i = last.
Proof.
  induction num as [|p IH]; intros H1 Hl; [lia|].
  destruct p as [|m].
  - cbn. split; [lia|]. intros i Hi. replace i with (Z.of_nat 1 - 1) by lia. exact Hl.
  - rewrite trim_SS. destruct (advn (Z.of_nat m) =? last) eqn:E.
    + apply Z.eqb_eq in E.
      assert (H2 : advn (Z.of_nat (S m) - 1) = last) by (replace (Z.of_nat (S m) - 1) with (Z.of_nat m) by lia; exact E).
      destruct (IH ltac:(lia) H2) as [Hk Ha]. split; [lia|].
      intros i Hi. destruct (Z.eq_dec i (Z.of_nat (S (S m)) - 1)) as [->|Hne]; [exact Hl|].
      apply Ha. lia.
    + split; [lia|]. intros i Hi. replace i with (Z.of_nat (S (S m)) - 1) by lia. exact Hl.
Qed.

Lemma hm_advance_znth long g m : znth long g = Some m -> hm_advance long g = Some (fst m).
Proof. unfold hm_advance. now intros ->. Qed.

Lemma hmtx_preserved_l F retain kept long' lsbs' g g' :
  StronglySorted Z.lt kept -> (forall x, In x kept -> 0 <= x) ->
  num_output retain kept <= 65535 ->
  hmtx_subset F retain kept = HTable long' lsbs' ->
  glyph_map retain kept g = Some g' ->
  hm_advance long' g' = hm_advance (f_long F) g
  /\ hm_lsb long' lsbs' g' = hm_lsb (f_long F) (f_lsbs F) g
  /\ zlen long' = new_num_h_metrics F retain kept
  /\ zlen long' + zlen lsbs' = num_output retain kept.
Proof.
  intros Hs Hpos Hmax Hh Hm.
  destruct (map_inverse retain kept Hs Hpos g g' Hm) as [Hin [Hinv Hb]].
  unfold hmtx_subset in Hh.
  destruct (num_output retain kept =? 0) eqn:E0; [discriminate|].
  destruct (zlen (f_long F) + zlen (f_lsbs F) <=? num_output retain kept - 1); [discriminate|].
  destruct (existsb _ kept) eqn:Eex; [discriminate|]. cbn [orb] in Hh.
  destruct (f_long F) as [|m0 lt] eqn:Elong; [discriminate|]. rewrite <- Elong in *.
  injection Hh as <- <-.
  set (nout := num_output retain kept) in *.
  set (nn := new_num_h_metrics F retain kept) in *.
  (* every kept glyph has a side bearing and an advance *)
  assert (Hlsb : exists l, hm_lsb (f_long F) (f_lsbs F) g = Some l).
  { destruct (hm_lsb (f_long F) (f_lsbs F) g) eqn:El; [eauto|].
    exfalso. rewrite <- not_true_iff_false in Eex. apply Eex. apply existsb_exists. exists g. rewrite El. tauto. }
  assert (Hadv : exists a, hm_advance (f_long F) g = Some a).
  { unfold hm_advance. destruct (znth (f_long F) g); [eauto|]. rewrite Elong. cbn.
    destruct (rev lt ++ [m0]) eqn:Er; [destruct (rev lt); discriminate|eauto]. }
  destruct Hlsb as [l Hl]. destruct Hadv as [a Ha].
  (* trimming loop *)
  assert (Hnum : Z.min nout 65535 = nout) by lia.
  assert (Hn1 : 1 <= nout) by lia.
  pose proof (trim_spec (adv_new F retain kept) (adv_new F retain kept (nout - 1)) (Z.to_nat nout) ltac:(lia)
                        ltac:(f_equal; lia)) as [Hk Htrim].
  assert (Hnn : nn = Z.of_nat (trim (adv_new F retain kept) (adv_new F retain kept (nout - 1)) (Z.to_nat nout))).
  { unfold nn, new_num_h_metrics. fold nout. rewrite Hnum. reflexivity. }
  assert (Hnnb : 1 <= nn <= nout) by lia.
  rewrite !zlen_map_zrange by lia.
  split; [|split; [|split; [reflexivity|lia]]].
  - unfold hm_advance at 1. rewrite znth_map_zrange.
    destruct ((0 <=? g') && (g' <? nn)) eqn:Eb.
    + rewrite Hinv. cbn. rewrite Ha. reflexivity.
    + (* beyond the long metrics: advance of the last long metric *)
      destruct (rev_head_map_zrange
                  (fun i => match old_of_new retain kept i with
                            | Some o => (match hm_advance (f_long F) o with Some a => a | None => 0 end,
                                         match hm_lsb (f_long F) (f_lsbs F) o with Some a => a | None => 0 end)
                            | None => (0, 0) end) nn ltac:(lia)) as [r Hr].
      rewrite Hr. cbn [fst].
      assert (Hge : nn <= g') by (apply andb_false_iff in Eb; destruct Eb as [Eb|Eb]; [apply Z.leb_gt in Eb|apply Z.ltb_ge in Eb]; lia).
      assert (E1 : adv_new F retain kept (nn - 1) = adv_new F retain kept (nout - 1)) by (apply Htrim; lia).
      assert (E2 : adv_new F retain kept g' = adv_new F retain kept (nout - 1)) by (apply Htrim; lia).
      assert (E3 : adv_new F retain kept g' = a) by (unfold adv_new; rewrite Hinv, Ha; reflexivity).
      rewrite Ha. f_equal.
      transitivity (adv_new F retain kept (nn - 1)); [|lia].
      unfold adv_new. destruct (old_of_new retain kept (nn - 1)); reflexivity.
  - unfold hm_lsb at 1. rewrite znth_map_zrange.
    destruct ((0 <=? g') && (g' <? nn)) eqn:Eb.
    + rewrite Hinv. cbn. rewrite Hl. reflexivity.
    + assert (Hge : nn <= g') by (apply andb_false_iff in Eb; destruct Eb as [Eb|Eb]; [apply Z.leb_gt in Eb|apply Z.ltb_ge in Eb]; lia).
      rewrite zlen_map_zrange by lia. rewrite znth_map_zrange.
      replace ((0 <=? g' - nn) && (g' - nn <? nout - nn)) with true
        by (symmetry; apply andb_true_iff; split; [apply Z.leb_le|apply Z.ltb_lt]; lia).
      replace (nn + (g' - nn)) with g' by lia. rewrite Hinv, Hl. reflexivity.
Qed.

(* ------------------------------------------------------------------ cmap *)
Lemma all_some_map_In {A B} (f : A -> option B) l r : all_some (map f l) = Some r ->
  forall y, In y r <-> exists x, In x l /\ f x = Some y.
Proof.
  revert r. induction l as [|x l IH]; intros r; cbn.
  - intros [= <-] y. split; [intros []|intros [x [[] _]]].
  - destruct (f x) as [b|] eqn:E; [|discriminate].
    destruct (all_some (map f l)) as [r'|] eqn:Er; [|discriminate].
    intros [= <-] y. cbn. rewrite (IH r' eq_refl y). split.
    + intros [<-|[x' [Hx Hf]]]; [exists x; auto|exists x'; auto].
    + intros [x' [[<-|Hx] Hf]]; [left; congruence|right; eauto].
Qed.

Lemma find_fst_nodup (l : list (Z * Z)) c g : NoDup (map fst l) -> In (c, g) l ->
  find (fun p => fst p =? c) l = Some (c, g).
Proof.
  induction l as [|[c' g'] l IH]; cbn; [tauto|]. intros Hnd Hin. inversion Hnd as [|? ? Hni Hnd']; subst.
  destruct Hin as [[= -> ->]|Hin].
  - now rewrite Z.eqb_refl.
  - destruct (c' =? c) eqn:E.
    + apply Z.eqb_eq in E. subst. exfalso. apply Hni. apply in_map_iff. exists (c, g). auto.
    + auto.
Qed.

Lemma unicode_list_spec F gids unis : NoDup (map fst (f_cmap F)) ->
  forall c g, In (c, g) (unicode_list F gids unis) <-> In (c, g) (f_cmap F) /\ (In c unis \/ In g gids).
Proof.
  intros Hnd c g. unfold unicode_list.
  destruct ((match gids with [] => true | _ => false end) && (zlen unis <? f_n F)) eqn:Eb.
  - apply andb_true_iff in Eb. destruct Eb as [Eg _]. destruct gids; [|discriminate].
    rewrite in_flat_map. unfold cmap_lookup. split.
    + intros [c' [Hc Hin]]. destruct (find _ (f_cmap F)) as [[c2 g2]|] eqn:Ef; [|destruct Hin].
      cbn in Hin. destruct Hin as [[= <- <-]|[]].
      pose proof (find_some _ _ Ef) as [Hin2 E2]. cbn in E2. apply Z.eqb_eq in E2. subst. tauto.
    + intros [Hin [Hc|[]]]. exists c. split; [exact Hc|].
      rewrite (find_fst_nodup _ c g Hnd Hin). cbn. auto.
  - rewrite filter_In. cbn. rewrite orb_true_iff, !memz_In. tauto.
Qed.

Lemma cmap_exact_l F gids unis retain kept cm : NoDup (map fst (f_cmap F)) ->
  cmap_subset retain kept (unicode_list F gids unis) = Some cm ->
  forall c g', In (c, g') cm <->
    exists g, In (c, g) (f_cmap F) /\ (In c unis \/ In g gids) /\ glyph_map retain kept g = Some g'.
Proof.
  intros Hnd Hc c g'. unfold cmap_subset in Hc.
  rewrite (all_some_map_In _ _ _ Hc). split.
  - intros [[c0 g0] [Hin Hf]]. cbn in Hf. destruct (glyph_map retain kept g0) eqn:E; [|discriminate].
    injection Hf as <- <-. apply (unicode_list_spec F gids unis Hnd) in Hin. exists g0. tauto.
  - intros [g [Hin [Hreq Hm]]]. exists (c, g). split; [apply (unicode_list_spec F gids unis Hnd); tauto|].
    cbn. now rewrite Hm.
Qed.

(* ------------------------------------------------------------------ closure *)
Lemma clos_incl fuel F : forall gid set op d x, In x set -> In x (fst (clos fuel F gid (set, op) d)).
Proof.
  induction fuel as [|fuel IH]; intros gid set op d x Hx; cbn [clos]; [exact Hx|].
  destruct (memz gid set); [exact Hx|].
  destruct (64 <? d); [right; exact Hx|].
  destruct (op - 1 <? 0); [right; exact Hx|].
  destruct (glyph_at F gid); try (right; exact Hx).
  assert (Hgen : forall l st, In x (fst st) ->
            In x (fst (fold_left (fun st c => clos fuel F c st (d + 1)) l st))).
  { induction l as [|c l IHc]; intros st Hst; cbn; [exact Hst|].
    apply IHc. destruct st as [s o]. apply IH. exact Hst. }
  apply Hgen. right. exact Hx.
Qed.

Lemma clos_root fuel F gid set op d : In gid (fst (clos (S fuel) F gid (set, op) d)).
Proof.
  cbn [clos]. destruct (memz gid set) eqn:E; [apply memz_In, E|].
  destruct (64 <? d); [left; reflexivity|].
  destruct (op - 1 <? 0); [left; reflexivity|].
  destruct (glyph_at F gid); try (left; reflexivity).
  assert (Hgen : forall l st, In gid (fst st) ->
            In gid (fst (fold_left (fun st c => clos fuel F c st (d + 1)) l st))).
  { induction l as [|c l IHc]; intros st Hst; cbn; [exact Hst|].
    apply IHc. destruct st as [s o]. apply clos_incl. exact Hst. }
  apply Hgen. left. reflexivity.
Qed.

(* a freshly expanded composite gets all its direct components *)
Lemma clos_direct fuel F gid set op d cs h : memz gid set = false -> d <= 64 -> 1 <= op ->
  glyph_at F gid = GC cs h ->
  forall c, In c cs -> In c (fst (clos (S (S fuel)) F gid (set, op) d)).
Proof.
  intros Hm Hd Hop Hg c Hc. cbn [clos]. rewrite Hm.
  replace (64 <? d) with false by (symmetry; apply Z.ltb_ge; lia).
  replace (op - 1 <? 0) with false by (symmetry; apply Z.ltb_ge; lia).
  rewrite Hg.
  assert (Hgen : forall l st, In c l \/ In c (fst st) ->
            In c (fst (fold_left (fun st c => clos (S fuel) F c st (d + 1)) l st))).
  { induction l as [|c0 l IHc]; intros st Hst; cbn [fold_left]; [destruct Hst as [[]|H]; exact H|].
    apply IHc. destruct st as [s o]. destruct Hst as [[->|H]|H].
    - right. apply clos_root.
    - left. exact H.
    - right. apply clos_incl. exact H. }
  apply Hgen. left. exact Hc.
Qed.

Lemma glyf_closure_roots F budget : forall roots g, In g roots -> In g (glyf_closure F roots budget).
Proof.
  intros roots g Hg. unfold glyf_closure.
  assert (Hgen : forall l set, In g l \/ In g set ->
     In g (fold_left (fun set g0 => fst (clos closure_fuel F g0 (set, budget) 0)) l set)).
  { induction l as [|r rs IH]; intros set H; cbn [fold_left]; [destruct H as [[]|H]; exact H|].
    apply IH. destruct H as [[->|H]|H].
    - right. apply clos_root.
    - left. exact H.
    - right. apply clos_incl. exact H. }
  apply Hgen. left. exact Hg.
Qed.

Lemma kept_of_gsub F gids unis g : 0 <= g < f_n F -> In g (gsub_set F gids unis) ->
  In g (kept_glyphs F gids unis).
Proof.
  intros Hb Hg. unfold kept_glyphs. apply In_view. split; [exact Hb|].
  apply glyf_closure_roots. apply In_view. split; [exact Hb|].
  unfold colred_set. destruct (f_colr F); [apply in_or_app; left|]; exact Hg.
Qed.

Lemma closure_contains_requested_l F gids unis : NoDup (map fst (f_cmap F)) ->
  let kept := kept_glyphs F gids unis in
  (0 < f_n F -> In 0 kept)
  /\ (forall g, In g gids -> 0 <= g < f_n F -> In g kept)
  /\ (forall c g, In c unis -> In (c, g) (f_cmap F) -> 0 <= g < f_n F -> In g kept)
  /\ (forall c g, In g gids -> In (c, g) (f_cmap F) -> 0 <= g < f_n F -> In g kept)
  /\ (forall g, In g kept -> 0 <= g < f_n F).
Proof.
  intros Hnd kept. repeat split.
  - intros Hn. apply kept_of_gsub; [lia|]. left. reflexivity.
  - intros g Hg Hb. apply kept_of_gsub; [exact Hb|]. right. apply in_or_app. left.
    unfold gsub0. destruct gids as [|g0 gs] eqn:E; [destruct Hg|]. rewrite <- E in *.
    (* with requested ids present the ids are inserted directly, clipped to the font *)
    destruct gids; [discriminate|]. apply in_or_app. left. apply filter_In. split; [exact Hg|apply Z.ltb_lt; lia].
  - intros c g Hc Hin Hb. apply kept_of_gsub; [exact Hb|]. right. apply in_or_app. left.
    unfold gsub0. apply in_or_app. right. apply in_map_iff. exists (c, g). split; [reflexivity|].
    apply (unicode_list_spec F gids unis Hnd). tauto.
  - intros c g Hg Hin Hb. apply kept_of_gsub; [exact Hb|]. right. apply in_or_app. left.
    unfold gsub0. apply in_or_app. right. apply in_map_iff. exists (c, g). split; [reflexivity|].
    apply (unicode_list_spec F gids unis Hnd). tauto.
  - apply In_view in H. tauto.
  - apply In_view in H. tauto.
Qed.

(* ------------------------------------------------------------------ glyph records *)
Lemma glyph_record_preserved_l F retain notdef kept gl g g' :
  StronglySorted Z.lt kept -> (forall x, In x kept -> 0 <= x) ->
  glyf_subset F retain notdef kept = Some gl ->
  glyph_map retain kept g = Some g' ->
  (g <> 0 \/ notdef = true) ->
  znth gl g' = Some (subset_glyph retain kept (glyph_at F g))
  /\ zlen gl = num_output retain kept.
Proof.
  intros Hs Hpos Hg Hm Hnd.
  destruct (map_inverse retain kept Hs Hpos g g' Hm) as [Hin [Hinv Hb]].
  unfold glyf_subset in Hg. destruct (existsb _ kept); [discriminate|]. injection Hg as <-.
  rewrite znth_map_zrange, zlen_map_zrange by lia.
  replace ((0 <=? g') && (g' <? num_output retain kept)) with true
    by (symmetry; apply andb_true_iff; split; [apply Z.leb_le|apply Z.ltb_lt]; lia).
  rewrite Hinv. split; [|reflexivity]. f_equal.
  destruct Hnd as [Hne| ->].
  - replace (g =? 0) with false by (symmetry; apply Z.eqb_neq; exact Hne). reflexivity.
  - now rewrite andb_false_r.
Qed.

Lemma subset_glyph_composite retain kept cs h cs' :
  all_some (map (glyph_map retain kept) cs) = Some cs' ->
  subset_glyph retain kept (GC cs h) = GC cs' h
  /\ length cs' = length cs
  /\ forall k c, nth_error cs k = Some c -> exists c', nth_error cs' k = Some c' /\ glyph_map retain kept c = Some c'.
Proof.
  intros H. cbn. rewrite H. split; [reflexivity|].
  revert cs' H. induction cs as [|c cs IH]; intros cs' H; cbn in H.
  - injection H as <-. split; [reflexivity|]. intros k c Hk. destruct k; discriminate.
  - destruct (glyph_map retain kept c) as [c1|] eqn:E; [|discriminate].
    destruct (all_some (map (glyph_map retain kept) cs)) as [r|] eqn:Er; [|discriminate].
    injection H as <-. destruct (IH r eq_refl) as [Hl Hn]. split; [cbn; congruence|].
    intros k c0 Hk. destruct k; cbn in *.
    + injection Hk as <-. eauto.
    + apply Hn, Hk.
Qed.

(* ------------------------------------------------------------------ subsetting to everything *)
Lemma filter_all {A} (f : A -> bool) l : (forall x, In x l -> f x = true) -> filter f l = l.
Proof.
  induction l as [|x l IH]; cbn; intros H; [reflexivity|].
  rewrite (H x (or_introl eq_refl)). f_equal. apply IH. intros y Hy. apply H. right. exact Hy.
Qed.

Lemma index_of_zrange n g : 0 <= g < n -> index_of g (zrange n) 0 = Some g.
Proof.
  intros H. rewrite (index_of_nth (zrange n) (zrange_sorted n) (Z.to_nat g) 0 g); [f_equal; lia|].
  pose proof (znth_map_zrange (fun x => x) n g) as E. rewrite map_id in E. unfold znth in E.
  replace (g <? 0) with false in E by (symmetry; apply Z.ltb_ge; lia). rewrite E.
  replace ((0 <=? g) && (g <? n)) with true
    by (symmetry; apply andb_true_iff; split; [apply Z.leb_le|apply Z.ltb_lt]; lia). reflexivity.
Qed.

Lemma subset_all_identity_l F gids unis retain : NoDup (map fst (f_cmap F)) ->
  (forall g, 0 <= g < f_n F -> In g gids) ->
  kept_glyphs F gids unis = zrange (f_n F)
  /\ (forall g, 0 <= g < f_n F -> glyph_map retain (kept_glyphs F gids unis) g = Some g)
  /\ (0 < f_n F -> num_output retain (kept_glyphs F gids unis) = f_n F).
Proof.
  intros Hnd Hall.
  assert (Hk : kept_glyphs F gids unis = zrange (f_n F)).
  { pose proof (closure_contains_requested_l F gids unis Hnd) as [_ [Hreq _]].
    unfold kept_glyphs in *. unfold view at 1. apply filter_all. intros g Hg. apply In_zrange in Hg.
    specialize (Hreq g (Hall g Hg) Hg). unfold view at 1 in Hreq. apply filter_In in Hreq. tauto. }
  rewrite Hk. split; [reflexivity|]. split.
  - intros g Hg. unfold glyph_map. destruct retain.
    + replace (memz g (zrange (f_n F))) with true by (symmetry; apply memz_In, In_zrange; exact Hg). reflexivity.
    + apply index_of_zrange, Hg.
  - intros Hn. unfold num_output. destruct retain.
    + destruct (rev_head_map_zrange (fun x => x) (f_n F) ltac:(lia)) as [r Hr]. rewrite map_id in Hr. rewrite Hr. lia.
    + unfold zlen. rewrite zrange_length. lia.
Qed.

(* ------------------------------------------------------------------ F-7: the closure stops descending *)
(* a chain: glyph 0 simple, glyph k (1 <= k <= d) = composite of k+1, glyph d+1 simple *)
Definition chain_font (d : nat) : afont :=
  mkFont (Z.of_nat d + 2)
         (GS 1 :: map (fun k => GC [Z.of_nat k + 1] 7) (seq 1 d) ++ [GS 2])
         true (map (fun _ => (500, 0)) (seq 0 (d + 2))) [] [(65, 1)] true [] [] None.

Lemma closure_truncation_refuted_l :
  exists F gids unis g c h,
    In g (kept_glyphs F gids unis) /\ glyph_at F g = GC [c] h /\ 0 <= c < f_n F
    /\ ~ In c (kept_glyphs F gids unis)
    (* and the kept composite is silently written as an empty glyph *)
    /\ exists gl g', glyf_subset F false false (kept_glyphs F gids unis) = Some gl
                     /\ glyph_map false (kept_glyphs F gids unis) g = Some g' /\ znth gl g' = Some GE.
Proof.
  exists (chain_font 67), [1], [], 66, 67, 7.
  assert (E : kept_glyphs (chain_font 67) [1] [] = zrange 67) by (vm_compute; reflexivity).
  rewrite E. split; [apply In_zrange; lia|]. split; [vm_compute; reflexivity|]. split; [cbn; lia|].
  split; [intros H; apply In_zrange in H; lia|].
  eexists. exists 66. split; [vm_compute; reflexivity|]. split; vm_compute; reflexivity.
Qed.

(* ------------------------------------------------------------------ property-level forms (kept = the plan's glyph set) *)
Lemma kept_sorted F gids unis : StronglySorted Z.lt (kept_glyphs F gids unis).
Proof. apply view_sorted. Qed.
Lemma kept_nonneg F gids unis x : In x (kept_glyphs F gids unis) -> 0 <= x.
Proof. intros H. apply In_view in H. tauto. Qed.

Lemma hmtx_preserved_kept F gids unis retain long' lsbs' g g' :
  let kept := kept_glyphs F gids unis in
  num_output retain kept <= 65535 ->
  hmtx_subset F retain kept = HTable long' lsbs' ->
  glyph_map retain kept g = Some g' ->
  hm_advance long' g' = hm_advance (f_long F) g
  /\ hm_lsb long' lsbs' g' = hm_lsb (f_long F) (f_lsbs F) g
  /\ zlen long' = new_num_h_metrics F retain kept
  /\ zlen long' + zlen lsbs' = num_output retain kept.
Proof.
  intros kept. apply hmtx_preserved_l; [apply kept_sorted|apply kept_nonneg].
Qed.

Lemma glyph_record_preserved_kept F gids unis retain notdef gl g g' :
  let kept := kept_glyphs F gids unis in
  glyf_subset F retain notdef kept = Some gl ->
  glyph_map retain kept g = Some g' ->
  (g <> 0 \/ notdef = true) ->
  znth gl g' = Some (subset_glyph retain kept (glyph_at F g))
  /\ zlen gl = num_output retain kept.
Proof.
  intros kept. apply glyph_record_preserved_l; [apply kept_sorted|apply kept_nonneg].
Qed.

(* ------------------------------------------------------------------ no junk: the closure stays inside every
   component-closed set that contains the roots (so, with Closure.v, kept = least such set) *)
Lemma clos_within F (S : Z -> Prop) :
  (forall g cs h c, S g -> glyph_at F g = GC cs h -> In c cs -> S c) ->
  forall fuel gid set op d, S gid -> (forall x, In x set -> S x) ->
  forall x, In x (fst (clos fuel F gid (set, op) d)) -> S x.
Proof.
  intros HS. induction fuel as [|fuel IH]; intros gid set op d Hg Hset x; cbn [clos]; [apply Hset|].
  destruct (memz gid set); [apply Hset|].
  assert (Hset1 : forall y, In y (gid :: set) -> S y) by (intros y [<-|Hy]; [exact Hg|apply Hset, Hy]).
  destruct (64 <? d); [apply Hset1|].
  destruct (op - 1 <? 0); [apply Hset1|].
  destruct (glyph_at F gid) as [|h1| |cs h|] eqn:Hgl; try apply Hset1.
  assert (Hgen : forall l st, (forall c, In c l -> S c) -> (forall y, In y (fst st) -> S y) ->
            forall y, In y (fst (fold_left (fun st c => clos fuel F c st (d + 1)) l st)) -> S y).
  { induction l as [|c l IHl]; intros st Hl Hst y; cbn [fold_left]; [apply Hst|].
    apply IHl; [intros c0 Hc0; apply Hl; right; exact Hc0|].
    destruct st as [s o]. apply IH; [apply Hl; left; reflexivity|exact Hst]. }
  apply Hgen; [|exact Hset1]. intros c Hc. eapply HS; eauto.
Qed.

Lemma glyf_closure_within F (S : Z -> Prop) roots budget :
  (forall g cs h c, S g -> glyph_at F g = GC cs h -> In c cs -> S c) ->
  (forall r, In r roots -> S r) ->
  forall x, In x (glyf_closure F roots budget) -> S x.
Proof.
  intros HS Hr. unfold glyf_closure.
  assert (Hgen : forall l set, (forall r, In r l -> S r) -> (forall y, In y set -> S y) ->
     forall y, In y (fold_left (fun set g => fst (clos closure_fuel F g (set, budget) 0)) l set) -> S y).
  { induction l as [|r l IHl]; intros set Hl Hset y; cbn [fold_left]; [apply Hset|].
    apply IHl; [intros r0 Hr0; apply Hl; right; exact Hr0|].
    apply clos_within; [exact HS|apply Hl; left; reflexivity|exact Hset]. }
  apply Hgen; [exact Hr|intros y []].
Qed.

(* the roots of the glyf closure: .notdef, requested ids, glyphs of retained characters, UVS glyphs, COLR reach *)
Definition closure_roots (F : afont) (gids unis : list Z) : list Z :=
  view (f_n F) (colred_set F (gsub_set F gids unis)).

Lemma closure_minimal_l F gids unis (S : Z -> Prop) :
  (forall g cs h c, S g -> glyph_at F g = GC cs h -> In c cs -> S c) ->
  (forall r, In r (closure_roots F gids unis) -> S r) ->
  forall x, In x (kept_glyphs F gids unis) -> S x.
Proof.
  intros HS Hr x Hx. unfold kept_glyphs in Hx. apply In_view in Hx. destruct Hx as [_ Hx].
  eapply glyf_closure_within; eauto.
Qed.

Lemma closure_roots_kept F gids unis r : In r (closure_roots F gids unis) -> In r (kept_glyphs F gids unis).
Proof.
  intros H. unfold kept_glyphs. apply In_view. split; [apply In_view in H; tauto|].
  apply glyf_closure_roots. exact H.
Qed.
