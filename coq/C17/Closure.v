(* C17 — the glyf component closure is component-closed when neither cut-off fires.
   Hypotheses (exactly what the code needs): component ids inside the font, nesting depth at most 65
   levels (a ranking function bounded by 65 that strictly decreases along component edges), and the
   operation budget |glyphset_gsub| * 64 at least the number of glyphs. *)
From Coq Require Import ZArith List Bool Lia Sorted.
From FV Require Import C17.Model C17.Proofs.
Import ListNotations.
Open Scope Z_scope.

Section Closed.
Variable F : afont.
Variable rank : Z -> Z.
Hypothesis rank_range : forall g, 0 <= rank g <= 65.
Hypothesis rank_dec : forall g cs h c, glyph_at F g = GC cs h -> In c cs -> rank c < rank g.
Hypothesis comps_in_font : forall g cs h c, glyph_at F g = GC cs h -> In c cs -> 0 <= c < f_n F.

Let U := zrange (f_n F).

Definition Inv (st : list Z * Z) : Prop :=
  NoDup (fst st) /\ incl (fst st) U /\ zlen U <= snd st + zlen (fst st).

Definition children_in (s : list Z) (g : Z) : Prop :=
  forall cs h, glyph_at F g = GC cs h -> forall c, In c cs -> In c s.

Definition Post (st0 st' : list Z * Z) : Prop :=
  Inv st' /\ incl (fst st0) (fst st')
  /\ forall g, In g (fst st') -> ~ In g (fst st0) -> children_in (fst st') g.

Lemma Post_refl st : Inv st -> Post st st.
Proof. intros H. split; [exact H|]. split; [apply incl_refl|]. intros g H1 H2. contradiction. Qed.

Lemma Post_trans a b c : Post a b -> Post b c -> Post a c.
Proof.
  intros [_ [Iab Nab]] [Ic [Ibc Nbc]]. split; [exact Ic|]. split; [eapply incl_tran; eauto|].
  intros g Hg Hna. destruct (in_dec Z.eq_dec g (fst b)) as [Hb|Hb].
  - intros cs h Hgl x Hx. apply Ibc. eapply Nab; eauto.
  - apply Nbc; assumption.
Qed.

Lemma pigeon set gid : NoDup set -> incl set U -> In gid U -> ~ In gid set -> zlen set + 1 <= zlen U.
Proof.
  intros Hnd Hin Hg Hn.
  assert (H : (length (gid :: set) <= length U)%nat).
  { apply NoDup_incl_length; [constructor; assumption|]. intros x [<-|Hx]; [exact Hg|apply Hin, Hx]. }
  unfold zlen. cbn [length] in H. lia.
Qed.

Lemma lift_root set op gid st' : ~ In gid set ->
  Post (gid :: set, op - 1) st' -> children_in (fst st') gid ->
  Post (set, op) st' /\ In gid (fst st').
Proof.
  intros Hnin [I' [Inc' New']] Hch. cbn [fst] in *. split.
  - split; [exact I'|]. split; [intros x Hx; apply Inc'; right; exact Hx|].
    intros g Hg Hn. destruct (Z.eq_dec g gid) as [->|Hne]; [exact Hch|].
    apply New'; [exact Hg|]. intros [E|Hx]; [congruence|contradiction].
  - apply Inc'. left. reflexivity.
Qed.

Lemma clos_ok : forall fuel gid st d,
  66 - d <= Z.of_nat fuel -> 0 <= d -> rank gid <= 65 - d -> In gid U -> Inv st ->
  Post st (clos fuel F gid st d) /\ In gid (fst (clos fuel F gid st d)).
Proof.
  induction fuel as [|fuel IH]; intros gid st d Hf Hd Hr Hu Hinv.
  - pose proof (rank_range gid). lia.
  - destruct st as [set op]. cbn [clos].
    destruct (memz gid set) eqn:Em.
    + split; [apply Post_refl, Hinv|apply memz_In, Em].
    + assert (Hnin : ~ In gid set) by (intros H; apply memz_In in H; congruence).
      destruct Hinv as [Hnd [Hincl Hsum]]. cbn [fst snd] in *.
      pose proof (pigeon set gid Hnd Hincl Hu Hnin) as Hpig.
      assert (Hnd1 : NoDup (gid :: set)) by (constructor; assumption).
      assert (Hincl1 : incl (gid :: set) U) by (intros x [<-|Hx]; [exact Hu|apply Hincl, Hx]).
      assert (Hz1 : zlen (gid :: set) = zlen set + 1) by (unfold zlen; cbn [length]; lia).
      destruct (64 <? d) eqn:Ed.
      * (* depth cut: only reached by glyphs without components *)
        apply Z.ltb_lt in Ed. split; [|left; reflexivity].
        split; [split; [exact Hnd1|split; [exact Hincl1|cbn [fst snd]; lia]]|].
        split; [intros x Hx; right; exact Hx|].
        cbn [fst]. intros g [<-|Hg] Hn; [|contradiction]. intros cs h Hgl c Hc.
        pose proof (rank_dec _ _ _ _ Hgl Hc). pose proof (rank_range c). lia.
      * apply Z.ltb_ge in Ed.
        replace (op - 1 <? 0) with false by (symmetry; apply Z.ltb_ge; lia).
        assert (Hinv1 : Inv (gid :: set, op - 1)) by (split; [exact Hnd1|split; [exact Hincl1|cbn [fst snd]; lia]]).
        destruct (glyph_at F gid) as [|h1| |cs h| ] eqn:Hgl;
          try (apply lift_root; [exact Hnin|apply Post_refl, Hinv1|intros cs0 h0 Hc0; congruence]).
        assert (Hfold : forall l st, (forall c, In c l -> In c U /\ rank c <= 65 - (d + 1)) -> Inv st ->
                  Post st (fold_left (fun st c => clos fuel F c st (d + 1)) l st)
                  /\ forall c, In c l -> In c (fst (fold_left (fun st c => clos fuel F c st (d + 1)) l st))).
        { induction l as [|c l IHl]; intros st Hl Hst; cbn [fold_left].
          - split; [apply Post_refl, Hst|intros c []].
          - destruct (Hl c (or_introl eq_refl)) as [Hcu Hcr].
            destruct (IH c st (d + 1) ltac:(lia) ltac:(lia) Hcr Hcu Hst) as [P1 In1].
            destruct (IHl (clos fuel F c st (d + 1)) (fun x Hx => Hl x (or_intror Hx)) (proj1 P1)) as [P2 In2].
            split; [eapply Post_trans; eauto|].
            intros x [<-|Hx]; [|apply In2, Hx]. destruct P2 as [_ [I2 _]]. apply I2, In1. }
        destruct (Hfold cs (gid :: set, op - 1)) as [P In']; [|exact Hinv1|].
        { intros c Hc. split.
          - apply In_zrange. eapply comps_in_font; eauto.
          - pose proof (rank_dec _ _ _ _ Hgl Hc). lia. }
        apply lift_root; [exact Hnin|exact P|].
        intros cs0 h0 Hc0. rewrite Hgl in Hc0. injection Hc0 as <- <-. exact In'.
Qed.

Definition Closed (s : list Z) : Prop := forall g, In g s -> children_in s g.

Lemma glyf_closure_closed roots budget :
  (forall r, In r roots -> In r U) -> zlen U <= budget ->
  Closed (glyf_closure F roots budget).
Proof.
  intros Hroots Hb. unfold glyf_closure.
  assert (Hgen : forall l set, (forall r, In r l -> In r U) -> NoDup set -> incl set U -> Closed set ->
     let s' := fold_left (fun set g => fst (clos closure_fuel F g (set, budget) 0)) l set in
     NoDup s' /\ incl s' U /\ Closed s').
  { induction l as [|r l IHl]; intros set Hl Hnd Hin Hc; cbn [fold_left]; [tauto|].
    assert (Hi : Inv (set, budget)).
    { split; [exact Hnd|]. split; [exact Hin|]. cbn [fst snd]. unfold zlen in *. lia. }
    destruct (clos_ok closure_fuel r (set, budget) 0 ltac:(unfold closure_fuel; lia) ltac:(lia)
                      ltac:(pose proof (rank_range r); lia) (Hl r (or_introl eq_refl)) Hi) as [[[N1 [I1 _]] [Inc New]] _].
    apply IHl; [intros x Hx; apply Hl; right; exact Hx|exact N1|exact I1|].
    intros g Hg. destruct (in_dec Z.eq_dec g set) as [Hs|Hs].
    - intros cs h Hgl c Hcc. apply Inc. cbn [fst]. eapply Hc; eauto.
    - apply New; [exact Hg|exact Hs]. }
  apply (Hgen roots []); [exact Hroots|constructor|intros x []|intros g []].
Qed.

(* every component of every kept composite is kept *)
Lemma closure_component_closed_l gids unis :
  f_n F <= zlen (view (f_n F) (gsub_set F gids unis)) * 64 ->
  forall g cs h c, In g (kept_glyphs F gids unis) -> glyph_at F g = GC cs h -> In c cs ->
                   In c (kept_glyphs F gids unis).
Proof.
  intros Hb g cs h c Hg Hgl Hc. unfold kept_glyphs in *.
  apply In_view in Hg. destruct Hg as [Hgb Hg]. apply In_view. split; [eapply comps_in_font; eauto|].
  eapply glyf_closure_closed; eauto.
  - intros r Hr. apply In_view in Hr. apply In_zrange. tauto.
  - unfold U, zlen. rewrite zrange_length.
    destruct (Z_le_gt_dec 0 (f_n F)); [rewrite Z2Nat.id by lia; exact Hb|].
    replace (Z.to_nat (f_n F)) with 0%nat by lia. cbn. unfold zlen. lia.
Qed.
End Closed.
