(* C17 — the loca entries the model derives from the plan satisfy the well-formedness hypothesis of
   Loca.loca_offsets_exact_l (new ids strictly ascending, inside [0, num_output), lengths >= 0), so the loca
   theorems apply to every (font, request, flags) of the model. *)
From Coq Require Import ZArith List Bool Lia Sorted.
From FV Require Import C17.Model C17.Proofs C17.Loca.
Import ListNotations.
Open Scope Z_scope.

Lemma map_sorted_mono (f : Z -> Z) l : StronglySorted Z.lt l ->
  (forall x y, In x l -> In y l -> x < y -> f x < f y) -> StronglySorted Z.lt (map f l).
Proof.
  induction 1 as [|a l Hs IH Hf]; intros Hm; cbn; constructor.
  - apply IH. intros x y Hx Hy. apply Hm; right; assumption.
  - rewrite Forall_forall in *. intros y Hy. apply in_map_iff in Hy. destruct Hy as [x [<- Hx]].
    apply Hm; [left; reflexivity|right; exact Hx|apply Hf, Hx].
Qed.

Lemma znth_In {A} (l : list A) i x : znth l i = Some x -> In x l.
Proof. unfold znth. destruct (i <? 0); [discriminate|]. apply nth_error_In. Qed.

Lemma loca_entries_wf F glens retain notdef nohint kept :
  StronglySorted Z.lt kept -> (forall x, In x kept -> 0 <= x) ->
  (forall p, In p glens -> 0 <= fst p /\ 0 <= snd p) ->
  loca_wf (num_output retain kept) (loca_entries F glens retain notdef nohint kept).
Proof.
  intros Ks Kp Hl. unfold loca_wf, loca_entries. split.
  - rewrite map_map. cbn [fst]. apply map_sorted_mono; [exact Ks|].
    intros x y Hx Hy Hlt.
    destruct (map_total retain kept x Hx) as [x' Ex]. destruct (map_total retain kept y Hy) as [y' Ey].
    rewrite Ex, Ey. destruct retain.
    + unfold glyph_map in Ex, Ey. destruct (memz x kept); [|discriminate]. destruct (memz y kept); [|discriminate].
      injection Ex as <-. injection Ey as <-. exact Hlt.
    + eapply map_monotone; eauto.
  - intros g l Hin. apply in_map_iff in Hin. destruct Hin as [old [E Hold]].
    injection E as <- <-.
    destruct (map_total retain kept old Hold) as [g' Eg]. rewrite Eg.
    destruct (map_inverse retain kept Ks Kp old g' Eg) as [_ [_ Hb]]. split; [exact Hb|].
    destruct ((old =? 0) && (g' =? 0) && negb notdef); [lia|].
    destruct (subset_glyph retain kept (glyph_at F old)); try lia;
      (destruct (znth glens old) as [p|] eqn:Ep; [|lia]; apply znth_In in Ep; destruct (Hl p Ep);
       destruct nohint; assumption).
Qed.

(* the loca theorem at the level of the model's own prediction (what check_case compares with klippa's bytes) *)
Lemma loca_model_exact_l F glens gids unis flags :
  (forall p, In p glens -> 0 <= fst p /\ 0 <= snd p) ->
  let kept := kept_glyphs F gids unis in
  let nout := num_output (flag_retain flags) kept in
  let ents := loca_entries F glens (flag_retain flags) (flag_notdef flags) (flag_nohint flags) kept in
  loca_wf nout ents /\ 0 <= nout
  /\ (loca_format ents = 1 -> loca_total ents <= 4294967295 ->
        exists offs, loca_model F glens gids unis flags = LTable 1 offs /\ zlen offs = nout + 1
          /\ loca_read 1 offs 0 = Some 0
          /\ forall i, 0 <= i < nout -> loca_read 1 offs (i + 1) = Some (loca_end ents i))
  /\ (loca_total ents <= 65535 ->
        exists offs, loca_model F glens gids unis flags = LTable 0 offs /\ zlen offs = nout + 1
          /\ loca_read 0 offs 0 = Some 0
          /\ forall i, 0 <= i < nout -> loca_read 0 offs (i + 1) = Some (loca_end ents i)).
Proof.
  intros Hl kept nout ents.
  pose proof (kept_sorted F gids unis) as Ks. fold kept in Ks.
  assert (Kp : forall x, In x kept -> 0 <= x) by (intros x Hx; eapply kept_nonneg; exact Hx).
  pose proof (loca_entries_wf F glens (flag_retain flags) (flag_notdef flags) (flag_nohint flags) kept Ks Kp Hl) as Hwf.
  fold nout ents in Hwf.
  assert (Hn : 0 <= nout).
  { unfold nout, num_output. destruct (flag_retain flags).
    - destruct (rev kept) as [|m r] eqn:Er; [lia|].
      assert (In m kept) by (apply in_rev; rewrite Er; left; reflexivity). specialize (Kp m H). lia.
    - unfold zlen. lia. }
  split; [exact Hwf|]. split; [exact Hn|].
  exact (loca_offsets_exact_l nout ents Hn Hwf).
Qed.

(* everything about the loca arithmetic in one statement *)
Lemma loca_offsets_exact_all_l : forall nout ents, 0 <= nout -> loca_wf nout ents ->
  (* the short format is chosen iff the padded total is below 0x1FFFF *)
  ((loca_format ents = 0 <-> loca_total ents <= 131070) /\ (loca_format ents = 1 <-> 131070 < loca_total ents))
  /\ (* long format: entry i + 1 read back = prefix sum of the padded lengths of the new ids <= i *)
  (loca_format ents = 1 -> loca_total ents <= 4294967295 ->
     exists offs, loca_subset nout ents = LTable 1 offs /\ zlen offs = nout + 1
       /\ loca_read 1 offs 0 = Some 0
       /\ forall i, 0 <= i < nout -> loca_read 1 offs (i + 1) = Some (loca_end ents i))
  /\ (* short format while the u16 running offset fits *)
  (loca_total ents <= 65535 ->
     exists offs, loca_subset nout ents = LTable 0 offs /\ zlen offs = nout + 1
       /\ loca_read 0 offs 0 = Some 0
       /\ forall i, 0 <= i < nout -> loca_read 0 offs (i + 1) = Some (loca_end ents i))
  /\ (* short format: the range [loca[gid], loca[gid+1]) is exactly where the glyph's bytes and its pad byte went *)
  (forall gid pos len, In (gid, (pos, len)) (glyf_starts true ents 0) ->
     pos = loca_end ents (gid - 1) /\ loca_end ents gid = pos + loca_pad len /\ len <= loca_pad len <= len + 1)
  /\ (* long format: the same, but only when every glyph length is even (the pad byte is not written) *)
  ((forall g l, In (g, l) ents -> l mod 2 = 0) ->
   forall gid pos len, In (gid, (pos, len)) (glyf_starts false ents 0) ->
     pos = loca_end ents (gid - 1) /\ loca_end ents gid = pos + loca_pad len /\ len <= loca_pad len <= len + 1)
  /\ (* ids that are not output glyphs (RETAIN_GIDS gaps) get an empty range *)
  (forall i, 0 <= i -> ~ In i (map fst ents) -> loca_end ents i = loca_end ents (i - 1)).
Proof.
  intros nout ents Hn Hwf.
  split; [apply loca_format_choice_l|].
  destruct (loca_offsets_exact_l nout ents Hn Hwf) as [HL HS].
  split; [exact HL|]. split; [exact HS|].
  split; [exact (loca_ranges_exact_l nout ents Hwf)|].
  split; [exact (loca_ranges_exact_long_even_l nout ents Hwf)|].
  intros i Hi Hni. exact (loca_gap_empty_l nout ents i Hwf Hi Hni).
Qed.
