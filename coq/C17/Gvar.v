(* C17 — gvar offset array: stored_value / reader round trip for both offset formats, and when the format
   decision of klippa (Model.v gv_long) is sufficient.  Model: coq/C17/Model.v gvar_subset. *)
From Coq Require Import ZArith List Bool Lia Sorted.
From FV Require Import C17.Model C17.Proofs.
Import ListNotations.
Open Scope Z_scope.

Ltac Zify.zify_post_hook ::= Z.div_mod_to_equations.

(* read(stored(off, fmt), fmt) = off: long format for every 32-bit offset, short format for every EVEN offset
   up to 0x1FFFE *)
Lemma gvar_offsets_roundtrip_l long off :
  (long = true -> 0 <= off < 4294967296) ->
  (long = false -> 0 <= off <= 131070 /\ Z.even off = true) ->
  gv_read long (gv_stored long off) = off.
Proof.
  intros Hl Hs. unfold gv_read, gv_stored. destruct long.
  - specialize (Hl eq_refl). lia.
  - destruct (Hs eq_refl) as [Hb He]. apply Z.even_spec in He. destruct He as [k ->].
    lia.
Qed.

(* sums over the written glyphs *)
Lemma fold_add_ge (f : Z * Z -> Z) (c : Z * Z -> bool) W : (forall p, In p W -> 0 <= f p) ->
  forall acc, acc <= fold_left (fun a p => if c p then a + f p else a) W acc.
Proof.
  induction W as [|p W IH]; intros Hf acc; cbn [fold_left]; [lia|].
  eapply Z.le_trans; [|apply IH; intros q Hq; apply Hf; right; exact Hq].
  specialize (Hf p (or_introl eq_refl)). destruct (c p); lia.
Qed.

Lemma fold_cond_le_all (f : Z * Z -> Z) (c : Z * Z -> bool) W : (forall p, In p W -> 0 <= f p) ->
  forall a b, a <= b ->
  fold_left (fun a p => if c p then a + f p else a) W a <= fold_left (fun a p => a + f p) W b.
Proof.
  induction W as [|p W IH]; intros Hf a b Hab; cbn [fold_left]; [exact Hab|].
  apply IH; [intros q Hq; apply Hf; right; exact Hq|].
  specialize (Hf p (or_introl eq_refl)). destruct (c p); lia.
Qed.

Lemma fold_cond_even (f : Z * Z -> Z) (c : Z * Z -> bool) W : (forall p, In p W -> Z.even (f p) = true) ->
  forall a, Z.even a = true -> Z.even (fold_left (fun a p => if c p then a + f p else a) W a) = true.
Proof.
  induction W as [|p W IH]; intros Hf a Ha; cbn [fold_left]; [exact Ha|].
  apply IH; [intros q Hq; apply Hf; right; exact Hq|].
  destruct (c p); [|exact Ha]. rewrite Z.even_add, Ha, (Hf p (or_introl eq_refl)). reflexivity.
Qed.

Lemma fold_ext_in (f g : Z * Z -> Z) W : (forall p, In p W -> f p = g p) ->
  forall a, fold_left (fun a p => a + f p) W a = fold_left (fun a p => a + g p) W a.
Proof.
  induction W as [|p W IH]; intros H a; cbn [fold_left]; [reflexivity|].
  rewrite (H p (or_introl eq_refl)). apply IH. intros q Hq. apply H. right. exact Hq.
Qed.

Lemma gv_pad_spec l : 0 <= l -> l <= gv_pad l /\ Z.even (gv_pad l) = true.
Proof.
  intros H. unfold gv_pad. split; [lia|].
  rewrite Z.even_spec. exists ((l + l mod 2) / 2). lia.
Qed.

(* format_choice_sufficient, now without side conditions on the renumbering or on the data lengths (fixes
   88e7b85 + 8b3457d: the decision sums the padded data of the OLD ids, the short writer pads): choosing the short
   format implies that every offset is even and at most 0x1FFFE, hence (gvar_offsets_roundtrip) read back exactly *)
Lemma gvar_format_choice_sufficient_l lens retain notdef kept :
  (forall g, 0 <= gv_len lens g) ->
  gv_long lens retain notdef kept = false ->
  forall i, let off := gv_end_offset false lens retain notdef kept i in
            0 <= off <= 131070 /\ Z.even off = true
            /\ gv_read false (gv_stored false off) = off.
Proof.
  intros Hl Hlong i off.
  assert (Hp : forall p : Z * Z, 0 <= gv_pad (gv_len lens (snd p)) /\ Z.even (gv_pad (gv_len lens (snd p))) = true).
  { intros p. destruct (gv_pad_spec (gv_len lens (snd p)) (Hl _)). specialize (Hl (snd p)). split; [lia|assumption]. }
  assert (Hb : 0 <= off <= 131070 /\ Z.even off = true).
  { unfold off, gv_end_offset. unfold gv_long in Hlong. apply Z.ltb_ge in Hlong.
    unfold gv_size_estimate in Hlong.
    split; [split|].
    - apply (fold_add_ge (fun p => gv_pad (gv_len lens (snd p))) (fun p => fst p <=? i)). intros p _. apply Hp.
    - eapply Z.le_trans; [|exact Hlong].
      apply (fold_cond_le_all (fun p => gv_pad (gv_len lens (snd p))) (fun p => fst p <=? i)); [intros p _; apply Hp|lia].
    - apply (fold_cond_even (fun p => gv_pad (gv_len lens (snd p))) (fun p => fst p <=? i)); [intros p _; apply Hp|reflexivity]. }
  destruct Hb as [Hr He]. split; [exact Hr|]. split; [exact He|].
  apply gvar_offsets_roundtrip_l; [discriminate|intros _; split; assumption].
Qed.

(* the long format is always exact (offsets are below 2^32) *)
Lemma gvar_long_exact_l lens retain notdef kept i :
  0 <= gv_end_offset true lens retain notdef kept i < 4294967296 ->
  gv_read true (gv_stored true (gv_end_offset true lens retain notdef kept i)) = gv_end_offset true lens retain notdef kept i.
Proof. intros H. apply gvar_offsets_roundtrip_l; [intros _; exact H|discriminate]. Qed.

(* the padded short offsets never lose data: the unpadded running total is at most the padded one, and they
   differ by less than the number of glyphs written *)
Lemma gvar_short_covers_data_l lens retain notdef kept i : (forall g, 0 <= gv_len lens g) ->
  gv_end_offset true lens retain notdef kept i <= gv_end_offset false lens retain notdef kept i.
Proof.
  intros Hl. unfold gv_end_offset.
  assert (Hgen : forall W a b, a <= b ->
    fold_left (fun acc p => if fst p <=? i then acc + gv_len lens (snd p) else acc) W a
    <= fold_left (fun acc p => if fst p <=? i then acc + gv_pad (gv_len lens (snd p)) else acc) W b).
  { induction W as [|p W IH]; intros a b Hab; cbn [fold_left]; [exact Hab|]. apply IH.
    destruct (gv_pad_spec (gv_len lens (snd p)) (Hl _)). destruct (fst p <=? i); lia. }
  apply Hgen. lia.
Qed.

(* the RULE BEFORE the fixes (size summed over the NEW ids of the original, no padding) was not sufficient:
   kept as a record of findings C17:gvar-format-decision-uses-new-gids / C17:gvar-short-offsets-odd-length-data *)
Definition old_size_estimate (lens : list Z) (retain notdef : bool) (kept : list Z) : Z :=
  fold_left (fun acc p => acc + gv_len lens (fst p)) (gv_written retain notdef kept) 0.
Lemma gvar_old_rule_refuted_l :
  (exists lens kept i, old_size_estimate lens false false kept <= 131070
      /\ 131070 < gv_end_offset true lens false false kept i
      /\ gv_read false (gv_stored false (gv_end_offset true lens false false kept i)) <> gv_end_offset true lens false false kept i)
  /\ (exists lens kept i, old_size_estimate lens true true kept <= 131070
      /\ gv_read false (gv_stored false (gv_end_offset true lens true true kept i)) <> gv_end_offset true lens true true kept i).
Proof.
  split.
  - exists [0; 2; 200000], [0; 2], 1. vm_compute. repeat split; try reflexivity; discriminate.
  - exists [2; 3; 4], [0; 1; 2], 1. vm_compute. split; discriminate.
Qed.
