(* C17 — ONE combined end-to-end statement on the abstract font model: for every font, request and both
   RETAIN_GIDS settings, everything the model observes about a kept glyph (hmtx advance / side bearing incl. the
   long-metrics / short-tail boundary, glyph record with renamed components) and about a kept code point (cmap
   answer) is that of the source.  Assembled from Proofs.v (hmtx_preserved_l, glyph_record_preserved_l,
   subset_glyph_composite, cmap_exact_l, map_total / map_inverse). *)
From Coq Require Import ZArith List Bool Lia Sorted.
From FV Require Import C17.Model C17.Proofs C17.Idempotent.
Import ListNotations.
Open Scope Z_scope.

Lemma znth_in_range {A} (l : list A) i : 0 <= i < zlen l -> exists x, znth l i = Some x.
Proof.
  intros H. unfold znth. replace (i <? 0) with false by (symmetry; apply Z.ltb_ge; lia).
  destruct (nth_error l (Z.to_nat i)) eqn:E; [eauto|].
  apply nth_error_None in E. unfold zlen in H. lia.
Qed.
Lemma znth_beyond {A} (l : list A) i : zlen l <= i -> znth l i = None.
Proof.
  intros H. unfold znth. unfold zlen in H. destruct (i <? 0) eqn:E; [reflexivity|].
  apply nth_error_None. lia.
Qed.

Lemma all_some_map_total {A B} (f : A -> option B) l r : all_some (map f l) = Some r ->
  forall x, In x l -> exists y, f x = Some y /\ In y r.
Proof.
  revert r. induction l as [|a l IH]; intros r; cbn; [intros _ x []|].
  destruct (f a) as [b|] eqn:E; [|discriminate].
  destruct (all_some (map f l)) as [r'|] eqn:Er; [|discriminate].
  intros [= <-] x [->|Hx].
  - exists b. split; [exact E|left; reflexivity].
  - destruct (IH r' eq_refl x Hx) as [y [Hy Hin]]. exists y. split; [exact Hy|right; exact Hin].
Qed.

Lemma cmap_functional (l : list (Z * Z)) c g1 g2 : NoDup (map fst l) -> In (c, g1) l -> In (c, g2) l -> g1 = g2.
Proof.
  intros Hnd H1 H2. pose proof (find_fst_nodup l c g1 Hnd H1) as E1.
  pose proof (find_fst_nodup l c g2 Hnd H2) as E2. congruence.
Qed.

Lemma subset_preserves_all_l : forall F gids unis retain notdef long' lsbs' gl cm,
  let kept := kept_glyphs F gids unis in
  NoDup (map fst (f_cmap F)) ->
  num_output retain kept <= 65535 ->
  hmtx_subset F retain kept = HTable long' lsbs' ->
  glyf_subset F retain notdef kept = Some gl ->
  cmap_subset retain kept (unicode_list F gids unis) = Some cm ->
  (* table shapes *)
  (zlen long' = new_num_h_metrics F retain kept
   /\ zlen long' + zlen lsbs' = num_output retain kept
   /\ zlen gl = num_output retain kept)
  /\ (* every kept glyph g, under its new id g' = gid_map g *)
  (forall g, In g kept ->
     exists g', glyph_map retain kept g = Some g' /\ 0 <= g' < num_output retain kept
       /\ old_of_new retain kept g' = Some g
       (* hmtx *)
       /\ hm_advance long' g' = hm_advance (f_long F) g
       /\ hm_lsb long' lsbs' g' = hm_lsb (f_long F) (f_lsbs F) g
       (* ... on the long-metrics side of the boundary the pair is stored as such *)
       /\ (g' < zlen long' -> exists m, znth long' g' = Some m
             /\ hm_advance (f_long F) g = Some (fst m) /\ hm_lsb (f_long F) (f_lsbs F) g = Some (snd m))
       (* ... on the short tail only the side bearing is stored and the advance is the last long metric's *)
       /\ (zlen long' <= g' ->
             znth lsbs' (g' - zlen long') = hm_lsb (f_long F) (f_lsbs F) g
             /\ hm_advance (f_long F) g = match rev long' with m :: _ => Some (fst m) | [] => None end)
       (* glyf record *)
       /\ ((g <> 0 \/ notdef = true) -> znth gl g' = Some (subset_glyph retain kept (glyph_at F g)))
       /\ (forall cs h, (g <> 0 \/ notdef = true) -> glyph_at F g = GC cs h -> (forall c, In c cs -> In c kept) ->
             exists cs', znth gl g' = Some (GC cs' h) /\ length cs' = length cs
               /\ forall k c, nth_error cs k = Some c ->
                    exists c', nth_error cs' k = Some c' /\ glyph_map retain kept c = Some c'))
  /\ (* every kept code point: the subset answers with the renumbered glyph of the source, and only that *)
  (forall c g, In (c, g) (f_cmap F) -> (In c unis \/ In g gids) ->
     exists g', glyph_map retain kept g = Some g' /\ In (c, g') cm /\ forall x, In (c, x) cm -> x = g')
  /\ (* nothing else is mapped *)
  (forall c x, In (c, x) cm ->
     exists g, In (c, g) (f_cmap F) /\ (In c unis \/ In g gids) /\ glyph_map retain kept g = Some x).
Proof.
  intros F gids unis retain notdef long' lsbs' gl cm kept Hnd Hn Hh Hg Hc.
  pose proof (kept_sorted F gids unis) as Ks. fold kept in Ks.
  assert (Kp : forall x, In x kept -> 0 <= x) by (intros x Hx; eapply kept_nonneg; exact Hx).
  (* HTable forces a non-empty kept set *)
  assert (Hne : exists g0, In g0 kept).
  { unfold hmtx_subset in Hh. destruct (num_output retain kept =? 0) eqn:E0; [discriminate|].
    apply Z.eqb_neq in E0. destruct kept as [|g0 r]; [|exists g0; left; reflexivity].
    exfalso. apply E0. unfold num_output. destruct retain; reflexivity. }
  destruct Hne as [g0 Hg0]. destruct (map_total retain kept g0 Hg0) as [g0' Hg0'].
  destruct (hmtx_preserved_l F retain kept long' lsbs' g0 g0' Ks Kp Hn Hh Hg0') as [_ [_ [Hs1 Hs2]]].
  assert (Hgl : zlen gl = num_output retain kept).
  { destruct (Z.eq_dec g0 0) as [->|Hnz].
    - unfold glyf_subset in Hg. destruct (existsb _ kept); [discriminate|]. injection Hg as <-.
      apply zlen_map_zrange. destruct (map_inverse retain kept Ks Kp 0 g0' Hg0') as [_ [_ Hb]]. lia.
    - destruct (glyph_record_preserved_l F retain notdef kept gl g0 g0' Ks Kp Hg Hg0' (or_introl Hnz)) as [_ H].
      exact H. }
  split; [repeat split; assumption|].
  split; [|split].
  - intros g HgK. destruct (map_total retain kept g HgK) as [g' Hm]. exists g'.
    destruct (map_inverse retain kept Ks Kp g g' Hm) as [_ [Hinv Hb]].
    destruct (hmtx_preserved_l F retain kept long' lsbs' g g' Ks Kp Hn Hh Hm) as [Ha [Hl _]].
    split; [exact Hm|]. split; [exact Hb|]. split; [exact Hinv|]. split; [exact Ha|]. split; [exact Hl|].
    split; [|split; [|split]].
    + intros Hlt. destruct (znth_in_range long' g' ltac:(lia)) as [m Em]. exists m. split; [exact Em|].
      assert (E1 : hm_advance long' g' = Some (fst m)) by (unfold hm_advance; rewrite Em; reflexivity).
      assert (E2 : hm_lsb long' lsbs' g' = Some (snd m)) by (unfold hm_lsb; rewrite Em; reflexivity).
      split; congruence.
    + intros Hge. pose proof (znth_beyond long' g' Hge) as Em.
      assert (E1 : hm_advance long' g' = match rev long' with m :: _ => Some (fst m) | [] => None end)
        by (unfold hm_advance; rewrite Em; reflexivity).
      assert (E2 : hm_lsb long' lsbs' g' = znth lsbs' (g' - zlen long')) by (unfold hm_lsb; rewrite Em; reflexivity).
      split; congruence.
    + intros Hnz. exact (proj1 (glyph_record_preserved_l F retain notdef kept gl g g' Ks Kp Hg Hm Hnz)).
    + intros cs h Hnz Hgc Hall.
      destruct (all_some_total (glyph_map retain kept) cs) as [cs' Hcs'].
      { intros x Hx. apply map_total, Hall, Hx. }
      destruct (subset_glyph_composite retain kept cs h cs' Hcs') as [Hsg [Hlen Hnth]].
      exists cs'. split; [|split; [exact Hlen|exact Hnth]].
      rewrite (proj1 (glyph_record_preserved_l F retain notdef kept gl g g' Ks Kp Hg Hm Hnz)), Hgc, Hsg. reflexivity.
  - intros c g Hin Hreq.
    pose proof (proj2 (unicode_list_spec F gids unis Hnd c g) (conj Hin Hreq)) as Hul.
    unfold cmap_subset in Hc.
    destruct (all_some_map_total _ _ _ Hc (c, g) Hul) as [y [Hy Hyin]]. cbn [fst snd] in Hy.
    destruct (glyph_map retain kept g) as [g'|] eqn:Em; [|discriminate]. injection Hy as <-.
    exists g'. split; [reflexivity|]. split; [exact Hyin|].
    intros x Hx.
    assert (Hc' : cmap_subset retain kept (unicode_list F gids unis) = Some cm) by exact Hc.
    destruct (proj1 (cmap_exact_l F gids unis retain kept cm Hnd Hc' c x) Hx) as [g2 [Hin2 [_ Hm2]]].
    assert (g2 = g) by (eapply cmap_functional; eauto). subst g2. congruence.
  - intros c x Hx. exact (proj1 (cmap_exact_l F gids unis retain kept cm Hnd Hc c x) Hx).
Qed.
