(* C17 — non-vacuity examples for the hypotheses of Props.v, and refutation witnesses *)
From Coq Require Import ZArith List Lia.
From FV Require Import C17.Model C17.Proofs C17.Idempotent.
Import ListNotations.
Open Scope Z_scope.

(* 6 glyphs: .notdef, A (simple), B (composite of A and D), C (empty), D (simple), E (composite of B);
   numberOfHMetrics = 3 of 6, trailing advances equal; chars A..E *)
Definition ex_font : afont :=
  mkFont 6 [GS 10; GS 11; GC [1; 4] 12; GE; GS 14; GC [2] 15]
         true [(500, 1); (600, 2); (700, 3)] [4; 5; 6]
         [(65, 1); (66, 2); (67, 3); (68, 4); (69, 5)] true [] [] None.

(* request: char 'B' only -> .notdef, A, B, D kept; renumbered 0,1,2,3 *)
Example ex_kept : kept_glyphs ex_font [] [66] = [0; 1; 2; 4].
Proof. reflexivity. Qed.
Example ex_map : map (glyph_map false [0; 1; 2; 4]) [0; 1; 2; 3; 4; 5] = [Some 0; Some 1; Some 2; None; Some 3; None].
Proof. reflexivity. Qed.
(* hypotheses of c17_hmtx_preserved hold with a non-trivial trimming: D (old 4, advance 700 through the
   last long metric) follows B (advance 700): the loop trims to 3 long metrics *)
Example ex_hmtx : hmtx_subset ex_font false [0; 1; 2; 4] = HTable [(500, 1); (600, 2); (700, 3)] [5]
  /\ num_output false [0; 1; 2; 4] <= 65535 /\ glyph_map false [0; 1; 2; 4] 4 = Some 3
  /\ hm_advance [(500, 1); (600, 2); (700, 3)] 3 = Some 700 /\ hm_lsb [(500, 1); (600, 2); (700, 3)] [5] 3 = Some 5.
Proof. repeat split; vm_compute; try reflexivity; discriminate. Qed.
(* RETAIN_GIDS: gap at 3 is zero filled, ids kept, 5 output glyphs *)
Example ex_hmtx_retain : hmtx_subset ex_font true [0; 1; 2; 4] = HTable [(500, 1); (600, 2); (700, 3); (0, 0); (700, 5)] [].
Proof. reflexivity. Qed.
(* request E only (by id) under RETAIN_GIDS: trailing gap-free tail 700,700 trimmed *)
Example ex_hmtx_retain2 : kept_glyphs ex_font [5] [] = [0; 1; 2; 4; 5]
  /\ hmtx_subset ex_font true [0; 1; 2; 4; 5] = HTable [(500, 1); (600, 2); (700, 3); (0, 0); (700, 5)] [6].
Proof. split; reflexivity. Qed.
(* c17_cmap_exact / c17_glyph_record_preserved hypotheses *)
Example ex_cmap : cmap_subset false [0; 1; 2; 4] (unicode_list ex_font [] [66]) = Some [(66, 2)]
  /\ NoDup (map fst (f_cmap ex_font)).
Proof. split; [reflexivity|]. cbn. repeat constructor; cbn; intuition discriminate. Qed.
Example ex_glyf : glyf_subset ex_font false false [0; 1; 2; 4] = Some [GE; GS 11; GC [1; 3] 12; GS 14].
Proof. reflexivity. Qed.
Example ex_whole : subset_model ex_font [] [66] 0 =
  Out 4 (Some [GE; GS 11; GC [1; 3] 12; GS 14]) (Some (3, [(500, 1); (600, 2); (700, 3); (700, 5)])) [(66, 2)].
Proof. reflexivity. Qed.
(* c17_closure_component_closed_partial: hypotheses satisfiable *)
Example ex_direct : memz 5 [] = false /\ glyph_at ex_font 5 = GC [2] 15
  /\ fst (clos 70 ex_font 5 ([], 128) 0) = [4; 1; 2; 5].
Proof. repeat split; reflexivity. Qed.
(* hypotheses of c17_closure_component_closed are satisfiable by a font with nested composites *)
Definition ex_rank (g : Z) : Z := if g =? 5 then 2 else if g =? 2 then 1 else 0.
Example ex_closed_hyps :
  (forall g, 0 <= ex_rank g <= 65)
  /\ (forall g cs h c, glyph_at ex_font g = GC cs h -> In c cs -> ex_rank c < ex_rank g)
  /\ (forall g cs h c, glyph_at ex_font g = GC cs h -> In c cs -> 0 <= c < f_n ex_font)
  /\ f_n ex_font <= zlen (view (f_n ex_font) (gsub_set ex_font [5] [])) * 64.
Proof.
  assert (Hg : forall g cs h, glyph_at ex_font g = GC cs h -> (g = 2 /\ cs = [1; 4]) \/ (g = 5 /\ cs = [2])).
  { intros g cs h. unfold glyph_at, znth. destruct (g <? 0); [discriminate|].
    destruct (Z.to_nat g) as [|[|[|[|[|[|k]]]]]] eqn:E; cbn; try discriminate.
    - intros [= <- <-]. left. split; [lia|reflexivity].
    - intros [= <- <-]. right. split; [lia|reflexivity].
    - destruct k; discriminate. }
  repeat split.
  - unfold ex_rank. destruct (g =? 5), (g =? 2); lia.
  - unfold ex_rank. destruct (g =? 5), (g =? 2); lia.
  - intros g cs h c H H0. destruct (Hg _ _ _ H) as [[-> ->]|[-> ->]]; cbn in H0; intuition (subst; reflexivity).
  - destruct (Hg _ _ _ H) as [[-> ->]|[-> ->]]; cbn in H0; intuition (subst; cbn; lia).
  - destruct (Hg _ _ _ H) as [[-> ->]|[-> ->]]; cbn in H0; intuition (subst; cbn; lia).
  - vm_compute. discriminate.
Qed.

(* subset to everything *)
Example ex_all : subset_model ex_font [0; 1; 2; 3; 4; 5] [65; 66; 67; 68; 69] 64 =
  Out 6 (Some [GS 10; GS 11; GC [1; 4] 12; GE; GS 14; GC [2] 15])
      (Some (3, [(500, 1); (600, 2); (700, 3); (700, 4); (700, 5); (700, 6)]))
      [(65, 1); (66, 2); (67, 3); (68, 4); (69, 5)].
Proof. reflexivity. Qed.

(* panics of the real code are outcomes of the model: a character mapped beyond the font *)
Example ex_panic_cmap_beyond_font :
  subset_model (mkFont 2 [GS 1; GS 2] true [(500, 0); (500, 0)] [] [(65, 7)] true [] [] None) [] [65] 0 = Panic.
Proof. reflexivity. Qed.

(* F-7 (operation budget): root with 130 composite children, each with its own leaf; request the root:
   budget = |{.notdef, root}| * 64 = 128 -> the leaves of the later children are dropped and those kept
   composites are written empty *)
Definition wide_font (w : nat) : afont :=
  let W := Z.of_nat w in
  mkFont (2 + 2 * W)
         (GS 1 :: GC (map (fun i => 2 + Z.of_nat i) (seq 0 w)) 7
            :: map (fun i => GC [2 + W + Z.of_nat i] 8) (seq 0 w) ++ map (fun i => GS (Z.of_nat i)) (seq 0 w))
         true [(600, 0)] (map (fun _ => 0) (seq 0 (1 + 2 * w))) [(65, 1)] true [] [] None.
Example closure_budget_truncation_refuted :
  let F := wide_font 130 in
  let kept := kept_glyphs F [1] [] in
  In 100 kept /\ glyph_at F 100 = GC [230] 8 /\ ~ In 230 kept.
Proof.
  cbv zeta. assert (E : memz 230 (kept_glyphs (wide_font 130) [1] []) = false) by (vm_compute; reflexivity).
  split; [apply memz_In; vm_compute; reflexivity|]. split; [vm_compute; reflexivity|].
  intros H. apply memz_In in H. congruence.
Qed.

(* c17_subset_idempotent: the hypotheses hold for ex_font / request 'B', and the second run keeps 0..3 *)
Definition closedb (F : afont) (K : list Z) : bool :=
  forallb (fun g => match glyph_at F g with GC cs _ => forallb (fun c => memz c K) cs | _ => true end) K.
Definition ex_font' : afont :=
  subset_afont [0; 1; 2; 4] [GE; GS 11; GC [1; 3] 12; GS 14] [(500, 1); (600, 2); (700, 3)] [5] [(66, 2)].
Example ex_idem :
  f_colr ex_font = None /\ f_uvs ex_font = []
  /\ glyf_subset ex_font false false (kept_glyphs ex_font [] [66]) = Some (f_glyphs ex_font')
  /\ cmap_subset false (kept_glyphs ex_font [] [66]) (unicode_list ex_font [] [66]) = Some (f_cmap ex_font')
  /\ (forall cs h, glyph_at ex_font 0 <> GC cs h)
  /\ closedb ex_font (kept_glyphs ex_font [] [66]) = true
  /\ closedb ex_font' (kept_glyphs ex_font' (renumber_request [0; 1; 2; 4] []) [66]) = true
  /\ kept_glyphs ex_font' (renumber_request [0; 1; 2; 4] []) [66] = [0; 1; 2; 3]
  /\ subset_model ex_font' [] [66] 0 =
       Out 4 (Some [GE; GS 11; GC [1; 3] 12; GS 14]) (Some (3, [(500, 1); (600, 2); (700, 3); (700, 5)])) [(66, 2)].
Proof. repeat split; try reflexivity. intros cs h; vm_compute; discriminate. Qed.

(* HVAR index-map repacking: two ItemVariationData subtables; the kept glyphs use rows 0,1,2 of subtable 0 and
   one row of subtable 1 (the shape on which "bit count of the LAST subtable" is wrong): inner bit count 2,
   entry format 0x01, entries (0,0) (0,1) (1,0) (0,2) packed as 0 1 4 2, and every entry reads back *)
Definition ex_mvar : mvar :=
  mkMvar 2 [Some (6, [(0, 0); (0, 5); (1, 3); (0, 9); (0, 7); (1, 1)]); None; None].
Example ex_indexmap :
  mvar_subset ex_mvar false [0; 1; 2; 4] = Some [Some (1, 4, [0; 1; 4; 2]); None; None]
  /\ map (im_unpack 2) [0; 1; 4; 2] = [(0, 0); (0, 1); (1, 0); (0, 2)].
Proof. split; reflexivity. Qed.
Example ex_indexmap2 :
  (* glyphs 0,1,3,4 -> rows {0,5,9,7} of subtable 0 only ... plus glyph 5 -> one row of subtable 1 *)
  mvar_subset ex_mvar false [0; 1; 3; 4; 5] = Some [Some (1, 5, [0; 1; 3; 2; 4]); None; None]
  /\ map (im_unpack 2) [0; 1; 3; 2; 4] = [(0, 0); (0, 1); (0, 3); (0, 2); (1, 0)].
Proof. split; reflexivity. Qed.
(* with too few inner bits the entry (0,2) is read back as (1,0): the hypothesis of the round trip is needed *)
Example indexmap_too_narrow_refuted : im_unpack 1 (im_pack 1 0 2) = (1, 0).
Proof. reflexivity. Qed.

(* gvar: 5 glyphs, .notdef skipped, glyph 3 has no data, glyph 2 has ODD length and is padded in the short
   format (stored = offset / 2); under RETAIN_GIDS with glyph 2 dropped the gap repeats the running offset *)
Example ex_gvar : gvar_subset [10; 20; 31; 0; 40] false false [0; 1; 2; 3; 4] = (0, [0; 0; 10; 26; 26; 46])
  /\ gvar_subset [10; 20; 31; 0; 40] true true [0; 1; 4] = (0, [0; 5; 15; 15; 15; 35])
  /\ (forall g, 0 <= gv_len [10; 20; 31; 0; 40] g)
  /\ gv_long [10; 20; 31; 0; 40] false false [0; 1; 2; 3; 4] = false.
Proof.
  repeat split; try reflexivity.
  intros g. unfold gv_len, znth. destruct (g <? 0); [lia|]. destruct (Z.to_nat g) as [|[|[|[|[|k]]]]]; cbn; try lia. destruct k; cbn; lia.
Qed.
(* above 0x1FFFE of padded data the long format is chosen and offsets are stored as they are (no padding);
   the witness of the old defect (high-gid glyph with a lot of data, rank renumbering) now gets the long format *)
Example ex_gvar_long : gvar_subset [0; 100000; 100001] true true [0; 1; 2] = (1, [0; 0; 100000; 200001])
  /\ gvar_subset [0; 2; 200000] false false [0; 2] = (1, [0; 0; 200000]).
Proof. split; reflexivity. Qed.
