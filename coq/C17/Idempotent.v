(* C17 — subsetting a subset again with the same request keeps every glyph and renumbers by the identity
   (model level, rank renumbering, fonts without COLR / UVS closure), provided neither run truncated its
   component closure (c17_closure_component_closed gives that under its hypotheses). *)
From Coq Require Import ZArith List Bool Lia Sorted.
From FV Require Import C17.Model C17.Proofs.
Import ListNotations.
Open Scope Z_scope.

(* the subset as an abstract font again *)
Definition subset_afont (kept : list Z) (gl : list glyph) (long : list (Z * Z)) (lsbs : list Z)
           (cm : list (Z * Z)) : afont :=
  mkFont (num_output false kept) gl true long lsbs cm true [] [] None.

(* "the same request": same characters, requested ids renumbered (ids outside the font disappear) *)
Definition renumber_request (kept gids : list Z) : list Z :=
  flat_map (fun g => match glyph_map false kept g with Some i => [i] | None => [] end) gids.

Lemma all_some_total {A B} (f : A -> option B) l :
  (forall x, In x l -> exists y, f x = Some y) -> exists r, all_some (map f l) = Some r.
Proof.
  induction l as [|x l IH]; intros H; cbn; [eauto|].
  destruct (H x (or_introl eq_refl)) as [y ->].
  destruct IH as [r ->]; [intros z Hz; apply H; right; exact Hz|]. eauto.
Qed.

Lemma sorted_head_zero l : StronglySorted Z.lt l -> (forall x, In x l -> 0 <= x) -> In 0 l ->
  exists r, l = 0 :: r.
Proof.
  intros Hs Hp H0. destruct l as [|a r]; [destruct H0|]. exists r. f_equal.
  inversion Hs as [|? ? _ Hf]; subst. rewrite Forall_forall in Hf.
  destruct H0 as [->|H0]; [reflexivity|]. specialize (Hf 0 H0). specialize (Hp a (or_introl eq_refl)). lia.
Qed.

Lemma In_zlen_pos {A} (x : A) l : In x l -> 0 < zlen l.
Proof. destruct l; [intros []|intros _; unfold zlen; cbn [length]; lia]. Qed.

Lemma gsub0_In F gids ul r : In r (gsub0 F gids ul) -> In r gids \/ In r (map snd ul).
Proof.
  unfold gsub0. intros H. apply in_app_or in H. destruct H as [H|H]; [|right; exact H].
  destruct gids; [destruct H|]. apply filter_In in H. left. tauto.
Qed.

Section Idem.
Variable F : afont.
Variables gids unis : list Z.
Variable notdef : bool.
Variables (gl : list glyph) (long' : list (Z * Z)) (lsbs' : list Z) (cm : list (Z * Z)).

Let K := kept_glyphs F gids unis.
Let F' := subset_afont K gl long' lsbs' cm.
Let gids' := renumber_request K gids.
Let K' := kept_glyphs F' gids' unis.

Hypothesis no_colr : f_colr F = None.
Hypothesis no_uvs : f_uvs F = [].
Hypothesis cmap_fun : NoDup (map fst (f_cmap F)).
Hypothesis cmap_fun' : NoDup (map fst cm).
Hypothesis nonempty : 0 < f_n F.
Hypothesis Hgl : glyf_subset F false notdef K = Some gl.
Hypothesis Hcm : cmap_subset false K (unicode_list F gids unis) = Some cm.
(* the emptied .notdef must not be the only way to reach some glyph *)
Hypothesis notdef_ok : notdef = true \/ forall cs h, glyph_at F 0 <> GC cs h.
(* neither run truncated its closure *)
Hypothesis closed1 : forall g cs h c, In g K -> glyph_at F g = GC cs h -> In c cs -> In c K.
Hypothesis closed2 : forall i cs h c, In i K' -> glyph_at F' i = GC cs h -> In c cs -> In c K'.

Let Ks : StronglySorted Z.lt K := kept_sorted F gids unis.
Let Kp : forall x, In x K -> 0 <= x := kept_nonneg F gids unis.

Lemma fn' : f_n F' = zlen K.
Proof. reflexivity. Qed.

Lemma zero_in_K : In 0 K.
Proof.
  pose proof (closure_contains_requested_l F gids unis cmap_fun) as H. cbv zeta in H.
  destruct H as [H0 _]. apply H0, nonempty.
Qed.

Lemma ccr' : (0 < f_n F' -> In 0 K')
  /\ (forall g, In g gids' -> 0 <= g < f_n F' -> In g K')
  /\ (forall c g, In c unis -> In (c, g) cm -> 0 <= g < f_n F' -> In g K').
Proof.
  pose proof (closure_contains_requested_l F' gids' unis cmap_fun') as H. cbv zeta in H.
  destruct H as [H0 [H1 [H2 _]]]. repeat split; assumption.
Qed.

Lemma map_zero : glyph_map false K 0 = Some 0.
Proof.
  destruct (sorted_head_zero K Ks Kp zero_in_K) as [r E]. unfold glyph_map. rewrite E. cbn. reflexivity.
Qed.

Lemma new_in_range g i : glyph_map false K g = Some i -> 0 <= i < f_n F'.
Proof. intros H. destruct (map_inverse false K Ks Kp g i H) as [_ [_ Hb]]. exact Hb. Qed.

Lemma requested_id_again g i : In g gids -> glyph_map false K g = Some i -> In i K'.
Proof.
  intros Hg Hm. apply (proj1 (proj2 ccr')).
  - unfold gids', renumber_request. apply in_flat_map. exists g. split; [exact Hg|]. rewrite Hm. left. reflexivity.
  - apply (new_in_range g), Hm.
Qed.

Definition S' (g : Z) : Prop := In g K /\ exists i, glyph_map false K g = Some i /\ In i K'.

Lemma S'_closed : forall g cs h c, S' g -> glyph_at F g = GC cs h -> In c cs -> S' c.
Proof.
  intros g cs h c [HgK [i [Hm Hi]]] Hg Hc.
  assert (HcK : In c K) by exact (closed1 g cs h c HgK Hg Hc).
  split; [exact HcK|]. destruct (map_total false K c HcK) as [ic Hic]. exists ic. split; [exact Hic|].
  assert (Hne : g <> 0 \/ notdef = true).
  { destruct notdef_ok as [->|Hn]; [right; reflexivity|]. left. intros ->. eapply Hn, Hg. }
  destruct (glyph_record_preserved_l F false notdef K gl g i Ks Kp Hgl Hm Hne) as [Hrec _].
  destruct (all_some_total (glyph_map false K) cs) as [cs' Hcs'].
  { intros x Hx. apply map_total. exact (closed1 g cs h x HgK Hg Hx). }
  destruct (subset_glyph_composite false K cs h cs' Hcs') as [Hsg [_ Hnth]].
  rewrite Hg, Hsg in Hrec.
  destruct (In_nth_error cs c Hc) as [k Hk]. destruct (Hnth k c Hk) as [c' [Hk' Hc']].
  assert (c' = ic) by congruence. subst c'.
  eapply (closed2 i cs' h ic Hi).
  - unfold glyph_at. cbn [f_glyphs F' subset_afont]. rewrite Hrec. reflexivity.
  - eapply nth_error_In, Hk'.
Qed.

Lemma S'_roots : forall r, In r (closure_roots F gids unis) -> S' r.
Proof.
  intros r Hr. pose proof (closure_roots_kept F gids unis r Hr) as HrK. split; [exact HrK|].
  destruct (map_total false K r HrK) as [i Hi]. exists i. split; [exact Hi|].
  unfold closure_roots in Hr. apply In_view in Hr. destruct Hr as [Hb Hr].
  unfold colred_set in Hr. rewrite no_colr in Hr. unfold gsub_set in Hr.
  destruct Hr as [<-|Hr].
  - (* .notdef *)
    rewrite map_zero in Hi. injection Hi as <-.
    apply (proj1 ccr'). rewrite fn'.
    exact (In_zlen_pos 0 K zero_in_K).
  - apply in_app_or in Hr. destruct Hr as [Hr|Hr].
    + apply gsub0_In in Hr. destruct Hr as [Hr|Hr].
      * (* requested id *)
        eapply requested_id_again; eauto.
      * (* glyph of a retained character *)
        apply in_map_iff in Hr. destruct Hr as [[c r'] [E Hp]]. cbn in E. subst r'.
        pose proof (proj1 (unicode_list_spec F gids unis cmap_fun c r) Hp) as [Hin Hreq].
        destruct Hreq as [Hcu|Hrg]; [|eapply requested_id_again; eauto].
        assert (Hcm' : In (c, i) cm).
        { apply (all_some_map_In _ _ _ Hcm). exists (c, r). split; [exact Hp|]. cbn [fst snd]. rewrite Hi. reflexivity. }
        apply (proj2 (proj2 ccr')) with (c := c); [exact Hcu|exact Hcm'|].
        apply (new_in_range r), Hi.
    + (* UVS closure: empty *)
      unfold uvs_closure in Hr. rewrite no_uvs in Hr. destruct Hr.
Qed.

Lemma subset_idempotent_l :
  K' = zrange (f_n F')
  /\ forall i, 0 <= i < f_n F' -> glyph_map false K' i = Some i.
Proof.
  assert (HK' : K' = zrange (f_n F')).
  { unfold K', kept_glyphs. unfold view at 1. apply filter_all. intros i Hi. apply In_zrange in Hi.
    rewrite fn' in Hi.
    destruct (map_surjective K Ks i Hi) as [g [HgK [_ Hm]]].
    pose proof (closure_minimal_l F gids unis S' S'_closed S'_roots g HgK) as [_ [i' [Hm' Hi']]].
    assert (i' = i) by congruence. subst i'.
    unfold K', kept_glyphs in Hi'. unfold view at 1 in Hi'. apply filter_In in Hi'. tauto. }
  split; [exact HK'|]. intros i Hi. rewrite HK'. apply index_of_zrange, Hi.
Qed.
End Idem.
