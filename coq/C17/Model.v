(* C17 — executable model of the klippa subsetting plan and of the per-glyph tables of a TrueType font
   (klippa/src/lib.rs Plan::new, populate_unicodes_to_retain, populate_gids_to_retain,
   glyf_closure_glyphs, remove_invalid_gids, create_old_gid_to_new_gid_map; hmtx.rs; maxp.rs;
   glyf_loca.rs at glyph-record level; cmap.rs at the level of the (char, new gid) list).
   Hand-written from the source, statement by statement.  No proofs in this file.
   Sets (IntSet) are lists used through membership; "iterate in ascending order over the valid ids"
   is [view n s] = the ids 0..n-1 that are members.  Panics (unwrap on None, usize underflow under
   overflow-checks) are the explicit outcome [Panic]. *)
From Coq Require Import ZArith List Bool.
Import ListNotations.
Open Scope Z_scope.

(* ---- abstract TrueType font (what harness/src/bin/c17.rs dumps) ---- *)
Inductive glyph :=
| GE                              (* empty: loca[g] = loca[g+1] *)
| GS (h : Z)                      (* simple glyph, >= 1 contour; h = hash of bbox/contours/points *)
| GS0                             (* simple glyph header with zero contours *)
| GC (cs : list Z) (h : Z)        (* composite: component gids, hash of everything else *)
| GB.                             (* unreadable (loca.get_glyf fails) *)

Record afont := mkFont {
  f_n : Z;                        (* get_font_num_glyphs = max (loca.len, maxp.numGlyphs) *)
  f_glyphs : list glyph;          (* f_n entries *)
  f_has_hmtx : bool;
  f_long : list (Z * Z);          (* hmtx long metrics (advance, lsb) *)
  f_lsbs : list Z;                (* hmtx trailing side bearings *)
  f_cmap : list (Z * Z);          (* skrifa charmap().mappings(), strictly ascending by char *)
  f_cmap_ok : bool;               (* encoding-record prerequisites of klippa cmap::subset hold *)
  f_uvs : list (Z * Z * Z);       (* cmap14 non-default UVS (selector, char, gid) *)
  f_selectors : list Z;           (* cmap14 selectors *)
  f_colr : option (list (list Z)) (* COLR closure oracle: per glyph, the glyphs its colour glyph reaches *)
}.

Definition memz (x : Z) (l : list Z) : bool := existsb (Z.eqb x) l.
Definition zrange (n : Z) : list Z := map Z.of_nat (seq 0 (Z.to_nat n)).
Definition znth {A} (l : list A) (i : Z) : option A :=
  if i <? 0 then None else nth_error l (Z.to_nat i).
Definition zlen {A} (l : list A) : Z := Z.of_nat (length l).

(* ascending iteration over the members that are valid glyph ids: IntSet::iter after remove_invalid_gids *)
Definition view (n : Z) (s : list Z) : list Z := filter (fun g => memz g s) (zrange n).

(* loca.get_glyf(gid).ok().flatten(): ids beyond the font are unreadable *)
Definition glyph_at (F : afont) (g : Z) : glyph :=
  match znth (f_glyphs F) g with Some x => x | None => GB end.

(* ---- read-fonts hmtx lookups (tables/hmtx.rs advance / side_bearing) ---- *)
Definition hm_advance (long : list (Z * Z)) (g : Z) : option Z :=
  match znth long g with
  | Some m => Some (fst m)
  | None => match rev long with m :: _ => Some (fst m) | [] => None end
  end.
Definition hm_lsb (long : list (Z * Z)) (lsbs : list Z) (g : Z) : option Z :=
  match znth long g with
  | Some m => Some (snd m)
  | None => znth lsbs (g - zlen long)
  end.

(* ---- Plan::populate_unicodes_to_retain ---- *)
Definition cmap_lookup (F : afont) (c : Z) : option Z :=
  match find (fun p => fst p =? c) (f_cmap F) with Some p => Some (snd p) | None => None end.

Definition unicode_list (F : afont) (gids unis : list Z) : list (Z * Z) :=
  if (match gids with [] => true | _ => false end) && (zlen unis <? f_n F) then
    (* for cp in input_unicodes: charmap.map(cp) *)
    flat_map (fun c => match cmap_lookup F c with Some g => [(c, g)] | None => [] end) unis
  else
    (* scan of the whole cmap: keep (cp, gid) if the gid or the char was requested *)
    filter (fun p => memz (snd p) gids || memz (fst p) unis) (f_cmap F).

(* plan.unicodes: retained chars + requested variation selectors present in cmap14 *)
Definition plan_unicodes (F : afont) (ul : list (Z * Z)) (unis : list Z) : list Z :=
  map fst ul ++ filter (fun s => memz s unis) (f_selectors F).

(* glyphset_gsub before the closures *)
Definition gsub0 (F : afont) (gids : list Z) (ul : list (Z * Z)) : list Z :=
  (if (match gids with [] => true | _ => false end) then [] else filter (fun g => g <? f_n F) gids)
  ++ map snd ul.

(* ---- Plan::populate_gids_to_retain ---- *)
(* cmap.closure_glyphs: non-default UVS glyphs whose selector and base char are retained *)
Definition uvs_closure (F : afont) (us : list Z) : list Z :=
  map (fun t => snd t)
      (filter (fun t => memz (fst (fst t)) us && memz (snd (fst t)) us) (f_uvs F)).

Definition gsub_set (F : afont) (gids unis : list Z) : list Z :=
  let ul := unicode_list F gids unis in
  0 :: gsub0 F gids ul ++ uvs_closure F (plan_unicodes F ul unis).

(* colr_closure: union of the reach of every glyph of glyphset_gsub (oracle), or a plain copy *)
Definition colred_set (F : afont) (gsub : list Z) : list Z :=
  match f_colr F with
  | None => gsub
  | Some reach => gsub ++ flat_map (fun g => match znth reach g with Some l => l | None => [] end)
                                   (view (f_n F) gsub)
  end.

(* glyf_closure_glyphs (lib.rs) — [fuel] only makes the recursion structural: the depth test stops
   the descent after 66 nested calls, [closure_fuel] = 70 is never exhausted *)
Fixpoint clos (fuel : nat) (F : afont) (gid : Z) (st : list Z * Z) (depth : Z) {struct fuel}
  : list Z * Z :=
  match fuel with
  | O => st
  | S fuel' =>
      let '(set, op) := st in
      if memz gid set then (set, op) else          (* if gids_to_retain.contains(gid) return *)
      let set := gid :: set in                      (* gids_to_retain.insert(gid) *)
      if 64 <? depth then (set, op) else            (* if depth > MAX_NESTING_LEVEL return *)
      let depth' := depth + 1 in
      let op := op - 1 in                           (* operation_count - 1 *)
      if op <? 0 then (set, op) else
      match glyph_at F gid with
      | GC cs _ => fold_left (fun st c => clos fuel' F c st depth') cs (set, op)
      | _ => (set, op)
      end
  end.
Definition closure_fuel : nat := 70.

(* for gid in glyphset_colred.iter() { glyf_closure_glyphs(.., gid, &mut glyphset, operation_count, 0) }
   — the returned count is discarded: every root starts with the full budget *)
Definition glyf_closure (F : afont) (roots : list Z) (budget : Z) : list Z :=
  fold_left (fun set g => fst (clos closure_fuel F g (set, budget) 0)) roots [].

Definition kept_glyphs (F : afont) (gids unis : list Z) : list Z :=
  let n := f_n F in
  let gsub := gsub_set F gids unis in
  let colred := colred_set F gsub in
  let budget := zlen (view n gsub) * 64 in
  view n (glyf_closure F (view n colred) budget).

(* ---- Plan::create_old_gid_to_new_gid_map ---- *)
Fixpoint index_of (g : Z) (l : list Z) (i : Z) : option Z :=
  match l with
  | [] => None
  | x :: r => if x =? g then Some i else index_of g r (i + 1)
  end.

Definition glyph_map (retain : bool) (kept : list Z) (g : Z) : option Z :=
  if retain then (if memz g kept then Some g else None) else index_of g kept 0.

Definition old_of_new (retain : bool) (kept : list Z) (i : Z) : option Z :=
  if retain then (if memz i kept then Some i else None) else znth kept i.

Definition num_output (retain : bool) (kept : list Z) : Z :=
  if retain then match rev kept with m :: _ => m + 1 | [] => 0 end else zlen kept.

(* ---- hmtx.rs ---- *)
Definition adv_new (F : afont) (retain : bool) (kept : list Z) (i : Z) : Z :=   (* get_new_gid_advance *)
  match old_of_new retain kept i with
  | None => 0
  | Some old => match hm_advance (f_long F) old with Some a => a | None => 0 end
  end.

(* while num_long_metrics > 1 { if advance(num-2) != last_advance break; num -= 1 } *)
Fixpoint trim (advn : Z -> Z) (last : Z) (num : nat) : nat :=
  match num with
  | S (S m as p) => if advn (Z.of_nat m) =? last then trim advn last p else num
  | _ => num
  end.

Definition new_num_h_metrics (F : afont) (retain : bool) (kept : list Z) : Z :=
  let num := Z.min (num_output retain kept) 65535 in
  let last := adv_new F retain kept (num - 1) in
  Z.of_nat (trim (adv_new F retain kept) last (Z.to_nat num)).

Inductive hmtx_out := HPanic | HDropped | HTable (long : list (Z * Z)) (lsbs : list Z).

Definition hmtx_subset (F : afont) (retain : bool) (kept : list Z) : hmtx_out :=
  let nout := num_output retain kept in
  if nout =? 0 then HPanic                                   (* num_output_glyphs - 1 underflows *)
  else if zlen (f_long F) + zlen (f_lsbs F) <=? nout - 1 then HDropped   (* Err: table silently dropped *)
  else
    let nn := new_num_h_metrics F retain kept in
    (* the unwraps in the copy loop *)
    if existsb (fun old => match hm_lsb (f_long F) (f_lsbs F) old with None => true | Some _ => false end) kept
       || (match f_long F with [] => true | _ => false end)
    then HPanic
    else
      let adv o := match hm_advance (f_long F) o with Some a => a | None => 0 end in
      let lsb o := match hm_lsb (f_long F) (f_lsbs F) o with Some a => a | None => 0 end in
      HTable
        (map (fun i => match old_of_new retain kept i with
                       | Some o => (adv o, lsb o) | None => (0, 0) end) (zrange nn))
        (map (fun i => match old_of_new retain kept (nn + i) with
                       | Some o => lsb o | None => 0 end) (zrange (nout - nn))).

(* ---- glyf_loca.rs at record level ---- *)
Fixpoint all_some {A} (l : list (option A)) : option (list A) :=
  match l with
  | [] => Some []
  | None :: _ => None
  | Some x :: r => match all_some r with Some r' => Some (x :: r') | None => None end
  end.

Definition subset_glyph (retain : bool) (kept : list Z) (g : glyph) : glyph :=
  match g with
  | GE => GE
  | GS0 => GE                                   (* no contour: subset_simple_glyph returns an empty Vec *)
  | GS h => GS h
  | GC cs h => match all_some (map (glyph_map retain kept) cs) with
               | Some cs' => GC cs' h
               | None => GE                     (* unmapped component: the whole glyph is written empty *)
               end
  | GB => GB
  end.

Definition glyf_subset (F : afont) (retain notdef : bool) (kept : list Z) : option (list glyph) :=
  if existsb (fun old => match glyph_at F old with GB => true | _ => false end) kept then None
  else Some (map (fun i => match old_of_new retain kept i with
                           | None => GE
                           | Some old => if (old =? 0) && (i =? 0) && negb notdef then GE
                                         else subset_glyph retain kept (glyph_at F old)
                           end) (zrange (num_output retain kept))).

(* ---- the (char, new gid) list: Plan::new rewrites unicode_to_new_gid_list through glyph_map ---- *)
Definition cmap_subset (retain : bool) (kept : list Z) (ul : list (Z * Z)) : option (list (Z * Z)) :=
  all_some (map (fun p => match glyph_map retain kept (snd p) with
                          | Some g' => Some (fst p, g') | None => None end) ul).

(* ---- whole subset at the level of observations ---- *)
Inductive outcome :=
| Panic
| Out (num_glyphs : Z) (glyphs : option (list glyph)) (hmtx : option (Z * list (Z * Z)))
      (cmap : list (Z * Z)).

(* what read-fonts says about every glyph of an hmtx table *)
Definition hmtx_view (long : list (Z * Z)) (lsbs : list Z) (n : Z) : list (Z * Z) :=
  map (fun g => (match hm_advance long g with Some a => a | None => 65535 end,
                 match hm_lsb long lsbs g with Some a => a | None => -32768 end)) (zrange n).

Definition flag_retain (flags : Z) : bool := Z.testbit flags 1.
Definition flag_notdef (flags : Z) : bool := Z.testbit flags 6.

Definition subset_model (F : afont) (gids unis : list Z) (flags : Z) : outcome :=
  let retain := flag_retain flags in
  let kept := kept_glyphs F gids unis in
  let ul := unicode_list F gids unis in
  match cmap_subset retain kept ul with
  | None => Panic                                  (* glyph_map.get(&old_gid).unwrap() in Plan::new *)
  | Some cm =>
      let nout := Z.min (num_output retain kept) 65535 in     (* maxp.numGlyphs *)
      let gl := glyf_subset F retain (flag_notdef flags) kept in
      let cm' := if f_cmap_ok F then cm else [] in
      if f_has_hmtx F then
        match hmtx_subset F retain kept with
        | HPanic => Panic
        | HDropped => Out nout gl None cm'
        | HTable long lsbs => Out nout gl (Some (zlen long, hmtx_view long lsbs nout)) cm'
        end
      else Out nout gl None cm'
  end.

(* ---- HVAR / VVAR delta-set index maps (klippa/src/hvar.rs IndexMapSubsetPlan::{new,remap},
        HvarVvarSubsetPlan::new, serialize_index_maps; klippa/src/variations.rs DeltaSetIndexMap::subset) ---- *)
(* one table: number of ItemVariationData subtables and, per index map (HVAR: advance, lsb, rsb;
   VVAR: advance, tsb, bsb, vorg), None = null offset, or (outer bit count of the original entry format,
   (outer, inner) of every glyph 0..n-1 as DeltaSetIndexMap::get returns it) *)
Record mvar := mkMvar {
  mv_ivd_count : Z;
  mv_maps : list (option (Z * list (Z * Z)))
}.

Definition bit_len (v : Z) : Z := if v <=? 0 then 0 else Z.log2 v + 1.   (* 32 - leading_zeros *)

(* IntSet / sorted IncBiMap as strictly ascending lists *)
Fixpoint zinsert (x : Z) (l : list Z) : list Z :=
  match l with
  | [] => [x]
  | y :: r => if x <? y then x :: l else if x =? y then l else y :: zinsert x r
  end.
Fixpoint set_nth {A} (l : list A) (k : nat) (f : A -> A) : list A :=
  match l, k with
  | [], _ => []
  | x :: r, O => f x :: r
  | x :: r, S k' => x :: set_nth r k' f
  end.

(* the value an index map gives an old glyph id (implicit identity when the map is absent) *)
Definition im_val (m : option (Z * list (Z * Z))) (old : Z) : Z * Z :=
  match m with
  | Some (_, tbl) => match znth tbl old with Some v => v | None => (0, 0) end
  | None => (Z.shiftr old 16, Z.land old 65535)
  end.

Record im_plan := mkPlan { ip_map_count : Z; ip_max_inners : list Z; ip_obc : Z }.

Definition zz_eqb (a b : Z * Z) : bool := (fst a =? fst b) && (snd a =? snd b).

(* map_count - 1: new gid of the first element of the maximal trailing run of equal values *)
Fixpoint trailing_run (m : option (Z * list (Z * Z))) (rev_n2o : list (Z * Z)) (last_gid : Z)
         (last_val : Z * Z) : Z :=
  match rev_n2o with
  | [] => last_gid
  | (g, old) :: r => if zz_eqb (im_val m old) last_val then trailing_run m r g last_val else last_gid
  end.

(* IndexMapSubsetPlan::new, second loop.  State: outers seen (a set), max old inner per subtable (of this
   plan), one inner set per ItemVariationData (shared by all plans) *)
Fixpoint collect_used (m : option (Z * list (Z * Z))) (nvd : Z) (n2o : list (Z * Z)) (map_count : Z)
         (st : list Z * list Z * list (list Z)) : list Z * list Z * list (list Z) :=
  match n2o with
  | [] => st
  | (g, old) :: r =>
      if map_count <=? g then st else                     (* break *)
      let '(o, i) := im_val m old in
      if nvd <=? o then st else                           (* outer >= max_inners.len(): break *)
      let '(outers, maxs, sets) := st in
      collect_used m nvd r map_count
        (zinsert o outers,
         set_nth maxs (Z.to_nat o) (fun x => Z.max x i),
         set_nth sets (Z.to_nat o) (zinsert i))
  end.

(* IndexMapSubsetPlan::new.  None = panic (inner_sets[0] with no subtable at all) *)
Definition plan_new (m : option (Z * list (Z * Z))) (bypass_empty : bool) (nvd : Z) (n2o : list (Z * Z))
           (outers : list Z) (sets : list (list Z)) : option (im_plan * list Z * list (list Z)) :=
  match m, bypass_empty with
  | None, true => Some (mkPlan 0 [] 0, outers, sets)
  | _, _ =>
      let obc := match m with Some (b, _) => b | None => 6 end in
      let maxs0 := map (fun _ => 0) (zrange nvd) in
      match rev n2o with
      | [] => Some (mkPlan 0 maxs0 obc, outers, sets)
      | (g, old) :: r =>
          let map_count := trailing_run m r g (im_val m old) + 1 in
          match m with
          | None =>
              if nvd <=? 0 then None else
              Some (mkPlan map_count (set_nth maxs0 0 (fun _ => Z.land old 65535)) obc,
                    zinsert 0 outers,
                    set_nth sets 0 (fun s => fold_left (fun s p => zinsert (Z.land (snd p) 65535) s) n2o s))
          | Some _ =>
              let '(outers', maxs, sets') := collect_used m nvd n2o map_count (outers, maxs0, sets) in
              Some (mkPlan map_count maxs obc, outers', sets')
          end
      end
  end.

(* the plans of the maps after the first (bypass_empty = true) *)
Fixpoint plans_new (ms : list (option (Z * list (Z * Z)))) (nvd : Z) (n2o : list (Z * Z))
         (outers : list Z) (sets : list (list Z)) : option (list im_plan * list Z * list (list Z)) :=
  match ms with
  | [] => Some ([], outers, sets)
  | m :: r =>
      match plan_new m true nvd n2o outers sets with
      | None => None
      | Some (p, outers', sets') =>
          match plans_new r nvd n2o outers' sets' with
          | None => None
          | Some (ps, o2, s2) => Some (p :: ps, o2, s2)
          end
      end
  end.

(* IndexMapSubsetPlan::remap, first loop: inner bit count = max over the subtables of the bits of the NEW
   index of the plan's largest old inner index (at least 1) *)
Definition inner_bit_count (p : im_plan) (inner_maps : list (list Z)) : Z :=
  fold_left (fun acc mi =>
               match snd mi with
               | [] => acc
               | _ => if fst mi =? 0 then acc
                      else Z.max (bit_len (match index_of (fst mi) (snd mi) 0 with Some k => k | None => 0 end)) acc
               end)
            (combine (ip_max_inners p) inner_maps) 1.

(* IndexMapSubsetPlan::remap, second loop: new gid -> (new outer, new inner); None = unwrap on None *)
Definition remap_entries (m : option (Z * list (Z * Z))) (p : im_plan) (outers : list Z)
           (inner_maps : list (list Z)) (n2o : list (Z * Z)) : option (list (Z * (Z * Z))) :=
  all_some
    (flat_map (fun ge =>
                 if ip_map_count p <=? fst ge then [] else
                 let v := im_val m (snd ge) in
                 match znth inner_maps (fst v) with
                 | None => []                                          (* continue *)
                 | Some imap =>
                     [match index_of (fst v) outers 0, index_of (snd v) imap 0 with
                      | Some o', Some i' => Some (fst ge, (o', i'))
                      | _, _ => None
                      end]
                 end) n2o).

(* pack / unpack of one entry (unpack = read-fonts DeltaSetIndexMap::get) *)
Definition im_pack (ibc o i : Z) : Z := Z.lor (Z.shiftl o ibc) i.
Definition im_unpack (ibc v : Z) : Z * Z := (Z.shiftr v ibc, Z.land v (2 ^ ibc - 1)).

(* DeltaSetIndexMap::subset.  Some None = no map written (identity plan);
   Some (Some (entry format byte, mapCount, raw entry values)); None = Err (sanity check) *)
Definition im_serialize (p : im_plan) (ibc : Z) (entries : list (Z * (Z * Z)))
  : option (option (Z * Z * list Z)) :=
  match entries with
  | [] => Some None
  | _ =>
      let width := (ip_obc p + ibc + 7) / 8 in
      if (0 <? ip_map_count p) && ((16 <? ibc) || (4 <? width)) then None
      else Some (Some (Z.lor (Z.shiftl (width - 1) 4) (ibc - 1), ip_map_count p,
                       map (fun i => match find (fun e => fst e =? i) entries with
                                     | Some e => Z.land (im_pack ibc (fst (snd e)) (snd (snd e))) (2 ^ (8 * width) - 1)
                                     | None => 0
                                     end) (zrange (ip_map_count p))))
  end.

(* HvarVvarSubsetPlan::new + serialize_index_maps.  None = panic / table-level error (the table is then
   missing from the subset and no case is emitted). *)
Definition mvar_subset (mv : mvar) (retain : bool) (kept : list Z) : option (list (option (Z * Z * list Z))) :=
  let nvd := mv_ivd_count mv in
  let n2o := map (fun old => (match glyph_map retain kept old with Some g => g | None => 0 end, old)) kept in
  let sets0 := map (fun _ => @nil Z) (zrange nvd) in
  match mv_maps mv with
  | [] => Some []
  | m0 :: rest =>
      match plan_new m0 false nvd n2o [] sets0 with
      | None => None
      | Some (p0, outers0, sets1) =>
          (* adv_set: inner set of subtable 0 right after plan 0 when there is no advance map *)
          let adv_set := match m0 with
                         | None => match sets1 with s :: _ => s | [] => [] end
                         | Some _ => []
                         end in
          match plans_new rest nvd n2o outers0 sets1 with
          | None => None
          | Some (ps, outers, sets) =>
              let inner0 :=
                match m0, retain with
                | None, true => kept                                      (* retain_adv_map *)
                | _, _ => adv_set ++ filter (fun x => negb (memz x adv_set))
                                            (match sets with s :: _ => s | [] => [] end)
                end in
              let inner_maps := match sets with _ :: r => inner0 :: r | [] => [] end in
              all_some
                (map (fun mp =>
                        let ibc := inner_bit_count (snd mp) inner_maps in
                        match remap_entries (fst mp) (snd mp) outers inner_maps n2o with
                        | None => None
                        | Some es =>
                            match fst mp, es with
                            | None, _ :: _ => None      (* index_map.as_ref().unwrap() on a non-identity plan *)
                            | _, _ => im_serialize (snd mp) ibc es
                            end
                        end)
                     (combine (m0 :: rest) (p0 :: ps)))
          end
      end
  end.

(* ---- gvar offsets (klippa/src/gvar.rs Gvar::subset, subset_with_offset_type, GvarOffset::stored_value) ---- *)
(* abstract gvar: byte length of data_for_gid(g) for g = 0..n-1 (0 = none / unreadable) *)
Definition gv_len (lens : list Z) (g : Z) : Z := match znth lens g with Some l => l | None => 0 end.

(* the glyphs whose data is written: .notdef is skipped unless NOTDEF_OUTLINE *)
Definition gv_written (retain notdef : bool) (kept : list Z) : list (Z * Z) :=
  filter (fun p => negb ((fst p =? 0) && negb notdef))
         (map (fun old => (match glyph_map retain kept old with Some g => g | None => 0 end, old)) kept).

(* in the short format every glyph's data is padded to an even length with one zero byte *)
Definition gv_pad (l : Z) : Z := l + l mod 2.

(* subset_data_size: padded data of the OLD glyph ids that are written *)
Definition gv_size_estimate (lens : list Z) (retain notdef : bool) (kept : list Z) : Z :=
  fold_left (fun acc p => acc + gv_pad (gv_len lens (snd p))) (gv_written retain notdef kept) 0.

Definition gv_long (lens : list Z) (retain notdef : bool) (kept : list Z) : bool :=
  131070 <? gv_size_estimate lens retain notdef kept.          (* > 0x1FFFE *)

(* GvarOffset::stored_value: u16: (val / 2) as u16; u32: val *)
Definition gv_stored (long : bool) (off : Z) : Z :=
  if long then off mod 4294967296 else (off / 2) mod 65536.
(* how a reader gets the offset back (read-fonts U16Or32 / spec: short offsets are multiplied by 2) *)
Definition gv_read (long : bool) (v : Z) : Z := if long then v else 2 * v.

(* end offset of new glyph i = total data written for new ids <= i (gaps and the skipped .notdef repeat the
   running offset): exactly what the loop of subset_with_offset_type leaves in slot i + 1; slot 0 stays 0.
   Short format: glyph_offset is even before every glyph, so each glyph contributes its padded length. *)
Definition gv_end_offset (long : bool) (lens : list Z) (retain notdef : bool) (kept : list Z) (i : Z) : Z :=
  fold_left (fun acc p => if fst p <=? i
                          then acc + (if long then gv_len lens (snd p) else gv_pad (gv_len lens (snd p)))
                          else acc) (gv_written retain notdef kept) 0.

Definition gvar_subset (lens : list Z) (retain notdef : bool) (kept : list Z) : Z * list Z :=
  let long := gv_long lens retain notdef kept in
  let n := Z.min (num_output retain kept) 65535 in
  ((if long then 1 else 0),
   0 :: map (fun i => gv_stored long (gv_end_offset long lens retain notdef kept i)) (zrange n)).

(* ---- loca offsets (klippa/src/glyf_loca.rs Glyf::subset, padded_size, write_glyf_loca; head.indexToLocFormat) ---- *)
Definition loca_pad (l : Z) : Z := l + l mod 2.                         (* padded_size *)

(* one entry per element of plan.new_to_old_gid_list: (new gid, byte length of subset_glyph's output).
   glens = per OLD glyph of the original (length with instructions kept, length under NO_HINTING) of what
   subset_simple_glyph / subset_composite_glyph return when they do not bail out; the emptied .notdef, empty
   glyphs, zero-contour headers and composites with an unmapped component are written with length 0 *)
Definition loca_entries (F : afont) (glens : list (Z * Z)) (retain notdef nohint : bool) (kept : list Z)
  : list (Z * Z) :=
  map (fun old =>
         let new := match glyph_map retain kept old with Some g => g | None => 0 end in
         (new,
          if (old =? 0) && (new =? 0) && negb notdef then 0
          else match subset_glyph retain kept (glyph_at F old) with
               | GE | GS0 | GB => 0
               | _ => match znth glens old with
                      | Some p => if nohint then snd p else fst p
                      | None => 0
                      end
               end)) kept.

(* max_offset += padded_size(trimmed_len) as u32 *)
Definition loca_total (ents : list (Z * Z)) : Z := fold_left (fun a p => a + loca_pad (snd p)) ents 0.
(* let loca_format: u8 = if max_offset < 0x1FFFF { 0 } else { 1 } *)
Definition loca_format (ents : list (Z * Z)) : Z := if loca_total ents <? 131071 then 0 else 1.

Definition loca_value (short : bool) (off : Z) : Z := if short then off / 2 else off.      (* offset >> 1 / offset *)
Definition loca_wrap (short : bool) (p : Z) : Z := if short then p mod 65536 else p mod 4294967296.  (* as u16 / as u32 *)
Definition loca_limit (short : bool) : Z := if short then 65535 else 4294967295.

(* the two loops of write_glyf_loca (they differ in the integer width only).  [value] of the Rust code is always
   loca_value offset, so it is not a separate state component.  None = `offset += ..` overflows (overflow-checks).
   Result: the entries pushed after the leading 0, up to num_output_glyphs. *)
Fixpoint loca_loop (short : bool) (nout : Z) (ents : list (Z * Z)) (last offset : Z) : option (list Z) :=
  match ents with
  | [] => Some (repeat (loca_value short offset) (Z.to_nat (nout - last)))     (* while last < num_output_glyphs *)
  | (gid, len) :: r =>
      let fill := Z.max 0 (gid - last) in                                      (* while last < gid *)
      let off' := offset + loca_wrap short (loca_pad len) in
      if loca_limit short <? off' then None
      else match loca_loop short nout r (last + fill + 1) off' with
           | None => None
           | Some t => Some (repeat (loca_value short offset) (Z.to_nat fill) ++ loca_value short off' :: t)
           end
  end.

Inductive loca_out := LPanic | LTable (fmt : Z) (offs : list Z).

Definition loca_subset (nout : Z) (ents : list (Z * Z)) : loca_out :=
  if 4294967295 <? loca_total ents then LPanic            (* max_offset (u32) overflows *)
  else
    let fmt := loca_format ents in
    match loca_loop (fmt =? 0) nout ents 0 0 with
    | None => LPanic
    | Some t => LTable fmt (0 :: t)
    end.

(* where write_glyf_loca embeds each glyph's bytes in glyf: the short branch appends one zero byte after an
   odd-length glyph, the long branch does not (finding C17:glyf-long-loca-unpadded-glyph-data) *)
Definition glyf_data_len (short : bool) (len : Z) : Z := if short then loca_pad len else len.
Fixpoint glyf_starts (short : bool) (ents : list (Z * Z)) (pos : Z) : list (Z * (Z * Z)) :=
  match ents with
  | [] => []
  | (gid, len) :: r => (gid, (pos, len)) :: glyf_starts short r (pos + glyf_data_len short len)
  end.
(* read-fonts Loca::get_raw *)
Definition loca_read (fmt : Z) (offs : list Z) (i : Z) : option Z :=
  match znth offs i with Some v => Some (if fmt =? 0 then 2 * v else v) | None => None end.

Definition flag_nohint (flags : Z) : bool := Z.testbit flags 0.

Definition loca_model (F : afont) (glens : list (Z * Z)) (gids unis : list Z) (flags : Z) : loca_out :=
  let kept := kept_glyphs F gids unis in
  let retain := flag_retain flags in
  loca_subset (num_output retain kept)
              (loca_entries F glens retain (flag_notdef flags) (flag_nohint flags) kept).

(* ---- correspondence case format (written by harness/src/bin/c17.rs) ---- *)
Inductive observed :=
| OPanic | OErr | OUnreadable
| OOut (num_glyphs : Z) (glyphs : option (list glyph)) (hmtx : option (Z * list (Z * Z)))
       (cmap : list (Z * Z)) (cmap4_multi : bool)
       (cmap4 : option (list (Z * Z)))
       (mvars : list (mvar * list (option (Z * Z * list Z))))
       (gvar : option (list Z * (Z * list Z)))
       (loca : option (list (Z * Z) * (Z * list Z)))
| OLocaOnly (glens : list (Z * Z)) (res : option (Z * list Z)).
(* loca  = per-glyph subset_glyph output lengths of the ORIGINAL (computed by the harness from the original's
           bytes, independently of klippa) and the subset's head.indexToLocFormat + loca entries as stored;
   OLocaOnly = the cases in which a known loca-writer defect fired (u16 offset overflow panic = None, or the
           long format, whose glyph data is garbage for every other observation): only the loca prediction
           is compared;
   gvar  = per-glyph data lengths of the original's gvar, and the subset's gvar flags word and offsets
           array as stored;
   mvars = for HVAR / VVAR present in both fonts: the original's index maps and what the subset's index maps
           say as raw bytes (entry format byte, mapCount, entry values);
   cmap  = what skrifa's Charmap says of the subset;
   cmap4 = what the subset's format-4 subtables say when read directly (Cmap4::iter), given only when every
           format-4 subtable of the ORIGINAL lists exactly the BMP part of f_cmap: then the subset's format-4
           subtables must list exactly the BMP part of the (char, new gid) list - this is what ties the
           unmodelled range writer (to_ranges / commit_current_range / glyphIdArray) to the plan. *)

Fixpoint list_eqb {A} (eqb : A -> A -> bool) (a b : list A) : bool :=
  match a, b with
  | [], [] => true
  | x :: a', y :: b' => eqb x y && list_eqb eqb a' b'
  | _, _ => false
  end.
Definition pair_eqb (p q : Z * Z) : bool := (fst p =? fst q) && (snd p =? snd q).
Definition glyph_eqb (a b : glyph) : bool :=
  match a, b with
  | GE, GE | GS0, GS0 | GB, GB => true
  | GS h, GS k => h =? k
  | GC cs h, GC ds k => list_eqb Z.eqb cs ds && (h =? k)
  | _, _ => false
  end.
Definition opt_eqb {A} (eqb : A -> A -> bool) (a b : option A) : bool :=
  match a, b with
  | None, None => true
  | Some x, Some y => eqb x y
  | _, _ => false
  end.

Definition check_case (c : afont * (list Z * list Z * Z) * observed) : bool :=
  let '(F, (gids, unis, flags), obs) := c in
  match subset_model F gids unis flags, obs with
  | Panic, OPanic => true
  | _, OLocaOnly glens res =>
      (match loca_model F glens gids unis flags, res with
       | LPanic, None => true
       | LTable fmt offs, Some (fl, offs') => (fmt =? fl) && list_eqb Z.eqb offs offs'
       | _, _ => false
       end)
  | Out n gl hm cm, OOut n' gl' hm' cm' multi cm4 mvs gv lc =>
      (n =? n') && opt_eqb (list_eqb glyph_eqb) gl gl'
      && opt_eqb (fun a b => (fst a =? fst b) && list_eqb pair_eqb (snd a) (snd b)) hm hm'
      && (if multi then list_eqb Z.eqb (map fst cm) (map fst cm')   (* byte encoder defect: chars only *)
          else list_eqb pair_eqb cm cm')
      && (match cm4 with
          | None => true
          | Some l => let bmp := filter (fun p => fst p <? 65536) cm in
                      if multi then list_eqb Z.eqb (map fst bmp) (map fst l) else list_eqb pair_eqb bmp l
          end)
      && forallb (fun mo =>
                    match mvar_subset (fst mo) (flag_retain flags) (kept_glyphs F gids unis) with
                    | None => false
                    | Some pred =>
                        list_eqb (opt_eqb (fun a b => (fst (fst a) =? fst (fst b)) && (snd (fst a) =? snd (fst b))
                                                      && list_eqb Z.eqb (snd a) (snd b))) pred (snd mo)
                    end) mvs
      && (match gv with
          | None => true
          | Some (lens, (fl, offs)) =>
              let pred := gvar_subset lens (flag_retain flags) (flag_notdef flags) (kept_glyphs F gids unis) in
              (fst pred =? fl) && list_eqb Z.eqb (snd pred) offs
          end)
      && (match lc with
          | None => true
          | Some (glens, (fl, offs')) =>
              match loca_model F glens gids unis flags with
              | LTable fmt offs => (fmt =? fl) && list_eqb Z.eqb offs offs'
              | LPanic => false
              end
          end)
  | _, _ => false
  end.
