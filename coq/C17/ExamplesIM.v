(* C17 — a concrete instance of IndexMapMax.indexmap_max_covers_l: two ItemVariationData subtables, four
   retained glyphs whose last two share a value (so map_count = 3 and the last entry is cut by the break). *)
From Coq Require Import ZArith List Bool Lia Sorted.
From FV Require Import C17.Model C17.Proofs C17.IndexMap C17.IndexMapMax.
Import ListNotations.
Open Scope Z_scope.

Definition ex_tbl : list (Z * Z) := [(0, 3); (1, 5); (0, 7); (1, 2); (0, 7)].
Definition ex_n2o : list (Z * Z) := [(0, 0); (1, 1); (2, 2); (3, 4)].
Definition ex_m := Some (1, ex_tbl).

(* the hypotheses of indexmap_max_covers_l hold, and plan_new gives map_count 3, maxima [7; 5], outers {0, 1},
   inner sets [{3, 7}; {5}] *)
Example indexmap_max_covers_ex :
  @zlen (list Z) [[]; []] = 2
  /\ StronglySorted Z.lt (map fst ex_n2o)
  /\ (forall g old, In (g, old) ex_n2o -> 0 <= fst (im_val ex_m old) < 2 /\ 0 <= snd (im_val ex_m old))
  /\ plan_new ex_m false 2 ex_n2o [] [[]; []] = Some (mkPlan 3 [7; 5] 1, [0; 1], [[3; 7]; [5]]).
Proof.
  split; [reflexivity|]. split.
  - cbn. repeat constructor.
  - split.
    + intros g old Hin. cbn in Hin.
      repeat (destruct Hin as [E|Hin]; [injection E as <- <-; vm_compute; repeat split; discriminate|]).
      destruct Hin.
    + vm_compute. reflexivity.
Qed.

(* the lemma applied to the instance: entry (1, 1) has value (1, 5); subtable 1 has maximum 5 in {5} *)
Example indexmap_max_covers_ex_use :
  exists mx s, znth [7; 5] 1 = Some mx /\ znth [[3; 7]; [5]] 1 = Some s /\ 0 <= 5 <= mx /\ In 5 s /\ In mx s.
Proof.
  destruct indexmap_max_covers_ex as (H1 & H2 & H3 & H4).
  destruct (indexmap_max_covers_l 1 ex_tbl false 2 ex_n2o [] [[]; []] _ _ _ H1 H2 H3 H4) as (_ & _ & H).
  specialize (H 1 1 ltac:(cbn; auto) ltac:(cbn; lia)). cbv zeta in H. destruct H as [_ H]. exact H.
Qed.

