(* C17 — HVAR / VVAR DeltaSetIndexMap repacking: pack/unpack round trip and sufficiency of the computed
   inner bit count (model: coq/C17/Model.v inner_bit_count, im_pack, im_unpack, im_serialize). *)
From Coq Require Import ZArith List Bool Lia Sorted.
From FV Require Import C17.Model C17.Proofs.
Import ListNotations.
Open Scope Z_scope.

(* unpack (pack (o, i)) = (o, i) whenever the inner index fits the inner bit count *)
Lemma indexmap_pack_roundtrip_l ibc o i : 0 <= ibc -> 0 <= o -> 0 <= i < 2 ^ ibc ->
  im_unpack ibc (im_pack ibc o i) = (o, i).
Proof.
  intros Hb Ho Hi. unfold im_unpack, im_pack. f_equal.
  - rewrite Z.shiftr_lor, Z.shiftr_shiftl_l by lia. rewrite Z.sub_diag, Z.shiftl_0_r.
    rewrite (Z.shiftr_div_pow2 i) by lia. rewrite Z.div_small by lia. apply Z.lor_0_r.
  - replace (2 ^ ibc - 1) with (Z.ones ibc) by (rewrite Z.ones_equiv; lia).
    rewrite Z.land_lor_distr_l, !Z.land_ones by lia.
    rewrite Z.shiftl_mul_pow2 by lia. rewrite Z.mod_mul by lia. rewrite Z.mod_small by lia. reflexivity.
Qed.

Lemma pack_add ibc o i : 0 <= ibc -> 0 <= i < 2 ^ ibc -> im_pack ibc o i = o * 2 ^ ibc + i.
Proof.
  intros Hb Hi. unfold im_pack. rewrite Z.shiftl_mul_pow2 by lia.
  assert (Hl : Z.land (o * 2 ^ ibc) i = 0).
  { rewrite <- (Z.mod_small i (2 ^ ibc)) by lia.
    apply Z.bits_inj'. intros n Hn. rewrite Z.land_spec, Z.bits_0.
    destruct (Z_lt_le_dec n ibc).
    - rewrite Z.mul_pow2_bits_low by lia. reflexivity.
    - rewrite Z.mod_pow2_bits_high by lia. apply andb_false_r. }
  rewrite <- (Z.lxor_lor _ _ Hl). symmetry. apply Z.add_nocarry_lxor, Hl.
Qed.

(* the value written is the packed value itself when the outer index fits the remaining bits of the entry *)
Lemma pack_fits_width ibc w o i : 0 <= ibc -> 0 <= o -> 0 <= i < 2 ^ ibc -> ibc <= 8 * w ->
  o < 2 ^ (8 * w - ibc) ->
  Z.land (im_pack ibc o i) (2 ^ (8 * w) - 1) = im_pack ibc o i.
Proof.
  intros Hb Ho Hi Hw Hob.
  replace (2 ^ (8 * w) - 1) with (Z.ones (8 * w)) by (rewrite Z.ones_equiv; lia).
  rewrite Z.land_ones by lia. apply Z.mod_small.
  rewrite pack_add by lia.
  assert (0 < 2 ^ ibc) by (apply Z.pow_pos_nonneg; lia).
  split; [nia|].
  replace (8 * w) with ((8 * w - ibc) + ibc) by lia. rewrite Z.pow_add_r by lia. nia.
Qed.

Lemma bit_len_spec v : 0 <= v -> v < 2 ^ bit_len v.
Proof.
  intros Hv. unfold bit_len. destruct (v <=? 0) eqn:E.
  - apply Z.leb_le in E. assert (v = 0) by lia. subst. cbn. lia.
  - apply Z.leb_gt in E. apply Z.log2_spec in E. lia.
Qed.
Lemma bit_len_nonneg v : 0 <= bit_len v.
Proof. unfold bit_len. destruct (v <=? 0); [lia|]. pose proof (Z.log2_nonneg v). lia. Qed.

(* the fold computing the inner bit count dominates every subtable it looks at *)
Lemma inner_bit_count_covers p inner_maps : 
  1 <= inner_bit_count p inner_maps
  /\ forall mx imap k, In (mx, imap) (combine (ip_max_inners p) inner_maps) -> mx <> 0 ->
       index_of mx imap 0 = Some k -> k < 2 ^ inner_bit_count p inner_maps.
Proof.
  unfold inner_bit_count. generalize (combine (ip_max_inners p) inner_maps) as l.
  assert (Hgen : forall l acc, 1 <= acc ->
     let r := fold_left (fun acc mi => match snd mi with
               | [] => acc
               | _ => if fst mi =? 0 then acc
                      else Z.max (bit_len (match index_of (fst mi) (snd mi) 0 with Some k => k | None => 0 end)) acc
               end) l acc in
     acc <= r /\ forall mx imap k, In (mx, imap) l -> mx <> 0 -> index_of mx imap 0 = Some k -> k < 2 ^ r).
  { induction l as [|[mx0 im0] l IH]; intros acc Hacc; cbn [fold_left fst snd].
    - split; [lia|]. intros ? ? ? [].
    - set (acc' := match im0 with [] => acc | _ => if mx0 =? 0 then acc else
                     Z.max (bit_len (match index_of mx0 im0 0 with Some k => k | None => 0 end)) acc end).
      assert (Ha : acc <= acc') by (unfold acc'; destruct im0; [lia|]; destruct (mx0 =? 0); lia).
      destruct (IH acc' ltac:(lia)) as [Hle Hcov]. split; [lia|].
      intros mx imap k [E|Hin] Hne Hk; [|eapply Hcov; eauto].
      injection E as -> ->.
      assert (Hb : bit_len k <= acc').
      { unfold acc'. destruct imap as [|a r]; [discriminate|].
        replace (mx =? 0) with false by (symmetry; apply Z.eqb_neq; exact Hne). rewrite Hk. lia. }
      pose proof (index_of_bounds _ _ _ _ Hk) as [Hk0 _].
      apply Z.lt_le_trans with (2 ^ bit_len k); [apply bit_len_spec; lia|].
      apply Z.pow_le_mono_r; lia. }
  intros l. destruct (Hgen l 1 ltac:(lia)) as [H1 H2]. split; [exact H1|exact H2].
Qed.

(* rank in a strictly ascending list is monotone *)
Lemma rank_le l : StronglySorted Z.lt l -> forall x y a b,
  index_of x l 0 = Some a -> index_of y l 0 = Some b -> x <= y -> a <= b.
Proof.
  intros Hs x y a b Ha Hb Hxy. destruct (Z.eq_dec x y) as [->|Hne]; [assert (a = b) by congruence; lia|].
  pose proof (map_monotone l Hs x y a b Ha Hb ltac:(lia)). lia.
Qed.

(* every entry whose old inner index is at most the plan's recorded maximum of that subtable survives the
   packing: unpack (pack (o', i')) = (o', i') *)
Lemma indexmap_entry_roundtrip p inner_maps mx imap i i' o' :
  In (mx, imap) (combine (ip_max_inners p) inner_maps) ->
  StronglySorted Z.lt imap -> (forall x, In x imap -> 0 <= x) -> In mx imap ->
  0 <= i <= mx -> index_of i imap 0 = Some i' -> 0 <= o' ->
  let ibc := inner_bit_count p inner_maps in
  im_unpack ibc (im_pack ibc o' i') = (o', i').
Proof.
  intros Hin Hs Hnn Hmx Hi Hi' Ho ibc.
  destruct (inner_bit_count_covers p inner_maps) as [H1 Hcov]. fold ibc in H1, Hcov.
  pose proof (index_of_bounds _ _ _ _ Hi') as [Hb _].
  apply indexmap_pack_roundtrip_l; [lia|exact Ho|]. split; [lia|].
  destruct (Z.eq_dec mx 0) as [->|Hne].
  - (* the subtable is skipped by the loop: the only old inner index is 0, the least element: new index 0 *)
    assert (i = 0) by lia. subst i.
    assert (i' = 0).
    { destruct imap as [|a r]; [destruct Hmx|].
      assert (a = 0).
      { inversion Hs as [|? ? _ Hf]; subst. rewrite Forall_forall in Hf.
        destruct Hmx as [->|H0]; [reflexivity|]. specialize (Hf 0 H0). specialize (Hnn a (or_introl eq_refl)). lia. }
      subst a. cbn in Hi'. congruence. }
    subst i'. apply Z.pow_pos_nonneg; lia.
  - destruct (index_of_In mx imap 0 Hmx) as [k Hk].
    pose proof (rank_le imap Hs i mx i' k Hi' Hk ltac:(lia)).
    specialize (Hcov mx imap k Hin Hne Hk). lia.
Qed.
