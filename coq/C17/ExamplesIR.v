(* C17 — non-vacuity of subset_idempotent_retain_l: its hypotheses hold on a concrete font whose RETAIN_GIDS
   subset has a gap, and the second run keeps exactly the same ids *)
From Coq Require Import ZArith List Bool Lia Sorted.
From FV Require Import C17.Model C17.Proofs C17.Idempotent C17.IdempotentRetain C17.Examples.
Import ListNotations.
Open Scope Z_scope.

(* ex_font (Examples.v): .notdef, A (simple), B = composite of A and D, C (empty), D (simple), E = composite of B.
   Request: char 'B' only -> .notdef, A, B, D kept; with RETAIN_GIDS they stay 0, 1, 2, 4 and slot 3 is a gap. *)
Definition ir_gl : list glyph := [GE; GS 11; GC [1; 4] 12; GE; GS 14].
Definition ir_long : list (Z * Z) := [(500, 1); (600, 2); (700, 3); (0, 0); (700, 5)].
Definition ir_cm : list (Z * Z) := [(66, 2)].
Definition ir_font' : afont := subset_afont_retain (kept_glyphs ex_font [] [66]) ir_gl ir_long [] ir_cm.

Ltac nodup_z := repeat (constructor; [cbn; intuition discriminate|]); constructor.
Ltac closed_by_cases Hg Hga Hc :=
  vm_compute in Hg;
  repeat (destruct Hg as [Hg|Hg]; [subst; vm_compute in Hga; try discriminate Hga|]); [..|destruct Hg];
  injection Hga as <- <-; vm_compute in Hc; vm_compute; tauto.

Example idem_retain_ex :
  let F := ex_font in
  let K := kept_glyphs F [] [66] in
  let F' := subset_afont_retain K ir_gl ir_long [] ir_cm in
  let K' := kept_glyphs F' [] [66] in
  (* every hypothesis of subset_idempotent_retain_l *)
  (f_colr F = None /\ f_uvs F = []
   /\ NoDup (map fst (f_cmap F)) /\ NoDup (map fst ir_cm) /\ 0 < f_n F
   /\ glyf_subset F true false K = Some ir_gl
   /\ cmap_subset true K (unicode_list F [] [66]) = Some ir_cm
   /\ (false = true \/ forall cs h, glyph_at F 0 <> GC cs h)
   /\ (forall g cs h c, In g K -> glyph_at F g = GC cs h -> In c cs -> In c K)
   /\ (forall i cs h c, In i K' -> glyph_at F' i = GC cs h -> In c cs -> In c K'))
  (* the hmtx of F' is what the model writes, so F' really is the model's subset *)
  /\ hmtx_subset F true K = HTable ir_long []
  (* the conclusion, by computation *)
  /\ K = [0; 1; 2; 4] /\ K' = K
  /\ (forall g, In g K -> glyph_map true K' g = Some g)
  /\ num_output true K' = 5 /\ f_n F' = 5
  (* there really is a gap: the kept set is not all of the new font *)
  /\ K <> zrange (f_n F') /\ glyph_at F' 3 = GE /\ glyph_map true K' 3 = None.
Proof.
  intros F K F' K'.
  assert (Hyp : f_colr F = None /\ f_uvs F = []
   /\ NoDup (map fst (f_cmap F)) /\ NoDup (map fst ir_cm) /\ 0 < f_n F
   /\ glyf_subset F true false K = Some ir_gl
   /\ cmap_subset true K (unicode_list F [] [66]) = Some ir_cm
   /\ (false = true \/ forall cs h, glyph_at F 0 <> GC cs h)
   /\ (forall g cs h c, In g K -> glyph_at F g = GC cs h -> In c cs -> In c K)
   /\ (forall i cs h c, In i K' -> glyph_at F' i = GC cs h -> In c cs -> In c K')).
  { split; [reflexivity|]. split; [reflexivity|]. split; [nodup_z|]. split; [nodup_z|].
    split; [reflexivity|]. split; [reflexivity|]. split; [reflexivity|].
    split; [right; intros cs h; vm_compute; discriminate|].
    split.
    - intros g cs h c Hg Hga Hc. closed_by_cases Hg Hga Hc.
    - intros g cs h c Hg Hga Hc. closed_by_cases Hg Hga Hc. }
  split; [exact Hyp|].
  split; [reflexivity|]. split; [reflexivity|].
  (* K' = K etc. through the lemma (it also holds by reflexivity) *)
  destruct Hyp as [H1 [H2 [H3 [H4 [H5 [H6 [H7 [H8 [H9 H10]]]]]]]]].
  destruct (subset_idempotent_retain_l F [] [66] false ir_gl ir_long [] ir_cm H1 H2 H3 H4 H5 H6 H7 H8 H9 H10)
    as [HK [Hmap Hnum]].
  split; [exact HK|]. split; [exact Hmap|].
  split; [reflexivity|]. split; [reflexivity|].
  split; [vm_compute; discriminate|]. split; reflexivity.
Qed.

(* the same by plain computation, and a second request going through requested glyph ids:
   gids = [5] (E = composite of B), char 'A' -> 0, 1, 2, 4, 5 kept, slot 3 is a gap *)
Example idem_retain_ex_compute :
  kept_glyphs ir_font' [] [66] = kept_glyphs ex_font [] [66].
Proof. vm_compute. reflexivity. Qed.

Example idem_retain_ex2 :
  let K := kept_glyphs ex_font [5] [65] in
  exists gl cm,
    glyf_subset ex_font true true K = Some gl
    /\ cmap_subset true K (unicode_list ex_font [5] [65]) = Some cm
    /\ K = [0; 1; 2; 4; 5]
    /\ kept_glyphs (subset_afont_retain K gl [] [] cm) [5] [65] = K
    /\ K <> zrange (f_n (subset_afont_retain K gl [] [] cm)).
Proof.
  intros K. eexists. eexists. split; [vm_compute; reflexivity|]. split; [vm_compute; reflexivity|].
  split; [reflexivity|]. split; [vm_compute; reflexivity|]. vm_compute. discriminate.
Qed.

