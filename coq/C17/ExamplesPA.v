(* C17 — non-vacuity of subset_preserves_all_l: all hypotheses hold on ex_font (rank renumbering with a
   trimmed hmtx: new glyph 3 sits on the SHORT tail, and RETAIN_GIDS with a gap), and the instantiated
   conclusion gives concrete facts about the long / short boundary, the renamed composite and the cmap *)
From Coq Require Import ZArith List Bool Lia Sorted.
From FV Require Import C17.Model C17.Proofs C17.Idempotent C17.PreservesAll C17.Examples.
Import ListNotations.
Open Scope Z_scope.

Ltac nodup_z := repeat (constructor; [cbn; intuition discriminate|]); constructor.

Example preserves_all_hyps_rank :
  NoDup (map fst (f_cmap ex_font))
  /\ num_output false (kept_glyphs ex_font [] [66]) <= 65535
  /\ hmtx_subset ex_font false (kept_glyphs ex_font [] [66]) = HTable [(500, 1); (600, 2); (700, 3)] [5]
  /\ glyf_subset ex_font false false (kept_glyphs ex_font [] [66]) = Some [GE; GS 11; GC [1; 3] 12; GS 14]
  /\ cmap_subset false (kept_glyphs ex_font [] [66]) (unicode_list ex_font [] [66]) = Some [(66, 2)].
Proof.
  split; [cbn; nodup_z|]. split; [vm_compute; discriminate|]. repeat split; reflexivity.
Qed.

(* the theorem applied: old glyph 4 ('D') becomes new glyph 3, which lies on the short tail of the trimmed table:
   its side bearing is stored in lsbs', its advance is the last long metric's; composite 'B' has its second
   component renamed 4 -> 3; char 'B' maps to new glyph 2 and to nothing else *)
Example preserves_all_ex_rank :
  (exists g', glyph_map false (kept_glyphs ex_font [] [66]) 4 = Some g' /\ g' = 3
     /\ znth [5] (g' - 3) = hm_lsb (f_long ex_font) (f_lsbs ex_font) 4
     /\ hm_advance (f_long ex_font) 4 = Some 700)
  /\ (exists cs', znth [GE; GS 11; GC [1; 3] 12; GS 14] 2 = Some (GC cs' 12) /\ length cs' = 2%nat)
  /\ (exists g', In (66, g') [(66, 2)] /\ forall x, In (66, x) [(66, 2)] -> x = g').
Proof.
  destruct preserves_all_hyps_rank as [H1 [H2 [H3 [H4 H5]]]].
  destruct (subset_preserves_all_l ex_font [] [66] false false _ _ _ _ H1 H2 H3 H4 H5) as [_ [Hg [Hc _]]].
  split; [|split].
  - destruct (Hg 4 ltac:(vm_compute; tauto)) as [g' [Hm [_ [_ [_ [_ [_ [Hshort _]]]]]]]].
    assert (g' = 3) by (vm_compute in Hm; congruence). subst g'.
    exists 3. split; [exact Hm|]. split; [reflexivity|].
    destruct (Hshort ltac:(vm_compute; discriminate)) as [Ha Hb]. split; [exact Ha|exact Hb].
  - destruct (Hg 2 ltac:(vm_compute; tauto)) as [g' [Hm [_ [_ [_ [_ [_ [_ [_ Hcomp]]]]]]]]].
    assert (g' = 2) by (vm_compute in Hm; congruence). subst g'.
    assert (Hnz : 2 <> 0 \/ false = true) by (left; discriminate).
    destruct (Hcomp [1; 4] 12 Hnz eq_refl) as [cs' [Hz [Hl _]]].
    { intros c [<-|[<-|[]]]; vm_compute; tauto. }
    exists cs'. split; [exact Hz|exact Hl].
  - assert (Hi : In (66, 2) (f_cmap ex_font)) by (vm_compute; tauto).
    assert (Hr : In 66 [66] \/ In 2 (@nil Z)) by (left; left; reflexivity).
    destruct (Hc 66 2 Hi Hr) as [g' [_ [Hin Hu]]].
    exists g'. split; assumption.
Qed.

(* RETAIN_GIDS: same request, ids stay, slot 3 is a zero-filled gap, nothing is trimmed *)
Example preserves_all_hyps_retain :
  num_output true (kept_glyphs ex_font [] [66]) <= 65535
  /\ hmtx_subset ex_font true (kept_glyphs ex_font [] [66]) = HTable [(500, 1); (600, 2); (700, 3); (0, 0); (700, 5)] []
  /\ glyf_subset ex_font true false (kept_glyphs ex_font [] [66]) = Some [GE; GS 11; GC [1; 4] 12; GE; GS 14]
  /\ cmap_subset true (kept_glyphs ex_font [] [66]) (unicode_list ex_font [] [66]) = Some [(66, 2)].
Proof. split; [vm_compute; discriminate|]. repeat split; reflexivity. Qed.
Example preserves_all_ex_retain :
  exists m, znth [(500, 1); (600, 2); (700, 3); (0, 0); (700, 5)] 4 = Some m
    /\ hm_advance (f_long ex_font) 4 = Some (fst m) /\ hm_lsb (f_long ex_font) (f_lsbs ex_font) 4 = Some (snd m).
Proof.
  destruct preserves_all_hyps_rank as [H1 _]. destruct preserves_all_hyps_retain as [H2 [H3 [H4 H5]]].
  destruct (subset_preserves_all_l ex_font [] [66] true false _ _ _ _ H1 H2 H3 H4 H5) as [_ [Hg _]].
  destruct (Hg 4 ltac:(vm_compute; tauto)) as [g' [Hm [_ [_ [_ [_ [Hlong _]]]]]]].
  assert (g' = 4) by (vm_compute in Hm; congruence). subst g'.
  exact (Hlong ltac:(vm_compute; reflexivity)).
Qed.
