(* C15 (float clauses) — proofs about FloatModel.v via Flocq's *_correct theorems.
   Everything is symbolic (no finite sweep): each intermediate value is a small dyadic rational,
   hence exactly representable, hence every rounding is the identity. *)
From Coq Require Import ZArith Reals Lia Lra Bool Psatz.
From Flocq Require Import Core IEEE754.Binary IEEE754.Bits IEEE754.BinarySingleNaN.
From FV Require Import C15.FloatModel.
Open Scope Z_scope.

Section Generic.
  Context (prec emax : Z) {Hp : Prec_gt_0 prec} {Hm : Prec_lt_emax prec emax}.
  Hypothesis Hprec20 : 20 <= prec.
  Hypothesis Hemax64 : 64 < emax.
  Notation fl := (binary_float prec emax).
  Notation fexp := (FLT_exp (3 - emax - prec) prec).
  Notation ofZ := (ofZ prec emax).
  Notation half := (half prec emax).
  Notation to_float := (to_float prec emax).
  Notation from_float := (from_float prec emax).

  Lemma dyadic_format (m e : Z) : Z.abs m < 2 ^ prec -> -17 <= e ->
    generic_format radix2 fexp (F2R (Float radix2 m e)).
  Proof.
    intros Hm' He. apply generic_format_FLT.
    exists (Float radix2 m e); [reflexivity| exact Hm' | cbn [Fexp]; lia].
  Qed.

  Lemma small_lt_emax (r : R) : (Rabs r < bpow radix2 64)%R -> Rlt_bool (Rabs r) (bpow radix2 emax) = true.
  Proof.
    intros H. apply Rlt_bool_true. eapply Rlt_trans; [exact H|]. apply bpow_lt. lia.
  Qed.

  Lemma small_abs (r : R) : (- 8589934592 <= r <= 8589934592)%R -> (Rabs r < bpow radix2 64)%R.
  Proof.
    intros H. apply Rle_lt_trans with 8589934592%R.
    - apply Rabs_le. exact H.
    - change (bpow radix2 64) with (IZR (2 ^ 64)). apply IZR_lt. reflexivity.
  Qed.

  Lemma is_finite_not_is_nan (x : fl) : is_finite x = true -> is_nan x = false.
  Proof. destruct x; simpl; congruence. Qed.

  Lemma pow_prec_big : 2 ^ 20 <= 2 ^ prec.
  Proof. apply Z.pow_le_mono_r; lia. Qed.

  Lemma ofZ_exact z : Z.abs z < 2 ^ prec -> Z.abs z <= 4294967296 ->
    B2R (ofZ z) = IZR z /\ is_finite (ofZ z) = true /\ Bsign (ofZ z) = (z <? 0).
  Proof.
    intros Hz Hz32. unfold FloatModel.ofZ.
    pose proof (binary_normalize_correct prec emax Hp Hm mode_NE z 0 false) as H.
    cbv zeta in H.
    assert (HF : F2R (Float radix2 z 0) = IZR z) by (unfold F2R; simpl; lra).
    rewrite HF in H.
    rewrite round_generic in H; [| apply valid_rnd_N | rewrite <- HF; apply dyadic_format; [exact Hz|lia] ].
    rewrite small_lt_emax in H.
    - destruct H as (H1 & H2 & H3). split; [exact H1|split; [exact H2|]].
      rewrite H3. destruct (Z.ltb_spec z 0) as [Hneg|Hpos].
      + rewrite Rcompare_Lt; [reflexivity|]. apply IZR_lt. exact Hneg.
      + destruct (Z.eq_dec z 0) as [->|Hne].
        * rewrite Rcompare_Eq; reflexivity.
        * rewrite Rcompare_Gt; [reflexivity|]. apply IZR_lt. lia.
    - apply small_abs. split; [apply (IZR_le (-8589934592))|apply (IZR_le _ 8589934592)]; lia.
  Qed.

  Lemma land_hi x f : 0 <= f -> Z.shiftr (Z.land x (- 2 ^ f)) f = x / 2 ^ f.
  Proof.
    intros Hf. replace (- 2 ^ f) with (Z.lnot (Z.ones f)) by (rewrite Z.ones_equiv; unfold Z.lnot; lia).
    rewrite <- Z.ldiff_land, Z.ldiff_ones_r by lia.
    rewrite Z.shiftr_shiftl_l by lia. rewrite Z.sub_diag, Z.shiftl_0_r.
    apply Z.shiftr_div_pow2; lia.
  Qed.

  Lemma land_lo x f : 0 <= f -> Z.land x (Z.lnot (- 2 ^ f)) = x mod 2 ^ f.
  Proof.
    intros Hf. replace (Z.lnot (- 2 ^ f)) with (Z.ones f) by (rewrite Z.ones_equiv; unfold Z.lnot; lia).
    apply Z.land_ones; lia.
  Qed.

  Lemma IZR_pow2 f : 0 <= f -> IZR (2 ^ f) = bpow radix2 f.
  Proof. intros. rewrite <- (IZR_Zpower radix2) by lia. reflexivity. Qed.

  (* x: any raw value with |x| <= 2^31 and |x| <= 2^(prec-3); f <= 16 fraction bits *)
  Definition xok (x : Z) : Prop := Z.abs x <= 2147483648 /\ 8 * Z.abs x <= 2 ^ prec.

  Lemma to_float_exact f x : 0 <= f <= 16 -> xok x ->
    is_finite (to_float f x) = true /\ B2R (to_float f x) = (IZR x * bpow radix2 (- f))%R
    /\ Bsign (to_float f x) = (x <? 0).
  Proof.
    intros Hf [Hx31 Hxp]. unfold FloatModel.to_float. cbv zeta. rewrite land_hi, land_lo by lia.
    pose proof pow_prec_big as Hpb. change (2 ^ 20) with 1048576 in Hpb.
    assert (Hpf : 0 < 2 ^ f) by (apply Z.pow_pos_nonneg; lia).
    assert (Hp16 : 2 ^ f <= 2 ^ 16) by (apply Z.pow_le_mono_r; lia).
    change (2 ^ 16) with 65536 in Hp16.
    set (hi := x / 2 ^ f). set (lo := x mod 2 ^ f).
    assert (Hlo : 0 <= lo < 2 ^ f) by (apply Z.mod_pos_bound; lia).
    assert (Hhi : Z.abs hi <= Z.abs x).
    { subst hi. assert (- Z.abs x <= x / 2 ^ f <= Z.abs x); [|lia].
      split. apply Z.div_le_lower_bound; nia. apply Z.div_le_upper_bound; nia. }
    destruct (ofZ_exact hi ltac:(lia) ltac:(lia)) as (Rhi & Fhi & Shi).
    destruct (ofZ_exact lo ltac:(lia) ltac:(lia)) as (Rlo & Flo & Slo).
    destruct (ofZ_exact (2 ^ f) ltac:(lia) ltac:(lia)) as (Rp & Fp & Sp).
    (* division *)
    pose proof (Bdiv_correct prec emax Hp Hm mode_NE (ofZ lo) (ofZ (2 ^ f))) as HD.
    rewrite Rlo, Rp in HD.
    assert (Hnz : IZR (2 ^ f) <> 0%R) by (apply not_0_IZR; lia).
    specialize (HD Hnz).
    assert (Hq : (IZR lo / IZR (2 ^ f))%R = F2R (Float radix2 lo (- f))).
    { unfold F2R. cbn [Fnum Fexp]. rewrite IZR_pow2 by lia. rewrite bpow_opp. reflexivity. }
    rewrite Hq in HD.
    rewrite round_generic in HD; [| apply valid_rnd_N | apply dyadic_format; lia ].
    rewrite small_lt_emax in HD.
    2:{ rewrite <- Hq. apply small_abs. unfold Rdiv.
        assert (0 <= IZR lo * / IZR (2 ^ f) <= 1)%R; [|lra].
        assert (0 < IZR (2 ^ f))%R by (apply IZR_lt; lia).
        assert (0 <= IZR lo <= IZR (2 ^ f))%R by (split; apply IZR_le; lia).
        split.
        - apply Rmult_le_pos; [lra|]. left. apply Rinv_0_lt_compat. lra.
        - apply Rmult_le_reg_r with (IZR (2 ^ f)); [lra|].
          rewrite Rmult_assoc, Rinv_l by exact Hnz. lra. }
    destruct HD as (RD & FD & SD). rewrite Flo in FD.
    assert (SD' : Bsign (Bdiv mode_NE (ofZ lo) (ofZ (2 ^ f))) = false).
    { rewrite SD by (apply (is_finite_not_is_nan _ FD)). rewrite Slo, Sp.
      replace (lo <? 0) with false by lia. replace (2 ^ f <? 0) with false by lia. reflexivity. }
    (* addition *)
    pose proof (Bplus_correct prec emax Hp Hm mode_NE (ofZ hi) _ Fhi FD) as HP.
    rewrite Rhi, RD in HP.
    assert (Hs : (IZR hi + F2R (Float radix2 lo (- f)))%R = F2R (Float radix2 x (- f))).
    { unfold F2R. cbn [Fnum Fexp].
      assert (Hx2 : x = hi * 2 ^ f + lo) by (subst hi lo; pose proof (Z.div_mod x (2 ^ f)); lia).
      rewrite Hx2 at 1. rewrite plus_IZR, mult_IZR, IZR_pow2 by lia.
      rewrite Rmult_plus_distr_r. rewrite Rmult_assoc. rewrite <- bpow_plus.
      replace (f + - f) with 0 by lia. simpl bpow. lra. }
    rewrite Hs in HP.
    rewrite round_generic in HP; [| apply valid_rnd_N | apply dyadic_format; lia ].
    assert (Hb1 : (0 < bpow radix2 (- f) <= 1)%R).
    { split; [apply bpow_gt_0|]. change 1%R with (bpow radix2 0). apply bpow_le. lia. }
    assert (HxR : (- 2147483648 <= IZR x <= 2147483648)%R).
    { split; [apply (IZR_le (-2147483648))|apply (IZR_le _ 2147483648)]; lia. }
    rewrite small_lt_emax in HP.
    2:{ apply small_abs. unfold F2R. cbn [Fnum Fexp]. split; nra. }
    destruct HP as (RP & FP & SP). split; [exact FP|]. split; [rewrite RP; reflexivity|].
    rewrite SP. rewrite SD', Shi, andb_false_r.
    unfold F2R. cbn [Fnum Fexp].
    destruct (Z.ltb_spec x 0) as [Hneg|Hpos].
    - rewrite Rcompare_Lt; [reflexivity|]. assert (IZR x <= -1)%R by (apply (IZR_le _ (-1)); lia). nra.
    - destruct (Z.eq_dec x 0) as [->|Hne].
      + rewrite Rmult_0_l. rewrite Rcompare_Eq; reflexivity.
      + rewrite Rcompare_Gt; [reflexivity|]. assert (1 <= IZR x)%R by (apply (IZR_le 1); lia). nra.
  Qed.

  Lemma half_exact : B2R half = (/ 2)%R /\ is_finite half = true.
  Proof.
    unfold FloatModel.half.
    pose proof pow_prec_big as Hpb. change (2 ^ 20) with 1048576 in Hpb.
    pose proof (binary_normalize_correct prec emax Hp Hm mode_NE 1 (-1) false) as H. cbv zeta in H.
    rewrite round_generic in H; [| apply valid_rnd_N | apply dyadic_format; simpl; lia ].
    rewrite small_lt_emax in H.
    - destruct H as (H1 & H2 & _). split; [|exact H2]. rewrite H1. unfold F2R. simpl. lra.
    - apply small_abs. unfold F2R. simpl. lra.
  Qed.

  Lemma Ztrunc_plus_half x : 0 <= x -> Ztrunc (IZR x + / 2) = x.
  Proof.
    intros H. assert (0 <= IZR x)%R by (apply IZR_le; lia).
    rewrite Ztrunc_floor by lra. apply Zfloor_imp. rewrite plus_IZR. lra.
  Qed.
  Lemma Ztrunc_minus_half x : x < 0 -> Ztrunc (IZR x - / 2) = x.
  Proof.
    intros H. assert (IZR x <= -1)%R by (apply (IZR_le _ (-1)); lia).
    rewrite Ztrunc_ceil by lra. apply Zceil_imp. rewrite minus_IZR. lra.
  Qed.

  Lemma from_to_float_id f bits x : 0 <= f <= 16 -> xok x ->
    - 2 ^ (bits - 1) <= x <= 2 ^ (bits - 1) - 1 ->
    from_float f bits (to_float f x) = x.
  Proof.
    intros Hf Hxok Hbits. destruct (to_float_exact f x Hf Hxok) as (Fv & Rv & Sv).
    destruct Hxok as [Hx31 Hxp].
    pose proof pow_prec_big as Hpb. change (2 ^ 20) with 1048576 in Hpb.
    unfold FloatModel.from_float. cbv zeta. rewrite Sv.
    set (v := to_float f x) in *.
    assert (Hpf : 0 < 2 ^ f) by (apply Z.pow_pos_nonneg; lia).
    assert (Hp16 : 2 ^ f <= 2 ^ 16) by (apply Z.pow_le_mono_r; lia).
    change (2 ^ 16) with 65536 in Hp16.
    destruct (ofZ_exact (2 ^ f) ltac:(lia) ltac:(lia)) as (Rp & Fp & Sp).
    destruct half_exact as (Rh & Fh).
    assert (HxR : (- 2147483648 <= IZR x <= 2147483648)%R).
    { split; [apply (IZR_le (-2147483648))|apply (IZR_le _ 2147483648)]; lia. }
    (* v * 2^f = x *)
    pose proof (Bmult_correct prec emax Hp Hm mode_NE v (ofZ (2 ^ f))) as HM.
    rewrite Rv, Rp in HM.
    assert (Hmm : (IZR x * bpow radix2 (- f) * IZR (2 ^ f))%R = F2R (Float radix2 x 0)).
    { unfold F2R. cbn [Fnum Fexp]. rewrite IZR_pow2 by lia. rewrite Rmult_assoc, <- bpow_plus.
      replace (- f + f) with 0 by lia. reflexivity. }
    rewrite Hmm in HM.
    rewrite round_generic in HM; [| apply valid_rnd_N | apply dyadic_format; lia ].
    assert (HFx : F2R (Float radix2 x 0) = IZR x) by (unfold F2R; simpl; lra).
    rewrite HFx in HM.
    rewrite small_lt_emax in HM by (apply small_abs; lra).
    destruct HM as (RM & FM & _). rewrite Fv, Fp in FM. simpl in FM.
    set (b := if x <? 0 then 0 else 1).
    assert (Hb : b = 0 \/ b = 1) by (subst b; destruct (x <? 0); auto).
    destruct (ofZ_exact b ltac:(lia) ltac:(lia)) as (Rb & Fb & _).
    assert (HbR : (0 <= IZR b <= 1)%R) by (destruct Hb as [-> | ->]; simpl; lra).
    (* frac = b - 1/2 *)
    pose proof (Bminus_correct prec emax Hp Hm mode_NE (ofZ b) half Fb Fh) as HS.
    rewrite Rb, Rh in HS.
    assert (Hfr : (IZR b - / 2)%R = F2R (Float radix2 (2 * b - 1) (-1))).
    { unfold F2R. cbn [Fnum Fexp]. rewrite minus_IZR, mult_IZR. simpl bpow. lra. }
    rewrite Hfr in HS.
    rewrite round_generic in HS; [| apply valid_rnd_N | apply dyadic_format; lia ].
    rewrite small_lt_emax in HS by (rewrite <- Hfr; apply small_abs; lra).
    destruct HS as (RS & FS & _). rewrite <- Hfr in RS.
    (* sum *)
    pose proof (Bplus_correct prec emax Hp Hm mode_NE _ _ FM FS) as HP.
    rewrite RM, RS in HP.
    assert (Hsum : (IZR x + (IZR b - / 2))%R = F2R (Float radix2 (2 * x + 2 * b - 1) (-1))).
    { unfold F2R. cbn [Fnum Fexp]. rewrite minus_IZR, plus_IZR, !mult_IZR. simpl bpow. lra. }
    rewrite Hsum in HP.
    rewrite round_generic in HP; [| apply valid_rnd_N | apply dyadic_format; lia ].
    rewrite small_lt_emax in HP by (rewrite <- Hsum; apply small_abs; lra).
    destruct HP as (RP & FP & _). rewrite <- Hsum in RP.
    unfold cast_s.
    rewrite (is_finite_not_is_nan _ FP), FP.
    assert (HT : Btrunc (Bplus mode_NE (Bmult mode_NE v (ofZ (2 ^ f))) (Bminus mode_NE (ofZ b) half)) = x).
    { apply eq_IZR. rewrite (Btrunc_correct prec emax Hm). rewrite RP.
      unfold round, scaled_mantissa, cexp, FIX_exp, F2R. cbn [Fnum Fexp]. simpl bpow.
      rewrite Rmult_1_r. rewrite Rmult_1_r.
      subst b. destruct (Z.ltb_spec x 0).
      - replace (IZR x + (IZR 0 - / 2))%R with (IZR x - / 2)%R by (simpl; lra).
        rewrite Ztrunc_minus_half by lia. reflexivity.
      - replace (IZR x + (IZR 1 - / 2))%R with (IZR x + / 2)%R by (simpl; lra).
        rewrite Ztrunc_plus_half by lia. reflexivity. }
    rewrite HT. lia.
  Qed.
End Generic.

(* ---- instantiations ---- *)
Definition i32 (z : Z) : Prop := -2147483648 <= z <= 2147483647.
Definition i16 (z : Z) : Prop := -32768 <= z <= 32767.

Lemma xok64 x : i32 x -> xok 53 x.
Proof. unfold i32, xok. change (2 ^ 53) with 9007199254740992. lia. Qed.
Lemma xok32 x : i16 x -> xok 24 x.
Proof. unfold i16, xok. change (2 ^ 24) with 16777216. lia. Qed.

Lemma fixed_to_f64_exact x : i32 x ->
  is_finite (fixed_to_f64 x) = true /\ B2R (fixed_to_f64 x) = (IZR x / 65536)%R.
Proof.
  intros H. destruct (to_float_exact 53 1024 ltac:(lia) ltac:(lia) 16 x ltac:(lia) (xok64 x H)) as (F & R & _).
  split; [exact F|]. unfold fixed_to_f64. rewrite R. simpl bpow. unfold Rdiv. lra.
Qed.
Lemma f26dot6_to_f64_exact x : i32 x ->
  is_finite (f26dot6_to_f64 x) = true /\ B2R (f26dot6_to_f64 x) = (IZR x / 64)%R.
Proof.
  intros H. destruct (to_float_exact 53 1024 ltac:(lia) ltac:(lia) 6 x ltac:(lia) (xok64 x H)) as (F & R & _).
  split; [exact F|]. unfold f26dot6_to_f64. rewrite R. simpl bpow. unfold Rdiv. lra.
Qed.
Lemma fixed_f64_roundtrip x : i32 x -> fixed_from_f64 (fixed_to_f64 x) = x.
Proof.
  intros H. apply (from_to_float_id 53 1024 ltac:(lia) ltac:(lia) 16 32 x ltac:(lia) (xok64 x H)).
  unfold i32 in H. change (2 ^ (32 - 1)) with 2147483648. lia.
Qed.
Lemma f26dot6_f64_roundtrip x : i32 x -> f26dot6_from_f64 (f26dot6_to_f64 x) = x.
Proof.
  intros H. apply (from_to_float_id 53 1024 ltac:(lia) ltac:(lia) 6 32 x ltac:(lia) (xok64 x H)).
  unfold i32 in H. change (2 ^ (32 - 1)) with 2147483648. lia.
Qed.
Lemma f16_to_f32_exact f x : 0 <= f <= 16 -> i16 x ->
  is_finite (to_float 24 128 f x) = true /\ B2R (to_float 24 128 f x) = (IZR x * bpow radix2 (- f))%R.
Proof.
  intros Hf H. destruct (to_float_exact 24 128 ltac:(lia) ltac:(lia) f x Hf (xok32 x H)) as (F & R & _).
  split; assumption.
Qed.
Lemma f16_f32_roundtrip f x : 0 <= f <= 16 -> i16 x -> from_float 24 128 f 16 (to_float 24 128 f x) = x.
Proof.
  intros Hf H. apply (from_to_float_id 24 128 ltac:(lia) ltac:(lia) f 16 x Hf (xok32 x H)).
  unfold i16 in H. change (2 ^ (16 - 1)) with 32768. lia.
Qed.

(* ---- "conversions from floats round to nearest" ---- *)
Section Nearest.
  Context (prec emax : Z) {Hp : Prec_gt_0 prec} {Hm : Prec_lt_emax prec emax}.
  Notation fl := (binary_float prec emax).

  Lemma Ztrunc_half_near (y : R) (neg : bool) : (neg = true -> y <= 0)%R -> (neg = false -> 0 <= y)%R ->
    (Rabs (IZR (Ztrunc (y + (if neg then - / 2 else / 2))) - y) <= / 2)%R.
  Proof.
    intros Hn Hp'. destruct neg.
    - specialize (Hn eq_refl). rewrite Ztrunc_ceil by lra.
      pose proof (Zceil_ub (y + - / 2)) as U. pose proof (Zceil_lb (y + - / 2)) as L.
      apply Rabs_le. lra.
    - specialize (Hp' eq_refl). rewrite Ztrunc_floor by lra.
      pose proof (Zfloor_ub (y + / 2)) as U. pose proof (Zfloor_lb (y + / 2)) as L.
      apply Rabs_le. lra.
  Qed.

  (* If the two float operations of from_float are exact on v (product and sum not rounded) and the
     result is not saturated, the integer returned is within 1/2 of v * 2^f: round to nearest.
     The exactness hypothesis is sharp: see from_f64_nearest_refuted in FloatExamples.v (F-3). *)
  Lemma from_float_nearest f bits (v : fl) : 0 <= f ->
    let frac := Bminus mode_NE (ofZ prec emax (if Bsign v then 0 else 1)) (half prec emax) in
    let s := Bplus mode_NE (Bmult mode_NE v (ofZ prec emax (2 ^ f))) frac in
    is_finite s = true ->
    B2R s = (B2R v * IZR (2 ^ f) + (if Bsign v then - / 2 else / 2))%R ->
    - 2 ^ (bits - 1) <= Btrunc s <= 2 ^ (bits - 1) - 1 ->
    (Rabs (IZR (from_float prec emax f bits v) - B2R v * IZR (2 ^ f)) <= / 2)%R.
  Proof.
    intros Hf frac s Fs Rs Hr. unfold FloatModel.from_float. cbv zeta. fold frac. fold s. unfold cast_s.
    assert (Hnan : is_nan s = false) by (destruct s; simpl in *; congruence).
    rewrite Hnan, Fs.
    replace (Z.max (- 2 ^ (bits - 1)) (Z.min (2 ^ (bits - 1) - 1) (Btrunc s))) with (Btrunc s) by lia.
    rewrite (Btrunc_correct prec emax Hm). rewrite Rs.
    unfold round, scaled_mantissa, cexp, FIX_exp, F2R. cbn [Fnum Fexp]. simpl bpow.
    rewrite !Rmult_1_r.
    assert (0 < IZR (2 ^ f))%R by (apply IZR_lt; apply Z.pow_pos_nonneg; lia).
    apply Ztrunc_half_near.
    - intros Hs. destruct v as [sv|sv| |sv mv ev Hv]; simpl in Hs; simpl B2R; subst; try lra; try discriminate.
      unfold F2R. cbn [Fnum Fexp SpecFloat.cond_Zopp]. pose proof (bpow_gt_0 radix2 ev).
      assert (IZR (Z.neg mv) < 0)%R by (apply IZR_lt; lia).
      assert (IZR (Z.neg mv) * bpow radix2 ev < 0)%R by nra.
      change (- Z.pos mv) with (Z.neg mv). rewrite <- (Rmult_0_l (IZR (2 ^ f))). apply Rmult_le_compat_r; lra.
    - intros Hs. destruct v as [sv|sv| |sv mv ev Hv]; simpl in Hs; simpl B2R; subst; try lra; try discriminate.
      unfold F2R. cbn [Fnum Fexp SpecFloat.cond_Zopp]. pose proof (bpow_gt_0 radix2 ev).
      assert (0 < IZR (Z.pos mv))%R by (apply IZR_lt; lia).
      assert (0 < IZR (Z.pos mv) * bpow radix2 ev)%R by nra.
      apply Rmult_le_pos; lra.
  Qed.
End Nearest.
