(* C15 (float clauses) — executable Flocq model of font-types `float_conv!`
   (to_f32/to_f64/from_f32/from_f64) and write-fonts OtRound, generic in the binary format.
   No proofs here.  The Rust expression order is followed exactly; every float operation is the
   IEEE-754 round-to-nearest-even operation of Flocq's BinarySingleNaN (NaN payloads are
   irrelevant: Rust's `as` cast maps every NaN to 0). *)
From Coq Require Import ZArith Bool List.
From Flocq Require Import Core IEEE754.Binary IEEE754.Bits IEEE754.BinarySingleNaN.
Import ListNotations.
Open Scope Z_scope.

Section Generic.
  Context (prec emax : Z) {Hp : Prec_gt_0 prec} {Hm : Prec_lt_emax prec emax}.
  Notation fl := (BinarySingleNaN.binary_float prec emax).

  (* `n as $ty` for an integer n (round to nearest even; exact for the magnitudes used here) *)
  Definition ofZ (z : Z) : fl := binary_normalize prec emax Hp Hm mode_NE z 0 false.
  (* the literal 0.5 *)
  Definition half : fl := binary_normalize prec emax Hp Hm mode_NE 1 (-1) false.

  (* $to(self): int = ((self.0 & INT_MASK) >> FRACT_BITS) as $ty;
                fract = (self.0 & !INT_MASK) as $ty / ONE.0 as $ty;  int + fract *)
  Definition to_float (f x : Z) : fl :=
    let int := ofZ (Z.shiftr (Z.land x (- 2 ^ f)) f) in
    let fract := Bdiv mode_NE (ofZ (Z.land x (Z.lnot (- 2 ^ f)))) (ofZ (2 ^ f)) in
    Bplus mode_NE int fract.

  (* Rust `x as iN` from a float: NaN -> 0, saturating, truncation toward zero *)
  Definition cast_s (bits : Z) (s : fl) : Z :=
    if is_nan s then 0
    else if is_finite s then Z.max (- 2 ^ (bits - 1)) (Z.min (2 ^ (bits - 1) - 1) (Btrunc s))
    else if Bsign s then - 2 ^ (bits - 1) else 2 ^ (bits - 1) - 1.
  Definition cast_u (bits : Z) (s : fl) : Z :=
    if is_nan s then 0
    else if is_finite s then Z.max 0 (Z.min (2 ^ bits - 1) (Btrunc s))
    else if Bsign s then 0 else 2 ^ bits - 1.

  (* $from(x): frac = (x.is_sign_positive() as u8 as $ty) - 0.5; (x * ONE + frac) as _ *)
  Definition from_float (f bits : Z) (v : fl) : Z :=
    let frac := Bminus mode_NE (ofZ (if Bsign v then 0 else 1)) half in
    cast_s bits (Bplus mode_NE (Bmult mode_NE v (ofZ (2 ^ f))) frac).

  (* OtRound: (self + 0.5).floor() [as i16 / as u16] *)
  Definition ot_round (v : fl) : fl := Bnearbyint mode_DN (Bplus mode_NE v half).
  Definition ot_round_i16 (v : fl) : Z := cast_s 16 (ot_round v).
  Definition ot_round_u16 (v : fl) : Z := cast_u 16 (ot_round v).

  Definition sf_eqb (a b : SpecFloat.spec_float) : bool :=
    match a, b with
    | SpecFloat.S754_zero s, SpecFloat.S754_zero t => Bool.eqb s t
    | SpecFloat.S754_infinity s, SpecFloat.S754_infinity t => Bool.eqb s t
    | SpecFloat.S754_nan, SpecFloat.S754_nan => true
    | SpecFloat.S754_finite s m e, SpecFloat.S754_finite t n g => Bool.eqb s t && Pos.eqb m n && Z.eqb e g
    | _, _ => false
    end.
  Definition fl_eqb (a b : fl) : bool := sf_eqb (BinarySingleNaN.B2SF a) (BinarySingleNaN.B2SF b).
End Generic.

(* ---- the two instantiations ---- *)
#[global] Instance Hprec64 : Prec_gt_0 53. Proof. reflexivity. Qed.
#[global] Instance Hmax64 : Prec_lt_emax 53 1024. Proof. reflexivity. Qed.
#[global] Instance Hprec32 : Prec_gt_0 24. Proof. reflexivity. Qed.
#[global] Instance Hmax32 : Prec_lt_emax 24 128. Proof. reflexivity. Qed.

Definition f64_of_bits (b : Z) := B2BSN 53 1024 (b64_of_bits b).
Definition f32_of_bits (b : Z) := B2BSN 24 128 (b32_of_bits b).

Definition fixed_to_f64 (x : Z) := to_float 53 1024 16 x.
Definition fixed_from_f64 v := from_float 53 1024 16 32 v.
Definition f26dot6_to_f64 (x : Z) := to_float 53 1024 6 x.
Definition f26dot6_from_f64 v := from_float 53 1024 6 32 v.
Definition f2dot14_to_f32 (x : Z) := to_float 24 128 14 x.
Definition f2dot14_from_f32 v := from_float 24 128 14 16 v.
Definition f4dot12_to_f32 (x : Z) := to_float 24 128 12 x.
Definition f4dot12_from_f32 v := from_float 24 128 12 16 v.
Definition f6dot10_to_f32 (x : Z) := to_float 24 128 10 x.
Definition f6dot10_from_f32 v := from_float 24 128 10 16 v.

(* ---- correspondence cases (harness/src/bin/c15f.rs): (op, args, result) with floats as IEEE bit
   patterns.  ops: 1 Fixed::to_f64 raw -> bits; 2 Fixed::from_f64 bits -> raw; 3/4 F26Dot6;
   5/6 F2Dot14 f32; 7/8 F4Dot12; 9/10 F6Dot10; 11 f64 ot_round -> f64 bits; 12 f64 ot_round -> i16;
   13 f64 ot_round -> u16; 14/15/16 same for f32 *)
Definition check_case (c : Z * Z * Z) : bool :=
  let '(op, a, r) := c in
  match op with
  | 1 => fl_eqb 53 1024 (fixed_to_f64 a) (f64_of_bits r)
  | 2 => Z.eqb (fixed_from_f64 (f64_of_bits a)) r
  | 3 => fl_eqb 53 1024 (f26dot6_to_f64 a) (f64_of_bits r)
  | 4 => Z.eqb (f26dot6_from_f64 (f64_of_bits a)) r
  | 5 => fl_eqb 24 128 (f2dot14_to_f32 a) (f32_of_bits r)
  | 6 => Z.eqb (f2dot14_from_f32 (f32_of_bits a)) r
  | 7 => fl_eqb 24 128 (f4dot12_to_f32 a) (f32_of_bits r)
  | 8 => Z.eqb (f4dot12_from_f32 (f32_of_bits a)) r
  | 9 => fl_eqb 24 128 (f6dot10_to_f32 a) (f32_of_bits r)
  | 10 => Z.eqb (f6dot10_from_f32 (f32_of_bits a)) r
  | 11 => fl_eqb 53 1024 (ot_round 53 1024 (f64_of_bits a)) (f64_of_bits r)
  | 12 => Z.eqb (ot_round_i16 53 1024 (f64_of_bits a)) r
  | 13 => Z.eqb (ot_round_u16 53 1024 (f64_of_bits a)) r
  | 14 => fl_eqb 24 128 (ot_round 24 128 (f32_of_bits a)) (f32_of_bits r)
  | 15 => Z.eqb (ot_round_i16 24 128 (f32_of_bits a)) r
  | 16 => Z.eqb (ot_round_u16 24 128 (f32_of_bits a)) r
  | _ => false
  end.
