(* C15 (OtRound) — proofs about FloatModel.ot_round = floor (v (+) 0.5), generic in the format.
   The float addition v (+) 0.5 is a rounding; the theorems say exactly what survives it:
   - the result is always floor(y) or floor(y)+1 for the real y = v + 1/2 (bracket);
   - it is floor(y) whenever y is representable, in particular for every integer and every
     half-integer v (the "negative halves" of the property text): half-up exactly;
   - the casts to i16/u16 then saturate that integer.
   The remaining case (y not representable and rounding up to an integer) is real:
   OtRoundExamples.ot_round_half_up_refuted. *)
From Coq Require Import ZArith Reals Lia Lra Bool Psatz.
From Flocq Require Import Core IEEE754.Binary IEEE754.Bits IEEE754.BinarySingleNaN.
From FV Require Import C15.FloatModel C15.FloatProofs.
Open Scope Z_scope.

Section Generic.
  Context (prec emax : Z) {Hp : Prec_gt_0 prec} {Hm : Prec_lt_emax prec emax}.
  Hypothesis Hprec20 : 20 <= prec.
  Hypothesis Hprec64 : prec <= 64.
  Hypothesis Hemax64 : 64 < emax.
  Notation fl := (binary_float prec emax).
  Notation fexp := (FLT_exp (3 - emax - prec) prec).
  Notation half := (half prec emax).
  Notation ot_round := (ot_round prec emax).
  Notation rnd := (round radix2 fexp (round_mode mode_NE)).

  (* |v| <= 2^(prec-1): every integer near v + 1/2 is representable *)
  Definition in_range (v : fl) : Prop := (Rabs (B2R v) <= IZR (2 ^ (prec - 1)))%R.

  Lemma pow_prec_lo : 2 ^ 19 <= 2 ^ (prec - 1).
  Proof. apply Z.pow_le_mono_r; lia. Qed.
  Lemma pow_prec_hi : 2 ^ (prec - 1) <= 2 ^ 63.
  Proof. apply Z.pow_le_mono_r; lia. Qed.
  Lemma pow_prec_dbl : 2 ^ prec = 2 * 2 ^ (prec - 1).
  Proof. rewrite <- Z.pow_succ_r by lia. f_equal. lia. Qed.

  Lemma int_format (n : Z) : Z.abs n < 2 ^ prec -> generic_format radix2 fexp (IZR n).
  Proof.
    intros Hn. replace (IZR n) with (F2R (Float radix2 n 0)) by (unfold F2R; simpl; lra).
    apply (dyadic_format prec emax Hprec20 Hemax64); [exact Hn | lia].
  Qed.

  Lemma fix0_floor (r : R) : round radix2 (FIX_exp 0) Zfloor r = IZR (Zfloor r).
  Proof.
    unfold round, scaled_mantissa, cexp, FIX_exp, F2R. cbn [Fnum Fexp]. simpl bpow.
    rewrite !Rmult_1_r. reflexivity.
  Qed.
  Lemma fix0_trunc_int (n : Z) : round radix2 (FIX_exp 0) Ztrunc (IZR n) = IZR n.
  Proof.
    unfold round, scaled_mantissa, cexp, FIX_exp, F2R. cbn [Fnum Fexp]. simpl bpow.
    rewrite !Rmult_1_r. rewrite Ztrunc_IZR. reflexivity.
  Qed.

  (* the rounded sum stays far below overflow *)
  Lemma rnd_small (y : R) : (Rabs y <= IZR (2 ^ 63) + 1)%R -> (Rabs (rnd y) < bpow radix2 emax)%R.
  Proof.
    intros Hy. apply Rle_lt_trans with (bpow radix2 64).
    - apply abs_round_le_generic; [apply FLT_exp_valid; exact Hp | apply valid_rnd_N | |].
      + apply generic_format_FLT_bpow; [exact Hp | lia].
      + eapply Rle_trans; [exact Hy|]. change (bpow radix2 64) with (IZR (2 ^ 64)).
        rewrite <- (plus_IZR _ 1). apply IZR_le. vm_compute. discriminate.
    - apply bpow_lt. lia.
  Qed.

  (* 1. what ot_round computes, in reals *)
  Lemma ot_round_real (v : fl) : is_finite v = true -> in_range v ->
    is_finite (ot_round v) = true /\
    B2R (ot_round v) = IZR (Zfloor (rnd (B2R v + / 2))).
  Proof.
    intros Fv Hr. unfold in_range in Hr. unfold FloatModel.ot_round.
    destruct (half_exact prec emax Hprec20 Hemax64) as (Rh & Fh).
    pose proof (Bplus_correct prec emax Hp Hm mode_NE v half Fv Fh) as HP.
    rewrite Rh in HP.
    rewrite Rlt_bool_true in HP.
    2:{ apply rnd_small. pose proof pow_prec_hi as H63.
        assert (IZR (2 ^ (prec - 1)) <= IZR (2 ^ 63))%R by (apply IZR_le; exact H63).
        eapply Rle_trans; [apply Rabs_triang|]. rewrite (Rabs_pos_eq (/ 2)) by lra. lra. }
    destruct HP as (RP & FP & _).
    pose proof (Bnearbyint_correct prec emax Hm mode_DN (Bplus mode_NE v half)) as (RN & FN & _).
    split; [rewrite FN; exact FP|].
    rewrite RN, RP. simpl round_mode. apply fix0_floor.
  Qed.

  (* 2. floor of a rounded real is floor or floor+1 of the real *)
  Lemma floor_rnd_bracket (y : R) : (Rabs y <= IZR (2 ^ (prec - 1)) + / 2)%R ->
    Zfloor y <= Zfloor (rnd y) <= Zfloor y + 1.
  Proof.
    intros Hy. pose proof pow_prec_lo as Hlo. change (2 ^ 19) with 524288 in Hlo.
    pose proof pow_prec_dbl as Hdbl.
    set (n := Zfloor y).
    assert (Hn : (IZR n <= y < IZR n + 1)%R) by (split; [apply Zfloor_lb | apply Zfloor_ub]).
    assert (HnB : Z.abs n <= 2 ^ (prec - 1) + 1).
    { apply Rabs_le_inv in Hy. destruct Hy as [Hy1 Hy2].
      assert (- 2 ^ (prec - 1) - 1 <= n).
      { assert (Hlt : (IZR (- 2 ^ (prec - 1) - 2) < IZR n)%R).
        { rewrite minus_IZR, opp_IZR. simpl (IZR 2). lra. }
        apply lt_IZR in Hlt. lia. }
      assert (n <= 2 ^ (prec - 1)).
      { assert (Hlt : (IZR n < IZR (2 ^ (prec - 1) + 1))%R) by (rewrite plus_IZR; simpl (IZR 1); lra).
        apply lt_IZR in Hlt. lia. }
      lia. }
    assert (F1 : generic_format radix2 fexp (IZR n)) by (apply int_format; lia).
    assert (F2 : generic_format radix2 fexp (IZR (n + 1))) by (apply int_format; lia).
    assert (L : (IZR n <= rnd y)%R).
    { apply round_ge_generic; [apply FLT_exp_valid; exact Hp | apply valid_rnd_N | exact F1 | lra]. }
    assert (U : (rnd y <= IZR (n + 1))%R).
    { apply round_le_generic; [apply FLT_exp_valid; exact Hp | apply valid_rnd_N | exact F2 |].
      rewrite plus_IZR. simpl (IZR 1). lra. }
    split.
    - apply Zfloor_lub. exact L.
    - apply le_IZR. eapply Rle_trans; [apply Zfloor_lb | exact U].
  Qed.

  Lemma in_range_sum (v : fl) : in_range v -> (Rabs (B2R v + / 2) <= IZR (2 ^ (prec - 1)) + / 2)%R.
  Proof.
    unfold in_range. intros Hr. eapply Rle_trans; [apply Rabs_triang|].
    rewrite (Rabs_pos_eq (/ 2)) by lra. lra.
  Qed.

  (* the general statement: an integer within one of the exact half-up value, equal to it whenever
     the sum v + 1/2 is representable *)
  Lemma ot_round_bracket (v : fl) : is_finite v = true -> in_range v ->
    exists n : Z, is_finite (ot_round v) = true /\ B2R (ot_round v) = IZR n /\
      Zfloor (B2R v + / 2) <= n <= Zfloor (B2R v + / 2) + 1 /\
      (generic_format radix2 fexp (B2R v + / 2) -> n = Zfloor (B2R v + / 2)).
  Proof.
    intros Fv Hr. destruct (ot_round_real v Fv Hr) as (FO & RO).
    exists (Zfloor (rnd (B2R v + / 2))). split; [exact FO|]. split; [exact RO|]. split.
    - apply floor_rnd_bracket. apply in_range_sum. exact Hr.
    - intros HG. rewrite round_generic; [reflexivity | apply valid_rnd_N | exact HG].
  Qed.

  (* 3. integers and half-integers: v = k/2 gives exactly floor((k+1)/2) — half-up, for both signs *)
  Lemma floor_half (k : Z) : Zfloor (IZR k / 2 + / 2) = (k + 1) / 2.
  Proof.
    apply Zfloor_imp. pose proof (Z.div_mod (k + 1) 2 ltac:(lia)) as HD.
    pose proof (Z.mod_pos_bound (k + 1) 2 ltac:(lia)) as HM.
    set (q := (k + 1) / 2) in *. set (r := (k + 1) mod 2) in *.
    assert (Hk : IZR k = (2 * IZR q + IZR r - 1)%R).
    { replace k with (2 * q + r - 1) by lia. rewrite minus_IZR, plus_IZR, mult_IZR. simpl. lra. }
    assert (Hr : (0 <= IZR r <= 1)%R) by (split; [apply (IZR_le 0)|apply (IZR_le _ 1)]; lia).
    rewrite plus_IZR, Hk. simpl (IZR 1). lra.
  Qed.

  Lemma ot_round_halves (v : fl) (k : Z) : is_finite v = true ->
    B2R v = (IZR k / 2)%R -> Z.abs k <= 2 ^ prec - 2 ->
    is_finite (ot_round v) = true /\ B2R (ot_round v) = IZR ((k + 1) / 2).
  Proof.
    intros Fv Rv Hk. pose proof pow_prec_dbl as Hdbl.
    pose proof pow_prec_lo as Hlo. change (2 ^ 19) with 524288 in Hlo.
    assert (Hr : in_range v).
    { unfold in_range. rewrite Rv. apply Rabs_le.
      assert (- IZR (2 ^ prec) <= IZR k <= IZR (2 ^ prec))%R.
      { rewrite <- opp_IZR. split; apply IZR_le; lia. }
      rewrite Hdbl, mult_IZR in H. simpl (IZR 2) in H. lra. }
    destruct (ot_round_real v Fv Hr) as (FO & RO). split; [exact FO|].
    rewrite RO. f_equal. rewrite Rv.
    rewrite round_generic; [apply floor_half | apply valid_rnd_N |].
    replace (IZR k / 2 + / 2)%R with (F2R (Float radix2 (k + 1) (-1))).
    - apply (dyadic_format prec emax Hprec20 Hemax64); lia.
    - unfold F2R. cbn [Fnum Fexp]. rewrite plus_IZR. simpl. lra.
  Qed.

  (* 4. the integer casts of an integer-valued finite float *)
  Lemma cast_s_int bits (s : fl) (n : Z) : is_finite s = true -> B2R s = IZR n ->
    cast_s prec emax bits s = Z.max (- 2 ^ (bits - 1)) (Z.min (2 ^ (bits - 1) - 1) n).
  Proof.
    intros Fs Rs. unfold cast_s. rewrite (is_finite_not_is_nan prec emax _ Fs), Fs.
    replace (Btrunc s) with n; [reflexivity|].
    apply eq_IZR. rewrite (Btrunc_correct prec emax Hm), Rs. symmetry. apply fix0_trunc_int.
  Qed.
  Lemma cast_u_int bits (s : fl) (n : Z) : is_finite s = true -> B2R s = IZR n ->
    cast_u prec emax bits s = Z.max 0 (Z.min (2 ^ bits - 1) n).
  Proof.
    intros Fs Rs. unfold cast_u. rewrite (is_finite_not_is_nan prec emax _ Fs), Fs.
    replace (Btrunc s) with n; [reflexivity|].
    apply eq_IZR. rewrite (Btrunc_correct prec emax Hm), Rs. symmetry. apply fix0_trunc_int.
  Qed.

  Lemma ot_round_i16_halves (v : fl) (k : Z) : is_finite v = true ->
    B2R v = (IZR k / 2)%R -> Z.abs k <= 2 ^ prec - 2 ->
    ot_round_i16 prec emax v = Z.max (-32768) (Z.min 32767 ((k + 1) / 2)).
  Proof.
    intros Fv Rv Hk. destruct (ot_round_halves v k Fv Rv Hk) as (FO & RO).
    unfold ot_round_i16. rewrite (cast_s_int 16 _ _ FO RO). reflexivity.
  Qed.
  Lemma ot_round_u16_halves (v : fl) (k : Z) : is_finite v = true ->
    B2R v = (IZR k / 2)%R -> Z.abs k <= 2 ^ prec - 2 ->
    ot_round_u16 prec emax v = Z.max 0 (Z.min 65535 ((k + 1) / 2)).
  Proof.
    intros Fv Rv Hk. destruct (ot_round_halves v k Fv Rv Hk) as (FO & RO).
    unfold ot_round_u16. rewrite (cast_u_int 16 _ _ FO RO). reflexivity.
  Qed.

  (* the casts in general: the saturated bracket *)
  Lemma ot_round_i16_bracket (v : fl) : is_finite v = true -> in_range v ->
    exists n, Zfloor (B2R v + / 2) <= n <= Zfloor (B2R v + / 2) + 1 /\
      ot_round_i16 prec emax v = Z.max (-32768) (Z.min 32767 n).
  Proof.
    intros Fv Hr. destruct (ot_round_bracket v Fv Hr) as (n & FO & RO & Hn & _).
    exists n. split; [exact Hn|]. unfold ot_round_i16. rewrite (cast_s_int 16 _ _ FO RO). reflexivity.
  Qed.
End Generic.

(* ---- the two formats the code uses ---- *)
Lemma ot_round_f64_halves v k : is_finite v = true -> B2R v = (IZR k / 2)%R -> Z.abs k <= 2 ^ 53 - 2 ->
  is_finite (ot_round 53 1024 v) = true /\ B2R (ot_round 53 1024 v) = IZR ((k + 1) / 2).
Proof. apply ot_round_halves; lia. Qed.
Lemma ot_round_f32_halves v k : is_finite v = true -> B2R v = (IZR k / 2)%R -> Z.abs k <= 2 ^ 24 - 2 ->
  is_finite (ot_round 24 128 v) = true /\ B2R (ot_round 24 128 v) = IZR ((k + 1) / 2).
Proof. apply ot_round_halves; lia. Qed.
Lemma ot_round_f64_i16_halves v k : is_finite v = true -> B2R v = (IZR k / 2)%R -> Z.abs k <= 2 ^ 53 - 2 ->
  ot_round_i16 53 1024 v = Z.max (-32768) (Z.min 32767 ((k + 1) / 2)).
Proof. apply ot_round_i16_halves; lia. Qed.
Lemma ot_round_f32_i16_halves v k : is_finite v = true -> B2R v = (IZR k / 2)%R -> Z.abs k <= 2 ^ 24 - 2 ->
  ot_round_i16 24 128 v = Z.max (-32768) (Z.min 32767 ((k + 1) / 2)).
Proof. apply ot_round_i16_halves; lia. Qed.
Lemma ot_round_f64_u16_halves v k : is_finite v = true -> B2R v = (IZR k / 2)%R -> Z.abs k <= 2 ^ 53 - 2 ->
  ot_round_u16 53 1024 v = Z.max 0 (Z.min 65535 ((k + 1) / 2)).
Proof. apply ot_round_u16_halves; lia. Qed.
Lemma ot_round_f32_u16_halves v k : is_finite v = true -> B2R v = (IZR k / 2)%R -> Z.abs k <= 2 ^ 24 - 2 ->
  ot_round_u16 24 128 v = Z.max 0 (Z.min 65535 ((k + 1) / 2)).
Proof. apply ot_round_u16_halves; lia. Qed.
Lemma ot_round_f64_bracket v : is_finite v = true -> (Rabs (B2R v) <= IZR (2 ^ 52))%R ->
  exists n : Z, is_finite (ot_round 53 1024 v) = true /\ B2R (ot_round 53 1024 v) = IZR n /\
    Zfloor (B2R v + / 2) <= n <= Zfloor (B2R v + / 2) + 1 /\
    (generic_format radix2 (FLT_exp (3 - 1024 - 53) 53) (B2R v + / 2) -> n = Zfloor (B2R v + / 2)).
Proof. intros Fv Hr. apply ot_round_bracket; try lia; assumption. Qed.
Lemma ot_round_f32_bracket v : is_finite v = true -> (Rabs (B2R v) <= IZR (2 ^ 23))%R ->
  exists n : Z, is_finite (ot_round 24 128 v) = true /\ B2R (ot_round 24 128 v) = IZR n /\
    Zfloor (B2R v + / 2) <= n <= Zfloor (B2R v + / 2) + 1 /\
    (generic_format radix2 (FLT_exp (3 - 128 - 24) 24) (B2R v + / 2) -> n = Zfloor (B2R v + / 2)).
Proof. intros Fv Hr. apply ot_round_bracket; try lia; assumption. Qed.

Section Sharp.
  (* ---- sharp form: the result IS floor(v + 1/2) for every finite |v| <= 2^(prec-1) - 1 except the
     single value pred(1/2) = 1/2 - 2^(-prec-1) ---- *)
  Context (prec emax : Z) {Hp : Prec_gt_0 prec} {Hm : Prec_lt_emax prec emax}.
  Hypothesis Hprec20 : 20 <= prec.
  Hypothesis Hprec64 : prec <= 64.
  Hypothesis Hemax64 : 64 < emax.
  Notation fl := (binary_float prec emax).
  Notation emin := (3 - emax - prec).
  Notation fexp := (FLT_exp emin prec).
  Notation rnd := (round radix2 fexp (round_mode mode_NE)).

  Lemma fmt_scaled (K e : Z) : Z.abs K < 2 ^ prec -> emin <= e ->
    generic_format radix2 fexp (IZR K * bpow radix2 e).
  Proof.
    intros HK He. apply generic_format_FLT.
    exists (Float radix2 K e); [reflexivity | exact HK | exact He].
  Qed.

  Lemma canonical_repr (x : R) : generic_format radix2 fexp x -> x <> 0%R -> emin <= mag radix2 x - prec ->
    exists M : Z, x = (IZR M * bpow radix2 (mag radix2 x - prec))%R /\ Z.abs M < 2 ^ prec.
  Proof.
    intros Fx Hx0 He. set (g := mag radix2 x : Z) in *.
    assert (Hc : cexp radix2 fexp x = g - prec).
    { unfold cexp, FLT_exp. fold g. lia. }
    exists (Ztrunc (scaled_mantissa radix2 fexp x)). split.
    - rewrite <- Hc. exact Fx.
    - set (M := Ztrunc (scaled_mantissa radix2 fexp x)).
      assert (HxM : x = (IZR M * bpow radix2 (g - prec))%R) by (rewrite <- Hc; exact Fx).
      pose proof (bpow_mag_gt radix2 x) as Hgt. fold g in Hgt.
      rewrite HxM in Hgt. rewrite Rabs_mult in Hgt. rewrite (Rabs_pos_eq (bpow radix2 (g - prec))) in Hgt by apply bpow_ge_0.
      assert (Hlt : (Rabs (IZR M) < bpow radix2 prec)%R).
      { apply Rmult_lt_reg_r with (bpow radix2 (g - prec)); [apply bpow_gt_0|].
        rewrite <- bpow_plus. replace (prec + (g - prec)) with g by lia. exact Hgt. }
      rewrite <- abs_IZR in Hlt. rewrite <- IZR_Zpower in Hlt by lia. apply lt_IZR in Hlt. exact Hlt.
  Qed.

  Lemma half_is_bpow : (/ 2 = bpow radix2 (-1))%R.
  Proof. simpl. lra. Qed.

  Lemma IZR_pow2' f : 0 <= f -> IZR (2 ^ f) = bpow radix2 f.
  Proof. intros. rewrite <- (IZR_Zpower radix2) by lia. reflexivity. Qed.

  (* small inputs: |x| < 1/2 *)
  Lemma floor_rnd_small (x : R) : generic_format radix2 fexp x -> (Rabs x < / 2)%R ->
    x <> (/ 2 - bpow radix2 (- prec - 1))%R ->
    Zfloor (rnd (x + / 2)) = 0.
  Proof.
    intros Fx Hx Hne. apply Rabs_lt_inv in Hx.
    assert (Vexp : Valid_exp fexp) by (apply FLT_exp_valid; exact Hp).
    assert (L : (0 <= rnd (x + / 2))%R).
    { apply round_ge_generic; [exact Vexp | apply valid_rnd_N | apply generic_format_0 | lra]. }
    assert (U : (rnd (x + / 2) < 1)%R).
    { destruct (Rlt_dec x (/ 4)) as [Hq|Hq].
      - apply Rle_lt_trans with (3 / 4)%R; [|lra].
        apply round_le_generic; [exact Vexp | apply valid_rnd_N | | lra].
        replace (3 / 4)%R with (IZR 3 * bpow radix2 (-2))%R by (simpl; lra).
        apply fmt_scaled; [|lia]. apply Z.lt_le_trans with (2 ^ 20); [reflexivity|apply Z.pow_le_mono_r; lia].
      - apply Rnot_lt_le in Hq.
        assert (Hmag : mag radix2 x = (-1) :> Z).
        { apply mag_unique. rewrite Rabs_pos_eq by lra. simpl. lra. }
        assert (Hx0 : x <> 0%R) by lra.
        destruct (canonical_repr x Fx Hx0 ltac:(rewrite Hmag; lia)) as (M & HxM & HM).
        rewrite Hmag in HxM. replace (-1 - prec) with (- prec - 1) in HxM by lia.
        assert (Hb : (bpow radix2 (- prec - 1) * bpow radix2 prec = / 2)%R).
        { rewrite <- bpow_plus. replace (- prec - 1 + prec) with (-1) by lia. simpl. lra. }
        assert (Hbp : (0 < bpow radix2 (- prec - 1))%R) by apply bpow_gt_0.
        assert (HM2 : M <= 2 ^ prec - 2).
        { assert (M <> 2 ^ prec - 1).
          { intros ->. apply Hne. rewrite HxM. rewrite minus_IZR, IZR_pow2' by lia. simpl (IZR 1). lra. }
          lia. }
        apply IZR_le in HM2. rewrite minus_IZR, IZR_pow2' in HM2 by lia. simpl (IZR 2) in HM2.
        (* x <= 1/2 - 2 * bpow(-prec-1) = 1/2 - bpow(-prec) *)
        assert (Hb2 : (2 * bpow radix2 (- prec - 1) = bpow radix2 (- prec))%R).
        { change 2%R with (bpow radix2 1). rewrite <- bpow_plus. f_equal. lia. }
        assert (Hxle : (x <= / 2 - bpow radix2 (- prec))%R).
        { rewrite HxM. rewrite <- Hb2.
          apply Rle_trans with ((bpow radix2 prec - 2) * bpow radix2 (- prec - 1))%R.
          - apply Rmult_le_compat_r; lra.
          - lra. }
        assert (Hbp' : (0 < bpow radix2 (- prec))%R) by apply bpow_gt_0.
        apply Rle_lt_trans with (1 - bpow radix2 (- prec))%R; [|lra].
        apply round_le_generic; [exact Vexp | apply valid_rnd_N | | lra].
        replace (1 - bpow radix2 (- prec))%R with (IZR (2 ^ prec - 1) * bpow radix2 (- prec))%R.
        + apply fmt_scaled; [|lia]. assert (0 < 2 ^ prec) by (apply Z.pow_pos_nonneg; lia). lia.
        + rewrite minus_IZR, IZR_pow2' by lia. simpl (IZR 1).
          rewrite Rmult_minus_distr_r, <- bpow_plus. replace (prec + - prec) with 0 by lia. simpl. lra. }
    apply Zfloor_imp. change (0 + 1) with 1. lra.
  Qed.

  Lemma floor_rnd_large (x : R) : generic_format radix2 fexp x -> (/ 2 <= Rabs x)%R ->
    (Rabs x <= IZR (2 ^ (prec - 1) - 1))%R ->
    Zfloor (rnd (x + / 2)) = Zfloor (x + / 2).
  Proof.
    intros Fx Hlo Hhi.
    assert (Vexp : Valid_exp fexp) by (apply FLT_exp_valid; exact Hp).
    assert (Hx0 : x <> 0%R).
    { intros ->. rewrite Rabs_R0 in Hlo. lra. }
    set (g := mag radix2 x : Z).
    pose proof (bpow_mag_gt radix2 x) as Hgt. pose proof (bpow_mag_le radix2 x Hx0) as Hle.
    fold g in Hgt, Hle.
    assert (Hg0 : 0 <= g).
    { assert (Hlt : (bpow radix2 (-1) < bpow radix2 g)%R) by (rewrite <- half_is_bpow; lra).
      apply lt_bpow in Hlt. lia. }
    assert (Hgp : g <= prec - 1).
    { assert (Hlt : (bpow radix2 (g - 1) < bpow radix2 (prec - 1))%R).
      { eapply Rle_lt_trans; [exact Hle|]. eapply Rle_lt_trans; [exact Hhi|].
        rewrite <- IZR_pow2' by lia. apply IZR_lt. lia. }
      apply lt_bpow in Hlt. lia. }
    destruct (canonical_repr x Fx Hx0 ltac:(fold g; lia)) as (M & HxM & HM). fold g in HxM.
    set (e := g - prec) in *.
    assert (He : - prec <= e <= -1) by (subst e; lia).
    (* 1/2 on the same grid *)
    assert (Hhalf : (/ 2 = IZR (2 ^ (- e - 1)) * bpow radix2 e)%R).
    { rewrite IZR_pow2' by lia. rewrite <- bpow_plus. replace (- e - 1 + e) with (-1) by lia. apply half_is_bpow. }
    set (K := M + 2 ^ (- e - 1)).
    assert (HyK : (x + / 2 = IZR K * bpow radix2 e)%R).
    { subst K. rewrite plus_IZR, Rmult_plus_distr_r, <- Hhalf, <- HxM. reflexivity. }
    destruct (Z_lt_dec (Z.abs K) (2 ^ prec)) as [HK|HK].
    - rewrite round_generic; [reflexivity | apply valid_rnd_N |].
      rewrite HyK. apply fmt_scaled; [exact HK | subst e; lia].
    - (* the sum leaves the binade upwards *)
      assert (Hpw : 0 < 2 ^ (- e - 1) <= 2 ^ (prec - 1)).
      { split; [apply Z.pow_pos_nonneg; lia | apply Z.pow_le_mono_r; lia]. }
      assert (Hdbl : 2 ^ prec = 2 * 2 ^ (prec - 1)).
      { rewrite <- Z.pow_succ_r by lia. f_equal. lia. }
      assert (HMpos : 0 < M) by (subst K; lia).
      assert (HK2 : 2 ^ prec <= K) by (subst K; lia).
      assert (Hbe : (0 < bpow radix2 e)%R) by apply bpow_gt_0.
      assert (Hxpos : (0 < x)%R).
      { rewrite HxM. apply Rmult_lt_0_compat; [apply IZR_lt; lia | exact Hbe]. }
      rewrite Rabs_pos_eq in Hgt, Hhi by lra.
      assert (Hyge : (bpow radix2 g <= x + / 2)%R).
      { rewrite HyK. replace g with (prec + e) by (subst e; lia). rewrite bpow_plus.
        apply Rmult_le_compat_r; [lra|]. rewrite <- IZR_pow2' by lia. apply IZR_le. exact HK2. }
      (* g = prec - 1 is impossible in range *)
      assert (Hg2 : g <= prec - 2).
      { destruct (Z.eq_dec g (prec - 1)) as [Hgeq|]; [|lia]. exfalso.
        rewrite Hgeq in Hyge. rewrite <- IZR_pow2' in Hyge by lia.
        rewrite minus_IZR in Hhi. simpl (IZR 1) in Hhi. lra. }
      set (G := 2 ^ g).
      assert (HG : bpow radix2 g = IZR G) by (subst G; rewrite IZR_pow2' by lia; reflexivity).
      rewrite HG in *.
      assert (HGp : 0 < G /\ 4 * G <= 2 ^ prec).
      { subst G. split; [apply Z.pow_pos_nonneg; lia|].
        change 4 with (2 ^ 2). rewrite <- Z.pow_add_r by lia. apply Z.pow_le_mono_r; lia. }
      assert (L : (IZR G <= rnd (x + / 2))%R).
      { apply round_ge_generic; [exact Vexp | apply valid_rnd_N | | lra].
        replace (IZR G) with (IZR G * bpow radix2 0)%R by (simpl; lra). apply fmt_scaled; lia. }
      assert (U : (rnd (x + / 2) <= IZR G + / 2)%R).
      { apply round_le_generic; [exact Vexp | apply valid_rnd_N | | lra].
        replace (IZR G + / 2)%R with (IZR (2 * G + 1) * bpow radix2 (-1))%R.
        - apply fmt_scaled; lia.
        - rewrite plus_IZR, mult_IZR. simpl. lra. }
      transitivity G.
      + apply Zfloor_imp. rewrite plus_IZR. simpl (IZR 1). lra.
      + symmetry. apply Zfloor_imp. rewrite plus_IZR. simpl (IZR 1). lra.
  Qed.

  Notation ot_round := (ot_round prec emax).

  Lemma floor_rnd_exact (x : R) : generic_format radix2 fexp x ->
    (Rabs x <= IZR (2 ^ (prec - 1) - 1))%R -> x <> (/ 2 - bpow radix2 (- prec - 1))%R ->
    Zfloor (rnd (x + / 2)) = Zfloor (x + / 2).
  Proof.
    intros Fx Hhi Hne. destruct (Rlt_dec (Rabs x) (/ 2)) as [Hs|Hl].
    - rewrite (floor_rnd_small x Fx Hs Hne). symmetry. apply Rabs_lt_inv in Hs.
      apply Zfloor_imp. change (0 + 1) with 1. lra.
    - apply floor_rnd_large; [exact Fx | lra | exact Hhi].
  Qed.

  Lemma ot_round_sharp (v : fl) : is_finite v = true ->
    (Rabs (B2R v) <= IZR (2 ^ (prec - 1) - 1))%R ->
    B2R v <> (/ 2 - bpow radix2 (- prec - 1))%R ->
    is_finite (ot_round v) = true /\ B2R (ot_round v) = IZR (Zfloor (B2R v + / 2)).
  Proof.
    intros Fv Hhi Hne.
    assert (Hr : in_range prec emax v).
    { unfold in_range. eapply Rle_trans; [exact Hhi|]. apply IZR_le. lia. }
    destruct (ot_round_real prec emax Hprec20 Hprec64 Hemax64 v Fv Hr) as (FO & RO).
    split; [exact FO|]. rewrite RO. f_equal.
    apply floor_rnd_exact; [apply generic_format_B2R | exact Hhi | exact Hne].
  Qed.

  Lemma ot_round_i16_sharp (v : fl) : is_finite v = true ->
    (Rabs (B2R v) <= IZR (2 ^ (prec - 1) - 1))%R ->
    B2R v <> (/ 2 - bpow radix2 (- prec - 1))%R ->
    ot_round_i16 prec emax v = Z.max (-32768) (Z.min 32767 (Zfloor (B2R v + / 2))).
  Proof.
    intros Fv Hhi Hne. destruct (ot_round_sharp v Fv Hhi Hne) as (FO & RO).
    unfold ot_round_i16. rewrite (cast_s_int prec emax 16 _ _ FO RO). reflexivity.
  Qed.
  Lemma ot_round_u16_sharp (v : fl) : is_finite v = true ->
    (Rabs (B2R v) <= IZR (2 ^ (prec - 1) - 1))%R ->
    B2R v <> (/ 2 - bpow radix2 (- prec - 1))%R ->
    ot_round_u16 prec emax v = Z.max 0 (Z.min 65535 (Zfloor (B2R v + / 2))).
  Proof.
    intros Fv Hhi Hne. destruct (ot_round_sharp v Fv Hhi Hne) as (FO & RO).
    unfold ot_round_u16. rewrite (cast_u_int prec emax 16 _ _ FO RO). reflexivity.
  Qed.
End Sharp.

Lemma ot_round_f64_sharp v : is_finite v = true -> (Rabs (B2R v) <= IZR (2 ^ 52 - 1))%R ->
  B2R v <> (/ 2 - bpow radix2 (-54))%R ->
  is_finite (ot_round 53 1024 v) = true /\ B2R (ot_round 53 1024 v) = IZR (Zfloor (B2R v + / 2)).
Proof. intros. apply ot_round_sharp; try lia; assumption. Qed.
Lemma ot_round_f32_sharp v : is_finite v = true -> (Rabs (B2R v) <= IZR (2 ^ 23 - 1))%R ->
  B2R v <> (/ 2 - bpow radix2 (-25))%R ->
  is_finite (ot_round 24 128 v) = true /\ B2R (ot_round 24 128 v) = IZR (Zfloor (B2R v + / 2)).
Proof. intros. apply ot_round_sharp; try lia; assumption. Qed.
Lemma ot_round_f64_i16_sharp v : is_finite v = true -> (Rabs (B2R v) <= IZR (2 ^ 52 - 1))%R ->
  B2R v <> (/ 2 - bpow radix2 (-54))%R ->
  ot_round_i16 53 1024 v = Z.max (-32768) (Z.min 32767 (Zfloor (B2R v + / 2))).
Proof. intros. apply ot_round_i16_sharp; try lia; assumption. Qed.
Lemma ot_round_f32_i16_sharp v : is_finite v = true -> (Rabs (B2R v) <= IZR (2 ^ 23 - 1))%R ->
  B2R v <> (/ 2 - bpow radix2 (-25))%R ->
  ot_round_i16 24 128 v = Z.max (-32768) (Z.min 32767 (Zfloor (B2R v + / 2))).
Proof. intros. apply ot_round_i16_sharp; try lia; assumption. Qed.
Lemma ot_round_f64_u16_sharp v : is_finite v = true -> (Rabs (B2R v) <= IZR (2 ^ 52 - 1))%R ->
  B2R v <> (/ 2 - bpow radix2 (-54))%R ->
  ot_round_u16 53 1024 v = Z.max 0 (Z.min 65535 (Zfloor (B2R v + / 2))).
Proof. intros. apply ot_round_u16_sharp; try lia; assumption. Qed.
Lemma ot_round_f32_u16_sharp v : is_finite v = true -> (Rabs (B2R v) <= IZR (2 ^ 23 - 1))%R ->
  B2R v <> (/ 2 - bpow radix2 (-25))%R ->
  ot_round_u16 24 128 v = Z.max 0 (Z.min 65535 (Zfloor (B2R v + / 2))).
Proof. intros. apply ot_round_u16_sharp; try lia; assumption. Qed.
