(* C15 — lemmas about the model in Model.v.  Props.v restates the property-level theorems. *)
From Coq Require Import ZArith Lia List Bool.
From Coq Require Import ZifyBool.
From FV Require Import Lib.RustInt C15.Model.
Import ListNotations.
Open Scope Z_scope.
Ltac Zify.zify_post_hook ::= Z.div_mod_to_equations.

Definition i32 (z : Z) : Prop := -2147483648 <= z <= 2147483647.
Definition i16 (z : Z) : Prop := -32768 <= z <= 32767.

Lemma wrap_s32_id z : i32 z -> wrap_s 32 z = z.
Proof. intros H. apply wrap_s_id; [lia|]. change (2 ^ (32 - 1)) with 2147483648. unfold i32 in H. lia. Qed.

Lemma wrap_s32_range z : i32 (wrap_s 32 z).
Proof. pose proof (wrap_s_range 32 z ltac:(lia)) as H. change (2 ^ (32 - 1)) with 2147483648 in H. unfold i32. lia. Qed.

(* ---- rha facts ---- *)
Lemma rha_pos n d : 0 <= n -> 0 < d -> rha n d = (2 * n + d) / (2 * d).
Proof.
  intros Hn Hd. unfold rha. rewrite (Z.abs_eq n), (Z.abs_eq d) by lia.
  destruct (Z.eq_dec n 0) as [->|Hz].
  - cbn [Z.sgn]. rewrite Z.mul_0_l. rewrite Z.mul_0_r, Z.add_0_l. symmetry. apply Z.div_small. lia.
  - rewrite (Z.sgn_pos n), (Z.sgn_pos d) by lia. lia.
Qed.

Lemma rha_neg n d : n < 0 -> 0 < d -> rha n d = - ((2 * (- n) + d) / (2 * d)).
Proof.
  intros Hn Hd. unfold rha. rewrite (Z.abs_neq n), (Z.abs_eq d) by lia.
  rewrite (Z.sgn_neg n), (Z.sgn_pos d) by lia. lia.
Qed.

Lemma rha_opp_l n d : d <> 0 -> rha (- n) d = - rha n d.
Proof.
  intros Hd. unfold rha. rewrite Z.abs_opp, Z.sgn_opp. lia.
Qed.

Lemma rha_opp_r n d : rha n (- d) = - rha n d.
Proof. unfold rha. rewrite Z.abs_opp, Z.sgn_opp. lia. Qed.

(* ---- multiplication ---- *)
Lemma mul_core n : Z.shiftr (n + 32768 - (if n <? 0 then 1 else 0)) 16 = rha n 65536.
Proof.
  rewrite Z.shiftr_div_pow2 by lia. change (2 ^ 16) with 65536.
  destruct (n <? 0) eqn:E.
  - rewrite rha_neg by lia. lia.
  - rewrite rha_pos by lia. lia.
Qed.

Lemma fixed_mul_spec a b : i32 (rha (a * b) 65536) -> fixed_mul a b = rha (a * b) 65536.
Proof.
  intros H. unfold fixed_mul. cbv zeta. rewrite mul_core. apply wrap_s32_id. exact H.
Qed.

(* ---- division ---- *)
Lemma wrap_u32_of_abs a : i32 a ->
  wrap_u 32 (if a <? 0 then wrap_s 32 (- a) else a) = Z.abs a.
Proof.
  intros H. unfold i32 in H. unfold wrap_u, wrap_s. change (2 ^ 32) with 4294967296.
  change (2 ^ (32 - 1)) with 2147483648.
  destruct (a <? 0) eqn:E; lia.
Qed.

Lemma wrap_s32_u32 q : wrap_s 32 (wrap_u 32 q) = wrap_s 32 q.
Proof.
  unfold wrap_s, wrap_u. change (2 ^ 32) with 4294967296. change (2 ^ (32 - 1)) with 2147483648. lia.
Qed.

Lemma wrap_s32_neg_wrap q : wrap_s 32 (- wrap_s 32 q) = wrap_s 32 (- q).
Proof.
  unfold wrap_s. change (2 ^ 32) with 4294967296. change (2 ^ (32 - 1)) with 2147483648. lia.
Qed.

Lemma half_div x d : 0 <= x -> 0 < d -> (x + d / 2) / d = (2 * x + d) / (2 * d).
Proof.
  intros Hx Hd. rewrite <- (Z.div_div (2 * x + d) 2 d) by lia.
  f_equal. lia.
Qed.

(* sign/magnitude form of rha *)
Lemma rha_sign_mag n d : d <> 0 ->
  rha n d = (if xorb (n <? 0) (d <? 0) then -1 else 1) * ((2 * Z.abs n + Z.abs d) / (2 * Z.abs d)).
Proof.
  intros Hd. unfold rha.
  destruct (Z.eq_dec n 0) as [->|Hn].
  - cbn [Z.abs Z.sgn]. rewrite Z.mul_0_r, Z.add_0_l, Z.mul_0_l.
    rewrite Z.div_small by lia. lia.
  - f_equal.
    destruct (n <? 0) eqn:En; destruct (d <? 0) eqn:Ed; cbn [xorb].
    + rewrite (Z.sgn_neg n), (Z.sgn_neg d) by lia. reflexivity.
    + rewrite (Z.sgn_neg n), (Z.sgn_pos d) by lia. reflexivity.
    + rewrite (Z.sgn_pos n), (Z.sgn_neg d) by lia. reflexivity.
    + rewrite (Z.sgn_pos n), (Z.sgn_pos d) by lia. reflexivity.
Qed.

Lemma fixed_div_spec a b : i32 a -> i32 b -> b <> 0 -> i32 (rha (a * 65536) b) ->
  fixed_div a b = rha (a * 65536) b.
Proof.
  intros Ha Hb Hnz Hr. unfold fixed_div. cbv zeta.
  rewrite (wrap_u32_of_abs a Ha), (wrap_u32_of_abs b Hb).
  assert (Hbz : (Z.abs b =? 0) = false) by lia. rewrite Hbz.
  rewrite Z.shiftl_mul_pow2, Z.shiftr_div_pow2 by lia. change (2 ^ 16) with 65536. change (2 ^ 1) with 2.
  rewrite wrap_s32_u32. rewrite wrap_s32_neg_wrap.
  rewrite half_div by lia.
  rewrite (rha_sign_mag _ _ Hnz) in *.
  replace (a * 65536 <? 0) with (a <? 0) in * by lia.
  replace (Z.abs (a * 65536)) with (Z.abs a * 65536) in * by lia.
  set (q := (2 * (Z.abs a * 65536) + Z.abs b) / (2 * Z.abs b)) in *.
  destruct (a <? 0) eqn:Ea; destruct (b <? 0) eqn:Eb; cbn [xorb] in *.
  - change (- -1 <? 0) with false. cbv iota. rewrite Z.mul_1_l in *. apply wrap_s32_id; exact Hr.
  - change (-1 <? 0) with true. cbv iota. replace (-1 * q) with (- q) in * by lia. apply wrap_s32_id; exact Hr.
  - change (- (1) <? 0) with true. cbv iota. replace (-1 * q) with (- q) in * by lia. apply wrap_s32_id; exact Hr.
  - change (1 <? 0) with false. cbv iota. rewrite Z.mul_1_l in *. apply wrap_s32_id; exact Hr.
Qed.

Lemma fixed_div_zero a : i32 a -> fixed_div a 0 = if a <? 0 then -2147483647 else 2147483647.
Proof.
  intros Ha. unfold fixed_div. cbv zeta. change (0 <? 0) with false. cbv iota.
  change (wrap_u 32 0 =? 0) with true. cbv iota.
  destruct (a <? 0); reflexivity.
Qed.

(* ---- mul_div ---- *)
Lemma wrap_u64_abs x : i32 x ->
  (if x <? 0 then wrap_u 64 (0 - wrap_u 64 x) else wrap_u 64 x) = Z.abs x.
Proof.
  intros H. unfold i32 in H. unfold wrap_u. change (2 ^ 64) with 18446744073709551616.
  destruct (x <? 0) eqn:E; lia.
Qed.

Lemma mul_sign s a : s <> 0 -> a <> 0 -> (s * a <? 0) = xorb (s <? 0) (a <? 0).
Proof. intros Hs Ha. destruct (s <? 0) eqn:Es, (a <? 0) eqn:Ea; cbn [xorb]; nia. Qed.

Lemma rha_zero d : rha 0 d = 0.
Proof. unfold rha. cbn [Z.sgn]. lia. Qed.

Lemma fixed_mul_div_spec s a b : i32 s -> i32 a -> i32 b -> b <> 0 -> i32 (rha (s * a) b) ->
  fixed_mul_div s a b = rha (s * a) b.
Proof.
  intros Hs Ha Hb Hnz Hr. unfold fixed_mul_div. cbv zeta.
  rewrite (wrap_u64_abs s Hs), (wrap_u64_abs a Ha), (wrap_u64_abs b Hb).
  assert (Hbp : (0 <? Z.abs b) = true) by lia. rewrite Hbp.
  assert (Hprod : 0 <= Z.abs s * Z.abs a < 4611686018427387905) by (unfold i32 in *; nia).
  rewrite (wrap_u_id 64 (Z.abs s * Z.abs a)) by (change (2 ^ 64) with 18446744073709551616; lia).
  rewrite Z.shiftr_div_pow2 by lia. change (2 ^ 1) with 2.
  rewrite (wrap_u_id 64) by (change (2 ^ 64) with 18446744073709551616; unfold i32 in *; lia).
  rewrite half_div by lia.
  rewrite wrap_s32_neg_wrap.
  destruct (Z.eq_dec (s * a) 0) as [Hz|Hnz2].
  - rewrite Hz, rha_zero. assert (Hm : Z.abs s * Z.abs a = 0) by nia. rewrite Hm.
    rewrite Z.mul_0_r, Z.add_0_l. rewrite (Z.div_small (Z.abs b)) by lia.
    destruct (_ <? 0); reflexivity.
  - assert (s <> 0 /\ a <> 0) as [Hs0 Ha0] by nia.
    rewrite (rha_sign_mag _ _ Hnz) in *. rewrite (mul_sign s a Hs0 Ha0) in *.
    rewrite Z.abs_mul in *.
    set (q := (2 * (Z.abs s * Z.abs a) + Z.abs b) / (2 * Z.abs b)) in *.
    destruct (s <? 0) eqn:Es; destruct (a <? 0) eqn:Ea; destruct (b <? 0) eqn:Eb; cbn [xorb] in *;
      cbn [Z.opp Z.ltb Z.compare]; cbv iota;
      rewrite ?Z.mul_1_l in *; replace (-1 * q) with (- q) in * by lia; apply wrap_s32_id; exact Hr.
Qed.

Lemma fixed_mul_div_zero s a : i32 s -> i32 a ->
  fixed_mul_div s a 0 = if xorb (s <? 0) (a <? 0) then -2147483647 else 2147483647.
Proof.
  intros Hs Ha. unfold fixed_mul_div. cbv zeta.
  rewrite (wrap_u64_abs s Hs), (wrap_u64_abs a Ha).
  change (0 <? 0) with false. cbv iota. change (0 <? wrap_u 64 0) with false. cbv iota.
  destruct (s <? 0), (a <? 0); reflexivity.
Qed.

(* ---- masks ---- *)
Lemma land_int_mask x f : 0 <= f -> Z.land x (int_mask f) = x / 2 ^ f * 2 ^ f.
Proof.
  intros Hf. unfold int_mask.
  replace (- 2 ^ f) with (Z.lnot (Z.ones f)).
  - rewrite <- Z.ldiff_land. rewrite Z.ldiff_ones_r by lia.
    rewrite Z.shiftl_mul_pow2, Z.shiftr_div_pow2 by lia. reflexivity.
  - rewrite Z.ones_equiv. unfold Z.lnot. lia.
Qed.

Lemma fx_floor_spec f x : 0 <= f -> fx_floor f x = x / 2 ^ f * 2 ^ f.
Proof. intros. unfold fx_floor. apply land_int_mask; assumption. Qed.

Lemma fx_floor_bounds f x : 0 <= f -> fx_floor f x <= x < fx_floor f x + 2 ^ f.
Proof.
  intros Hf. rewrite fx_floor_spec by assumption.
  assert (0 < 2 ^ f) by (apply Z.pow_pos_nonneg; lia).
  pose proof (Z.div_mod x (2 ^ f)). pose proof (Z.mod_pos_bound x (2 ^ f)). lia.
Qed.

Lemma fx_fract_total bits f x : 0 <= f < bits - 1 -> fx_fract bits f x = Some (x mod 2 ^ f).
Proof.
  intros Hf. unfold fx_fract. rewrite fx_floor_spec by lia.
  assert (Hp : 0 < 2 ^ f) by (apply Z.pow_pos_nonneg; lia).
  assert (Hm : x - x / 2 ^ f * 2 ^ f = x mod 2 ^ f) by (pose proof (Z.div_mod x (2 ^ f)); lia).
  rewrite Hm. unfold chk_s, in_s.
  pose proof (Z.mod_pos_bound x (2 ^ f) Hp).
  assert (2 ^ f < 2 ^ (bits - 1)) by (apply Z.pow_lt_mono_r; lia).
  assert (0 < 2 ^ (bits - 1)) by lia.
  replace ((- 2 ^ (bits - 1) <=? x mod 2 ^ f) && (x mod 2 ^ f <? 2 ^ (bits - 1))) with true by lia.
  reflexivity.
Qed.

Lemma fx_round_spec_fixed x : i32 x -> x + 32768 <= 2147483647 ->
  fx_round 32 16 x = (x + 32768) / 65536 * 65536.
Proof.
  intros Hx Hno. unfold fx_round. change (2 ^ (16 - 1)) with 32768.
  rewrite wrap_s32_id by (unfold i32 in *; lia). rewrite land_int_mask by lia. reflexivity.
Qed.

(* ---- conversions between fixed formats ---- *)
Lemma fixed_to_i32_spec x : i32 x -> x + 32768 <= 2147483647 -> fixed_to_i32 x = (x + 32768) / 65536.
Proof.
  intros Hx Hno. unfold fixed_to_i32. rewrite wrap_s32_id by (unfold i32 in *; lia).
  rewrite Z.shiftr_div_pow2 by lia. reflexivity.
Qed.

Lemma fixed_to_f26dot6_spec x : i32 x -> x + 512 <= 2147483647 -> fixed_to_f26dot6 x = (x + 512) / 1024.
Proof.
  intros Hx Hno. unfold fixed_to_f26dot6. rewrite wrap_s32_id by (unfold i32 in *; lia).
  rewrite Z.shiftr_div_pow2 by lia. reflexivity.
Qed.

(* OpenType: "add 0x00000002, and sign-extend shift to the right by 2" (then keep the low 16 bits) *)
Lemma fixed_to_f2dot14_spec x : i32 x -> x + 2 <= 2147483647 ->
  fixed_to_f2dot14 x = wrap_s 16 ((x + 2) / 4).
Proof.
  intros Hx Hno. unfold fixed_to_f2dot14. rewrite wrap_s32_id by (unfold i32 in *; lia).
  rewrite Z.shiftr_div_pow2 by lia. reflexivity.
Qed.

Lemma fixed_to_f2dot14_in_range x : -131074 <= x <= 131069 -> fixed_to_f2dot14 x = (x + 2) / 4.
Proof.
  intros H. rewrite fixed_to_f2dot14_spec by (unfold i32; lia).
  apply wrap_s_id; [lia|]. change (2 ^ (16 - 1)) with 32768. lia.
Qed.

Lemma f2dot14_fixed_roundtrip x : i16 x -> fixed_to_f2dot14 (f2dot14_to_fixed x) = x.
Proof.
  intros H. unfold f2dot14_to_fixed, i16 in *. rewrite fixed_to_f2dot14_in_range by lia. lia.
Qed.

Lemma fixed_from_i32_spec i : -32768 <= i <= 32767 -> fixed_from_i32 i = i * 65536.
Proof.
  intros H. unfold fixed_from_i32. rewrite Z.shiftl_mul_pow2 by lia. change (2 ^ 16) with 65536.
  apply wrap_s32_id. unfold i32. lia.
Qed.

Lemma fixed_from_to_i32 i : -32768 <= i <= 32767 -> fixed_to_i32 (fixed_from_i32 i) = i.
Proof.
  intros H. rewrite fixed_from_i32_spec by assumption.
  rewrite fixed_to_i32_spec by (unfold i32; lia). lia.
Qed.

(* ---- 24-bit types ---- *)
Lemma int24_new_saturates raw : int24_new raw = clamp (-8388608) 8388607 raw.
Proof.
  unfold int24_new, clamp. cbv zeta.
  destruct (8388607 <? raw) eqn:E1; destruct (raw <? -8388608) eqn:E2; cbn [orb negb]; lia.
Qed.

Lemma uint24_new_saturates raw : 0 <= raw -> uint24_new raw = clamp 0 16777215 raw.
Proof.
  intros H. unfold uint24_new, clamp. cbv zeta. destruct (16777215 <? raw) eqn:E1; cbn [negb]; lia.
Qed.

Lemma int24_checked_new_spec raw :
  int24_checked_new raw = if (-8388608 <=? raw) && (raw <=? 8388607) then Some raw else None.
Proof.
  unfold int24_checked_new.
  destruct (8388607 <? raw) eqn:E1; destruct (raw <? -8388608) eqn:E2; cbn [orb];
  destruct (-8388608 <=? raw) eqn:E3; destruct (raw <=? 8388607) eqn:E4; cbn [andb]; try reflexivity; lia.
Qed.

(* lor of disjoint bit fields is addition *)
Lemma land_shiftl_low hi b k : 0 <= k -> 0 <= b < 2 ^ k -> Z.land (Z.shiftl hi k) b = 0.
Proof.
  intros Hk Hb. apply Z.bits_inj'. intros n Hn. rewrite Z.land_spec, Z.bits_0.
  destruct (Z.ltb_spec n k).
  - rewrite Z.shiftl_spec_low by lia. reflexivity.
  - destruct (Z.eq_dec b 0) as [->|Hb0]; [rewrite Z.bits_0; apply andb_false_r|].
    rewrite (Z.bits_above_log2 b n); [apply andb_false_r|lia|].
    assert (2 ^ k <= 2 ^ n) by (apply Z.pow_le_mono_r; lia).
    apply Z.log2_lt_pow2; lia.
Qed.

Lemma lor_shiftl_low hi b k : 0 <= k -> 0 <= b < 2 ^ k -> Z.lor (Z.shiftl hi k) b = hi * 2 ^ k + b.
Proof.
  intros Hk Hb.
  rewrite <- Z.lxor_lor by (apply land_shiftl_low; assumption).
  rewrite <- Z.add_nocarry_lxor by (apply land_shiftl_low; assumption).
  rewrite Z.shiftl_mul_pow2 by lia. reflexivity.
Qed.

Lemma uint24_from_be_spec b0 b1 b2 : is_byte b0 -> is_byte b1 -> is_byte b2 ->
  uint24_from_be [b0; b1; b2] = b0 * 65536 + b1 * 256 + b2.
Proof.
  unfold is_byte. intros H0 H1 H2. unfold uint24_from_be.
  replace (Z.shiftl b0 16) with (Z.shiftl (Z.shiftl b0 8) 8) by (rewrite Z.shiftl_shiftl by lia; reflexivity).
  rewrite <- (Z.shiftl_lor _ _ 8).
  rewrite (lor_shiftl_low b0 b1 8) by (change (2 ^ 8) with 256; lia).
  rewrite (lor_shiftl_low _ b2 8) by (change (2 ^ 8) with 256; lia).
  change (2 ^ 8) with 256. rewrite uint24_new_saturates by lia. unfold clamp. lia.
Qed.

Lemma tl_to_be4 z : 0 <= z < 16777216 ->
  tl (to_be 4 z) = [z / 65536; (z / 256) mod 256; z mod 256].
Proof.
  intros H. cbn [to_be tl Z.of_nat Pos.of_succ_nat Pos.succ].
  change (256 ^ 2) with 65536. change (256 ^ 1) with 256. change (256 ^ 0) with 1.
  rewrite Z.div_1_r. f_equal. lia.
Qed.

Lemma uint24_be_roundtrip x : 0 <= x <= 16777215 -> uint24_from_be (uint24_to_be x) = x.
Proof.
  intros H. unfold uint24_to_be. rewrite tl_to_be4 by lia.
  rewrite uint24_from_be_spec by (unfold is_byte; lia). lia.
Qed.

Lemma uint24_bytes_roundtrip b0 b1 b2 : is_byte b0 -> is_byte b1 -> is_byte b2 ->
  uint24_to_be (uint24_from_be [b0; b1; b2]) = [b0; b1; b2].
Proof.
  intros H0 H1 H2. rewrite uint24_from_be_spec by assumption. unfold is_byte in *.
  unfold uint24_to_be. rewrite tl_to_be4 by lia. repeat (apply (f_equal2 (@cons Z)); [lia|]). reflexivity.
Qed.

Lemma byte_sweep (P : Z -> bool) :
  forallb P (map Z.of_nat (seq 0 256)) = true -> forall b, is_byte b -> P b = true.
Proof.
  intros H b Hb. rewrite forallb_forall in H. apply H.
  apply in_map_iff. exists (Z.to_nat b). unfold is_byte in Hb. split; [lia|].
  apply in_seq. lia.
Qed.

Lemma sign_bit b0 : is_byte b0 -> Z.shiftr (Z.land b0 128) 7 = if b0 <? 128 then 0 else 1.
Proof.
  intros H. apply Z.eqb_eq.
  apply (byte_sweep (fun b => Z.shiftr (Z.land b 128) 7 =? (if b <? 128 then 0 else 1))); [|exact H].
  vm_compute. reflexivity.
Qed.

Lemma int24_from_be_spec b0 b1 b2 : is_byte b0 -> is_byte b1 -> is_byte b2 ->
  int24_from_be [b0; b1; b2] = wrap_s 24 (b0 * 65536 + b1 * 256 + b2).
Proof.
  intros H0 H1 H2. unfold int24_from_be. cbv zeta. rewrite (sign_bit b0 H0).
  unfold is_byte in *.
  assert (Hw : wrap_s 24 (b0 * 65536 + b1 * 256 + b2)
               = (b0 * 65536 + b1 * 256 + b2 + 8388608) mod 16777216 - 8388608) by reflexivity.
  rewrite Hw. clear Hw.
  destruct (b0 <? 128) eqn:E.
  - change (wrap_s 32 (Z.shiftl (0 * 255) 24)) with 0. rewrite Z.lor_0_l.
    replace (Z.shiftl b0 16) with (Z.shiftl (Z.shiftl b0 8) 8) by (rewrite Z.shiftl_shiftl by lia; reflexivity).
    rewrite <- (Z.shiftl_lor _ _ 8).
    rewrite (lor_shiftl_low b0 b1 8) by (change (2 ^ 8) with 256; lia).
    rewrite (lor_shiftl_low _ b2 8) by (change (2 ^ 8) with 256; lia).
    change (2 ^ 8) with 256. rewrite int24_new_saturates. unfold clamp. lia.
  - change (wrap_s 32 (Z.shiftl (1 * 255) 24)) with (Z.shiftl (Z.shiftl (Z.shiftl (-1) 8) 8) 8).
    replace (Z.shiftl b0 16) with (Z.shiftl (Z.shiftl b0 8) 8) by (rewrite Z.shiftl_shiftl by lia; reflexivity).
    rewrite <- !(Z.shiftl_lor _ _ 8).
    rewrite (lor_shiftl_low (-1) b0 8) by (change (2 ^ 8) with 256; lia).
    rewrite (lor_shiftl_low _ b1 8) by (change (2 ^ 8) with 256; lia).
    rewrite (lor_shiftl_low _ b2 8) by (change (2 ^ 8) with 256; lia).
    change (2 ^ 8) with 256. rewrite int24_new_saturates. unfold clamp. lia.
Qed.

Lemma int24_be_roundtrip x : -8388608 <= x <= 8388607 -> int24_from_be (int24_to_be x) = x.
Proof.
  intros H. unfold int24_to_be.
  assert (Hw : tl (to_be 4 (wrap_u 32 x)) = tl (to_be 4 (x mod 16777216))).
  { unfold wrap_u. change (2 ^ 32) with 4294967296.
    cbn [to_be tl Z.of_nat Pos.of_succ_nat Pos.succ].
    change (256 ^ 2) with 65536. change (256 ^ 1) with 256. change (256 ^ 0) with 1.
    rewrite !Z.div_1_r. repeat (apply (f_equal2 (@cons Z)); [lia|]). reflexivity. }
  rewrite Hw. rewrite tl_to_be4 by lia.
  rewrite int24_from_be_spec by (unfold is_byte; lia).
  unfold wrap_s. change (2 ^ (24 - 1)) with 8388608. change (2 ^ 24) with 16777216. lia.
Qed.

Lemma int24_bytes_roundtrip b0 b1 b2 : is_byte b0 -> is_byte b1 -> is_byte b2 ->
  int24_to_be (int24_from_be [b0; b1; b2]) = [b0; b1; b2].
Proof.
  intros H0 H1 H2. rewrite int24_from_be_spec by assumption. unfold is_byte in *.
  unfold int24_to_be.
  set (v := b0 * 65536 + b1 * 256 + b2).
  assert (Hw : tl (to_be 4 (wrap_u 32 (wrap_s 24 v))) = tl (to_be 4 v)).
  { unfold wrap_u, wrap_s. change (2 ^ 32) with 4294967296. change (2 ^ (24 - 1)) with 8388608.
    change (2 ^ 24) with 16777216.
    cbn [to_be tl Z.of_nat Pos.of_succ_nat Pos.succ].
    change (256 ^ 2) with 65536. change (256 ^ 1) with 256. change (256 ^ 0) with 1.
    rewrite !Z.div_1_r. subst v. repeat (apply (f_equal2 (@cons Z)); [lia|]). reflexivity. }
  rewrite Hw. subst v. rewrite tl_to_be4 by lia. repeat (apply (f_equal2 (@cons Z)); [lia|]). reflexivity.
Qed.

(* ---- big-endian round trips for the 16/32/64-bit signed scalars ---- *)
Lemma be_s_roundtrip bits x : (bits = 16 \/ bits = 32 \/ bits = 64) ->
  - 2 ^ (bits - 1) <= x < 2 ^ (bits - 1) -> s_of_be bits (be_of_s bits x) = x.
Proof.
  intros Hb Hx. unfold s_of_be, be_of_s.
  assert (Hpow : 256 ^ Z.of_nat (Z.to_nat (bits / 8)) = 2 ^ bits).
  { destruct Hb as [-> | [-> | ->]]; reflexivity. }
  rewrite from_to_be.
  - unfold wrap_u. 
    assert (H2 : 2 ^ bits = 2 * 2 ^ (bits - 1)).
    { replace bits with (Z.succ (bits - 1)) at 1 by lia. rewrite Z.pow_succ_r by lia. reflexivity. }
    assert (0 < 2 ^ (bits - 1)) by (apply Z.pow_pos_nonneg; lia).
    unfold wrap_s. rewrite Zplus_mod_idemp_l. rewrite Z.mod_small by lia. lia.
  - rewrite Hpow. apply wrap_u_range. lia.
Qed.

Lemma be_s_bytes_roundtrip bits l : (bits = 16 \/ bits = 32 \/ bits = 64) ->
  length l = Z.to_nat (bits / 8) -> Forall is_byte l -> be_of_s bits (s_of_be bits l) = l.
Proof.
  intros Hb Hl HF. unfold s_of_be, be_of_s.
  assert (Hpow : 256 ^ Z.of_nat (length l) = 2 ^ bits).
  { rewrite Hl. destruct Hb as [-> | [-> | ->]]; reflexivity. }
  pose proof (from_be_bound l HF) as Hbd. rewrite Hpow in Hbd.
  assert (Hw : wrap_u bits (wrap_s bits (from_be l)) = from_be l).
  { unfold wrap_u. rewrite wrap_s_congr by lia. apply Z.mod_small. lia. }
  rewrite Hw. rewrite <- Hl. apply to_from_be. exact HF.
Qed.

Lemma be_u_roundtrip n x : 0 <= x < 256 ^ Z.of_nat n -> from_be (to_be n x) = x.
Proof. apply from_to_be. Qed.
