(* C15 — executable model of font-types scalar and fixed-point arithmetic
   (font-types/src/{fixed,int24,uint24,raw}.rs), hand-written from the source, statement by
   statement.  No proofs in this file.  Integers are unbounded Z with every wrap/truncation
   explicit; [option] results: None = panic in the overflow-checks profile. *)
From Coq Require Import ZArith List Bool.
From FV Require Import Lib.RustInt.
Import ListNotations.
Open Scope Z_scope.

(* ---- fixed_impl!($name, $bits, $fract_bits, $ty) ---- *)
Definition int_mask (f : Z) : Z := - 2 ^ f.            (* !0 << f *)
Definition fx_round (bits f x : Z) : Z := Z.land (wrap_s bits (x + 2 ^ (f - 1))) (int_mask f).
Definition fx_floor (f x : Z) : Z := Z.land x (int_mask f).
Definition fx_fract (bits f x : Z) : option Z := chk_s bits (x - fx_floor f x).
Definition fx_add (bits a b : Z) : Z := wrap_s bits (a + b).
Definition fx_sub (bits a b : Z) : Z := wrap_s bits (a - b).
Definition fx_sat_add (bits a b : Z) : Z := sat_s bits (a + b).
Definition fx_sat_sub (bits a b : Z) : Z := sat_s bits (a - b).
Definition fx_abs (bits a : Z) : option Z := Some (wrap_s bits (Z.abs a)).   (* self.0.wrapping_abs() *)
Definition fx_neg (bits a : Z) : option Z := Some (wrap_s bits (- a)).      (* self.0.wrapping_neg() *)

(* to_be_bytes / from_be_bytes of the raw integer (signed types: two's complement) *)
Definition be_of_s (bits : Z) (x : Z) : list Z := to_be (Z.to_nat (bits / 8)) (wrap_u bits x).
Definition s_of_be (bits : Z) (l : list Z) : Z := wrap_s bits (from_be l).
Definition be_of_u (bits : Z) (x : Z) : list Z := to_be (Z.to_nat (bits / 8)) x.
Definition u_of_be (l : list Z) : Z := from_be l.

(* ---- fixed_mul_div!(Fixed) ---- *)
Definition fixed_mul (a b : Z) : Z :=
  let ab := a * b in
  wrap_s 32 (Z.shiftr (ab + 32768 - (if ab <? 0 then 1 else 0)) 16).

Definition fixed_div (a0 b0 : Z) : Z :=
  let sign := if a0 <? 0 then -1 else 1 in
  let a := if a0 <? 0 then wrap_s 32 (- a0) else a0 in
  let sign := if b0 <? 0 then - sign else sign in
  let b := if b0 <? 0 then wrap_s 32 (- b0) else b0 in
  let a := wrap_u 32 a in
  let b := wrap_u 32 b in
  let q := if b =? 0 then 2147483647
           else wrap_u 32 ((Z.shiftl a 16 + Z.shiftr b 1) / b) in
  if sign <? 0 then wrap_s 32 (- wrap_s 32 q) else wrap_s 32 q.

Definition fixed_mul_div (s0 a0 b0 : Z) : Z :=
  let su := wrap_u 64 s0 in
  let au := wrap_u 64 a0 in
  let bu := wrap_u 64 b0 in
  let sign := 1 in
  let su := if s0 <? 0 then wrap_u 64 (0 - su) else su in
  let sign := if s0 <? 0 then -1 else sign in
  let au := if a0 <? 0 then wrap_u 64 (0 - au) else au in
  let sign := if a0 <? 0 then - sign else sign in
  let bu := if b0 <? 0 then wrap_u 64 (0 - bu) else bu in
  let sign := if b0 <? 0 then - sign else sign in
  let result := if 0 <? bu then wrap_u 64 (wrap_u 64 (su * au) + Z.shiftr bu 1) / bu
                else 2147483647 in
  if sign <? 0 then wrap_s 32 (- wrap_s 32 result) else wrap_s 32 result.

(* ---- impl Fixed ---- *)
Definition fixed_from_i32 (i : Z) : Z := wrap_s 32 (Z.shiftl i 16).       (* i << 16 never traps on value *)
Definition fixed_to_i32 (x : Z) : Z := Z.shiftr (wrap_s 32 (x + 32768)) 16.
Definition fixed_to_f26dot6 (x : Z) : Z := Z.shiftr (wrap_s 32 (x + 512)) 10.
Definition fixed_to_f2dot14 (x : Z) : Z := wrap_s 16 (Z.shiftr (wrap_s 32 (x + 2)) 2).
Definition f2dot14_to_fixed (x : Z) : Z := x * 4.

(* ---- Int24 / Uint24 ---- *)
Definition int24_new (raw : Z) : Z :=
  let overflow := 8388607 <? raw in
  let underflow := raw <? -8388608 in
  raw * (if negb (overflow || underflow) then 1 else 0)
  + 8388607 * (if overflow then 1 else 0) + (-8388608) * (if underflow then 1 else 0).
Definition int24_checked_new (raw : Z) : option Z :=
  if (8388607 <? raw) || (raw <? -8388608) then None else Some raw.
Definition int24_to_be (x : Z) : list Z := tl (to_be 4 (wrap_u 32 x)).
Definition int24_from_be (l : list Z) : Z :=
  match l with
  | [b0; b1; b2] =>
      let extra := Z.shiftr (Z.land b0 128) 7 * 255 in
      let extra := wrap_s 32 (Z.shiftl extra 24) in
      int24_new (Z.lor (Z.lor (Z.lor extra (Z.shiftl b0 16)) (Z.shiftl b1 8)) b2)
  | _ => 0
  end.
Definition uint24_new (raw : Z) : Z :=
  let overflow := 16777215 <? raw in
  raw * (if negb overflow then 1 else 0) + 16777215 * (if overflow then 1 else 0).
Definition uint24_checked_new (raw : Z) : option Z := if 16777215 <? raw then None else Some raw.
Definition uint24_to_be (x : Z) : list Z := tl (to_be 4 x).
Definition uint24_from_be (l : list Z) : Z :=
  match l with
  | [b0; b1; b2] => uint24_new (Z.lor (Z.lor (Z.shiftl b0 16) (Z.shiftl b1 8)) b2)
  | _ => 0
  end.

(* ---- specification side: exact rational result rounded half away from zero ---- *)
Definition rha (n d : Z) : Z :=      (* round_half_away (n / d), d <> 0 *)
  let s := Z.sgn n * Z.sgn d in
  s * ((2 * Z.abs n + Z.abs d) / (2 * Z.abs d)).

(* ---- correspondence case format (written by harness/src/bin/c15.rs) ----
   (op, args, result): result = [v] value, [] = panic *)
Definition eval_op (op : Z) (args : list Z) : list Z :=
  let o1 (r : option Z) := match r with Some v => [v] | None => [] end in
  match op, args with
  | 1, [a; b] => [fixed_mul a b]
  | 2, [a; b] => [fixed_div a b]
  | 3, [s; a; b] => [fixed_mul_div s a b]
  | 4, [x] => [fx_round 32 16 x]
  | 5, [x] => [fx_floor 16 x]
  | 6, [x] => o1 (fx_fract 32 16 x)
  | 7, [x] => [fixed_to_i32 x]
  | 8, [x] => [fixed_to_f26dot6 x]
  | 9, [x] => [fixed_to_f2dot14 x]
  | 10, [x] => [fixed_from_i32 x]
  | 11, [x] => [f2dot14_to_fixed x]
  | 12, [x] => [int24_new x]
  | 13, [x] => [uint24_new x]
  | 14, [b0; b1; b2] => [int24_from_be [b0; b1; b2]]
  | 15, [b0; b1; b2] => [uint24_from_be [b0; b1; b2]]
  | 16, [x] => int24_to_be (int24_new x)
  | 17, [x] => uint24_to_be (uint24_new x)
  | 18, [x] => be_of_s 32 x
  | 19, [x] => be_of_s 16 x
  | 20, b => [s_of_be 32 b]
  | 21, b => [s_of_be 16 b]
  | 22, [x] => o1 (fx_abs 32 x)
  | 23, [x] => o1 (fx_neg 32 x)
  | 24, [x] => [fx_round 16 14 x]       (* F2Dot14 *)
  | 25, [x] => [fx_floor 14 x]
  | 26, [x] => [fx_round 32 6 x]        (* F26Dot6 *)
  | 27, [x] => [fx_floor 6 x]
  | 28, [a; b] => [fx_add 32 a b]
  | 29, [a; b] => [fx_sub 32 a b]
  | 30, [a; b] => [fx_sat_add 32 a b]
  | 31, [a; b] => [fx_sat_sub 32 a b]
  | 32, [x] => o1 (int24_checked_new x)
  | 33, [x] => o1 (uint24_checked_new x)
  | _, _ => [-999]
  end.

Definition zlist_eqb (a b : list Z) : bool :=
  (Nat.eqb (length a) (length b)) && forallb (fun p => Z.eqb (fst p) (snd p)) (combine a b).

Definition check_case (c : Z * list Z * list Z) : bool :=
  let '(op, args, res) := c in zlist_eqb (eval_op op args) res.
