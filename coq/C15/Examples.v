(* C15 — non-vacuity examples for the hypotheses of Props.v *)
From Coq Require Import ZArith List.
From FV Require Import Lib.RustInt C15.Model C15.Proofs.
Import ListNotations.
Open Scope Z_scope.

(* non-vacuity: concrete non-trivial instances meet the hypotheses *)
Example c15_mul_nonvacuous : i32 (rha (98304 * -163840) 65536) /\ fixed_mul 98304 (-163840) = -245760.
Proof. split; [unfold i32; vm_compute; split; discriminate | reflexivity]. Qed.
Example c15_div_min_nonvacuous :   (* Fixed::MIN / 2.0 = -16384.0 : the input of finding F-4, now fixed *)
  i32 (rha (-2147483648 * 65536) 131072) /\ fixed_div (-2147483648) 131072 = -1073741824.
Proof. split; [unfold i32; vm_compute; split; discriminate | reflexivity]. Qed.

