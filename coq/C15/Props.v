(* C15 — property theorems.  Only statements, [exact lemma], pins and Print Assumptions. *)
From Coq Require Import ZArith List.
From FV Require Import Lib.RustInt C15.Model C15.Proofs.
Import ListNotations.
Open Scope Z_scope.

(* multiplication / division / mul_div = exact result rounded half away from zero, whenever
   that result is representable; for every i32 operand *)
Theorem c15_mul_spec : forall a b, i32 (rha (a * b) 65536) -> fixed_mul a b = rha (a * b) 65536.
Proof. exact fixed_mul_spec. Qed.
Theorem c15_div_spec : forall a b, i32 a -> i32 b -> b <> 0 -> i32 (rha (a * 65536) b) ->
  fixed_div a b = rha (a * 65536) b.
Proof. exact fixed_div_spec. Qed.
Theorem c15_mul_div_spec : forall s a b, i32 s -> i32 a -> i32 b -> b <> 0 -> i32 (rha (s * a) b) ->
  fixed_mul_div s a b = rha (s * a) b.
Proof. exact fixed_mul_div_spec. Qed.
Theorem c15_div_by_zero_saturates : forall a, i32 a ->
  fixed_div a 0 = if a <? 0 then -2147483647 else 2147483647.
Proof. exact fixed_div_zero. Qed.
Theorem c15_mul_div_by_zero_saturates : forall s a, i32 s -> i32 a ->
  fixed_mul_div s a 0 = if xorb (s <? 0) (a <? 0) then -2147483647 else 2147483647.
Proof. exact fixed_mul_div_zero. Qed.

(* big-endian encoding round trips, both directions, for 16/32/64-bit signed scalars
   (F2Dot14, F4Dot12, F6Dot10, FWord, i16; Fixed, F26Dot6, i32, Version16Dot16; LongDateTime, i64),
   any unsigned width, and the 24-bit types *)
Theorem c15_be_signed_roundtrip : forall bits x, (bits = 16 \/ bits = 32 \/ bits = 64) ->
  - 2 ^ (bits - 1) <= x < 2 ^ (bits - 1) -> s_of_be bits (be_of_s bits x) = x.
Proof. exact be_s_roundtrip. Qed.
Theorem c15_be_signed_bytes_roundtrip : forall bits l, (bits = 16 \/ bits = 32 \/ bits = 64) ->
  length l = Z.to_nat (bits / 8) -> Forall is_byte l -> be_of_s bits (s_of_be bits l) = l.
Proof. exact be_s_bytes_roundtrip. Qed.
Theorem c15_be_unsigned_roundtrip : forall n x, 0 <= x < 256 ^ Z.of_nat n -> from_be (to_be n x) = x.
Proof. exact from_to_be. Qed.
Theorem c15_be_unsigned_bytes_roundtrip : forall l, Forall is_byte l -> to_be (length l) (from_be l) = l.
Proof. exact to_from_be. Qed.
Theorem c15_int24_new_saturates : forall raw, int24_new raw = clamp (-8388608) 8388607 raw.
Proof. exact int24_new_saturates. Qed.
Theorem c15_uint24_new_saturates : forall raw, 0 <= raw -> uint24_new raw = clamp 0 16777215 raw.
Proof. exact uint24_new_saturates. Qed.
Theorem c15_int24_be_roundtrip : forall x, -8388608 <= x <= 8388607 -> int24_from_be (int24_to_be x) = x.
Proof. exact int24_be_roundtrip. Qed.
Theorem c15_int24_bytes_roundtrip : forall b0 b1 b2, is_byte b0 -> is_byte b1 -> is_byte b2 ->
  int24_to_be (int24_from_be [b0; b1; b2]) = [b0; b1; b2].
Proof. exact int24_bytes_roundtrip. Qed.
Theorem c15_uint24_be_roundtrip : forall x, 0 <= x <= 16777215 -> uint24_from_be (uint24_to_be x) = x.
Proof. exact uint24_be_roundtrip. Qed.
Theorem c15_uint24_bytes_roundtrip : forall b0 b1 b2, is_byte b0 -> is_byte b1 -> is_byte b2 ->
  uint24_to_be (uint24_from_be [b0; b1; b2]) = [b0; b1; b2].
Proof. exact uint24_bytes_roundtrip. Qed.

(* conversions between fixed-point formats as the OpenType specification prescribes *)
Theorem c15_to_f2dot14_spec : forall x, i32 x -> x + 2 <= 2147483647 ->
  fixed_to_f2dot14 x = wrap_s 16 ((x + 2) / 4).
Proof. exact fixed_to_f2dot14_spec. Qed.
Theorem c15_f2dot14_fixed_roundtrip : forall x, i16 x -> fixed_to_f2dot14 (f2dot14_to_fixed x) = x.
Proof. exact f2dot14_fixed_roundtrip. Qed.
Theorem c15_to_i32_spec : forall x, i32 x -> x + 32768 <= 2147483647 -> fixed_to_i32 x = (x + 32768) / 65536.
Proof. exact fixed_to_i32_spec. Qed.
Theorem c15_to_f26dot6_spec : forall x, i32 x -> x + 512 <= 2147483647 -> fixed_to_f26dot6 x = (x + 512) / 1024.
Proof. exact fixed_to_f26dot6_spec. Qed.
Theorem c15_from_to_i32 : forall i, -32768 <= i <= 32767 -> fixed_to_i32 (fixed_from_i32 i) = i.
Proof. exact fixed_from_to_i32. Qed.
Theorem c15_floor_spec : forall f x, 0 <= f -> fx_floor f x = x / 2 ^ f * 2 ^ f.
Proof. exact fx_floor_spec. Qed.
Theorem c15_round_spec : forall x, i32 x -> x + 32768 <= 2147483647 ->
  fx_round 32 16 x = (x + 32768) / 65536 * 65536.
Proof. exact fx_round_spec_fixed. Qed.
Theorem c15_fract_total : forall bits f x, 0 <= f < bits - 1 -> fx_fract bits f x = Some (x mod 2 ^ f).
Proof. exact fx_fract_total. Qed.

Print Assumptions c15_mul_spec.
Print Assumptions c15_div_spec.
Print Assumptions c15_mul_div_spec.
Print Assumptions c15_div_by_zero_saturates.
Print Assumptions c15_mul_div_by_zero_saturates.
Print Assumptions c15_be_signed_roundtrip.
Print Assumptions c15_be_signed_bytes_roundtrip.
Print Assumptions c15_be_unsigned_roundtrip.
Print Assumptions c15_be_unsigned_bytes_roundtrip.
Print Assumptions c15_int24_new_saturates.
Print Assumptions c15_uint24_new_saturates.
Print Assumptions c15_int24_be_roundtrip.
Print Assumptions c15_int24_bytes_roundtrip.
Print Assumptions c15_uint24_be_roundtrip.
Print Assumptions c15_uint24_bytes_roundtrip.
Print Assumptions c15_to_f2dot14_spec.
Print Assumptions c15_f2dot14_fixed_roundtrip.
Print Assumptions c15_to_i32_spec.
Print Assumptions c15_to_f26dot6_spec.
Print Assumptions c15_from_to_i32.
Print Assumptions c15_floor_spec.
Print Assumptions c15_round_spec.
Print Assumptions c15_fract_total.
