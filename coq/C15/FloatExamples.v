(* C15 (float clauses) — non-vacuity and refutation witnesses, all by vm_compute. *)
From Coq Require Import ZArith Reals.
From Flocq Require Import Core IEEE754.Binary IEEE754.Bits IEEE754.BinarySingleNaN.
From FV Require Import C15.FloatModel C15.FloatProofs.
Open Scope Z_scope.

(* F-3: 0.49999999999999994 / 65536 (bits 0x3EDFFFFFFFFFFFFF): v * 65536 = 0.49999999999999994,
   + 0.5 rounds to 1.0, truncation gives 1; the nearest integer is 0. *)
Definition f3_bits : Z := 4530621225134718975.
Example from_f64_nearest_refuted : fixed_from_f64 (f64_of_bits f3_bits) = 1.
Proof. vm_compute. reflexivity. Qed.
Example f3_value_is_below_half :
  Bcompare (Bmult mode_NE (f64_of_bits f3_bits) (ofZ 53 1024 65536)) (half 53 1024) = Some Lt.
Proof. vm_compute. reflexivity. Qed.

(* saturation and NaN: Rust `as` semantics *)
Example from_f64_nan_is_zero : fixed_from_f64 (B754_nan) = 0.
Proof. vm_compute. reflexivity. Qed.
Example from_f64_pos_inf_saturates : fixed_from_f64 (B754_infinity false) = 2147483647.
Proof. vm_compute. reflexivity. Qed.
Example from_f64_neg_inf_saturates : fixed_from_f64 (B754_infinity true) = -2147483648.
Proof. vm_compute. reflexivity. Qed.
Example from_f64_huge_saturates : fixed_from_f64 (ofZ 53 1024 40000) = 2147483647.
Proof. vm_compute. reflexivity. Qed.

(* round trips on concrete values (the theorems' hypotheses are satisfiable) *)
Example roundtrip_min : fixed_from_f64 (fixed_to_f64 (-2147483648)) = -2147483648.
Proof. vm_compute. reflexivity. Qed.
Example roundtrip_f2dot14 : f2dot14_from_f32 (f2dot14_to_f32 (-32768)) = -32768 /\ f2dot14_from_f32 (f2dot14_to_f32 12345) = 12345.
Proof. vm_compute. split; reflexivity. Qed.
