(* C15 (OtRound) — non-vacuity and the refutation witness, by vm_compute + Flocq's comparison. *)
From Coq Require Import ZArith Reals Lra Lia List.
Import ListNotations.
From Flocq Require Import Core IEEE754.Binary IEEE754.Bits IEEE754.BinarySingleNaN.
From FV Require Import C15.FloatModel C15.FloatProofs C15.OtRoundProofs.
Open Scope Z_scope.

(* F-25: the largest f32 below 0.5 (bits 0x3EFFFFFF = 0.49999997): v + 0.5 is a tie between
   1 - 2^-24 and 1.0 and rounds to even = 1.0, so OtRound gives 1 although v < 1/2 and half-up
   rounding of the real value is 0.  Same for f64 at 0x3FDFFFFFFFFFFFFF. *)
Definition f25_bits32 : Z := 1056964607.
Definition f25_bits64 : Z := 4602678819172646911.
Example ot_round_half_up_refuted :
  Bltb (f32_of_bits f25_bits32) (half 24 128) = true /\
  fl_eqb 24 128 (ot_round 24 128 (f32_of_bits f25_bits32)) (ofZ 24 128 1) = true /\
  ot_round_i16 24 128 (f32_of_bits f25_bits32) = 1.
Proof. vm_compute. repeat split; reflexivity. Qed.
Example ot_round_half_up_refuted_f64 :
  Bltb (f64_of_bits f25_bits64) (half 53 1024) = true /\
  ot_round_i16 53 1024 (f64_of_bits f25_bits64) = 1.
Proof. vm_compute. repeat split; reflexivity. Qed.
(* in reals: the witness is strictly below 1/2, so floor(v + 1/2) = 0 *)
Example f25_below_half : (B2R (f32_of_bits f25_bits32) < / 2)%R.
Proof.
  assert (H : Bltb (f32_of_bits f25_bits32) (half 24 128) = true) by (vm_compute; reflexivity).
  rewrite Bltb_correct in H by (vm_compute; reflexivity).
  destruct (half_exact 24 128 ltac:(lia) ltac:(lia)) as [Rh _]. rewrite Rh in H.
  destruct (Rlt_bool_spec (B2R (f32_of_bits f25_bits32)) (/ 2)) as [Hlt|Hge]; [exact Hlt|discriminate].
Qed.

(* the theorems' hypotheses are satisfiable, and the negative halves go up *)
Example halves_i16 :
  map (fun k => ot_round_i16 53 1024 (Bdiv mode_NE (ofZ 53 1024 k) (ofZ 53 1024 2))) [-5; -3; -1; 0; 1; 3; 5; 65535; -65537]%list
  = [-2; -1; 0; 0; 1; 2; 3; 32767; -32768]%list.
Proof. vm_compute. reflexivity. Qed.
Example halves_u16 :
  map (fun k => ot_round_u16 24 128 (Bdiv mode_NE (ofZ 24 128 k) (ofZ 24 128 2))) [-5; -1; 1; 131069; 131071]%list
  = [0; 0; 1; 65535; 65535]%list.
Proof. vm_compute. reflexivity. Qed.

(* the excluded point of the sharp theorems is exactly the witness: pred(1/2) *)
Example f25_witness_is_pred_half : B2R (f32_of_bits f25_bits32) = (/ 2 - bpow radix2 (-25))%R.
Proof.
  rewrite <- SF2R_B2SF. set (s := B2SF (f32_of_bits f25_bits32)). vm_compute in s. subst s.
  unfold SF2R, F2R. cbn [Fnum Fexp cond_Zopp]. simpl bpow. lra.
Qed.
Example f25_witness_is_pred_half_f64 : B2R (f64_of_bits f25_bits64) = (/ 2 - bpow radix2 (-54))%R.
Proof.
  rewrite <- SF2R_B2SF. set (s := B2SF (f64_of_bits f25_bits64)). vm_compute in s. subst s.
  unfold SF2R, F2R. cbn [Fnum Fexp cond_Zopp]. simpl bpow. lra.
Qed.
(* beyond the sharp theorems' range the float -> float form is off by one on odd integers
   (v + 0.5 is a tie that rounds to even): 2^23 + 1 in f32, 2^52 + 1 in f64 *)
Example ot_round_odd_integer_refuted :
  fl_eqb 24 128 (ot_round 24 128 (ofZ 24 128 8388609)) (ofZ 24 128 8388610) = true /\
  fl_eqb 53 1024 (ot_round 53 1024 (ofZ 53 1024 4503599627370497)) (ofZ 53 1024 4503599627370498) = true.
Proof. vm_compute. split; reflexivity. Qed.
(* the sharp theorems' hypotheses are satisfiable: -2.5 is in range and is not pred(1/2) *)
Example sharp_nonvacuous :
  let v := Bdiv mode_NE (ofZ 24 128 (-5)) (ofZ 24 128 2) in
  is_finite v = true /\ ot_round_i16 24 128 v = -2.
Proof. vm_compute. split; reflexivity. Qed.
