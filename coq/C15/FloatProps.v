(* C15 (float clauses) — property theorems: statements, [exact lemma], Print Assumptions. *)
From Coq Require Import ZArith Reals.
From Flocq Require Import Core IEEE754.Binary IEEE754.Bits IEEE754.BinarySingleNaN.
From FV Require Import C15.FloatModel C15.FloatProofs.
Open Scope Z_scope.

(* every fixed-point value converts to the documented float type exactly ... *)
Theorem c15_fixed_to_f64_exact : forall x, i32 x ->
  is_finite (fixed_to_f64 x) = true /\ B2R (fixed_to_f64 x) = (IZR x / 65536)%R.
Proof. exact fixed_to_f64_exact. Qed.
Theorem c15_f26dot6_to_f64_exact : forall x, i32 x ->
  is_finite (f26dot6_to_f64 x) = true /\ B2R (f26dot6_to_f64 x) = (IZR x / 64)%R.
Proof. exact f26dot6_to_f64_exact. Qed.
Theorem c15_f16_to_f32_exact : forall f x, 0 <= f <= 16 -> i16 x ->
  is_finite (to_float 24 128 f x) = true /\ B2R (to_float 24 128 f x) = (IZR x * bpow radix2 (- f))%R.
Proof. exact f16_to_f32_exact. Qed.
(* ... and back unchanged: all 2^32 values of Fixed and F26Dot6 (binary64), all 2^16 values of
   F2Dot14 / F4Dot12 / F6Dot10 (binary32; f = 14, 12, 10) *)
Theorem c15_fixed_f64_roundtrip : forall x, i32 x -> fixed_from_f64 (fixed_to_f64 x) = x.
Proof. exact fixed_f64_roundtrip. Qed.
Theorem c15_f26dot6_f64_roundtrip : forall x, i32 x -> f26dot6_from_f64 (f26dot6_to_f64 x) = x.
Proof. exact f26dot6_f64_roundtrip. Qed.
Theorem c15_f16_f32_roundtrip : forall f x, 0 <= f <= 16 -> i16 x ->
  from_float 24 128 f 16 (to_float 24 128 f x) = x.
Proof. exact f16_f32_roundtrip. Qed.
(* conversions from floats round to nearest — under the hypothesis that the implementation's own
   addition of +-0.5 is exact (sharp: FloatExamples.from_f64_nearest_refuted, finding F-3) *)
Theorem c15_from_float_nearest : forall prec emax (Hp : Prec_gt_0 prec) (Hm : Prec_lt_emax prec emax)
  f bits (v : binary_float prec emax), 0 <= f ->
  let frac := Bminus mode_NE (ofZ prec emax (if Bsign v then 0 else 1)) (half prec emax) in
  let s := Bplus mode_NE (Bmult mode_NE v (ofZ prec emax (2 ^ f))) frac in
  is_finite s = true ->
  B2R s = (B2R v * IZR (2 ^ f) + (if Bsign v then - / 2 else / 2))%R ->
  - 2 ^ (bits - 1) <= Btrunc s <= 2 ^ (bits - 1) - 1 ->
  (Rabs (IZR (from_float prec emax f bits v) - B2R v * IZR (2 ^ f)) <= / 2)%R.
Proof. exact from_float_nearest. Qed.

Print Assumptions c15_fixed_to_f64_exact.
Print Assumptions c15_f26dot6_to_f64_exact.
Print Assumptions c15_f16_to_f32_exact.
Print Assumptions c15_fixed_f64_roundtrip.
Print Assumptions c15_f26dot6_f64_roundtrip.
Print Assumptions c15_f16_f32_roundtrip.
Print Assumptions c15_from_float_nearest.
