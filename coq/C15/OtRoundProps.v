(* C15 (OtRound, write-fonts/src/round.rs) — property theorems: statements, [exact lemma],
   Print Assumptions.  `ot_round v` is the model of `(v + 0.5).floor()`; `ot_round_i16/u16` add
   Rust's saturating `as i16` / `as u16`. *)
From Coq Require Import ZArith Reals.
From Flocq Require Import Core IEEE754.Binary IEEE754.Bits IEEE754.BinarySingleNaN.
From FV Require Import C15.FloatModel C15.FloatProofs C15.OtRoundProofs.
Open Scope Z_scope.

(* half-up, exactly, on every integer and every half-integer of either sign (v = k/2):
   floor((k+1)/2), i.e. -2.5 -> -2, -0.5 -> 0, 0.5 -> 1, 2.5 -> 3; generic in the float format *)
Theorem c15_ot_round_halves : forall prec emax (Hp : Prec_gt_0 prec) (Hm : Prec_lt_emax prec emax),
  20 <= prec -> prec <= 64 -> 64 < emax ->
  forall (v : binary_float prec emax) (k : Z), is_finite v = true ->
  B2R v = (IZR k / 2)%R -> Z.abs k <= 2 ^ prec - 2 ->
  is_finite (ot_round prec emax v) = true /\ B2R (ot_round prec emax v) = IZR ((k + 1) / 2).
Proof. exact ot_round_halves. Qed.

(* ... and the integer results saturate that value (f64 and f32 sources, i16 and u16 targets) *)
Theorem c15_ot_round_f64_i16_halves : forall v k, is_finite v = true -> B2R v = (IZR k / 2)%R ->
  Z.abs k <= 2 ^ 53 - 2 -> ot_round_i16 53 1024 v = Z.max (-32768) (Z.min 32767 ((k + 1) / 2)).
Proof. exact ot_round_f64_i16_halves. Qed.
Theorem c15_ot_round_f32_i16_halves : forall v k, is_finite v = true -> B2R v = (IZR k / 2)%R ->
  Z.abs k <= 2 ^ 24 - 2 -> ot_round_i16 24 128 v = Z.max (-32768) (Z.min 32767 ((k + 1) / 2)).
Proof. exact ot_round_f32_i16_halves. Qed.
Theorem c15_ot_round_f64_u16_halves : forall v k, is_finite v = true -> B2R v = (IZR k / 2)%R ->
  Z.abs k <= 2 ^ 53 - 2 -> ot_round_u16 53 1024 v = Z.max 0 (Z.min 65535 ((k + 1) / 2)).
Proof. exact ot_round_f64_u16_halves. Qed.
Theorem c15_ot_round_f32_u16_halves : forall v k, is_finite v = true -> B2R v = (IZR k / 2)%R ->
  Z.abs k <= 2 ^ 24 - 2 -> ot_round_u16 24 128 v = Z.max 0 (Z.min 65535 ((k + 1) / 2)).
Proof. exact ot_round_f32_u16_halves. Qed.

(* every finite input up to 2^(prec-1): the result is an integer n with
   floor(v + 1/2) <= n <= floor(v + 1/2) + 1, and n = floor(v + 1/2) whenever the real sum v + 1/2
   is representable (a wider range than the sharp form below: up to 2^(prec-1)). *)
Theorem c15_ot_round_f64_bracket : forall v, is_finite v = true -> (Rabs (B2R v) <= IZR (2 ^ 52))%R ->
  exists n : Z, is_finite (ot_round 53 1024 v) = true /\ B2R (ot_round 53 1024 v) = IZR n /\
    Zfloor (B2R v + / 2) <= n <= Zfloor (B2R v + / 2) + 1 /\
    (generic_format radix2 (FLT_exp (3 - 1024 - 53) 53) (B2R v + / 2) -> n = Zfloor (B2R v + / 2)).
Proof. exact ot_round_f64_bracket. Qed.
Theorem c15_ot_round_f32_bracket : forall v, is_finite v = true -> (Rabs (B2R v) <= IZR (2 ^ 23))%R ->
  exists n : Z, is_finite (ot_round 24 128 v) = true /\ B2R (ot_round 24 128 v) = IZR n /\
    Zfloor (B2R v + / 2) <= n <= Zfloor (B2R v + / 2) + 1 /\
    (generic_format radix2 (FLT_exp (3 - 128 - 24) 24) (B2R v + / 2) -> n = Zfloor (B2R v + / 2)).
Proof. exact ot_round_f32_bracket. Qed.


(* SHARP FORM.  For every finite input up to 2^(prec-1) - 1 in magnitude, OtRound IS half-up rounding of
   the real value, floor(v + 1/2), with exactly one exception per format: v = pred(1/2) =
   1/2 - 2^(-prec-1) (0.49999997 in f32, 0.49999999999999994 in f64), where the code returns 1
   (OtRoundExamples.ot_round_half_up_refuted, f25_witness_is_pred_half; known finding F-25). *)
Theorem c15_ot_round_f64_sharp : forall v, is_finite v = true -> (Rabs (B2R v) <= IZR (2 ^ 52 - 1))%R ->
  B2R v <> (/ 2 - bpow radix2 (-54))%R ->
  is_finite (ot_round 53 1024 v) = true /\ B2R (ot_round 53 1024 v) = IZR (Zfloor (B2R v + / 2)).
Proof. exact ot_round_f64_sharp. Qed.
Theorem c15_ot_round_f32_sharp : forall v, is_finite v = true -> (Rabs (B2R v) <= IZR (2 ^ 23 - 1))%R ->
  B2R v <> (/ 2 - bpow radix2 (-25))%R ->
  is_finite (ot_round 24 128 v) = true /\ B2R (ot_round 24 128 v) = IZR (Zfloor (B2R v + / 2)).
Proof. exact ot_round_f32_sharp. Qed.
Theorem c15_ot_round_f64_i16_sharp : forall v, is_finite v = true -> (Rabs (B2R v) <= IZR (2 ^ 52 - 1))%R ->
  B2R v <> (/ 2 - bpow radix2 (-54))%R ->
  ot_round_i16 53 1024 v = Z.max (-32768) (Z.min 32767 (Zfloor (B2R v + / 2))).
Proof. exact ot_round_f64_i16_sharp. Qed.
Theorem c15_ot_round_f32_i16_sharp : forall v, is_finite v = true -> (Rabs (B2R v) <= IZR (2 ^ 23 - 1))%R ->
  B2R v <> (/ 2 - bpow radix2 (-25))%R ->
  ot_round_i16 24 128 v = Z.max (-32768) (Z.min 32767 (Zfloor (B2R v + / 2))).
Proof. exact ot_round_f32_i16_sharp. Qed.
Theorem c15_ot_round_f64_u16_sharp : forall v, is_finite v = true -> (Rabs (B2R v) <= IZR (2 ^ 52 - 1))%R ->
  B2R v <> (/ 2 - bpow radix2 (-54))%R ->
  ot_round_u16 53 1024 v = Z.max 0 (Z.min 65535 (Zfloor (B2R v + / 2))).
Proof. exact ot_round_f64_u16_sharp. Qed.
Theorem c15_ot_round_f32_u16_sharp : forall v, is_finite v = true -> (Rabs (B2R v) <= IZR (2 ^ 23 - 1))%R ->
  B2R v <> (/ 2 - bpow radix2 (-25))%R ->
  ot_round_u16 24 128 v = Z.max 0 (Z.min 65535 (Zfloor (B2R v + / 2))).
Proof. exact ot_round_f32_u16_sharp. Qed.

Print Assumptions c15_ot_round_halves.
Print Assumptions c15_ot_round_f64_i16_halves.
Print Assumptions c15_ot_round_f32_i16_halves.
Print Assumptions c15_ot_round_f64_u16_halves.
Print Assumptions c15_ot_round_f32_u16_halves.
Print Assumptions c15_ot_round_f64_bracket.
Print Assumptions c15_ot_round_f32_bracket.
Print Assumptions c15_ot_round_f64_sharp.
Print Assumptions c15_ot_round_f32_sharp.
Print Assumptions c15_ot_round_f64_i16_sharp.
Print Assumptions c15_ot_round_f32_i16_sharp.
Print Assumptions c15_ot_round_f64_u16_sharp.
Print Assumptions c15_ot_round_f32_u16_sharp.
