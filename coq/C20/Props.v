(* C20 — property theorems: for every modelled kernel, the set of arguments on which the
   overflow-checks + debug-assertions build can trap.  "<> None" = no overflow check / assertion /
   division panic trips.  After the wrapping-arithmetic repair of the hinting kernels (fix: hinting
   overflow) every kernel is trap-free on its whole argument type; the only remaining preconditions are
   a period of 0 / -1 for Super45 (not installable by SROUND/S45ROUND: `no_trap_sround_then_round`),
   `lookup_glyph_id`'s `start_code <= codepoint` and `max_value_bitmap_len`'s usize::MAX.  The former
   `…_trap_refuted` witnesses are kept in Examples.v as examples of the now total behaviour. *)
From Coq Require Import ZArith List.
From FV Require Import Lib.RustInt C15.Model C15.Proofs C20.Model C20.Proofs.
Import ListNotations.
Open Scope Z_scope.

(* ---- skrifa hint/math.rs ---- *)
Theorem no_trap_floor : forall x, m_floor x <> None.
Proof. exact C20.Proofs.no_trap_floor. Qed.
Theorem no_trap_round : forall x, m_round x <> None.
Proof. exact C20.Proofs.no_trap_round. Qed.
Theorem no_trap_ceil : forall x, m_ceil x <> None.
Proof. exact C20.Proofs.no_trap_ceil. Qed.
Theorem no_trap_floor_pad : forall x n, m_floor_pad x n <> None.
Proof. exact C20.Proofs.no_trap_floor_pad. Qed.
Theorem no_trap_round_pad : forall x n, m_round_pad x n <> None.
Proof. exact C20.Proofs.no_trap_round_pad. Qed.
(* and the value is the unwrapped one wherever the old code did not trap *)
Theorem round_value : forall x, i32 x -> x <= 2147483615 -> m_round x = Some ((x + 32) / 64 * 64).
Proof. exact m_round_some. Qed.
Theorem ceil_value : forall x, i32 x -> x <= 2147483584 -> m_ceil x = Some ((x + 63) / 64 * 64).
Proof. exact m_ceil_some. Qed.
Theorem no_trap_mul : forall a b, i32 a -> i32 b -> m_mul a b = Some (fixed_mul a b).
Proof. exact C20.Proofs.no_trap_mul. Qed.
Theorem no_trap_div : forall a b, i32 a -> i32 b -> m_div a b = Some (fixed_div a b).
Proof. exact C20.Proofs.no_trap_div. Qed.
Theorem no_trap_mul_div : forall s a b, i32 s -> i32 a -> i32 b -> m_mul_div s a b = Some (fixed_mul_div s a b).
Proof. exact C20.Proofs.no_trap_mul_div. Qed.
Theorem no_trap_mul14 : forall a b, i32 a -> i32 b -> m_mul14 a b <> None.
Proof. exact C20.Proofs.no_trap_mul14. Qed.
Theorem no_trap_mul_div_no_round : forall a b c, i32 a -> i32 b -> i32 c -> m_mul_div_no_round a b c <> None.
Proof. exact C20.Proofs.no_trap_mul_div_no_round. Qed.
Theorem mul_div_no_round_value : forall a b c, i32 a -> i32 b -> i32 c -> 0 <= a -> 0 <= b -> 0 < c ->
  a * b / c <= 2147483647 -> m_mul_div_no_round a b c = Some (a * b / c).
Proof. exact C20.Proofs.mul_div_no_round_value. Qed.
Theorem no_trap_normalize14_negshift : forall x y, m_normalize14_negshift x y <> None.
Proof. exact C20.Proofs.no_trap_normalize14_negshift. Qed.

(* ---- skrifa hint/round.rs: RoundState::round, every mode, every distance ---- *)
Theorem no_trap_round_off : forall d, rs_off d <> None.
Proof. exact no_trap_rs_off. Qed.
Theorem no_trap_round_grid : forall d, rs_grid d <> None.
Proof. exact no_trap_rs_grid. Qed.
Theorem no_trap_round_half_grid : forall d, rs_half_grid d <> None.
Proof. exact no_trap_rs_half_grid. Qed.
Theorem no_trap_round_double_grid : forall d, rs_double_grid d <> None.
Proof. exact no_trap_rs_double_grid. Qed.
Theorem no_trap_round_down_to_grid : forall d, rs_down_to_grid d <> None.
Proof. exact no_trap_rs_down_to_grid. Qed.
Theorem no_trap_round_up_to_grid : forall d, rs_up_to_grid d <> None.
Proof. exact no_trap_rs_up_to_grid. Qed.
Theorem no_trap_round_super : forall t ph pe d, rs_super t ph pe d <> None.
Proof. exact no_trap_rs_super. Qed.
Theorem no_trap_round_super45 : forall t ph pe d, pe <> 0 -> pe <> -1 -> rs_super45 t ph pe d <> None.
Proof. exact no_trap_rs_super45. Qed.
(* the repaired Grid mode agrees with the exact rounding wherever the old code did not trap *)
Theorem round_grid_value : forall d, -2147483615 <= d <= 2147483615 ->
  rs_grid d = Some (if 0 <=? d then Z.max ((d + 32) / 64 * 64) 0 else Z.min (- ((- d + 32) / 64 * 64)) 0).
Proof. exact rs_grid_value. Qed.
(* Super / Super45 with the parameters the interpreter can install (every SROUND / S45ROUND selector), every d *)
Theorem no_trap_sround_then_round : forall g sel d, g = 16384 \/ g = 11585 ->
  exists t ph pe, super_round g sel = Some (t, ph, pe) /\
    rs_round (if g =? 16384 then 6 else 7) t ph pe d <> None.
Proof. exact no_trap_sround_round. Qed.

(* ---- font-types fixed.rs ---- *)
Theorem no_trap_fixed_neg_abs : forall bits a, fx_neg bits a <> None /\ fx_abs bits a <> None.
Proof. exact no_trap_fx_neg_abs. Qed.
Theorem fixed_neg_value : forall a, i32 a -> a <> -2147483648 -> fx_neg 32 a = Some (- a).
Proof. exact fx_neg32_value. Qed.
Theorem fixed_abs_value : forall a, i32 a -> a <> -2147483648 -> fx_abs 32 a = Some (Z.abs a).
Proof. exact fx_abs32_value. Qed.
Theorem no_trap_fract : forall bits f x, 0 <= f < bits - 1 -> fx_fract bits f x <> None.
Proof. exact C20.Proofs.no_trap_fract. Qed.
Theorem no_trap_from_i32 : forall i, fixed_from_i32_chk i <> None /\ f26dot6_from_i32_chk i <> None.
Proof. exact C20.Proofs.no_trap_from_i32. Qed.
Theorem no_trap_to_conversions : forall x,
  fixed_to_i32_chk x <> None /\ fixed_to_f26dot6_chk x <> None /\ fixed_to_f2dot14_chk x <> None
  /\ f26dot6_to_i32_chk x <> None.
Proof. exact no_trap_to_fixed_conversions. Qed.
Theorem no_trap_f2dot14_to_fixed : forall x, i16 x -> f2dot14_to_fixed_chk x <> None.
Proof. exact C20.Proofs.no_trap_f2dot14_to_fixed. Qed.

(* ---- read-fonts ---- *)
Theorem no_trap_midpoint : forall a b, midpoint_i32 a b <> None.
Proof. exact C20.Proofs.no_trap_midpoint. Qed.
Theorem no_trap_fvar_normalize : forall mn df mx v, i32 mn -> i32 df -> i32 mx -> i32 v ->
  fvar_normalize mn df mx v <> None.
Proof. exact C20.Proofs.no_trap_fvar_normalize. Qed.
Theorem no_trap_avar_apply : forall maps coord,
  Forall (fun p => i16 (fst p) /\ i16 (snd p)) maps -> avar_apply maps coord <> None.
Proof. exact C20.Proofs.no_trap_avar_apply. Qed.
Theorem no_trap_cmap4_map : forall sx2 starts ends deltas ros gids cp,
  Forall u16 starts -> Forall u16 ends -> Forall i16 deltas -> Forall u16 ros -> Forall u16 gids ->
  u16 sx2 -> 0 <= cp -> Z.of_nat (length ros) <= 65535 ->
  cmap4_map sx2 starts ends deltas ros gids cp <> None.
Proof. exact C20.Proofs.no_trap_cmap4_map. Qed.
Theorem no_trap_cmap4_lookup : forall deltas ros gids cp idx sc,
  Forall i16 deltas -> Forall u16 ros -> Forall u16 gids -> u16 cp -> u16 sc -> sc <= cp ->
  0 <= idx -> Z.of_nat (length ros) <= 65535 ->
  cmap4_lookup deltas ros gids cp idx sc <> None.
Proof. exact C20.Proofs.no_trap_cmap4_lookup. Qed.
Theorem no_trap_transforms : forall a b c,
  t_subtract a b <> None /\ t_add a b <> None /\ t_bitmap_len a <> None /\ t_add_multiply a b c <> None
  /\ t_multiply_add a b c <> None /\ t_half a <> None /\ t_subtract_add_two a b <> None.
Proof. exact C20.Proofs.no_trap_transforms. Qed.
Theorem max_value_bitmap_len_no_trap_iff : forall c, 0 <= c < 18446744073709551616 ->
  (t_max_value_bitmap_len c <> None <-> c < 18446744073709551615).
Proof. exact max_value_bitmap_len_trap_iff. Qed.
Theorem no_trap_max_value_bitmap_len_u16 : forall c, u16 c -> t_max_value_bitmap_len c <> None.
Proof. exact C20.Proofs.no_trap_max_value_bitmap_len_u16. Qed.
Theorem no_trap_checksum : forall l, compute_checksum l <> None.
Proof. exact C20.Proofs.no_trap_checksum. Qed.

(* ---- round 2: interpreter arithmetic instructions, CVT scaling, += / -=, phantom points, gvar interpolation ---- *)
Theorem no_trap_op_add : forall a b, op_add a b <> None.
Proof. exact C20.Proofs.no_trap_op_add. Qed.
Theorem no_trap_op_sub : forall a b, op_sub a b <> None.
Proof. exact C20.Proofs.no_trap_op_sub. Qed.
Theorem no_trap_op_mul : forall a b, op_mul a b <> None.
Proof. exact C20.Proofs.no_trap_op_mul. Qed.
Theorem no_trap_op_div : forall a b, i32 a -> i32 b -> op_div a b <> None.
Proof. exact C20.Proofs.no_trap_op_div. Qed.
Theorem no_trap_op_abs : forall a, op_abs a <> None.
Proof. exact C20.Proofs.no_trap_op_abs. Qed.
Theorem no_trap_op_neg : forall a, op_neg a <> None.
Proof. exact C20.Proofs.no_trap_op_neg. Qed.
Theorem no_trap_op_floor_ceiling : forall a, op_floor a <> None /\ op_ceiling a <> None.
Proof. exact C20.Proofs.no_trap_op_floor_ceiling. Qed.
Theorem no_trap_op_max_min : forall a b, op_max a b <> None /\ op_min a b <> None.
Proof. exact C20.Proofs.no_trap_op_max_min. Qed.
Theorem no_trap_op_wcvtf : forall v scale, i32 v -> i32 scale -> op_wcvtf v scale <> None.
Proof. exact C20.Proofs.no_trap_op_wcvtf. Qed.
Theorem no_trap_compute_scale : forall ppem upem, 0 <= ppem <= 33554431 -> u16 upem -> compute_scale ppem upem <> None.
Proof. exact C20.Proofs.no_trap_compute_scale. Qed.
Theorem cvt_load_total : forall base, i16 base -> cvt_load base = Some (base * 64).
Proof. exact no_trap_cvt_load. Qed.
Theorem no_trap_cvt_load_cvar : forall base delta, i16 base -> cvt_load_cvar base delta <> None.
Proof. exact C20.Proofs.no_trap_cvt_load_cvar. Qed.
Theorem no_trap_cvt_scale : forall v scale, i32 v -> i32 scale -> cvt_scale v scale <> None.
Proof. exact C20.Proofs.no_trap_cvt_scale. Qed.
(* AddAssign / SubAssign of the fixed types go through the wrapping Add / Sub *)
Theorem no_trap_add_sub_assign : forall bits a b, fx_add_assign bits a b <> None /\ fx_sub_assign bits a b <> None.
Proof. exact no_trap_assign. Qed.
Theorem no_trap_phantom_points : forall xmin ymax lsb adv ascent descent,
  i16 xmin -> i16 ymax -> i16 lsb -> u16 adv -> i16 ascent -> i16 descent ->
  phantom_points xmin ymax lsb adv ascent descent <> None.
Proof. exact C20.Proofs.no_trap_phantom_points. Qed.
Theorem no_trap_delta_interp : forall in1c in2c out1 out2 pc cur, delta_interp in1c in2c out1 out2 pc cur <> None.
Proof. exact C20.Proofs.no_trap_delta_interp. Qed.
Theorem no_trap_delta_shift : forall r o c, delta_shift r o c <> None.
Proof. exact C20.Proofs.no_trap_delta_shift. Qed.

Theorem no_trap_delta_apply_scalar : forall d sc, i32 sc -> delta_apply_scalar d sc <> None.
Proof. exact C20.Proofs.no_trap_delta_apply_scalar. Qed.
Theorem no_trap_cmap12_one_group : forall cp s e g, cmap12_one_group cp s e g <> None.
Proof. exact C20.Proofs.no_trap_cmap12_one_group. Qed.
Theorem no_trap_hmtx_ix : forall n m gid, hmtx_advance_ix n gid <> None /\ hmtx_lsb_ix n m gid <> None.
Proof. exact C20.Proofs.no_trap_hmtx_ix. Qed.

(* ---- sparse bit set decoder (IFT codepoint sets, read-fonts sparse_bit_set.rs) ---- *)
Theorem no_trap_sbs_node_end : forall nstart node_size bias maxv,
  0 <= nstart -> 1 <= node_size -> nstart + node_size <= 18446744073709551615 ->
  sbs_fill_range nstart node_size bias maxv <> None.
Proof. exact no_trap_sbs_fill_range. Qed.
Theorem no_trap_sbs_leaf_value : forall nstart bit bias maxv, sbs_leaf_value nstart bit bias maxv <> None.
Proof. exact C20.Proofs.no_trap_sbs_leaf_value. Qed.
(* every filled node of every tree the decoder accepts (bf^height <= 2^63 covers BF 2/4/8/32 at their
   maximum heights 31/16/11/7), any bias, any limit *)
Theorem no_trap_sbs_filled_node : forall bf height bias maxv path,
  1 <= bf -> 1 <= height <= 4294967295 -> bf ^ height <= 9223372036854775808 ->
  Z.of_nat (length path) < height -> Forall (fun i => 0 <= i < bf) path ->
  sbs_filled_node bf height bias maxv path <> None.
Proof. exact C20.Proofs.no_trap_sbs_filled_node. Qed.

(* ---- Coverage format 2 `get`, Device `iter`, Svg `glyph_data` (the three read-fonts sites fixed in 9432562) ---- *)
Theorem no_trap_cov2_get : forall sg eg sc gid, u16 sg -> u16 gid -> cov2_get sg eg sc gid <> None.
Proof. exact C20.Proofs.no_trap_cov2_get. Qed.
Theorem no_trap_device_count : forall ss es, u16 es -> device_count ss es <> None.
Proof. exact C20.Proofs.no_trap_device_count. Qed.
Theorem device_count_value : forall ss es, u16 ss -> u16 es ->
  device_count ss es = Some (if ss <=? es then es - ss + 1 else 0).
Proof. exact C20.Proofs.device_count_value. Qed.
Theorem no_trap_svg_doc_slice : forall off len n, svg_doc_slice off len n <> None.
Proof. exact C20.Proofs.no_trap_svg_doc_slice. Qed.

(* ---- auto-hinter link_segments_default: the score term.  Every optional standard width, Some(0) included,
   is guarded (unwrap_or_default, then != 0) before `(dist << 10) / max_width` ---- *)
Theorem no_trap_link_score : forall mw dist len len_score,
  (match mw with Some w => i32 w | None => True end) ->
  0 <= dist <= 65535 -> 1 <= len <= 65535 -> 0 <= len_score <= 2000000000 ->
  link_score mw dist len len_score <> None.
Proof. exact C20.Proofs.no_trap_link_score. Qed.
Theorem no_trap_derived_constant : forall upem v, u16 upem -> 0 <= v <= 32767 -> derived_constant upem v <> None.
Proof. exact C20.Proofs.no_trap_derived_constant. Qed.

(* ---- CFF / CFF2 INDEX object lookup and subroutine numbers ---- *)
Theorem no_trap_index_get : forall index count off_size,
  0 <= index <= 18446744073709551615 -> 0 <= count <= 4294967295 -> 0 <= off_size <= 255 ->
  index_get_positions index count off_size <> None.
Proof. exact C20.Proofs.no_trap_index_get. Qed.
Theorem no_trap_subr_biased_index : forall v bias, i16 v -> 0 <= bias <= 32768 -> subr_biased_index v bias <> None.
Proof. exact C20.Proofs.no_trap_subr_biased_index. Qed.

(* ---- COLR variable records: the variation index, both branches (with / without DeltaSetIndexMap) ---- *)
Theorem no_trap_colr_var_index : forall has_map base i, colr_var_index has_map base i <> None.
Proof. exact C20.Proofs.no_trap_colr_var_index. Qed.
Theorem colr_var_index_value : forall base i, 0 <= base <= 4294967295 -> 0 <= i < 16 -> base + i <= 4294967295 ->
  colr_var_index true base i = Some (base + i) /\ colr_var_index false base i = Some ((base + i) mod 65536).
Proof. exact C20.Proofs.colr_var_index_value. Qed.

Print Assumptions no_trap_floor.
Print Assumptions no_trap_round.
Print Assumptions no_trap_ceil.
Print Assumptions no_trap_floor_pad.
Print Assumptions no_trap_round_pad.
Print Assumptions round_value.
Print Assumptions ceil_value.
Print Assumptions no_trap_mul.
Print Assumptions no_trap_div.
Print Assumptions no_trap_mul_div.
Print Assumptions no_trap_mul14.
Print Assumptions no_trap_mul_div_no_round.
Print Assumptions mul_div_no_round_value.
Print Assumptions no_trap_normalize14_negshift.
Print Assumptions no_trap_round_off.
Print Assumptions no_trap_round_grid.
Print Assumptions no_trap_round_half_grid.
Print Assumptions no_trap_round_double_grid.
Print Assumptions no_trap_round_down_to_grid.
Print Assumptions no_trap_round_up_to_grid.
Print Assumptions no_trap_round_super.
Print Assumptions no_trap_round_super45.
Print Assumptions round_grid_value.
Print Assumptions no_trap_sround_then_round.
Print Assumptions no_trap_fixed_neg_abs.
Print Assumptions fixed_neg_value.
Print Assumptions fixed_abs_value.
Print Assumptions no_trap_fract.
Print Assumptions no_trap_from_i32.
Print Assumptions no_trap_to_conversions.
Print Assumptions no_trap_f2dot14_to_fixed.
Print Assumptions no_trap_midpoint.
Print Assumptions no_trap_fvar_normalize.
Print Assumptions no_trap_avar_apply.
Print Assumptions no_trap_cmap4_map.
Print Assumptions no_trap_cmap4_lookup.
Print Assumptions no_trap_transforms.
Print Assumptions max_value_bitmap_len_no_trap_iff.
Print Assumptions no_trap_max_value_bitmap_len_u16.
Print Assumptions no_trap_checksum.
Print Assumptions no_trap_op_add.
Print Assumptions no_trap_op_sub.
Print Assumptions no_trap_op_mul.
Print Assumptions no_trap_op_div.
Print Assumptions no_trap_op_abs.
Print Assumptions no_trap_op_neg.
Print Assumptions no_trap_op_floor_ceiling.
Print Assumptions no_trap_op_max_min.
Print Assumptions no_trap_op_wcvtf.
Print Assumptions no_trap_compute_scale.
Print Assumptions cvt_load_total.
Print Assumptions no_trap_cvt_load_cvar.
Print Assumptions no_trap_cvt_scale.
Print Assumptions no_trap_add_sub_assign.
Print Assumptions no_trap_phantom_points.
Print Assumptions no_trap_delta_interp.
Print Assumptions no_trap_delta_shift.
Print Assumptions no_trap_delta_apply_scalar.
Print Assumptions no_trap_cmap12_one_group.
Print Assumptions no_trap_hmtx_ix.
Print Assumptions no_trap_sbs_node_end.
Print Assumptions no_trap_sbs_leaf_value.
Print Assumptions no_trap_sbs_filled_node.
Print Assumptions no_trap_cov2_get.
Print Assumptions no_trap_device_count.
Print Assumptions device_count_value.
Print Assumptions no_trap_svg_doc_slice.
Print Assumptions no_trap_link_score.
Print Assumptions no_trap_derived_constant.
Print Assumptions no_trap_index_get.
Print Assumptions no_trap_subr_biased_index.
Print Assumptions no_trap_colr_var_index.
Print Assumptions colr_var_index_value.
