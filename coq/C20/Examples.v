(* C20 — examples.  The inputs that were `…_trap_refuted` witnesses before the wrapping repair of the
   hinting kernels are kept as examples of the now total behaviour (each is replayed on the real code
   by the harness); the remaining `…_trap_refuted` are preconditions no caller violates. *)
From Coq Require Import ZArith List Lia.
From FV Require Import Lib.RustInt C15.Model C15.Proofs C20.Model C20.Proofs.
Import ListNotations.
Open Scope Z_scope.

(* ---- hint/math.rs: the inputs that trapped before the wrapping repair, now total ---- *)
Example round_at_former_trap : m_round 2147483647 = Some (-2147483648) /\ m_round 2147483616 = Some (-2147483648)
  /\ m_round 2147483615 = Some 2147483584.
Proof. repeat split; vm_compute; reflexivity. Qed.
Example ceil_at_former_trap : m_ceil 2147483585 = Some (-2147483648).
Proof. vm_compute; reflexivity. Qed.
Example round_pad_at_former_trap : m_round_pad 2147483632 32 = Some (-2147483648).
Proof. vm_compute; reflexivity. Qed.
Example floor_pad_at_former_trap : m_floor_pad 0 (-2147483648) = Some 0.
Proof. vm_compute; reflexivity. Qed.
(* DIV[] executes mul_div_no_round(a, 64, b): same results as the (wrapping) release build always gave *)
Example mul_div_no_round_at_former_traps :
  m_mul_div_no_round (-2147483648) 64 1 = Some 0 /\ m_mul_div_no_round 1 64 (-2147483648) = Some (-2147483647)
  /\ m_mul_div_no_round (-33554432) 64 1 = Some (-2147483648).
Proof. repeat split; vm_compute; reflexivity. Qed.
Example mul_div_no_round_ok : m_mul_div_no_round (-6127) 15026 2276 = Some (-40450).
Proof. vm_compute; reflexivity. Qed.

(* ---- hint/round.rs ---- *)
Example round_modes_at_former_traps :
  rs_grid 2147483647 = Some 0 /\ rs_grid (-2147483648) = Some (-2147483648)
  /\ rs_half_grid (-2147483648) = Some 0
  /\ rs_double_grid 2147483647 = Some 0 /\ rs_double_grid (-2147483648) = Some (-2147483648)
  /\ rs_down_to_grid (-2147483648) = Some (-2147483648)
  /\ rs_up_to_grid 2147483647 = Some 0 /\ rs_up_to_grid (-2147483648) = Some (-2147483648).
Proof. repeat split; vm_compute; reflexivity. Qed.
Example round_super_at_former_traps :
  super_round 16384 79 = Some (88, 0, 64) /\ rs_super 88 0 64 2147483647 = Some 0
  /\ super_round 16384 68 = Some (0, 0, 64) /\ rs_super 0 0 64 (-2147483648) = Some (-2147483648)
  /\ super_round 11585 79 = Some (62, 0, 45) /\ rs_super45 62 0 45 2147483647 = Some 0
  /\ rs_super 0 0 (-2147483648) 0 = Some 0.
Proof. repeat split; vm_compute; reflexivity. Qed.
(* what is left: a period of 0 or -1 (RoundState's fields are public; SROUND/S45ROUND never install them) *)
Example round_super45_trap_refuted : rs_super45 0 0 0 5 = None /\ rs_super45 0 0 (-1) (-2147483648) = None.
Proof. split; vm_compute; reflexivity. Qed.
Example sround_then_round_ok :
  exists t ph pe, super_round 16384 72 = Some (t, ph, pe) /\ rs_round 6 t ph pe 100 = Some 128.
Proof. exists 32, 0, 64. split; vm_compute; reflexivity. Qed.

(* ---- font-types ---- *)
Example fixed_neg_abs_at_former_traps :
  fx_neg 32 (-2147483648) = Some (-2147483648) /\ fx_abs 32 (-2147483648) = Some (-2147483648)
  /\ fx_abs 16 (-32768) = Some (-32768).
Proof. repeat split; vm_compute; reflexivity. Qed.

(* ---- read-fonts ---- *)
Example cmap4_lookup_trap_refuted :     (* codepoint < start_code: never passed by map_codepoint / Cmap4Iter *)
  cmap4_lookup [0] [2] [7] 5 0 6 = None.
Proof. vm_compute; reflexivity. Qed.
Example max_value_bitmap_len_trap_refuted : t_max_value_bitmap_len 18446744073709551615 = None.
Proof. vm_compute; reflexivity. Qed.
Example fvar_normalize_ok : fvar_normalize (100 * 65536) (400 * 65536) (900 * 65536) (250 * 65536) = Some (-32768).
Proof. vm_compute; reflexivity. Qed.
Example fvar_normalize_extreme_ok : fvar_normalize (-2147483648) 2147483647 2147483647 (-2147483648) = Some (-65536).
Proof. vm_compute; reflexivity. Qed.
Example avar_apply_ok : avar_apply [(-16384, -16384); (0, 0); (8192, 4096); (16384, 16384)] 16384 = Some 8192.
Proof. vm_compute; reflexivity. Qed.
Example cmap4_map_ok : cmap4_map 4 [65; 65535] [70; 65535] [0; 1] [4; 0] [10; 11; 12] 66 = Some (Some 11).
Proof. vm_compute; reflexivity. Qed.
Example checksum_ok : compute_checksum [0; 1; 2; 3; 255; 255; 255; 255; 9] = Some 151060994.
Proof. vm_compute; reflexivity. Qed.

(* ---- round 2 ---- *)
Example interpreter_arith_examples :
  op_add 2147483647 1 = Some (-2147483648) /\ op_sub (-2147483648) 1 = Some 2147483647
  /\ op_div 64 0 = Some None /\ op_div 640 128 = Some (Some 320) /\ op_mul 128 128 = Some 256
  /\ op_abs (-2147483648) = Some (-2147483648) /\ op_neg (-2147483648) = Some (-2147483648).
Proof. repeat split; vm_compute; reflexivity. Qed.
Example cvt_examples :
  cvt_load 32767 = Some 2097088 /\ cvt_load_cvar (-32768) (-2147483648) = Some (-4194304)
  /\ (do s <- compute_scale 16 1000 ;; cvt_scale 6400 s) = Some 102.
Proof. repeat split; vm_compute; reflexivity. Qed.
Example phantom_points_extreme :
  phantom_points (-32768) 32767 32767 65535 32767 (-32768) = Some (-65535, 0, 32767, -32768).
Proof. vm_compute; reflexivity. Qed.
Example delta_interp_example : delta_interp 0 100 (10 * 65536) (130 * 65536) 50 0 = Some 4587510.
Proof. vm_compute; reflexivity. Qed.

(* ---- sparse bit set: a filled root of the tallest BF4 tree with a bias ends at u32::MAX (saturating) ---- *)
Example sbs_filled_root_bf4 : sbs_filled_node 4 16 32 1114111 [] = Some (Some (32, 1114111))
  /\ sbs_filled_node 4 16 1 4294967295 [3] = Some (Some (3221225473, 4294967295))
  /\ sbs_filled_node 8 11 4294967295 4294967295 [] = Some (Some (4294967295, 4294967295))
  /\ sbs_filled_node 32 7 1 1114111 [31] = Some None.
Proof. repeat split; vm_compute; reflexivity. Qed.
Example sbs_bounds_cover_the_decoder : 2 ^ 31 <= 9223372036854775808 /\ 4 ^ 16 <= 9223372036854775808
  /\ 8 ^ 11 <= 9223372036854775808 /\ 32 ^ 7 <= 9223372036854775808.
Proof. repeat split; vm_compute; discriminate. Qed.

(* ---- the inputs that trapped before /repo 9432562 ---- *)
Example cov2_device_svg_at_former_traps :
  cov2_get 10 20 65535 11 = Some None /\ cov2_get 10 20 65530 12 = Some (Some 65532)
  /\ device_count 12 8 = Some 0 /\ device_count 0 65535 = Some 65536
  /\ svg_doc_slice 4294967295 4294901760 6 = Some None.
Proof. repeat split; vm_compute; reflexivity. Qed.

(* ---- link score: a standard width of Some 0 (stemless standard glyph) behaves like None ---- *)
Example link_score_zero_width : link_score (Some 0) 100 50 2929 = Some 158 /\ link_score None 100 50 2929 = Some 158
  /\ link_score (Some 80) 100 50 2929 = Some 79 /\ link_score (Some 1) 65535 1 0 = Some 32000.
Proof. repeat split; vm_compute; reflexivity. Qed.

(* ---- COLR variation index at the 16- and 32-bit boundaries ---- *)
Example colr_var_index_boundaries :
  colr_var_index false 65533 3 = Some 0 /\ colr_var_index false 131071 1 = Some 0
  /\ colr_var_index true 4294967294 3 = Some 1 /\ colr_var_index false 4294967294 3 = Some 1.
Proof. repeat split; vm_compute; reflexivity. Qed.
