(* C20 — refutation witnesses (`…_trap_refuted`: the full "never traps" statement is false of the
   faithful model; each witness is replayed on the real code by the harness) and satisfiability
   examples for the hypotheses of the theorems. *)
From Coq Require Import ZArith List Lia.
From FV Require Import Lib.RustInt C15.Model C15.Proofs C20.Model C20.Proofs.
Import ListNotations.
Open Scope Z_scope.

(* ---- hint/math.rs ---- *)
Example round_trap_refuted : exists x, i32 x /\ m_round x = None.
Proof. exists 2147483647. split; [unfold i32; lia|vm_compute; reflexivity]. Qed.
Example round_trap_refuted_least : m_round 2147483616 = None /\ m_round 2147483615 = Some 2147483584.
Proof. split; vm_compute; reflexivity. Qed.
Example ceil_trap_refuted : exists x, i32 x /\ m_ceil x = None.
Proof. exists 2147483585. split; [unfold i32; lia|vm_compute; reflexivity]. Qed.
Example round_pad_trap_refuted : exists x n, i32 x /\ i32 n /\ m_round_pad x n = None.
Proof. exists 2147483632, 32. repeat split; try (unfold i32; lia). Qed.
Example floor_pad_trap_refuted : exists x n, i32 n /\ m_floor_pad x n = None.
Proof. exists 0, (-2147483648). split; [unfold i32; lia|vm_compute; reflexivity]. Qed.
(* DIV[] executes mul_div_no_round(a, 64, b) *)
Example mul_div_no_round_trap_refuted : exists a b c, i32 a /\ i32 b /\ i32 c /\ m_mul_div_no_round a b c = None.
Proof. exists (-2147483648), 64, 1. repeat split; try (unfold i32; lia). Qed.
Example mul_div_no_round_trap_refuted_divisor : m_mul_div_no_round 1 64 (-2147483648) = None.
Proof. vm_compute; reflexivity. Qed.
(* no operand is i32::MIN but the quotient is 2^31 and the sign negative: -(d as i32) *)
Example mul_div_no_round_trap_refuted_quotient : m_mul_div_no_round (-33554432) 64 1 = None.
Proof. vm_compute; reflexivity. Qed.
Example mul_div_no_round_ok : m_mul_div_no_round (-6127) 15026 2276 = Some (-40450).
Proof. vm_compute; reflexivity. Qed.

(* ---- hint/round.rs ---- *)
Example round_grid_trap_refuted : exists d, i32 d /\ rs_grid d = None.
Proof. exists 2147483647. split; [unfold i32; lia|vm_compute; reflexivity]. Qed.
Example round_grid_trap_refuted_min : rs_grid (-2147483648) = None.
Proof. vm_compute; reflexivity. Qed.
Example round_half_grid_trap_refuted : rs_half_grid (-2147483648) = None.
Proof. vm_compute; reflexivity. Qed.
Example round_double_grid_trap_refuted : rs_double_grid 2147483647 = None /\ rs_double_grid (-2147483648) = None.
Proof. split; vm_compute; reflexivity. Qed.
Example round_down_to_grid_trap_refuted : rs_down_to_grid (-2147483648) = None.
Proof. vm_compute; reflexivity. Qed.
Example round_up_to_grid_trap_refuted : rs_up_to_grid 2147483647 = None /\ rs_up_to_grid (-2147483648) = None.
Proof. split; vm_compute; reflexivity. Qed.
(* SROUND 0x44 (period 64, phase 0, threshold 0): ROUND of i32::MIN traps; SROUND 0x4F: i32::MAX traps *)
Example round_super_trap_refuted :
  exists sel d t ph pe, i32 d /\ super_round 16384 sel = Some (t, ph, pe) /\ rs_super t ph pe d = None.
Proof. exists 79, 2147483647, 88, 0, 64. repeat split; try (unfold i32; lia). Qed.
Example round_super_trap_refuted_min :
  exists t ph pe, super_round 16384 68 = Some (t, ph, pe) /\ rs_super t ph pe (-2147483648) = None.
Proof. exists 0, 0, 64. split; vm_compute; reflexivity. Qed.
Example round_super45_trap_refuted :
  exists sel d t ph pe, i32 d /\ super_round 11585 sel = Some (t, ph, pe) /\ rs_super45 t ph pe d = None.
Proof. exists 79, 2147483647, 62, 0, 45. repeat split; try (unfold i32; lia). Qed.
(* arbitrary (threshold, phase, period) — not installable by the interpreter — trap much earlier *)
Example round_super_any_params_trap_refuted : rs_super 0 0 (-2147483648) 0 = None /\ rs_super45 0 0 0 5 = None.
Proof. split; vm_compute; reflexivity. Qed.
Example sround_then_round_ok :
  exists t ph pe, super_round 16384 72 = Some (t, ph, pe) /\ rs_round 6 t ph pe 100 = Some 128.
Proof. exists 32, 0, 64. split; vm_compute; reflexivity. Qed.

(* ---- font-types ---- *)
Example fixed_neg_trap_refuted : exists a, i32 a /\ fx_neg 32 a = None.
Proof. exists (-2147483648). split; [unfold i32; lia|vm_compute; reflexivity]. Qed.
Example fixed_abs_trap_refuted : exists a, i32 a /\ fx_abs 32 a = None.
Proof. exists (-2147483648). split; [unfold i32; lia|vm_compute; reflexivity]. Qed.
Example f2dot14_abs_trap_refuted : exists a, i16 a /\ fx_abs 16 a = None.
Proof. exists (-32768). split; [unfold i16; lia|vm_compute; reflexivity]. Qed.

(* ---- read-fonts ---- *)
Example cmap4_lookup_trap_refuted :     (* codepoint < start_code: never passed by map_codepoint / Cmap4Iter *)
  cmap4_lookup [0] [2] [7] 5 0 6 = None.
Proof. vm_compute; reflexivity. Qed.
Example max_value_bitmap_len_trap_refuted : t_max_value_bitmap_len 18446744073709551615 = None.
Proof. vm_compute; reflexivity. Qed.
Example fvar_normalize_ok : fvar_normalize (100 * 65536) (400 * 65536) (900 * 65536) (250 * 65536) = Some (-32768).
Proof. vm_compute; reflexivity. Qed.
Example fvar_normalize_extreme_ok : fvar_normalize (-2147483648) 2147483647 2147483647 (-2147483648) = Some (-65536).
Proof. vm_compute; reflexivity. Qed.
Example avar_apply_ok : avar_apply [(-16384, -16384); (0, 0); (8192, 4096); (16384, 16384)] 16384 = Some 8192.
Proof. vm_compute; reflexivity. Qed.
Example cmap4_map_ok : cmap4_map 4 [65; 65535] [70; 65535] [0; 1] [4; 0] [10; 11; 12] 66 = Some (Some 11).
Proof. vm_compute; reflexivity. Qed.
Example checksum_ok : compute_checksum [0; 1; 2; 3; 255; 255; 255; 255; 9] = Some 151060994.
Proof. vm_compute; reflexivity. Qed.
