(* C20 — lemmas: which arguments make the checked-profile kernels of Model.v trap. *)
From Coq Require Import ZArith Lia List Bool.
From Coq Require Import ZifyBool.
From FV Require Import Lib.RustInt C15.Model C15.Proofs C20.Model.
Import ListNotations.
Open Scope Z_scope.
Ltac Zify.zify_post_hook ::= Z.div_mod_to_equations.

Definition i64 (z : Z) : Prop := -9223372036854775808 <= z <= 9223372036854775807.
Definition u16 (z : Z) : Prop := 0 <= z <= 65535.
Definition I32_MIN := -2147483648.
Definition I32_MAX := 2147483647.

(* ---------- checked primitives ---------- *)
Lemma chk_s32_some z : i32 z -> chk_s 32 z = Some z.
Proof.
  unfold i32, chk_s, in_s. change (2 ^ (32 - 1)) with 2147483648. intros H.
  destruct (_ && _) eqn:E; [reflexivity|lia].
Qed.
Lemma chk_s32_none z : ~ i32 z -> chk_s 32 z = None.
Proof.
  unfold i32, chk_s, in_s. change (2 ^ (32 - 1)) with 2147483648. intros H.
  destruct (_ && _) eqn:E; [lia|reflexivity].
Qed.
Lemma chk_s32_iff z : chk_s 32 z <> None <-> i32 z.
Proof.
  split; intros H.
  - destruct (Z_le_dec (-2147483648) z); [destruct (Z_le_dec z 2147483647)|];
      try (unfold i32; lia); exfalso; apply H; apply chk_s32_none; unfold i32; lia.
  - rewrite chk_s32_some by assumption. discriminate.
Qed.
Lemma chk_s64_some z : i64 z -> chk_s 64 z = Some z.
Proof.
  unfold i64, chk_s, in_s. change (2 ^ (64 - 1)) with 9223372036854775808. intros H.
  destruct (_ && _) eqn:E; [reflexivity|lia].
Qed.
Lemma chk_u64_some z : 0 <= z < 18446744073709551616 -> chk_u 64 z = Some z.
Proof.
  unfold chk_u, in_u. change (2 ^ 64) with 18446744073709551616. intros H.
  destruct (_ && _) eqn:E; [reflexivity|lia].
Qed.
Lemma chk_u64_none z : ~ (0 <= z < 18446744073709551616) -> chk_u 64 z = None.
Proof.
  unfold chk_u, in_u. change (2 ^ 64) with 18446744073709551616. intros H.
  destruct (_ && _) eqn:E; [lia|reflexivity].
Qed.
Lemma chk_u16_some z : u16 z -> chk_u 16 z = Some z.
Proof.
  unfold u16, chk_u, in_u. change (2 ^ 16) with 65536. intros H.
  destruct (_ && _) eqn:E; [reflexivity|lia].
Qed.

Lemma div32_some a b : b <> 0 -> b <> -1 -> div32 a b = Some (Z.quot a b).
Proof.
  intros H0 H1. unfold div32, div_s.
  replace (b =? 0) with false by lia. replace (b =? -1) with false by lia.
  rewrite andb_false_r. reflexivity.
Qed.

(* case analysis on a checked i32 operation *)
Lemma chk_s32_cases z : (i32 z /\ chk_s 32 z = Some z) \/ (~ i32 z /\ chk_s 32 z = None).
Proof.
  destruct (Z_le_dec (-2147483648) z); [destruct (Z_le_dec z 2147483647)|].
  - left. split; [unfold i32; lia|apply chk_s32_some; unfold i32; lia].
  - right. split; [unfold i32; lia|apply chk_s32_none; unfold i32; lia].
  - right. split; [unfold i32; lia|apply chk_s32_none; unfold i32; lia].
Qed.
Ltac chk32 z :=
  let H := fresh "Hc" in let E := fresh "Ec" in
  destruct (chk_s32_cases z) as [[H E]|[H E]]; rewrite E in *; cbn [obind] in *.

Lemma land_m64 x : Z.land x (-64) = x / 64 * 64.
Proof. change (-64) with (int_mask 6). rewrite land_int_mask by lia. reflexivity. Qed.
Lemma land_neg_pow2 x k : 0 <= k -> Z.land x (- 2 ^ k) = x / 2 ^ k * 2 ^ k.
Proof. intros. change (- 2 ^ k) with (int_mask k). apply land_int_mask. assumption. Qed.

(* ================= hint/math.rs ================= *)
Lemma m_floor_spec x : m_floor x = Some (x / 64 * 64).
Proof. unfold m_floor. rewrite land_m64. reflexivity. Qed.
Lemma no_trap_floor x : m_floor x <> None.
Proof. rewrite m_floor_spec. discriminate. Qed.

Lemma no_trap_round x : m_round x <> None.
Proof. unfold m_round. apply no_trap_floor. Qed.
Lemma m_round_some x : i32 x -> x <= 2147483615 -> m_round x = Some ((x + 32) / 64 * 64).
Proof.
  intros Hx H. unfold m_round. rewrite wrap_s32_id by (unfold i32 in *; lia). apply m_floor_spec.
Qed.
Lemma no_trap_ceil x : m_ceil x <> None.
Proof. unfold m_ceil. apply no_trap_floor. Qed.
Lemma m_ceil_some x : i32 x -> x <= 2147483584 -> m_ceil x = Some ((x + 63) / 64 * 64).
Proof.
  intros Hx H. unfold m_ceil. rewrite wrap_s32_id by (unfold i32 in *; lia). apply m_floor_spec.
Qed.
Lemma no_trap_floor_pad x n : m_floor_pad x n <> None.
Proof. discriminate. Qed.
Lemma no_trap_round_pad x n : m_round_pad x n <> None.
Proof. unfold m_round_pad. rewrite div32_some by lia. cbn [obind]. discriminate. Qed.
Lemma m_round_pad32_some x : i32 x -> x <= 2147483631 ->
  m_round_pad x 32 = Some ((x + 16) / 32 * 32).
Proof.
  intros Hx H. unfold m_round_pad. rewrite div32_some by lia. cbn [obind].
  change (Z.quot 32 2) with 16. rewrite wrap_s32_id by (unfold i32 in *; lia).
  unfold m_floor_pad. change (wrap_s 32 (32 - 1)) with 31.
  change (Z.lnot 31) with (- 2 ^ 5). rewrite land_neg_pow2 by lia. reflexivity.
Qed.

Lemma no_trap_mul a b : i32 a -> i32 b -> m_mul a b = Some (fixed_mul a b).
Proof.
  intros Ha Hb. unfold m_mul, fixed_mul_chk, fixed_mul, mul64, add64, sub64. unfold i32 in *.
  assert (Hp : -4611686016279904256 <= a * b <= 4611686018427387904) by nia.
  rewrite chk_s64_some by (unfold i64; lia). cbn [obind].
  rewrite chk_s64_some by (unfold i64; lia). cbn [obind].
  rewrite chk_s64_some by (unfold i64; destruct (a * b <? 0); lia). cbn [obind].
  reflexivity.
Qed.

Lemma neg32_sign s : s = 1 \/ s = -1 -> neg32 s = Some (- s).
Proof. intros [->| ->]; reflexivity. Qed.

Lemma no_trap_div a b : i32 a -> i32 b -> m_div a b = Some (fixed_div a b).
Proof.
  intros Ha Hb. unfold m_div, fixed_div_chk, fixed_div. cbv zeta.
  assert (Hs : (if b <? 0 then neg32 (if a <? 0 then -1 else 1) else Some (if a <? 0 then -1 else 1))
               = Some (if b <? 0 then - (if a <? 0 then -1 else 1) else (if a <? 0 then -1 else 1))).
  { destruct (b <? 0); [|reflexivity]. apply neg32_sign. destruct (a <? 0); auto. }
  rewrite Hs. cbn [obind].
  set (au := wrap_u 32 (if a <? 0 then wrap_s 32 (- a) else a)).
  set (bu := wrap_u 32 (if b <? 0 then wrap_s 32 (- b) else b)).
  assert (Hau : 0 <= au < 4294967296) by (apply (wrap_u_range 32); lia).
  assert (Hbu : 0 <= bu < 4294967296) by (apply (wrap_u_range 32); lia).
  destruct (bu =? 0) eqn:Eb.
  - cbn [obind]. reflexivity.
  - unfold addu64. rewrite chk_u64_some.
    + cbn [obind]. reflexivity.
    + rewrite Z.shiftl_mul_pow2, Z.shiftr_div_pow2 by lia. change (2 ^ 16) with 65536. change (2 ^ 1) with 2. lia.
Qed.

Lemma no_trap_mul_div_any s a b : fixed_mul_div_chk s a b = Some (fixed_mul_div s a b).
Proof.
  unfold fixed_mul_div_chk, fixed_mul_div. cbv zeta.
  assert (H1 : (if a <? 0 then neg32 (if s <? 0 then -1 else 1) else Some (if s <? 0 then -1 else 1))
               = Some (if a <? 0 then - (if s <? 0 then -1 else 1) else (if s <? 0 then -1 else 1))).
  { destruct (a <? 0); [|reflexivity]. apply neg32_sign. destruct (s <? 0); auto. }
  rewrite H1. cbn [obind].
  set (sg := if a <? 0 then - (if s <? 0 then -1 else 1) else if s <? 0 then -1 else 1).
  assert (Hsg : sg = 1 \/ sg = -1) by (subst sg; destruct (a <? 0), (s <? 0); auto).
  assert (H2 : (if b <? 0 then neg32 sg else Some sg) = Some (if b <? 0 then - sg else sg)).
  { destruct (b <? 0); [|reflexivity]. apply neg32_sign. exact Hsg. }
  rewrite H2. cbn [obind]. reflexivity.
Qed.
Lemma no_trap_mul_div s a b : i32 s -> i32 a -> i32 b -> m_mul_div s a b = Some (fixed_mul_div s a b).
Proof. intros _ _ _. apply no_trap_mul_div_any. Qed.

Lemma no_trap_mul14 a b : i32 a -> i32 b -> m_mul14 a b <> None.
Proof.
  intros Ha Hb. unfold m_mul14, mul64, add64. unfold i32 in *.
  assert (Hp : -4611686016279904256 <= a * b <= 4611686018427387904) by nia.
  rewrite chk_s64_some by (unfold i64; lia). cbn [obind].
  assert (Hsh : -1 <= Z.shiftr (a * b) 63 <= 0).
  { rewrite Z.shiftr_div_pow2 by lia. change (2 ^ 63) with 9223372036854775808. lia. }
  rewrite chk_s64_some by (unfold i64; lia). cbn [obind].
  rewrite chk_s64_some by (unfold i64; lia). cbn [obind]. discriminate.
Qed.

(* mul_div_no_round: total on i32 after the wrapping_neg repair *)
Lemma wneg_range x : i32 (wneg x).
Proof. unfold wneg. apply wrap_s32_range. Qed.
Lemma no_trap_mul_div_no_round a b c : i32 a -> i32 b -> i32 c -> m_mul_div_no_round a b c <> None.
Proof.
  intros Ha Hb Hc. unfold m_mul_div_no_round. cbv zeta.
  set (s1 := if a <? 0 then -1 else 1).
  assert (Hs1 : s1 = 1 \/ s1 = -1) by (subst s1; destruct (a <? 0); auto).
  assert (E2 : (if b <? 0 then neg32 s1 else Some s1) = Some (if b <? 0 then - s1 else s1)).
  { destruct (b <? 0); [apply neg32_sign; exact Hs1|reflexivity]. }
  rewrite E2. cbn [obind].
  set (s2 := if b <? 0 then - s1 else s1).
  assert (Hs2 : s2 = 1 \/ s2 = -1) by (subst s2; destruct (b <? 0); lia).
  assert (E3 : (if c <? 0 then neg32 s2 else Some s2) = Some (if c <? 0 then - s2 else s2)).
  { destruct (c <? 0); [apply neg32_sign; exact Hs2|reflexivity]. }
  rewrite E3. cbn [obind].
  set (a' := if a <? 0 then wneg a else a).
  set (b' := if b <? 0 then wneg b else b).
  set (c' := if c <? 0 then wneg c else c).
  assert (Ha' : i32 a') by (subst a'; destruct (a <? 0); [apply wneg_range|exact Ha]).
  assert (Hb' : i32 b') by (subst b'; destruct (b <? 0); [apply wneg_range|exact Hb]).
  unfold i32 in Ha', Hb'.
  destruct (0 <? c') eqn:Epos.
  - unfold mul64. assert (Hp : -4611686018427387904 <= a' * b' <= 4611686018427387904) by nia.
    rewrite chk_s64_some by (unfold i64; lia). cbn [obind].
    unfold div_s. replace (c' =? 0) with false by lia. replace (c' =? -1) with false by lia.
    rewrite andb_false_r. cbn [obind]. discriminate.
  - cbn [obind]. discriminate.
Qed.
(* on the old trap-free domain the repaired function computes what it always did *)
Lemma mul_div_no_round_value a b c : i32 a -> i32 b -> i32 c -> 0 <= a -> 0 <= b -> 0 < c ->
  a * b / c <= 2147483647 -> m_mul_div_no_round a b c = Some (a * b / c).
Proof.
  intros Ha Hb Hc Pa Pb Pc Hq. unfold m_mul_div_no_round. cbv zeta. unfold i32 in *.
  replace (a <? 0) with false by lia. replace (b <? 0) with false by lia. replace (c <? 0) with false by lia.
  cbn [obind]. replace (0 <? c) with true by lia.
  unfold mul64. assert (Hp : 0 <= a * b <= 4611686014132420609) by nia.
  rewrite chk_s64_some by (unfold i64; lia). cbn [obind].
  unfold div_s. replace (c =? 0) with false by lia. replace (c =? -1) with false by lia.
  rewrite andb_false_r. cbn [obind]. rewrite Z.quot_div_nonneg by lia.
  change (1 <? 0) with false. cbv iota.
  rewrite wrap_s32_id; [reflexivity|]. unfold i32. split; [|lia].
  assert (0 <= a * b / c) by (apply Z.div_pos; lia). lia.
Qed.

Lemma log2_u32 u : 0 < u < 4294967296 -> 0 <= Z.log2 u <= 31.
Proof.
  intros H. split; [apply Z.log2_nonneg|].
  assert (Z.log2 u < 32) by (apply Z.log2_lt_pow2; [lia|change (2 ^ 32) with 4294967296; lia]). lia.
Qed.
Lemma no_trap_normalize14_negshift x y : m_normalize14_negshift x y <> None.
Proof.
  unfold m_normalize14_negshift. cbv zeta.
  destruct (_ || _); [discriminate|].
  match goal with |- context [leading_zeros32 ?l] => set (len := l) end.
  assert (Hlen : 0 <= len < 4294967296) by (subst len; destruct (_ <? _); apply (wrap_u_range 32); lia).
  assert (Hlz : 0 <= leading_zeros32 len <= 32).
  { unfold leading_zeros32. destruct (len =? 0) eqn:E; [lia|]. pose proof (log2_u32 len ltac:(lia)). lia. }
  set (lz := leading_zeros32 len) in *.
  match goal with |- context [wrap_s 32 ?v] => set (sh := v) end.
  assert (Hsh : -16 <= sh <= 17) by (subst sh; destruct (_ <=? _); lia).
  rewrite wrap_s32_id by (unfold i32; lia).
  destruct (0 <? sh); [discriminate|].
  unfold neg32. rewrite chk_s32_some by (unfold i32; lia). discriminate.
Qed.

(* ================= hint/round.rs ================= *)
Lemma no_trap_rs_off d : rs_off d <> None.
Proof. discriminate. Qed.

Lemma wneg_id x : i32 x -> x <> -2147483648 -> wneg x = - x.
Proof. intros H N. unfold wneg. apply wrap_s32_id. unfold i32 in *. lia. Qed.

Ltac via H := match goal with |- context [obind ?o _] =>
  let E := fresh "E" in destruct o eqn:E; [cbn [obind]; discriminate|exfalso; exact (H _ E)] end.

Lemma no_trap_rs_grid d : rs_grid d <> None.
Proof.
  assert (H : forall x, m_round x = None -> False) by (intros x; apply no_trap_round).
  unfold rs_grid. destruct (0 <=? d); via H.
Qed.
Lemma no_trap_rs_half_grid d : rs_half_grid d <> None.
Proof. unfold rs_half_grid, m_floor. destruct (0 <=? d); cbn [obind]; discriminate. Qed.
Lemma no_trap_rs_double_grid d : rs_double_grid d <> None.
Proof.
  assert (H : forall x, m_round_pad x 32 = None -> False) by (intros x; apply no_trap_round_pad).
  unfold rs_double_grid. destruct (0 <=? d); via H.
Qed.
Lemma no_trap_rs_down_to_grid d : rs_down_to_grid d <> None.
Proof. unfold rs_down_to_grid, m_floor. destruct (0 <=? d); cbn [obind]; discriminate. Qed.
Lemma no_trap_rs_up_to_grid d : rs_up_to_grid d <> None.
Proof.
  assert (H : forall x, m_ceil x = None -> False) by (intros x; apply no_trap_ceil).
  unfold rs_up_to_grid. destruct (0 <=? d); via H.
Qed.
(* unchanged on the domain that was trap-free before the repair *)
Lemma rs_grid_value d : -2147483615 <= d <= 2147483615 ->
  rs_grid d = Some (if 0 <=? d then Z.max ((d + 32) / 64 * 64) 0
                    else Z.min (- ((- d + 32) / 64 * 64)) 0).
Proof.
  intros H. unfold rs_grid. destruct (0 <=? d) eqn:E.
  - rewrite m_round_some by (unfold i32; lia). reflexivity.
  - rewrite wneg_id by (unfold i32; lia). rewrite m_round_some by (unfold i32; lia). cbn [obind].
    rewrite wneg_id by (unfold i32; lia). reflexivity.
Qed.

(* --- super_round: the only writer of (threshold, phase, period) --- *)
Definition sround_ok (g : Z) (tpp : Z * Z * Z) : bool :=
  let '(t, ph, pe) := tpp in
  (if g =? 16384 then (pe =? 32) || (pe =? 64) || (pe =? 128)
   else (pe =? 22) || (pe =? 45) || (pe =? 90))
  && (0 <=? ph) && (ph <=? 96) && (-48 <=? t) && (t <=? 176).

Lemma super_round_low_byte g sel : super_round g sel = super_round g (Z.land sel 255).
Proof.
  unfold super_round.
  replace (Z.land (Z.land sel 255) 192) with (Z.land sel 192)
    by (rewrite <- Z.land_assoc; reflexivity).
  replace (Z.land (Z.land sel 255) 48) with (Z.land sel 48)
    by (rewrite <- Z.land_assoc; reflexivity).
  replace (Z.land (Z.land sel 255) 15) with (Z.land sel 15)
    by (rewrite <- Z.land_assoc; reflexivity).
  reflexivity.
Qed.

Definition all_selectors : list Z := map Z.of_nat (seq 0 256).
Lemma super_round_table g : g = 16384 \/ g = 11585 ->
  forallb (fun sel => match super_round g sel with Some tpp => sround_ok g tpp | None => false end)
          all_selectors = true.
Proof. intros [-> | ->]; vm_compute; reflexivity. Qed.

Lemma land_255_range sel : 0 <= Z.land sel 255 < 256.
Proof.
  change 255 with (Z.ones 8). rewrite Z.land_ones by lia. apply Z.mod_pos_bound. lia.
Qed.

Lemma super_round_reachable g sel : g = 16384 \/ g = 11585 ->
  exists tpp, super_round g sel = Some tpp /\ sround_ok g tpp = true.
Proof.
  intros Hg. rewrite super_round_low_byte.
  pose proof (super_round_table g Hg) as Ht. rewrite forallb_forall in Ht.
  pose proof (land_255_range sel) as Hr.
  specialize (Ht (Z.land sel 255)).
  assert (Hin : In (Z.land sel 255) all_selectors).
  { unfold all_selectors. apply in_map_iff. exists (Z.to_nat (Z.land sel 255)). split; [lia|].
    apply in_seq. lia. }
  specialize (Ht Hin). destruct (super_round g (Z.land sel 255)) as [tpp|]; [|discriminate].
  exists tpp. split; [reflexivity|exact Ht].
Qed.

Lemma no_trap_rs_super t ph pe d : rs_super t ph pe d <> None.
Proof. unfold rs_super. cbv zeta. destruct (0 <=? d); discriminate. Qed.
Lemma no_trap_rs_super45 t ph pe d : pe <> 0 -> pe <> -1 -> rs_super45 t ph pe d <> None.
Proof.
  intros H0 H1. unfold rs_super45. cbv zeta.
  destruct (0 <=? d); rewrite div32_some by assumption; cbn [obind]; discriminate.
Qed.

(* what the interpreter can reach: SROUND / S45ROUND sel followed by ROUND d, every d *)
Lemma no_trap_sround_round g sel d : g = 16384 \/ g = 11585 ->
  exists t ph pe, super_round g sel = Some (t, ph, pe) /\
    rs_round (if g =? 16384 then 6 else 7) t ph pe d <> None.
Proof.
  intros Hg. destruct (super_round_reachable g sel Hg) as [[[t ph] pe] [Es Hok]].
  exists t, ph, pe. split; [exact Es|].
  destruct Hg as [-> | ->].
  - change (16384 =? 16384) with true. cbv iota. cbn [rs_round]. apply no_trap_rs_super.
  - change (11585 =? 16384) with false. cbv iota. cbn [rs_round].
    unfold sround_ok in Hok. change (11585 =? 16384) with false in Hok. cbv iota in Hok.
    apply no_trap_rs_super45; lia.
Qed.

(* ================= font-types ================= *)
Lemma no_trap_fx_neg_abs bits a : fx_neg bits a <> None /\ fx_abs bits a <> None.
Proof. split; discriminate. Qed.
Lemma fx_neg32_value a : i32 a -> a <> -2147483648 -> fx_neg 32 a = Some (- a).
Proof. intros H N. unfold fx_neg. rewrite wrap_s32_id by (unfold i32 in *; lia). reflexivity. Qed.
Lemma fx_abs32_value a : i32 a -> a <> -2147483648 -> fx_abs 32 a = Some (Z.abs a).
Proof. intros H N. unfold fx_abs. rewrite wrap_s32_id by (unfold i32 in *; lia). reflexivity. Qed.
Lemma no_trap_fract bits f x : 0 <= f < bits - 1 -> fx_fract bits f x <> None.
Proof. intros H. rewrite fx_fract_total by assumption. discriminate. Qed.
Lemma no_trap_from_i32 i : fixed_from_i32_chk i <> None /\ f26dot6_from_i32_chk i <> None.
Proof. split; discriminate. Qed.
Lemma no_trap_to_fixed_conversions x :
  fixed_to_i32_chk x <> None /\ fixed_to_f26dot6_chk x <> None /\ fixed_to_f2dot14_chk x <> None
  /\ f26dot6_to_i32_chk x <> None.
Proof. repeat split; discriminate. Qed.
Lemma f2dot14_to_fixed_some x : i16 x -> f2dot14_to_fixed_chk x = Some (x * 4).
Proof. intros H. unfold f2dot14_to_fixed_chk, mul32. apply chk_s32_some. unfold i16, i32 in *. lia. Qed.
Lemma no_trap_f2dot14_to_fixed x : i16 x -> f2dot14_to_fixed_chk x <> None.
Proof. intros H. rewrite f2dot14_to_fixed_some by assumption. discriminate. Qed.

(* ================= read-fonts ================= *)
Lemma no_trap_midpoint a b : midpoint_i32 a b <> None.
Proof. unfold midpoint_i32. rewrite div32_some by lia. discriminate. Qed.

Lemma sat_s32_range z : i32 (sat_s 32 z).
Proof. unfold sat_s, clamp, i32. change (2 ^ (32 - 1)) with 2147483648. lia. Qed.

Lemma fixed_div_ratio_bound a b : 0 < a -> a <= b -> b <= 2147483647 ->
  0 <= fixed_div a b <= 65536.
Proof.
  intros Ha Hab Hb.
  assert (Hr : rha (a * 65536) b = (2 * (a * 65536) + b) / (2 * b)) by (apply rha_pos; lia).
  assert (Hq : 0 <= (2 * (a * 65536) + b) / (2 * b) <= 65536).
  { split; [apply Z.div_pos; lia|].
    assert ((2 * (a * 65536) + b) / (2 * b) < 65537) by (apply Z.div_lt_upper_bound; lia). lia. }
  rewrite fixed_div_spec; unfold i32; try lia.
Qed.

Lemma no_trap_fvar_normalize mn df mx v : i32 mn -> i32 df -> i32 mx -> i32 v ->
  fvar_normalize mn df mx v <> None.
Proof.
  intros Hmn Hdf Hmx Hv. unfold fvar_normalize. cbv zeta. unfold i32 in *.
  set (mx' := Z.max mx mn). set (v' := clamp mn mx' v).
  assert (Hv' : mn <= v' <= mx') by (subst v' mx'; unfold clamp; lia).
  assert (Hmx' : -2147483648 <= mx' <= 2147483647) by (subst mx'; lia).
  destruct (v' <? df) eqn:E1.
  - rewrite no_trap_div by apply sat_s32_range. cbn [obind].
    assert (Hq : 0 <= fixed_div (sat_s 32 (df - v')) (sat_s 32 (df - mn)) <= 65536).
    { apply fixed_div_ratio_bound; unfold sat_s, clamp; change (2 ^ (32 - 1)) with 2147483648; lia. }
    unfold fx_neg. cbn [obind]. discriminate.
  - destruct (df <? v') eqn:E2.
    + rewrite no_trap_div by apply sat_s32_range. cbn [obind]. discriminate.
    + cbn [obind]. discriminate.
Qed.

Lemma no_trap_avar_go maps : forall first pf pt coord,
  i16 pf -> i16 pt -> Forall (fun p => i16 (fst p) /\ i16 (snd p)) maps ->
  avar_go first pf pt maps coord <> None.
Proof.
  induction maps as [|[f t] r IH]; intros first pf pt coord Hpf Hpt HF; cbn [avar_go].
  - discriminate.
  - inversion HF as [|? ? [Hf Ht] Hr]; subst. cbn [fst snd] in *.
    rewrite (f2dot14_to_fixed_some f Hf). cbn [obind].
    destruct (f * 4 =? coord).
    + apply no_trap_f2dot14_to_fixed. exact Ht.
    + destruct (coord <? f * 4).
      * destruct first; [discriminate|].
        rewrite (f2dot14_to_fixed_some t Ht), (f2dot14_to_fixed_some pf Hpf), (f2dot14_to_fixed_some pt Hpt).
        cbn [obind]. rewrite no_trap_mul_div_any. cbn [obind]. discriminate.
      * apply IH; assumption.
Qed.
Lemma no_trap_avar_apply maps coord :
  Forall (fun p => i16 (fst p) /\ i16 (snd p)) maps -> avar_apply maps coord <> None.
Proof. intros H. unfold avar_apply. apply no_trap_avar_go; [unfold i16; lia|unfold i16; lia|exact H]. Qed.

Lemma nth_opt_some l i v : nth_opt l i = Some v -> 0 <= i < Z.of_nat (length l) /\ In v l.
Proof.
  unfold nth_opt. destruct (i <? 0) eqn:E; [discriminate|]. intros H.
  split.
  - assert (Hlt : (Z.to_nat i < length l)%nat) by (apply nth_error_Some; congruence). lia.
  - eapply nth_error_In; eassumption.
Qed.

Lemma no_trap_cmap4_lookup deltas ros gids cp idx sc :
  Forall i16 deltas -> Forall u16 ros -> Forall u16 gids -> u16 cp -> u16 sc -> sc <= cp ->
  0 <= idx -> Z.of_nat (length ros) <= 65535 ->
  cmap4_lookup deltas ros gids cp idx sc <> None.
Proof.
  intros Hd Hr Hg Hcp Hsc Hle Hidx Hlen. unfold cmap4_lookup.
  destruct (nth_opt deltas idx) as [delta|] eqn:E1; [|discriminate].
  destruct (nth_opt ros idx) as [ro|] eqn:E2; [|discriminate].
  apply nth_opt_some in E1. apply nth_opt_some in E2. destruct E1 as [_ E1], E2 as [Hi E2].
  rewrite Forall_forall in Hd, Hr. specialize (Hd _ E1). specialize (Hr _ E2).
  unfold i16, u16 in *.
  destruct (ro =? 0).
  - unfold add32. rewrite chk_s32_some by (unfold i32; lia). discriminate.
  - rewrite chk_u16_some by (unfold u16; lia). cbn [obind]. unfold addu64, subu64.
    rewrite chk_u64_some by lia. cbn [obind].
    rewrite chk_u64_some by lia. cbn [obind].
    destruct (nth_opt gids _) as [gid|] eqn:E3; [|discriminate].
    apply nth_opt_some in E3. destruct E3 as [_ E3]. rewrite Forall_forall in Hg. specialize (Hg _ E3).
    unfold u16 in Hg. destruct (gid =? 0); [discriminate|].
    unfold add32. rewrite chk_s32_some by (unfold i32; lia). discriminate.
Qed.

Lemma no_trap_cmap4_search fuel starts ends deltas ros gids cp : forall lo hi,
  Forall u16 starts -> Forall u16 ends -> Forall i16 deltas -> Forall u16 ros -> Forall u16 gids ->
  u16 cp -> Z.of_nat (length ros) <= 65535 -> 0 <= lo -> 0 <= hi <= 65535 ->
  cmap4_search fuel starts ends deltas ros gids cp lo hi <> None.
Proof.
  induction fuel as [|fuel IH]; intros lo hi Hs He Hd Hr Hg Hcp Hlen Hlo Hhi; cbn [cmap4_search].
  - discriminate.
  - destruct (lo <? hi) eqn:Elt; [|discriminate].
    unfold addu64. rewrite chk_u64_some by lia. cbn [obind].
    destruct (nth_opt starts ((lo + hi) / 2)) as [sc|] eqn:E1; [|discriminate].
    apply nth_opt_some in E1. destruct E1 as [_ E1].
    pose proof Hs as Hs'. rewrite Forall_forall in Hs'. specialize (Hs' _ E1).
    destruct (cp <? sc) eqn:Ec.
    + apply IH; try assumption. lia.
    + destruct (nth_opt ends ((lo + hi) / 2)) as [ec|] eqn:E2; [|discriminate].
      destruct (ec <? cp).
      * rewrite chk_u64_some by lia. cbn [obind]. apply IH; try assumption. lia.
      * apply no_trap_cmap4_lookup; try assumption; lia.
Qed.

Lemma no_trap_cmap4_map sx2 starts ends deltas ros gids cp :
  Forall u16 starts -> Forall u16 ends -> Forall i16 deltas -> Forall u16 ros -> Forall u16 gids ->
  u16 sx2 -> 0 <= cp -> Z.of_nat (length ros) <= 65535 ->
  cmap4_map sx2 starts ends deltas ros gids cp <> None.
Proof.
  intros Hs He Hd Hr Hg Hsx Hcp Hlen. unfold cmap4_map.
  destruct (65535 <? cp) eqn:E; [discriminate|].
  apply no_trap_cmap4_search; try assumption; unfold u16 in *; lia.
Qed.

(* lookup_glyph_id on its own has a precondition (codepoint >= start_code) that both callers establish *)

(* count transforms *)
Lemma no_trap_transforms a b c :
  t_subtract a b <> None /\ t_add a b <> None /\ t_bitmap_len a <> None /\ t_add_multiply a b c <> None
  /\ t_multiply_add a b c <> None /\ t_half a <> None /\ t_subtract_add_two a b <> None.
Proof. repeat split; discriminate. Qed.
Lemma max_value_bitmap_len_trap_iff c : 0 <= c < 18446744073709551616 ->
  (t_max_value_bitmap_len c <> None <-> c < 18446744073709551615).
Proof.
  intros Hc. unfold t_max_value_bitmap_len, addu64.
  destruct (Z_lt_dec c 18446744073709551615).
  - rewrite chk_u64_some by lia. cbn [obind]. split; [lia|discriminate].
  - rewrite chk_u64_none by lia. cbn [obind]. split; [intros Hnn; exfalso; apply Hnn; reflexivity|lia].
Qed.
Lemma no_trap_max_value_bitmap_len_u16 c : u16 c -> t_max_value_bitmap_len c <> None.
Proof. intros H. apply max_value_bitmap_len_trap_iff; unfold u16 in H; lia. Qed.

Lemma no_trap_checksum l : compute_checksum l <> None.
Proof. discriminate. Qed.

(* ================= round 2 kernels ================= *)
Lemma no_trap_op_add a b : op_add a b <> None. Proof. discriminate. Qed.
Lemma no_trap_op_sub a b : op_sub a b <> None. Proof. discriminate. Qed.
Lemma no_trap_op_abs a : op_abs a <> None. Proof. discriminate. Qed.
Lemma no_trap_op_neg a : op_neg a <> None. Proof. discriminate. Qed.
Lemma no_trap_op_max_min a b : op_max a b <> None /\ op_min a b <> None. Proof. split; discriminate. Qed.
Lemma no_trap_op_floor_ceiling a : op_floor a <> None /\ op_ceiling a <> None.
Proof. split; [apply no_trap_floor|apply no_trap_ceil]. Qed.
Lemma no_trap_op_mul a b : op_mul a b <> None.
Proof. unfold op_mul, m_mul_div. rewrite no_trap_mul_div_any. discriminate. Qed.
Lemma no_trap_op_div a b : i32 a -> i32 b -> op_div a b <> None.
Proof.
  intros Ha Hb. unfold op_div. destruct (b =? 0); [discriminate|].
  destruct (m_mul_div_no_round a 64 b) eqn:E; [cbn [obind]; discriminate|].
  exfalso. apply (no_trap_mul_div_no_round a 64 b); try assumption. unfold i32; lia.
Qed.
(* in-range operands give the exact wrapped sum / the truncated quotient *)
Lemma op_add_value a b : i32 (a + b) -> op_add a b = Some (a + b).
Proof. intros H. unfold op_add. rewrite wrap_s32_id by assumption. reflexivity. Qed.

Lemma no_trap_op_wcvtf v scale : i32 v -> i32 scale -> op_wcvtf v scale <> None.
Proof. intros Hv Hs. unfold op_wcvtf. rewrite no_trap_mul by assumption. discriminate. Qed.

Lemma no_trap_compute_scale ppem upem : 0 <= ppem <= 33554431 -> u16 upem -> compute_scale ppem upem <> None.
Proof.
  intros Hp Hu. unfold compute_scale. unfold u16 in Hu. rewrite no_trap_div by (unfold i32; lia). discriminate.
Qed.

Lemma to_f26dot6_range x : -2097152 <= fixed_to_f26dot6 x <= 2097151.
Proof.
  unfold fixed_to_f26dot6. pose proof (wrap_s32_range (x + 512)) as H. unfold i32 in H.
  rewrite Z.shiftr_div_pow2 by lia. change (2 ^ 10) with 1024. lia.
Qed.
Lemma no_trap_cvt_load base : i16 base -> cvt_load base = Some (base * 64).
Proof. intros H. unfold cvt_load, mul32. apply chk_s32_some. unfold i16, i32 in *. lia. Qed.
Lemma no_trap_cvt_load_cvar base delta : i16 base -> cvt_load_cvar base delta <> None.
Proof.
  intros H. unfold cvt_load_cvar. fold (cvt_load base). rewrite no_trap_cvt_load by assumption. cbn [obind].
  pose proof (to_f26dot6_range delta). unfold add32. rewrite chk_s32_some; [discriminate|].
  unfold i16, i32 in *. lia.
Qed.
Lemma shiftr6_range s : i32 s -> i32 (Z.shiftr s 6).
Proof. intros H. unfold i32 in *. rewrite Z.shiftr_div_pow2 by lia. change (2 ^ 6) with 64. lia. Qed.
Lemma no_trap_cvt_scale v scale : i32 v -> i32 scale -> cvt_scale v scale <> None.
Proof.
  intros Hv Hs. unfold cvt_scale. rewrite no_trap_mul; [discriminate|assumption|apply shiftr6_range; assumption].
Qed.

Lemma no_trap_assign bits a b : fx_add_assign bits a b <> None /\ fx_sub_assign bits a b <> None.
Proof. split; discriminate. Qed.

Lemma no_trap_phantom_points xmin ymax lsb adv ascent descent :
  i16 xmin -> i16 ymax -> i16 lsb -> u16 adv -> i16 ascent -> i16 descent ->
  phantom_points xmin ymax lsb adv ascent descent <> None.
Proof.
  intros H1 H2 H3 H4 H5 H6. unfold phantom_points, sub32, add32. unfold i16, u16 in *.
  rewrite (chk_s32_some (ascent - ymax)) by (unfold i32; lia). cbn [obind].
  rewrite (chk_s32_some (ascent - descent)) by (unfold i32; lia). cbn [obind].
  rewrite (chk_s32_some (xmin - lsb)) by (unfold i32; lia). cbn [obind].
  rewrite chk_s32_some by (unfold i32; lia). cbn [obind]. discriminate.
Qed.

Lemma fx_sub32_range a b : i32 (fx_sub 32 a b).
Proof. unfold fx_sub. apply wrap_s32_range. Qed.
Lemma fixed_from_i32_range i : i32 (fixed_from_i32 i).
Proof. unfold fixed_from_i32. apply wrap_s32_range. Qed.
Lemma no_trap_delta_interp in1c in2c out1 out2 pc cur : delta_interp in1c in2c out1 out2 pc cur <> None.
Proof.
  unfold delta_interp. cbv zeta.
  destruct (negb (fixed_from_i32 in1c =? fixed_from_i32 in2c) || (out1 =? out2)); [|discriminate].
  assert (Hs : exists sc, i32 sc /\
    (if negb (fixed_from_i32 in1c =? fixed_from_i32 in2c)
     then fixed_div_chk (fx_sub 32 out2 out1) (fx_sub 32 (fixed_from_i32 in2c) (fixed_from_i32 in1c))
     else Some 0) = Some sc).
  { destruct (negb _).
    - eexists. split; [|apply no_trap_div; apply fx_sub32_range].
      unfold fixed_div. cbv zeta. destruct (_ <? 0); apply wrap_s32_range.
    - exists 0. split; [unfold i32; lia|reflexivity]. }
  destruct Hs as [sc [Hsc Es]]. rewrite Es. cbn [obind].
  destruct (_ <=? _); [discriminate|]. destruct (_ <=? _); [discriminate|].
  fold (m_mul (fx_sub 32 (fixed_from_i32 pc) (fixed_from_i32 in1c)) sc).
  rewrite no_trap_mul by (try apply fx_sub32_range; assumption). cbn [obind]. discriminate.
Qed.
Lemma no_trap_delta_shift r o c : delta_shift r o c <> None.
Proof. discriminate. Qed.

Lemma no_trap_delta_apply_scalar d sc : i32 sc -> delta_apply_scalar d sc <> None.
Proof.
  intros H. unfold delta_apply_scalar. fold (m_mul (fixed_from_i32 d) sc).
  rewrite no_trap_mul by (try apply fixed_from_i32_range; assumption). discriminate.
Qed.
Lemma no_trap_cmap12_one_group cp s e g : cmap12_one_group cp s e g <> None.
Proof.
  unfold cmap12_one_group, addu64. rewrite chk_u64_some by lia. cbn [obind].
  destruct (cp <? s); [discriminate|]. destruct (e <? cp); [|discriminate].
  rewrite chk_u64_some by (change ((0 + 1) / 2) with 0; lia). cbn [obind]. discriminate.
Qed.
Lemma no_trap_hmtx_ix n m gid : hmtx_advance_ix n gid <> None /\ hmtx_lsb_ix n m gid <> None.
Proof. split; discriminate. Qed.

(* ---- sparse bit set decoder (IFT codepoint sets) ---- *)
Lemma no_trap_sbs_fill_range nstart node_size bias maxv :
  0 <= nstart -> 1 <= node_size -> nstart + node_size <= 18446744073709551615 ->
  sbs_fill_range nstart node_size bias maxv <> None.
Proof.
  intros H0 H1 H2. unfold sbs_fill_range. destruct (_ && _); [|discriminate].
  unfold addu64, subu64. rewrite chk_u64_some by lia. cbn [obind].
  rewrite chk_u64_some by lia. cbn [obind]. discriminate.
Qed.
Lemma no_trap_sbs_leaf_value nstart bit bias maxv : sbs_leaf_value nstart bit bias maxv <> None.
Proof. discriminate. Qed.

Lemma chk_u32_some z : 0 <= z <= 4294967295 -> chk_u 32 z = Some z.
Proof.
  intros H. unfold chk_u, in_u. change (2 ^ 32) with 4294967296.
  destruct (_ && _) eqn:E; [reflexivity|lia].
Qed.

Lemma sbs_path_ok bf height : 1 <= bf -> 0 <= height <= 4294967295 -> bf ^ height <= 9223372036854775808 ->
  forall path depth start,
  1 <= depth -> depth + Z.of_nat (length path) <= height -> 0 <= start ->
  start + bf ^ (height - depth + 1) <= bf ^ height ->
  Forall (fun i => 0 <= i < bf) path ->
  exists s, sbs_path bf height depth start path = Some (s, depth + Z.of_nat (length path)) /\
            0 <= s /\ s + bf ^ (height - (depth + Z.of_nat (length path)) + 1) <= bf ^ height.
Proof.
  intros Hbf Hh Hpow. induction path as [|i r IH]; intros depth start Hd Hlen Hs Hinv HF.
  - cbn [sbs_path length Z.of_nat]. exists start. rewrite Z.add_0_r. auto.
  - inversion HF as [|? ? Hi Hr]; subst. cbn [length] in Hlen. rewrite Nat2Z.inj_succ in Hlen.
    cbn [sbs_path].
    set (e := height - depth). assert (He : 0 <= e) by (subst e; lia).
    assert (Hsz : 1 <= bf ^ e) by (apply Z.pow_pos_nonneg with (a := bf) in He; lia).
    assert (Hsucc : bf ^ (height - depth + 1) = bf * bf ^ e).
    { subst e. rewrite Z.pow_add_r by lia. rewrite Z.pow_1_r. lia. }
    rewrite Hsucc in Hinv.
    assert (Hszle : bf ^ e <= bf * bf ^ e) by nia.
    assert (Hd1 : 0 <= i * bf ^ e <= (bf - 1) * bf ^ e) by nia.
    rewrite chk_u32_some by (subst e; lia). cbn [obind].
    rewrite chk_u64_some by lia. cbn [obind].
    rewrite chk_u64_some by nia. cbn [obind].
    unfold addu64. rewrite chk_u64_some by nia. cbn [obind].
    rewrite chk_u32_some by lia. cbn [obind].
    destruct (IH (depth + 1) (start + i * bf ^ e)) as [s [Es [Hs0 Hs1]]]; try lia; try assumption.
    + replace (height - (depth + 1) + 1) with e by (subst e; lia). nia.
    + exists s. cbn [length]. rewrite Nat2Z.inj_succ.
      replace (depth + Z.succ (Z.of_nat (length r))) with (depth + 1 + Z.of_nat (length r)) by lia.
      auto.
Qed.

Lemma no_trap_sbs_filled_node bf height bias maxv path :
  1 <= bf -> 1 <= height <= 4294967295 -> bf ^ height <= 9223372036854775808 ->
  Z.of_nat (length path) < height -> Forall (fun i => 0 <= i < bf) path ->
  sbs_filled_node bf height bias maxv path <> None.
Proof.
  intros Hbf Hh Hpow Hlen HF. unfold sbs_filled_node.
  destruct (sbs_path_ok bf height Hbf ltac:(lia) Hpow path 1 0) as [s [Es [Hs0 Hs1]]]; try lia; try assumption.
  { replace (height - 1 + 1) with height by lia. lia. }
  rewrite Es.
  set (d := 1 + Z.of_nat (length path)) in *.
  rewrite chk_u32_some by (subst d; lia). cbn [obind].
  rewrite chk_u32_some by (subst d; lia). cbn [obind].
  assert (Hp : 0 < bf ^ (height - d + 1)) by (apply Z.pow_pos_nonneg; subst d; lia).
  rewrite chk_u64_some by lia. cbn [obind].
  apply no_trap_sbs_fill_range; lia.
Qed.

(* ---- Coverage format 2 / Device / SVG index arithmetic ---- *)
Lemma no_trap_cov2_get sg eg sc gid : u16 sg -> u16 gid -> cov2_get sg eg sc gid <> None.
Proof.
  intros Hs Hg. unfold cov2_get, u16 in *. destruct ((gid <? sg) || (eg <? gid)) eqn:E; [discriminate|].
  unfold cov2_index. rewrite chk_u16_some by (unfold u16; lia). cbn [obind]. discriminate.
Qed.
Lemma no_trap_device_count ss es : u16 es -> device_count ss es <> None.
Proof.
  intros H. unfold device_count, addu64, u16 in *. rewrite chk_u64_some by lia. cbn [obind]. discriminate.
Qed.
Lemma device_count_value ss es : u16 ss -> u16 es ->
  device_count ss es = Some (if ss <=? es then es - ss + 1 else 0).
Proof.
  intros Hs He. unfold device_count, addu64, u16 in *. rewrite chk_u64_some by lia. cbn [obind].
  unfold sat_u, clamp. change (2 ^ 64 - 1) with 18446744073709551615. f_equal. destruct (ss <=? es) eqn:E; lia.
Qed.
Lemma no_trap_svg_doc_slice off len n : svg_doc_slice off len n <> None.
Proof. discriminate. Qed.

(* ---- auto-hinter segment linking score ---- *)
Lemma no_trap_derived_constant upem v : u16 upem -> 0 <= v <= 32767 -> derived_constant upem v <> None.
Proof.
  intros Hu Hv. unfold derived_constant, mul32, u16 in *. rewrite chk_s32_some by (unfold i32; nia).
  cbn [obind]. rewrite div32_some by lia. discriminate.
Qed.
Lemma quot_abs_le a b : b <> 0 -> Z.abs (Z.quot a b) <= Z.abs a.
Proof.
  intros Hb. rewrite <- (Z.quot_abs a b) by assumption.
  apply Z.quot_le_upper_bound; [lia|]. nia.
Qed.
Lemma no_trap_link_score mw dist len len_score :
  (match mw with Some w => i32 w | None => True end) ->
  0 <= dist <= 65535 -> 1 <= len <= 65535 -> 0 <= len_score <= 2000000000 ->
  link_score mw dist len len_score <> None.
Proof.
  intros Hmw Hd Hl Hs. unfold link_score. cbv zeta.
  set (w := match mw with Some w => w | None => 0 end).
  assert (Hw : i32 w) by (subst w; destruct mw; [assumption|unfold i32; lia]).
  assert (Hq : forall q, 0 <= q <= 2147483647 -> div32 len_score len = Some (Z.quot len_score len) /\ True).
  { intros. split; [apply div32_some; lia|exact I]. }
  assert (Hl2 : 0 <= Z.quot len_score len <= 2000000000).
  { split; [apply Z.quot_pos; lia|]. apply Z.quot_le_upper_bound; nia. }
  destruct (negb (w =? 0)) eqn:Ew.
  - assert (Hw0 : w <> 0) by (destruct (w =? 0) eqn:E; [discriminate|lia]).
    assert (Hsh : wrap_s 32 (Z.shiftl dist 10) = dist * 1024).
    { rewrite Z.shiftl_mul_pow2 by lia. change (2 ^ 10) with 1024. apply wrap_s32_id. unfold i32. lia. }
    rewrite Hsh.
    assert (Hdiv : div32 (dist * 1024) w = Some (Z.quot (dist * 1024) w)).
    { unfold div32, div_s. replace (w =? 0) with false by lia.
      replace (dist * 1024 =? - 2 ^ (32 - 1)) with false by (change (2 ^ (32 - 1)) with 2147483648; lia).
      cbn [andb]. reflexivity. }
    rewrite Hdiv. cbn [obind].
    pose proof (quot_abs_le (dist * 1024) w Hw0) as Hqa.
    set (q := Z.quot (dist * 1024) w) in *.
    assert (Hqr : -67107840 <= q <= 67107840) by lia.
    unfold sub32. rewrite chk_s32_some by (unfold i32; lia). cbn [obind].
    destruct (10000 <? q - 1024) eqn:E1.
    + cbn [obind]. rewrite div32_some by lia. cbn [obind]. unfold add32.
      rewrite chk_s32_some by (unfold i32; lia). discriminate.
    + destruct (0 <? q - 1024) eqn:E2.
      * unfold mul32. rewrite chk_s32_some by (unfold i32; nia). cbn [obind].
        rewrite div32_some by lia. cbn [obind].
        assert (0 <= Z.quot ((q - 1024) * (q - 1024)) 3000 <= 100000000).
        { split; [apply Z.quot_pos; nia|]. apply Z.quot_le_upper_bound; nia. }
        rewrite div32_some by lia. cbn [obind]. unfold add32.
        rewrite chk_s32_some by (unfold i32; lia). discriminate.
      * cbn [obind]. rewrite div32_some by lia. cbn [obind]. unfold add32.
        rewrite chk_s32_some by (unfold i32; lia). discriminate.
  - cbn [obind]. rewrite div32_some by lia. cbn [obind]. unfold add32.
    rewrite chk_s32_some by (unfold i32; lia). discriminate.
Qed.

(* ---- CFF INDEX lookups and subroutine numbers ---- *)
Lemma no_trap_index_offset_pos index count off_size :
  0 <= index -> 0 <= count <= 4294967295 -> 0 <= off_size <= 255 -> index_offset_pos index count off_size <> None.
Proof.
  intros Hi Hc Ho. unfold index_offset_pos. destruct (count <? index) eqn:E; [discriminate|].
  rewrite chk_u64_some by nia. cbn [obind]. discriminate.
Qed.
Lemma no_trap_index_get index count off_size :
  0 <= index <= 18446744073709551615 -> 0 <= count <= 4294967295 -> 0 <= off_size <= 255 ->
  index_get_positions index count off_size <> None.
Proof.
  intros Hi Hc Ho. unfold index_get_positions.
  unfold index_offset_pos at 1. destruct (count <? index) eqn:E; [discriminate|].
  rewrite chk_u64_some by nia. cbn [obind].
  unfold addu64. rewrite chk_u64_some by lia. cbn [obind].
  pose proof (no_trap_index_offset_pos (index + 1) count off_size ltac:(lia) Hc Ho) as H.
  destruct (index_offset_pos (index + 1) count off_size) as [[p|]|]; [discriminate|discriminate|contradiction].
Qed.
Lemma no_trap_subr_biased_index v bias : i16 v -> 0 <= bias <= 32768 -> subr_biased_index v bias <> None.
Proof.
  intros Hv Hb. unfold subr_biased_index, add32, i16 in *. rewrite chk_s32_some by (unfold i32; lia).
  cbn [obind]. discriminate.
Qed.

(* ---- COLR variation index ---- *)
Lemma no_trap_colr_var_index has_map base i : colr_var_index has_map base i <> None.
Proof. discriminate. Qed.
Lemma colr_var_index_value base i : 0 <= base <= 4294967295 -> 0 <= i < 16 -> base + i <= 4294967295 ->
  colr_var_index true base i = Some (base + i) /\ colr_var_index false base i = Some ((base + i) mod 65536).
Proof.
  intros Hb Hi Hs. unfold colr_var_index. rewrite wrap_u_id by (change (2 ^ 32) with 4294967296; lia).
  split; reflexivity.
Qed.
