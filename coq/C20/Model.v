(* C20 — checked-profile models of the arithmetic kernels that font data reaches.
   Profile: overflow-checks + debug-assertions ON (the profile of the project's fuzzers and of the
   harness).  Every `+ - * << -x abs /` on a machine integer is a [chk_s]/[chk_u] (None = the
   overflow check trips / the division panics); explicit wrapping_/saturating_/checked_ calls are
   modelled as such.  Hand-written from the Rust source, statement by statement.  No proofs here. *)
From Coq Require Import ZArith List Bool.
From FV Require Import Lib.RustInt C15.Model.
Import ListNotations.
Open Scope Z_scope.

(* ---- primitive checked operations on i32 / i64 / u64 / u16 ---- *)
Definition add32 (a b : Z) : option Z := chk_s 32 (a + b).
Definition sub32 (a b : Z) : option Z := chk_s 32 (a - b).
Definition mul32 (a b : Z) : option Z := chk_s 32 (a * b).
Definition neg32 (a : Z) : option Z := chk_s 32 (- a).
Definition abs32 (a : Z) : option Z := chk_s 32 (Z.abs a).
(* `a / b` on a signed type: panics on b = 0 ("divide by zero") and on MIN / -1 ("divide with overflow") *)
Definition div_s (bits a b : Z) : option Z :=
  if b =? 0 then None
  else if (a =? - 2 ^ (bits - 1)) && (b =? -1) then None
  else Some (Z.quot a b).
Definition div32 := div_s 32.
Definition add64 (a b : Z) : option Z := chk_s 64 (a + b).
Definition sub64 (a b : Z) : option Z := chk_s 64 (a - b).
Definition mul64 (a b : Z) : option Z := chk_s 64 (a * b).
Definition addu64 (a b : Z) : option Z := chk_u 64 (a + b).
Definition subu64 (a b : Z) : option Z := chk_u 64 (a - b).

(* ================= skrifa/src/outline/glyf/hint/math.rs ================= *)
(* pub fn floor(x: i32) -> i32 { x & !63 } *)
Definition m_floor (x : Z) : option Z := Some (Z.land x (-64)).
Definition wneg (x : Z) : Z := wrap_s 32 (- x).                    (* x.wrapping_neg() *)
(* pub fn round(x: i32) -> i32 { floor(x.wrapping_add(32)) } *)
Definition m_round (x : Z) : option Z := m_floor (wrap_s 32 (x + 32)).
(* pub fn ceil(x: i32) -> i32 { floor(x.wrapping_add(63)) } *)
Definition m_ceil (x : Z) : option Z := m_floor (wrap_s 32 (x + 63)).
(* fn floor_pad(x: i32, n: i32) -> i32 { x & !(n.wrapping_sub(1)) } *)
Definition m_floor_pad (x n : Z) : option Z := Some (Z.land x (Z.lnot (wrap_s 32 (n - 1)))).
(* pub fn round_pad(x: i32, n: i32) -> i32 { floor_pad(x.wrapping_add(n / 2), n) } *)
Definition m_round_pad (x n : Z) : option Z :=
  do h <- div32 n 2 ;; m_floor_pad (wrap_s 32 (x + h)) n.

(* impl Mul for Fixed (fixed_mul_div!): ab = a as i64 * b as i64; ((ab + 0x8000 - i64::from(ab<0)) >> 16) as i32 *)
Definition fixed_mul_chk (a b : Z) : option Z :=
  do ab <- mul64 a b ;;
  do t <- add64 ab 32768 ;;
  do t <- sub64 t (if ab <? 0 then 1 else 0) ;;
  Some (wrap_s 32 (Z.shiftr t 16)).
(* pub fn mul(a, b) = (Fixed(a) * Fixed(b)).to_bits() *)
Definition m_mul := fixed_mul_chk.

(* impl Div for Fixed *)
Definition fixed_div_chk (a0 b0 : Z) : option Z :=
  let sign := 1 in
  let a := if a0 <? 0 then wrap_s 32 (- a0) else a0 in        (* a.wrapping_neg() *)
  let sign := if a0 <? 0 then -1 else sign in
  let b := if b0 <? 0 then wrap_s 32 (- b0) else b0 in
  do sign <- (if b0 <? 0 then neg32 sign else Some sign) ;;   (* sign = -sign *)
  let a := wrap_u 32 a in                                      (* as u32 as u64 *)
  let b := wrap_u 32 b in
  do q <- (if b =? 0 then Some 2147483647
           else do n <- addu64 (Z.shiftl a 16) (Z.shiftr b 1) ;;   (* (a << 16) + (b >> 1) *)
                Some (wrap_u 32 (n / b))) ;;
  Some (if sign <? 0 then wrap_s 32 (- wrap_s 32 q) else wrap_s 32 q).
Definition m_div := fixed_div_chk.

(* Fixed::mul_div: all arithmetic explicitly wrapping except `sign = -sign` and `/ bu` (bu > 0) *)
Definition fixed_mul_div_chk (s0 a0 b0 : Z) : option Z :=
  let su := wrap_u 64 s0 in
  let au := wrap_u 64 a0 in
  let bu := wrap_u 64 b0 in
  let sign := 1 in
  let su := if s0 <? 0 then wrap_u 64 (0 - su) else su in
  let sign := if s0 <? 0 then -1 else sign in
  let au := if a0 <? 0 then wrap_u 64 (0 - au) else au in
  do sign <- (if a0 <? 0 then neg32 sign else Some sign) ;;
  let bu := if b0 <? 0 then wrap_u 64 (0 - bu) else bu in
  do sign <- (if b0 <? 0 then neg32 sign else Some sign) ;;
  let result := if 0 <? bu then wrap_u 64 (wrap_u 64 (su * au) + Z.shiftr bu 1) / bu
                else 2147483647 in
  Some (if sign <? 0 then wrap_s 32 (- wrap_s 32 result) else wrap_s 32 result).
Definition m_mul_div := fixed_mul_div_chk.

(* pub fn mul_div_no_round(mut a: i32, mut b: i32, mut c: i32) -> i32 *)
Definition m_mul_div_no_round (a0 b0 c0 : Z) : option Z :=
  let s := 1 in
  let a := if a0 <? 0 then wneg a0 else a0 in                   (* a = a.wrapping_neg() *)
  let s := if a0 <? 0 then -1 else s in
  let b := if b0 <? 0 then wneg b0 else b0 in
  do s <- (if b0 <? 0 then neg32 s else Some s) ;;              (* s = -s, s = +-1 *)
  let c := if c0 <? 0 then wneg c0 else c0 in
  do s <- (if c0 <? 0 then neg32 s else Some s) ;;
  do d <- (if 0 <? c then do p <- mul64 a b ;; div_s 64 p c else Some 2147483647) ;;
  Some (if s <? 0 then wneg (wrap_s 32 d) else wrap_s 32 d).    (* (d as i32).wrapping_neg() / d as i32 *)

(* pub fn mul14(a: i32, b: i32) -> i32 *)
Definition m_mul14 (a b : Z) : option Z :=
  do v <- mul64 a b ;;
  do t <- add64 8192 (Z.shiftr v 63) ;;
  do v <- add64 v t ;;
  Some (wrap_s 32 (Z.shiftr v 14)).

(* normalize14: every operation is on core::num::Wrapping except `-shift.0` (plain i32 negation of
   the normalisation shift).  Modelled: the prefix that computes that shift. *)
Definition leading_zeros32 (u : Z) : Z := if u =? 0 then 32 else 31 - Z.log2 u.
Definition m_normalize14_negshift (x y : Z) : option Z :=
  let ux := if x <? 0 then wrap_u 32 (0 - wrap_u 32 x) else wrap_u 32 x in
  let uy := if y <? 0 then wrap_u 32 (0 - wrap_u 32 y) else wrap_u 32 y in
  if (ux =? 0) || (uy =? 0) then Some 0
  else
    let len := if uy <? ux then wrap_u 32 (ux + Z.shiftr uy 1) else wrap_u 32 (uy + Z.shiftr ux 1) in
    let shift := leading_zeros32 len in
    let shift := wrap_s 32 (shift - (15 + (if Z.shiftr 2863311530 (Z.land shift 31) <=? len then 1 else 0))) in
    if 0 <? shift then Some 0 else neg32 shift.

(* ================= hint/round.rs  RoundState::round, one definition per mode ================= *)
Definition rs_off (d : Z) : option Z := Some d.
Definition rs_half_grid (d : Z) : option Z :=
  if 0 <=? d then do f <- m_floor d ;; Some (Z.max (wrap_s 32 (f + 32)) 0)
  else do f <- m_floor (wneg d) ;; Some (Z.min (wneg (wrap_s 32 (f + 32))) 0).
Definition rs_grid (d : Z) : option Z :=
  if 0 <=? d then do r <- m_round d ;; Some (Z.max r 0)
  else do r <- m_round (wneg d) ;; Some (Z.min (wneg r) 0).
Definition rs_double_grid (d : Z) : option Z :=
  if 0 <=? d then do r <- m_round_pad d 32 ;; Some (Z.max r 0)
  else do r <- m_round_pad (wneg d) 32 ;; Some (Z.min (wneg r) 0).
Definition rs_down_to_grid (d : Z) : option Z :=
  if 0 <=? d then do r <- m_floor d ;; Some (Z.max r 0)
  else do r <- m_floor (wneg d) ;; Some (Z.min (wneg r) 0).
Definition rs_up_to_grid (d : Z) : option Z :=
  if 0 <=? d then do r <- m_ceil d ;; Some (Z.max r 0)
  else do r <- m_ceil (wneg d) ;; Some (Z.min (wneg r) 0).
(* every operation explicitly wrapping *)
Definition rs_super (threshold phase period d : Z) : option Z :=
  let tp := wrap_s 32 (threshold - phase) in
  if 0 <=? d then
    let v := wrap_s 32 (Z.land (wrap_s 32 (d + tp)) (wneg period) + phase) in
    Some (if v <? 0 then phase else v)
  else
    let v := wrap_s 32 (wneg (Z.land (wrap_s 32 (tp - d)) (wneg period)) - phase) in
    Some (if 0 <? v then wneg phase else v).
(* wrapping except the division by the period (never 0 / -1 for an installable period) *)
Definition rs_super45 (threshold phase period d : Z) : option Z :=
  let tp := wrap_s 32 (threshold - phase) in
  if 0 <=? d then
    do q <- div32 (wrap_s 32 (d + tp)) period ;;
    let v := wrap_s 32 (wrap_s 32 (q * period) + phase) in
    Some (if v <? 0 then phase else v)
  else
    do q <- div32 (wrap_s 32 (tp - d)) period ;;
    let v := wrap_s 32 (wneg (wrap_s 32 (q * period)) - phase) in
    Some (if 0 <? v then wneg phase else v).

(* RoundMode discriminants in declaration order *)
Definition rs_round (mode threshold phase period d : Z) : option Z :=
  match mode with
  | 0 => rs_grid d | 1 => rs_half_grid d | 2 => rs_double_grid d | 3 => rs_down_to_grid d
  | 4 => rs_up_to_grid d | 5 => rs_off d | 6 => rs_super threshold phase period d
  | _ => rs_super45 threshold phase period d
  end.

(* engine/graphics.rs  fn super_round(&mut self, grid_period: i32, selector: i32): the only writer of
   (threshold, phase, period); returns (threshold, phase, period) *)
Definition super_round (grid sel : Z) : option (Z * Z * Z) :=
  let c := Z.land sel 192 in
  do period <- (if c =? 0 then div32 grid 2 else if c =? 64 then Some grid
                else if c =? 128 then mul32 grid 2 else Some grid) ;;
  let p := Z.land sel 48 in
  do phase <- (if p =? 0 then Some 0 else if p =? 16 then div32 period 4
               else if p =? 32 then div32 period 2
               else do t <- mul32 period 3 ;; div32 t 4) ;;
  do threshold <- (if Z.land sel 15 =? 0 then sub32 period 1
                   else do k <- sub32 (Z.land sel 15) 4 ;; do t <- mul32 k period ;; div32 t 8) ;;
  Some (Z.shiftr threshold 8, Z.shiftr phase 8, Z.shiftr period 8).

(* ================= font-types/src/fixed.rs ================= *)
(* Neg for Fixed/F26Dot6: Self(self.0.wrapping_neg()); abs: Self(self.0.wrapping_abs());
   fract: self.0 - self.floor().0 — C15.Model.fx_neg / fx_abs / fx_fract. *)
(* from_i32: i << 16 (a shift by a constant < 32 never trips the check) *)
Definition fixed_from_i32_chk (i : Z) : option Z := Some (fixed_from_i32 i).
Definition f26dot6_from_i32_chk (i : Z) : option Z := Some (wrap_s 32 (Z.shiftl i 6)).
(* to_i32 / to_f26dot6 / to_f2dot14: self.0.wrapping_add(K) >> n *)
Definition fixed_to_i32_chk (x : Z) : option Z := Some (fixed_to_i32 x).
Definition fixed_to_f26dot6_chk (x : Z) : option Z := Some (fixed_to_f26dot6 x).
Definition fixed_to_f2dot14_chk (x : Z) : option Z := Some (fixed_to_f2dot14 x).
Definition f26dot6_to_i32_chk (x : Z) : option Z := Some (Z.shiftr (wrap_s 32 (x + 32)) 6).
(* F2Dot14::to_fixed: Fixed(self.0 as i32 * 4) *)
Definition f2dot14_to_fixed_chk (x : Z) : option Z := mul32 x 4.

(* ================= read-fonts ================= *)
(* glyf.rs fn midpoint_i32(a, b) = a.wrapping_add(b) / 2 *)
Definition midpoint_i32 (a b : Z) : option Z := div32 (wrap_s 32 (a + b)) 2.

(* fvar.rs VariationAxisRecord::normalize *)
Definition fvar_normalize (mn df mx0 v0 : Z) : option Z :=
  let mx := Z.max mx0 mn in
  let v := clamp mn mx v0 in
  do r <- (if v <? df then
             do q <- fixed_div_chk (sat_s 32 (df - v)) (sat_s 32 (df - mn)) ;; fx_neg 32 q
           else if df <? v then fixed_div_chk (sat_s 32 (v - df)) (sat_s 32 (mx - df))
           else Some 0) ;;
  Some (clamp (-65536) 65536 r).

(* avar.rs SegmentMaps::apply; maps = [(from_coordinate, to_coordinate)] raw F2Dot14 bits *)
Fixpoint avar_go (first : bool) (pf pt : Z) (maps : list (Z * Z)) (coord : Z) : option Z :=
  match maps with
  | [] => Some coord
  | (f, t) :: r =>
      do from <- f2dot14_to_fixed_chk f ;;
      if from =? coord then f2dot14_to_fixed_chk t
      else if coord <? from then
        if first then Some coord
        else
          do to <- f2dot14_to_fixed_chk t ;;
          do prev_from <- f2dot14_to_fixed_chk pf ;;
          do prev_to <- f2dot14_to_fixed_chk pt ;;
          do md <- fixed_mul_div_chk (fx_sub 32 to prev_to) (fx_sub 32 coord prev_from) (fx_sub 32 from prev_from) ;;
          Some (fx_add 32 prev_to md)
      else avar_go false f t r coord
  end.
Definition avar_apply (maps : list (Z * Z)) (coord : Z) : option Z := avar_go true 0 0 maps coord.

(* cmap.rs Cmap4::map_codepoint + lookup_glyph_id over the four parallel arrays and glyph_id_array.
   Outcome: None = trap, Some None = no mapping, Some (Some gid). usize = 64 bits. *)
Definition nth_opt (l : list Z) (i : Z) : option Z :=
  if i <? 0 then None else nth_error l (Z.to_nat i).
Definition cmap4_lookup (deltas range_offsets gids : list Z) (codepoint index start_code : Z)
  : option (option Z) :=
  match nth_opt deltas index, nth_opt range_offsets index with
  | Some delta, Some range_offset =>
      if range_offset =? 0 then
        do s <- add32 codepoint delta ;; Some (Some (wrap_u 16 s))
      else
        do d <- chk_u 16 (codepoint - start_code) ;;                       (* u16 subtraction *)
        do off <- addu64 (range_offset / 2) d ;;
        do back <- subu64 (Z.of_nat (length range_offsets)) index ;;       (* range_offsets.len() - index *)
        let off := sat_u 64 (off - back) in
        match nth_opt gids off with
        | None => Some None
        | Some gid => if gid =? 0 then Some None
                      else do s <- add32 gid delta ;; Some (Some (wrap_u 16 s))
        end
  | _, _ => Some None
  end.
Fixpoint cmap4_search (fuel : nat) (starts ends deltas range_offsets gids : list Z)
         (codepoint lo hi : Z) : option (option Z) :=
  match fuel with
  | O => Some None
  | S fuel' =>
      if lo <? hi then
        do sum <- addu64 lo hi ;;
        let i := sum / 2 in
        match nth_opt starts i with
        | None => Some None
        | Some start_code =>
            if codepoint <? start_code then
              cmap4_search fuel' starts ends deltas range_offsets gids codepoint lo i
            else match nth_opt ends i with
                 | None => Some None
                 | Some end_code =>
                     if end_code <? codepoint then
                       do lo' <- addu64 i 1 ;;
                       cmap4_search fuel' starts ends deltas range_offsets gids codepoint lo' hi
                     else cmap4_lookup deltas range_offsets gids codepoint i start_code
                 end
        end
      else Some None
  end.
Definition cmap4_map (seg_count_x2 : Z) (starts ends deltas range_offsets gids : list Z)
           (codepoint : Z) : option (option Z) :=
  if 65535 <? codepoint then Some None
  else cmap4_search 64 starts ends deltas range_offsets gids codepoint 0 (seg_count_x2 / 2).

(* read-fonts/src/lib.rs codegen_prelude::transforms (usize = 64 bits; TryInto<usize> of the unsigned
   field types never fails) *)
Definition t_subtract (l r : Z) : option Z := Some (sat_u 64 (l - r)).
Definition t_add (l r : Z) : option Z := Some (sat_u 64 (l + r)).
Definition div_ceil8 (c : Z) : Z := let d := c / 8 in if 0 <? c mod 8 then d + 1 else d.
Definition t_bitmap_len (c : Z) : option Z := Some (div_ceil8 c).
Definition t_max_value_bitmap_len (c : Z) : option Z := do c1 <- addu64 c 1 ;; Some (div_ceil8 c1).
Definition t_add_multiply (a b c : Z) : option Z := Some (sat_u 64 (sat_u 64 (a + b) * c)).
Definition t_multiply_add (a b c : Z) : option Z := Some (sat_u 64 (sat_u 64 (a * b) + c)).
Definition t_half (v : Z) : option Z := Some (v / 2).
Definition t_subtract_add_two (l r : Z) : option Z := Some (sat_u 64 (sat_u 64 (l - r) + 2)).

(* tables.rs compute_checksum *)
Fixpoint checksum_go (sum : Z) (l : list Z) : Z :=
  match l with
  | a :: b :: c :: d :: r => checksum_go (wrap_u 32 (sum + from_be [a; b; c; d])) r
  | [a] => wrap_u 32 (sum + from_be [a; 0; 0; 0])
  | [a; b] => wrap_u 32 (sum + from_be [a; b; 0; 0])
  | [a; b; c] => wrap_u 32 (sum + from_be [a; b; c; 0])
  | [] => wrap_u 32 (sum + 0)
  end.
Definition compute_checksum (l : list Z) : option Z := Some (checksum_go 0 l).

(* ================= round 2 kernels ================= *)
(* engine/arith.rs: the closures of ADD SUB DIV MUL ABS NEG FLOOR CEILING MAX MIN.
   Outcome of DIV: None = trap, Some None = HintErrorKind::DivideByZero, Some (Some v). *)
Definition op_add (a b : Z) : option Z := Some (wrap_s 32 (a + b)).         (* a.wrapping_add(b) *)
Definition op_sub (a b : Z) : option Z := Some (wrap_s 32 (a - b)).         (* a.wrapping_sub(b) *)
Definition op_div (a b : Z) : option (option Z) :=
  if b =? 0 then Some None else do r <- m_mul_div_no_round a 64 b ;; Some (Some r).
Definition op_mul (a b : Z) : option Z := m_mul_div a b 64.
Definition op_abs (a : Z) : option Z := Some (wrap_s 32 (Z.abs a)).         (* n.wrapping_abs() *)
Definition op_neg (a : Z) : option Z := Some (wneg a).
Definition op_floor := m_floor.
Definition op_ceiling := m_ceil.
Definition op_max (a b : Z) : option Z := Some (Z.max a b).
Definition op_min (a b : Z) : option Z := Some (Z.min a b).
(* engine/cvt.rs WCVTF: mul(value, self.graphics.scale) *)
Definition op_wcvtf (v scale : Z) : option Z := m_mul v scale.
(* glyf/mod.rs compute_scale: F26Dot6((ppem * 64.) as i32) / F26Dot6(units_per_em) *)
Definition compute_scale (ppem upem : Z) : option Z := fixed_div_chk (ppem * 64) upem.
(* hint/instance.rs setup: CVT values are converted to 26.6 on load: (value.get() as i32) * 64;
   with cvar: base * 64 + Fixed(delta).to_f26dot6(); then (Fixed(v) * Fixed(scale >> 6)) *)
Definition cvt_load (base : Z) : option Z := mul32 base 64.
Definition cvt_load_cvar (base delta : Z) : option Z :=
  do b <- mul32 base 64 ;; add32 b (fixed_to_f26dot6 delta).
Definition cvt_scale (v scale : Z) : option Z := m_mul v (Z.shiftr scale 6).
(* fixed.rs AddAssign / SubAssign: *self = *self + other through the wrapping Add / Sub *)
Definition fx_add_assign (bits a b : Z) : option Z := Some (fx_add bits a b).
Definition fx_sub_assign (bits a b : Z) : option Z := Some (fx_sub bits a b).
(* glyf/mod.rs FreeTypeScaler::setup_phantom_points + the tsb / vadvance computed in Scaler::load *)
Definition phantom_points (xmin ymax lsb adv ascent descent : Z) : option (Z * Z * Z * Z) :=
  do tsb <- sub32 ascent ymax ;;
  do vadv <- sub32 ascent descent ;;
  do p0 <- sub32 xmin lsb ;;
  let p1 := fx_add 32 p0 adv in
  do p2 <- add32 ymax tsb ;;
  let p3 := fx_sub 32 p2 vadv in
  Some (p0, p1, p2, p3).
(* glyf/deltas.rs Jiggler::interpolate, one coordinate of one point, C = i32, D = Fixed
   (in1c <= in2c after the swap); cur = the out point's current value *)
Definition delta_interp (in1c in2c out1 out2 pc cur : Z) : option Z :=
  let in1 := fixed_from_i32 in1c in
  let in2 := fixed_from_i32 in2c in
  if negb (in1 =? in2) || (out1 =? out2) then
    do scale <- (if negb (in1 =? in2) then fixed_div_chk (fx_sub 32 out2 out1) (fx_sub 32 in2 in1)
                 else Some 0) ;;
    let d1 := fx_sub 32 out1 in1 in
    let d2 := fx_sub 32 out2 in2 in
    let out := fixed_from_i32 pc in
    if out <=? in1 then Some (fx_add 32 out d1)
    else if in2 <=? out then Some (fx_add 32 out d2)
    else do m <- fixed_mul_chk (fx_sub 32 out in1) scale ;; Some (fx_add 32 out1 m)
  else Some cur.
(* Jiggler::shift: delta = ref_out - ref_in; out_point += delta *)
Definition delta_shift (ref_inc ref_out cur : Z) : option Z :=
  Some (fx_add 32 cur (fx_sub 32 ref_out (fixed_from_i32 ref_inc))).

(* read-fonts gvar.rs GlyphDelta::apply_scalar::<Fixed> / cvar.rs CvtDelta::apply_scalar:
   Fixed::from_i32(delta) * scalar *)
Definition delta_apply_scalar (d scalar : Z) : option Z := fixed_mul_chk (fixed_from_i32 d) scalar.
(* cmap.rs Cmap12: one group (start_char, end_char, start_glyph); map_codepoint + lookup_glyph_id =
   start_glyph_id.wrapping_add(codepoint.wrapping_sub(start_char_code)); None = no mapping *)
Definition cmap12_one_group (cp start_c end_c start_g : Z) : option (option Z) :=
  (* lo = 0, hi = 1: i = (lo + hi) / 2 *)
  do s <- addu64 0 1 ;;
  if cp <? start_c then Some None
  else if end_c <? cp then (do _ <- addu64 (s / 2) 1 ;; Some None)
  else Some (Some (wrap_u 32 (start_g + wrap_u 32 (cp - start_c)))).
(* hmtx.rs advance / side_bearing index arithmetic: n long metrics, m extra side bearings;
   returns the index into the long metrics resp. (0 = long metric, 1 = extra array, index) *)
Definition hmtx_advance_ix (n gid : Z) : option (option Z) :=
  Some (if gid <? n then Some gid else if 0 <? n then Some (n - 1) else None).
Definition hmtx_lsb_ix (n m gid : Z) : option (option (Z * Z)) :=
  Some (if gid <? n then Some (0, gid)
        else let j := sat_u 64 (gid - n) in if j <? m then Some (1, j) else None).

(* read-fonts collections/int_set/sparse_bit_set.rs decode_sparse_bit_set_nodes (the IFT codepoint-set
   decoder): arithmetic of an all-zero ("filled") node.  nstart = next.start (u64), node_size = BF^exp (u64).
   None = trap, Some None = the node is skipped, Some (Some (start, end)) = inserted range. *)
Definition sbs_fill_range (nstart node_size bias maxv : Z) : option (option (Z * Z)) :=
  (* u32::try_from(next.start).ok().and_then(|s| s.checked_add(bias)).filter(|s| *s <= max_value) *)
  if (nstart <=? 4294967295) && (nstart + bias <=? 4294967295) && (nstart + bias <=? maxv) then
    (* u32::try_from(next.start + node_size - 1).unwrap_or(u32::MAX).saturating_add(bias).min(max_value) *)
    do t <- addu64 nstart node_size ;;
    do t <- subu64 t 1 ;;
    let e := if t <=? 4294967295 then t else 4294967295 in
    Some (Some (nstart + bias, Z.min (sat_u 32 (e + bias)) maxv))
  else Some None.
(* walking down to the node: start_delta = bit_index as u64 * BF^(height - depth); start += start_delta *)
Fixpoint sbs_path (bf height depth start : Z) (path : list Z) : option (Z * Z) :=
  match path with
  | [] => Some (start, depth)
  | i :: r =>
      do e <- chk_u 32 (height - depth) ;;
      do sz <- chk_u 64 (bf ^ e) ;;
      do d <- chk_u 64 (i * sz) ;;
      do s <- addu64 start d ;;
      do dp <- chk_u 32 (depth + 1) ;;
      sbs_path bf height dp s r
  end.
(* a filled node reached through the child indices [path] in a tree of the given branch factor / height *)
Definition sbs_filled_node (bf height bias maxv : Z) (path : list Z) : option (option (Z * Z)) :=
  match sbs_path bf height 1 0 path with
  | None => None
  | Some (start, depth) =>
      do e <- chk_u 32 (height - depth) ;;
      do e <- chk_u 32 (e + 1) ;;
      do sz <- chk_u 64 (bf ^ e) ;;
      sbs_fill_range start sz bias maxv
  end.
(* a leaf value: u32::try_from(next.start)?.checked_add(bit_index)?.checked_add(bias)? <= max_value *)
Definition sbs_leaf_value (nstart bit_index bias maxv : Z) : option (option Z) :=
  Some (if (nstart <=? 4294967295) && (nstart + bit_index <=? 4294967295)
           && (nstart + bit_index + bias <=? 4294967295) && (nstart + bit_index + bias <=? maxv)
        then Some (nstart + bit_index + bias) else None).

(* read-fonts layout.rs CoverageFormat2::get on the matching range record:
   start_coverage_index.checked_add(gid - start_glyph_id) (u16); None = trap, Some None = no index *)
Definition cov2_index (start_cov gid start_gid : Z) : option (option Z) :=
  do d <- chk_u 16 (gid - start_gid) ;;
  Some (if start_cov + d <=? 65535 then Some (start_cov + d) else None).
Definition cov2_get (start_gid end_gid start_cov gid : Z) : option (option Z) :=
  if (gid <? start_gid) || (end_gid <? gid) then Some None else cov2_index start_cov gid start_gid.
(* layout.rs Device::iter: n = (end_size as usize + 1).saturating_sub(start_size as usize) *)
Definition device_count (start_size end_size : Z) : option Z :=
  do e <- addu64 end_size 1 ;; Some (sat_u 64 (e - start_size)).
(* svg.rs Svg::glyph_data: all_data.get(start..start.checked_add(len)?) ; result = slice length *)
Definition svg_doc_slice (off len datalen : Z) : option (option Z) :=
  Some (if off + len <=? 18446744073709551615 then (if off + len <=? datalen then Some len else None) else None).

(* skrifa autohint/topo/segments.rs link_segments_default: the score of linking two opposite segments.
   max_width : Option<i32> (None and Some(0) both mean "no standard width": unwrap_or_default, then != 0);
   dist = pos2 - pos1 > 0 (i16 positions), len >= len_threshold >= 1, len_score = 6000 * upem / 2048. *)
Definition derived_constant (upem value : Z) : option Z :=
  do m <- mul32 value upem ;; div32 m 2048.
Definition link_score (max_width : option Z) (dist len len_score : Z) : option Z :=
  let mw := match max_width with Some w => w | None => 0 end in
  do dd <- (if negb (mw =? 0) then
              do q <- div32 (wrap_s 32 (Z.shiftl dist 10)) mw ;;        (* (dist << 10) / max_width *)
              do delta <- sub32 q 1024 ;;
              if 10000 <? delta then Some 32000
              else if 0 <? delta then do sq <- mul32 delta delta ;; div32 sq 3000
              else Some 0
            else Some dist) ;;
  do l <- div32 len_score len ;;
  add32 dd l.

(* read-fonts postscript/index.rs Index1/Index2::get + read_offset, postscript/charstring.rs callsubr index.
   usize = 64 bits.  None = trap, Some None = Err(OutOfBounds), positions = byte positions in the offset array. *)
Definition index_offset_pos (index count off_size : Z) : option (option Z) :=
  if count <? index then Some None else do p <- chk_u 64 (index * off_size) ;; Some (Some p).
Definition index_get_positions (index count off_size : Z) : option (option (Z * Z)) :=
  match index_offset_pos index count off_size with
  | None => None
  | Some None => Some None
  | Some (Some p0) =>                      (* get_offset(index)? is evaluated before index + 1 *)
      do i1 <- addu64 index 1 ;;
      match index_offset_pos i1 count off_size with
      | None => None
      | Some None => Some None
      | Some (Some p1) => Some (Some (p0, p1))
      end
  end.
(* (self.stack.pop_i32()? + subrs_index.subr_bias()) as usize *)
Definition subr_biased_index (v bias : Z) : option Z := do s <- add32 v bias ;; Some (wrap_u 64 s).

(* skrifa color/instance.rs ColrInstance::var_deltas: the variation index of the i-th delta of a variable record.
   With a DeltaSetIndexMap: var_index_base.wrapping_add(i) (u32) is looked up in the map; without one the index is
   truncated to the inner u16: (var_index_base.wrapping_add(i)) as u16, outer = 0. *)
Definition colr_var_index (has_map : bool) (base i : Z) : option Z :=
  let v := wrap_u 32 (base + i) in
  Some (if has_map then v else wrap_u 16 v).

(* ---- correspondence case format (harness/src/bin/c20.rs): (op, args, result);
        result [] = the real function panicked, [v..] = returned value(s) ---- *)
Definition o1 (r : option Z) : list Z := match r with Some v => [v] | None => [] end.
Definition oo (r : option (option Z)) : list Z :=
  match r with None => [] | Some None => [-1] | Some (Some g) => [g] end.
Fixpoint pairs (l : list Z) : list (Z * Z) :=
  match l with a :: b :: r => (a, b) :: pairs r | _ => [] end.
Fixpoint take (n : nat) (l : list Z) : list Z :=
  match n, l with S k, x :: r => x :: take k r | _, _ => [] end.
Fixpoint drop (n : nat) (l : list Z) : list Z :=
  match n, l with S k, _ :: r => drop k r | _, _ => l end.

Definition eval_op (op : Z) (args : list Z) : list Z :=
  match op, args with
  | 1, [x] => o1 (m_floor x)
  | 2, [x] => o1 (m_round x)
  | 3, [x] => o1 (m_ceil x)
  | 4, [x; n] => o1 (m_round_pad x n)
  | 5, [a; b] => o1 (m_mul a b)
  | 6, [a; b] => o1 (m_div a b)
  | 7, [a; b; c] => o1 (m_mul_div a b c)
  | 8, [a; b; c] => o1 (m_mul_div_no_round a b c)
  | 9, [a; b] => o1 (m_mul14 a b)
  | 10, [x; y] => match m_normalize14_negshift x y with Some _ => [0] | None => [] end
  | 11, [m; t; ph; pe; d] => o1 (rs_round m t ph pe d)
  | 12, [g; sel; d] =>      (* SROUND/S45ROUND sel; ROUND d, observed through the interpreter *)
      match super_round g sel with
      | Some (t, ph, pe) => o1 (rs_round (if g =? 16384 then 6 else 7) t ph pe d)
      | None => []
      end
  | 20, [x] => o1 (fx_neg 32 x)
  | 21, [x] => o1 (fx_abs 32 x)
  | 22, [x] => o1 (fx_fract 32 16 x)
  | 23, [x] => o1 (fixed_from_i32_chk x)
  | 24, [x] => o1 (fixed_to_i32_chk x)
  | 25, [x] => o1 (fixed_to_f26dot6_chk x)
  | 26, [x] => o1 (fixed_to_f2dot14_chk x)
  | 27, [x] => o1 (f2dot14_to_fixed_chk x)
  | 28, [x] => o1 (fx_abs 16 x)              (* F2Dot14::abs *)
  | 29, [x] => o1 (f26dot6_from_i32_chk x)
  | 30, [x] => o1 (f26dot6_to_i32_chk x)
  | 31, [x] => o1 (fx_fract 32 6 x)          (* F26Dot6::fract *)
  | 32, [x] => o1 (fx_fract 16 14 x)         (* F2Dot14::fract *)
  | 40, [a; b] => o1 (midpoint_i32 a b)
  | 41, [mn; df; mx; v] => o1 (fvar_normalize mn df mx v)
  | 42, coord :: maps => o1 (avar_apply (pairs maps) coord)
  | 43, cp :: sx2 :: n :: ng :: rest =>
      let n := Z.to_nat n in
      let starts := take n rest in
      let ends := take n (drop n rest) in
      let deltas := take n (drop (2 * n) rest) in
      let ros := take n (drop (3 * n) rest) in
      let gids := take (Z.to_nat ng) (drop (4 * n) rest) in
      oo (cmap4_map sx2 starts ends deltas ros gids cp)
  | 44, l => o1 (compute_checksum l)
  | 45, [a; b; c] => o1 (t_add_multiply a b c)   (* Index1: (count + 1) * off_size *)
  | 46, [v] => o1 (t_half v)                       (* Cmap4: seg_count_x2 / 2 *)
  | 47, [l; r] => o1 (t_subtract l r)              (* hmtx: num_glyphs - number_of_h_metrics *)
  | 48, [l; r] => o1 (t_add l r)                   (* gvar: glyph_count + 1 *)
  | 50, [x; y; sc] => match delta_apply_scalar x sc, delta_apply_scalar y sc with
                      | Some a, Some b => [a; b] | _, _ => [] end
  | 51, [v; sc] => o1 (delta_apply_scalar v sc)
  | 52, [cp; sc; ec; sg] => oo (cmap12_one_group cp sc ec sg)
  | 53, [n; m; gid] =>
      match hmtx_advance_ix n gid, hmtx_lsb_ix n m gid with
      | Some a, Some l =>
          [match a with Some k => k | None => -1 end;
           match l with Some (0, k) => k | Some (_, j) => 1000 + j | None => -1 end]
      | _, _ => []
      end
  | 54, bf :: height :: bias :: maxv :: path =>   (* decoded set of a stream whose only non-empty branch ends in a filled node *)
      match sbs_filled_node bf height bias maxv path with
      | None => [] | Some None => [-1] | Some (Some (a, b)) => [a; b]
      end
  | 55, [sg; eg; sc; gid] => oo (cov2_get sg eg sc gid)
  | 56, [ss; es; per_word] => match device_count ss es with Some n => [if per_word =? 0 then 0 else n] | None => [] end
  | 57, [off; len; datalen] => oo (svg_doc_slice off len datalen)
  | 58, [index; count; off_size] =>      (* Index1 / Index2 ::get(index).is_ok() on a well-formed INDEX *)
      match index_get_positions index count off_size with
      | None => [] | Some None => [0] | Some (Some _) => [1]
      end
  | 33, [a; b] => o1 (fx_add_assign 32 a b)         (* Fixed += / F26Dot6 += *)
  | 34, [a; b] => o1 (fx_sub_assign 32 a b)
  | 35, [a; b] => o1 (fx_add_assign 16 a b)         (* F2Dot14 += *)
  | 13, [opc; a; b] =>      (* one arithmetic instruction executed by the real interpreter *)
      match opc with
      | 96 => o1 (op_add a b) | 97 => o1 (op_sub a b) | 98 => oo (op_div a b) | 99 => o1 (op_mul a b)
      | 100 => o1 (op_abs a) | 101 => o1 (op_neg a) | 102 => o1 (op_floor a) | 103 => o1 (op_ceiling a)
      | 139 => o1 (op_max a b) | 140 => o1 (op_min a b) | _ => [-999]
      end
  | 14, [v; ppem; upem] =>  (* scaled CVT entry read back with RCVT *)
      o1 (do s <- compute_scale ppem upem ;; do c <- cvt_load v ;; cvt_scale c s)
  | _, _ => [-999]
  end.

Definition check_case (c : Z * list Z * list Z) : bool :=
  let '(op, args, res) := c in zlist_eqb (eval_op op args) res.
