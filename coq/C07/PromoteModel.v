(* C07 round 3 — executable model of the extension-promotion CHOICE of write-fonts' packer
   (write-fonts/src/graph.rs: get_promotable_subtables + select_promotions_hb), no proofs.

   What is modelled: the candidates are the promotable objects (lookups) of `self.objects`, a
   `BTreeMap<ObjectId, _>`: they are enumerated in ASCENDING ID order, whatever order the set of
   lookups was produced in ([btree_order] = sort by id).  select_promotions_hb then ranks them with
   `lookup_sizes.sort_by_key(sort_key)` — a STABLE sort whose key `Reverse((count / size * 1e9) as u64)`
   does not look at the id — and walks the ranked list, keeping lookups in the 16-bit space until
   one of the three layer sizes reaches 0xFFFF; that lookup and every later one is promoted.

   The sizes of a lookup (bytes of the lookup object, of its direct children, of its whole subgraph
   as summed by find_subgraph_size) and the f64-derived key are DATA of a case here (the harness
   obtains them from the tables it builds; [key_plausible] pins the key to the exact quotient
   within 1).  `usize` subtraction under overflow-checks: [None] = panic. *)
From Coq Require Import ZArith List Bool.
From FV Require Import Lib.Cases C05.Model C07.SharedPtsModel.
Import ListNotations.
Open Scope Z_scope.

Record lookup := mkLk {
  lk_id : Z;        (* ObjectId of the lookup *)
  lk_key : Z;       (* (subtable_count as f64 / subgraph_size as f64 * 1e9) as u64 *)
  lk_count : Z;     (* objects[id].offsets.len() *)
  lk_subgraph : Z;  (* find_subgraph_size *)
  lk_size : Z;      (* objects[id].bytes.len() *)
  lk_children : Z   (* find_children_size(id) *)
}.

(* generic stable insertion sort, ascending in [k]; an element inserted in front of a list stays in
   front of the elements with an equal key (it preceded them in the input) *)
Section Isort.
  Context {A : Type} (k : A -> Z).
  Fixpoint ins (x : A) (l : list A) : list A :=
    match l with
    | [] => [x]
    | y :: r => if k x <=? k y then x :: y :: r else y :: ins x r
    end.
  Fixpoint isort (l : list A) : list A :=
    match l with [] => [] | x :: r => ins x (isort r) end.
End Isort.

(* iteration of the BTreeMap `objects`: ascending id *)
Definition btree_order (l : list lookup) : list lookup := isort lk_id l.

(* lookup_sizes.sort_by_key(LookupSize::sort_key): stable, key = Reverse(lk_key) *)
Definition sort_by_key (l : list lookup) : list lookup := isort (fun x => - lk_key x) l.

Definition MAX_LAYER_SIZE : Z := 65535.
Definition EXTENSION_SIZE : Z := 8.

(* the `for lookup in &lookup_sizes` loop of select_promotions_hb *)
Fixpoint sel_loop (full : bool) (l2 l3 l4 : Z) (ls : list lookup) : option (list Z) :=
  match ls with
  | [] => Some []
  | x :: r =>
    if full then option_map (cons (lk_id x)) (sel_loop true l2 l3 l4 r)
    else
      (* remaining_size = subgraph_size - lookup_size - subtables_size  (usize) *)
      let remaining := lk_subgraph x - lk_size x - lk_children x in
      if remaining <? 0 then None else
      let l2' := l2 + lk_size x in
      let l3' := l3 + lk_size x + lk_children x - lk_count x * EXTENSION_SIZE in
      let l4' := l4 + lk_children x + remaining in
      if (l2' <? MAX_LAYER_SIZE) && (l3' <? MAX_LAYER_SIZE) && (l4' <? MAX_LAYER_SIZE)
      then sel_loop false l2' l3' l4' r
      else option_map (cons (lk_id x)) (sel_loop true l2' l3' l4' r)
  end.

(* select_promotions_hb(candidates, parent) ; [list_size] = bytes of the LookupList object *)
Definition select_promotions (list_size : Z) (cands : list lookup) : option (list Z) :=
  let s := sort_by_key cands in
  let ext := fold_left (fun a x => a + lk_count x * EXTENSION_SIZE) s 0 in
  sel_loop false list_size ext ext s.

(* get_promotable_subtables + select_promotions_hb on the real data structure: the candidate list is
   the ascending-id enumeration of the promotable objects *)
Definition promote (list_size : Z) (lookups : list lookup) : option (list Z) :=
  select_promotions list_size (btree_order lookups).

(* the same with the candidates delivered in an arbitrary order [perm] of the ascending-id enumeration
   (a hash container between the BTreeMap and the ranking): used for the refutation example *)
Definition promote_perm (perm : list lookup -> list lookup) (list_size : Z) (lookups : list lookup) : option (list Z) :=
  select_promotions list_size (perm (btree_order lookups)).

(* renaming of ids *)
Definition ren (rho : Z -> Z) (x : lookup) : lookup :=
  mkLk (rho (lk_id x)) (lk_key x) (lk_count x) (lk_subgraph x) (lk_size x) (lk_children x).

(* ---- correspondence ---- *)
(* the f64 key supplied by the harness is the exact quotient up to 1 (f64 rounding of the division and
   of the product, then truncation) *)
Definition key_plausible (x : lookup) : bool :=
  (0 <? lk_subgraph x) && (Z.abs (lk_key x - (lk_count x * 1000000000) / lk_subgraph x) <=? 1).

Definition zlist_eqb (a b : list Z) : bool := list_eqb Z.eqb a b.

(* PCase list_size lookups observed: [lookups] in LookupList order (ids ascending by construction, but the
   model does not rely on it), [observed] = ids of the lookups that are extension lookups in the bytes the
   real packer produced, ascending *)
Inductive pcase := PCase (list_size : Z) (lookups : list lookup) (observed : list Z).

Definition check_pcase (c : pcase) : bool :=
  match c with
  | PCase sz lks obs =>
    forallb key_plausible lks &&
    match promote sz lks with
    | Some p =>
      zlist_eqb (isort (fun z => z) p) obs &&
      (* the same choice when the set of lookups is enumerated backwards, and under a strictly
         monotone renaming of the ids (evaluated; proved in Promote.v) *)
      match promote sz (rev lks), promote sz (map (ren (fun i => 7 * i + 1000003)) lks) with
      | Some p1, Some p2 => zlist_eqb p1 p && zlist_eqb p2 (map (fun i => 7 * i + 1000003) p)
      | _, _ => false
      end
    | None => false
    end
  end.

(* shards of c07 carry three kinds of case (CShared: coq/C07/SharedPtsModel.v, gvar shared point numbers) *)
Inductive c07_case := CDag (c : case_ty) | CPromo (p : pcase) | CShared (s : scase).
Definition check_case7 (c : c07_case) : bool :=
  match c with CDag c => check_case_ids c | CPromo p => check_pcase p | CShared s => check_scase s end.
