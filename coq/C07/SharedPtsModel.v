(* C07 round 4 — executable model of the per-glyph choice of gvar "shared point numbers"
   (write-fonts/src/tables/gvar.rs: GlyphVariations::compute_shared_points, max_by_first_key), no proofs.

   Each tuple variation of a glyph carries its `best_point_packing` (PackedPointNumbers::All = [None], or
   Some(point numbers)) — DATA of a case here, together with its packed size (`compute_size`); the choice
   between dense and sparse encoding (pick_best_point_number_repr) is not modelled.
   compute_shared_points counts the packings in an IndexMap (INSERTION ordered: first occurrence in the tuple
   list), drops those used once, and takes the FIRST one maximising (count - 1) * size. *)
From Coq Require Import ZArith List Bool.
Import ListNotations.
Open Scope Z_scope.

Definition pts : Type := option (list Z).   (* None = PackedPointNumbers::All *)

Fixpoint zl_eqb (a b : list Z) : bool :=
  match a, b with
  | [], [] => true
  | x :: r, y :: s => (x =? y) && zl_eqb r s
  | _, _ => false
  end.
Definition pts_eqb (a b : pts) : bool :=
  match a, b with
  | None, None => true
  | Some x, Some y => zl_eqb x y
  | _, _ => false
  end.

Record cand := mkCand { c_pts : pts; c_size : Z; c_count : Z }.

(* point_number_counts.entry(&packing).or_insert_with(|| (size, 0)); *count += 1  — insertion ordered *)
Fixpoint bump (p : pts) (size : Z) (m : list cand) : list cand :=
  match m with
  | [] => [mkCand p size 1]
  | c :: r => if pts_eqb (c_pts c) p then mkCand (c_pts c) (c_size c) (c_count c + 1) :: r else c :: bump p size r
  end.
Definition count_sets (tuples : list (pts * Z)) : list cand :=
  fold_left (fun m t => bump (fst t) (snd t) m) tuples [].

(* gvar.rs max_by_first_key: a fold that replaces the running maximum only by a STRICTLY greater key *)
Definition mbfk_step {A} (key : A -> Z) (acc : option (A * Z)) (x : A) : option (A * Z) :=
  match acc with
  | Some (_, k) => if key x <=? k then acc else Some (x, key x)
  | None => Some (x, key x)
  end.
Definition max_by_first_key {A} (key : A -> Z) (l : list A) : option A :=
  option_map fst (fold_left (mbfk_step key) l None).

Definition saving (c : cand) : Z := (c_count c - 1) * c_size c.
Definition shared_enough (c : cand) : bool := 1 <? c_count c.

Definition compute_shared_points (tuples : list (pts * Z)) : option pts :=
  option_map c_pts (max_by_first_key saving (filter shared_enough (count_sets tuples))).

(* the same with the counting map iterated in an arbitrary order [perm] (a hash map instead of the IndexMap) *)
Definition compute_shared_points_perm (perm : list cand -> list cand) (tuples : list (pts * Z)) : option pts :=
  option_map c_pts (max_by_first_key saving (filter shared_enough (perm (count_sets tuples)))).

(* ---- correspondence ---- *)
(* SCase tuples observed: per tuple (packing, packed size) in the glyph's tuple order, [observed] = the shared point
   numbers found in the compiled glyph variation data (None = the glyph has no shared point numbers) *)
Inductive scase := SCase (tuples : list (pts * Z)) (observed : option pts).

Definition opt_pts_eqb (a b : option pts) : bool :=
  match a, b with
  | None, None => true
  | Some x, Some y => pts_eqb x y
  | _, _ => false
  end.

Definition check_scase (c : scase) : bool :=
  match c with SCase tuples obs => opt_pts_eqb (compute_shared_points tuples) obs end.
