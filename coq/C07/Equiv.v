(* C07 — equivariance of the modelled packer under strictly monotone renamings of object ids:
   the algorithm inspects ids only through =, < (map order, heap keys). *)
From Coq Require Import ZArith List Bool Lia Permutation.
From FV Require Import Lib.RustInt C05.Model C05.Proofs C07.Proofs.
Import ListNotations.
Open Scope Z_scope.

Section Equiv.
  Variable rho : Z -> Z.
  Hypothesis rho_mono : forall a b, a < b -> rho a < rho b.

  Lemma rho_inj a b : rho a = rho b -> a = b.
  Proof.
    intros H. destruct (Z.lt_trichotomy a b) as [L|[E|L]]; [|exact E|];
      apply rho_mono in L; lia.
  Qed.
  Lemma rho_ltb a b : (rho a <? rho b) = (a <? b).
  Proof.
    destruct (a <? b) eqn:E.
    - apply Z.ltb_lt. apply rho_mono. lia.
    - apply Z.ltb_ge. destruct (Z.eq_dec a b) as [->|Hne]; [lia|].
      assert (b < a) by lia. apply rho_mono in H. lia.
  Qed.
  Lemma rho_eqb a b : (rho a =? rho b) = (a =? b).
  Proof.
    destruct (a =? b) eqn:E.
    - apply Z.eqb_eq. f_equal. lia.
    - apply Z.eqb_neq. intro H. apply rho_inj in H. lia.
  Qed.
  Lemma rho_leb a b : (rho a <=? rho b) = (a <=? b).
  Proof.
    destruct (a <=? b) eqn:E.
    - apply Z.leb_le. destruct (Z.eq_dec a b) as [->|Hne]; [lia|].
      assert (a < b) by lia. apply rho_mono in H. lia.
    - apply Z.leb_gt. apply rho_mono. lia.
  Qed.

  (* renaming of maps keyed by ids *)
  Definition rmap {A B} (f : A -> B) (m : zmap A) : zmap B :=
    map (fun kv => (rho (fst kv), f (snd kv))) m.

  Lemma mfind_rmap {A B} (f : A -> B) k (m : zmap A) :
    mfind (rho k) (rmap f m) = option_map f (mfind k m).
  Proof.
    induction m as [|[k' v] r IH]; cbn [rmap map mfind fst snd]; [reflexivity|].
    rewrite rho_eqb. destruct (k =? k'); [reflexivity|exact IH].
  Qed.
  Lemma minsert_rmap {A B} (f : A -> B) k v (m : zmap A) :
    minsert (rho k) (f v) (rmap f m) = rmap f (minsert k v m).
  Proof.
    induction m as [|[k' v'] r IH]; cbn [rmap map minsert fst snd]; [reflexivity|].
    rewrite rho_ltb, rho_eqb. destruct (k <? k'); [reflexivity|]. destruct (k =? k'); [reflexivity|].
    cbn [map fst snd]. f_equal. exact IH.
  Qed.
  Lemma mkeys_rmap {A B} (f : A -> B) (m : zmap A) : mkeys (rmap f m) = map rho (mkeys m).
  Proof. unfold mkeys, rmap. rewrite !map_map. reflexivity. Qed.
  Lemma rmap_length {A B} (f : A -> B) (m : zmap A) : length (rmap f m) = length m.
  Proof. unfold rmap. apply map_length. Qed.
  Lemma rmap_rmap_id {A} (m : zmap A) (f : A -> A) : (forall a, f a = a) -> rmap f m = rmap (fun a => a) m.
  Proof. intros H. unfold rmap. apply map_ext. intros [k v]. cbn. rewrite H. reflexivity. Qed.

  Definition rl := rename_link rho.
  Definition ro := rename_obj rho.
  Definition rn (nd : node) : node :=
    mkNode (n_size nd) (n_dist nd) (n_pos nd) (n_space nd)
           (map (fun p => (rho (fst p), snd p)) (n_parents nd)) (n_prio nd).
  Definition rg (g : graph) : graph :=
    mkGraph (rmap ro (g_objs g)) (rmap rn (g_nodes g)) (map rho (g_order g)) (rho (g_root g))
            (g_parents_invalid g).

  Lemma ro_bytes o : o_bytes (ro o) = o_bytes o. Proof. reflexivity. Qed.
  Lemma ro_links o : o_links (ro o) = map rl (o_links o). Proof. reflexivity. Qed.
  Lemma nparents_rn nd : nparents (rn nd) = nparents nd.
  Proof. unfold nparents, rn. cbn. rewrite map_length. reflexivity. Qed.

  (* ---- store ---- *)
  Lemma link_eqb_rl a b : link_eqb (rl a) (rl b) = link_eqb a b.
  Proof. unfold link_eqb, rl, rename_link. cbn. rewrite rho_eqb. reflexivity. Qed.
  Lemma list_eqb_map {A} (eqb : A -> A -> bool) (f : A -> A) :
    (forall a b, eqb (f a) (f b) = eqb a b) -> forall l l', list_eqb eqb (map f l) (map f l') = list_eqb eqb l l'.
  Proof.
    intros H. induction l as [|x r IH]; destruct l' as [|y s]; cbn; auto. rewrite H, IH. reflexivity.
  Qed.
  Lemma obj_eqb_ro a b : obj_eqb (ro a) (ro b) = obj_eqb a b.
  Proof. unfold obj_eqb. rewrite !ro_bytes, !ro_links. rewrite (list_eqb_map link_eqb rl link_eqb_rl). reflexivity. Qed.

  Definition rstore (st : store) : store :=
    mkStore (map (fun oi => (ro (fst oi), rho (snd oi))) (st_objs st)) (map rho (st_ids st)).

  Lemma store_find_ro d : forall l,
    store_find (ro d) (map (fun oi => (ro (fst oi), rho (snd oi))) l) = option_map rho (store_find d l).
  Proof.
    induction l as [|[o i] r IH]; cbn [map store_find fst snd]; [reflexivity|].
    rewrite obj_eqb_ro. destruct (obj_eqb d o); [reflexivity|exact IH].
  Qed.
  Definition rsi (p : store * Z) : store * Z := (rstore (fst p), rho (snd p)).
  Lemma store_add_r st d : store_add (rstore st) (ro d) = option_map rsi (store_add st d).
  Proof.
    unfold store_add. cbn [rstore st_objs st_ids]. rewrite store_find_ro.
    destruct (store_find d (st_objs st)); cbn [option_map]; [reflexivity|].
    destruct (st_ids st) as [|i rest]; cbn [map option_map]; [reflexivity|].
    unfold rsi, rstore. cbn. rewrite map_app. reflexivity.
  Qed.
  Lemma add_offset_r data id w adj : add_offset (ro data) (rho id) w adj = ro (add_offset data id w adj).
  Proof. unfold add_offset, ro, rename_obj. cbn. rewrite map_app. reflexivity. Qed.

  Lemma add_table_r : forall fuel d idx st,
    add_table fuel d idx (rstore st) = option_map rsi (add_table fuel d idx st).
  Proof.
    induction fuel as [|f IH]; intros d idx st; [reflexivity|].
    cbn [add_table]. destruct (nth_error d idx) as [items|]; [|reflexivity].
    set (wi := fix write_items (its : list item) (data : obj) (st : store) {struct its} : option (obj * store) :=
            match its with
            | [] => Some (data, st)
            | IRun b n :: r => write_items r (mkObj (o_bytes data ++ repeat b (Z.to_nat n)) (o_links data)) st
            | ILit l :: r => write_items r (mkObj (o_bytes data ++ l) (o_links data)) st
            | ILink w c :: r =>
                do sc <- add_table f d c st;;
                write_items r (add_offset data (snd sc) w 0) (fst sc)
            end).
    assert (Hwi : forall its data s,
              wi its (ro data) (rstore s) = option_map (fun p => (ro (fst p), rstore (snd p))) (wi its data s)).
    { induction its as [|it r IHr]; intros data s; [reflexivity|].
      destruct it as [b n|l|w c]; cbn [wi].
      - apply (IHr (mkObj (o_bytes data ++ repeat b (Z.to_nat n)) (o_links data)) s).
      - apply (IHr (mkObj (o_bytes data ++ l) (o_links data)) s).
      - rewrite IH. destruct (add_table f d c s) as [[s1 i1]|]; cbn [option_map obind rsi fst snd]; [|reflexivity].
        rewrite add_offset_r. apply IHr. }
    change (wi items (mkObj [] []) (rstore st)) with (wi items (ro (mkObj [] [])) (rstore st)).
    rewrite Hwi. destruct (wi items (mkObj [] []) st) as [[data s1]|]; cbn [option_map obind fst snd]; [|reflexivity].
    apply store_add_r.
  Qed.

  Lemma objs_of_store_r : forall l m,
    fold_left (fun m kv => minsert (snd kv) (fst kv) m) (map (fun oi => (ro (fst oi), rho (snd oi))) l) (rmap ro m)
    = rmap ro (fold_left (fun m kv => minsert (snd kv) (fst kv) m) l m).
  Proof.
    induction l as [|[o i] r IH]; intros m; cbn [map fold_left fst snd]; [reflexivity|].
    rewrite minsert_rmap. apply IH.
  Qed.

  (* ---- from_objects / update_parents ---- *)
  Lemma nodes_of_objs_r : forall objs,
    nodes_of_objs (rmap ro objs) = option_map (rmap rn) (nodes_of_objs objs).
  Proof.
    induction objs as [|[k o] r IH]; cbn [rmap map nodes_of_objs fst snd]; [reflexivity|].
    rewrite ro_bytes. destruct (chk_u 32 (blen (o_bytes o))) as [sz|]; cbn [obind option_map]; [|reflexivity].
    fold (rmap ro r). rewrite IH. destruct (nodes_of_objs r); cbn [obind option_map]; reflexivity.
  Qed.
  Lemma from_objects_r objs root :
    from_objects (rmap ro objs) (rho root) = option_map rg (from_objects objs root).
  Proof.
    unfold from_objects. rewrite nodes_of_objs_r. destruct (nodes_of_objs objs); cbn [obind option_map]; reflexivity.
  Qed.

  Lemma push_parent_rn nd id w : push_parent (rn nd) (rho id, w) = rn (push_parent nd (id, w)).
  Proof. unfold push_parent, rn. cbn. rewrite map_app. reflexivity. Qed.
  Lemma add_parents_links_r id : forall ls nodes,
    add_parents_links (rho id) (map rl ls) (rmap rn nodes) = option_map (rmap rn) (add_parents_links id ls nodes).
  Proof.
    induction ls as [|l r IH]; intros nodes; cbn [map add_parents_links]; [reflexivity|].
    cbn [rl rename_link l_obj l_width]. rewrite mfind_rmap.
    destruct (mfind (l_obj l) nodes) as [nd|]; cbn [option_map obind]; [|reflexivity].
    rewrite push_parent_rn, minsert_rmap. apply IH.
  Qed.
  Lemma add_parents_objs_r : forall objs nodes,
    add_parents_objs (rmap ro objs) (rmap rn nodes) = option_map (rmap rn) (add_parents_objs objs nodes).
  Proof.
    induction objs as [|[id o] r IH]; intros nodes; cbn [rmap map add_parents_objs fst snd]; [reflexivity|].
    rewrite ro_links, add_parents_links_r.
    destruct (add_parents_links id (o_links o) nodes); cbn [option_map obind]; [|reflexivity].
    apply IH.
  Qed.
  Lemma update_parents_r g : update_parents (rg g) = option_map rg (update_parents g).
  Proof.
    unfold update_parents. cbn [rg g_parents_invalid g_nodes g_objs g_order g_root].
    destruct (g_parents_invalid g); cbn [negb]; [|reflexivity].
    assert (E : map (fun kv => (fst kv, clear_parents (snd kv))) (rmap rn (g_nodes g))
              = rmap rn (map (fun kv => (fst kv, clear_parents (snd kv))) (g_nodes g))).
    { unfold rmap. rewrite !map_map. apply map_ext. intros [k v]. reflexivity. }
    rewrite E, add_parents_objs_r.
    destruct (add_parents_objs _ _); cbn [option_map obind]; reflexivity.
  Qed.

  (* ---- the sort loops ---- *)
  Lemma bump_r k m : bump (rho k) (rmap (fun c => c) m) = (rmap (fun c => c) (fst (bump k m)), snd (bump k m)).
  Proof.
    unfold bump. rewrite mfind_rmap. destruct (mfind k m) as [c|]; cbn [option_map fst snd];
      rewrite (minsert_rmap (fun c : Z => c)); reflexivity.
  Qed.
  Lemma set_pos_rn nd p : set_pos (rn nd) p = rn (set_pos nd p).
  Proof. reflexivity. Qed.
  Lemma heap_push_id_r x : forall q, heap_push_id (rho x) (map rho q) = map rho (heap_push_id x q).
  Proof.
    induction q as [|y r IH]; cbn [map heap_push_id]; [reflexivity|].
    rewrite rho_leb. destruct (x <=? y); [reflexivity|]. cbn [map]. f_equal. exact IH.
  Qed.
  Definition rq4 (e : Z * Z * Z * Z) : Z * Z * Z * Z := (fst e, rho (snd e)).
  Lemma heap_push_sd_r x : forall q, heap_push_sd (rq4 x) (map rq4 q) = map rq4 (heap_push_sd x q).
  Proof.
    induction q as [|y r IH]; cbn [map heap_push_sd]; [reflexivity|].
    assert (E : sd_before (rq4 x) (rq4 y) = sd_before x y).
    { unfold sd_before, rq4. cbn [fst snd]. rewrite rho_ltb. reflexivity. }
    rewrite E. destruct (sd_before x y); [reflexivity|]. cbn [map]. f_equal. exact IH.
  Qed.
  Lemma modified_distance_rn nd o : modified_distance (rn nd) o = modified_distance nd o.
  Proof. reflexivity. Qed.

  Section Loop.
    Variables (Q St : Type).
    Variable qpop : Q -> option (Z * Q).
    Variable qpush : node -> Z -> St -> Q -> option (Q * St).
    Variable rq : Q -> Q.
    Hypothesis qpop_r : forall q, qpop (rq q) = option_map (fun p => (rho (fst p), rq (snd p))) (qpop q).
    Hypothesis qpush_r : forall nd id s q,
      qpush (rn nd) (rho id) s (rq q) = option_map (fun p => (rq (fst p), snd p)) (qpush nd id s q).

    Lemma sort_links_r nodes : forall ls q removed s,
      sort_links Q St qpush (rmap rn nodes) (map rl ls) (rq q) (rmap (fun c => c) removed) s
      = option_map (fun t => (rq (fst (fst t)), rmap (fun c => c) (snd (fst t)), snd t))
                   (sort_links Q St qpush nodes ls q removed s).
    Proof.
      induction ls as [|l r IH]; intros q removed s; cbn [map sort_links]; [reflexivity|].
      cbn [rl rename_link l_obj]. rewrite bump_r. destruct (bump (l_obj l) removed) as [removed1 seen] eqn:Eb.
      cbn [fst snd]. rewrite mfind_rmap.
      destruct (mfind (l_obj l) nodes) as [nd|]; cbn [option_map obind]; [|reflexivity].
      rewrite nparents_rn. destruct (seen =? nparents nd).
      - rewrite qpush_r. destruct (qpush nd (l_obj l) s q) as [[q1 s1]|]; cbn [option_map obind fst snd]; [|reflexivity].
        apply IH.
      - apply IH.
    Qed.

    Lemma sort_loop_r : forall fuel objs nodes q removed cur order s,
      sort_loop Q St qpop qpush fuel (rmap ro objs) (rmap rn nodes) (rq q) (rmap (fun c => c) removed) cur (map rho order) s
      = option_map (fun t => (rmap rn (fst (fst t)), rmap (fun c => c) (snd (fst t)), map rho (snd t)))
                   (sort_loop Q St qpop qpush fuel objs nodes q removed cur order s).
    Proof.
      induction fuel as [|f IH]; intros objs nodes q removed cur order s; cbn [sort_loop]; rewrite qpop_r;
        destruct (qpop q) as [[id q0]|]; cbn [option_map fst snd]; try reflexivity.
      rewrite !mfind_rmap.
      destruct (mfind id objs) as [next|]; cbn [option_map obind]; [|reflexivity].
      destruct (mfind id nodes) as [nd|]; cbn [option_map obind]; [|reflexivity].
      rewrite ro_bytes. destruct (chk_u 32 (cur + blen (o_bytes next))) as [cur'|]; cbn [obind]; [|reflexivity].
      rewrite set_pos_rn, minsert_rmap, ro_links, sort_links_r.
      destruct (sort_links Q St qpush _ (o_links next) q0 removed s) as [[[q1 removed1] s1]|]; cbn [option_map obind fst snd]; [|reflexivity].
      replace (map rho order ++ [rho id]) with (map rho (order ++ [id])) by (rewrite map_app; reflexivity).
      apply IH.
    Qed.
  End Loop.

  Lemma removed_ok_r nodes : forall removed,
    removed_ok (rmap rn nodes) (rmap (fun c => c) removed) = removed_ok nodes removed.
  Proof.
    induction removed as [|[k c] r IH]; cbn [rmap map removed_ok fst snd]; [reflexivity|].
    rewrite mfind_rmap. destruct (mfind k nodes) as [nd|]; cbn [option_map obind]; [|reflexivity].
    fold (rmap (fun c : Z => c) r). rewrite IH, nparents_rn. reflexivity.
  Qed.
  Lemma total_links_r objs : total_links (rmap ro objs) = total_links objs.
  Proof.
    induction objs as [|[k o] r IH]; cbn [rmap map total_links fold_right fst snd]; [reflexivity|].
    rewrite ro_links, map_length. f_equal. exact IH.
  Qed.

  Lemma sort_kahn_r g : sort_kahn (rg g) = option_map rg (sort_kahn g).
  Proof.
    unfold sort_kahn. cbn [rg g_nodes]. rewrite rmap_length.
    destruct (length (g_nodes g) <=? 1)%nat.
    - cbn [option_map]. f_equal. unfold set_order, rg. cbn. rewrite mkeys_rmap, map_app. reflexivity.
    - rewrite update_parents_r. destruct (update_parents g) as [g1|]; cbn [option_map obind]; [|reflexivity].
      cbn [rg g_nodes g_objs g_root]. rewrite rmap_length, total_links_r.
      unfold kahn_loop.
      pose proof (sort_loop_r (list Z) unit kahn_pop kahn_push (map rho)) as H.
      specialize (H ltac:(intros q; destruct q; reflexivity)).
      specialize (H ltac:(intros nd id s q; unfold kahn_push; cbn [option_map fst snd]; rewrite heap_push_id_r; reflexivity)).
      specialize (H (2 + length (g_nodes g1) + total_links (g_objs g1))%nat (g_objs g1) (g_nodes g1) [g_root g1] [] 0 [] tt).
      cbn [map rmap] in H. rewrite H.
      match goal with |- context [sort_loop ?a ?b ?c ?d ?e ?f ?g ?h ?i ?j ?k ?l] =>
        destruct (sort_loop a b c d e f g h i j k l) as [[[nodes removed] order]|] end;
        cbn [option_map obind fst snd]; [|reflexivity].
      rewrite removed_ok_r. destruct (removed_ok nodes removed) as [ok|]; cbn [obind]; [|reflexivity].
      destruct ok; reflexivity.
  Qed.

  (* ---- update_distances / assign_space_0 / sort_shortest_distance ---- *)
  Lemma zmem_r x l : zmem (rho x) (map rho l) = zmem x l.
  Proof.
    unfold zmem. induction l as [|y r IH]; cbn [map existsb]; [reflexivity|]. rewrite rho_eqb, IH. reflexivity.
  Qed.
  Definition rq2 (e : Z * Z) : Z * Z := (fst e, rho (snd e)).
  Lemma heap_push_du_r x : forall q, heap_push_du (rq2 x) (map rq2 q) = map rq2 (heap_push_du x q).
  Proof.
    induction q as [|y r IH]; cbn [map heap_push_du]; [reflexivity|].
    assert (E : du_lt (rq2 x) (rq2 y) = du_lt x y).
    { unfold du_lt, rq2. cbn [fst snd]. rewrite rho_ltb. reflexivity. }
    rewrite E. destruct (du_lt x y); [|reflexivity]. cbn [map]. f_equal. exact IH.
  Qed.
  Lemma set_dist_rn nd d : set_dist (rn nd) d = rn (set_dist nd d).
  Proof. reflexivity. Qed.
  Lemma set_space_rn nd d : set_space (rn nd) d = rn (set_space nd d).
  Proof. reflexivity. Qed.

  Lemma dist_links_r nd : forall ls visited nodes q,
    dist_links nd (map rl ls) (map rho visited) (rmap rn nodes) (map rq2 q)
    = option_map (fun p => (rmap rn (fst p), map rq2 (snd p))) (dist_links nd ls visited nodes q).
  Proof.
    induction ls as [|l r IH]; intros visited nodes q; cbn [map dist_links]; [reflexivity|].
    cbn [rl rename_link l_obj]. rewrite zmem_r. destruct (zmem (l_obj l) visited); [apply IH|].
    rewrite mfind_rmap. destruct (mfind (l_obj l) nodes) as [child|]; cbn [option_map obind]; [|reflexivity].
    change (n_size (rn child)) with (n_size child). change (n_dist (rn child)) with (n_dist child).
    destruct (chk_u 32 (nd + n_size child)) as [cd|]; cbn [obind]; [|reflexivity].
    destruct (cd <? n_dist child).
    - rewrite set_dist_rn, minsert_rmap. change (cd, rho (l_obj l)) with (rq2 (cd, l_obj l)).
      rewrite heap_push_du_r. apply IH.
    - apply IH.
  Qed.
  Lemma dist_loop_r : forall fuel objs nodes q visited,
    dist_loop fuel (rmap ro objs) (rmap rn nodes) (map rq2 q) (map rho visited)
    = option_map (rmap rn) (dist_loop fuel objs nodes q visited).
  Proof.
    induction fuel as [|f IH]; intros objs nodes q visited; destruct q as [|[d next_id] q0]; cbn [map dist_loop rq2 fst snd]; try reflexivity.
    rewrite zmem_r. destruct (zmem next_id visited); [apply IH|].
    rewrite !mfind_rmap.
    destruct (mfind next_id nodes) as [nd|]; cbn [option_map obind]; [|reflexivity].
    destruct (mfind next_id objs) as [o|]; cbn [option_map obind]; [|reflexivity].
    change (n_dist (rn nd)) with (n_dist nd). rewrite ro_links.
    change (rho next_id :: map rho visited) with (map rho (next_id :: visited)).
    rewrite dist_links_r.
    destruct (dist_links (n_dist nd) (o_links o) (next_id :: visited) nodes q0) as [[n1 q1]|]; cbn [option_map obind fst snd]; [|reflexivity].
    apply IH.
  Qed.
  Lemma set_nodes_r g n : set_nodes (rg g) (rmap rn n) = rg (set_nodes g n).
  Proof. reflexivity. Qed.
  Lemma update_distances_r g : update_distances (rg g) = option_map rg (update_distances g).
  Proof.
    unfold update_distances. cbn [rg g_nodes g_objs g_root].
    assert (E : map (fun kv => (fst kv, set_dist (snd kv) 4294967295)) (rmap rn (g_nodes g))
              = rmap rn (map (fun kv => (fst kv, set_dist (snd kv) 4294967295)) (g_nodes g))).
    { unfold rmap. rewrite !map_map. apply map_ext. intros [k v]. reflexivity. }
    rewrite E, mfind_rmap.
    destruct (mfind (g_root g) _) as [rn0|]; cbn [option_map obind]; [|reflexivity].
    rewrite set_dist_rn, minsert_rmap, total_links_r.
    change [(0, rho (g_root g))] with (map rq2 [(0, g_root g)]). change (@nil Z) with (map rho []).
    rewrite dist_loop_r. destruct (dist_loop _ _ _ _ _); cbn [option_map obind]; reflexivity.
  Qed.

  Lemma space0_loop_r : forall fuel objs nodes stack,
    space0_loop fuel (rmap ro objs) (rmap rn nodes) (map rho stack) = option_map (rmap rn) (space0_loop fuel objs nodes stack).
  Proof.
    induction fuel as [|f IH]; intros objs nodes stack; destruct stack as [|next st]; cbn [map space0_loop]; try reflexivity.
    rewrite !mfind_rmap. destruct (mfind next nodes) as [nd|]; cbn [option_map]; [|apply IH].
    change (n_space (rn nd)) with (n_space nd). destruct (negb (n_space nd =? 0)); [|apply IH].
    rewrite set_space_rn, minsert_rmap.
    assert (E : map l_obj (filter (fun l => negb (l_width l =? 4))
                  (match option_map ro (mfind next objs) with Some o => o_links o | None => [] end))
              = map rho (map l_obj (filter (fun l => negb (l_width l =? 4))
                  (match mfind next objs with Some o => o_links o | None => [] end)))).
    { destruct (mfind next objs) as [o|]; cbn [option_map]; [|reflexivity]. rewrite ro_links.
      induction (o_links o) as [|l ls IHl]; cbn [map filter]; [reflexivity|].
      change (l_width (rl l)) with (l_width l). destruct (negb (l_width l =? 4)); cbn [map]; [f_equal|]; exact IHl. }
    rewrite E, <- map_app. apply IH.
  Qed.
  Lemma assign_space_0_r g : assign_space_0 (rg g) = option_map rg (assign_space_0 g).
  Proof.
    unfold assign_space_0. cbn [rg g_nodes g_objs g_root]. rewrite total_links_r.
    change [rho (g_root g)] with (map rho [g_root g]). rewrite space0_loop_r.
    destruct (space0_loop _ _ _ _); cbn [option_map obind]; reflexivity.
  Qed.

  Lemma sort_shortest_distance_r g : sort_shortest_distance (rg g) = option_map rg (sort_shortest_distance g).
  Proof.
    unfold sort_shortest_distance. rewrite update_parents_r.
    destruct (update_parents g) as [g1|]; cbn [option_map obind]; [|reflexivity].
    rewrite update_distances_r. destruct (update_distances g1) as [g2|]; cbn [option_map obind]; [|reflexivity].
    rewrite assign_space_0_r. destruct (assign_space_0 g2) as [g3|]; cbn [option_map obind]; [|reflexivity].
    cbn [rg g_nodes g_objs g_root]. rewrite rmap_length, total_links_r.
    unfold sd_loop.
    pose proof (sort_loop_r (list (Z * Z * Z * Z)) Z sd_pop sd_push (map rq4)) as H.
    specialize (H ltac:(intros q; destruct q as [|[? ?] ?]; reflexivity)).
    specialize (H ltac:(intros nd id s q; unfold sd_push; destruct (chk_u 32 (s + 1)); cbn [obind option_map fst snd]; [|reflexivity];
                        rewrite modified_distance_rn;
                        change (modified_distance nd s, rho id) with (rq4 (modified_distance nd s, id));
                        rewrite heap_push_sd_r; reflexivity)).
    specialize (H (2 + length (g_nodes g3) + total_links (g_objs g3))%nat (g_objs g3) (g_nodes g3) [((0, 0, 0), g_root g3)] [] 0 [] 1).
    cbn [map rmap] in H. unfold rq4 in H. cbn [fst snd] in H. rewrite H.
    match goal with |- context [sort_loop ?a ?b ?c ?d ?e ?f ?g ?h ?i ?j ?k ?l] =>
      destruct (sort_loop a b c d e f g h i j k l) as [[[nodes removed] order]|] end;
      cbn [option_map obind fst snd]; [|reflexivity].
    rewrite removed_ok_r. destruct (removed_ok nodes removed) as [ok|]; cbn [obind]; [|reflexivity].
    destruct ok; reflexivity.
  Qed.

  (* ---- has_overflows / basic_sort / pack_objects ---- *)
  Lemma overflow_links_r nodes parent : forall ls,
    overflow_links (rmap rn nodes) (rn parent) (map rl ls) = overflow_links nodes parent ls.
  Proof.
    induction ls as [|l r IH]; cbn [map overflow_links]; [reflexivity|].
    cbn [rl rename_link l_obj l_width]. rewrite mfind_rmap.
    destruct (mfind (l_obj l) nodes) as [child|]; cbn [option_map obind]; [|reflexivity].
    change (n_pos (rn child)) with (n_pos child). change (n_pos (rn parent)) with (n_pos parent).
    destruct (chk_u 32 (n_pos child - n_pos parent)) as [rel|]; cbn [obind]; [|reflexivity].
    destruct (max_value (l_width l) <? rel); [reflexivity|exact IH].
  Qed.
  Lemma overflow_objs_r nodes : forall objs, overflow_objs (rmap rn nodes) (rmap ro objs) = overflow_objs nodes objs.
  Proof.
    induction objs as [|[pid o] r IH]; cbn [rmap map overflow_objs fst snd]; [reflexivity|].
    rewrite mfind_rmap. destruct (mfind pid nodes) as [parent|]; cbn [option_map obind]; [|reflexivity].
    rewrite ro_links, overflow_links_r. destruct (overflow_links nodes parent (o_links o)) as [b|]; cbn [obind]; [|reflexivity].
    destruct b; [reflexivity|exact IH].
  Qed.
  Lemma has_overflows_r g : has_overflows (rg g) = has_overflows g.
  Proof. unfold has_overflows. apply overflow_objs_r. Qed.

  Lemma basic_sort_r g : basic_sort (rg g) = option_map (fun p => (rg (fst p), snd p)) (basic_sort g).
  Proof.
    unfold basic_sort. rewrite sort_kahn_r. destruct (sort_kahn g) as [g1|]; cbn [option_map obind]; [|reflexivity].
    rewrite has_overflows_r. destruct (has_overflows g1) as [ov|]; cbn [obind]; [|reflexivity].
    destruct (negb ov); [reflexivity|].
    rewrite sort_shortest_distance_r. destruct (sort_shortest_distance g1) as [g2|]; cbn [option_map obind]; [|reflexivity].
    rewrite has_overflows_r. destruct (has_overflows g2); reflexivity.
  Qed.
  Lemma has_wide_link_r objs : has_wide_link (rmap ro objs) = has_wide_link objs.
  Proof.
    unfold has_wide_link. induction objs as [|[k o] r IH]; cbn [rmap map existsb fst snd]; [reflexivity|].
    fold (rmap ro r). rewrite IH. f_equal. rewrite ro_links.
    induction (o_links o) as [|l ls IHl]; cbn [map existsb]; [reflexivity|]. rewrite IHl. reflexivity.
  Qed.
  Lemma pack_objects_r g : pack_objects (rg g) = option_map (fun p => (rg (fst p), snd p)) (pack_objects g).
  Proof.
    unfold pack_objects. rewrite basic_sort_r. destruct (basic_sort g) as [[g1 ok]|]; cbn [option_map obind fst snd]; [|reflexivity].
    destruct ok; [reflexivity|].
    cbn [rg g_objs]. rewrite has_wide_link_r. destruct (has_wide_link (g_objs g1)); [reflexivity|].
    fold (rg g1). rewrite sort_shortest_distance_r.
    destruct (sort_shortest_distance g1) as [g2|]; cbn [option_map obind]; [|reflexivity].
    rewrite has_overflows_r. destruct (has_overflows g2) as [ov|]; cbn [obind]; [|reflexivity].
    destruct (negb ov); reflexivity.
  Qed.

  (* ---- serialize / dump ---- *)
  Lemma renamed_objs_rmap objs : renamed_objs rho objs (rmap ro objs).
  Proof. intros id. apply mfind_rmap. Qed.
  Lemma serialize_r g : serialize (rg g) = serialize g.
  Proof.
    unfold serialize. cbn [rg g_objs g_order].
    apply serialize_rename_invariant; [exact rho_inj|apply renamed_objs_rmap].
  Qed.
  Lemma dump_graph_r objs root : dump_graph (rmap ro objs) (rho root) = dump_graph objs root.
  Proof.
    unfold dump_graph. rewrite from_objects_r. destruct (from_objects objs root) as [g|]; cbn [option_map]; [|reflexivity].
    rewrite pack_objects_r. destruct (pack_objects g) as [[g' r]|]; cbn [option_map fst snd]; [|reflexivity].
    destruct r; try reflexivity. rewrite serialize_r. reflexivity.
  Qed.

  Theorem dump_table_r d ids : dump_table d (map rho ids) = dump_table d ids.
  Proof.
    unfold dump_table, dump_table_perm.
    change (mkStore [] (map rho ids)) with (rstore (mkStore [] ids)).
    rewrite add_table_r. destruct (add_table (S (length d)) d 0%nat (mkStore [] ids)) as [[st root]|]; cbn [option_map rsi fst snd]; [|reflexivity].
    unfold objs_of_store. cbn [rstore st_objs].
    change (@nil (Z * obj)) with (rmap ro (@nil (Z * obj))) at 1.
    rewrite objs_of_store_r. apply dump_graph_r.
  Qed.
End Equiv.

(* ------------------------------------------------------------------------------------------ *)
(* any strictly increasing id stream is the image of 0,1,2,... under a strictly monotone map   *)

Fixpoint incr (l : list Z) : Prop :=
  match l with
  | x :: ((y :: _) as r) => x < y /\ incr r
  | _ => True
  end.

Fixpoint rho_of (ids : list Z) (k : Z) : Z :=
  match ids with
  | [] => k
  | x :: r => match r with
              | [] => x + k
              | _ :: _ => if k <=? 0 then x + k else rho_of r (k - 1)
              end
  end.

Lemma rho_of_hd x r : rho_of (x :: r) 0 = x.
Proof. destruct r; cbn; lia. Qed.

Lemma rho_of_mono : forall ids, incr ids -> forall a b, a < b -> rho_of ids a < rho_of ids b.
Proof.
  induction ids as [|x r IH]; intros Hinc a b Hab; [cbn; lia|].
  destruct r as [|y r']; [cbn; lia|].
  destruct Hinc as (Hxy & Hinc). specialize (IH Hinc).
  assert (Hge : forall j, 0 <= j -> y <= rho_of (y :: r') j).
  { intros j Hj. destruct (Z.eq_dec j 0) as [->|Hne]; [rewrite rho_of_hd; lia|].
    assert (0 < j) by lia. apply IH in H. rewrite rho_of_hd in H. lia. }
  change (rho_of (x :: y :: r') a) with (if a <=? 0 then x + a else rho_of (y :: r') (a - 1)).
  change (rho_of (x :: y :: r') b) with (if b <=? 0 then x + b else rho_of (y :: r') (b - 1)).
  destruct (a <=? 0) eqn:Ea; destruct (b <=? 0) eqn:Eb; try lia.
  - specialize (Hge (b - 1)). lia.
  - apply IH. lia.
Qed.

Definition canonical (n : nat) : list Z := map Z.of_nat (seq 0 n).

Lemma map_rho_of_canonical : forall ids, map (rho_of ids) (canonical (length ids)) = ids.
Proof.
  induction ids as [|x r IH]; [reflexivity|].
  unfold canonical. cbn [length seq map]. rewrite rho_of_hd. f_equal.
  destruct r as [|y r']; [reflexivity|].
  rewrite <- seq_shift, map_map, map_map. rewrite <- IH at 2. unfold canonical. rewrite map_map.
  apply map_ext. intros k.
  change (rho_of (x :: y :: r') (Z.of_nat (S k)))
    with (if Z.of_nat (S k) <=? 0 then x + Z.of_nat (S k) else rho_of (y :: r') (Z.of_nat (S k) - 1)).
  destruct (Z.of_nat (S k) <=? 0) eqn:E; [lia|]. f_equal. lia.
Qed.

(* pack_equivariant for the modelled packer: the bytes (or the failure) do not depend on the id stream *)
Theorem dump_table_stream_independent d ids : incr ids ->
  dump_table d ids = dump_table d (canonical (length ids)).
Proof.
  intros H. rewrite <- (map_rho_of_canonical ids) at 1.
  apply dump_table_r. apply rho_of_mono. exact H.
Qed.

Theorem dump_table_any_two_streams d ids ids' : incr ids -> incr ids' -> length ids = length ids' ->
  dump_table d ids = dump_table d ids'.
Proof.
  intros H H' Hl. rewrite (dump_table_stream_independent d ids H), (dump_table_stream_independent d ids' H'), Hl.
  reflexivity.
Qed.

(* the ids one thread obtains from a shared fetch_add counter: the counter starts anywhere ([base]: unrelated
   earlier compilations) and other threads' draws are interleaved arbitrarily ([picks]: the strictly increasing
   positions of this thread's draws in the global sequence of draws) *)
Fixpoint incr_nat (l : list nat) : Prop :=
  match l with
  | x :: ((y :: _) as r) => (x < y)%nat /\ incr_nat r
  | _ => True
  end.
Lemma incr_of_picks base : forall picks, incr_nat picks -> incr (map (fun i => base + Z.of_nat i) picks).
Proof.
  induction picks as [|x r IH]; intros H; [exact I|].
  destruct r as [|y r']; [exact I|]. destruct H as (Hxy & H). split; [lia|]. apply IH. exact H.
Qed.
Theorem concurrent_history_independent d base picks : incr_nat picks ->
  dump_table d (map (fun i => base + Z.of_nat i) picks) = dump_table d (canonical (length picks)).
Proof.
  intros H. rewrite (dump_table_stream_independent d _ (incr_of_picks base picks H)). rewrite map_length. reflexivity.
Qed.
