(* C07 — non-vacuity examples *)
From Coq Require Import ZArith List Lia Permutation.
From FV Require Import Lib.RustInt C05.Model C05.Proofs C05.Examples C07.Proofs C07.Equiv C07.PromoteModel C07.Promote C07.IdGen C07.IdCounter C07.SharedPtsModel C07.SharedPts.
Import ListNotations.
Open Scope Z_scope.

(* an order-REVERSING injective renaming of the example object map of C05/Examples.v *)
Definition ex_rho (x : Z) : Z := 10 - x.
Definition ex_objs' : zmap obj :=
  [(8, mkObj [9; 255; 255; 8] [mkLink 1 2 9 0]); (9, mkObj [7; 7] [])].

Example c07_renamed_nonvacuous : renamed_objs ex_rho ex_objs ex_objs'.
Proof.
  intros id. unfold ex_rho, ex_objs, ex_objs'.
  destruct (Z.eq_dec id 1) as [->|H1]; [reflexivity|].
  destruct (Z.eq_dec id 2) as [->|H2]; [reflexivity|].
  cbn [mfind]. destruct (10 - id =? 8) eqn:E1; [lia|]. destruct (10 - id =? 9) eqn:E2; [lia|].
  destruct (id =? 1) eqn:E3; [lia|]. destruct (id =? 2) eqn:E4; [lia|]. reflexivity.
Qed.
Example c07_rename_bytes_equal :
  serialize_ord ex_objs' (map ex_rho [2; 1]) = serialize_ord ex_objs [2; 1] /\
  serialize_ord ex_objs [2; 1] = Some [9; 0; 4; 8; 7; 7].
Proof. split; reflexivity. Qed.

(* a permutation of a store with distinct ids *)
Example c07_perm_nonvacuous :
  let l := [(mkObj [1] [], 5); (mkObj [2] [], 3); (mkObj [3] [], 9)] in
  objs_of_store l = objs_of_store (rev l) /\ Permutation l (rev l) /\ NoDup (map snd l).
Proof.
  cbn. split; [reflexivity|]. split.
  - apply (Permutation_rev [(mkObj [1] [], 5); (mkObj [2] [], 3); (mkObj [3] [], 9)]).
  - repeat constructor; cbn; intuition lia.
Qed.

(* the model's bytes at different id streams (counter starts, strides, gaps): identical.
   A graph that needs the shortest-distance sort (ids take part in heap tie-breaks). *)
Definition ex_dag2 : dag :=
  [ [ILit [1;1]; ILink 2 1%nat; ILink 2 2%nat; ILink 3 3%nat]; [ILit [2]; IRun 7 65526];
    [ILit [3]; IRun 9 100; ILink 2 3%nat]; [ILit [4]; IRun 5 100] ].
Definition same_bytes (a b : result) : bool :=
  match a, b with RBytes x, RBytes y => list_eqb Z.eqb x y | _, _ => false end.
Example c07_id_streams_agree :
  same_bytes (dump_table ex_dag2 (id_stream 0 1 20)) (dump_table ex_dag2 (id_stream 123456789 7 20)) = true /\
  same_bytes (dump_table ex_dag2 (id_stream 0 1 20))
             (dump_table ex_dag2 [3; 4; 1000; 1001; 70000; 70001; 70002; 70003]) = true.
Proof. split; vm_compute; reflexivity. Qed.

(* hypotheses of c07_counter_independent / c07_concurrent_history_independent are satisfiable *)
Example c07_incr_nonvacuous :
  incr [3; 4; 1000; 1001; 70000] /\ incr (id_stream 123456789 7 5) /\ length (id_stream 123456789 7 5) = 5%nat /\
  incr_nat [2; 5; 6; 40]%nat /\
  map (fun i => 1000 + Z.of_nat i) [2; 5; 6; 40]%nat = [1002; 1005; 1006; 1040] /\
  (forall a b, a < b -> (fun x => 3 * x + 7) a < (fun x => 3 * x + 7) b).
Proof. repeat split; cbn [incr incr_nat id_stream map seq]; try lia; try reflexivity; intros; lia. Qed.

(* ---- round 3: promotion choice ---- *)
(* five lookups, one small with a better score and four equal-score ones of 24 000 bytes: the cut-off falls
   inside the tied group; lookups 5 and 9 (the two tied ones with the largest ids) are promoted *)
Definition ex_lookups : list lookup :=
  [mkLk 9 41666 1 24000 8 12000; mkLk 2 41666 1 24000 8 12000; mkLk 4 500000 1 2000 8 1000;
   mkLk 5 41666 1 24000 8 12000; mkLk 3 41666 1 24000 8 12000].
Example c07_promotion_example :
  promote 12 ex_lookups = Some [5; 9] /\
  promote 12 (rev ex_lookups) = Some [5; 9] /\ Permutation ex_lookups (rev ex_lookups) /\ NoDup (map lk_id ex_lookups) /\
  promote 12 (map (ren (fun i => 3 * i + 100)) ex_lookups) = Some [115; 127] /\
  map lk_id (sort_by_key (btree_order ex_lookups)) = [4; 2; 3; 5; 9] /\
  (* delivered in another order (no canonical enumeration) other lookups are promoted *)
  promote_perm (@rev lookup) 12 ex_lookups = Some [3; 2] /\
  check_pcase (PCase 12 ex_lookups [5; 9]) = true /\ check_pcase (PCase 12 ex_lookups [2; 3]) = false.
Proof.
  repeat split; try (vm_compute; reflexivity).
  - apply Permutation_rev.
  - cbn. repeat constructor; cbn; intuition lia.
Qed.

(* ---- round 4: id counter ---- *)
(* at the draw where a 32-bit counter would wrap the real (generated) widths keep ids in creation order; hypotheses of
   c07_process_history_independent are satisfiable *)
Example c07_id_counter_example :
  id_of_draw (2 ^ 32 - 1) < id_of_draw (2 ^ 32) /\ id_of_draw (2 ^ 32) = 2 ^ 32 /\
  id_of_draw_bits 32 (2 ^ 32) < id_of_draw_bits 32 (2 ^ 32 - 1) /\
  incr_nat [3; 4; 100; 700]%nat /\ (forall i, In i [3; 4; 100; 700]%nat -> Z.of_nat i < feasible_bound).
Proof.
  split; [vm_compute; reflexivity|]. split; [vm_compute; reflexivity|]. split; [vm_compute; reflexivity|].
  split; [cbn [incr_nat]; lia|].
  intros i Hi. cbn [In] in Hi.
  destruct Hi as [<-|[<-|[<-|[<-|[]]]]]; vm_compute; reflexivity.
Qed.

(* ---- round 4: shared point numbers ---- *)
(* 3-way tie: the first-seen packing wins; with a strict winner (three uses of {2,5}) the hypotheses of
   c07_shared_points_strict_winner_order_independent hold and the reversed map gives the same answer *)
Example c07_shared_points_example :
  compute_shared_points [(Some [8; 11], 4); (Some [14; 17], 4); (Some [2; 5], 4); (Some [14; 17], 4); (Some [2; 5], 4); (Some [8; 11], 4)]
    = Some (Some [8; 11]) /\
  compute_shared_points_perm (@rev cand) [(Some [8; 11], 4); (Some [2; 5], 4); (Some [2; 5], 4); (Some [2; 5], 4); (Some [8; 11], 4)]
    = Some (Some [2; 5]) /\
  compute_shared_points [(Some [8; 11], 4); (None, 1)] = None /\
  check_scase (SCase tie_tuples (Some (Some [1; 3]))) = true /\ check_scase (SCase tie_tuples (Some (Some [2; 4]))) = false.
Proof. repeat split; vm_compute; reflexivity. Qed.
