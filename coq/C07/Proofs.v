(* C07 — determinism lemmas about the C05 model: independence of hash-map iteration order,
   invariance of the serializer under injective renamings of object ids. *)
From Coq Require Import ZArith List Bool Lia Permutation.
From FV Require Import Lib.RustInt C05.Model C05.Proofs.
Import ListNotations.
Open Scope Z_scope.

(* ------------------------------------------------------------------------------------------ *)
(* hash-map iteration order: Graph::from_obj_store                                             *)

Lemma minsert_comm {A} k1 k2 (v1 v2 : A) : k1 <> k2 -> forall m,
  minsert k1 v1 (minsert k2 v2 m) = minsert k2 v2 (minsert k1 v1 m).
Proof.
  intros Hne. induction m as [|[k v] r IH].
  - cbn. destruct (k1 <? k2) eqn:E1; destruct (k2 <? k1) eqn:E2;
      destruct (k1 =? k2) eqn:E3; destruct (k2 =? k1) eqn:E4; try lia; reflexivity.
  - cbn [minsert].
    destruct (k2 <? k) eqn:A2; destruct (k1 <? k) eqn:A1; cbn [minsert];
      try rewrite A1; try rewrite A2;
      destruct (k1 <? k2) eqn:E1; destruct (k2 <? k1) eqn:E2;
      destruct (k1 =? k2) eqn:E3; destruct (k2 =? k1) eqn:E4; try lia;
      destruct (k2 =? k) eqn:B2; destruct (k1 =? k) eqn:B1; cbn [minsert];
      try rewrite A1; try rewrite A2; try rewrite B1; try rewrite B2;
      try rewrite E1; try rewrite E2; try rewrite E3; try rewrite E4; try lia; try reflexivity;
      try (rewrite IH; reflexivity).
Qed.

Lemma fold_minsert_perm : forall (l l' : list (obj * Z)), Permutation l l' -> NoDup (map snd l) ->
  forall m, fold_left (fun m kv => minsert (snd kv) (fst kv) m) l m =
            fold_left (fun m kv => minsert (snd kv) (fst kv) m) l' m.
Proof.
  induction 1 as [| x l l' HP IH | x y l | l l' l'' HP1 IH1 HP2 IH2]; intros Hnd m.
  - reflexivity.
  - cbn. inversion Hnd; subst. apply IH. assumption.
  - cbn. inversion Hnd as [|? ? Hn1 Hnd1]; subst. f_equal.
    apply minsert_comm. intro E. apply Hn1. left. exact E.
  - rewrite IH1 by assumption. apply IH2.
    eapply Permutation_NoDup; [apply Permutation_map; exact HP1|exact Hnd].
Qed.

(* The BTreeMap built by from_obj_store does not depend on the order in which the HashMap of the
   ObjectStore is iterated *)
Lemma objs_of_store_perm l l' : Permutation l l' -> NoDup (map snd l) -> objs_of_store l = objs_of_store l'.
Proof. intros HP Hnd. unfold objs_of_store. apply fold_minsert_perm; assumption. Qed.

Lemma dump_table_perm_independent (perm : list (obj * Z) -> list (obj * Z)) d ids :
  (forall l, Permutation l (perm l)) ->
  (forall st root, add_table (S (length d)) d 0%nat (mkStore [] ids) = Some (st, root) -> NoDup (map snd (st_objs st))) ->
  dump_table_perm perm d ids = dump_table d ids.
Proof.
  intros HP Hnd. unfold dump_table, dump_table_perm.
  destruct (add_table (S (length d)) d 0%nat (mkStore [] ids)) as [[st root]|] eqn:E; [|reflexivity].
  rewrite <- (objs_of_store_perm (st_objs st) (perm (st_objs st))); auto. eapply Hnd. reflexivity.
Qed.

(* ------------------------------------------------------------------------------------------ *)
(* hash-map iteration order: the removed_edges check at the end of both sorts                  *)

Lemma removed_ok_perm nodes r r' : Permutation r r' -> removed_ok nodes r = removed_ok nodes r'.
Proof.
  induction 1 as [| [k s] l l' HP IH | [k1 s1] [k2 s2] l | l l' l'' HP1 IH1 HP2 IH2].
  - reflexivity.
  - cbn [removed_ok]. rewrite IH. reflexivity.
  - cbn [removed_ok].
    destruct (mfind k1 nodes) as [n1|]; destruct (mfind k2 nodes) as [n2|]; cbn [obind]; try reflexivity.
    all: destruct (removed_ok nodes l) as [b|]; cbn [obind]; try reflexivity.
    all: f_equal; destruct (s1 =? nparents n1); destruct (s2 =? nparents n2); destruct b; reflexivity.
  - rewrite IH1. exact IH2.
Qed.

(* ------------------------------------------------------------------------------------------ *)
(* serialize is invariant under injective renaming of ids                                      *)

Definition rename_link (rho : Z -> Z) (l : link) : link :=
  mkLink (l_pos l) (l_width l) (rho (l_obj l)) (l_adj l).
Definition rename_obj (rho : Z -> Z) (o : obj) : obj :=
  mkObj (o_bytes o) (map (rename_link rho) (o_links o)).

(* [objs'] is [objs] with keys and link targets renamed by [rho] (in whatever key order) *)
Definition renamed_objs (rho : Z -> Z) (objs objs' : zmap obj) : Prop :=
  forall id, mfind (rho id) objs' = option_map (rename_obj rho) (mfind id objs).

Section Rename.
  Variable rho : Z -> Z.
  Hypothesis rho_inj : forall a b, rho a = rho b -> a = b.

  Definition offs_rel (offs offs' : zmap Z) : Prop := forall id, mfind (rho id) offs' = mfind id offs.

  Lemma offs_rel_insert offs offs' x off : offs_rel offs offs' ->
    offs_rel (minsert x off offs) (minsert (rho x) off offs').
  Proof.
    intros H id. destruct (Z.eq_dec id x) as [->|Hne].
    - rewrite !mfind_minsert_same. reflexivity.
    - rewrite mfind_minsert_other by (intro E; apply Hne; symmetry; apply rho_inj; exact E).
      rewrite mfind_minsert_other by (intro E; apply Hne; symmetry; exact E). apply H.
  Qed.

  Lemma pass1_rename objs objs' : renamed_objs rho objs objs' -> forall ord off offs offs' out,
    offs_rel offs offs' ->
    match pass1 objs ord off offs out, pass1 objs' (map rho ord) off offs' out with
    | Some (o1, b1), Some (o2, b2) => offs_rel o1 o2 /\ b1 = b2
    | None, None => True
    | _, _ => False
    end.
  Proof.
    intros Hren. induction ord as [|x r IH]; intros off offs offs' out Hrel; cbn [map pass1].
    - auto.
    - rewrite (Hren x). destruct (mfind x objs) as [o|]; cbn [option_map obind]; [|exact I].
      cbn [rename_obj o_bytes].
      destruct (chk_u 32 (off + blen (o_bytes o))) as [off'|]; cbn [obind]; [|exact I].
      apply IH. apply offs_rel_insert. exact Hrel.
  Qed.

  Lemma pass2_links_rename offs offs' head : offs_rel offs offs' -> forall ls out,
    pass2_links offs' head (map (rename_link rho) ls) out = pass2_links offs head ls out.
  Proof.
    intros Hrel. induction ls as [|l r IH]; intros out; cbn [map pass2_links]; [reflexivity|].
    cbn [rename_link l_obj l_adj l_pos l_width]. rewrite (Hrel (l_obj l)).
    destruct (mfind (l_obj l) offs) as [a|]; cbn [obind]; [|reflexivity].
    destruct (chk_u 32 (head + l_adj l)) as [b|]; cbn [obind]; [|reflexivity].
    destruct (chk_u 32 (a - b)) as [rel|]; cbn [obind]; [|reflexivity].
    destruct (chk_u 32 (head + l_pos l)) as [bp|]; cbn [obind]; [|reflexivity].
    destruct (offset_bytes (l_width l) rel) as [bs|]; cbn [obind]; [|reflexivity].
    destruct (write_at out bp bs) as [out'|]; cbn [obind]; [|reflexivity].
    apply IH.
  Qed.

  Lemma pass2_rename objs objs' offs offs' : renamed_objs rho objs objs' -> offs_rel offs offs' ->
    forall ord head out, pass2 objs' offs' (map rho ord) head out = pass2 objs offs ord head out.
  Proof.
    intros Hren Hrel. induction ord as [|x r IH]; intros head out; cbn [map pass2]; [reflexivity|].
    rewrite (Hren x). destruct (mfind x objs) as [o|]; cbn [option_map obind]; [|reflexivity].
    cbn [rename_obj o_links o_bytes]. rewrite (pass2_links_rename offs offs' head Hrel).
    destruct (pass2_links offs head (o_links o) out) as [out'|]; cbn [obind]; [|reflexivity].
    destruct (chk_u 32 (head + blen (o_bytes o))) as [h|]; cbn [obind]; [|reflexivity].
    apply IH.
  Qed.

  Lemma serialize_rename objs objs' ord : renamed_objs rho objs objs' ->
    serialize_ord objs' (map rho ord) = serialize_ord objs ord.
  Proof.
    intros Hren. unfold serialize_ord. destruct ord as [|x r]; [reflexivity|].
    change (map rho (x :: r)) with (rho x :: map rho r).
    change (rho x :: map rho r) with (map rho (x :: r)).
    pose proof (pass1_rename objs objs' Hren (x :: r) 0 [] [] [] (fun id => eq_refl)) as H.
    destruct (pass1 objs (x :: r) 0 [] []) as [[o1 b1]|];
      destruct (pass1 objs' (map rho (x :: r)) 0 [] []) as [[o2 b2]|]; try contradiction.
    - destruct H as (Hrel & ->). cbn [obind fst snd map]. 
      change (rho x :: map rho r) with (map rho (x :: r)). apply pass2_rename; assumption.
    - cbn [map]. reflexivity.
  Qed.
End Rename.

Lemma serialize_rename_invariant (rho : Z -> Z) objs objs' ord :
  (forall a b, rho a = rho b -> a = b) -> renamed_objs rho objs objs' ->
  serialize_ord objs' (map rho ord) = serialize_ord objs ord.
Proof. intros Hinj Hren. apply serialize_rename; assumption. Qed.

(* ------------------------------------------------------------------------------------------ *)
(* the ids held by the store are distinct draws of the counter                                  *)

Definition store_inv (st : store) : Prop := NoDup (map snd (st_objs st) ++ st_ids st).

Lemma store_add_inv st d st' id : store_add st d = Some (st', id) -> store_inv st -> store_inv st'.
Proof.
  unfold store_add, store_inv. destruct (store_find d (st_objs st)) as [i|].
  - intros [= <- <-]. auto.
  - destruct (st_ids st) as [|i rest] eqn:E; [discriminate|]. intros [= <- <-] H.
    cbn [st_objs st_ids]. rewrite map_app. cbn [map snd]. rewrite <- app_assoc. exact H.
Qed.

Lemma add_table_inv : forall fuel d idx st st' id,
  add_table fuel d idx st = Some (st', id) -> store_inv st -> store_inv st'.
Proof.
  induction fuel as [|f IH]; intros d idx st st' id H Hinv; [discriminate|].
  cbn [add_table] in H. destruct (nth_error d idx) as [items|]; [|discriminate].
  match type of H with context [(fix write_items (its : list item) (data : obj) (st : store) {struct its} := _) items _ _] =>
    set (wi := fix write_items (its : list item) (data : obj) (st : store) {struct its} : option (obj * store) :=
            match its with
            | [] => Some (data, st)
            | IRun b n :: r => write_items r (mkObj (o_bytes data ++ repeat b (Z.to_nat n)) (o_links data)) st
            | ILit l :: r => write_items r (mkObj (o_bytes data ++ l) (o_links data)) st
            | ILink w c :: r =>
                do sc <- add_table f d c st;;
                write_items r (add_offset data (snd sc) w 0) (fst sc)
            end) in H end.
  assert (Hwi : forall its data s data' s', wi its data s = Some (data', s') -> store_inv s -> store_inv s').
  { induction its as [|it r IHr]; intros data s data' s' Hw Hs.
    - cbn in Hw. inversion Hw; subst. exact Hs.
    - destruct it as [b n|l|w c]; cbn in Hw.
      + eapply IHr; eauto.
      + eapply IHr; eauto.
      + destruct (add_table f d c s) as [[s1 i1]|] eqn:Ea; cbn [obind] in Hw; [|discriminate].
        eapply IHr; [exact Hw|]. eapply IH; eauto. }
  destruct (wi items (mkObj [] []) st) as [[data s1]|] eqn:Ew; cbn [obind] in H; [|discriminate].
  cbn [fst snd] in H. eapply store_add_inv; [exact H|]. eapply Hwi; eauto.
Qed.

Lemma nodup_app_l {A} (a b : list A) : NoDup (a ++ b) -> NoDup a.
Proof.
  induction a as [|x r IH]; cbn; intros H; [constructor|].
  inversion H; subst. constructor; [|apply IH; assumption].
  intro Hin. apply H2. apply in_or_app. left. exact Hin.
Qed.

Lemma store_ids_nodup d ids st root : NoDup ids ->
  add_table (S (length d)) d 0%nat (mkStore [] ids) = Some (st, root) -> NoDup (map snd (st_objs st)).
Proof.
  intros Hnd H. pose proof (add_table_inv _ _ _ _ _ _ H) as Hi.
  unfold store_inv in Hi. cbn [st_objs st_ids map app] in Hi. specialize (Hi Hnd).
  apply nodup_app_l in Hi. exact Hi.
Qed.

Theorem dump_table_hash_order_independent (perm : list (obj * Z) -> list (obj * Z)) d ids :
  (forall l, Permutation l (perm l)) -> NoDup ids -> dump_table_perm perm d ids = dump_table d ids.
Proof.
  intros HP Hnd. apply dump_table_perm_independent; [exact HP|].
  intros st root H. eapply store_ids_nodup; eauto.
Qed.
