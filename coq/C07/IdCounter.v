(* C07 round 4 — the process-wide id counter (write-fonts/src/graph.rs: OBJECT_COUNTER, ObjectId::next).
   The widths / start / step come from coq/C07/IdGen.v, GENERATED from the Rust source by
   translators/c07_idcounter.py (run by the driver before every build: the tie is checked on every run).

   Model: the n-th `fetch_add(counter_step)` of the process (n = 0,1,2,…, whichever thread performs it) returns
   the counter value before the add, modulo 2^counter_bits (atomic add wraps), stored in a `u<field_bits>`. *)
From Coq Require Import ZArith List Lia.
From FV Require Import Lib.RustInt C05.Model C07.Equiv C07.IdGen.
Import ListNotations.
Open Scope Z_scope.

Definition id_bits : Z := Z.min counter_bits field_bits.

(* the id handed out by the n-th draw of the process *)
Definition id_of_draw (n : Z) : Z := ((counter_start + counter_step * n) mod 2 ^ counter_bits) mod 2 ^ field_bits.

(* more draws than any process can perform: 2^62 draws at one per nanosecond take 146 years *)
Definition feasible_bound : Z := 2 ^ 62.

Lemma ids_never_wrap : 2 ^ id_bits > feasible_bound.
Proof. vm_compute. reflexivity. Qed.

Lemma counter_shape : counter_start = 0 /\ counter_step = 1.
Proof. split; reflexivity. Qed.

(* below the feasible bound the id IS the draw number *)
Lemma id_of_draw_id n : 0 <= n < feasible_bound -> id_of_draw n = n.
Proof.
  intros H. unfold id_of_draw. destruct counter_shape as [-> ->].
  pose proof ids_never_wrap as W. unfold id_bits in W.
  assert (Hc : feasible_bound < 2 ^ counter_bits).
  { eapply Z.lt_le_trans; [apply Z.gt_lt, W|]. apply Z.pow_le_mono_r; [lia|apply Z.le_min_l]. }
  assert (Hf : feasible_bound < 2 ^ field_bits).
  { eapply Z.lt_le_trans; [apply Z.gt_lt, W|]. apply Z.pow_le_mono_r; [lia|apply Z.le_min_r]. }
  rewrite Z.add_0_l, Z.mul_1_l. rewrite (Z.mod_small n (2 ^ counter_bits)) by lia. apply Z.mod_small. lia.
Qed.

(* ids are a strictly monotone image of creation order, over the whole (feasible) life of the process *)
Lemma ids_strictly_monotone a b : 0 <= a -> a < b -> b < feasible_bound -> id_of_draw a < id_of_draw b.
Proof. intros. rewrite !id_of_draw_id by lia. lia. Qed.

Lemma map_id_of_draw picks : (forall i, In i picks -> Z.of_nat i < feasible_bound) ->
  map (fun i => id_of_draw (Z.of_nat i)) picks = map (fun i => 0 + Z.of_nat i) picks.
Proof.
  intros H. apply map_ext_in. intros i Hi. rewrite id_of_draw_id; [reflexivity|]. split; [lia|apply H, Hi].
Qed.

(* hence the ids one compilation draws — at the positions [picks] of the process-wide draw sequence, whatever
   compilations came before and whatever other threads draw in between — form a strictly increasing stream *)
Lemma process_ids_incr picks : incr_nat picks -> (forall i, In i picks -> Z.of_nat i < feasible_bound) ->
  incr (map (fun i => id_of_draw (Z.of_nat i)) picks).
Proof. intros HI HB. rewrite map_id_of_draw by assumption. apply incr_of_picks, HI. Qed.

(* … and the existing equivariance theorems apply to every compilation of the process: same result as with ids 0,1,2,… *)
Lemma process_history_independent d picks : incr_nat picks -> (forall i, In i picks -> Z.of_nat i < feasible_bound) ->
  dump_table d (map (fun i => id_of_draw (Z.of_nat i)) picks) = dump_table d (canonical (length picks)).
Proof. intros HI HB. rewrite map_id_of_draw by assumption. apply concurrent_history_independent, HI. Qed.

(* why the width matters: with a w-bit counter, w < 62, two consecutive feasible draws get ids in the WRONG order *)
Definition id_of_draw_bits (w n : Z) : Z := n mod 2 ^ w.
Lemma narrow_counter_not_monotone w : 0 < w -> exists a b, 0 <= a /\ a < b /\ b <= 2 ^ w /\ id_of_draw_bits w b < id_of_draw_bits w a.
Proof.
  intros Hw. exists (2 ^ w - 1), (2 ^ w). assert (1 < 2 ^ w) by (apply Z.pow_gt_1; lia).
  repeat split; try lia. unfold id_of_draw_bits. rewrite Z.mod_same by lia. rewrite Z.mod_small by lia. lia.
Qed.
