(* C07 — property theorems.  Only statements, [exact lemma] and Print Assumptions. *)
From Coq Require Import ZArith List Permutation.
From FV Require Import Lib.RustInt C05.Model C05.Proofs C07.Proofs.
Import ListNotations.
Open Scope Z_scope.

(* Hash-map iteration order, Graph::from_obj_store: the ordered object map built from the
   ObjectStore's HashMap is the same for every iteration order (permutation) of its entries *)
Theorem c07_from_obj_store_iteration_independent : forall l l' : list (obj * Z),
  Permutation l l' -> NoDup (map snd l) -> objs_of_store l = objs_of_store l'.
Proof. exact objs_of_store_perm. Qed.

(* hence the whole modelled dump_table does not depend on that iteration order.
   PARTIAL: the distinctness of the ids held by the store (they are distinct draws of an atomic
   counter) is a hypothesis here, not derived from add_table. *)
Theorem c07_dump_table_hash_order_independent_partial :
  forall (perm : list (obj * Z) -> list (obj * Z)) d ids,
  (forall l, Permutation l (perm l)) ->
  (forall st root, add_table (S (length d)) d 0%nat (mkStore [] ids) = Some (st, root) -> NoDup (map snd (st_objs st))) ->
  dump_table_perm perm d ids = dump_table d ids.
Proof. exact dump_table_perm_independent. Qed.

(* FULL version: for any duplicate-free id stream (in particular any strictly increasing one) the ids held
   by the store are distinct (store invariant proved through add_table), so the modelled dump_table is
   independent of the HashMap iteration order of ObjectStore.objects *)
Theorem c07_dump_table_hash_order_independent :
  forall (perm : list (obj * Z) -> list (obj * Z)) d ids,
  (forall l, Permutation l (perm l)) -> NoDup ids -> dump_table_perm perm d ids = dump_table d ids.
Proof. exact dump_table_hash_order_independent. Qed.

(* Hash-map iteration order, the `removed_edges` check that ends sort_kahn and
   sort_shortest_distance ("cycle or something?"): outcome independent of the iteration order *)
Theorem c07_removed_edges_check_iteration_independent : forall nodes r r',
  Permutation r r' -> removed_ok nodes r = removed_ok nodes r'.
Proof. exact removed_ok_perm. Qed.

(* Object ids are names only: serialize yields the same bytes (or the same panic) under ANY
   injective renaming of the ids applied consistently to the object map (keys and link targets,
   in whatever key order the renamed map ends up) and to the order *)
Theorem c07_serialize_rename_invariant : forall (rho : Z -> Z) objs objs' ord,
  (forall a b, rho a = rho b -> a = b) -> renamed_objs rho objs objs' ->
  serialize_ord objs' (map rho ord) = serialize_ord objs ord.
Proof. exact serialize_rename_invariant. Qed.

(* NOT PROVED (full statements, see notes/C07.md; checked per case by the correspondence shards,
   which evaluate the model under three different id streams):
   pack_equivariant : forall d ids ids', strictly_increasing ids -> strictly_increasing ids' ->
     length ids = length ids' -> dump_table d ids = dump_table d ids'.
   (kahn_equivariant / shortest_equivariant / store_ids_order_isomorphic are its ingredients;
    concurrent_determinism and history_independence are corollaries: the ids one thread draws from a
    shared fetch_add counter, under any interleaving and any counter start, form a strictly increasing
    stream.) *)

Print Assumptions c07_from_obj_store_iteration_independent.
Print Assumptions c07_dump_table_hash_order_independent_partial.
Print Assumptions c07_dump_table_hash_order_independent.
Print Assumptions c07_removed_edges_check_iteration_independent.
Print Assumptions c07_serialize_rename_invariant.
