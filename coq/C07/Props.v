(* C07 — property theorems.  Only statements, [exact lemma] and Print Assumptions. *)
From Coq Require Import ZArith List Permutation Sorted.
From FV Require Import Lib.RustInt C05.Model C05.Proofs C07.Proofs C07.Equiv C07.PromoteModel C07.Promote C07.IdGen C07.IdCounter C07.SharedPtsModel C07.SharedPts C07.StateGen C07.StateAudit.
Import ListNotations.
Open Scope Z_scope.

(* Hash-map iteration order, Graph::from_obj_store: the ordered object map built from the
   ObjectStore's HashMap is the same for every iteration order (permutation) of its entries *)
Theorem c07_from_obj_store_iteration_independent : forall l l' : list (obj * Z),
  Permutation l l' -> NoDup (map snd l) -> objs_of_store l = objs_of_store l'.
Proof. exact objs_of_store_perm. Qed.

(* hence the whole modelled dump_table does not depend on that iteration order.
   PARTIAL: the distinctness of the ids held by the store (they are distinct draws of an atomic
   counter) is a hypothesis here, not derived from add_table. *)
Theorem c07_dump_table_hash_order_independent_partial :
  forall (perm : list (obj * Z) -> list (obj * Z)) d ids,
  (forall l, Permutation l (perm l)) ->
  (forall st root, add_table (S (length d)) d 0%nat (mkStore [] ids) = Some (st, root) -> NoDup (map snd (st_objs st))) ->
  dump_table_perm perm d ids = dump_table d ids.
Proof. exact dump_table_perm_independent. Qed.

(* FULL version: for any duplicate-free id stream (in particular any strictly increasing one) the ids held
   by the store are distinct (store invariant proved through add_table), so the modelled dump_table is
   independent of the HashMap iteration order of ObjectStore.objects *)
Theorem c07_dump_table_hash_order_independent :
  forall (perm : list (obj * Z) -> list (obj * Z)) d ids,
  (forall l, Permutation l (perm l)) -> NoDup ids -> dump_table_perm perm d ids = dump_table d ids.
Proof. exact dump_table_hash_order_independent. Qed.

(* Hash-map iteration order, the `removed_edges` check that ends sort_kahn and
   sort_shortest_distance ("cycle or something?"): outcome independent of the iteration order *)
Theorem c07_removed_edges_check_iteration_independent : forall nodes r r',
  Permutation r r' -> removed_ok nodes r = removed_ok nodes r'.
Proof. exact removed_ok_perm. Qed.

(* Object ids are names only: serialize yields the same bytes (or the same panic) under ANY
   injective renaming of the ids applied consistently to the object map (keys and link targets,
   in whatever key order the renamed map ends up) and to the order *)
Theorem c07_serialize_rename_invariant : forall (rho : Z -> Z) objs objs' ord,
  (forall a b, rho a = rho b -> a = b) -> renamed_objs rho objs objs' ->
  serialize_ord objs' (map rho ord) = serialize_ord objs ord.
Proof. exact serialize_rename_invariant. Qed.

(* ---- equivariance under strictly monotone renamings of ids (the algorithm inspects ids only through =, <) ---- *)

(* store_ids_order_isomorphic: running TableWriter/ObjectStore with the id stream [map rho ids] yields exactly the
   rho-image of the store (contents, link targets, assigned ids, unread stream) obtained with [ids] *)
Theorem c07_store_ids_order_isomorphic : forall (rho : Z -> Z), (forall a b, a < b -> rho a < rho b) ->
  forall fuel d idx st, add_table fuel d idx (rstore rho st) = option_map (rsi rho) (add_table fuel d idx st).
Proof. exact add_table_r. Qed.

(* kahn_equivariant / shortest_equivariant / pack_equivariant: the sorts and pack_objects commute with the renaming
   of a graph (object keys, link targets, node keys, parent lists, order, root) *)
Theorem c07_kahn_equivariant : forall (rho : Z -> Z), (forall a b, a < b -> rho a < rho b) ->
  forall g, sort_kahn (rg rho g) = option_map (rg rho) (sort_kahn g).
Proof. exact sort_kahn_r. Qed.
Theorem c07_shortest_equivariant : forall (rho : Z -> Z), (forall a b, a < b -> rho a < rho b) ->
  forall g, sort_shortest_distance (rg rho g) = option_map (rg rho) (sort_shortest_distance g).
Proof. exact sort_shortest_distance_r. Qed.
Theorem c07_pack_equivariant : forall (rho : Z -> Z), (forall a b, a < b -> rho a < rho b) ->
  forall g, pack_objects (rg rho g) = option_map (fun p => (rg rho (fst p), snd p)) (pack_objects g).
Proof. exact pack_objects_r. Qed.
Theorem c07_dump_table_equivariant : forall (rho : Z -> Z), (forall a b, a < b -> rho a < rho b) ->
  forall d ids, dump_table d (map rho ids) = dump_table d ids.
Proof. exact dump_table_r. Qed.

(* c07_basic_path_counter_independent (in fact for everything the model covers: success bytes, PackingFailed, panic):
   any two strictly increasing id streams of the same length give the same result *)
Theorem c07_counter_independent : forall d ids ids', incr ids -> incr ids' -> length ids = length ids' ->
  dump_table d ids = dump_table d ids'.
Proof. exact dump_table_any_two_streams. Qed.

(* concurrent_determinism + history_independence: the counter may start anywhere ([base]: arbitrary earlier
   compilations) and other threads may draw ids in between in any interleaving ([picks] = the strictly
   increasing positions of this compilation's draws in the global sequence): same result as with ids 0,1,2,... *)
Theorem c07_concurrent_history_independent : forall d base picks, incr_nat picks ->
  dump_table d (map (fun i => base + Z.of_nat i) picks) = dump_table d (canonical (length picks)).
Proof. exact concurrent_history_independent. Qed.

(* ---- round 3: the extension-promotion choice (get_promotable_subtables + select_promotions_hb) ---- *)

(* the set of lookups may be listed in any order (any permutation): the ascending-id enumeration of the
   BTreeMap `objects` makes the promoted set, and the order it is returned in, the same *)
Theorem c07_promotion_candidate_order_independent : forall sz o1 o2,
  Permutation o1 o2 -> NoDup (map lk_id o1) -> promote sz o1 = promote sz o2.
Proof. exact promote_perm_independent. Qed.

(* the stable sort_by_key applied to that enumeration ranks the candidates by (score descending, id ascending):
   ties in the score are broken by the id (creation order), never by anything else *)
Theorem c07_promotion_ties_broken_by_id : forall l, NoDup (map lk_id l) ->
  StronglySorted (fun x y => lk_key x > lk_key y \/ (lk_key x = lk_key y /\ lk_id x < lk_id y)) (sort_by_key (btree_order l)).
Proof. exact ranked_candidates_lex_sorted. Qed.

(* ids are inspected only through their order: under every strictly monotone renaming (another counter start,
   other threads' draws interleaved) the same lookups are promoted, in the same order *)
Theorem c07_promotion_equivariant : forall (rho : Z -> Z), (forall a b, a < b -> rho a < rho b) ->
  forall sz l, promote sz (map (ren rho) l) = option_map (map rho) (promote sz l).
Proof. exact promote_r. Qed.

(* FULL statement "the choice is independent of the order in which the candidates reach select_promotions_hb"
   (forall perm, promote_perm perm sz l = promote sz l) is FALSE of the faithful model: the ranking has no
   tie-break of its own, so a hash container between `objects` and the ranking changes the promoted set *)
Theorem c07_promotion_unordered_candidates_refuted :
  exists (perm : list lookup -> list lookup) sz l,
    (forall l, Permutation l (perm l)) /\ NoDup (map lk_id l) /\ promote_perm perm sz l <> promote sz l.
Proof. exact promote_hash_order_refuted. Qed.

(* ---- round 4: the process-wide id counter never wraps (widths GENERATED from graph.rs by translators/c07_idcounter.py) ---- *)

(* the counter / ObjectId field are wide enough that no feasible process (2^62 draws = 146 years at one per ns) wraps them *)
Theorem c07_ids_never_wrap : 2 ^ id_bits > feasible_bound.
Proof. exact ids_never_wrap. Qed.

(* so over the whole feasible life of a process ids are a strictly monotone image of creation order … *)
Theorem c07_ids_strictly_monotone : forall a b, 0 <= a -> a < b -> b < feasible_bound -> id_of_draw a < id_of_draw b.
Proof. exact ids_strictly_monotone. Qed.

(* … and the equivariance theorems above apply to EVERY compilation of the process: drawing at the positions [picks] of the
   process-wide fetch_add sequence (any history before, any interleaving with other threads) gives the result of ids 0,1,2,… *)
Theorem c07_process_history_independent : forall d picks, incr_nat picks ->
  (forall i, In i picks -> Z.of_nat i < feasible_bound) ->
  dump_table d (map (fun i => id_of_draw (Z.of_nat i)) picks) = dump_table d (canonical (length picks)).
Proof. exact process_history_independent. Qed.

(* the width is load-bearing: any w-bit counter hands two consecutive draws ids in the wrong order at its wrap *)
Theorem c07_narrow_counter_not_monotone : forall w, 0 < w ->
  exists a b, 0 <= a /\ a < b /\ b <= 2 ^ w /\ id_of_draw_bits w b < id_of_draw_bits w a.
Proof. exact narrow_counter_not_monotone. Qed.

(* ---- round 4: gvar shared point numbers (GlyphVariations::compute_shared_points, max_by_first_key) ---- *)

(* the chosen packing is the FIRST candidate — in order of first occurrence among the glyph's tuples (IndexMap) — that is
   used more than once and maximises (count - 1) * size; None iff no packing is used twice *)
Theorem c07_shared_points_first_max : forall tuples,
  match compute_shared_points tuples with
  | Some p => exists c, p = c_pts c /\ first_max saving (filter shared_enough (count_sets tuples)) c
  | None => filter shared_enough (count_sets tuples) = []
  end.
Proof. exact compute_shared_points_first_max. Qed.

(* when one candidate strictly wins, any iteration order of the counting map gives the same choice *)
Theorem c07_shared_points_strict_winner_order_independent : forall (perm : list cand -> list cand) tuples c,
  (forall l, Permutation l (perm l)) ->
  In c (filter shared_enough (count_sets tuples)) ->
  (forall y, In y (filter shared_enough (count_sets tuples)) -> y <> c -> saving y < saving c) ->
  compute_shared_points_perm perm tuples = Some (c_pts c) /\ compute_shared_points tuples = Some (c_pts c).
Proof. exact compute_shared_points_strict_winner. Qed.

(* FULL statement (forall perm, compute_shared_points_perm perm = compute_shared_points) is FALSE of the faithful model:
   under a tie the insertion order of the IndexMap is load-bearing *)
Theorem c07_shared_points_hash_order_refuted :
  exists (perm : list cand -> list cand) tuples,
    (forall l, Permutation l (perm l)) /\ compute_shared_points_perm perm tuples <> compute_shared_points tuples.
Proof. exact shared_points_hash_order_refuted. Qed.

(* ---- round 5: no process- or thread-wide state besides the id counter (lists GENERATED by translators/c07_state_audit.py) ---- *)
Theorem c07_only_shared_state_is_id_counter :
  thread_local_items = [] /\ mutable_static_items = [id_counter_item].
Proof. exact only_shared_state_is_id_counter. Qed.

(* NOT covered by these theorems: the space-assignment / isolation / duplication path (not modelled: the
   model answers Beyond there, identically for all streams), gvar / IVS / klippa: schedule experiment only. *)

Print Assumptions c07_from_obj_store_iteration_independent.
Print Assumptions c07_dump_table_hash_order_independent_partial.
Print Assumptions c07_dump_table_hash_order_independent.
Print Assumptions c07_removed_edges_check_iteration_independent.
Print Assumptions c07_serialize_rename_invariant.
Print Assumptions c07_store_ids_order_isomorphic.
Print Assumptions c07_kahn_equivariant.
Print Assumptions c07_shortest_equivariant.
Print Assumptions c07_pack_equivariant.
Print Assumptions c07_dump_table_equivariant.
Print Assumptions c07_counter_independent.
Print Assumptions c07_concurrent_history_independent.
Print Assumptions c07_promotion_candidate_order_independent.
Print Assumptions c07_promotion_ties_broken_by_id.
Print Assumptions c07_promotion_equivariant.
Print Assumptions c07_promotion_unordered_candidates_refuted.
Print Assumptions c07_ids_never_wrap.
Print Assumptions c07_ids_strictly_monotone.
Print Assumptions c07_process_history_independent.
Print Assumptions c07_narrow_counter_not_monotone.
Print Assumptions c07_shared_points_first_max.
Print Assumptions c07_shared_points_strict_winner_order_independent.
Print Assumptions c07_shared_points_hash_order_refuted.
Print Assumptions c07_only_shared_state_is_id_counter.
