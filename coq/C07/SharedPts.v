(* C07 round 4 — proofs about the shared-point-numbers choice (coq/C07/SharedPtsModel.v) *)
From Coq Require Import ZArith List Bool Lia Permutation.
From FV Require Import C07.SharedPtsModel.
Import ListNotations.
Open Scope Z_scope.

Section FirstMax.
  Context {A : Type} (key : A -> Z).

  (* invariant of the fold: the accumulator is the FIRST maximum of what has been seen *)
  Definition first_max (seen : list A) (x : A) : Prop :=
    exists l1 l2, seen = l1 ++ x :: l2 /\ (forall y, In y l1 -> key y < key x) /\ (forall y, In y l2 -> key y <= key x).

  Lemma fold_first_max : forall l seen acc,
    match acc with Some (x, k) => k = key x /\ first_max seen x | None => seen = [] end ->
    match fold_left (mbfk_step key) l acc with
    | Some (x, k) => k = key x /\ first_max (seen ++ l) x
    | None => seen ++ l = []
    end.
  Proof.
    induction l as [|y r IH]; intros seen acc H; cbn [fold_left].
    - rewrite app_nil_r. exact H.
    - replace (seen ++ y :: r) with ((seen ++ [y]) ++ r) by (rewrite <- app_assoc; reflexivity).
      apply IH. unfold mbfk_step. destruct acc as [[x k]|].
      + destruct H as [-> (l1 & l2 & -> & H1 & H2)]. destruct (key y <=? key x) eqn:E.
        * split; [reflexivity|]. exists l1, (l2 ++ [y]). split; [rewrite <- app_assoc; reflexivity|]. split; [exact H1|].
          intros z Hz. apply in_app_or in Hz. destruct Hz as [Hz|[<-|[]]]; [apply H2, Hz|]. apply Z.leb_le, E.
        * apply Z.leb_gt in E. split; [reflexivity|]. exists (l1 ++ x :: l2), []. split; [reflexivity|]. split; [|intros z []].
          intros z Hz. apply in_app_or in Hz. destruct Hz as [Hz|[<-|Hz]]; [specialize (H1 z Hz); lia|lia|specialize (H2 z Hz); lia].
      + subst seen. split; [reflexivity|]. exists [], []. split; [reflexivity|]. split; intros z [].
  Qed.

  Lemma max_by_first_key_spec l :
    match max_by_first_key key l with Some x => first_max l x | None => l = [] end.
  Proof.
    unfold max_by_first_key. pose proof (fold_first_max l [] None eq_refl) as H. cbn [app] in H.
    destruct (fold_left (mbfk_step key) l None) as [[x k]|]; cbn [option_map fst]; [apply H|exact H].
  Qed.

  (* a strict winner is returned whatever the iteration order *)
  Lemma max_by_first_key_strict_winner (eq_dec : forall a b : A, {a = b} + {a <> b}) l l' x :
    Permutation l l' -> In x l -> (forall y, In y l -> y <> x -> key y < key x) ->
    max_by_first_key key l' = Some x.
  Proof.
    intros HP Hx Hmax. pose proof (max_by_first_key_spec l') as S.
    destruct (max_by_first_key key l') as [x'|].
    - destruct S as (l1 & l2 & E & H1 & H2).
      assert (Hx' : In x' l) by (eapply Permutation_in; [apply Permutation_sym, HP|]; rewrite E; apply in_or_app; right; left; reflexivity).
      assert (Hxl' : In x l') by (eapply Permutation_in; [apply HP|exact Hx]).
      f_equal. destruct (eq_dec x' x) as [Heq|Hne]; [exact Heq|exfalso].
      specialize (Hmax x' Hx' Hne). rewrite E in Hxl'. apply in_app_or in Hxl'. destruct Hxl' as [Hi|[Hi|Hi]].
      + specialize (H1 x Hi). lia.
      + apply Hne. exact Hi.
      + specialize (H2 x Hi). lia.
    - subst l'. apply Permutation_sym, Permutation_nil in HP. subst l. destruct Hx.
  Qed.
End FirstMax.

Lemma cand_eq_dec : forall a b : cand, {a = b} + {a <> b}.
Proof. repeat decide equality. Qed.

(* compute_shared_points returns the packing of the FIRST candidate (in order of first occurrence among the glyph's
   tuples) that is used more than once and maximises (count - 1) * size *)
Lemma compute_shared_points_first_max tuples :
  match compute_shared_points tuples with
  | Some p => exists c, p = c_pts c /\ first_max saving (filter shared_enough (count_sets tuples)) c
  | None => filter shared_enough (count_sets tuples) = []
  end.
Proof.
  unfold compute_shared_points. pose proof (max_by_first_key_spec saving (filter shared_enough (count_sets tuples))) as S.
  destruct (max_by_first_key saving (filter shared_enough (count_sets tuples))) as [c|]; cbn [option_map]; [|exact S].
  exists c. split; [reflexivity|exact S].
Qed.

Lemma filter_perm {A} (f : A -> bool) l l' : Permutation l l' -> Permutation (filter f l) (filter f l').
Proof.
  induction 1; cbn [filter].
  - constructor.
  - destruct (f x); [constructor|]; assumption.
  - destruct (f x), (f y); try constructor; apply Permutation_refl.
  - eapply perm_trans; eassumption.
Qed.

(* if one candidate strictly wins, the choice does not depend on the iteration order of the counting map *)
Lemma compute_shared_points_strict_winner (perm : list cand -> list cand) tuples c :
  (forall l, Permutation l (perm l)) ->
  In c (filter shared_enough (count_sets tuples)) ->
  (forall y, In y (filter shared_enough (count_sets tuples)) -> y <> c -> saving y < saving c) ->
  compute_shared_points_perm perm tuples = Some (c_pts c) /\ compute_shared_points tuples = Some (c_pts c).
Proof.
  intros HP Hc Hmax. unfold compute_shared_points_perm, compute_shared_points.
  rewrite (max_by_first_key_strict_winner saving cand_eq_dec _ (filter shared_enough (perm (count_sets tuples))) c
             (filter_perm _ _ _ (HP _)) Hc Hmax).
  rewrite (max_by_first_key_strict_winner saving cand_eq_dec _ _ c (Permutation_refl _) Hc Hmax). split; reflexivity.
Qed.

(* under a tie it does: points {1,3} in two tuples and {2,4} in two others (equal count, equal size) *)
Definition tie_tuples : list (pts * Z) := [(Some [1; 3], 3); (Some [2; 4], 3); (Some [1; 3], 3); (Some [2; 4], 3)].
Lemma shared_points_hash_order_refuted :
  exists (perm : list cand -> list cand) tuples,
    (forall l, Permutation l (perm l)) /\ compute_shared_points_perm perm tuples <> compute_shared_points tuples.
Proof.
  exists (@rev cand), tie_tuples. split; [intros l; apply Permutation_rev|]. vm_compute. discriminate.
Qed.
