(* C07 round 3 — proofs about the promotion choice (coq/C07/PromoteModel.v) *)
From Coq Require Import ZArith List Bool Lia Permutation Sorted.
From FV Require Import C07.PromoteModel.
Import ListNotations.
Open Scope Z_scope.

(* ---------- insertion sort: permutation invariance when the key is injective on the list ---------- *)
Section IsortFacts.
  Context {A : Type} (k : A -> Z).

  Lemma ins_comm x y : k x <> k y -> forall l, ins k x (ins k y l) = ins k y (ins k x l).
  Proof.
    intros Hne l. induction l as [|z r IH]; cbn [ins].
    - destruct (k x <=? k y) eqn:E1, (k y <=? k x) eqn:E2; try reflexivity; lia.
    - destruct (k y <=? k z) eqn:Eyz, (k x <=? k z) eqn:Exz; cbn [ins]; rewrite ?Eyz, ?Exz.
      + destruct (k x <=? k y) eqn:E1, (k y <=? k x) eqn:E2; try reflexivity; try lia.
      + destruct (k x <=? k y) eqn:E1; [lia|]. reflexivity.
      + destruct (k y <=? k x) eqn:E2; [lia|]. reflexivity.
      + rewrite IH. reflexivity.
  Qed.

  Lemma ins_perm x l : Permutation (x :: l) (ins k x l).
  Proof.
    induction l as [|y r IH]; cbn [ins]; [apply Permutation_refl|].
    destruct (k x <=? k y); [apply Permutation_refl|].
    eapply perm_trans; [apply perm_swap|]. apply perm_skip, IH.
  Qed.

  Lemma isort_permutation l : Permutation l (isort k l).
  Proof.
    induction l as [|x r IH]; cbn [isort]; [constructor|].
    eapply perm_trans; [apply perm_skip, IH|]. apply ins_perm.
  Qed.

  Lemma isort_perm l l' : Permutation l l' -> NoDup (map k l) -> isort k l = isort k l'.
  Proof.
    induction 1 as [|x l l' HP IH|x y l|l l' l'' HP1 IH1 HP2 IH2]; intros ND.
    - reflexivity.
    - cbn [isort]. cbn [map] in ND. inversion ND; subst. rewrite IH by assumption. reflexivity.
    - cbn [isort]. apply ins_comm. cbn [map] in ND. inversion ND as [|? ? Hy ND']; subst.
      intro E. apply Hy. rewrite E. left. reflexivity.
    - rewrite IH1 by assumption. apply IH2.
      eapply Permutation_NoDup; [apply Permutation_map, HP1|assumption].
  Qed.
End IsortFacts.

(* the BTreeMap enumeration does not depend on how the set of lookups was listed *)
Lemma btree_order_perm o1 o2 : Permutation o1 o2 -> NoDup (map lk_id o1) -> btree_order o1 = btree_order o2.
Proof. apply isort_perm. Qed.

Lemma promote_perm_independent sz o1 o2 :
  Permutation o1 o2 -> NoDup (map lk_id o1) -> promote sz o1 = promote sz o2.
Proof. intros HP ND. unfold promote. rewrite (btree_order_perm o1 o2 HP ND). reflexivity. Qed.

(* ---------- the stable sort of an id-ascending list breaks ties by id ---------- *)
Definition lex_lt (x y : lookup) : Prop :=
  lk_key x > lk_key y \/ (lk_key x = lk_key y /\ lk_id x < lk_id y).

Lemma Forall_perm {A} (P : A -> Prop) l l' : Permutation l l' -> Forall P l -> Forall P l'.
Proof. intros HP H. rewrite Forall_forall in *. intros x Hx. apply H. eapply Permutation_in; [apply Permutation_sym, HP|exact Hx]. Qed.

Lemma ins_key_sorted x s :
  StronglySorted lex_lt s -> Forall (fun y => lk_id x < lk_id y) s ->
  StronglySorted lex_lt (ins (fun x => - lk_key x) x s).
Proof.
  induction s as [|y r IH]; intros HS HF; cbn [ins].
  - repeat constructor.
  - inversion HS as [|? ? HSr HFy]; subst. inversion HF as [|? ? Hxy HFr]; subst.
    destruct (- lk_key x <=? - lk_key y) eqn:E.
    + constructor; [constructor; assumption|].
      assert (Hxy' : lex_lt x y) by (unfold lex_lt; lia).
      constructor; [exact Hxy'|].
      rewrite Forall_forall in *. intros z Hz. specialize (HFy z Hz). specialize (HFr z Hz).
      unfold lex_lt in *. lia.
    + constructor; [apply IH; assumption|].
      eapply Forall_perm; [apply ins_perm|]. constructor; [unfold lex_lt; lia|exact HFy].
Qed.

Lemma sort_by_key_tiebreak_id l :
  StronglySorted (fun x y => lk_id x < lk_id y) l -> StronglySorted lex_lt (sort_by_key l).
Proof.
  unfold sort_by_key. induction l as [|x r IH]; intros HS; cbn [isort]; [constructor|].
  inversion HS as [|? ? HSr HFx]; subst. apply ins_key_sorted; [apply IH, HSr|].
  eapply Forall_perm; [apply isort_permutation|exact HFx].
Qed.

Lemma ins_id_sorted x s :
  StronglySorted (fun x y => lk_id x < lk_id y) s -> ~ In (lk_id x) (map lk_id s) ->
  StronglySorted (fun x y => lk_id x < lk_id y) (ins lk_id x s).
Proof.
  induction s as [|y r IH]; intros HS HN; cbn [ins].
  - repeat constructor.
  - inversion HS as [|? ? HSr HFy]; subst. cbn [map In] in HN.
    destruct (lk_id x <=? lk_id y) eqn:E.
    + constructor; [constructor; assumption|].
      assert (lk_id x < lk_id y) by (destruct (Z.eq_dec (lk_id x) (lk_id y)); [exfalso; apply HN; left; congruence|lia]).
      constructor; [assumption|]. rewrite Forall_forall in *. intros z Hz. specialize (HFy z Hz). lia.
    + constructor; [apply IH; [assumption|tauto]|].
      eapply Forall_perm; [apply ins_perm|]. constructor; [lia|exact HFy].
Qed.

Lemma btree_order_sorted l : NoDup (map lk_id l) -> StronglySorted (fun x y => lk_id x < lk_id y) (btree_order l).
Proof.
  unfold btree_order. induction l as [|x r IH]; intros ND; cbn [isort]; [constructor|].
  cbn [map] in ND. inversion ND as [|? ? Hx ND']; subst. apply ins_id_sorted; [apply IH, ND'|].
  intro HIn. apply Hx. eapply Permutation_in; [apply Permutation_sym, Permutation_map, isort_permutation|exact HIn].
Qed.

(* the ranked candidate list of the real code is sorted by (key descending, id ascending): ties in the
   score are broken by the id, i.e. by creation order *)
Lemma ranked_candidates_lex_sorted l : NoDup (map lk_id l) -> StronglySorted lex_lt (sort_by_key (btree_order l)).
Proof. intros ND. apply sort_by_key_tiebreak_id, btree_order_sorted, ND. Qed.

(* ---------- equivariance under strictly monotone renamings ---------- *)
Section Equivariance.
  Variable rho : Z -> Z.
  Hypothesis rho_mono : forall a b, a < b -> rho a < rho b.

  Lemma rho_le a b : (rho a <=? rho b) = (a <=? b).
  Proof.
    destruct (a <=? b) eqn:E.
    - apply Z.leb_le. apply Z.leb_le in E. destruct (Z.eq_dec a b) as [->|]; [lia|]. assert (a < b) by lia. specialize (rho_mono a b H). lia.
    - apply Z.leb_gt. apply Z.leb_gt in E. apply rho_mono, E.
  Qed.

  Lemma ins_map {A B} (k : A -> Z) (k' : B -> Z) (f : A -> B) :
    (forall x y, (k' (f x) <=? k' (f y)) = (k x <=? k y)) ->
    forall x l, map f (ins k x l) = ins k' (f x) (map f l).
  Proof.
    intros H x l. induction l as [|y r IH]; cbn [ins map]; [reflexivity|].
    rewrite H. destruct (k x <=? k y); cbn [map]; [reflexivity|]. rewrite IH. reflexivity.
  Qed.

  Lemma isort_map {A B} (k : A -> Z) (k' : B -> Z) (f : A -> B) :
    (forall x y, (k' (f x) <=? k' (f y)) = (k x <=? k y)) ->
    forall l, isort k' (map f l) = map f (isort k l).
  Proof.
    intros H l. induction l as [|x r IH]; cbn [isort map]; [reflexivity|].
    rewrite IH. symmetry. apply ins_map, H.
  Qed.

  Lemma btree_order_r l : btree_order (map (ren rho) l) = map (ren rho) (btree_order l).
  Proof. unfold btree_order. apply isort_map. intros x y. cbn [ren lk_id]. apply rho_le. Qed.

  Lemma sort_by_key_r l : sort_by_key (map (ren rho) l) = map (ren rho) (sort_by_key l).
  Proof. unfold sort_by_key. apply isort_map. intros x y. reflexivity. Qed.

  Lemma ext_sum_r l a :
    fold_left (fun a x => a + lk_count x * EXTENSION_SIZE) (map (ren rho) l) a =
    fold_left (fun a x => a + lk_count x * EXTENSION_SIZE) l a.
  Proof. revert a. induction l as [|x r IH]; intros a; cbn [fold_left map]; [reflexivity|]. rewrite IH. reflexivity. Qed.

  Lemma sel_loop_r ls : forall full l2 l3 l4,
    sel_loop full l2 l3 l4 (map (ren rho) ls) = option_map (map rho) (sel_loop full l2 l3 l4 ls).
  Proof.
    induction ls as [|x r IH]; intros full l2 l3 l4; cbn [sel_loop map]; [reflexivity|].
    cbn [ren lk_id lk_key lk_count lk_subgraph lk_size lk_children].
    destruct full.
    - rewrite IH. destruct (sel_loop true l2 l3 l4 r); reflexivity.
    - destruct (lk_subgraph x - lk_size x - lk_children x <? 0); [reflexivity|].
      match goal with |- context [if ?c then _ else _] => destruct c end.
      + apply IH.
      + rewrite IH. match goal with |- context [sel_loop true ?a ?b ?c r] => destruct (sel_loop true a b c r) end; reflexivity.
  Qed.

  Lemma select_promotions_r sz l :
    select_promotions sz (map (ren rho) l) = option_map (map rho) (select_promotions sz l).
  Proof. unfold select_promotions. rewrite sort_by_key_r, ext_sum_r. apply sel_loop_r. Qed.

  Lemma promote_r sz l : promote sz (map (ren rho) l) = option_map (map rho) (promote sz l).
  Proof. unfold promote. rewrite btree_order_r. apply select_promotions_r. Qed.
End Equivariance.

(* ---------- without the canonical enumeration the choice DOES depend on the order ---------- *)
(* three equal-score lookups of 30 000 bytes each: two fit below 0xFFFF, the third is promoted; which
   one depends on the order in which the candidates reach the stable sort *)
Definition tie3 : list lookup :=
  [mkLk 1 33333 1 30000 8 10000; mkLk 2 33333 1 30000 8 10000; mkLk 3 33333 1 30000 8 10000].

Lemma promote_hash_order_refuted :
  exists (perm : list lookup -> list lookup) sz l,
    (forall l, Permutation l (perm l)) /\ NoDup (map lk_id l) /\ promote_perm perm sz l <> promote sz l.
Proof.
  exists (@rev lookup), 8, tie3. split; [|split].
  - intros l. apply Permutation_rev.
  - cbn. repeat constructor; cbn; intuition lia.
  - vm_compute. discriminate.
Qed.
