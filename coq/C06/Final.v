(* C06 — property-level lemmas: [build] composed with the reader, op sequences, ordering *)
From Coq Require Import ZArith Lia List Bool Sorted Permutation.
From FV Require Import Lib.RustInt C06.Model C06.Checksum C06.BSearch C06.MapLemmas C06.Proofs C06.Reader C06.FileSum.
Import ListNotations.
Open Scope Z_scope.

(* what table_data hands back for a supplied table: the bytes themselves, except that a head table of
   at least 12 bytes carries the checksum adjustment in bytes 8..12 *)
Lemma returned_spec t d adj :
  let r := splice_head t (zero_head t d) adj in
  len r = len d /\
  (is_long_head t d = false -> r = d) /\
  (is_long_head t d = true ->
     firstn 8 r = firstn 8 d /\ skipn 12 r = skipn 12 d /\ firstn 4 (skipn 8 r) = to_be 4 adj).
Proof.
  cbv zeta. split; [rewrite splice_head_len; apply zero_head_len|].
  unfold splice_head. rewrite is_long_head_zero. unfold zero_head.
  destruct (is_long_head t d) eqn:E; split; intros H; try discriminate; try reflexivity.
  unfold is_long_head in E. apply andb_prop in E. destruct E as [_ E]. apply Z.leb_le in E.
  destruct (zero_head_parts d E) as [H8 H12]. rewrite H8, H12.
  destruct (long_head_split d E) as [Hl8 _].
  repeat split.
  - apply firstn_app_exact. exact Hl8.
  - replace (firstn 8 d ++ to_be 4 adj ++ skipn 12 d) with ((firstn 8 d ++ to_be 4 adj) ++ skipn 12 d)
      by (rewrite <- app_assoc; reflexivity).
    apply skipn_app_exact. rewrite app_length, Hl8, to_be_length. reflexivity.
  - rewrite (skipn_app_exact (firstn 8 d) _ 8 Hl8). apply firstn_app_exact. apply to_be_length.
Qed.

Lemma build_opens m : pre m ->
  exists file f, build m = Some file /\ font_ref_new file = Some f /\ fr_sfnt f = 65536.
Proof.
  intros H. destruct (lists_exactly m H) as (f & Hf & Hv & _).
  exists (file_of m), f. split; [apply build_eq; exact H|]. split; assumption.
Qed.

Lemma build_lists_exactly m : pre m ->
  exists file f, build m = Some file /\ font_ref_new file = Some f /\
    fr_num f = len m /\ map r_tag (fr_records f) = keys m /\
    StronglySorted Z.lt (map r_tag (fr_records f)) /\
    (fr_srange f, fr_esel f, fr_rshift f) =
      (if len m =? 0 then (16, 0, 0)
       else (2 ^ Z.log2 (len m) * 16, Z.log2 (len m), len m * 16 - 2 ^ Z.log2 (len m) * 16)).
Proof.
  intros H. destruct (lists_exactly m H) as (f & Hf & _ & Hn & Ht & Hs & Hsr).
  exists (file_of m), f. split; [apply build_eq; exact H|]. repeat split; assumption.
Qed.

Lemma build_returns_tables m t d : pre m -> lookup t m = Some d ->
  exists file f r, build m = Some file /\ font_ref_new file = Some f /\ table_data f t = Some r /\
    len r = len d /\
    (is_long_head t d = false -> r = d) /\
    (is_long_head t d = true -> firstn 8 r = firstn 8 d /\ skipn 12 r = skipn 12 d).
Proof.
  intros H Hl. destruct (returns_tables m H t d Hl) as (f & Hf & Htd).
  exists (file_of m), f, (splice_head t (zero_head t d) (adj_of m)).
  destruct (returned_spec t d (adj_of m)) as (H1 & H2 & H3).
  split; [apply build_eq; exact H|]. repeat split; try assumption; apply H3; assumption.
Qed.

Lemma absent_tag_none m t : pre m -> lookup t m = None ->
  exists file f, build m = Some file /\ font_ref_new file = Some f /\ table_data f t = None.
Proof.
  intros H Hl. destruct (absent_none m H t Hl) as (f & Hf & Htd).
  exists (file_of m), f. split; [apply build_eq; exact H|]. split; assumption.
Qed.

(* alignment, zero padding, in-bounds, per-record checksum; [p] is everything before the table,
   so [len p = offset] says the table sits at its recorded offset, followed by zero padding *)
Lemma build_aligned_padded_checksums m : pre m ->
  exists file f, build m = Some file /\ font_ref_new file = Some f /\
    len file mod 4 = 0 /\
    forall r, In r (fr_records f) ->
      exists d tbl p q, lookup (r_tag r) m = Some d /\ table_data f (r_tag r) = Some tbl /\
        r_cksum r = compute_checksum (zero_head (r_tag r) d) /\
        r_length r = len d /\ r_offset r mod 4 = 0 /\ 12 + 16 * len m <= r_offset r /\
        len p = r_offset r /\
        file = p ++ tbl ++ repeat 0 (Z.to_nat (round4 (len d) - len d)) ++ q.
Proof.
  intros H. destruct (records_spec m H) as (f & Hf & Hlen & Hr).
  exists (file_of m), f. split; [apply build_eq; exact H|]. split; [exact Hf|]. split; [exact Hlen|].
  intros r Hin. destruct (Hr r Hin) as (d & p & q & Hl & Hck & Hle & Hal & Hlo & Hp & Hfile).
  destruct (returns_tables m H (r_tag r) d Hl) as (f' & Hf' & Htd).
  rewrite Hf in Hf'. inversion Hf'. subst f'.
  exists d, (splice_head (r_tag r) (zero_head (r_tag r) d) (adj_of m)), p, q.
  repeat split; assumption.
Qed.

(* the table data is laid out in [ordered_entries] order, back to back, right after the directory *)
Lemma build_layout m : pre m ->
  exists file dir adj, build m = Some file /\ len dir = 12 + 16 * len m /\
    file = dir ++ flat_map (table_bytes adj) (ordered_entries m) /\
    forall e, len (table_bytes adj e) = round4 (len (snd e)).
Proof.
  intros H. exists (file_of m), (dir_of m), (adj_of m).
  split; [apply build_eq; exact H|]. split; [apply len_dir_of|]. split; [reflexivity|].
  intros [t d]. apply len_table_bytes.
Qed.

Lemma build_file_checksum m d : pre m -> lookup TAG_head m = Some d -> 12 <= len d ->
  exists file, build m = Some file /\ compute_checksum file = 2981146554.
Proof.
  intros H Hl Hd. exists (file_of m). split; [apply build_eq; exact H|].
  apply (file_checksum m H d Hl Hd).
Qed.

(* ---------- op sequences ---------- *)
Lemma apply_ops_adds ops : forall m,
  fold_left apply_op (map (fun o => (0, fst o, snd o)) ops) (Some m) = Some (add_all ops m).
Proof.
  induction ops as [|[t d] ops IH]; intros m; [reflexivity|].
  cbn [map fold_left fst snd]. unfold apply_op at 2. cbn [obind]. change (0 =? 0) with true. cbv iota.
  rewrite IH. reflexivity.
Qed.

Lemma build_insertion_order_irrelevant ops1 ops2 :
  (forall t, lookup t (add_all ops1 []) = lookup t (add_all ops2 [])) ->
  build (add_all ops1 []) = build (add_all ops2 []).
Proof. intros H. rewrite (add_all_order_irrelevant ops1 ops2 H). reflexivity. Qed.

Lemma build_permuted_adds ops1 ops2 : Permutation ops1 ops2 -> NoDup (map fst ops1) ->
  build (add_all ops1 []) = build (add_all ops2 []).
Proof. intros H1 H2. rewrite (add_all_perm_distinct ops1 ops2 H1 H2). reflexivity. Qed.

(* the order relation in which build() lays tables out *)
Definition key_lt (a b : Z * Z * Z) : Prop := key_leb a b = true /\ a <> b.

Lemma key_leb_total a b : key_leb a b = true \/ key_leb b a = true.
Proof.
  destruct a as [[a0 a1] a2], b as [[b0 b1] b2]. unfold key_leb.
  destruct (a0 <? b0) eqn:E1, (b0 <? a0) eqn:E2, (a1 <? b1) eqn:E3, (b1 <? a1) eqn:E4; auto; lia.
Qed.
Lemma key_leb_trans a b c : key_leb a b = true -> key_leb b c = true -> key_leb a c = true.
Proof.
  destruct a as [[a0 a1] a2], b as [[b0 b1] b2], c as [[c0 c1] c2]. unfold key_leb.
  destruct (a0 <? b0) eqn:E1, (b0 <? a0) eqn:E2, (a1 <? b1) eqn:E3, (b1 <? a1) eqn:E4,
           (b0 <? c0) eqn:E5, (c0 <? b0) eqn:E6, (b1 <? c1) eqn:E7, (c1 <? b1) eqn:E8,
           (a0 <? c0) eqn:E9, (c0 <? a0) eqn:E10, (a1 <? c1) eqn:E11, (c1 <? a1) eqn:E12;
    try discriminate; try reflexivity; intros; lia.
Qed.

Lemma insert_by_sorted {A} (leb : A -> A -> bool)
  (total : forall a b, leb a b = true \/ leb b a = true)
  (trans : forall a b c, leb a b = true -> leb b c = true -> leb a c = true) x l :
  StronglySorted (fun a b => leb a b = true) l ->
  StronglySorted (fun a b => leb a b = true) (insert_by leb x l).
Proof.
  induction 1 as [|y l Hs IH Hy]; cbn [insert_by]; [repeat constructor|].
  destruct (leb x y) eqn:E.
  - constructor; [constructor; assumption|]. constructor; [exact E|].
    rewrite Forall_forall in *. intros z Hz. eapply trans; [exact E | apply Hy, Hz].
  - constructor; [exact IH|]. rewrite Forall_forall in *. intros z Hz.
    assert (Hp : Permutation (x :: l) (insert_by leb x l)) by apply insert_by_perm.
    apply Permutation_sym in Hp. apply (Permutation_in _ Hp) in Hz. destruct Hz as [<-|Hz].
    + destruct (total x y) as [T|T]; [congruence | exact T].
    + apply Hy, Hz.
Qed.
Lemma isort_by_sorted {A} (leb : A -> A -> bool)
  (total : forall a b, leb a b = true \/ leb b a = true)
  (trans : forall a b c, leb a b = true -> leb b c = true -> leb a c = true) l :
  StronglySorted (fun a b => leb a b = true) (isort_by leb l).
Proof.
  induction l as [|x l IH]; [constructor|]. cbn [isort_by fold_right].
  apply insert_by_sorted; assumption.
Qed.

(* ordered_entries is sorted by the (group, index, tag) key of ordered_tags() *)
Lemma ordered_entries_sorted m :
  StronglySorted (fun a b => key_leb (sort_key (recommended_order m) (fst a))
                                     (sort_key (recommended_order m) (fst b)) = true)
                 (ordered_entries m).
Proof.
  unfold ordered_entries. apply (isort_by_sorted (fun a b => key_leb (sort_key (recommended_order m) (fst a))
                                     (sort_key (recommended_order m) (fst b)))).
  - intros a b. apply key_leb_total.
  - intros a b c. apply key_leb_trans.
Qed.

(* ---------- copy_missing_tables ---------- *)
Lemma copy_missing_never_overrides m src t d :
  lookup t m = Some d -> lookup t (copy_missing_tables m src) = Some d.
Proof. apply copy_missing_keeps. Qed.

Lemma copy_then_build_returns_supplied m src t d :
  pre (copy_missing_tables m src) -> lookup t m = Some d ->
  exists file f r, build (copy_missing_tables m src) = Some file /\ font_ref_new file = Some f /\
    table_data f t = Some r /\ len r = len d /\
    (is_long_head t d = false -> r = d) /\
    (is_long_head t d = true -> firstn 8 r = firstn 8 d /\ skipn 12 r = skipn 12 d).
Proof.
  intros H Hl. apply build_returns_tables; [exact H|]. apply copy_missing_keeps. exact Hl.
Qed.

(* every builder state reachable by add_raw / copy_missing_tables satisfies the map invariant *)
(* ---------- build drains the builder ---------- *)
Lemma keys_remove_perm t m : In t (keys m) -> Permutation (keys m) (t :: keys (remove_key t m)).
Proof.
  induction m as [|[k v] r IH]; intros H; [destruct H|].
  cbn [remove_key]. destruct (t =? k) eqn:E.
  - apply Z.eqb_eq in E. subst. apply Permutation_refl.
  - apply Z.eqb_neq in E. cbn [keys map fst] in *. destruct H as [H|H]; [congruence|].
    eapply perm_trans; [apply perm_skip, IH, H|]. apply perm_swap.
Qed.
Lemma drain_all l : forall m, Permutation l (keys m) -> fold_left (fun m t => remove_key t m) l m = [].
Proof.
  induction l as [|t l IH]; intros m H.
  - apply Permutation_nil in H. destruct m; [reflexivity|discriminate].
  - cbn [fold_left]. apply IH.
    assert (Hin : In t (keys m)) by (eapply Permutation_in; [exact H | left; reflexivity]).
    eapply Permutation_cons_inv. eapply perm_trans; [exact H|]. apply keys_remove_perm, Hin.
Qed.
(* whatever the builder held (zero-length tables included), after build() it holds nothing *)
Lemma build_drains m : after_build m = [].
Proof.
  unfold after_build, ordered_tags. apply drain_all.
  apply Permutation_sym. unfold keys. apply Permutation_map, ordered_entries_perm.
Qed.
Lemma build_drains_observations m t : lookup t (after_build m) = None /\ contains (after_build m) t = false.
Proof. rewrite build_drains. split; reflexivity. Qed.
(* so a builder reused after build() behaves like a fresh one: the ops after a build op start from [] *)
Lemma apply_ops_reuse (ops1 ops2 : list op) file m0 m1 :
  fold_left apply_op ops1 (Some m0) = Some m1 -> build m1 = Some file ->
  fold_left apply_op (ops1 ++ (6, 0, file) :: ops2) (Some m0) = fold_left apply_op ops2 (Some []).
Proof.
  intros H1 H2. rewrite fold_left_app, H1. cbn [fold_left]. unfold apply_op at 2. cbn [obind].
  change (6 =? 0) with false. change (6 =? 1) with false. change (6 =? 3) with false.
  change (6 =? 4) with false. change (6 =? 6) with true. cbv iota. rewrite H2. cbn [obind].
  assert (E : zlist_eqb file file = true).
  { unfold zlist_eqb. rewrite Nat.eqb_refl. cbn [andb]. clear. induction file as [|x f IH]; [reflexivity|].
    cbn [combine forallb fst snd]. rewrite Z.eqb_refl. exact IH. }
  rewrite E, build_drains. reflexivity.
Qed.

Lemma apply_op_none ops : fold_left apply_op ops None = None.
Proof. induction ops as [|o ops IH]; [reflexivity|]. cbn. exact IH. Qed.

Lemma add_table_wf m t dumped : wf m -> wf (add_table m t dumped).
Proof. intros H. destruct dumped; cbn [add_table]; [apply add_raw_wf|]; exact H. Qed.

Lemma apply_ops_wf ops : forall m0 m, wf m0 -> fold_left apply_op ops (Some m0) = Some m -> wf m.
Proof.
  induction ops as [|[[k t] d] ops IH]; intros m0 m H0 H.
  - cbn in H. inversion H. subst. exact H0.
  - cbn [fold_left] in H. unfold apply_op at 2 in H. cbn [obind] in H.
    destruct (k =? 0); [eapply IH; [|exact H]; apply add_raw_wf; exact H0|].
    destruct (k =? 1).
    { destruct (font_ref_new d) as [f|]; cbn [obind] in H.
      - eapply IH; [|exact H]. apply copy_missing_wf. exact H0.
      - rewrite apply_op_none in H. discriminate. }
    destruct (k =? 3); [eapply IH; [|exact H]; apply add_table_wf; exact H0|].
    destruct (k =? 4); [eapply IH; [|exact H]; apply add_table_wf; exact H0|].
    destruct (k =? 6).
    { destruct (build m0) as [file|]; cbn [obind] in H; [|rewrite apply_op_none in H; discriminate].
      destruct (zlist_eqb file d); [|rewrite apply_op_none in H; discriminate].
      eapply IH; [|exact H]. rewrite build_drains. apply wf_nil. }
    rewrite apply_op_none in H. discriminate.
Qed.

(* ---------- add_table ---------- *)
(* a failed add_table (dump_table returned Err) leaves the builder state unchanged *)
Lemma add_table_err_noop m t : add_table m t None = m.
Proof. reflexivity. Qed.
Lemma add_table_err_observations m t : forall k,
  lookup k (add_table m t None) = lookup k m /\ contains (add_table m t None) k = contains m k /\
  build (add_table m t None) = build m.
Proof. intros k. repeat split. Qed.
(* a successful one is add_raw of the compiled bytes *)
Lemma add_table_ok_is_add_raw m t bytes : add_table m t (Some bytes) = add_raw t bytes m.
Proof. reflexivity. Qed.
(* so a failed add_table for a fresh tag does not mask that tag in a later copy_missing_tables *)
Lemma failed_add_table_does_not_mask_copy m src t d :
  lookup t m = None -> In t (map r_tag (fr_records src)) -> table_data src t = Some d ->
  lookup t (copy_missing_tables (add_table m t None) src) = Some d.
Proof. intros H1 H2 H3. rewrite add_table_err_noop. apply copy_missing_copies; assumption. Qed.
(* in an op sequence a failed add_table can be deleted without changing the final state *)
Lemma apply_ops_drop_failed_add_table (ops1 ops2 : list op) t d m0 :
  fold_left apply_op (ops1 ++ (4, t, d) :: ops2) (Some m0) = fold_left apply_op (ops1 ++ ops2) (Some m0).
Proof.
  rewrite !fold_left_app. cbn [fold_left].
  destruct (fold_left apply_op ops1 (Some m0)) as [m|]; [reflexivity|].
  cbn [apply_op obind]. reflexivity.
Qed.
