(* C06 — the checksum of the whole built file is 0xB1B0AFBA when there is a head table >= 12 bytes *)
From Coq Require Import ZArith Lia List Bool Sorted Permutation.
From FV Require Import Lib.RustInt C06.Model C06.Checksum C06.BSearch C06.MapLemmas C06.Proofs C06.Reader.
Import ListNotations.
Open Scope Z_scope.
Ltac Zify.zify_post_hook ::= Z.div_mod_to_equations.

Definition zsum (l : list Z) : Z := fold_right Z.add 0 l.
Definition sumf {A} (f : A -> Z) (xs : list A) : Z := fold_right (fun x acc => f x + acc) 0 xs.

Lemma zsum_cons x l : zsum (x :: l) = x + zsum l.
Proof. reflexivity. Qed.
Lemma sumf_cons {A} (f : A -> Z) x a : sumf f (x :: a) = f x + sumf f a.
Proof. reflexivity. Qed.
Lemma zsum_app a b : zsum (a ++ b) = zsum a + zsum b.
Proof. induction a as [|x a IH]; [reflexivity|]. rewrite <- app_comm_cons, !zsum_cons, IH. lia. Qed.
Lemma sumf_app {A} (f : A -> Z) a b : sumf f (a ++ b) = sumf f a + sumf f b.
Proof. induction a as [|x a IH]; [reflexivity|]. rewrite <- app_comm_cons, !sumf_cons, IH. lia. Qed.
Lemma sumf_ext_in {A} (f g : A -> Z) xs : (forall x, In x xs -> f x = g x) -> sumf f xs = sumf g xs.
Proof.
  induction xs as [|x xs IH]; intros H; [reflexivity|]. rewrite !sumf_cons.
  rewrite (H x (or_introl eq_refl)), IH; [reflexivity|]. intros y Hy. apply H. right. exact Hy.
Qed.

(* checksums.into_iter().fold(0u32, u32::wrapping_add) *)
Lemma fold_wrap_sum l : forall s,
  (fold_left (fun a b => wrap_u 32 (a + b)) l s) mod 4294967296 = (s + zsum l) mod 4294967296.
Proof.
  induction l as [|x l IH]; intros s.
  - cbn. f_equal. lia.
  - cbn [fold_left]. rewrite zsum_cons. rewrite IH. unfold wrap_u. change (2 ^ 32) with 4294967296.
    rewrite Zplus_mod_idemp_l. f_equal. lia.
Qed.

(* one table's contribution *)
Lemma wsum_table_bytes adj t d : u32 adj ->
  wsum (table_bytes adj (t, d)) = wsum (zero_head t d) + (if is_long_head t d then adj else 0) /\
  aligned (table_bytes adj (t, d)).
Proof.
  intros Hadj. unfold table_bytes.
  set (z := zero_head t d).
  assert (Hp : padding_of z = padding_of (splice_head t z adj))
    by (apply padding_of_eq_len; symmetry; apply splice_head_len).
  rewrite Hp. split; [|apply padding_of_aligned].
  rewrite wsum_pad. unfold splice_head. subst z. rewrite is_long_head_zero.
  destruct (is_long_head t d) eqn:E; [|lia].
  unfold zero_head. rewrite E. unfold is_long_head in E. apply andb_prop in E. destruct E as [_ E].
  apply Z.leb_le in E. destruct (zero_head_parts d E) as [H8 H12]. rewrite H8, H12.
  destruct (long_head_split d E) as [Hl8 _].
  rewrite (wsum_splice (firstn 8 d) (to_be 4 adj) (skipn 12 d) Hl8 (to_be_length 4 adj)).
  rewrite (wsum_splice (firstn 8 d) [0;0;0;0] (skipn 12 d) Hl8 eq_refl).
  rewrite from_be_0000, from_to_be4 by exact Hadj. lia.
Qed.

Definition tsum (e : Z * list Z) : Z := wsum (zero_head (fst e) (snd e)).

Lemma cksums_sum tabs : forall pos,
  zsum (map r_cksum (records_at pos tabs)) mod 4294967296 = sumf tsum tabs mod 4294967296.
Proof.
  induction tabs as [|[t d] r IH]; intros pos; [reflexivity|].
  cbn [records_at map r_cksum]. rewrite zsum_cons, sumf_cons. unfold tsum at 1. cbn [fst snd].
  rewrite compute_checksum_wsum. unfold wrap_u. change (2 ^ 32) with 4294967296.
  rewrite Zplus_mod_idemp_l. rewrite Z.add_mod by lia. rewrite IH. rewrite <- Z.add_mod by lia. reflexivity.
Qed.

Section FileSum.
  Variable m : builder.
  Hypothesis Hpre : pre m.
  Variable d : list Z.
  Hypothesis Hhead : lookup TAG_head m = Some d.
  Hypothesis Hlong : 12 <= len d.

  Lemma adj_u32 : u32 (adj_of m).
  Proof. unfold adj_of, u32. pose proof (wrap_u_range 32 (2981146554 - total_of m) ltac:(lia)) as H.
         change (2 ^ 32) with 4294967296 in H. exact H. Qed.

  Lemma body_sum :
    wsum (flat_map (table_bytes (adj_of m)) (ordered_entries m)) = sumf tsum (ordered_entries m) + adj_of m /\
    aligned (flat_map (table_bytes (adj_of m)) (ordered_entries m)).
  Proof.
    pose proof adj_u32 as Hadj.
    destruct (wsum_flat_map_aligned _ (table_bytes (adj_of m)) (ordered_entries m)) as [Hsum Hal].
    { intros [t x] _. apply (wsum_table_bytes _ t x Hadj). }
    split; [|exact Hal]. rewrite Hsum. fold (sumf (fun x => wsum (table_bytes (adj_of m) x)) (ordered_entries m)).
    destruct Hpre as (Hwf & _).
    pose proof (proj1 (lookup_In _ _ _ Hwf) Hhead) as Hin.
    assert (Hin' : In (TAG_head, d) (ordered_entries m)) by (eapply Permutation_in; [apply ordered_entries_perm | exact Hin]).
    destruct (in_split _ _ Hin') as (a & b & Hab).
    assert (Hnd : NoDup (map fst (ordered_entries m))).
    { eapply Permutation_NoDup; [apply Permutation_map, ordered_entries_perm | apply wf_NoDup_keys, Hwf]. }
    rewrite Hab in Hnd |- *. rewrite map_app in Hnd. cbn [map fst] in Hnd.
    apply NoDup_remove_2 in Hnd.
    assert (Hother : forall e, In e (a ++ b) -> wsum (table_bytes (adj_of m) e) = tsum e).
    { intros [t x] He. destruct (wsum_table_bytes (adj_of m) t x Hadj) as [Hw _]. rewrite Hw. unfold tsum. cbn [fst snd].
      unfold is_long_head. destruct (t =? TAG_head) eqn:Et; [|cbn [andb]; lia].
      apply Z.eqb_eq in Et. subst t. exfalso. apply Hnd. rewrite <- map_app. apply (in_map fst) in He. exact He. }
    rewrite !sumf_app, !sumf_cons.
    rewrite (sumf_ext_in (fun x => wsum (table_bytes (adj_of m) x)) tsum a) by (intros e He; apply Hother, in_or_app; left; exact He).
    rewrite (sumf_ext_in (fun x => wsum (table_bytes (adj_of m) x)) tsum b) by (intros e He; apply Hother, in_or_app; right; exact He).
    destruct (wsum_table_bytes (adj_of m) TAG_head d Hadj) as [Hw _]. rewrite Hw.
    unfold is_long_head. rewrite Z.eqb_refl. replace (12 <=? len d) with true by lia. cbn [andb].
    change (tsum (TAG_head, d)) with (wsum (zero_head TAG_head d)). lia.
  Qed.

  Lemma file_checksum : compute_checksum (file_of m) = 2981146554.
  Proof.
    rewrite compute_checksum_wsum. unfold file_of.
    assert (Hal : aligned (dir_of m)).
    { apply aligned_len. rewrite (len_dir_of m). pose proof (len_nonneg' m). lia. }
    rewrite wsum_app by exact Hal. destruct body_sum as [Hb _]. rewrite Hb.
    unfold adj_of. unfold total_of.
    pose proof (fold_wrap_sum (map r_cksum (recs_of m) ++ [compute_checksum (dir_of m)]) 0) as HT.
    set (T := fold_left _ _ 0) in *.
    rewrite zsum_app in HT. rewrite (zsum_cons _ []) in HT. change (zsum []) with 0 in HT.
    pose proof (cksums_sum (ordered_entries m) (12 + 16 * len m)) as HC. fold (recs_of m) in HC.
    rewrite compute_checksum_wsum in HT.
    set (A := wsum (dir_of m)) in *. set (S := sumf tsum (ordered_entries m)) in *.
    set (Zc := zsum (map r_cksum (recs_of m))) in *.
    unfold wrap_u in *. change (2 ^ 32) with 4294967296 in *.
    clearbody T A S Zc. clear -HT HC. lia.
  Qed.
End FileSum.
