(* C06 — executable model of write-fonts' FontBuilder (write-fonts/src/font_builder.rs,
   write-fonts/src/util.rs SearchRange, generated TableDirectory/TableRecord writers) and of the
   reader side (read-fonts/src/lib.rs FontRef::{new,table_data}, generated TableDirectory reader,
   read-fonts/src/tables.rs compute_checksum), hand-written from the source statement by statement.
   No proofs in this file.  Bytes are [Z] in [0,256); tags are the u32 value of their 4 bytes
   (Tag's derived Ord on [u8;4] = big-endian u32 order).  [option] results of builder functions:
   None = panic in the overflow-checks profile; of reader functions: None = Err / Option::None. *)
From Coq Require Import ZArith List Bool String Ascii.
From FV Require Import Lib.RustInt.
Import ListNotations.
Open Scope Z_scope.

Definition len {A} (l : list A) : Z := Z.of_nat (List.length l).

(* ---- tags ---- *)
Definition tag_of (s : string) : Z :=
  from_be (map (fun c => Z.of_nat (nat_of_ascii c)) (list_ascii_of_string s)).
Definition TAG_head : Z := Eval vm_compute in tag_of "head".
Definition TAG_CFF : Z := Eval vm_compute in tag_of "CFF ".
Definition TAG_DSIG : Z := Eval vm_compute in tag_of "DSIG".
(* RECOMMENDED_TABLE_ORDER_TTF / _CFF *)
Definition ORDER_TTF : list Z := Eval vm_compute in map tag_of
  ["head"; "hhea"; "maxp"; "OS/2"; "hmtx"; "LTSH"; "VDMX"; "hdmx"; "cmap"; "fpgm"; "prep"; "cvt ";
   "loca"; "glyf"; "kern"; "name"; "post"; "gasp"; "PCLT"]%string.
Definition ORDER_CFF : list Z := Eval vm_compute in map tag_of
  ["head"; "hhea"; "maxp"; "OS/2"; "name"; "cmap"; "post"; "CFF "]%string.

(* ---- FontBuilder state: BTreeMap<Tag, Cow<[u8]>> as an association list sorted by tag ---- *)
Definition builder := list (Z * list Z).

(* BTreeMap::insert (FontBuilder::add_raw): insert or replace *)
Fixpoint add_raw (t : Z) (d : list Z) (m : builder) : builder :=
  match m with
  | [] => [(t, d)]
  | (k, v) :: r =>
      if t <? k then (t, d) :: m
      else if t =? k then (t, d) :: r
      else (k, v) :: add_raw t d r
  end.

(* BTreeMap::get *)
Fixpoint lookup (t : Z) (m : builder) : option (list Z) :=
  match m with
  | [] => None
  | (k, v) :: r => if t =? k then Some v else lookup t r
  end.

(* FontBuilder::contains *)
Definition contains (m : builder) (t : Z) : bool :=
  match lookup t m with Some _ => true | None => false end.

(* ---- read-fonts/src/tables.rs compute_checksum ---- *)
Fixpoint cksum_acc (sum : Z) (l : list Z) : Z :=
  match l with
  | a :: b :: c :: d :: r => cksum_acc (wrap_u 32 (sum + from_be [a; b; c; d])) r
  | [a; b; c] => wrap_u 32 (sum + from_be [a; b; c; 0])
  | [a; b] => wrap_u 32 (sum + from_be [a; b; 0; 0])
  | [a] => wrap_u 32 (sum + from_be [a; 0; 0; 0])
  | [] => wrap_u 32 (sum + 0)
  end.
Definition compute_checksum (l : list Z) : Z := cksum_acc 0 l.

(* ---- font_builder.rs round4 / checksum_and_padding ---- *)
Definition round4 (sz : Z) : Z := Z.land (sz + 3) (Z.lnot 3).
Definition padding_of (d : list Z) : Z := round4 (len d) - len d.

(* ---- util.rs SearchRange::compute(n_items, item_size); the three try_into().unwrap() ---- *)
Definition search_range (n item : Z) : option (Z * Z * Z) :=
  let entry_selector := if n =? 0 then 0 else Z.log2 n in   (* (n as f64).log2().floor() as usize; -inf as usize = 0 *)
  let sr := 2 ^ entry_selector * item in
  let range_shift := Z.max 0 (n * item - sr) in              (* saturating_sub *)
  do sr16 <- chk_u 16 sr;;
  do es16 <- chk_u 16 entry_selector;;
  do rs16 <- chk_u 16 range_shift;;
  Some (sr16, es16, rs16).

(* ---- FontBuilder::ordered_tags: sort_unstable_by_key with key (group, idx, tag); keys are
   pairwise distinct (the tag is part of the key) so stability is irrelevant.  The model sorts the
   (tag, data) entries directly: build() looks every ordered tag up with get_mut(tag).unwrap(),
   which cannot fail because the tags are the map's own keys. ---- *)
Fixpoint position (t : Z) (l : list Z) (i : Z) : option Z :=
  match l with
  | [] => None
  | x :: r => if x =? t then Some i else position t r (i + 1)
  end.
Definition sort_key (recommended : list Z) (t : Z) : Z * Z * Z :=
  if t =? TAG_DSIG then (2, 0, t)
  else match position t recommended 0 with
       | Some idx => (0, idx, t)
       | None => (1, 0, t)
       end.
Definition key_leb (a b : Z * Z * Z) : bool :=
  let '(a0, a1, a2) := a in
  let '(b0, b1, b2) := b in
  if a0 <? b0 then true else if b0 <? a0 then false
  else if a1 <? b1 then true else if b1 <? a1 then false
  else a2 <=? b2.
Fixpoint insert_by {A} (leb : A -> A -> bool) (x : A) (l : list A) : list A :=
  match l with
  | [] => [x]
  | y :: r => if leb x y then x :: l else y :: insert_by leb x r
  end.
Definition isort_by {A} (leb : A -> A -> bool) (l : list A) : list A :=
  fold_right (insert_by leb) [] l.

Definition recommended_order (m : builder) : list Z :=
  if contains m TAG_CFF then ORDER_CFF else ORDER_TTF.
Definition ordered_entries (m : builder) : list (Z * list Z) :=
  let rec := recommended_order m in
  isort_by (fun a b => key_leb (sort_key rec (fst a)) (sort_key rec (fst b))) m.
Definition ordered_tags (m : builder) : list Z := map fst (ordered_entries m).

(* ---- FontBuilder::build ---- *)
(* head[8..12].copy_from_slice(&[0,0,0,0]) when tag == head && len >= 12 *)
Definition is_long_head (t : Z) (d : list Z) : bool := (t =? TAG_head) && (12 <=? len d).
Definition zero_head (t : Z) (d : list Z) : list Z :=
  if is_long_head t d then firstn 8 d ++ [0; 0; 0; 0] ++ skipn 12 d else d.
(* second loop: table[..8] ++ adjustment.to_be_bytes() ++ table[12..] *)
Definition splice_head (t : Z) (d : list Z) (adj : Z) : list Z :=
  if is_long_head t d then firstn 8 d ++ to_be 4 adj ++ skipn 12 d else d.

Definition record := (Z * Z * Z * Z)%type.      (* tag, checksum, offset, length *)
Definition r_tag (r : record) : Z := let '(t, _, _, _) := r in t.
Definition r_cksum (r : record) : Z := let '(_, c, _, _) := r in c.
Definition r_offset (r : record) : Z := let '(_, _, o, _) := r in o.
Definition r_length (r : record) : Z := let '(_, _, _, l) := r in l.

(* first loop of build(): [position] is a u32 whose += panic on overflow; data.len() as u32
   truncates.  Returns the records in table order (their checksums are the [checksums] vector). *)
Fixpoint layout (position : Z) (tabs : list (Z * list Z)) : option (list record) :=
  match tabs with
  | [] => Some []
  | (tag, data) :: rest =>
      let offset := position in
      let length := wrap_u 32 (len data) in
      do position <- chk_u 32 (position + length);;
      let data' := zero_head tag data in
      let checksum := compute_checksum data' in
      let padding := padding_of data' in
      do position <- chk_u 32 (position + padding);;
      do recs <- layout position rest;;
      Some ((tag, checksum, offset, length) :: recs)
  end.

(* table_records.sort_unstable_by_key(|record| record.tag): tags are distinct *)
Definition sort_records (l : list record) : list record :=
  isort_by (fun a b => r_tag a <=? r_tag b) l.

(* generated TableRecord / TableDirectory FontWrite::write_into *)
Definition record_bytes (r : record) : list Z :=
  to_be 4 (r_tag r) ++ to_be 4 (r_cksum r) ++ to_be 4 (r_offset r) ++ to_be 4 (r_length r).
Definition TT_SFNT_VERSION : Z := 65536.
Definition directory_bytes (sr es rs : Z) (recs : list record) : list Z :=
  to_be 4 TT_SFNT_VERSION ++ to_be 2 (len recs) ++ to_be 2 sr ++ to_be 2 es ++ to_be 2 rs
  ++ flat_map record_bytes recs.

Definition table_bytes (adj : Z) (e : Z * list Z) : list Z :=
  let '(tag, data) := e in
  let table := zero_head tag data in            (* self.tables holds the zeroed head by now *)
  splice_head tag table adj ++ repeat 0 (Z.to_nat (padding_of table)).

Definition build (m : builder) : option (list Z) :=
  let header_len := 4 + 2 * 4 + len m * 16 in
  let table_order := ordered_entries m in
  do recs <- layout (wrap_u 32 header_len) table_order;;
  let sorted := sort_records recs in
  (* TableDirectory::from_table_records *)
  if 65535 <? len sorted then None else              (* assert!(len <= u16::MAX) *)
  do sr <- search_range (len sorted) 16;;
  let '(srange, esel, rshift) := sr in
  let data := directory_bytes srange esel rshift sorted in
  let checksums := map r_cksum recs ++ [compute_checksum data] in
  let checksum := fold_left (fun a b => wrap_u 32 (a + b)) checksums 0 in
  let checksum_adjustment := wrap_u 32 (2981146554 - checksum) in    (* 0xB1B0AFBA *)
  Some (data ++ flat_map (table_bytes checksum_adjustment) table_order).

(* ---- reader: generated TableDirectory::read + FontRef::new / with_table_directory ---- *)
Record fontref := mk_fontref {
  fr_data : list Z;
  fr_sfnt : Z; fr_num : Z; fr_srange : Z; fr_esel : Z; fr_rshift : Z;
  fr_records : list record }.

Definition slice (d : list Z) (start n : Z) : option (list Z) :=   (* bytes.get(start..start+n) *)
  if start + n <=? len d then Some (firstn (Z.to_nat n) (skipn (Z.to_nat start) d)) else None.
Definition read_u (w : Z) (d : list Z) (off : Z) : option Z :=       (* FontData::read_at *)
  do s <- slice d off w;; Some (from_be s).
Definition u32_at (d : list Z) (off : Z) : Z := from_be (firstn 4 (skipn (Z.to_nat off) d)).
Definition u16_at (d : list Z) (off : Z) : Z := from_be (firstn 2 (skipn (Z.to_nat off) d)).

(* read_array::<TableRecord>: n records of 16 bytes *)
Fixpoint parse_records (n : nat) (d : list Z) : list record :=
  match n with
  | O => []
  | S k => (u32_at d 0, u32_at d 4, u32_at d 8, u32_at d 12) :: parse_records k (skipn 16 d)
  end.

Definition font_ref_new (data : list Z) : option fontref :=
  (* cursor.advance::<u32>(); num_tables = cursor.read()?; three advances; advance_by; finish *)
  do num_tables <- read_u 2 data 4;;
  let table_records_byte_len := num_tables * 16 in
  let pos := 12 + table_records_byte_len in
  if len data <? pos then None else                     (* check_in_bounds *)
  let sfnt := u32_at data 0 in
  if (sfnt =? 65536) || (sfnt =? 1330926671) || (sfnt =? 1953658213) then   (* TT, 'OTTO', 'true' *)
    Some (mk_fontref data sfnt num_tables (u16_at data 6) (u16_at data 8) (u16_at data 10)
            (parse_records (Z.to_nat num_tables) (skipn 12 data)))
  else None.

(* core::slice::binary_search_by (Rust >= 1.82): no early exit *)
Fixpoint bs_loop (fuel : nat) (tags : list Z) (t : Z) (base size : Z) : Z :=
  match fuel with
  | O => base
  | S f =>
      if 1 <? size then
        let half := size / 2 in
        let mid := base + half in
        let base := if t <? nth (Z.to_nat mid) tags 0 then base else mid in   (* cmp == Greater *)
        bs_loop f tags t base (size - half)
      else base
  end.
Definition binary_search (tags : list Z) (t : Z) : option Z :=
  if len tags =? 0 then None else
  let base := bs_loop (List.length tags) tags t 0 (len tags) in
  if nth (Z.to_nat base) tags 0 =? t then Some base else None.

(* FontRef::table_data *)
Definition table_data (f : fontref) (tag : Z) : option (list Z) :=
  do idx <- binary_search (map r_tag (fr_records f)) tag;;
  do rec <- nth_error (fr_records f) (Z.to_nat idx);;
  let start := r_offset rec in
  if start =? 0 then None else                        (* Offset32::non_null *)
  slice (fr_data f) start (r_length rec).

(* FontBuilder::copy_missing_tables *)
Definition copy_missing_tables (m : builder) (f : fontref) : builder :=
  fold_left (fun m rec =>
               let tag := r_tag rec in
               if contains m tag then m
               else match table_data f tag with
                    | Some data => add_raw tag data m
                    | None => m
                    end) (fr_records f) m.

(* FontBuilder::add_table<T>: `let bytes = crate::dump_table(table).map_err(..)?; Ok(self.add_raw(tag, bytes))`.
   Compiling the typed table (validation + packing, properties C04/C05) is external to this model: its
   outcome is an input.  [Some bytes] = dump_table returned Ok(bytes); [None] = it returned Err, and the `?`
   returns before the builder is touched. *)
Definition add_table (m : builder) (tag : Z) (dumped : option (list Z)) : builder :=
  match dumped with
  | Some bytes => add_raw tag bytes m
  | None => m
  end.

(* build(&mut self) drains the builder: its second loop does `self.tables.remove(&tag).unwrap()` for every
   tag of table_order (BTreeMap::remove = delete the binding).  [after_build m] is the state left behind. *)
Fixpoint remove_key (t : Z) (m : builder) : builder :=
  match m with
  | [] => []
  | (k, v) :: r => if t =? k then r else (k, v) :: remove_key t r
  end.
Definition after_build (m : builder) : builder :=
  fold_left (fun m t => remove_key t m) (ordered_tags m) m.

(* every tag literal that font_builder.rs treats specially (head, 'CFF ', DSIG, the two recommended orders);
   the harness extracts the tag literals of the non-test source at run time and the [(5, _, tags)] case
   demands the two sets be equal, so a new special-cased tag in the code breaks the tie *)
Definition special_tags : list Z := TAG_head :: TAG_CFF :: TAG_DSIG :: ORDER_TTF ++ ORDER_CFF.

(* ---- correspondence case format (written by harness/src/bin/c06.rs) ----
   case = (ops, probes, built, (opens, header, tags, queries))
   ops   : (0, tag, bytes) = add_raw; (1, _, font bytes) = copy_missing_tables(FontRef::new(bytes));
           (3, T::TAG, bytes) = add_table(&t) where dump_table(&t) = Ok(bytes) and add_table returned Ok;
           (4, T::TAG, _) = add_table(&t) where dump_table(&t) = Err(_) and add_table returned Err;
           (6, _, file) = an intermediate build() on the same builder value which returned [file]; the builder
           is left drained and the following ops act on it (builder reuse);
           a single (2, _, bytes) = no build, the reader is run on [bytes] as given (malformed stream);
           a single (5, _, tags) = no build: [tags] are the 4-byte tag literals found in the non-test part of
           font_builder.rs — they must be exactly the model's [special_tags]
   probes: (tag, FontBuilder::contains(tag)) asked after the last op, before build()
   built : Some file = what FontBuilder::build returned; None = it panicked
   opens : FontRef::new(file).is_ok(); header = [sfnt; num; search_range; entry_selector; range_shift];
   tags  : directory tags in directory order; queries : (tag, table_data(tag)) *)
Definition op := (Z * Z * list Z)%type.
Definition obs := (bool * list Z * list Z * list (Z * option (list Z)))%type.
Definition case := (list op * list (Z * bool) * option (list Z) * obs)%type.

Definition zlist_eqb (a b : list Z) : bool :=
  (Nat.eqb (List.length a) (List.length b)) && forallb (fun p => Z.eqb (fst p) (snd p)) (combine a b).
Definition ozlist_eqb (a b : option (list Z)) : bool :=
  match a, b with
  | Some x, Some y => zlist_eqb x y
  | None, None => true
  | _, _ => false
  end.

Definition apply_op (m : option builder) (o : op) : option builder :=
  do m <- m;;
  let '(k, t, d) := o in
  if k =? 0 then Some (add_raw t d m)
  else if k =? 1 then (do f <- font_ref_new d;; Some (copy_missing_tables m f))
  else if k =? 3 then Some (add_table m t (Some d))
  else if k =? 4 then Some (add_table m t None)
  else if k =? 6 then (do file <- build m;; if zlist_eqb file d then Some (after_build m) else None)
  else None.
Definition apply_ops (ops : list op) : option builder := fold_left apply_op ops (Some []).

Definition model_file (ops : list op) : option (option (list Z)) :=   (* outer None = bad case *)
  match ops with
  | [(2, _, bytes)] => Some (Some bytes)
  | [(5, _, tags)] =>
      if forallb (fun t => existsb (Z.eqb t) special_tags) tags
         && forallb (fun t => existsb (Z.eqb t) tags) special_tags
      then Some None else None
  | _ => do m <- apply_ops ops;; Some (build m)
  end.

Definition check_reader (file : list Z) (o : obs) : bool :=
  let '(opens, header, tags, queries) := o in
  match font_ref_new file with
  | None => negb opens
  | Some f =>
      opens
      && zlist_eqb header [fr_sfnt f; fr_num f; fr_srange f; fr_esel f; fr_rshift f]
      && zlist_eqb tags (map r_tag (fr_records f))
      && forallb (fun q => ozlist_eqb (table_data f (fst q)) (snd q)) queries
  end.

Definition check_probes (ops : list op) (probes : list (Z * bool)) : bool :=
  match ops with
  | [(2, _, _)] => true
  | [(5, _, _)] => true
  | _ => match apply_ops ops with
         | Some m => forallb (fun p => Bool.eqb (contains m (fst p)) (snd p)) probes
         | None => false
         end
  end.

Definition check_case (c : case) : bool :=
  let '(ops, probes, built, o) := c in
  match model_file ops with
  | None => false
  | Some mf =>
      check_probes ops probes &&
      ozlist_eqb mf built &&
      match built with
      | Some file => check_reader file o
      | None => true
      end
  end.
