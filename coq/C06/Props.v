(* C06 — property theorems.  Only statements, [exact lemma] and Print Assumptions. *)
From Coq Require Import ZArith List Sorted Permutation.
From FV Require Import Lib.RustInt C06.Model C06.Checksum C06.BSearch C06.MapLemmas C06.Proofs.
Import ListNotations.
Open Scope Z_scope.

Theorem c06_build_defined : forall m, pre m -> build m = Some (file_of m).
Proof. exact build_eq. Qed.

Print Assumptions c06_build_defined.
