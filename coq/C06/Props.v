(* C06 — property theorems.  Only statements, [exact lemma] and Print Assumptions.
   Vocabulary (coq/C06/Model.v, Proofs.v, MapLemmas.v):
     builder = association list tag -> bytes sorted by tag (the BTreeMap of FontBuilder);
     pre m   = wf m (strictly ascending keys) /\ every tag is a u32 /\ len m <= 4095
               /\ 12 + 16*len m + sum of round4(table lengths) < 2^32
               — the size preconditions under which the real build() neither panics in
               SearchRange::compute's u16 conversions nor overflows its u32 position;
     build / font_ref_new / table_data / compute_checksum = models of FontBuilder::build,
     FontRef::new, FontRef::table_data, read_fonts::tables::compute_checksum;
     is_long_head t d = (t is 'head' and d has at least 12 bytes). *)
From Coq Require Import ZArith List Sorted Permutation.
From FV Require Import Lib.RustInt C06.Model C06.Checksum C06.BSearch C06.MapLemmas C06.Proofs C06.Reader C06.FileSum C06.Final.
Import ListNotations.
Open Scope Z_scope.

(* the assembled font opens successfully *)
Theorem c06_build_opens : forall m, pre m ->
  exists file f, build m = Some file /\ font_ref_new file = Some f /\ fr_sfnt f = 65536.
Proof. exact build_opens. Qed.

(* lists exactly those tags in ascending order; numTables and the binary-search fields *)
Theorem c06_build_lists_exactly : forall m, pre m ->
  exists file f, build m = Some file /\ font_ref_new file = Some f /\
    fr_num f = len m /\ map r_tag (fr_records f) = keys m /\
    StronglySorted Z.lt (map r_tag (fr_records f)) /\
    (fr_srange f, fr_esel f, fr_rshift f) =
      (if len m =? 0 then (16, 0, 0)
       else (2 ^ Z.log2 (len m) * 16, Z.log2 (len m), len m * 16 - 2 ^ Z.log2 (len m) * 16)).
Proof. exact build_lists_exactly. Qed.

(* returns for each tag exactly the bytes supplied (head's checkSumAdjustment field excepted) *)
Theorem c06_build_returns_tables : forall m t d, pre m -> lookup t m = Some d ->
  exists file f r, build m = Some file /\ font_ref_new file = Some f /\ table_data f t = Some r /\
    len r = len d /\
    (is_long_head t d = false -> r = d) /\
    (is_long_head t d = true -> firstn 8 r = firstn 8 d /\ skipn 12 r = skipn 12 d).
Proof. exact build_returns_tables. Qed.

Theorem c06_absent_tag_none : forall m t, pre m -> lookup t m = None ->
  exists file f, build m = Some file /\ font_ref_new file = Some f /\ table_data f t = None.
Proof. exact absent_tag_none. Qed.

(* table data is 4-byte aligned and zero padded, inside the file, file length a multiple of 4;
   every directory checksum equals the checksum of its table (head with its adjustment field zeroed) *)
Theorem c06_build_aligned_padded_record_checksums : forall m, pre m ->
  exists file f, build m = Some file /\ font_ref_new file = Some f /\
    len file mod 4 = 0 /\
    forall r, In r (fr_records f) ->
      exists d tbl p q, lookup (r_tag r) m = Some d /\ table_data f (r_tag r) = Some tbl /\
        r_cksum r = compute_checksum (zero_head (r_tag r) d) /\
        r_length r = len d /\ r_offset r mod 4 = 0 /\ 12 + 16 * len m <= r_offset r /\
        len p = r_offset r /\
        file = p ++ tbl ++ repeat 0 (Z.to_nat (round4 (len d) - len d)) ++ q.
Proof. exact build_aligned_padded_checksums. Qed.

(* tables are laid out back to back (each padded to a multiple of 4) right after the directory, in
   ordered_tags() order, which is sorted by the (group, recommended index, tag) key *)
Theorem c06_build_layout : forall m, pre m ->
  exists file dir adj, build m = Some file /\ len dir = 12 + 16 * len m /\
    file = dir ++ flat_map (table_bytes adj) (ordered_entries m) /\
    forall e, len (table_bytes adj e) = round4 (len (snd e)).
Proof. exact build_layout. Qed.
Theorem c06_ordered_entries_sorted : forall m,
  StronglySorted (fun a b => key_leb (sort_key (recommended_order m) (fst a))
                                     (sort_key (recommended_order m) (fst b)) = true)
                 (ordered_entries m).
Proof. exact ordered_entries_sorted. Qed.
Theorem c06_ordered_entries_perm : forall m, Permutation m (ordered_entries m).
Proof. exact ordered_entries_perm. Qed.

(* with a head table of at least 12 bytes the checksum of the whole file is 0xB1B0AFBA *)
Theorem c06_build_file_checksum : forall m d, pre m -> lookup TAG_head m = Some d -> 12 <= len d ->
  exists file, build m = Some file /\ compute_checksum file = 2981146554.
Proof. exact build_file_checksum. Qed.
Theorem c06_checksum_app : forall l1 l2, aligned l1 ->
  compute_checksum (l1 ++ l2) = wrap_u 32 (compute_checksum l1 + compute_checksum l2).
Proof. exact checksum_app. Qed.
Theorem c06_checksum_zero_pad : forall l,
  compute_checksum (l ++ repeat 0 (Z.to_nat (padding_of l))) = compute_checksum l.
Proof. exact checksum_zero_pad. Qed.

(* the result does not depend on the order in which tags were added *)
Theorem c06_build_insertion_order_irrelevant : forall ops1 ops2,
  (forall t, lookup t (add_all ops1 []) = lookup t (add_all ops2 [])) ->
  build (add_all ops1 []) = build (add_all ops2 []).
Proof. exact build_insertion_order_irrelevant. Qed.
Theorem c06_build_permuted_adds : forall ops1 ops2, Permutation ops1 ops2 -> NoDup (map fst ops1) ->
  build (add_all ops1 []) = build (add_all ops2 []).
Proof. exact build_permuted_adds. Qed.
Theorem c06_add_raw_comm : forall t1 d1 t2 d2 m, wf m -> t1 <> t2 ->
  add_raw t1 d1 (add_raw t2 d2 m) = add_raw t2 d2 (add_raw t1 d1 m).
Proof. exact add_raw_comm. Qed.
Theorem c06_add_all_is_apply_ops : forall ops m,
  fold_left apply_op (map (fun o => (0, fst o, snd o)) ops) (Some m) = Some (add_all ops m).
Proof. exact apply_ops_adds. Qed.
Theorem c06_reachable_states_wf : forall ops m0 m, wf m0 -> fold_left apply_op ops (Some m0) = Some m -> wf m.
Proof. exact apply_ops_wf. Qed.

(* copying missing tables from an existing font never overrides a table already supplied *)
Theorem c06_copy_missing_never_overrides : forall m src t d,
  lookup t m = Some d -> lookup t (copy_missing_tables m src) = Some d.
Proof. exact copy_missing_never_overrides. Qed.
Theorem c06_copy_missing_copies_missing : forall src m t d, lookup t m = None ->
  In t (map r_tag (fr_records src)) -> table_data src t = Some d ->
  lookup t (copy_missing_tables m src) = Some d.
Proof. exact copy_missing_copies. Qed.
Theorem c06_copy_then_build_returns_supplied : forall m src t d,
  pre (copy_missing_tables m src) -> lookup t m = Some d ->
  exists file f r, build (copy_missing_tables m src) = Some file /\ font_ref_new file = Some f /\
    table_data f t = Some r /\ len r = len d /\
    (is_long_head t d = false -> r = d) /\
    (is_long_head t d = true -> firstn 8 r = firstn 8 d /\ skipn 12 r = skipn 12 d).
Proof. exact copy_then_build_returns_supplied. Qed.

(* add_table: a call whose compilation (dump_table) fails leaves the builder exactly as it was — no tag
   appears, contains/lookup/build are unchanged, a later copy_missing_tables still copies that tag —
   and a successful one is add_raw of the compiled bytes.  (dump_table itself is external: C04/C05.) *)
Theorem c06_add_table_err_noop : forall m t, add_table m t None = m.
Proof. exact add_table_err_noop. Qed.
Theorem c06_add_table_err_observations : forall m t k,
  lookup k (add_table m t None) = lookup k m /\ contains (add_table m t None) k = contains m k /\
  build (add_table m t None) = build m.
Proof. exact add_table_err_observations. Qed.
Theorem c06_add_table_ok_is_add_raw : forall m t bytes, add_table m t (Some bytes) = add_raw t bytes m.
Proof. exact add_table_ok_is_add_raw. Qed.
Theorem c06_failed_add_table_does_not_mask_copy : forall m src t d,
  lookup t m = None -> In t (map r_tag (fr_records src)) -> table_data src t = Some d ->
  lookup t (copy_missing_tables (add_table m t None) src) = Some d.
Proof. exact failed_add_table_does_not_mask_copy. Qed.
Theorem c06_apply_ops_drop_failed_add_table : forall (ops1 ops2 : list op) t d m0,
  fold_left apply_op (ops1 ++ (4, t, d) :: ops2) (Some m0) = fold_left apply_op (ops1 ++ ops2) (Some m0).
Proof. exact apply_ops_drop_failed_add_table. Qed.

(* build(&mut self) drains the builder — every binding, zero-length tables included — so a reused builder
   starts the next font from the empty map: nothing of the previous font is listed, and no stale entry can
   make copy_missing_tables skip a tag *)
Theorem c06_build_drains : forall m, after_build m = [].
Proof. exact build_drains. Qed.
Theorem c06_build_drains_observations : forall m t,
  lookup t (after_build m) = None /\ contains (after_build m) t = false.
Proof. exact build_drains_observations. Qed.
Theorem c06_apply_ops_reuse : forall (ops1 ops2 : list op) file m0 m1,
  fold_left apply_op ops1 (Some m0) = Some m1 -> build m1 = Some file ->
  fold_left apply_op (ops1 ++ (6, 0, file) :: ops2) (Some m0) = fold_left apply_op ops2 (Some []).
Proof. exact apply_ops_reuse. Qed.

(* the bound on the number of tables in [pre] is sharp: from 4096 tables on build() panics *)
Theorem c06_build_precondition_sharp : forall m, 4096 <= len m -> build m = None.
Proof. exact build_too_many. Qed.

Print Assumptions c06_build_opens.
Print Assumptions c06_build_lists_exactly.
Print Assumptions c06_build_returns_tables.
Print Assumptions c06_absent_tag_none.
Print Assumptions c06_build_aligned_padded_record_checksums.
Print Assumptions c06_build_layout.
Print Assumptions c06_ordered_entries_sorted.
Print Assumptions c06_ordered_entries_perm.
Print Assumptions c06_build_file_checksum.
Print Assumptions c06_checksum_app.
Print Assumptions c06_checksum_zero_pad.
Print Assumptions c06_build_insertion_order_irrelevant.
Print Assumptions c06_build_permuted_adds.
Print Assumptions c06_add_raw_comm.
Print Assumptions c06_add_all_is_apply_ops.
Print Assumptions c06_reachable_states_wf.
Print Assumptions c06_copy_missing_never_overrides.
Print Assumptions c06_copy_missing_copies_missing.
Print Assumptions c06_copy_then_build_returns_supplied.
Print Assumptions c06_build_precondition_sharp.
Print Assumptions c06_add_table_err_noop.
Print Assumptions c06_add_table_err_observations.
Print Assumptions c06_add_table_ok_is_add_raw.
Print Assumptions c06_failed_add_table_does_not_mask_copy.
Print Assumptions c06_apply_ops_drop_failed_add_table.
Print Assumptions c06_build_drains.
Print Assumptions c06_build_drains_observations.
Print Assumptions c06_apply_ops_reuse.
